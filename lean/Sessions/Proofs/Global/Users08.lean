import Sessions.Proofs.Global.Users08Ops
/-!
# C08 — "Login attaches and rotates; exclusive login and logout detach everywhere"

T-local theorems about `LogOut(uid)`, `RefreshUser`, `s.LogIn`, `s.LogOut` of the model `Sx`, fault-free
(`NoFail`), from states satisfying the coherence invariant `Inv`, for every order oracle and every listing order `le`.
Helper material (essentials `E`, `cacheGet_E`, `cacheSet_E`, `round_core`, `loop_delta`, `regenerate_E`) is in
`Users08Ops.lean`.

## the reusable "delta" forms
* `mem_userSessions`, `userSessions_pop`, `mem_userSessions_of_lookup`, `mem_userSessions_noextra`
* `UsersDelta` — `setUserAll_delta`, `forUser_delta`, `logoutUser_delta`, `refreshUser_delta`
  (+ `forUser_vers`, `logoutUser_vers`, `refreshUser_vers`, `UsersDelta.rec_of`, `UsersDelta.rec_to`)
* `LogoutFrame` — `hlogout_frame` (any state); `LogoutDelta` — `hlogout_delta` (`Inv`, `HOK`)
* `LoginDelta` — `hlogin_delta_HL` (`HL s h` suffices), `hlogin_delta` (`HOK s h`); event level: fields `saves`,
  `refSaved`, and `hlogin_saves` (the collapsed form, needs `RefAgrees`)

## the property
* (1) `c08_logoutUser` (no side condition); `c08_refresh` (no side condition: success, new version in the user table and
  in every cached object of the user), `c08_refresh_users` (records unchanged; needs `StaleOK`, counter-example
  `Ex08.refresh_stale_attaches`); `c08_missing_skipped`, `missing_load`, `c08_missing_listed`
* (2) `c08_login_HL`, `c08_login`
* (3) `c08_logout_obj`, `c08_logout` (needs `RecOf`, counter-example `Ex08.logout_needs_record`), `c08_logout_of_user`

## extra hypotheses (each a named `def` with a counter-example)
* `StaleOK s uid` — the stale listing entries of `uid` point at records of `uid` (or at nothing). Needed ONLY for
  "RefreshUser leaves the user ids of the records alone". Not needed for `c08_logoutUser`, `c08_refresh`, the deltas.
* `RecOf c s h` — the handle's object has a record it agrees with (true for the object cached under its id). Needed
  ONLY for "after `s.LogOut()` the record exists and carries no user" when the object carried no user to begin with.
* `RefAgrees s h` — the record under the object's id (if any) carries the object's `ref` (true for the cached object,
  `refAgrees_of_cached`, and under `RecOf`). Needed ONLY for `hlogin_saves`; `#guard` counter-example
  `Ex08.login_saves_needs_refAgrees` on `Ex08.exU`.
* `HOK s h` is needed for NO user-related conclusion about `s.LogIn`, nor for `Inv` of the state it leaves
  (`hlogin_delta_HL`); `hlogout_delta` needs it for `Inv` (the direct save by-passes a cached second copy).
-/
namespace Sx.Glob

/-! ### `UserSessions` -/

/-- the ids `UserSessions(uid)` lists: the keys of the records carrying `uid`, and the stale extras -/
theorem mem_userSessions (le : ID → ID → Bool) (s : State) (uid : String) (k : ID) :
    k ∈ userSessions le s uid ↔ (∃ r, (k, r) ∈ s.store ∧ r.user = some uid) ∨ (uid, k) ∈ s.extra := by
  unfold userSessions
  simp only [List.mem_mergeSort, List.mem_eraseDups, List.mem_append, List.mem_filter, List.mem_map]
  constructor
  · rintro (⟨⟨k', r⟩, ⟨hm, hu⟩, rfl⟩ | ⟨⟨⟨u', k'⟩, ⟨hm, hu⟩, rfl⟩, _⟩)
    · exact Or.inl ⟨r, hm, by simpa using hu⟩
    · simp only [decide_eq_true_eq] at hu; subst hu; exact Or.inr hm
  · rintro (⟨r, hm, hu⟩ | hm)
    · exact Or.inl ⟨(k, r), ⟨hm, by simpa using hu⟩, rfl⟩
    · by_cases hk : ∃ a, (a ∈ s.store ∧ decide (a.2.user = some uid) = true) ∧ a.1 = k
      · exact Or.inl hk
      · refine Or.inr ⟨⟨(uid, k), ⟨hm, by simp⟩, rfl⟩, ?_⟩
        simp only [Bool.not_eq_true', List.contains_eq_mem, decide_eq_false_iff_not, List.mem_map, List.mem_filter]
        exact hk

/-- the listing reads store and extras only -/
theorem userSessions_pop (le : ID → ID → Bool) (s : State) (uid : String) :
    userSessions le s.pop uid = userSessions le s uid := rfl

/-- a stored record that carries `uid` is listed -/
theorem mem_userSessions_of_lookup {le : ID → ID → Bool} {s : State} {uid : String} {k : ID} {r : Rec}
    (hl : lookup k s.store = some r) (hu : r.user = some uid) : k ∈ userSessions le s uid :=
  (mem_userSessions le s uid k).2 (Or.inl ⟨r, Sx.lookup_some_mem hl, hu⟩)

/-- without stale extras (and with unique store keys, `Inv.sok.nodup`) the listed ids are exactly the keys of
the records that carry `uid` -/
theorem mem_userSessions_noextra {c : Codec} {n : Nat} (le : ID → ID → Bool) (s : State) (uid : String) (k : ID)
    (hs : SOK c n s.store) (hx : s.extra = []) :
    k ∈ userSessions le s uid ↔ ∃ r, lookup k s.store = some r ∧ r.user = some uid := by
  rw [mem_userSessions, hx]
  constructor
  · rintro (⟨r, hm, hu⟩ | hm)
    · exact ⟨r, Sx.lookup_of_mem_nodup hs.nodup hm, hu⟩
    · simp at hm
  · rintro ⟨r, hl, hu⟩
    exact Or.inl ⟨r, Sx.lookup_some_mem hl, hu⟩

/-! ### the delta of the user loops -/

/-- **What `LogOut(uid)` / `RefreshUser` change**, fault-free, from a coherent state: `ids` are the ids the
loop runs over, `u` the value it writes into the `user` field of the objects (`u.map (·.1)` in the records). -/
structure UsersDelta (cfg : Cfg) (s : State) (ids : List ID) (u : Option (String × Nat)) (r : State × Bool × List Ev) :
    Prop where
  /-- the call succeeds -/
  ok : r.2.1 = true
  inv : Inv cfg.codec r.1
  nofail : NoFail r.1
  /-- no key appears or disappears; listed records change in `user` only; all others keep their essentials -/
  store : ∀ k, (lookup k r.1.store).map ess =
    (lookup k s.store).map (fun rc => if k ∈ ids then ess { rc with user := u.map (·.1) } else ess rc)
  nextId : r.1.nextId = s.nextId
  timers : r.1.timers = s.timers
  extra : r.1.extra = s.extra
  now : r.1.now = s.now
  len : s.heap.length ≤ r.1.heap.length
  /-- objects that existed keep id, reference, data, creation time -/
  objs : ∀ x, x < s.heap.length → (r.1.obj x).id = (s.obj x).id ∧ (r.1.obj x).ref = (s.obj x).ref ∧
    (r.1.obj x).data = (s.obj x).data ∧ (r.1.obj x).created = (s.obj x).created
  /-- … precisely: an object that existed is untouched, or got `user := u` and `lastAccess := now` -/
  objU : ∀ x, x < s.heap.length → r.1.obj x = s.obj x ∨ r.1.obj x = { s.obj x with user := u, lastAccess := s.now }
  /-- nothing is deleted -/
  nodel : ∀ k, Ev.del k ∉ r.2.2
  /-- no cookie is sent -/
  nocookie : r.2.2.filter isCookie = []
  /-- every save re-writes an existing record, changing at most user / lastAccess / ip / ua -/
  saves : ∀ k rc, Ev.save k rc ∈ r.2.2 →
    ∃ r0, lookup k s.store = some r0 ∧ rc.ref = r0.ref ∧ rc.data = r0.data ∧ rc.created = r0.created
  /-- cache entries under unlisted keys were there before, with the same object -/
  cacheFrame : ∀ k x, (k, x) ∈ r.1.cache → k ∉ ids → (k, x) ∈ s.cache ∧ r.1.obj x = s.obj x
  /-- the objects cached under listed keys carry exactly `u` (with its version) -/
  cacheUser : ∀ k x, (k, x) ∈ r.1.cache → k ∈ ids → (r.1.obj x).user = u
  /-- a handle whose id is not listed stays the only cached object of its session -/
  keep : ∀ x, HOK s x → (∀ id ∈ ids, id ≠ (s.obj x).id) → HOK r.1 x

theorem usersDelta_of_loop {cfg : Cfg} {s : State} {ids : List ID} {u : Option (String × Nat)} {r : State × Bool × List Ev}
    (P : LoopPost cfg u ids s r) (keep : ∀ x, HOK s x → (∀ id ∈ ids, id ≠ (s.obj x).id) → HOK r.1 x) :
    UsersDelta cfg s ids u r := by
  refine ⟨P.ok, P.inv, P.nofail, ?_, P.nextId, P.timers, P.extra, P.now, P.len, ?_, ?_, ?_, ?_, ?_,
    P.cacheFrame, P.cacheUser, keep⟩
  · intro k
    have := P.E k
    unfold E at this
    rw [this, Option.map_map]
    congr 1
  · intro x hx
    rcases P.obj x hx with h | h <;> rw [h] <;> exact ⟨rfl, rfl, rfl, rfl⟩
  · intro x hx; exact P.obj x hx
  · intro k hk; exact plainEv_not_del (P.evs _ hk).1 k rfl
  · exact filter_cookie_plain (fun e he => (P.evs e he).1)
  · intro k rc hk; exact (P.evs _ hk).2 k rc rfl

/-- the loop itself, for any list of ids -/
theorem setUserAll_delta (cfg : Cfg) (u : Option (String × Nat)) (ids : List ID) (s : State) (hnf : NoFail s)
    (hi : Inv cfg.codec s) : UsersDelta cfg s ids u (setUserAll cfg u ids s) :=
  usersDelta_of_loop (loop_delta cfg u ids s hnf hi) (Sx.setUserAll_spec cfg u ids s hnf hi).keep

/-- `forUser` without faults is the loop from the popped state, behind a `.users` event -/
theorem forUser_nofail (cfg : Cfg) (le : ID → ID → Bool) (s : State) (uid : String) (u : Option (String × Nat))
    (hnf : NoFail s) :
    forUser cfg le s uid u =
      ((setUserAll cfg u (userSessions le s uid) s.pop).1, (setUserAll cfg u (userSessions le s uid) s.pop).2.1,
        .users uid :: (setUserAll cfg u (userSessions le s uid) s.pop).2.2) := by
  rw [Loc.forUser_eq, noFail_head hnf]
  simp only [Bool.false_eq_true, if_false, userSessions_pop]

/-- **delta of `UserSessions(uid)` + loop** (`ids = userSessions le s uid`: the listing is taken before anything
changes, and popping the fault oracle does not change it). -/
theorem forUser_delta (cfg : Cfg) (le : ID → ID → Bool) (s : State) (uid : String) (u : Option (String × Nat))
    (hnf : NoFail s) (hi : Inv cfg.codec s) :
    UsersDelta cfg s (userSessions le s uid) u (forUser cfg le s uid u) := by
  have hip : Inv cfg.codec s.pop := hi.congr rfl rfl rfl rfl rfl
  have D := setUserAll_delta cfg u (userSessions le s uid) s.pop (noFail_pop hnf) hip
  rw [forUser_nofail cfg le s uid u hnf]
  refine ⟨D.ok, D.inv, D.nofail, D.store, D.nextId, D.timers, D.extra, D.now, D.len, D.objs, D.objU, ?_, ?_, ?_,
    D.cacheFrame, D.cacheUser, fun x hk hne => D.keep x (hk.congr rfl rfl rfl) hne⟩
  · intro k hk
    rcases List.mem_cons.1 hk with h | h
    · cases h
    · exact D.nodel k h
  · show (Ev.users uid :: _).filter isCookie = []
    rw [List.filter_cons]
    simp only [isCookie, Bool.false_eq_true, if_false]
    exact D.nocookie
  · intro k rc hk
    rcases List.mem_cons.1 hk with h | h
    · cases h
    · exact D.saves k rc h

theorem forUser_vers (cfg : Cfg) (le : ID → ID → Bool) (s : State) (uid : String) (u : Option (String × Nat))
    (hnf : NoFail s) (hi : Inv cfg.codec s) : (forUser cfg le s uid u).1.vers = s.vers := by
  have hip : Inv cfg.codec s.pop := hi.congr rfl rfl rfl rfl rfl
  rw [forUser_nofail cfg le s uid u hnf]
  exact (loop_delta cfg u (userSessions le s uid) s.pop (noFail_pop hnf) hip).vers

/-- **delta of `LogOut(uid)`** -/
theorem logoutUser_delta (cfg : Cfg) (le : ID → ID → Bool) (s : State) (uid : String) (hnf : NoFail s)
    (hi : Inv cfg.codec s) : UsersDelta cfg s (userSessions le s uid) none (logoutUser cfg le s uid) :=
  forUser_delta cfg le s uid none hnf hi

theorem logoutUser_vers (cfg : Cfg) (le : ID → ID → Bool) (s : State) (uid : String) (hnf : NoFail s)
    (hi : Inv cfg.codec s) : (logoutUser cfg le s uid).1.vers = s.vers :=
  forUser_vers cfg le s uid none hnf hi

/-- **delta of `RefreshUser`**: the value written is `(uid, s.ver uid + 1)` -/
theorem refreshUser_delta (cfg : Cfg) (le : ID → ID → Bool) (s : State) (uid : String) (hnf : NoFail s)
    (hi : Inv cfg.codec s) :
    UsersDelta cfg s (userSessions le s uid) (some (uid, s.ver uid + 1)) (refreshUser cfg le s uid) := by
  have hnf0 : NoFail ({ s with vers := insert uid (s.ver uid + 1) s.vers } : State) := hnf
  have hi0 : Inv cfg.codec ({ s with vers := insert uid (s.ver uid + 1) s.vers } : State) := hi.congr rfl rfl rfl rfl rfl
  have D := forUser_delta cfg le _ uid (some (uid, s.ver uid + 1)) hnf0 hi0
  exact ⟨D.ok, D.inv, D.nofail, D.store, D.nextId, D.timers, D.extra, D.now, D.len, D.objs, D.objU, D.nodel, D.nocookie,
    D.saves, D.cacheFrame, D.cacheUser, fun x hk hne => D.keep x (hk.congr rfl rfl rfl) hne⟩

theorem refreshUser_vers (cfg : Cfg) (le : ID → ID → Bool) (s : State) (uid : String) (hnf : NoFail s)
    (hi : Inv cfg.codec s) : (refreshUser cfg le s uid).1.vers = insert uid (s.ver uid + 1) s.vers := by
  have hnf0 : NoFail ({ s with vers := insert uid (s.ver uid + 1) s.vers } : State) := hnf
  have hi0 : Inv cfg.codec ({ s with vers := insert uid (s.ver uid + 1) s.vers } : State) := hi.congr rfl rfl rfl rfl rfl
  exact forUser_vers cfg le _ uid (some (uid, s.ver uid + 1)) hnf0 hi0

/-- under `Inv`, a cached object's user id is the user of its record -/
theorem cached_user {c : Codec} {s : State} (hi : Inv c s) {k : ID} {x : Nat} (hm : (k, x) ∈ s.cache) :
    ∃ rc, lookup k s.store = some rc ∧ (s.obj x).user.map (·.1) = rc.user := by
  obtain ⟨rc, hl, he⟩ := hi.coh k x hm (by simp)
  exact ⟨rc, hl, by rw [← enc_user c, ess_user he]⟩

/-- reading a record of the state after a user loop -/
theorem UsersDelta.rec_of {cfg : Cfg} {s : State} {ids : List ID} {u : Option (String × Nat)} {r : State × Bool × List Ev}
    (D : UsersDelta cfg s ids u r) {k : ID} {rc : Rec} (hl : lookup k r.1.store = some rc) :
    ∃ r0, lookup k s.store = some r0 ∧ rc.user = (if k ∈ ids then u.map (·.1) else r0.user) ∧
      rc.created = r0.created ∧ rc.ref = r0.ref ∧ rc.data = r0.data := by
  have h := D.store k
  rw [hl] at h
  cases hl0 : lookup k s.store with
  | none => rw [hl0] at h; simp at h
  | some r0 =>
    rw [hl0] at h
    simp only [Option.map_some, Option.some.injEq] at h
    refine ⟨r0, rfl, ?_⟩
    by_cases hk : k ∈ ids
    · rw [if_pos hk] at h ⊢
      exact ⟨ess_user h, (ess_created h).trans rfl, (ess_ref h).trans rfl, (ess_data h).trans rfl⟩
    · rw [if_neg hk] at h ⊢
      exact ⟨ess_user h, ess_created h, ess_ref h, ess_data h⟩

/-- … and the other way round: no record disappears -/
theorem UsersDelta.rec_to {cfg : Cfg} {s : State} {ids : List ID} {u : Option (String × Nat)} {r : State × Bool × List Ev}
    (D : UsersDelta cfg s ids u r) {k : ID} {r0 : Rec} (hl0 : lookup k s.store = some r0) :
    ∃ rc, lookup k r.1.store = some rc ∧ rc.user = (if k ∈ ids then u.map (·.1) else r0.user) ∧
      rc.created = r0.created ∧ rc.ref = r0.ref ∧ rc.data = r0.data := by
  have h := D.store k
  rw [hl0] at h
  cases hl : lookup k r.1.store with
  | none => rw [hl] at h; simp at h
  | some rc =>
    obtain ⟨r0', hl0', hh⟩ := D.rec_of hl
    rw [hl0] at hl0'
    simp only [Option.some.injEq] at hl0'
    subst hl0'
    exact ⟨rc, rfl, hh⟩

/-! ### the delta of `s.LogOut()` -/

theorem sess_user_none {o : Sess} (h : o.user = none) : ({ o with user := none } : Sess) = o := by
  cases o; simp only at h; subst h; rfl

/-- what `s.LogOut()` does, fault-free, whatever the state (an allocated handle is all it takes): nothing when the
object carries no user; otherwise the object loses its user and is written DIRECTLY to the store under its id
(not through the cache). Cache, counter, timers, clock, user table are untouched. -/
structure LogoutFrame (cfg : Cfg) (s : State) (h : Nat) (r : State × HRes × List Ev) : Prop where
  ok : r.2.1 = .ok
  nofail : NoFail r.1
  store : r.1.store = if (s.obj h).user = none then s.store
    else insert (s.obj h).id (enc cfg.codec { s.obj h with user := none }) s.store
  evs : r.2.2 = if (s.obj h).user = none then []
    else [.save (s.obj h).id (enc cfg.codec { s.obj h with user := none })]
  obj : ∀ x, r.1.obj x = if x = h then { s.obj h with user := none } else s.obj x
  cache : r.1.cache = s.cache
  nextId : r.1.nextId = s.nextId
  timers : r.1.timers = s.timers
  extra : r.1.extra = s.extra
  now : r.1.now = s.now
  vers : r.1.vers = s.vers
  len : r.1.heap.length = s.heap.length

theorem hlogout_frame (cfg : Cfg) (s : State) (h : Nat) (hnf : NoFail s) (hv : h < s.heap.length) :
    LogoutFrame cfg s h (hlogout cfg s h) := by
  cases hu : (s.obj h).user with
  | none =>
    rw [Loc.hlogout_none hu]
    refine ⟨rfl, hnf, by rw [if_pos hu], by rw [if_pos hu], ?_, rfl, rfl, rfl, rfl, rfl, rfl, rfl⟩
    intro x
    by_cases hx : x = h
    · subst hx; rw [if_pos rfl, sess_user_none hu]
    · rw [if_neg hx]
  | some w =>
    have hobj : (s.setObj h { s.obj h with user := none }).obj h = { s.obj h with user := none } :=
      Loc.obj_setObj_self hv _
    have hnf1 : NoFail (s.setObj h { s.obj h with user := none }) := hnf
    have heq : hlogout cfg s h =
        (saveS cfg (s.setObj h { s.obj h with user := none }) (s.obj h).id { s.obj h with user := none }, .ok,
          [.save (s.obj h).id (enc cfg.codec { s.obj h with user := none })]) := by
      rw [Loc.hlogout_some hu, Loc.saveObj_eq, hobj, Sx.saveRec_eq cfg _ _ hnf1]; rfl
    rw [heq]
    have hne : ¬ (s.obj h).user = none := by rw [hu]; simp
    refine ⟨rfl, hnf1.popF, by rw [if_neg hne]; rfl, by rw [if_neg hne], ?_, rfl, rfl, rfl, rfl, rfl, rfl, ?_⟩
    · intro x
      show (s.setObj h { s.obj h with user := none }).obj x = _
      rw [Loc.obj_setObj]
      by_cases hx : x = h
      · subst hx; simp [hv]
      · have : ¬ h = x := fun e => hx e.symm
        simp [hx, this]
    · show (s.setObj h _).heap.length = _
      simp

/-- **What `s.LogOut()` changes**, fault-free, from a coherent state, for the request's object (`HOK`): `LogoutFrame`,
and the invariant and `HOK` are kept. -/
structure LogoutDelta (cfg : Cfg) (s : State) (h : Nat) (r : State × HRes × List Ev) : Prop
    extends LogoutFrame cfg s h r where
  inv : Inv cfg.codec r.1
  hok : HOK r.1 h

theorem hlogout_delta (cfg : Cfg) (s : State) (h : Nat) (hnf : NoFail s) (hi : Inv cfg.codec s) (hk : HOK s h) :
    LogoutDelta cfg s h (hlogout cfg s h) :=
  have hP := Sx.hlogout_spec cfg s h hnf hi hk
  ⟨hlogout_frame cfg s h hnf hk.valid, hP.inv, hP.hok⟩

/-! ### the delta of `s.LogIn` -/

/-- the fields of an object that neither the user loops nor `s.LogOut()` change -/
def SameCore (o o' : Sess) : Prop :=
  o'.id = o.id ∧ o'.created = o.created ∧ o'.ip = o.ip ∧ o'.ua = o.ua ∧ o'.ref = o.ref ∧ o'.data = o.data

theorem SameCore.rfl' (o : Sess) : SameCore o o := ⟨rfl, rfl, rfl, rfl, rfl, rfl⟩

theorem SameCore.set {o o' : Sess} (h : SameCore o o') (i : ID) (u : Option (String × Nat)) (c l : Int) :
    ({ o' with id := i, user := u, created := c, lastAccess := l } : Sess) =
      { o with id := i, user := u, created := c, lastAccess := l } := by
  obtain ⟨_, _, h3, h4, h5, h6⟩ := h
  cases o; cases o'
  simp only at h3 h4 h5 h6
  subst h3 h4 h5 h6
  rfl

/-- reading one record through a per-key `map ess` equation of the kind the deltas provide -/
theorem core_of_map {st st' : List (ID × Rec)} {k : ID} {b : Prop} [Decidable b] {U : Option String}
    (h : (lookup k st').map ess = (lookup k st).map (fun rc => if b then ess { rc with user := U } else ess rc))
    {r1 : Rec} (hl : lookup k st' = some r1) :
    ∃ r0, lookup k st = some r0 ∧ r1.ref = r0.ref ∧ r1.data = r0.data ∧ r1.created = r0.created := by
  rw [hl] at h
  cases hl0 : lookup k st with
  | none => rw [hl0] at h; simp at h
  | some r0 =>
    rw [hl0] at h
    simp only [Option.map_some, Option.some.injEq] at h
    refine ⟨r0, rfl, ?_⟩
    by_cases hb : b
    · rw [if_pos hb] at h
      exact ⟨(ess_ref h).trans rfl, (ess_data h).trans rfl, (ess_created h).trans rfl⟩
    · rw [if_neg hb] at h
      exact ⟨ess_ref h, ess_data h, ess_created h⟩

/-- what the first phase of `LogIn` (`LogOut(uid)` when exclusive, `s.LogOut()` otherwise) guarantees; `HL s h` is
all it needs. After `s.LogOut()` through an object that is not the cached one, the state is coherent except at the
object's own id (`x = some old`): the direct save by-passed the cached copy. -/
structure PreD (cfg : Cfg) (le : ID → ID → Bool) (s : State) (h : Nat) (uid : String) (excl : Bool)
    (p : State × Bool × List Ev) : Prop where
  ok : p.2.1 = true
  invX : ∃ x, (x = none ∨ x = some (s.obj h).id) ∧ InvX cfg.codec x p.1
  honly : ∀ id', (id', h) ∈ p.1.cache → id' = (s.obj h).id
  nofail : NoFail p.1
  hl : HL p.1 h
  objh : SameCore (s.obj h) (p.1.obj h)
  store : ∀ k, k ≠ (s.obj h).id → (lookup k p.1.store).map ess =
    (lookup k s.store).map (fun rc => if excl = true ∧ k ∈ userSessions le s uid then ess { rc with user := none } else ess rc)
  nextId : p.1.nextId = s.nextId
  timers : p.1.timers = s.timers
  extra : p.1.extra = s.extra
  now : p.1.now = s.now
  vers : p.1.vers = s.vers
  len : s.heap.length ≤ p.1.heap.length
  objs : ∀ x, x < s.heap.length → x ≠ h → (p.1.obj x).id = (s.obj x).id ∧ (p.1.obj x).ref = (s.obj x).ref ∧
    (p.1.obj x).data = (s.obj x).data ∧ (p.1.obj x).created = (s.obj x).created
  evs : ∀ e ∈ p.2.2, plainEv e = true
  /-- a save of the first phase re-writes an existing record, or is the save of the session object by `s.LogOut()` -/
  saves : ∀ k rc, Ev.save k rc ∈ p.2.2 →
    (∃ r0, lookup k s.store = some r0 ∧ rc.ref = r0.ref ∧ rc.data = r0.data ∧ rc.created = r0.created) ∨
    (k = (s.obj h).id ∧ rc.ref = (s.obj h).ref)
  /-- a second object cached under the session's id agrees in `ref` with the record the session had -/
  cachedOld : ∀ y, ((s.obj h).id, y) ∈ p.1.cache → y ≠ h →
    ∃ r0, lookup (s.obj h).id s.store = some r0 ∧ (p.1.obj y).ref = r0.ref

theorem loginPre_spec (cfg : Cfg) (le : ID → ID → Bool) (s : State) (h : Nat) (uid : String) (excl : Bool)
    (hnf : NoFail s) (hi : Inv cfg.codec s) (hl : HL s h) :
    PreD cfg le s h uid excl (Loc.loginPre cfg le s h uid excl) := by
  cases excl with
  | true =>
    have hpre : Loc.loginPre cfg le s h uid true = forUser cfg le s uid none := by simp [Loc.loginPre, logoutUser]
    rw [hpre]
    have D := forUser_delta cfg le s uid none hnf hi
    have hU := Sx.forUser_spec cfg le s uid none hnf hi
    have hvers := forUser_vers cfg le s uid none hnf hi
    have hip : Inv cfg.codec s.pop := hi.congr rfl rfl rfl rfl rfl
    have hplain : ∀ e ∈ (forUser cfg le s uid none).2.2, plainEv e = true := by
      rw [forUser_nofail cfg le s uid none hnf]
      intro e he
      rcases List.mem_cons.1 he with rfl | he
      · rfl
      · exact ((loop_delta cfg none (userSessions le s uid) s.pop (noFail_pop hnf) hip).evs e he).1
    have hsc : SameCore (s.obj h) ((forUser cfg le s uid none).1.obj h) := by
      rcases D.objU h hl.valid with e | e <;> rw [e] <;> exact ⟨rfl, rfl, rfl, rfl, rfl, rfl⟩
    refine ⟨D.ok, ⟨none, Or.inl rfl, D.inv⟩, ?_, D.nofail, hl.step hU.step, hsc, ?_, D.nextId, D.timers, D.extra, D.now,
      hvers, D.len, fun x hx _ => D.objs x hx, hplain, fun k rc hm => Or.inl (D.saves k rc hm), ?_⟩
    · intro id' hm
      rw [← hsc.1]
      exact (D.inv.wf id' h hm (by simp)).symm
    · intro k _
      rw [D.store k]
      congr 1
      funext rc
      by_cases hm : k ∈ userSessions le s uid <;> simp [hm]
    · intro y hm _
      obtain ⟨r1, hl1, he1⟩ := D.inv.coh _ y hm (by simp)
      obtain ⟨r0, hl0, _, _, hrf, _⟩ := D.rec_of hl1
      exact ⟨r0, hl0, by rw [← hrf, ← ess_ref he1, enc_ref]⟩
  | false =>
    have hpre : Loc.loginPre cfg le s h uid false = ((hlogout cfg s h).1, true, (hlogout cfg s h).2.2) := by
      simp [Loc.loginPre]
    rw [hpre]
    have D := hlogout_frame cfg s h hnf hl.valid
    have honly : ∀ id', (id', h) ∈ s.cache → id' = (s.obj h).id := fun id' hm => (hi.wf id' h hm (by simp)).symm
    have hoh : (hlogout cfg s h).1.obj h = { s.obj h with user := none } := by rw [D.obj h, if_pos rfl]
    refine ⟨rfl, ?_, ?_, D.nofail, ?_, ?_, ?_, D.nextId, D.timers, D.extra, D.now, D.vers, Nat.le_of_eq D.len.symm,
      ?_, ?_, ?_, ?_⟩
    · -- the state after the direct save: coherent except (possibly) at the object's id
      by_cases hu : (s.obj h).user = none
      · rw [Loc.hlogout_none hu]; exact ⟨none, Or.inl rfl, hi⟩
      · refine ⟨some (s.obj h).id, Or.inr rfl, ?_⟩
        have h1 : InvX cfg.codec (some (s.obj h).id) (s.setObj h { s.obj h with user := none }) :=
          invX_setObj_exc h (s.obj h).id _ hi (Or.inl rfl) hl.ref honly
        have h2 := invX_store_put (r := enc cfg.codec { s.obj h with user := none }) h1 hl.minted
          (by rw [enc_ref]; exact hl.ref) (norm_enc _ _)
        refine h2.congr ?_ D.cache ?_ D.timers D.nextId
        · -- heaps agree: both are `s.heap.set h _`
          cases hw : (s.obj h).user with
          | none => exact absurd hw hu
          | some w => rw [Loc.hlogout_some hw, Loc.saveObj_eq]; exact (Loc.saveRec_fr cfg _ _ _).heap
        · rw [D.store, if_neg hu]; rfl
    · intro id' hm
      have hm' : (id', h) ∈ (hlogout cfg s h).1.cache := hm
      rw [D.cache] at hm'
      exact honly id' hm'
    · refine ⟨by show h < (hlogout cfg s h).1.heap.length; rw [D.len]; exact hl.valid, ?_, ?_⟩
      · show Minted (hlogout cfg s h).1.nextId ((hlogout cfg s h).1.obj h).id
        rw [D.nextId, hoh]; exact hl.minted
      · show RefOK (hlogout cfg s h).1.nextId ((hlogout cfg s h).1.obj h).ref
        rw [D.nextId, hoh]; exact hl.ref
    · show SameCore (s.obj h) ((hlogout cfg s h).1.obj h)
      rw [hoh]; exact ⟨rfl, rfl, rfl, rfl, rfl, rfl⟩
    · intro k hk'
      show (lookup k (hlogout cfg s h).1.store).map ess = _
      have : lookup k (hlogout cfg s h).1.store = lookup k s.store := by
        rw [D.store]
        split
        · rfl
        · exact Loc.lookup_insert_ne (Ne.symm hk') _ _
      rw [this]
      congr 1
    · intro x _ hx
      show ((hlogout cfg s h).1.obj x).id = _ ∧ _
      rw [D.obj x, if_neg hx]; exact ⟨rfl, rfl, rfl, rfl⟩
    · intro e he
      have he' : e ∈ (hlogout cfg s h).2.2 := he
      rw [D.evs] at he'
      split at he'
      · simp at he'
      · simp only [List.mem_singleton] at he'; subst he'; rfl
    · intro k rc hm
      have hm' : Ev.save k rc ∈ (hlogout cfg s h).2.2 := hm
      rw [D.evs] at hm'
      split at hm'
      · simp at hm'
      · simp only [List.mem_singleton, Ev.save.injEq] at hm'
        exact Or.inr ⟨hm'.1, by rw [hm'.2, enc_ref]⟩
    · intro y hm hy
      have hm' : ((s.obj h).id, y) ∈ (hlogout cfg s h).1.cache := hm
      rw [D.cache] at hm'
      obtain ⟨r0, hl0, he0⟩ := hi.coh _ y hm' (by simp)
      refine ⟨r0, hl0, ?_⟩
      show ((hlogout cfg s h).1.obj y).ref = _
      rw [D.obj y, if_neg hy, ← ess_ref he0, enc_ref]

/-- the fields `RegenerateID` leaves alone, when it succeeds -/
theorem regenerate_extra_vers (cfg : Cfg) (s : State) (h : Nat) (hok : (regenerate cfg s h).2.1 = true) :
    (regenerate cfg s h).1.extra = s.extra ∧ (regenerate cfg s h).1.vers = s.vers := by
  rw [(Loc.regenerate_state_ok cfg s h hok).1]
  exact ⟨(Loc.regenB_fr cfg s h).2.2.2.2.1, (Loc.regenB_fr cfg s h).2.2.2.1⟩

/-- **What `s.LogIn(uid, excl)` changes**, fault-free, from a coherent state, for an allocated object `h` with a
minted id (`HL s h`); `old = (s.obj h).id`, `new = .gen s.nextId`. -/
structure LoginDelta (cfg : Cfg) (le : ID → ID → Bool) (s : State) (h : Nat) (uid : String) (excl : Bool)
    (r : State × HRes × List Ev) : Prop where
  ok : r.2.1 = .ok
  inv : Inv cfg.codec r.1
  hok : HOK r.1 h
  nofail : NoFail r.1
  /-- exactly one id is minted -/
  nextId : r.1.nextId = s.nextId + 1
  /-- the SAME object carries the new id, the user (with the current version of the user object), a new creation
  time; data, reference, address, user agent are as before -/
  obj : r.1.obj h = { s.obj h with id := .gen s.nextId, user := some (uid, s.ver uid), created := s.now, lastAccess := s.now }
  /-- the record under the new id is the encoding of the object -/
  new : lookup (.gen s.nextId) r.1.store = some (enc cfg.codec (r.1.obj h))
  /-- the record under the old id is a reference to the new id and carries no user and no data -/
  old : ∃ rc, lookup (s.obj h).id r.1.store = some rc ∧ rc.ref = some (.gen s.nextId) ∧ rc.user = none ∧
    (rc.data = none ∨ rc.data = some [])
  /-- every other record: untouched, or (exclusive) logged out if listed for `uid` -/
  others : ∀ k, k ≠ (s.obj h).id → k ≠ .gen s.nextId → (lookup k r.1.store).map ess =
    (lookup k s.store).map (fun rc => if excl = true ∧ k ∈ userSessions le s uid then ess { rc with user := none } else ess rc)
  timers : r.1.timers = s.timers ++ [(s.now + cfg.grace, (s.obj h).id)]
  now : r.1.now = s.now
  extra : r.1.extra = s.extra
  vers : r.1.vers = s.vers
  len : s.heap.length < r.1.heap.length
  /-- the other objects that existed keep id, reference, data, creation time -/
  objs : ∀ x, x < s.heap.length → x ≠ h → (r.1.obj x).id = (s.obj x).id ∧ (r.1.obj x).ref = (s.obj x).ref ∧
    (r.1.obj x).data = (s.obj x).data ∧ (r.1.obj x).created = (s.obj x).created
  /-- the only cookie sent is the live cookie of the new id -/
  cookies : r.2.2.filter isCookie = [.setCookie (.gen s.nextId)]
  /-- nothing is deleted -/
  nodel : ∀ k, Ev.del k ∉ r.2.2
  /-- the saves: under any other key they re-write an existing record (changing at most user / lastAccess / ip / ua);
  under the old / new id they are saves of the session object itself (`ref` as the object's), the final reference
  record, or — under the old id only — re-writes of the record the session had, keeping its `ref` (the exclusive loop
  logging this very session out, or a flush of a second cached copy). With `RefAgrees` the last case collapses into
  the first: `hlogin_saves`. -/
  saves : ∀ k rc, Ev.save k rc ∈ r.2.2 →
    (k ≠ (s.obj h).id → k ≠ .gen s.nextId →
      ∃ r0, lookup k s.store = some r0 ∧ rc.ref = r0.ref ∧ rc.data = r0.data ∧ rc.created = r0.created) ∧
    (k = (s.obj h).id ∨ k = .gen s.nextId →
      rc.ref = (s.obj h).ref ∨ (k = (s.obj h).id ∧ rc.ref = some (.gen s.nextId)) ∨
      (k = (s.obj h).id ∧ ∃ r0, lookup (s.obj h).id s.store = some r0 ∧ rc.ref = r0.ref))
  /-- the reference record IS saved under the old id -/
  refSaved : ∃ rc, Ev.save (s.obj h).id rc ∈ r.2.2 ∧ rc.ref = some (.gen s.nextId)

/-- **delta of `s.LogIn`, needing `HL s h` only** (not `HOK`): the handle is allocated, its id minted. If another
object is cached under the session's id (what `LogOut(uid)` in the middle of the request produces, see
`Sx.two_objects_break_coherence`), `s.LogOut()` inside a non-exclusive `LogIn` saves past it — but the `Set` that
follows replaces the cache entry by the request's object and the stale copy can only be flushed under the OLD id, which
ends as the reference record. So nothing of the statement depends on `HOK`, not even `Inv` of the final state. -/
theorem hlogin_delta_HL (cfg : Cfg) (le : ID → ID → Bool) (s : State) (h : Nat) (uid : String) (excl : Bool)
    (hnf : NoFail s) (hi : Inv cfg.codec s) (hl : HL s h) :
    LoginDelta cfg le s h uid excl (hlogin cfg le s h uid excl) := by
  have P := loginPre_spec cfg le s h uid excl hnf hi hl
  have hset : Loc.loginSet cfg le s h uid excl =
      Loc.userSet cfg (some (uid, (Loc.loginPre cfg le s h uid excl).1.ver uid)) (Loc.loginPre cfg le s h uid excl).1 h := rfl
  obtain ⟨x, hx, hinvX⟩ := P.invX
  have R := round_core cfg (some (uid, (Loc.loginPre cfg le s h uid excl).1.ver uid)) x (Loc.loginPre cfg le s h uid excl).1 h
    P.nofail hinvX (by rw [P.objh.1]; exact hx) P.hl (by rw [P.objh.1]; exact P.honly)
  rw [← hset] at R
  have heq := Loc.hlogin_eq cfg le s h uid excl
  rw [P.ok, R.ok] at heq
  simp only [Bool.true_eq_false, if_false] at heq
  rw [heq]
  generalize Loc.loginPre cfg le s h uid excl = pre at P R hset hinvX ⊢
  obtain ⟨s1, ok1, e1⟩ := pre
  generalize Loc.loginSet cfg le s h uid excl = st at R hset ⊢
  obtain ⟨s3, ok3, e3⟩ := st
  obtain ⟨_, _, _, hnf1, hl1, hobjh1, hstore1, hnext1, htim1, hextra1, hnow1, hvers1, hlen1, hobjs1, hevs1, hsaves1,
    hcold1⟩ := P
  obtain ⟨_, hinv3, hnf3, hhok3, hnow3, hnext3, htim3, hvers3, hextra3, hlen3, hobj3, _, hEne3, _, hevs3⟩ := R
  simp only at hnf1 hl1 hobjh1 hstore1 hnext1 htim1 hextra1 hnow1 hvers1 hlen1 hobjs1 hevs1 hsaves1 hcold1
  simp only at hinv3 hnf3 hhok3 hnow3 hnext3 htim3 hvers3 hextra3 hlen3 hobj3 hEne3 hevs3 ⊢
  have hver1 : s1.ver uid = s.ver uid := by simp [State.ver, hvers1]
  have hn3 : s3.nextId = s.nextId := hnext3.trans hnext1
  have hnow3' : s3.now = s.now := hnow3.trans hnow1
  have hoh3 : s3.obj h = setUObj s1 h (some (uid, s.ver uid)) := by rw [hobj3 h, if_pos rfl, hver1]
  have hid3 : (s3.obj h).id = (s.obj h).id := by rw [hoh3]; exact hobjh1.1
  have G := Sx.regenerate_spec cfg s3 h hnf3 hhok3.toHL hinv3
  have hv3 : h < s3.heap.length := hhok3.valid
  have hfresh : ∀ x, (ID.gen s3.nextId, x) ∉ s3.cache := fun x hm => (hinv3.ckeys _ x hm).ne_gen rfl
  have hne3 : (s3.obj h).id ≠ ID.gen s3.nextId := hhok3.minted.ne_gen
  obtain ⟨_, Lobj, _, Llen, Lobjs, Lnew, Lold, Ltim, Lnow, eA, eB, Levs, LeA, LeB⟩ :=
    Loc.regenerate_spec cfg s3 h hv3 hfresh hne3 G.ok
  have hck := (Loc.regenerate_cookie_last cfg s3 h G.ok).2
  obtain ⟨Lextra, Lvers⟩ := regenerate_extra_vers cfg s3 h G.ok
  have hobjF : (regenerate cfg s3 h).1.obj h =
      { s.obj h with id := .gen s.nextId, user := some (uid, s.ver uid), created := s.now, lastAccess := s.now } := by
    rw [Lobj]
    unfold Loc.rotObj
    rw [hoh3, hn3, hnow3']
    unfold setUObj
    exact hobjh1.set _ _ _ _
  have Dl := regenerate_delta cfg s3 h hnf3 hinv3 hhok3
  have hnewabs : lookup (ID.gen s.nextId) s.store = none := More.C10.new_absent hi
  have href3 : (s3.obj h).ref = (s.obj h).ref := by rw [hoh3]; exact hobjh1.2.2.2.2.1
  have htr1 : ∀ k r1, k ≠ (s.obj h).id → lookup k s1.store = some r1 →
      ∃ r0, lookup k s.store = some r0 ∧ r1.ref = r0.ref ∧ r1.data = r0.data ∧ r1.created = r0.created :=
    fun k r1 hk hl => core_of_map (hstore1 k hk) hl
  refine ⟨by rw [G.ok]; rfl, G.inv, G.hok, G.mono.nofail, by rw [G.nextId, hn3], hobjF, ?_, ?_, ?_, ?_,
    Lnow.trans hnow3', (Lextra.trans hextra3).trans hextra1, (Lvers.trans hvers3).trans hvers1, ?_, ?_, ?_, ?_, ?_, ?_⟩
  · show lookup (ID.gen s.nextId) (regenerate cfg s3 h).1.store = some (enc cfg.codec ((regenerate cfg s3 h).1.obj h))
    rw [Lobj, ← hn3]; exact Lnew
  · refine ⟨_, by rw [← hid3]; exact Lold, ?_⟩
    obtain ⟨q1, q2, q3⟩ := Loc.enc_rotRef cfg s3 h
    refine ⟨by rw [q1, hn3], q2, ?_⟩
    rw [q3]
    cases cfg.codec <;> simp
  · intro k hk1 hk2
    have e1 : E k (regenerate cfg s3 h).1.store = E k s3.store :=
      regenerate_E cfg s3 h hnf3 hhok3.toHL hinv3 k (by rw [hid3]; exact hk1) (by rw [hn3]; exact hk2)
    have e2 : E k s3.store = E k s1.store := hEne3 k (by rw [hobjh1.1]; exact hk1)
    have := hstore1 k hk1
    unfold E at e1 e2
    show (lookup k (regenerate cfg s3 h).1.store).map ess = _
    rw [e1, e2, this]
  · show (regenerate cfg s3 h).1.timers = _
    rw [Ltim, htim3, htim1, hnow3', hid3]
  · show s.heap.length < (regenerate cfg s3 h).1.heap.length
    rw [Llen]; omega
  · intro x hx hxh
    show ((regenerate cfg s3 h).1.obj x).id = _ ∧ _
    rw [Lobjs x (by omega) hxh, hobj3 x, if_neg (Ne.symm hxh)]
    exact hobjs1 x hx hxh
  · show (e1 ++ e3 ++ (regenerate cfg s3 h).2.2).filter isCookie = _
    rw [List.filter_append, List.filter_append, filter_cookie_plain hevs1,
      filter_cookie_plain (fun e he => (hevs3 e he).1), hck, hn3]
    rfl
  · intro k hk
    have hk' : Ev.del k ∈ e1 ++ e3 ++ (regenerate cfg s3 h).2.2 := hk
    rcases List.mem_append.1 hk' with hk' | hk'
    · rcases List.mem_append.1 hk' with hk' | hk'
      · exact plainEv_not_del (hevs1 _ hk') k rfl
      · exact plainEv_not_del (hevs3 _ hk').1 k rfl
    · rw [Levs] at hk'
      simp only [List.mem_append, List.mem_singleton, reduceCtorEq, or_false] at hk'
      rcases hk' with hk' | hk'
      · rcases LeA _ hk' with ⟨_, _, h'⟩ | ⟨_, h'⟩ <;> cases h'
      · rcases LeB _ hk' with ⟨_, _, h'⟩ | ⟨_, h'⟩ <;> cases h'
  · -- the saves
    intro k rc hm
    have hm' : Ev.save k rc ∈ e1 ++ e3 ++ (regenerate cfg s3 h).2.2 := hm
    rcases List.mem_append.1 hm' with hm' | hm'
    · rcases List.mem_append.1 hm' with hm' | hm'
      · -- first phase
        rcases hsaves1 k rc hm' with ⟨r0, hl0, c1, c2, c3⟩ | ⟨hk, hr⟩
        · refine ⟨fun _ _ => ⟨r0, hl0, c1, c2, c3⟩, ?_⟩
          rintro (hk | hk)
          · subst hk; exact Or.inr (Or.inr ⟨rfl, r0, hl0, c1⟩)
          · subst hk; rw [hnewabs] at hl0; cases hl0
        · exact ⟨fun hne _ => absurd hk hne, fun _ => Or.inl hr⟩
      · -- the `Set` that stores the user
        rcases (hevs3 _ hm').2 k rc rfl with ⟨hk, hr⟩ | ⟨y, hmy, hyh, hr⟩
        · have hk' : k = (s.obj h).id := hk.trans hobjh1.1
          refine ⟨fun hne _ => absurd hk' hne, fun _ => Or.inl ?_⟩
          rw [hr, enc_ref]; exact hobjh1.2.2.2.2.1
        · by_cases hko : k = (s.obj h).id
          · subst hko
            obtain ⟨r0, hl0, hrf⟩ := hcold1 y hmy hyh
            exact ⟨fun hne _ => absurd rfl hne, fun _ => Or.inr (Or.inr ⟨rfl, r0, hl0, by rw [hr, enc_ref]; exact hrf⟩)⟩
          · have hkx : some k ≠ x := by
              rcases hx with rfl | rfl
              · simp
              · simpa using hko
            obtain ⟨r1, hl1, he1⟩ := hinvX.coh k y hmy hkx
            obtain ⟨r0, hl0, c1, c2, c3⟩ := htr1 k r1 hko hl1
            refine ⟨fun _ _ => ⟨r0, hl0, by rw [hr, ess_ref he1, c1], by rw [hr, ess_data he1, c2],
              by rw [hr, ess_created he1, c3]⟩, ?_⟩
            rintro (hk | hk)
            · exact absurd hk hko
            · subst hk
              exact absurd (hnext1 ▸ rfl) (hinvX.ckeys _ y hmy).ne_gen
    · -- `RegenerateID`
      by_cases hX : k = (s3.obj h).id ∨ k = .gen s3.nextId
      · refine ⟨fun h1 h2 => ?_, fun _ => ?_⟩
        · rcases hX with e | e
          · exact absurd (e.trans hid3) h1
          · exact absurd (e.trans (by rw [hn3])) h2
        · rcases Dl.xsaves k rc hm' hX with e | ⟨e1', e2'⟩
          · exact Or.inl (e.trans href3)
          · refine Or.inr (Or.inl ⟨e1'.trans hid3, ?_⟩)
            rw [e2', (Loc.enc_rotRef cfg s3 h).1, hn3]
      · have hk1 : k ≠ (s.obj h).id := fun e => hX (Or.inl (e.trans hid3.symm))
        have hk2 : k ≠ .gen s.nextId := fun e => hX (Or.inr (e.trans (by rw [hn3])))
        obtain ⟨r3, hl3, he3⟩ := Dl.quiet.saves k rc hm' hX
        have e2 : E k s3.store = E k s1.store := hEne3 k (by rw [hobjh1.1]; exact hk1)
        unfold E at e2
        rw [hl3] at e2
        refine ⟨fun _ _ => ?_, fun hc => ?_⟩
        · cases hl1 : lookup k s1.store with
          | none => rw [hl1] at e2; simp at e2
          | some r1 =>
            rw [hl1] at e2
            simp only [Option.map_some, Option.some.injEq] at e2
            obtain ⟨r0, hl0, c1, c2, c3⟩ := htr1 k r1 hk1 hl1
            have he := he3.trans e2
            exact ⟨r0, hl0, by rw [ess_ref he, c1], by rw [ess_data he, c2], by rw [ess_created he, c3]⟩
        · rcases hc with e | e
          · exact absurd e hk1
          · exact absurd e hk2
  · -- the reference record is saved
    have hrs := Dl.ref_saved
    rw [hid3] at hrs
    exact ⟨_, List.mem_append_right _ hrs, by rw [(Loc.enc_rotRef cfg s3 h).1, hn3]⟩

/-- **delta of `s.LogIn`** for the request's object (`HOK s h`, what `Start` provides) which is not a reference
record (`_href`; the delta itself does not depend on it: `LoginDelta.obj` says the reference field is kept). -/
theorem hlogin_delta (cfg : Cfg) (le : ID → ID → Bool) (s : State) (h : Nat) (uid : String) (excl : Bool)
    (hnf : NoFail s) (hi : Inv cfg.codec s) (hk : HOK s h) (_href : (s.obj h).ref = none) :
    LoginDelta cfg le s h uid excl (hlogin cfg le s h uid excl) :=
  hlogin_delta_HL cfg le s h uid excl hnf hi hk.toHL

/-- the hypothesis of `hlogin_saves`: **the record the session has under its id (if any) carries the object's
reference field.** True when the object is coherent with its record (`RecOf`, `refAgrees_of_recOf`), in particular
when it is the object cached under its id (`refAgrees_of_cached`); neither `HL` nor `HOK` gives it for an uncached
object. Without it an exclusive `LogIn` (whose loop re-writes the session's own record when it is listed for the user)
emits a save under the old id whose `ref` is the record's, not the object's: `Ex08.login_saves_needs_refAgrees`. -/
def RefAgrees (s : State) (h : Nat) : Prop := ∀ r0, lookup (s.obj h).id s.store = some r0 → r0.ref = (s.obj h).ref

theorem refAgrees_of_cached {c : Codec} {s : State} {h : Nat} (hi : Inv c s) (hc : ((s.obj h).id, h) ∈ s.cache) :
    RefAgrees s h := by
  intro r0 hl0
  obtain ⟨r, hl, he⟩ := hi.coh _ h hc (by simp)
  rw [hl0] at hl
  simp only [Option.some.injEq] at hl
  subst hl
  rw [← ess_ref he, enc_ref]

/-- **the saves of `s.LogIn`, event level** (for folds over the `.save` events): under a key other than the old and
the new id a save re-writes an existing record keeping `ref`, `data`, `created`; under the old / new id it is a save of
the session object itself (`ref` as the object's) or the final reference record; and the reference record is saved. -/
theorem hlogin_saves (cfg : Cfg) (le : ID → ID → Bool) (s : State) (h : Nat) (uid : String) (excl : Bool)
    (hnf : NoFail s) (hi : Inv cfg.codec s) (hl : HL s h) (hra : RefAgrees s h) :
    (∀ k rc, Ev.save k rc ∈ (hlogin cfg le s h uid excl).2.2 →
      (k ≠ (s.obj h).id → k ≠ .gen s.nextId →
        ∃ r0, lookup k s.store = some r0 ∧ rc.ref = r0.ref ∧ rc.data = r0.data ∧ rc.created = r0.created) ∧
      (k = (s.obj h).id ∨ k = .gen s.nextId →
        rc.ref = (s.obj h).ref ∨ (k = (s.obj h).id ∧ rc.ref = some (.gen s.nextId)))) ∧
    ∃ rc, Ev.save (s.obj h).id rc ∈ (hlogin cfg le s h uid excl).2.2 ∧ rc.ref = some (.gen s.nextId) := by
  have D := hlogin_delta_HL cfg le s h uid excl hnf hi hl
  refine ⟨fun k rc hm => ⟨(D.saves k rc hm).1, fun hk => ?_⟩, D.refSaved⟩
  rcases (D.saves k rc hm).2 hk with e | e | ⟨_, r0, hl0, e⟩
  · exact Or.inl e
  · exact Or.inr e
  · exact Or.inl (e.trans (hra r0 hl0))

/-! ## C08 -/

/-- **C08 (1a): `LogOut(uid)` detaches the user everywhere.** Fault-free, from a coherent state, for every order
oracle: the call reports success, afterwards NO stored record carries `uid` and no cached object does.
No side condition on the stale listing entries (`extra`) is needed: a listed id without record is skipped
(`c08_missing_skipped`), a listed record of another user is logged out too (see `UsersDelta.store`). -/
theorem c08_logoutUser (cfg : Cfg) (le : ID → ID → Bool) (s : State) (uid : String) (hnf : NoFail s)
    (hi : Inv cfg.codec s) :
    (logoutUser cfg le s uid).2.1 = true ∧
    (∀ k rc, lookup k (logoutUser cfg le s uid).1.store = some rc → rc.user ≠ some uid) ∧
    (∀ k x, (k, x) ∈ (logoutUser cfg le s uid).1.cache →
      ((logoutUser cfg le s uid).1.obj x).user.map (·.1) ≠ some uid) := by
  have D := logoutUser_delta cfg le s uid hnf hi
  have hst : ∀ k rc, lookup k (logoutUser cfg le s uid).1.store = some rc → rc.user ≠ some uid := by
    intro k rc hl hu
    obtain ⟨r0, hl0, hu0, _⟩ := D.rec_of hl
    by_cases hk : k ∈ userSessions le s uid
    · rw [if_pos hk] at hu0; rw [hu0] at hu; cases hu
    · rw [if_neg hk] at hu0
      exact hk (mem_userSessions_of_lookup hl0 (hu0 ▸ hu))
  refine ⟨D.ok, hst, ?_⟩
  intro k x hm hu
  obtain ⟨rc, hl, he⟩ := cached_user D.inv hm
  exact hst k rc hl (he ▸ hu)

/-- the hypothesis of `c08_refresh_users`: **the stale listing entries of `uid` point at records of `uid`** (or at
nothing). `RefreshUser` writes the user object into EVERY session `UserSessions` lists; an entry `(uid, id)` whose
record belongs to nobody or to somebody else makes it attach `uid` to that session — `Ex08.refresh_stale_attaches`. -/
def StaleOK (s : State) (uid : String) : Prop :=
  ∀ id, (uid, id) ∈ s.extra → ∀ rc, lookup id s.store = some rc → rc.user = some uid

theorem staleOK_of_nil {s : State} (uid : String) (h : s.extra = []) : StaleOK s uid := by
  intro id hm; rw [h] at hm; simp at hm

/-- **C08 (1b): `RefreshUser` re-attaches the new user object.** The call reports success, the user table holds the
new version, and every CACHED object of user `uid` carries the new version. No side condition. -/
theorem c08_refresh (cfg : Cfg) (le : ID → ID → Bool) (s : State) (uid : String) (hnf : NoFail s)
    (hi : Inv cfg.codec s) :
    (refreshUser cfg le s uid).2.1 = true ∧
    (refreshUser cfg le s uid).1.ver uid = s.ver uid + 1 ∧
    (∀ k x v, (k, x) ∈ (refreshUser cfg le s uid).1.cache → ((refreshUser cfg le s uid).1.obj x).user = some (uid, v) →
      v = s.ver uid + 1) := by
  have D := refreshUser_delta cfg le s uid hnf hi
  refine ⟨D.ok, ?_, ?_⟩
  · unfold State.ver
    rw [refreshUser_vers cfg le s uid hnf hi, Loc.lookup_insert_self]
    rfl
  · intro k x v hm hu
    by_cases hk : k ∈ userSessions le s uid
    · have := D.cacheUser k x hm hk
      rw [hu] at this
      simp only [Option.some.injEq, Prod.mk.injEq] at this
      exact this.2
    · exfalso
      obtain ⟨rc, hl, he⟩ := cached_user D.inv hm
      rw [hu] at he
      obtain ⟨r0, hl0, hu0, _⟩ := D.rec_of hl
      rw [if_neg hk] at hu0
      exact hk (mem_userSessions_of_lookup hl0 (by rw [← hu0, ← he]; rfl))

/-- **C08 (1b'): `RefreshUser` changes no record essentially — in particular not its user id — provided the stale
listing entries are harmless (`StaleOK`; e.g. `s.extra = []`, `staleOK_of_nil`).** -/
theorem c08_refresh_users (cfg : Cfg) (le : ID → ID → Bool) (s : State) (uid : String) (hnf : NoFail s)
    (hi : Inv cfg.codec s) (hst : StaleOK s uid) :
    (∀ k, (lookup k (refreshUser cfg le s uid).1.store).map ess = (lookup k s.store).map ess) ∧
    (∀ k, (lookup k (refreshUser cfg le s uid).1.store).map (·.user) = (lookup k s.store).map (·.user)) := by
  have D := refreshUser_delta cfg le s uid hnf hi
  have h1 : ∀ k, (lookup k (refreshUser cfg le s uid).1.store).map ess = (lookup k s.store).map ess := by
    intro k
    rw [D.store k]
    cases hl : lookup k s.store with
    | none => rfl
    | some r0 =>
      simp only [Option.map_some, Option.some.injEq]
      split
      · rename_i hk
        have hu : r0.user = some uid := by
          rcases (mem_userSessions le s uid k).1 hk with ⟨r, hm, hu⟩ | hm
          · have := Sx.lookup_of_mem_nodup hi.sok.nodup hm
            rw [hl] at this
            simp only [Option.some.injEq] at this
            rw [this]; exact hu
          · exact hst k hm r0 hl
        simp [ess, hu]
      · rfl
  refine ⟨h1, ?_⟩
  intro k
  have e : ∀ o : Option Rec, o.map (·.user) = (o.map ess).map (·.1) := by intro o; cases o <;> rfl
  rw [e, e, h1 k]

/-- **C08 (1c): a listed id that does not exist is skipped**: with no cache entry and no record under `id` the loop
asks the store once (`.load id false`), nothing fails, and it goes on with the rest of the list. -/
theorem c08_missing_skipped (cfg : Cfg) (u : Option (String × Nat)) (id : ID) (rest : List ID) (s : State)
    (hnf : NoFail s) (hc : lookup id s.cache = none) (hs : lookup id s.store = none) :
    setUserAll cfg u (id :: rest) s =
      ((setUserAll cfg u rest s.pop).1, (setUserAll cfg u rest s.pop).2.1,
        .load id false :: (setUserAll cfg u rest s.pop).2.2) := by
  have hg : cacheGet cfg s id = (s.pop, .nil, [.load id false]) := by
    rw [Loc.cacheGet_miss hc, Loc.loadRec_eq, noFail_head hnf]
    simp only [Bool.false_eq_true, if_false, hs]
    rfl
  rw [Loc.setUserAll_cons_nil hg]
  rfl

/-- under `Inv`, an id without record is not cached -/
theorem not_cached_of_no_record {c : Codec} {s : State} (hi : Inv c s) {id : ID} (hs : lookup id s.store = none) :
    lookup id s.cache = none := by
  cases hc : lookup id s.cache with
  | none => rfl
  | some x =>
    obtain ⟨r, hl, _⟩ := hi.coh id x (Sx.lookup_some_mem hc) (by simp)
    rw [hs] at hl; cases hl

/-- … wherever the missing id stands in the list: the loop reaches it (nothing before it fails or creates the
record), asks the store once and goes on. -/
theorem missing_load (cfg : Cfg) (u : Option (String × Nat)) : ∀ (ids : List ID) (s : State), NoFail s → Inv cfg.codec s →
    ∀ id ∈ ids, lookup id s.store = none → Ev.load id false ∈ (setUserAll cfg u ids s).2.2 := by
  intro ids
  induction ids with
  | nil => intro s _ _ id hm; simp at hm
  | cons a rest ih =>
    intro s hnf hi id hm hs
    by_cases ha : a = id
    · subst ha
      rw [c08_missing_skipped cfg u a rest s hnf (not_cached_of_no_record hi hs) hs]
      exact List.mem_cons_self
    · have hm' : id ∈ rest := by
        rcases List.mem_cons.1 hm with h | h
        · exact absurd h.symm ha
        · exact h
      obtain ⟨s3, e, hnf3, hinv3, hE3, heq⟩ := setUserAll_cons_split cfg u a rest s hnf hi
      rw [heq]
      apply List.mem_append_right
      apply ih s3 hnf3 hinv3 id hm'
      have := hE3 id
      rw [E_none hs] at this
      unfold E at this
      cases hl : lookup id s3.store with
      | none => rfl
      | some r => rw [hl] at this; simp at this

/-- **C08 (1c) for the API calls**: an id `UserSessions(uid)` lists although no record exists (a stale entry) makes
`LogOut(uid)` / `RefreshUser` ask the store for it once — `.load id false` — and the call succeeds all the same
(with all the conclusions of `c08_logoutUser` / `c08_refresh`, which have no side condition). -/
theorem c08_missing_listed (cfg : Cfg) (le : ID → ID → Bool) (s : State) (uid : String) (u : Option (String × Nat))
    (hnf : NoFail s) (hi : Inv cfg.codec s) {id : ID} (hm : id ∈ userSessions le s uid) (hs : lookup id s.store = none) :
    (forUser cfg le s uid u).2.1 = true ∧ Ev.load id false ∈ (forUser cfg le s uid u).2.2 := by
  refine ⟨(forUser_delta cfg le s uid u hnf hi).ok, ?_⟩
  rw [forUser_nofail cfg le s uid u hnf]
  exact List.mem_cons_of_mem _
    (missing_load cfg u _ s.pop (noFail_pop hnf) (hi.congr rfl rfl rfl rfl rfl) id hm hs)

/-- **C08 (3): `s.LogOut()` detaches the user from the session**: the object carries no user afterwards. -/
theorem c08_logout_obj (cfg : Cfg) (s : State) (h : Nat) (hnf : NoFail s) (hi : Inv cfg.codec s) (hk : HOK s h) :
    (hlogout cfg s h).2.1 = .ok ∧ ((hlogout cfg s h).1.obj h).user = none ∧
    ((hlogout cfg s h).1.obj h).id = (s.obj h).id := by
  have D := hlogout_delta cfg s h hnf hi hk
  refine ⟨D.ok, ?_, ?_⟩ <;> rw [D.obj h, if_pos rfl]

/-- the hypothesis of `c08_logout`: **the handle's object has a record it agrees with.** `Inv` provides it for the
object CACHED under its id (`recOf_of_cached`); `HOK` alone does not (the object may be uncached: caching off, or
evicted), see `Ex08.logout_needs_record`. -/
def RecOf (c : Codec) (s : State) (h : Nat) : Prop :=
  ∃ r0, lookup (s.obj h).id s.store = some r0 ∧ ess r0 = ess (enc c (s.obj h))

theorem recOf_of_cached {c : Codec} {s : State} {h : Nat} (hi : Inv c s) (hc : ((s.obj h).id, h) ∈ s.cache) :
    RecOf c s h := More.C10.hrec_of_cached hi hc

theorem refAgrees_of_recOf {c : Codec} {s : State} {h : Nat} (hr : RecOf c s h) : RefAgrees s h := by
  intro r0 hl0
  obtain ⟨r, hl, he⟩ := hr
  rw [hl0] at hl
  simp only [Option.some.injEq] at hl
  subst hl
  rw [ess_ref he, enc_ref]

/-- **C08 (3): … and from its record.** -/
theorem c08_logout (cfg : Cfg) (s : State) (h : Nat) (hnf : NoFail s) (hi : Inv cfg.codec s) (hk : HOK s h)
    (hrec : RecOf cfg.codec s h) :
    (hlogout cfg s h).2.1 = .ok ∧ ((hlogout cfg s h).1.obj h).user = none ∧
    ∃ rc, lookup ((hlogout cfg s h).1.obj h).id (hlogout cfg s h).1.store = some rc ∧ rc.user = none := by
  have D := hlogout_delta cfg s h hnf hi hk
  obtain ⟨h1, h2, h3⟩ := c08_logout_obj cfg s h hnf hi hk
  refine ⟨h1, h2, ?_⟩
  rw [h3, D.store]
  by_cases hu : (s.obj h).user = none
  · rw [if_pos hu]
    obtain ⟨r0, hl, he⟩ := hrec
    exact ⟨r0, hl, by rw [ess_user he, enc_user, hu]; rfl⟩
  · rw [if_neg hu]
    exact ⟨_, Loc.lookup_insert_self _ _ _, by rw [enc_user]; rfl⟩

/-- when the object did carry a user, `RecOf` is not needed: the record is written -/
theorem c08_logout_of_user (cfg : Cfg) (s : State) (h : Nat) (hnf : NoFail s) (hi : Inv cfg.codec s) (hk : HOK s h)
    (hu : (s.obj h).user ≠ none) :
    lookup (s.obj h).id (hlogout cfg s h).1.store = some (enc cfg.codec { s.obj h with user := none }) := by
  rw [(hlogout_delta cfg s h hnf hi hk).store, if_neg hu]
  exact Loc.lookup_insert_self _ _ _

/-- **C08 (2): `s.LogIn(uid, excl)` attaches and rotates; exclusive detaches everywhere else.** Fault-free, from a
coherent state, `h` an allocated object with a minted id (`HL`) that is not a reference record, every order oracle:
the call succeeds; the SAME object carries `(uid, current version)` and the freshly minted id, which differs from the
old one; the record under the new id is the encoding of the object (so carries `uid` and is a full record); the record
under the old id is a reference to the new id and carries no user; and if `excl`, no OTHER record (key ≠ new id) and
no other cached object (key ≠ new id, equivalently handle ≠ `h`) carries `uid`. -/
theorem c08_login_HL (cfg : Cfg) (le : ID → ID → Bool) (s : State) (h : Nat) (uid : String) (excl : Bool)
    (hnf : NoFail s) (hi : Inv cfg.codec s) (hl : HL s h) (href : (s.obj h).ref = none) :
    (hlogin cfg le s h uid excl).2.1 = .ok ∧
    ((hlogin cfg le s h uid excl).1.obj h).user = some (uid, (hlogin cfg le s h uid excl).1.ver uid) ∧
    ((hlogin cfg le s h uid excl).1.obj h).id = .gen s.nextId ∧ ID.gen s.nextId ≠ (s.obj h).id ∧
    ((hlogin cfg le s h uid excl).1.obj h).data = (s.obj h).data ∧
    (∃ rc, lookup (.gen s.nextId) (hlogin cfg le s h uid excl).1.store = some rc ∧
      rc = enc cfg.codec ((hlogin cfg le s h uid excl).1.obj h) ∧ rc.user = some uid ∧ rc.ref = none) ∧
    (∃ rc, lookup (s.obj h).id (hlogin cfg le s h uid excl).1.store = some rc ∧ rc.ref = some (.gen s.nextId) ∧
      rc.user = none) ∧
    (excl = true →
      (∀ k rc, k ≠ .gen s.nextId → lookup k (hlogin cfg le s h uid excl).1.store = some rc → rc.user ≠ some uid) ∧
      (∀ k x, (k, x) ∈ (hlogin cfg le s h uid excl).1.cache → k ≠ .gen s.nextId →
        ((hlogin cfg le s h uid excl).1.obj x).user.map (·.1) ≠ some uid) ∧
      (∀ k x, (k, x) ∈ (hlogin cfg le s h uid excl).1.cache → x ≠ h →
        ((hlogin cfg le s h uid excl).1.obj x).user.map (·.1) ≠ some uid)) := by
  have D := hlogin_delta_HL cfg le s h uid excl hnf hi hl
  have hver : (hlogin cfg le s h uid excl).1.ver uid = s.ver uid := by simp [State.ver, D.vers]
  have hidn : ((hlogin cfg le s h uid excl).1.obj h).id = .gen s.nextId := by rw [D.obj]
  obtain ⟨ro, hlo, hro1, hro2, _⟩ := D.old
  refine ⟨D.ok, by rw [D.obj, hver], hidn, fun e => hl.minted.ne_gen e.symm, by rw [D.obj],
    ⟨_, D.new, rfl, by rw [enc_user, D.obj]; rfl, by rw [enc_ref, D.obj]; exact href⟩, ⟨ro, hlo, hro1, hro2⟩, ?_⟩
  intro hex
  have hst : ∀ k rc, k ≠ .gen s.nextId → lookup k (hlogin cfg le s h uid excl).1.store = some rc → rc.user ≠ some uid := by
    intro k rc hkn hl hu
    by_cases hko : k = (s.obj h).id
    · subst hko
      rw [hlo] at hl
      simp only [Option.some.injEq] at hl
      subst hl
      rw [hro2] at hu; cases hu
    · have := D.others k hko hkn
      rw [hl] at this
      cases hl0 : lookup k s.store with
      | none => rw [hl0] at this; simp at this
      | some r0 =>
        rw [hl0] at this
        simp only [Option.map_some, Option.some.injEq, hex, true_and] at this
        by_cases hm : k ∈ userSessions le s uid
        · rw [if_pos hm] at this
          have := ess_user this
          rw [hu] at this; cases this
        · rw [if_neg hm] at this
          exact hm (mem_userSessions_of_lookup hl0 ((ess_user this).symm.trans hu))
  have hca : ∀ k x, (k, x) ∈ (hlogin cfg le s h uid excl).1.cache → k ≠ .gen s.nextId →
      ((hlogin cfg le s h uid excl).1.obj x).user.map (·.1) ≠ some uid := by
    intro k x hm hkn hu
    obtain ⟨rc, hl, he⟩ := cached_user D.inv hm
    exact hst k rc hkn hl (he ▸ hu)
  refine ⟨hst, hca, ?_⟩
  intro k x hm hxh
  apply hca k x hm
  intro hkn
  subst hkn
  exact hxh (D.hok.only x (by rw [hidn]; exact hm))

/-- **C08 (2)** as stated for the request's object: `HOK s h` (what `Start` provides) implies `HL s h`.
`HOK` is NOT needed for any conclusion, see `c08_login_HL` and `hlogin_delta_HL`; what needs it is the write of a
LATER handler call through a stale object (`Sx.two_objects_break_coherence`), not `LogIn` itself. -/
theorem c08_login (cfg : Cfg) (le : ID → ID → Bool) (s : State) (h : Nat) (uid : String) (excl : Bool)
    (hnf : NoFail s) (hi : Inv cfg.codec s) (hk : HOK s h) (href : (s.obj h).ref = none) :
    (hlogin cfg le s h uid excl).2.1 = .ok ∧
    ((hlogin cfg le s h uid excl).1.obj h).user = some (uid, (hlogin cfg le s h uid excl).1.ver uid) ∧
    ((hlogin cfg le s h uid excl).1.obj h).id = .gen s.nextId ∧ ID.gen s.nextId ≠ (s.obj h).id ∧
    ((hlogin cfg le s h uid excl).1.obj h).data = (s.obj h).data ∧
    (∃ rc, lookup (.gen s.nextId) (hlogin cfg le s h uid excl).1.store = some rc ∧
      rc = enc cfg.codec ((hlogin cfg le s h uid excl).1.obj h) ∧ rc.user = some uid ∧ rc.ref = none) ∧
    (∃ rc, lookup (s.obj h).id (hlogin cfg le s h uid excl).1.store = some rc ∧ rc.ref = some (.gen s.nextId) ∧
      rc.user = none) ∧
    (excl = true →
      (∀ k rc, k ≠ .gen s.nextId → lookup k (hlogin cfg le s h uid excl).1.store = some rc → rc.user ≠ some uid) ∧
      (∀ k x, (k, x) ∈ (hlogin cfg le s h uid excl).1.cache → k ≠ .gen s.nextId →
        ((hlogin cfg le s h uid excl).1.obj x).user.map (·.1) ≠ some uid) ∧
      (∀ k x, (k, x) ∈ (hlogin cfg le s h uid excl).1.cache → x ≠ h →
        ((hlogin cfg le s h uid excl).1.obj x).user.map (·.1) ≠ some uid)) :=
  c08_login_HL cfg le s h uid excl hnf hi hk.toHL href

/-! ## non-vacuity and counter-examples

Concrete states built by running the model from `{}` (kernel-checked `decide` for state-level facts; `#guard` where
`userSessions` — `List.mergeSort`, which the kernel does not unfold — has to be evaluated). `maxCache = 3`:

* `t6`: three sessions, each logged in (so each has a reference record under its first id):
  A = `gen 1` of user "u" — EVICTED from the cache, the loop has to load it; B = `gen 3` of user "u" — cached (handle 2);
  C = `gen 5` of user "v" — cached (handle 4).
* `t5`: the same before C logs in: C = `gen 4`, no user, cached (handle 4), the request's object.
* `tS`: `t6` with two stale listing entries for "u": `gen 5` (C's record, user "v") and `gen 9` (no such record).
-/
namespace Ex08

def cfg3 : Cfg := { maxCache := 3 }
def tick (s : State) : State := { s with now := s.now + 1 }
def rq : Req := { create := true }
def le0 : ID → ID → Bool := fun _ _ => true

def t1 : State := (start cfg3 {} rq).1
def t2 : State := tick (hlogin cfg3 le0 t1 0 "u" false).1
def t3 : State := (start cfg3 t2 rq).1
def t4 : State := tick (hlogin cfg3 le0 t3 2 "u" false).1
def t5 : State := (start cfg3 t4 rq).1
def t6 : State := tick (hlogin cfg3 le0 t5 4 "v" false).1
def tS : State := { t6 with extra := [("u", .gen 5), ("u", .gen 9)] }

theorem tick_ok {c : Codec} {s : State} {h : Nat} (hs : NoFail s ∧ Inv c s ∧ HOK s h) :
    NoFail (tick s) ∧ Inv c (tick s) ∧ HOK (tick s) h :=
  ⟨hs.1, hs.2.1.congr rfl rfl rfl rfl rfl, hs.2.2.congr rfl rfl rfl⟩

theorem start_ok {s : State} (hs : NoFail s ∧ Inv cfg3.codec s) {h : Nat} (hr : (start cfg3 s rq).2.1 = .sess h) :
    NoFail (start cfg3 s rq).1 ∧ Inv cfg3.codec (start cfg3 s rq).1 ∧ HOK (start cfg3 s rq).1 h := by
  have P := start_spec cfg3 s rq hs.1 hs.2
  exact ⟨P.mono.nofail, P.inv, P.hok h hr⟩

theorem login_ok {s : State} {h : Nat} (hs : NoFail s ∧ Inv cfg3.codec s ∧ HOK s h) (uid : String) :
    NoFail (hlogin cfg3 le0 s h uid false).1 ∧ Inv cfg3.codec (hlogin cfg3 le0 s h uid false).1 ∧
      HOK (hlogin cfg3 le0 s h uid false).1 h := by
  have P := hlogin_spec cfg3 le0 s h uid false hs.1 hs.2.1 hs.2.2
  exact ⟨P.mono.nofail, P.inv, P.hok⟩

theorem t1_ok : NoFail t1 ∧ Inv cfg3.codec t1 ∧ HOK t1 0 :=
  start_ok ⟨noFail_of_nil rfl, inv_init _⟩ (by decide)
theorem t2_ok : NoFail t2 ∧ Inv cfg3.codec t2 ∧ HOK t2 0 := tick_ok (login_ok t1_ok "u")
theorem t3_ok : NoFail t3 ∧ Inv cfg3.codec t3 ∧ HOK t3 2 := start_ok ⟨t2_ok.1, t2_ok.2.1⟩ (by decide)
theorem t4_ok : NoFail t4 ∧ Inv cfg3.codec t4 ∧ HOK t4 2 := tick_ok (login_ok t3_ok "u")
theorem t5_ok : NoFail t5 ∧ Inv cfg3.codec t5 ∧ HOK t5 4 := start_ok ⟨t4_ok.1, t4_ok.2.1⟩ (by decide)
theorem t6_ok : NoFail t6 ∧ Inv cfg3.codec t6 ∧ HOK t6 4 := tick_ok (login_ok t5_ok "v")
theorem inv_extra {c : Codec} {s : State} (e : List (String × ID)) (hs : NoFail s ∧ Inv c s) :
    NoFail { s with extra := e } ∧ Inv c { s with extra := e } := ⟨hs.1, hs.2.congr rfl rfl rfl rfl rfl⟩
theorem tS_ok : NoFail tS ∧ Inv cfg3.codec tS := inv_extra _ ⟨t6_ok.1, t6_ok.2.1⟩

/-- a record whose user is `uid` is listed (in a form `decide` can feed) -/
theorem mem_userSessions_of_map {le : ID → ID → Bool} {s : State} {uid : String} {k : ID}
    (h : (lookup k s.store).map (·.user) = some (some uid)) : k ∈ userSessions le s uid := by
  cases hl : lookup k s.store with
  | none => rw [hl] at h; cases h
  | some r =>
    rw [hl] at h
    simp only [Option.map_some, Option.some.injEq] at h
    exact mem_userSessions_of_lookup hl h

/-- the shape of `t6`: A (`gen 1`, "u") is stored but not cached; B (`gen 3`, "u") and C (`gen 5`, "v") are cached -/
example : t6.cache = [(.gen 4, 5), (.gen 5, 4), (.gen 3, 2)] ∧
    t6.store.map (fun e => (e.1, e.2.user)) =
      [(.gen 4, none), (.gen 5, some "v"), (.gen 2, none), (.gen 1, some "u"), (.gen 3, some "u"), (.gen 0, none)] := by
  decide

/-! #### `LogOut(uid)` -/

/-- `c08_logoutUser` applies to `t6`, for every listing order … -/
example (le : ID → ID → Bool) := c08_logoutUser cfg3 le t6 "u" t6_ok.1 t6_ok.2.1
example (le : ID → ID → Bool) := logoutUser_delta cfg3 le t6 "u" t6_ok.1 t6_ok.2.1
/-- … and says something: before the call two records carry "u", one of them not cached -/
example : (lookup (ID.gen 1) t6.store).map (·.user) = some (some "u") ∧
    (lookup (ID.gen 3) t6.store).map (·.user) = some (some "u") ∧ lookup (ID.gen 1) t6.cache = none := by decide
/-- both are listed whatever the order, the session of "v" is not -/
example (le : ID → ID → Bool) : ID.gen 1 ∈ userSessions le t6 "u" ∧ ID.gen 3 ∈ userSessions le t6 "u" ∧
    ID.gen 5 ∉ userSessions le t6 "u" := by
  refine ⟨mem_userSessions_of_map (by decide), mem_userSessions_of_map (by decide), ?_⟩
  rw [mem_userSessions_noextra le t6 "u" _ t6_ok.2.1.sok rfl]
  rintro ⟨r, hl, hu⟩
  have : (lookup (ID.gen 5) t6.store).map (·.user) = some (some "v") := by decide
  rw [hl] at this
  simp only [Option.map_some, Option.some.injEq] at this
  rw [hu] at this
  exact absurd this (by decide)
-- the run: A is loaded (`load gen 1`), B is flushed by the compaction and loaded again; afterwards nobody is "u", C is still "v"
#guard (logoutUser cfg3 idLe t6 "u").2.1
#guard (logoutUser cfg3 idLe t6 "u").2.2.contains (.load (.gen 1) true)
#guard (logoutUser cfg3 idLe t6 "u").1.store.all (fun e => e.2.user != some "u")
#guard (lookup (ID.gen 5) (logoutUser cfg3 idLe t6 "u").1.store).map (·.user) == some (some "v")
#guard (logoutUser cfg3 idLe t6 "u").1.cache.all (fun e => ((logoutUser cfg3 idLe t6 "u").1.obj e.2).user.map (·.1) != some "u")
#guard (logoutUser cfg3 idLe t6 "u").1.store.length == t6.store.length

/-! #### `RefreshUser` -/

example (le : ID → ID → Bool) := c08_refresh cfg3 le t6 "u" t6_ok.1 t6_ok.2.1
example (le : ID → ID → Bool) := c08_refresh_users cfg3 le t6 "u" t6_ok.1 t6_ok.2.1 (staleOK_of_nil "u" rfl)
#guard (refreshUser cfg3 idLe t6 "u").2.1 && (refreshUser cfg3 idLe t6 "u").1.ver "u" == 1
-- the cached objects of "u" (A loaded, B) carry version 1; the request object of B (handle 2, evicted meanwhile) may not
#guard (refreshUser cfg3 idLe t6 "u").1.cache.map (fun e => ((refreshUser cfg3 idLe t6 "u").1.obj e.2).user) ==
  [some ("u", 1), some ("u", 1), some ("v", 0)]
#guard (refreshUser cfg3 idLe t6 "u").1.store.map (fun e => (e.1, e.2.user)) |>.all (fun p => (lookup p.1 t6.store).map (·.user) == some p.2)

/-- **`StaleOK` cannot be dropped** from `c08_refresh_users`: in `tS` the listing of "u" contains `gen 5`, the session
of user "v". `RefreshUser("u")` (any listing order) turns it into a session of "u". -/
theorem refresh_stale_attaches (le : ID → ID → Bool) :
    NoFail tS ∧ Inv cfg3.codec tS ∧ ¬ StaleOK tS "u" ∧
    (lookup (ID.gen 5) tS.store).map (·.user) = some (some "v") ∧
    (lookup (ID.gen 5) (refreshUser cfg3 le tS "u").1.store).map (·.user) = some (some "u") ∧
    ¬ (∀ k, (lookup k (refreshUser cfg3 le tS "u").1.store).map (·.user) = (lookup k tS.store).map (·.user)) := by
  have hv : (lookup (ID.gen 5) tS.store).map (·.user) = some (some "v") := by decide
  have hm : ID.gen 5 ∈ userSessions le tS "u" := (mem_userSessions le tS "u" _).2 (Or.inr (by decide))
  have D := refreshUser_delta cfg3 le tS "u" tS_ok.1 tS_ok.2
  have hu : (lookup (ID.gen 5) (refreshUser cfg3 le tS "u").1.store).map (·.user) = some (some "u") := by
    cases hl0 : lookup (ID.gen 5) tS.store with
    | none => rw [hl0] at hv; cases hv
    | some r0 =>
      obtain ⟨rc, hl, hu, _⟩ := D.rec_to hl0
      rw [if_pos hm] at hu
      rw [hl]; simp [hu]
  refine ⟨tS_ok.1, tS_ok.2, ?_, hv, hu, ?_⟩
  · intro hst
    cases hl0 : lookup (ID.gen 5) tS.store with
    | none => rw [hl0] at hv; cases hv
    | some r0 =>
      have := hst (.gen 5) (by decide) r0 hl0
      rw [hl0] at hv
      simp only [Option.map_some, Option.some.injEq] at hv
      rw [this] at hv
      exact absurd hv (by decide)
  · intro hall
    have := hall (.gen 5)
    rw [hu, hv] at this
    exact absurd this (by decide)

/-- the same run shows the missing id being skipped: `gen 9` is listed, has no record, is asked for once, and the call
succeeds all the same (`c08_logoutUser` / `c08_refresh` hold for `tS` as for any coherent state) -/
example (le : ID → ID → Bool) : ID.gen 9 ∈ userSessions le tS "u" ∧ lookup (ID.gen 9) tS.store = none ∧
    lookup (ID.gen 9) tS.cache = none :=
  ⟨(mem_userSessions le tS "u" _).2 (Or.inr (by decide)), by decide, by decide⟩
example (le : ID → ID → Bool) := c08_logoutUser cfg3 le tS "u" tS_ok.1 tS_ok.2
#guard (logoutUser cfg3 idLe tS "u").2.1 && (logoutUser cfg3 idLe tS "u").2.2.contains (.load (.gen 9) false)
#guard (logoutUser cfg3 idLe tS "u").1.store.all (fun e => e.2.user != some "u")
-- … while `LogOut("u")` logs the listed session of "v" out as well (the delta says so: listed records lose their user)
#guard (lookup (ID.gen 5) (logoutUser cfg3 idLe tS "u").1.store).map (·.user) == some none
#guard (refreshUser cfg3 idLe tS "u").2.1 && (refreshUser cfg3 idLe tS "u").2.2.contains (.load (.gen 9) false)
/-- `c08_missing_listed` on `tS`, for every listing order: `LogOut("u")` succeeds and asks once for the missing `gen 9` -/
example (le : ID → ID → Bool) : (logoutUser cfg3 le tS "u").2.1 = true ∧
    Ev.load (.gen 9) false ∈ (logoutUser cfg3 le tS "u").2.2 :=
  c08_missing_listed cfg3 le tS "u" none tS_ok.1 tS_ok.2 ((mem_userSessions le tS "u" _).2 (Or.inr (by decide))) (by decide)
/-- `c08_missing_skipped` on a concrete state -/
example : setUserAll cfg3 none [.gen 9] tS = (tS.pop, true, [.load (.gen 9) false]) :=
  c08_missing_skipped cfg3 none (.gen 9) [] tS tS_ok.1 (by decide) (by decide)

/-! #### `s.LogIn` -/

/-- `c08_login` / `hlogin_delta` apply to C's request in `t5` (exclusive and not), for every listing order -/
example (le : ID → ID → Bool) (excl : Bool) := c08_login cfg3 le t5 4 "u" excl t5_ok.1 t5_ok.2.1 t5_ok.2.2 (by decide)
example (le : ID → ID → Bool) (excl : Bool) := hlogin_delta cfg3 le t5 4 "u" excl t5_ok.1 t5_ok.2.1 t5_ok.2.2 (by decide)
/-- … where two other sessions of "u" exist, one of them not cached -/
example : (t5.obj 4).id = .gen 4 ∧ (t5.obj 4).user = none ∧ t5.nextId = 5 ∧
    (lookup (ID.gen 1) t5.store).map (·.user) = some (some "u") ∧
    (lookup (ID.gen 3) t5.store).map (·.user) = some (some "u") ∧ lookup (ID.gen 1) t5.cache = none := by decide
-- exclusive: afterwards only the new id `gen 5` carries "u"; the old id `gen 4` is a reference record
#guard (hlogin cfg3 idLe t5 4 "u" true).2.1 == .ok
#guard (hlogin cfg3 idLe t5 4 "u" true).1.store.map (fun e => (e.1, e.2.user, e.2.ref)) ==
  [(.gen 4, none, some (.gen 5)), (.gen 5, some "u", none), (.gen 3, none, none), (.gen 1, none, none),
   (.gen 2, none, some (.gen 3)), (.gen 0, none, some (.gen 1))]
#guard ((hlogin cfg3 idLe t5 4 "u" true).1.obj 4).user == some ("u", 0) && ((hlogin cfg3 idLe t5 4 "u" true).1.obj 4).id == .gen 5
-- not exclusive: the other sessions of "u" stay
#guard (hlogin cfg3 idLe t5 4 "u" false).1.store.map (fun e => (e.1, e.2.user)) ==
  [(.gen 4, none), (.gen 5, some "u"), (.gen 2, none), (.gen 1, some "u"), (.gen 3, some "u"), (.gen 0, none)]

/-! #### `s.LogIn` through an object that is NOT the cached one (`HL` without `HOK`)

`tP`: `t6` after `PurgeSessions` and a `cache.Get` of B's id: B's request object (handle 2) is no longer cached, a second
object (handle 6) for the same session is — the situation of `Sx.two_objects_break_coherence`. -/

def tP : State := (cacheGet cfg3 (purge cfg3 t6).1 (.gen 3)).1

theorem tP_ok : NoFail tP ∧ Inv cfg3.codec tP ∧ HL tP 2 ∧ ¬ HOK tP 2 ∧ (tP.obj 2).ref = none := by
  obtain ⟨hf, _⟩ := purge_spec cfg3 t6 t6_ok.1 t6_ok.2.1
  have hg := Sx.cacheGet_spec cfg3 (purge cfg3 t6).1 (.gen 3) hf.nofail hf.inv
  have href : (tP.obj 2).ref = none := by decide
  refine ⟨hg.step.nofail, hg.inv, ⟨by decide, ⟨3, by decide, by decide⟩, by rw [href]; exact refOK_none _⟩, ?_, href⟩
  intro hk
  exact absurd (hk.only 6 (by decide)) (by decide)

example : tP.cache = [(.gen 3, 6)] ∧ (tP.obj 2).id = .gen 3 ∧ (tP.obj 6).id = .gen 3 := by decide
/-- the delta and C08 (2) hold for this request all the same, exclusive or not, any listing order -/
example (le : ID → ID → Bool) (excl : Bool) :=
  hlogin_delta_HL cfg3 le tP 2 "w" excl tP_ok.1 tP_ok.2.1 tP_ok.2.2.1
example (le : ID → ID → Bool) (excl : Bool) :=
  c08_login_HL cfg3 le tP 2 "w" excl tP_ok.1 tP_ok.2.1 tP_ok.2.2.1 tP_ok.2.2.2.2
-- the run: the request's object replaces the stale copy in the cache (`gen 6 ↦ 2`), the final state is coherent
#guard (hlogin cfg3 idLe tP 2 "w" false).1.cache == [(.gen 3, 7), (.gen 6, 2)]
#guard cohB .gob (hlogin cfg3 idLe tP 2 "w" false).1 && cohB .gob (hlogin cfg3 idLe tP 2 "u" true).1
#guard (hlogin cfg3 idLe tP 2 "u" true).1.store.map (fun e => (e.1, e.2.user, e.2.ref)) ==
  [(.gen 3, none, some (.gen 6)), (.gen 6, some "u", none), (.gen 1, none, none), (.gen 5, some "v", none),
   (.gen 4, none, some (.gen 5)), (.gen 2, none, some (.gen 3)), (.gen 0, none, some (.gen 1))]

/-! #### `s.LogOut()` -/

/-- `c08_logout` applies to C's request in `t6` (cached, so `RecOf` holds), where the object does carry a user -/
example := c08_logout cfg3 t6 4 t6_ok.1 t6_ok.2.1 t6_ok.2.2 (recOf_of_cached t6_ok.2.1 (by decide))
example : (t6.obj 4).user = some ("v", 0) ∧ ((hlogout cfg3 t6 4).1.obj 4).user = none ∧
    (lookup (ID.gen 5) (hlogout cfg3 t6 4).1.store).map (·.user) = some none := by decide
/-- … and to a session without user (`t5`), where nothing happens -/
example := c08_logout cfg3 t5 4 t5_ok.1 t5_ok.2.1 t5_ok.2.2 (recOf_of_cached t5_ok.2.1 (by decide))
example : hlogout cfg3 t5 4 = (t5, .ok, []) := Loc.hlogout_none (by decide)

/-- **`RecOf` cannot be dropped** from `c08_logout`: `More.C10.exBare` is coherent, handle 0 satisfies `HOK`, nothing
fails, the object carries no user — `s.LogOut()` does nothing, and there is no record under the object's id. -/
theorem logout_needs_record :
    Inv Codec.gob More.C10.exBare ∧ HOK More.C10.exBare 0 ∧ NoFail More.C10.exBare ∧ ¬ RecOf Codec.gob More.C10.exBare 0 ∧
    ¬ ∃ rc, lookup ((hlogout {} More.C10.exBare 0).1.obj 0).id (hlogout {} More.C10.exBare 0).1.store = some rc ∧
      rc.user = none := by
  obtain ⟨h1, h2, _, h4⟩ := More.C10.exBare_ok
  have hn : lookup ((hlogout {} More.C10.exBare 0).1.obj 0).id (hlogout {} More.C10.exBare 0).1.store = none := by decide
  have hn0 : lookup (More.C10.exBare.obj 0).id More.C10.exBare.store = none := by decide
  refine ⟨h1, h2, h4, ?_, ?_⟩
  · rintro ⟨r0, hl, _⟩; rw [hn0] at hl; cases hl
  · rintro ⟨rc, hl, _⟩; rw [hn] at hl; cases hl

/-! #### `RefAgrees` cannot be dropped from `hlogin_saves` -/

/-- an uncached session object (no reference) whose record, listed for "u", carries a reference -/
def exU : State :=
  { heap := [{ id := .gen 0, created := 0, lastAccess := 0 }],
    store := [(.gen 0, enc .gob { id := .gen 0, created := 0, lastAccess := 0, user := some ("u", 0), ref := some (.gen 0) })],
    nextId := 1 }

theorem exU_ok : NoFail exU ∧ Inv Codec.gob exU ∧ HOK exU 0 ∧ ¬ RefAgrees exU 0 := by
  refine ⟨noFail_of_nil rfl, ⟨List.nodup_nil, ?_, ?_, ?_, ?_, ?_, ⟨by decide, ?_, ?_, ?_⟩, ?_⟩,
    ⟨⟨by decide, ⟨0, rfl, by decide⟩, refOK_none _⟩, ?_⟩, ?_⟩
  · intro id h hm; simp [exU] at hm
  · intro id h hm; simp [exU] at hm
  · intro id h hm; simp [exU] at hm
  · intro id h hm; simp [exU] at hm
  · intro id h hm; simp [exU] at hm
  · intro id r hm
    simp only [exU, List.mem_singleton, Prod.mk.injEq] at hm
    rw [hm.1]; exact ⟨0, rfl, by decide⟩
  · intro id r hm
    simp only [exU, List.mem_singleton, Prod.mk.injEq] at hm
    rw [hm.2, enc_ref]; exact refOK_some ⟨0, rfl, by decide⟩
  · intro id r hm
    simp only [exU, List.mem_singleton, Prod.mk.injEq] at hm
    rw [hm.2]; exact norm_enc _ _
  · intro t id hm; simp [exU] at hm
  · intro h' hm; simp [exU] at hm
  · intro hra
    have := hra _ (show lookup (exU.obj 0).id exU.store = some _ from rfl)
    exact absurd this (by decide)

/-- the general form (`LoginDelta.saves`, third alternative) does hold for it … -/
example (le : ID → ID → Bool) := (hlogin_delta_HL {} le exU 0 "u" true exU_ok.1 exU_ok.2.1 exU_ok.2.2.1.toHL).saves
-- … but the exclusive log-in re-writes the listed record under the old id `gen 0` keeping ITS reference `some (gen 0)`,
-- which is neither the object's (`none`) nor the new id (`gen 1`): the conclusion of `hlogin_saves` fails.
/-- `Ex08.login_saves_needs_refAgrees` (evaluated: the listing sorts with `List.mergeSort`) -/
def login_saves_needs_refAgrees : Bool :=
  (hlogin {} idLe exU 0 "u" true).2.2.any (fun e => match e with
    | .save k rc => k == .gen 0 && rc.ref != (exU.obj 0).ref && rc.ref != some (.gen 1)
    | _ => false)
#guard login_saves_needs_refAgrees
/-- on the states of this section the hypothesis holds (cached request objects) -/
example (le : ID → ID → Bool) (excl : Bool) :=
  hlogin_saves cfg3 le t5 4 "u" excl t5_ok.1 t5_ok.2.1 t5_ok.2.2.toHL (refAgrees_of_cached t5_ok.2.1 (by decide))

/-! #### a history (`World.step`): evaluated, since `userSessions` sorts with `List.mergeSort` -/

/-- three clients; a and b log in as "u", c as "v" (`maxCache = 2`: a's and b's sessions are evicted); a stale listing
entry for a missing id; `RefreshUser("u")`; c logs in as "u" EXCLUSIVELY; `LogOut("u")`. -/
def c08Script : List (Orc × Op) :=
  [({}, .cfg "maxCache" 2),
   ({}, .req "a" .none "" "" true), ({}, .h (.login "u" false)), ({}, .endReq),
   ({}, .req "b" .none "" "" true), ({}, .h (.login "u" false)), ({}, .endReq),
   ({}, .req "c" .none "" "" true), ({}, .h (.login "v" false)), ({}, .endReq),
   ({}, .stale "u" (.gen 9)),
   ({}, .refresh "u"),
   ({}, .req "c" .jar "" "" false), ({}, .h (.login "u" true)), ({}, .endReq),
   ({}, .logoutUser "u")]

/-- the keys of the records that carry `uid` -/
def usersOf (w : World) (uid : String) : List ID := (w.st.store.filter (fun e => e.2.user == some uid)).map (·.1)

#guard histOKb idLe {} c08Script
-- after the three log-ins: two records of "u", neither session cached
#guard usersOf (runHist idLe {} (c08Script.take 10)) "u" == [.gen 3, .gen 1]
#guard (runHist idLe {} (c08Script.take 10)).st.cache == [(.gen 4, 5), (.gen 5, 4)]
-- RefreshUser: same records, both sessions loaded, the cached objects carry version 1
#guard usersOf (runHist idLe {} (c08Script.take 12)) "u" == [.gen 3, .gen 1]
#guard (runHist idLe {} (c08Script.take 12)).st.cache.map (fun e => ((runHist idLe {} (c08Script.take 12)).st.obj e.2).user) ==
  [some ("u", 1), some ("u", 1)]
-- exclusive LogIn of c: only the new id of c's session carries "u", nobody is "v" any more
#guard usersOf (runHist idLe {} (c08Script.take 14)) "u" == [.gen 6] && usersOf (runHist idLe {} (c08Script.take 14)) "v" == []
-- LogOut("u"): nobody is "u"
#guard usersOf (runHist idLe {} c08Script) "u" == []
#guard (List.range 17).all (fun n => cohB .gob (runHist idLe {} (c08Script.take n)).st)

end Ex08

/-
Dependencies as printed by `#print` (checked in a scratch file against this build): every theorem of this file and of `Users08Ops.lean`
depends on a subset of `[propext, Classical.choice, Quot.sound]` — in particular
`c08_logoutUser`, `c08_refresh`, `c08_refresh_users`, `c08_missing_listed`, `missing_load`, `c08_login_HL`, `c08_login`,
`setUserAll_delta`, `forUser_delta`, `logoutUser_delta`, `refreshUser_delta`, `hlogin_delta_HL`, `hlogin_delta`,
`Ex08.refresh_stale_attaches`: `[propext, Classical.choice, Quot.sound]`;
`c08_missing_skipped`, `c08_logout_obj`, `c08_logout`, `c08_logout_of_user`, `hlogout_delta`, `regenerate_E`, `round_core`:
`[propext, Quot.sound]`; `hlogout_frame`, `Ex08.logout_needs_record`: `[propext]`.
-/

end Sx.Glob
