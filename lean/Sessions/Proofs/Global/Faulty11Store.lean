import Sessions.Proofs.Global.Delta
/-!
# C11 — the store follows the events, for EVERY fault oracle

Nothing in this file assumes `NoFail`: every statement holds for every state and every value of the fault oracle
`State.fails` (and of the order oracle `State.picks`).

* `applyEv` / `applyEvs`: what the events of a transcript do to the stored records. Successful saves insert,
  successful deletes (by a call or by a clean-up goroutine) erase; *failed* calls, loads, user lookups and
  cookies change nothing.
* `Follows s s' evs`: the store of `s'` is the store of `s` with `evs` applied.
* one theorem `follows_<fn>` per model function, `store_follows_events` as their summary;
* `c11_failed_call_changes_nothing`: a failed persistence call leaves the store alone and says so in its event;
* `step_store_follows_events` / `step_store_frozen`: the same for one operation of a history (`World.step`),
  without and with a crash point striking inside the call.
-/
namespace Sx.Glob
open Sx.Loc Sx.More
open Sx.More.C10 (Replay replay_saveRec replay_sweep replay_evictLoop replay_compact replay_cacheSet replay_cacheGet)

/-- what one event does to the stored records: successful saves insert, successful deletes (by a call or by a clean-up goroutine) erase; failed calls, loads, user lookups and cookies change nothing. -/
def applyEv (st : List (ID × Rec)) : Ev → List (ID × Rec)
  | .save id r => insert id r st
  | .del id => erase id st
  | .bg _ id => erase id st
  | _ => st
def applyEvs (evs : List Ev) (st : List (ID × Rec)) : List (ID × Rec) := evs.foldl applyEv st

/-! ## 1. basic lemmas -/

@[simp] theorem applyEvs_nil (st : List (ID × Rec)) : applyEvs [] st = st := rfl

theorem applyEvs_cons (e : Ev) (evs : List Ev) (st : List (ID × Rec)) :
    applyEvs (e :: evs) st = applyEvs evs (applyEv st e) := rfl

theorem applyEvs_append (a b : List Ev) (st : List (ID × Rec)) :
    applyEvs (a ++ b) st = applyEvs b (applyEvs a st) := by
  simp only [applyEvs, List.foldl_append]

theorem applyEvs_singleton (e : Ev) (st : List (ID × Rec)) : applyEvs [e] st = applyEv st e := rfl

/-- an event that is not a background delete acts as in the crash model (`applyMut`) -/
theorem applyEv_eq_applyMut {e : Ev} (h : ∀ t id, e ≠ .bg t id) (st : List (ID × Rec)) : applyEv st e = applyMut st e := by
  cases e <;> first | rfl | exact absurd rfl (h _ _)

theorem applyEvs_eq_foldl_applyMut {evs : List Ev} (h : ∀ e ∈ evs, ∀ t id, e ≠ .bg t id) (st : List (ID × Rec)) :
    applyEvs evs st = evs.foldl applyMut st := by
  induction evs generalizing st with
  | nil => rfl
  | cons e r ih =>
    rw [applyEvs_cons, List.foldl_cons, applyEv_eq_applyMut (h e List.mem_cons_self),
      ih (fun e' he' => h e' (List.mem_cons_of_mem _ he'))]

/-- the event of a failed call changes nothing -/
theorem applyEv_failed {e : Ev} (h : isFailEv e = true) (st : List (ID × Rec)) : applyEv st e = st := by
  cases e <;> first | rfl | cases h

/-- a cookie changes nothing -/
theorem applyEv_cookie {e : Ev} (h : isCookie e = true) (st : List (ID × Rec)) : applyEv st e = st := by
  cases e <;> first | rfl | cases h

/-- events that are not mutations change nothing -/
theorem applyEv_not_mut {e : Ev} (h : isMut e = false) (hb : ∀ t id, e ≠ .bg t id) (st : List (ID × Rec)) :
    applyEv st e = st := by
  cases e <;> first | exact absurd rfl (hb _ _) | rfl | cases h

/-- dropping events that change nothing -/
theorem applyEvs_filter_inert (p : Ev → Bool) (hp : ∀ e, p e = false → ∀ st, applyEv st e = st) (evs : List Ev)
    (st : List (ID × Rec)) : applyEvs (evs.filter p) st = applyEvs evs st := by
  induction evs generalizing st with
  | nil => rfl
  | cons e r ih =>
    cases hpe : p e with
    | true => rw [List.filter_cons_of_pos hpe, applyEvs_cons, applyEvs_cons, ih]
    | false => rw [List.filter_cons_of_neg (by simp [hpe]), applyEvs_cons, hp e hpe, ih]

theorem applyEvs_filter_not_cookie (evs : List Ev) (st : List (ID × Rec)) :
    applyEvs (evs.filter (fun e => !isCookie e)) st = applyEvs evs st :=
  applyEvs_filter_inert _ (fun e he st => applyEv_cookie (by simpa using he) st) evs st

theorem applyEvs_filter_not_fail (evs : List Ev) (st : List (ID × Rec)) :
    applyEvs (evs.filter (fun e => !isFailEv e)) st = applyEvs evs st :=
  applyEvs_filter_inert _ (fun e he st => applyEv_failed (by simpa using he) st) evs st

/-- when every event changes nothing, so does the list -/
theorem applyEvs_inert {evs : List Ev} (h : ∀ e ∈ evs, ∀ st, applyEv st e = st) (st : List (ID × Rec)) :
    applyEvs evs st = st := by
  induction evs generalizing st with
  | nil => rfl
  | cons e r ih =>
    rw [applyEvs_cons, h e List.mem_cons_self, ih (fun e' he' => h e' (List.mem_cons_of_mem _ he'))]

/-- the event does not delete the record under `k` -/
def KeepsKey (k : ID) (e : Ev) : Prop := e ≠ .del k ∧ ∀ t, e ≠ .bg t k
/-- the event neither writes nor deletes the record under `k` -/
def AvoidsKey (k : ID) (e : Ev) : Prop := (∀ r, e ≠ .save k r) ∧ e ≠ .del k ∧ ∀ t, e ≠ .bg t k

theorem lookup_applyEv_untouched {k : ID} {e : Ev} (h : AvoidsKey k e) (st : List (ID × Rec)) :
    lookup k (applyEv st e) = lookup k st := by
  obtain ⟨h1, h2, h3⟩ := h
  cases e with
  | save id r =>
    have : id ≠ k := fun hk => h1 r (by rw [hk])
    exact Loc.lookup_insert_ne this _ _
  | del id =>
    have : id ≠ k := fun hk => h2 (by rw [hk])
    exact Loc.lookup_erase_ne this _
  | bg t id =>
    have : id ≠ k := fun hk => h3 t (by rw [hk])
    exact Loc.lookup_erase_ne this _
  | _ => rfl

/-- a record no event of the list writes or deletes is still what it was -/
theorem lookup_applyEvs_untouched {k : ID} {evs : List Ev} (h : ∀ e ∈ evs, AvoidsKey k e) (st : List (ID × Rec)) :
    lookup k (applyEvs evs st) = lookup k st := by
  induction evs generalizing st with
  | nil => rfl
  | cons e r ih =>
    rw [applyEvs_cons, ih (fun e' he' => h e' (List.mem_cons_of_mem _ he')),
      lookup_applyEv_untouched (h e List.mem_cons_self)]

theorem lookup_applyEv_keep {k : ID} {e : Ev} (h : KeepsKey k e) {st : List (ID × Rec)}
    (hs : (lookup k st).isSome = true) : (lookup k (applyEv st e)).isSome = true := by
  obtain ⟨h2, h3⟩ := h
  cases e with
  | save id r =>
    show (lookup k (insert id r st)).isSome = true
    rw [lookup_insert]; split
    · rfl
    · exact hs
  | del id =>
    have : id ≠ k := fun hk => h2 (by rw [hk])
    show (lookup k (erase id st)).isSome = true
    rw [Loc.lookup_erase_ne this]; exact hs
  | bg t id =>
    have : id ≠ k := fun hk => h3 t (by rw [hk])
    show (lookup k (erase id st)).isSome = true
    rw [Loc.lookup_erase_ne this]; exact hs
  | _ => exact hs

/-- a stored record that no event of the list deletes (saves to it are allowed) is still there -/
theorem lookup_applyEvs_keep {k : ID} {r : Rec} {evs : List Ev} {st : List (ID × Rec)} (hs : lookup k st = some r)
    (h : ∀ e ∈ evs, KeepsKey k e) : (lookup k (applyEvs evs st)).isSome = true := by
  have hs' : (lookup k st).isSome = true := by rw [hs]; rfl
  clear hs
  induction evs generalizing st with
  | nil => exact hs'
  | cons e r ih =>
    rw [applyEvs_cons]
    exact ih (fun e' he' => h e' (List.mem_cons_of_mem _ he')) (lookup_applyEv_keep (h e List.mem_cons_self) hs')

/-! ## 2. `Follows` -/

/-- the store of `s'` is the store of `s` with the events applied -/
@[reducible] def Follows (s s' : State) (evs : List Ev) : Prop := s'.store = applyEvs evs s.store

theorem Follows.refl (s : State) : Follows s s [] := rfl

theorem Follows.trans {a b c : State} {e1 e2 : List Ev} (h1 : Follows a b e1) (h2 : Follows b c e2) :
    Follows a c (e1 ++ e2) := by
  unfold Follows at *; rw [applyEvs_append, ← h1, h2]

theorem Follows.of_store_eq {s s' : State} (h : s'.store = s.store) : Follows s s' [] := h

theorem Follows.congr_left {a a' b : State} {e : List Ev} (h : Follows a b e) (ha : a'.store = a.store) : Follows a' b e := by
  unfold Follows at *; rw [ha]; exact h

theorem Follows.congr_right {a b b' : State} {e : List Ev} (h : Follows a b e) (hb : b'.store = b.store) : Follows a b' e := by
  unfold Follows at *; rw [hb]; exact h

/-- an event that changes nothing may be appended -/
theorem Follows.post_inert {a b : State} {e : List Ev} {c : Ev} (h : Follows a b e) (hc : ∀ st, applyEv st c = st) :
    Follows a b (e ++ [c]) := by
  unfold Follows at *; rw [applyEvs_append, ← h, applyEvs_singleton, hc]

/-- an event that changes nothing may be prepended -/
theorem Follows.pre_inert {a b : State} {e : List Ev} {c : Ev} (h : Follows a b e) (hc : ∀ st, applyEv st c = st) :
    Follows a b (c :: e) := by
  unfold Follows at *; rw [applyEvs_cons, hc]; exact h

theorem Follows.evs_post {a b : State} {e : List Ev} {c : Ev} (h : Follows a b e) (hc : isCookie c = true) :
    Follows a b (e ++ [c]) := h.post_inert (applyEv_cookie hc)

theorem Follows.evs_pre {a b : State} {e : List Ev} {c : Ev} (h : Follows a b e) (hc : isCookie c = true) :
    Follows a b ([c] ++ e) := h.pre_inert (applyEv_cookie hc)

theorem Follows.post_setCookie {a b : State} {e : List Ev} (h : Follows a b e) (id : ID) : Follows a b (e ++ [.setCookie id]) :=
  h.evs_post rfl
theorem Follows.post_delCookie {a b : State} {e : List Ev} (h : Follows a b e) : Follows a b (e ++ [.delCookie]) :=
  h.evs_post rfl
theorem Follows.pre_setCookie {a b : State} {e : List Ev} (h : Follows a b e) (id : ID) : Follows a b ([.setCookie id] ++ e) :=
  h.evs_pre rfl
theorem Follows.pre_delCookie {a b : State} {e : List Ev} (h : Follows a b e) : Follows a b ([.delCookie] ++ e) :=
  h.evs_pre rfl

/-- from the crash model's `Replay`, when no clean-up goroutine is among the events -/
theorem Follows.of_replay {s s' : State} {evs : List Ev} (h : Replay s s' evs) (hb : ∀ e ∈ evs, ∀ t id, e ≠ .bg t id) :
    Follows s s' evs := by
  unfold Follows; rw [applyEvs_eq_foldl_applyMut hb]; exact h

/-- and back -/
theorem Follows.to_replay {s s' : State} {evs : List Ev} (h : Follows s s' evs) (hb : ∀ e ∈ evs, ∀ t id, e ≠ .bg t id) :
    Replay s s' evs := by
  unfold Follows at h; rw [applyEvs_eq_foldl_applyMut hb] at h; exact h

/-- only what the events say: a record none of them touches is unchanged -/
theorem Follows.untouched {s s' : State} {evs : List Ev} (h : Follows s s' evs) {k : ID} (hk : ∀ e ∈ evs, AvoidsKey k e) :
    lookup k s'.store = lookup k s.store := by
  unfold Follows at h; rw [h]; exact lookup_applyEvs_untouched hk _

/-- a failed-only transcript leaves the store as it was -/
theorem Follows.all_failed {s s' : State} {evs : List Ev} (h : Follows s s' evs) (hf : ∀ e ∈ evs, isFailEv e = true) :
    s'.store = s.store := by
  unfold Follows at h; rw [h]; exact applyEvs_inert (fun e he st => applyEv_failed (hf e he) st) _

/-! ## 3. the persistence calls and `cache.go` -/

theorem follows_saveRec (cfg : Cfg) (s : State) (id : ID) (o : Sess) :
    Follows s (saveRec cfg s id o).1 (saveRec cfg s id o).2.2 := by
  rw [Loc.saveRec_eq]; split <;> rfl

theorem follows_delRec (s : State) (id : ID) : Follows s (delRec s id).1 (delRec s id).2.2 := by
  rw [Loc.delRec_eq]; split <;> rfl

theorem follows_cacheDelete (s : State) (id : ID) : Follows s (cacheDelete s id).1 (cacheDelete s id).2.2 := by
  rw [Loc.cacheDelete_eq]; split <;> rfl

/-- `LoadSession` never changes the store, and none of its events does -/
theorem loadRec_store_evs (s : State) (id : ID) :
    (loadRec s id).1.store = s.store ∧ ∀ st, applyEvs (loadRec s id).2.2 st = st := by
  have := loadRec_cases s id
  generalize loadRec s id = x at this ⊢
  cases this <;> exact ⟨rfl, fun _ => rfl⟩

theorem follows_loadRec (s : State) (id : ID) : Follows s (loadRec s id).1 (loadRec s id).2.2 := by
  obtain ⟨h1, h2⟩ := loadRec_store_evs s id
  unfold Follows; rw [h2]; exact h1

theorem follows_sweep (cfg : Cfg) : ∀ (l : List (ID × Nat)) (s : State), Follows s (sweep cfg s l).1 (sweep cfg s l).2.2
  | [], _ => rfl
  | (id, h) :: rest, s => by
    rw [sweep_cons]
    split
    · split
      · exact (follows_saveRec cfg s id (s.obj h)).trans ((follows_sweep cfg rest _).congr_left rfl)
      · exact follows_saveRec cfg s id (s.obj h)
    · exact follows_sweep cfg rest s

theorem follows_evictLoop (cfg : Cfg) (req : Int) : ∀ (fuel : Nat) (s : State),
    Follows s (evictLoop cfg req fuel s).1 (evictLoop cfg req fuel s).2
  | 0, _ => rfl
  | fuel + 1, s => by
    rw [evictLoop_succ]
    split
    · cases hv : victim s with
      | none => rfl
      | some e =>
        obtain ⟨id, h⟩ := e
        simp only
        split
        · exact (follows_saveRec cfg s id (s.obj h)).trans ((follows_evictLoop cfg req fuel _).congr_left rfl)
        · exact follows_saveRec cfg s id (s.obj h)
    · rfl

theorem follows_compact (cfg : Cfg) (req : Int) (s : State) : Follows s (compact cfg req s).1 (compact cfg req s).2 := by
  have h1 := follows_sweep cfg (orderBy s.picks s.cache) s
  rw [compact_eq]
  split
  · exact h1
  · split
    · exact h1
    · exact h1.trans (follows_evictLoop cfg _ _ _)

theorem follows_cacheSet (cfg : Cfg) (s : State) (h : Nat) : Follows s (cacheSet cfg s h).1 (cacheSet cfg s h).2.2 := by
  rw [cacheSet_eq]
  have h1 : Follows s (setC cfg s h).1 (setC cfg s h).2 := follows_compact cfg (setReq s h) (setObjNow s h)
  exact h1.trans ((follows_saveRec cfg (setK cfg s h) (s.obj h).id ((setK cfg s h).obj h)).congr_left (setK_store cfg s h).symm)

theorem follows_getOf (cfg : Cfg) (id : ID) (s : State) (x : State × LoadRes × List Ev) (hst : x.1.store = s.store)
    (hev : ∀ st, applyEvs x.2.2 st = st) : Follows s (getOf cfg id x).1 (getOf cfg id x).2.2 := by
  obtain ⟨s0, lr, e0⟩ := x
  simp only at hst hev
  cases lr with
  | fail => show s0.store = applyEvs e0 s.store; rw [hev]; exact hst
  | nil => show s0.store = applyEvs e0 s.store; rw [hev]; exact hst
  | found o =>
    rw [getOf_found]
    split
    · show (compact cfg 1 (s0.alloc o).2).1.store = applyEvs (e0 ++ (compact cfg 1 (s0.alloc o).2).2) s.store
      rw [applyEvs_append, hev, ← hst]
      exact follows_compact cfg 1 (s0.alloc o).2
    · show s0.store = applyEvs e0 s.store; rw [hev]; exact hst

theorem follows_cacheGet (cfg : Cfg) (s : State) (id : ID) : Follows s (cacheGet cfg s id).1 (cacheGet cfg s id).2.2 := by
  cases hc : lookup id s.cache with
  | some h => rw [Loc.cacheGet_hit hc]; rfl
  | none =>
    rw [cacheGet_miss hc]
    exact follows_getOf cfg id s _ (loadRec_store_evs s id).1 (loadRec_store_evs s id).2

theorem follows_purgeList (cfg : Cfg) : ∀ (l : List (ID × Nat)) (s : State),
    Follows s (purgeList cfg s l).1 (purgeList cfg s l).2
  | [], _ => rfl
  | (id, h) :: rest, s => by
    have h1 := follows_saveRec cfg s id (s.obj h)
    have h2 := follows_purgeList cfg rest (saveRec cfg s id (s.obj h)).1
    exact h1.trans h2

theorem follows_purge (cfg : Cfg) (s : State) : Follows s (purge cfg s).1 (purge cfg s).2 := by
  rw [purge_eq]; exact follows_purgeList cfg _ s

/-! ## 4. `session.go` -/

theorem follows_regenerate (cfg : Cfg) (s : State) (h : Nat) : Follows s (regenerate cfg s h).1 (regenerate cfg s h).2.2 := by
  have hA : Follows s (regenA cfg s h).1 (regenA cfg s h).2.2 := (follows_cacheSet cfg (regenS0 s h) h).congr_left rfl
  have hB : Follows (regenA cfg s h).1 (regenB cfg s h).1 (regenB cfg s h).2.2 :=
    (follows_cacheSet cfg (regenS2 cfg s h) _).congr_left rfl
  rw [regenerate_eq]
  split
  · exact hA
  · split
    · exact hA.trans hB
    · exact ((hA.trans hB).post_setCookie _).congr_right rfl

theorem follows_destroy (s : State) (h : Nat) (hasCookie : Bool) :
    Follows s (destroy s h hasCookie).1 (destroy s h hasCookie).2.2 := by
  have hD := follows_cacheDelete s (s.obj h).id
  rw [destroy_eq]
  split
  · exact hD
  · split
    · exact hD.post_delCookie
    · exact hD

theorem follows_createNew (cfg : Cfg) {s0 s : State} (r : Req) {pre : List Ev} (hp : Follows s0 s pre) :
    Follows s0 (createNew cfg s r pre).1 (createNew cfg s r pre).2.2 := by
  cases hc : r.create with
  | false => rw [createNew_no pre hc]; exact hp
  | true =>
    rw [createNew_yes pre hc]
    have hS : Follows s (cacheSet cfg (newS1 s r) s.heap.length).1 (cacheSet cfg (newS1 s r) s.heap.length).2.2 :=
      (follows_cacheSet cfg (newS1 s r) s.heap.length).congr_left rfl
    split
    · exact hp.trans hS
    · exact (hp.trans hS).post_setCookie _

theorem follows_createNew_nil (cfg : Cfg) (s : State) (r : Req) :
    Follows s (createNew cfg s r []).1 (createNew cfg s r []).2.2 := follows_createNew cfg r (Follows.refl s)

theorem follows_follow (cfg : Cfg) : ∀ (n : Nat) (s : State) (h : Nat), Follows s (follow cfg n s h).1 (follow cfg n s h).2.2
  | 0, _, _ => rfl
  | n + 1, s, h => by
    cases href : (s.obj h).ref with
    | none => rw [follow_succ_none n href]; exact Follows.refl s
    | some tgt =>
      rw [follow_succ_some n href]
      have hG := follows_cacheGet cfg s tgt
      generalize cacheGet cfg s tgt = g at hG
      obtain ⟨s1, res, e1⟩ := g
      cases res with
      | err => exact hG
      | nil => exact hG
      | some h2 => exact hG.trans (follows_follow cfg n s1 h2)

theorem follows_startValid (cfg : Cfg) {s0 s1 : State} (id : ID) (h : Nat) (r : Req) {e1 : List Ev} (hp : Follows s0 s1 e1) :
    Follows s0 (startValid cfg s1 id h r e1).1 (startValid cfg s1 id h r e1).2.2 := by
  cases href : (s1.obj h).ref with
  | none =>
    by_cases hage : since s1.now (s1.obj h).created ≥ cfg.idExpiry
    · rw [startValid_rotate id r e1 href hage]
      have hR := hp.trans (follows_regenerate cfg s1 h)
      split
      · exact hR
      · exact hR.congr_right rfl
    · rw [startValid_young id r e1 href (by omega)]
      exact hp.congr_right rfl
  | some t =>
    by_cases hexp : since s1.now (s1.obj h).created ≥ cfg.idExpiry ∧ since s1.now (s1.obj h).created - cfg.idExpiry ≥ cfg.grace
    · rw [startValid_ref_expired id r e1 href hexp]
      split <;> exact hp.trans (follows_cacheDelete s1 id)
    · rw [startValid_ref id r e1 href hexp]
      have hF := hp.trans (follows_follow cfg (s1.store.length + s1.cache.length + 1) s1 h)
      generalize follow cfg (s1.store.length + s1.cache.length + 1) s1 h = g at hF
      obtain ⟨s2, res, e2⟩ := g
      cases res with
      | err => exact hF
      | nil => exact hF
      | some h2 => exact (hF.post_setCookie _).congr_right rfl

theorem follows_startInvalid (cfg : Cfg) {s0 s1 : State} (h : Nat) (r : Req) {e1 : List Ev} (hp : Follows s0 s1 e1) :
    Follows s0 (startInvalid cfg s1 h r e1).1 (startInvalid cfg s1 h r e1).2.2 := by
  unfold startInvalid
  have hD := hp.trans (follows_destroy s1 h true)
  split
  · exact hD
  · exact follows_createNew cfg r hD

theorem follows_startGot (cfg : Cfg) (r : Req) (id : ID) {s0 : State} (g : State × GetRes × List Ev) (hp : Follows s0 g.1 g.2.2) :
    Follows s0 (startGot cfg r id g).1 (startGot cfg r id g).2.2 := by
  obtain ⟨s1, res, e1⟩ := g
  cases res with
  | err => exact hp
  | nil => exact follows_createNew cfg r hp.post_delCookie
  | some h =>
    simp only [startGot]
    split
    · exact follows_startInvalid cfg h r hp
    · exact follows_startValid cfg id h r hp

theorem follows_start (cfg : Cfg) (s : State) (r : Req) : Follows s (start cfg s r).1 (start cfg s r).2.2 := by
  cases hck : r.cookie with
  | none => rw [start_none hck]; exact follows_createNew_nil cfg s r
  | some id =>
    by_cases hl : r.cookieLen = 24
    · rw [start_some hck hl]; exact follows_startGot cfg r id _ (follows_cacheGet cfg s id)
    · rw [start_len hl]; exact follows_createNew_nil cfg s r

/-! ### handlers -/

theorem follows_saveObj (cfg : Cfg) (s : State) (h : Nat) : Follows s (saveObj cfg s h).1 (saveObj cfg s h).2.2 := by
  rw [saveObj_eq]; exact follows_saveRec cfg s _ _

theorem follows_hset (cfg : Cfg) (s : State) (h : Nat) (k : String) (v : Val) :
    Follows s (hset cfg s h k v).1 (hset cfg s h k v).2.2 := by
  cases hd : (s.obj h).data with
  | none => rw [hset_none k v hd]; exact Follows.refl s
  | some d => rw [hset_some k v hd]; exact (follows_saveObj cfg _ h).congr_left rfl

theorem follows_hdel (cfg : Cfg) (s : State) (h : Nat) (k : String) : Follows s (hdel cfg s h k).1 (hdel cfg s h k).2.2 := by
  rw [hdel_eq]; exact (follows_saveObj cfg _ h).congr_left rfl

theorem follows_hgetdel (cfg : Cfg) (s : State) (h : Nat) (k : String) :
    Follows s (hgetdel cfg s h k).1 (hgetdel cfg s h k).2.2 := by
  cases hl : lookup k ((s.obj h).data.getD []) with
  | none => rw [hgetdel_none hl]; exact Follows.refl s
  | some v => rw [hgetdel_some hl]; exact (follows_saveObj cfg _ h).congr_left rfl

theorem follows_hlogout (cfg : Cfg) (s : State) (h : Nat) : Follows s (hlogout cfg s h).1 (hlogout cfg s h).2.2 := by
  cases hu : (s.obj h).user with
  | none => rw [hlogout_none hu]; exact Follows.refl s
  | some u => rw [hlogout_some hu]; exact (follows_saveObj cfg _ h).congr_left rfl

/-! ### users -/

theorem follows_setUserAll (cfg : Cfg) (u : Option (String × Nat)) : ∀ (ids : List ID) (s : State),
    Follows s (setUserAll cfg u ids s).1 (setUserAll cfg u ids s).2.2
  | [], _ => rfl
  | id :: rest, s => by
    have hG := follows_cacheGet cfg s id
    rcases hg : cacheGet cfg s id with ⟨s1, res, e1⟩
    rw [hg] at hG
    cases res with
    | err => rw [setUserAll_cons_err hg]; exact hG
    | nil => rw [setUserAll_cons_nil hg]; exact hG.trans (follows_setUserAll cfg u rest s1)
    | some h =>
      rw [setUserAll_cons_some hg]
      have hS : Follows s (userSet cfg u s1 h).1 (e1 ++ (userSet cfg u s1 h).2.2) :=
        hG.trans ((follows_cacheSet cfg _ h).congr_left rfl)
      split
      · exact hS
      · exact hS.trans (follows_setUserAll cfg u rest _)

theorem follows_forUser (cfg : Cfg) (le : ID → ID → Bool) (s : State) (uid : String) (u : Option (String × Nat)) :
    Follows s (forUser cfg le s uid u).1 (forUser cfg le s uid u).2.2 := by
  rw [forUser_eq]
  split
  · rfl
  · exact ((follows_setUserAll cfg u _ s.pop).congr_left rfl).pre_inert (fun _ => rfl)

theorem follows_logoutUser (cfg : Cfg) (le : ID → ID → Bool) (s : State) (uid : String) :
    Follows s (logoutUser cfg le s uid).1 (logoutUser cfg le s uid).2.2 := follows_forUser cfg le s uid none

theorem follows_refreshUser (cfg : Cfg) (le : ID → ID → Bool) (s : State) (uid : String) :
    Follows s (refreshUser cfg le s uid).1 (refreshUser cfg le s uid).2.2 :=
  (follows_forUser cfg le _ uid _).congr_left rfl

theorem follows_hlogin (cfg : Cfg) (le : ID → ID → Bool) (s : State) (h : Nat) (uid : String) (excl : Bool) :
    Follows s (hlogin cfg le s h uid excl).1 (hlogin cfg le s h uid excl).2.2 := by
  have hP : Follows s (loginPre cfg le s h uid excl).1 (loginPre cfg le s h uid excl).2.2 := by
    unfold loginPre
    split
    · exact follows_logoutUser cfg le s uid
    · exact follows_hlogout cfg s h
  have hS : Follows (loginPre cfg le s h uid excl).1 (loginSet cfg le s h uid excl).1 (loginSet cfg le s h uid excl).2.2 :=
    (follows_cacheSet cfg _ h).congr_left rfl
  rw [Loc.hlogin_eq]
  split
  · exact hP
  · split
    · exact hP.trans hS
    · exact (hP.trans hS).trans (follows_regenerate cfg _ h)

/-! ### time -/

theorem follows_fireDue (s : State) (t : Int) : (fireDue s t).1.store = applyEvs (fireDue s t).2 s.store := by
  unfold fireDue
  apply foldl_ind (fun acc : State × List Ev => acc.1.store = applyEvs acc.2 s.store)
  · rfl
  · intro b a hb
    show erase a.2 b.1.store = applyEvs (b.2 ++ [Ev.bg (max a.1 s.now) a.2]) s.store
    rw [applyEvs_append, ← hb]; rfl

theorem follows_advance (s : State) (d : Int) : Follows s (advance s d).1 (advance s d).2 :=
  follows_fireDue s (s.now + d)

/-! ## 5. summary -/

/-- **C11 — the store follows the events, whatever the fault oracle.** For every state `s` (in particular every
value of `s.fails`) and every argument: the store after the call is the store before it with the call's events
applied by `applyEvs` — where failed saves/deletes/loads/user lookups and cookies are no-ops. -/
theorem store_follows_events (cfg : Cfg) (le : ID → ID → Bool) (s : State) :
    (∀ id, (cacheGet cfg s id).1.store = applyEvs (cacheGet cfg s id).2.2 s.store) ∧
    (∀ h, (cacheSet cfg s h).1.store = applyEvs (cacheSet cfg s h).2.2 s.store) ∧
    (∀ id, (cacheDelete s id).1.store = applyEvs (cacheDelete s id).2.2 s.store) ∧
    (∀ req, (compact cfg req s).1.store = applyEvs (compact cfg req s).2 s.store) ∧
    ((purge cfg s).1.store = applyEvs (purge cfg s).2 s.store) ∧
    (∀ h, (regenerate cfg s h).1.store = applyEvs (regenerate cfg s h).2.2 s.store) ∧
    (∀ h b, (destroy s h b).1.store = applyEvs (destroy s h b).2.2 s.store) ∧
    (∀ r, (createNew cfg s r []).1.store = applyEvs (createNew cfg s r []).2.2 s.store) ∧
    (∀ r, (start cfg s r).1.store = applyEvs (start cfg s r).2.2 s.store) ∧
    (∀ h k v, (hset cfg s h k v).1.store = applyEvs (hset cfg s h k v).2.2 s.store) ∧
    (∀ h k, (hdel cfg s h k).1.store = applyEvs (hdel cfg s h k).2.2 s.store) ∧
    (∀ h k, (hgetdel cfg s h k).1.store = applyEvs (hgetdel cfg s h k).2.2 s.store) ∧
    (∀ h, (hlogout cfg s h).1.store = applyEvs (hlogout cfg s h).2.2 s.store) ∧
    (∀ uid u, (forUser cfg le s uid u).1.store = applyEvs (forUser cfg le s uid u).2.2 s.store) ∧
    (∀ h uid excl, (hlogin cfg le s h uid excl).1.store = applyEvs (hlogin cfg le s h uid excl).2.2 s.store) ∧
    (∀ d, (advance s d).1.store = applyEvs (advance s d).2 s.store) :=
  ⟨follows_cacheGet cfg s, follows_cacheSet cfg s, follows_cacheDelete s, fun req => follows_compact cfg req s,
   follows_purge cfg s, follows_regenerate cfg s, follows_destroy s, follows_createNew_nil cfg s, follows_start cfg s,
   follows_hset cfg s, follows_hdel cfg s, follows_hgetdel cfg s, follows_hlogout cfg s, follows_forUser cfg le s,
   follows_hlogin cfg le s, follows_advance s⟩

/-! ## 6. a failed call changes nothing -/

theorem saveRec_false {cfg : Cfg} {s : State} {id : ID} {o : Sess} (h : (saveRec cfg s id o).2.1 = false) :
    (saveRec cfg s id o).1.store = s.store ∧ (saveRec cfg s id o).2.2 = [.saveFail id] := by
  rw [Loc.saveRec_eq] at h ⊢
  by_cases hf : s.fails.headD false = true
  · rw [if_pos hf]; exact ⟨rfl, rfl⟩
  · rw [if_neg hf] at h; cases h

theorem delRec_false {s : State} {id : ID} (h : (delRec s id).2.1 = false) :
    (delRec s id).1.store = s.store ∧ (delRec s id).2.2 = [.delFail id] := by
  rw [Loc.delRec_eq] at h ⊢
  by_cases hf : s.fails.headD false = true
  · rw [if_pos hf]; exact ⟨rfl, rfl⟩
  · rw [if_neg hf] at h; cases h

theorem cacheDelete_false {s : State} {id : ID} (h : (cacheDelete s id).2.1 = false) :
    (cacheDelete s id).1.store = s.store ∧ (cacheDelete s id).2.2 = [.delFail id] := by
  rw [Loc.cacheDelete_eq] at h ⊢
  by_cases hf : s.fails.headD false = true
  · rw [if_pos hf]; exact ⟨rfl, rfl⟩
  · rw [if_neg hf] at h; cases h

/-- **C11 — a failed persistence call changes nothing** (and its event says that it failed): (a) a failed
`SaveSession`; (b) a failed `DeleteSession`, directly or through `cache.Delete`; (c) `LoadSession` never changes
the store, failed or not; (d) so the failure events of a transcript can be dropped when replaying it. -/
theorem c11_failed_call_changes_nothing :
    (∀ (cfg : Cfg) (s : State) (id : ID) (o : Sess), (saveRec cfg s id o).2.1 = false →
      (saveRec cfg s id o).1.store = s.store ∧ (saveRec cfg s id o).2.2 = [.saveFail id]) ∧
    (∀ (s : State) (id : ID), (delRec s id).2.1 = false →
      (delRec s id).1.store = s.store ∧ (delRec s id).2.2 = [.delFail id]) ∧
    (∀ (s : State) (id : ID), (cacheDelete s id).2.1 = false →
      (cacheDelete s id).1.store = s.store ∧ (cacheDelete s id).2.2 = [.delFail id]) ∧
    (∀ (s : State) (id : ID), (loadRec s id).1.store = s.store) ∧
    (∀ (evs : List Ev) (st : List (ID × Rec)), applyEvs (evs.filter (fun e => !isFailEv e)) st = applyEvs evs st) :=
  ⟨fun _ _ _ _ h => saveRec_false h, fun _ _ h => delRec_false h, fun _ _ h => cacheDelete_false h,
   fun s id => (loadRec_store_evs s id).1, applyEvs_filter_not_fail⟩

/-! ## 7. one operation of a history -/

theorem finish_st_store (w : World) (o : Out) : (finish w o).1.st.store = w.st.store := by unfold finish; split <;> rfl
theorem finish_snd_evs (w : World) (o : Out) : (finish w o).2.evs = o.evs := by unfold finish; split <;> rfl
theorem finish_snd_bg (w : World) (o : Out) : (finish w o).2.bg = o.bg := by unfold finish; split <;> rfl
theorem finish_snd_frozen (w : World) (o : Out) : (finish w o).2.frozen = o.frozen := by unfold finish; split <;> rfl

/-- the transcript fields of an API call that concern the store -/
theorem apiCall_out3 (w : World) (orc : Orc) (run : State → State × RetV × Option String × List Ev) (b : Bool) :
    (apiCall w orc run b).2.evs = (run (orcSt w orc)).2.2.2.filter (fun e => !isCookie e) ∧
    (apiCall w orc run b).2.bg = (advance (apiMid w (run (orcSt w orc)).1 (run (orcSt w orc)).2.2.2) 1).2 ∧
    (apiCall w orc run b).2.frozen =
      (match w.freezeAt with
       | none => none
       | some _ => some (apiFrz w (run (orcSt w orc)).2.2.2)) := by
  unfold apiCall apiMid apiFrz apiMuts
  show _ = (run { w.st with fails := orc.fails, picks := orc.picks }).2.2.2.filter (fun e => !isCookie e) ∧ _
  generalize run { w.st with fails := orc.fails, picks := orc.picks } = r
  obtain ⟨s1, ret, msg, evs⟩ := r
  cases w.freezeAt with
  | none => exact ⟨rfl, rfl, rfl⟩
  | some k =>
    refine ⟨rfl, ?_, ?_⟩
    · simp only []
      split <;> rfl
    · simp only []
      split <;> rfl

theorem apiCall_st (w : World) (orc : Orc) (run : State → State × RetV × Option String × List Ev) (b : Bool) :
    (apiCall w orc run b).1.st = (advance (apiMid w (run (orcSt w orc)).1 (run (orcSt w orc)).2.2.2) 1).1 := by
  rw [apiCall_fst]

theorem apiMid_store_none {w : World} {s1 : State} {evs : List Ev} (h : apiFrz w evs = none) :
    (apiMid w s1 evs).store = s1.store := by unfold apiMid; rw [h]

theorem apiMid_store_some {w : World} {s1 : State} {evs : List Ev} {k : Nat} (h : apiFrz w evs = some k) :
    (apiMid w s1 evs).store = ((apiMuts evs).take k).foldl applyMut w.st.store := by unfold apiMid; rw [h]

/-- the store after one operation, given the store before it and what the harness prints for the operation -/
def StepStore (st0 : List (ID × Rec)) (p : World × Out) : Prop :=
  ((p.2.frozen = none ∨ p.2.frozen = some none) → p.1.st.store = applyEvs (p.2.evs ++ p.2.bg) st0) ∧
  (∀ k, p.2.frozen = some (some k) → p.1.st.store = applyEvs ((p.2.evs.filter isMut).take k ++ p.2.bg) st0)

theorem StepStore.finish {st0 : List (ID × Rec)} {p : World × Out} (h : StepStore st0 p) : StepStore st0 (finish p.1 p.2) := by
  unfold StepStore; rw [finish_st_store, finish_snd_evs, finish_snd_bg, finish_snd_frozen]; exact h

theorem StepStore.of_bg {st0 : List (ID × Rec)} {p : World × Out} (hs : p.1.st.store = applyEvs p.2.bg st0)
    (he : p.2.evs = []) (hf : p.2.frozen = none) : StepStore st0 p :=
  ⟨fun _ => by rw [he, hs]; rfl, fun k hk => by rw [hf] at hk; cases hk⟩

theorem StepStore.quiet {st0 : List (ID × Rec)} {p : World × Out} (hs : p.1.st.store = st0)
    (he : p.2.evs = []) (hb : p.2.bg = []) (hf : p.2.frozen = none) : StepStore st0 p :=
  StepStore.of_bg (by rw [hb, hs]; rfl) he hf

theorem mem_take_apiMuts_not_bg {evs : List Ev} {k : Nat} : ∀ e ∈ (apiMuts evs).take k, ∀ t id, e ≠ .bg t id := by
  intro e he t id h
  have h1 := List.mem_of_mem_take he
  unfold apiMuts at h1
  have h2 := (List.mem_filter.mp h1).2
  rw [h] at h2; cases h2

/-- **one API call**: whatever the oracle, when the function run makes the store follow its events -/
theorem stepStore_apiCall (w : World) (orc : Orc) (run : State → State × RetV × Option String × List Ev) (b : Bool)
    (hrun : Follows (orcSt w orc) (run (orcSt w orc)).1 (run (orcSt w orc)).2.2.2) :
    StepStore w.st.store (apiCall w orc run b) := by
  obtain ⟨he, hb, hf⟩ := apiCall_out3 w orc run b
  have hA := follows_advance (apiMid w (run (orcSt w orc)).1 (run (orcSt w orc)).2.2.2) 1
  unfold StepStore
  rw [apiCall_st, he, hb, hf, hA]
  generalize run (orcSt w orc) = r at hrun ⊢
  obtain ⟨s1, ret, msg, evs⟩ := r
  simp only at hrun ⊢
  have hrun' : s1.store = applyEvs evs w.st.store := hrun
  constructor
  · intro hfz
    have hnone : apiFrz w evs = none := by
      cases hfa : w.freezeAt with
      | none => unfold apiFrz; rw [hfa]
      | some k =>
        rw [hfa] at hfz; simp only at hfz
        rcases hfz with h | h
        · cases h
        · exact Option.some.inj h
    rw [apiMid_store_none hnone, applyEvs_append, applyEvs_filter_not_cookie, hrun']
  · intro k hfz
    have hsome : apiFrz w evs = some k := by
      cases hfa : w.freezeAt with
      | none => rw [hfa] at hfz; cases hfz
      | some k' => rw [hfa] at hfz; exact Option.some.inj hfz
    rw [apiMid_store_some hsome, applyEvs_append, ← applyEvs_eq_foldl_applyMut mem_take_apiMuts_not_bg]
    rfl

theorem stepStore_fin_api (w : World) (orc : Orc) (run : State → State × RetV × Option String × List Ev) (b : Bool)
    (hrun : Follows (orcSt w orc) (run (orcSt w orc)).1 (run (orcSt w orc)).2.2.2) :
    StepStore w.st.store (finish (apiCall w orc run b).1 (apiCall w orc run b).2) :=
  (stepStore_apiCall w orc run b hrun).finish

/-- every operation, whatever the oracles -/
theorem step_stepStore (le : ID → ID → Bool) (w : World) (orc : Orc) (op : Op) :
    StepStore w.st.store (w.step le orc op) := by
  by_cases hsk : w.skip = true
  · by_cases he : op = .endReq
    · subst he
      unfold World.step
      simp only [Bool.not_true, Bool.and_false, Bool.false_eq_true, if_false]
      exact StepStore.finish (p := (_, _)) (StepStore.quiet rfl rfl rfl rfl)
    · have : w.step le orc op = (w, { silent := true }) := by
        unfold World.step
        cases op <;> first | exact absurd rfl he | simp only [hsk, Bool.true_and, Bool.not_false, if_true]
      rw [this]; exact StepStore.quiet rfl rfl rfl rfl
  · have hsk' : w.skip = false := by simpa using hsk
    unfold World.step
    cases op with
    | codec c' =>
      simp only [hsk', Bool.false_and, Bool.false_eq_true, if_false]
      exact StepStore.finish (p := (_, _)) (StepStore.quiet rfl rfl rfl rfl)
    | cfg n v =>
      simp only [hsk', Bool.false_and, Bool.false_eq_true, if_false]
      exact StepStore.finish (p := (_, _)) (StepStore.quiet rfl rfl rfl rfl)
    | cookiecfg ck =>
      simp only [hsk', Bool.false_and, Bool.false_eq_true, if_false]
      exact StepStore.finish (p := (_, _)) (StepStore.quiet rfl rfl rfl rfl)
    | fault =>
      simp only [hsk', Bool.false_and, Bool.false_eq_true, if_false]
      exact StepStore.finish (p := (_, _)) (StepStore.quiet rfl rfl rfl rfl)
    | stale uid id =>
      simp only [hsk', Bool.false_and, Bool.false_eq_true, if_false]
      exact StepStore.finish (p := (_, _)) (StepStore.quiet rfl rfl rfl rfl)
    | crashinside k =>
      simp only [hsk', Bool.false_and, Bool.false_eq_true, if_false]
      exact StepStore.finish (p := (_, _)) (StepStore.quiet rfl rfl rfl rfl)
    | wait d =>
      simp only [hsk', Bool.false_and, Bool.false_eq_true, if_false]
      exact StepStore.finish (p := (_, _)) (StepStore.of_bg (follows_advance w.st d) rfl rfl)
    | dropcache =>
      simp only [hsk', Bool.false_and, Bool.false_eq_true, if_false]
      exact StepStore.finish (p := (_, _)) (StepStore.quiet rfl rfl rfl rfl)
    | crash =>
      simp only [hsk', Bool.false_and, Bool.false_eq_true, if_false]
      exact StepStore.finish (p := (_, _)) (StepStore.quiet rfl rfl rfl rfl)
    | expiredRec id =>
      simp only [hsk', Bool.false_and, Bool.false_eq_true, if_false]
      exact StepStore.finish (p := (_, _)) (StepStore.quiet rfl rfl rfl rfl)
    | purge =>
      simp only [hsk', Bool.false_and, Bool.false_eq_true, if_false]
      apply stepStore_fin_api w orc _ false
      exact follows_purge w.cfg (orcSt w orc)
    | logoutUser uid =>
      simp only [hsk', Bool.false_and, Bool.false_eq_true, if_false]
      apply stepStore_fin_api w orc _ false
      exact follows_logoutUser w.cfg le (orcSt w orc) uid
    | refresh uid =>
      simp only [hsk', Bool.false_and, Bool.false_eq_true, if_false]
      apply stepStore_fin_api w orc _ false
      exact follows_refreshUser w.cfg le (orcSt w orc) uid
    | endReq =>
      simp only [hsk', Bool.false_and, Bool.false_eq_true, if_false]
      exact StepStore.finish (p := (_, _)) (StepStore.quiet rfl rfl rfl rfl)
    | req client spec ip ua create =>
      simp only [hsk', Bool.false_and, Bool.false_eq_true, if_false]
      generalize ({ cookie := _, cookieLen := _, ip := ip, ua := ua, create := create } : Req) = r
      have h := stepStore_apiCall
        { w with inReq := true, client := client, cur := (match (start w.cfg (orcSt w orc) r).2.1 with | .sess h => some h | _ => none),
                 hasCookie := (match spec with
                    | .none => (none : Option (ID × Nat))
                    | .jar => (lookup client w.jars).map (fun id => (id, 24))
                    | .val id len => some (id, len)).isSome, respCookies := [] }
        orc (fun s => let (s1, res, evs) := start w.cfg s r; (s1, (resStr res).1, (resStr res).2, evs)) true
        (follows_start w.cfg (orcSt w orc) r)
      exact h
    | h hop =>
      simp only [hsk', Bool.false_and, Bool.false_eq_true, if_false]
      cases hc : w.cur with
      | none => exact StepStore.quiet rfl rfl rfl rfl
      | some h =>
        simp only []
        apply stepStore_apiCall w orc _ true
        cases hop with
        | set k v => exact follows_hset w.cfg (orcSt w orc) h k v
        | del k => exact follows_hdel w.cfg (orcSt w orc) h k
        | get k => exact Follows.refl _
        | getdel k => exact follows_hgetdel w.cfg (orcSt w orc) h k
        | login uid excl => exact follows_hlogin w.cfg le (orcSt w orc) h uid excl
        | logout => exact follows_hlogout w.cfg (orcSt w orc) h
        | regen => exact follows_regenerate w.cfg (orcSt w orc) h
        | destroy => exact follows_destroy (orcSt w orc) h w.hasCookie
        | expired => exact Follows.refl _
        | lastaccess => exact Follows.refl _
        | user => exact Follows.refl _

/-- **C11 at `World.step` level.** Whatever the fault oracle of the operation: when no crash point struck inside
the call, the store after the operation is the store before it with the printed events of the call (`evs`) and then
those of the clean-up goroutines that ran during the quiescence tick (`bg`) applied — failed calls being no-ops. -/
theorem step_store_follows_events (le : ID → ID → Bool) (w : World) (orc : Orc) (op : Op)
    (hf : (w.step le orc op).2.frozen = none ∨ (w.step le orc op).2.frozen = some none) :
    (w.step le orc op).1.st.store = applyEvs ((w.step le orc op).2.evs ++ (w.step le orc op).2.bg) w.st.store :=
  (step_stepStore le w orc op).1 hf

/-- when `crashinside k` struck: the store is what the first `k` successful mutations of the call left -/
theorem step_store_frozen (le : ID → ID → Bool) (w : World) (orc : Orc) (op : Op) (k : Nat)
    (hf : (w.step le orc op).2.frozen = some (some k)) :
    (w.step le orc op).1.st.store =
      applyEvs (((w.step le orc op).2.evs.filter isMut).take k ++ (w.step le orc op).2.bg) w.st.store :=
  (step_stepStore le w orc op).2 k hf

/-! ### histories -/

/-- everything a history's transcript says about the store: per operation the events of the call, then the clean-up
goroutines of its quiescence tick -/
def histEvs (le : ID → ID → Bool) (w : World) : List (Orc × Op) → List Ev
  | [] => []
  | (o, op) :: r => ((w.step le o op).2.evs ++ (w.step le o op).2.bg) ++ histEvs le (w.step le o op).1 r

/-- no crash point struck inside a call -/
def NoFreeze (le : ID → ID → Bool) (w : World) : List (Orc × Op) → Prop
  | [] => True
  | (o, op) :: r =>
    ((w.step le o op).2.frozen = none ∨ (w.step le o op).2.frozen = some none) ∧ NoFreeze le (w.step le o op).1 r

/-- **C11 for histories**: with arbitrary fault oracles at every operation (and arbitrary crashes between operations),
the store at the end is the store at the beginning with the transcript's events applied. -/
theorem hist_store_follows_events (le : ID → ID → Bool) (hist : List (Orc × Op)) (w : World) (h : NoFreeze le w hist) :
    (runHist le w hist).st.store = applyEvs (histEvs le w hist) w.st.store := by
  induction hist generalizing w with
  | nil => rfl
  | cons p r ih =>
    obtain ⟨o, op⟩ := p
    obtain ⟨h1, h2⟩ := h
    show (runHist le (w.step le o op).1 r).st.store = _
    rw [ih _ h2, step_store_follows_events le w o op h1]
    show _ = applyEvs (((w.step le o op).2.evs ++ (w.step le o op).2.bg) ++ histEvs le (w.step le o op).1 r) w.st.store
    simp only [applyEvs_append]

/-- the executable form of `NoFreeze` -/
def noFreezeB (le : ID → ID → Bool) (w : World) : List (Orc × Op) → Bool
  | [] => true
  | (o, op) :: r =>
    (decide ((w.step le o op).2.frozen = none) || decide ((w.step le o op).2.frozen = some none)) &&
      noFreezeB le (w.step le o op).1 r

theorem noFreeze_of_b (le : ID → ID → Bool) (hist : List (Orc × Op)) (w : World) (h : noFreezeB le w hist = true) :
    NoFreeze le w hist := by
  induction hist generalizing w with
  | nil => trivial
  | cons p r ih =>
    obtain ⟨o, op⟩ := p
    simp only [noFreezeB, Bool.and_eq_true, Bool.or_eq_true, decide_eq_true_eq] at h
    exact ⟨h.1, ih _ h.2⟩

/-! ## 8. non-vacuity: concrete operations with failing persistence calls

`decide +kernel`: the kernel evaluates the model (plain `decide` cannot unfold `List.mergeSort`, which `fireDue` and
`userSessions` use and which is defined by well-founded recursion); no axiom beyond the three standard ones. -/

/-- client `a` has created a session (`gen 0`) and is inside its request -/
def s11W1 : World := runHist idLe {} [({}, .req "a" .none "" "" true)]
/-- … the request is over (the browser holds the cookie) and the cache was dropped -/
def s11W2 : World := runHist idLe s11W1 [({}, .endReq), ({}, .dropcache)]

example : s11W1.st.store.map (·.1) = [.gen 0] ∧ s11W1.cur = some 0 := by decide +kernel
example : s11W2.st.store = s11W1.st.store ∧ s11W2.st.cache = [] ∧ s11W2.jars = [("a", .gen 0)] := by decide +kernel

/-- a failing save: `Set("k", 1)` whose write-through fails. The transcript shows `saveFail`, the store is unchanged. -/
example :
    (s11W1.step idLe { fails := [true] } (.h (.set "k" (.int 1)))).2.evs = [.saveFail (.gen 0)] ∧
    (s11W1.step idLe { fails := [true] } (.h (.set "k" (.int 1)))).2.ret = some (.str "err") ∧
    (s11W1.step idLe { fails := [true] } (.h (.set "k" (.int 1)))).2.faulted = 1 ∧
    (s11W1.step idLe { fails := [true] } (.h (.set "k" (.int 1)))).1.st.store = s11W1.st.store := by decide +kernel

/-- the same operation without the fault does change the store -/
example :
    (s11W1.step idLe {} (.h (.set "k" (.int 1)))).2.evs.map isMut = [true] ∧
    (s11W1.step idLe {} (.h (.set "k" (.int 1)))).1.st.store ≠ s11W1.st.store := by decide +kernel

/-- a failing delete: `Destroy` whose `DeleteSession` fails -/
example :
    (s11W1.step idLe { fails := [true] } (.h .destroy)).2.evs = [.delFail (.gen 0)] ∧
    (s11W1.step idLe { fails := [true] } (.h .destroy)).2.ret = some (.str "err") ∧
    (s11W1.step idLe { fails := [true] } (.h .destroy)).1.st.store = s11W1.st.store := by decide +kernel

example :
    (s11W1.step idLe {} (.h .destroy)).2.evs = [.del (.gen 0)] ∧ (s11W1.step idLe {} (.h .destroy)).1.st.store = [] := by decide +kernel

/-- a failing load: the browser presents the stored id after the cache was dropped, `LoadSession` fails -/
example :
    (s11W2.step idLe { fails := [true] } (.req "a" .jar "" "" false)).2.input = some (some (.gen 0)) ∧
    (s11W2.step idLe { fails := [true] } (.req "a" .jar "" "" false)).2.evs = [.loadFail (.gen 0)] ∧
    (s11W2.step idLe { fails := [true] } (.req "a" .jar "" "" false)).2.msg = some "get" ∧
    (s11W2.step idLe { fails := [true] } (.req "a" .jar "" "" false)).1.st.store = s11W2.st.store := by decide +kernel

example : (s11W2.step idLe {} (.req "a" .jar "" "" false)).2.evs = [.load (.gen 0) true] := by decide +kernel

/-- a call that half succeeds: `LogIn` saves the session, then the first save of `RegenerateID` fails. The store
holds exactly what the successful event says. -/
example :
    (s11W1.step idLe { fails := [false, true] } (.h (.login "u" false))).2.evs.map isFailEv = [false, true] ∧
    (s11W1.step idLe { fails := [false, true] } (.h (.login "u" false))).2.evs.map isMut = [true, false] ∧
    (s11W1.step idLe { fails := [false, true] } (.h (.login "u" false))).1.st.store =
      applyEvs ((s11W1.step idLe { fails := [false, true] } (.h (.login "u" false))).2.evs.filter (fun e => !isFailEv e))
        s11W1.st.store ∧
    (s11W1.step idLe { fails := [false, true] } (.h (.login "u" false))).1.st.store.map (·.1) = [.gen 0] := by decide +kernel

/-- the theorem instantiated on these operations (its hypothesis holds: no crash point was armed) -/
example :
    (s11W1.step idLe { fails := [false, true] } (.h (.login "u" false))).1.st.store =
      applyEvs ((s11W1.step idLe { fails := [false, true] } (.h (.login "u" false))).2.evs ++
                (s11W1.step idLe { fails := [false, true] } (.h (.login "u" false))).2.bg) s11W1.st.store :=
  step_store_follows_events idLe s11W1 { fails := [false, true] } (.h (.login "u" false)) (by decide +kernel)

/-- a crash point striking inside a call: `crashinside 1` armed, then `LogIn` (three saves, no fault). The store is
what the first save left. -/
def s11W3 : World := (s11W1.step idLe {} (.crashinside 1)).1

example :
    (s11W3.step idLe {} (.h (.login "u" false))).2.frozen = some (some 1) ∧
    (s11W3.step idLe {} (.h (.login "u" false))).2.evs.map isMut = [true, true, true] ∧
    (s11W3.step idLe {} (.h (.login "u" false))).1.st.store.map (·.1) = [.gen 0] ∧
    (s11W3.step idLe {} (.h (.login "u" false))).1.st.store =
      applyEvs ((s11W3.step idLe {} (.h (.login "u" false))).2.evs.take 1) s11W3.st.store := by decide +kernel

example :
    (s11W3.step idLe {} (.h (.login "u" false))).1.st.store =
      applyEvs (((s11W3.step idLe {} (.h (.login "u" false))).2.evs.filter isMut).take 1 ++
                (s11W3.step idLe {} (.h (.login "u" false))).2.bg) s11W3.st.store :=
  step_store_frozen idLe s11W3 {} (.h (.login "u" false)) 1 (by decide +kernel)

/-- a whole history with faults: the failing `Set`, a failing `Destroy`, the end of the request, a cache drop, a
failing load, a successful request, a wait -/
def s11Script : List (Orc × Op) :=
  [({}, .req "a" .none "" "" true), ({ fails := [true] }, .h (.set "k" (.int 1))), ({}, .h (.set "j" (.int 2))),
   ({ fails := [true] }, .h .destroy), ({}, .endReq), ({}, .dropcache),
   ({ fails := [true] }, .req "a" .jar "" "" false), ({}, .endReq),
   ({}, .req "a" .jar "" "" false), ({ fails := [false, true] }, .h .regen), ({}, .h .regen), ({}, .endReq),
   ({}, .wait 400000000000)]

example : (histEvs idLe {} s11Script).filter isFailEv = [.saveFail (.gen 0), .delFail (.gen 0), .loadFail (.gen 0), .saveFail (.gen 0)] := by
  decide +kernel

example : (runHist idLe {} s11Script).st.store = applyEvs (histEvs idLe {} s11Script) [] :=
  hist_store_follows_events idLe s11Script {} (noFreeze_of_b idLe s11Script {} (by decide +kernel))

/-- the transcript also contains a clean-up goroutine deleting the reference record `gen 1` left by the second rotation -/
example : (histEvs idLe {} s11Script).filter (fun e => match e with | .bg _ _ => true | _ => false) =
    [.bg 300000000007 (.gen 1)] := by decide +kernel

example : (runHist idLe {} s11Script).st.store.map (·.1) = [.gen 2, .gen 0] := by decide +kernel

/-
#print axioms store_follows_events
#print axioms step_store_follows_events
#print axioms step_store_frozen
#print axioms c11_failed_call_changes_nothing
#print axioms hist_store_follows_events

'Sx.Glob.store_follows_events' depends on axioms: [propext, Classical.choice, Quot.sound]
'Sx.Glob.step_store_follows_events' depends on axioms: [propext, Classical.choice, Quot.sound]
'Sx.Glob.step_store_frozen' depends on axioms: [propext, Classical.choice, Quot.sound]
'Sx.Glob.c11_failed_call_changes_nothing' depends on axioms: [propext]
'Sx.Glob.hist_store_follows_events' depends on axioms: [propext, Classical.choice, Quot.sound]
-/

end Sx.Glob
