import Sessions.Proofs.Global.Delta
/-!
# C07, operation level — what every model function does to the *reference view* of the store

For C07 ("destroyed or invalidated sessions never come back") only the `ref` field of the stored records
matters: `refAt st k : Option (Option ID)` is `none` when `k` holds no record, `some none` when it holds a full
session, `some (some t)` when it holds a reference to `t`.

* `QEv X st0 e`: the event `e` is *quiet* with respect to the store `st0`: not a delete, and a save only
  re-writes a record with the reference it already has — or it is one of the exceptional writes `X k ρ`
  ("a record with reference field `ρ` is written under `k`").
* `RQ X s s' evs`: the operation `s ⟶ s'` with events `evs` is quiet up to `X`: every event is `QEv`, and every
  key keeps its reference view or received one of the exceptional writes.
* `rq_*`: `RQ` for every model function but `Destroy`/`cache.Delete` (fault-free where coherence is needed).
-/
namespace Sx.Glob
open Sx.More
open Sx.More.C10 (refAt refAt_insert_self refAt_insert_ne refAt_of_lookup refAt_none Replay replay_saveRec replay_cacheSet replay_cacheGet get_coh)

/-! ### quiet events, quiet operations -/

/-- no exceptional write at all -/
def NoXR : ID → Option ID → Prop := fun _ _ => False

/-- the event is quiet w.r.t. the store `st0`, up to the exceptional writes `X`. -/
def QEv (X : ID → Option ID → Prop) (st0 : List (ID × Rec)) : Ev → Prop
  | .save k r => X k r.ref ∨ refAt st0 k = some r.ref
  | .del _ => False
  | _ => True

/-- the operation is quiet up to the exceptional writes `X`. -/
structure RQ (X : ID → Option ID → Prop) (s s' : State) (evs : List Ev) : Prop where
  store : ∀ k, refAt s'.store k = refAt s.store k ∨ ∃ ρ, X k ρ ∧ refAt s'.store k = some ρ
  evs : ∀ e ∈ evs, QEv X s.store e

theorem QEv.mono {X Y : ID → Option ID → Prop} {st0 : List (ID × Rec)} {e : Ev} (hxy : ∀ k ρ, X k ρ → Y k ρ)
    (h : QEv X st0 e) : QEv Y st0 e := by
  cases e <;> first | exact h | skip
  · exact h.imp (hxy _ _) id

theorem fold_refAt {X : ID → Option ID → Prop} {st0 : List (ID × Rec)} (evs : List Ev) (st : List (ID × Rec))
    (hev : ∀ e ∈ evs, QEv X st0 e)
    (hst : ∀ k, refAt st k = refAt st0 k ∨ ∃ ρ, X k ρ ∧ refAt st k = some ρ) :
    ∀ k, refAt (evs.foldl applyMut st) k = refAt st0 k ∨ ∃ ρ, X k ρ ∧ refAt (evs.foldl applyMut st) k = some ρ := by
  induction evs generalizing st with
  | nil => exact hst
  | cons e rest ih =>
    simp only [List.foldl_cons]
    apply ih _ (fun e' he' => hev e' (List.mem_cons_of_mem _ he'))
    have he := hev e List.mem_cons_self
    cases e <;> first | exact hst | skip
    · rename_i k' r
      intro k
      show refAt (insert k' r st) k = _ ∨ ∃ ρ, X k ρ ∧ refAt (insert k' r st) k = some ρ
      by_cases hk : k' = k
      · subst hk
        rw [refAt_insert_self]
        rcases he with hx | hq
        · exact Or.inr ⟨_, hx, rfl⟩
        · exact Or.inl hq.symm
      · rw [refAt_insert_ne r st (fun h => hk h.symm)]; exact hst k
    · exact absurd he (by simp [QEv])

theorem RQ.of_replay {X : ID → Option ID → Prop} {s s' : State} {evs : List Ev} (hr : Replay s s' evs)
    (hev : ∀ e ∈ evs, QEv X s.store e) : RQ X s s' evs := by
  refine ⟨?_, hev⟩
  have hr' : s'.store = evs.foldl applyMut s.store := hr
  rw [hr']
  exact fold_refAt evs s.store hev (fun k => Or.inl rfl)

theorem RQ.refl (X : ID → Option ID → Prop) (s : State) : RQ X s s [] :=
  ⟨fun _ => Or.inl rfl, by intro e he; simp at he⟩

/-- a step that leaves the store alone and emits no store mutation -/
theorem RQ.of_store_eq {X : ID → Option ID → Prop} {s s' : State} {evs : List Ev} (h : s'.store = s.store)
    (hev : ∀ e ∈ evs, isMut e = false) : RQ X s s' evs := by
  refine ⟨fun k => Or.inl (by rw [h]), ?_⟩
  intro e he
  have := hev e he
  cases e <;> first | trivial | simp [isMut] at this

theorem RQ.mono {X Y : ID → Option ID → Prop} {s s' : State} {evs : List Ev} (hxy : ∀ k ρ, X k ρ → Y k ρ)
    (h : RQ X s s' evs) : RQ Y s s' evs :=
  ⟨fun k => (h.store k).imp id (fun ⟨ρ, hx, hr⟩ => ⟨ρ, hxy _ _ hx, hr⟩), fun e he => (h.evs e he).mono hxy⟩

theorem RQ.trans {X : ID → Option ID → Prop} {a b c : State} {e1 e2 : List Ev} (h1 : RQ X a b e1) (h2 : RQ X b c e2) :
    RQ X a c (e1 ++ e2) := by
  refine ⟨?_, ?_⟩
  · intro k
    rcases h2.store k with h | h
    · rw [h]; exact h1.store k
    · exact Or.inr h
  · intro e he
    rcases List.mem_append.1 he with he | he
    · exact h1.evs e he
    · have hq := h2.evs e he
      cases e with
      | save k r =>
        rcases hq with hx | hq
        · exact Or.inl hx
        · rcases h1.store k with h | ⟨ρ, hx, hr⟩
          · exact Or.inr (by rw [← h]; exact hq)
          · rw [hr] at hq
            simp only [Option.some.injEq] at hq
            subst hq
            exact Or.inl hx
      | _ => exact hq

/-- the same operation seen from a state with the same store -/
theorem RQ.congr_left {X : ID → Option ID → Prop} {s s0 s' : State} {evs : List Ev} (h : RQ X s s' evs) (hs : s0.store = s.store) :
    RQ X s0 s' evs := ⟨by rw [hs]; exact h.store, by rw [hs]; exact h.evs⟩

theorem RQ.congr_right {X : ID → Option ID → Prop} {s s' s1 : State} {evs : List Ev} (h : RQ X s s' evs) (hs : s1.store = s'.store) :
    RQ X s s1 evs := ⟨by rw [hs]; exact h.store, h.evs⟩

/-- events prepended / appended that are no store mutations -/
theorem RQ.evs_pre {X : ID → Option ID → Prop} {s s' : State} {evs : List Ev} (pre : List Ev) (h : RQ X s s' evs)
    (hp : ∀ e ∈ pre, isMut e = false) : RQ X s s' (pre ++ evs) :=
  (RQ.of_store_eq (s := s) (s' := s) rfl hp).trans h

theorem RQ.evs_post {X : ID → Option ID → Prop} {s s' : State} {evs : List Ev} (post : List Ev) (h : RQ X s s' evs)
    (hp : ∀ e ∈ post, isMut e = false) : RQ X s s' (evs ++ post) :=
  h.trans (RQ.of_store_eq (s := s') (s' := s') rfl hp)

/-- a quiet operation without exceptions keeps the reference view. -/
theorem RQ.same {s s' : State} {evs : List Ev} (h : RQ NoXR s s' evs) (k : ID) : refAt s'.store k = refAt s.store k := by
  rcases h.store k with h | ⟨_, hx, _⟩
  · exact h
  · exact absurd hx id

/-! ### coherence at the level of references -/

/-- `Inv` makes every cache entry agree with its record on the reference. -/
theorem inv_rcoh {c : Codec} {s : State} (hi : Inv c s) {k : ID} {x : Nat} (hm : (k, x) ∈ s.cache) :
    refAt s.store k = some (s.obj x).ref := by
  obtain ⟨r, hl, hess⟩ := hi.coh k x hm (by simp)
  rw [refAt_of_lookup hl, ← ess_ref hess, enc_ref]

theorem qev_flush {X : ID → Option ID → Prop} {cfg : Cfg} {c : List (ID × Nat)} {obj : Nat → Sess} {st0 : List (ID × Rec)} {e : Ev}
    (he : Loc.IsFlush cfg c obj e) (hc : ∀ k x, (k, x) ∈ c → X k (obj x).ref ∨ refAt st0 k = some (obj x).ref) :
    QEv X st0 e := by
  obtain ⟨k, x, hm, rfl | rfl⟩ := he
  · show X k (enc cfg.codec (obj x)).ref ∨ refAt st0 k = some (enc cfg.codec (obj x)).ref
    rw [enc_ref]; exact hc k x hm
  · trivial

/-! ### the primitives -/

theorem rq_saveRec (X : ID → Option ID → Prop) (cfg : Cfg) (s : State) (id : ID) (o : Sess)
    (h : X id o.ref ∨ refAt s.store id = some o.ref) : RQ X s (saveRec cfg s id o).1 (saveRec cfg s id o).2.2 := by
  apply RQ.of_replay (replay_saveRec cfg s id o)
  intro e he
  rw [Loc.saveRec_evs] at he
  simp only [List.mem_singleton] at he
  split at he
  · subst he
    show X id (enc cfg.codec o).ref ∨ refAt s.store id = some (enc cfg.codec o).ref
    rw [enc_ref]; exact h
  · subst he; trivial

/-- **`cache.Set`** (every oracle): quiet when the cache agrees with the store on references and the object set does
so under its own id (or its write is one of the exceptions). -/
theorem rq_cacheSet (X : ID → Option ID → Prop) (cfg : Cfg) (s : State) (h : Nat)
    (hc : ∀ k x, (k, x) ∈ s.cache → X k (s.obj x).ref ∨ refAt s.store k = some (s.obj x).ref)
    (hself : X (s.obj h).id (s.obj h).ref ∨ refAt s.store (s.obj h).id = some (s.obj h).ref) :
    RQ X s (cacheSet cfg s h).1 (cacheSet cfg s h).2.2 := by
  apply RQ.of_replay (replay_cacheSet cfg s h)
  intro e he
  rw [Loc.cacheSet_evs] at he
  rcases List.mem_append.1 he with he | he
  · refine qev_flush ((Loc.setC_flushed cfg s h).evs_flush e he) ?_
    intro k x hm
    rw [(i3_setObjNow_same s h x).2.1]
    exact hc k x hm
  · simp only [List.mem_singleton] at he
    split at he
    · subst he
      show X _ (enc cfg.codec _).ref ∨ refAt s.store _ = some (enc cfg.codec _).ref
      rw [enc_ref, Loc.cacheSet_obj, (i3_setObjNow_same s h h).2.1]
      exact hself
    · subst he; trivial

/-- **`cache.Get`** (every oracle, from a coherent state): quiet. -/
theorem rq_cacheGet {cfg : Cfg} {s : State} (hi : Inv cfg.codec s) (id : ID) :
    RQ NoXR s (cacheGet cfg s id).1 (cacheGet cfg s id).2.2 := by
  apply RQ.of_replay (replay_cacheGet cfg s id)
  intro e he
  have G := Loc.cacheGet_spec cfg s id
  rcases G.evs_shape e he with hf | h
  · refine qev_flush hf ?_
    intro k x hm
    rw [G.obj_old x (hi.valid k x hm)]
    exact Or.inr (inv_rcoh hi hm)
  · rcases h with rfl | rfl | rfl | rfl | ⟨u, rfl⟩ | ⟨u, rfl⟩ <;> trivial

/-- the object `cache.Get` returns agrees with the record under the requested id on the reference. -/
theorem cacheGet_self {cfg : Cfg} {s s1 : State} {id : ID} {h : Nat} {e1 : List Ev} (hi : Inv cfg.codec s)
    (hg : cacheGet cfg s id = (s1, .some h, e1)) : refAt s1.store id = some (s1.obj h).ref := by
  have := get_coh (cfg := cfg) (s := s) (id := id) (h1 := h) hi (by rw [hg])
  rw [hg] at this
  obtain ⟨r, hl, hess⟩ := this
  rw [refAt_of_lookup hl, ← ess_ref hess, enc_ref]

/-! ### handlers with a direct `SaveSession` -/

/-- overwrite the object (same id, same reference) and write it through: quiet when the record under the id has
the object's reference. -/
theorem rq_setObj_save (cfg : Cfg) (s : State) (h : Nat) (o' : Sess) (hv : h < s.heap.length)
    (hid : o'.id = (s.obj h).id) (href : o'.ref = (s.obj h).ref)
    (hcur : refAt s.store (s.obj h).id = some (s.obj h).ref) :
    RQ NoXR s (saveObj cfg (s.setObj h o') h).1 (saveObj cfg (s.setObj h o') h).2.2 := by
  rw [Loc.saveObj_eq, Loc.obj_setObj_self hv]
  refine (rq_saveRec NoXR cfg (s.setObj h o') o'.id o' (Or.inr ?_)).congr_left rfl
  show refAt s.store o'.id = some o'.ref
  rw [hid, href]; exact hcur

theorem rq_hset (cfg : Cfg) (s : State) (h : Nat) (k : String) (v : Val) (hv : h < s.heap.length)
    (hcur : refAt s.store (s.obj h).id = some (s.obj h).ref) : RQ NoXR s (hset cfg s h k v).1 (hset cfg s h k v).2.2 := by
  cases hd : (s.obj h).data with
  | none => rw [Loc.hset_none k v hd]; exact RQ.refl _ _
  | some d => rw [Loc.hset_some k v hd]; exact rq_setObj_save cfg s h _ hv rfl rfl hcur

theorem rq_hdel (cfg : Cfg) (s : State) (h : Nat) (k : String) (hv : h < s.heap.length)
    (hcur : refAt s.store (s.obj h).id = some (s.obj h).ref) : RQ NoXR s (hdel cfg s h k).1 (hdel cfg s h k).2.2 := by
  rw [Loc.hdel_eq]; exact rq_setObj_save cfg s h _ hv rfl rfl hcur

theorem rq_hgetdel (cfg : Cfg) (s : State) (h : Nat) (k : String) (hv : h < s.heap.length)
    (hcur : refAt s.store (s.obj h).id = some (s.obj h).ref) : RQ NoXR s (hgetdel cfg s h k).1 (hgetdel cfg s h k).2.2 := by
  have hS := rq_setObj_save cfg s h { s.obj h with data := (s.obj h).data.map (erase k) } hv rfl rfl hcur
  unfold hgetdel
  split
  · exact RQ.refl _ _
  · simp only []
    generalize saveObj cfg (s.setObj h { s.obj h with data := (s.obj h).data.map (erase k) }) h = g at hS
    obtain ⟨s2, ok, e⟩ := g
    exact hS

theorem rq_hlogout (cfg : Cfg) (s : State) (h : Nat) (hv : h < s.heap.length)
    (hcur : refAt s.store (s.obj h).id = some (s.obj h).ref) : RQ NoXR s (hlogout cfg s h).1 (hlogout cfg s h).2.2 := by
  cases hu : (s.obj h).user with
  | none => rw [Loc.hlogout_none hu]; exact RQ.refl _ _
  | some u => rw [Loc.hlogout_some hu]; exact rq_setObj_save cfg s h _ hv rfl rfl hcur

/-! ### the user loops -/

/-- overwrite the user of an object and `cache.Set` it: quiet from a coherent state when the record under the
object's id has the object's reference. -/
theorem rq_setObj_cacheSet {cfg : Cfg} {s : State} (hi : Inv cfg.codec s) (h : Nat) (o' : Sess)
    (hid : o'.id = (s.obj h).id) (href : o'.ref = (s.obj h).ref)
    (hcur : refAt s.store (s.obj h).id = some (s.obj h).ref) :
    RQ NoXR s (cacheSet cfg (s.setObj h o') h).1 (cacheSet cfg (s.setObj h o') h).2.2 := by
  refine (rq_cacheSet NoXR cfg (s.setObj h o') h ?_ ?_).congr_left rfl
  · intro k x hm
    rw [(setObj_obj_same s h x o' hid href).2]
    exact Or.inr (inv_rcoh hi hm)
  · rw [(setObj_obj_same s h h o' hid href).1, (setObj_obj_same s h h o' hid href).2]
    exact Or.inr hcur

theorem rq_setUserAll (cfg : Cfg) (u : Option (String × Nat)) (ids : List ID) (s : State) (hnf : NoFail s)
    (hi : Inv cfg.codec s) : RQ NoXR s (setUserAll cfg u ids s).1 (setUserAll cfg u ids s).2.2 := by
  induction ids generalizing s with
  | nil => exact RQ.refl _ _
  | cons id rest ih =>
    have hG := rq_cacheGet hi id
    have hP := Sx.cacheGet_spec cfg s id hnf hi
    generalize hg : cacheGet cfg s id = g at hG hP
    obtain ⟨s1, res, e1⟩ := g
    simp only at hG hP
    cases res with
    | err => rw [Loc.setUserAll_cons_err hg]; exact hG
    | nil => rw [Loc.setUserAll_cons_nil hg]; exact hG.trans (ih s1 hP.step.nofail hP.inv)
    | some h =>
      rw [Loc.setUserAll_cons_some hg]
      have hk : HOK s1 h ∧ (s1.obj h).id = id := by
        rcases hP.res with h0 | ⟨h', h0, hk, hid⟩
        · cases h0
        · simp only [GetRes.some.injEq] at h0; subst h0; exact ⟨hk, hid⟩
      have hself : refAt s1.store (s1.obj h).id = some (s1.obj h).ref := by rw [hk.2]; exact cacheGet_self hi hg
      have hS : RQ NoXR s1 (Loc.userSet cfg u s1 h).1 (Loc.userSet cfg u s1 h).2.2 :=
        rq_setObj_cacheSet hP.inv h { s1.obj h with user := u } rfl rfl hself
      have hSP := setObj_cacheSet_spec cfg s1 h { s1.obj h with user := u } hP.step.nofail hP.inv hk.1.toHL rfl rfl
      split
      · exact hG.trans hS
      · have := ih (Loc.userSet cfg u s1 h).1 hSP.step.nofail hSP.inv
        exact (hG.trans hS).trans this

theorem rq_forUser (cfg : Cfg) (le : ID → ID → Bool) (s : State) (uid : String) (u : Option (String × Nat)) (hnf : NoFail s)
    (hi : Inv cfg.codec s) : RQ NoXR s (forUser cfg le s uid u).1 (forUser cfg le s uid u).2.2 := by
  rw [Loc.forUser_eq]
  split
  · exact RQ.of_store_eq rfl (by intro e he; simp at he; subst he; rfl)
  · have hnf' : NoFail s.pop := hnf.popF
    have hi' : Inv cfg.codec s.pop := hi.congr rfl rfl rfl rfl rfl
    have := (rq_setUserAll cfg u (userSessions le s.pop uid) s.pop hnf' hi').congr_left (s0 := s) rfl
    exact this.evs_pre [.users uid] (by intro e he; simp at he; subst he; rfl)

theorem rq_logoutUser (cfg : Cfg) (le : ID → ID → Bool) (s : State) (uid : String) (hnf : NoFail s) (hi : Inv cfg.codec s) :
    RQ NoXR s (logoutUser cfg le s uid).1 (logoutUser cfg le s uid).2.2 := rq_forUser cfg le s uid none hnf hi

theorem rq_refreshUser (cfg : Cfg) (le : ID → ID → Bool) (s : State) (uid : String) (hnf : NoFail s) (hi : Inv cfg.codec s) :
    RQ NoXR s (refreshUser cfg le s uid).1 (refreshUser cfg le s uid).2.2 := by
  unfold refreshUser
  exact (rq_forUser cfg le ({ s with vers := insert uid (s.ver uid + 1) s.vers } : State) uid _ hnf
    (hi.congr rfl rfl rfl rfl rfl)).congr_left rfl

theorem rq_loginFirst (cfg : Cfg) (le : ID → ID → Bool) (s : State) (h : Nat) (uid : String) (excl : Bool) (hnf : NoFail s)
    (hi : Inv cfg.codec s) (hv : h < s.heap.length) (hcur : refAt s.store (s.obj h).id = some (s.obj h).ref) :
    RQ NoXR s (loginFirst cfg le s h uid excl).1 (loginFirst cfg le s h uid excl).2.2 := by
  unfold loginFirst
  cases excl with
  | true => exact rq_logoutUser cfg le s uid hnf hi
  | false =>
    have hL := rq_hlogout cfg s h hv hcur
    simp only [Bool.false_eq_true, if_false]
    generalize hlogout cfg s h = g at hL
    obtain ⟨s1, r1, e1⟩ := g
    exact hL

/-- `PurgeSessions` -/
theorem rq_purge {cfg : Cfg} {s : State} (hi : Inv cfg.codec s) : RQ NoXR s (purge cfg s).1 (purge cfg s).2 := by
  have := (purge_delta cfg s hi).1
  refine ⟨fun k => Or.inl ?_, ?_⟩
  · have h := this.ess k (fun hx => hx)
    unfold refAt
    cases ha : lookup k s.store with
    | none => rw [ha] at h; cases hb : lookup k (purge cfg s).1.store with
      | none => rfl
      | some r' => rw [hb] at h; simp at h
    | some r => rw [ha] at h; cases hb : lookup k (purge cfg s).1.store with
      | none => rw [hb] at h; simp at h
      | some r' =>
        rw [hb] at h
        simp only [Option.map_some, Option.some.injEq] at h ⊢
        exact Glob.ess_ref h
  · intro e he
    cases e with
    | save k r =>
      obtain ⟨r0, hl, hess⟩ := this.saves k r he (fun hx => hx)
      exact Or.inr (by rw [refAt_of_lookup hl, Glob.ess_ref hess])
    | del k => exact this.dels k he
    | _ => trivial

/-! ### the pending timers are only touched by `RegenerateID` and by time (every oracle) -/

theorem saveObj_timers (cfg : Cfg) (s : State) (h : Nat) : (saveObj cfg s h).1.timers = s.timers :=
  (Loc.saveRec_fr cfg s _ _).timers

theorem hset_timers (cfg : Cfg) (s : State) (h : Nat) (k : String) (v : Val) : (hset cfg s h k v).1.timers = s.timers := by
  cases hd : (s.obj h).data with
  | none => rw [Loc.hset_none k v hd]
  | some d => rw [Loc.hset_some k v hd]; exact saveObj_timers cfg _ h

theorem hdel_timers (cfg : Cfg) (s : State) (h : Nat) (k : String) : (hdel cfg s h k).1.timers = s.timers := by
  rw [Loc.hdel_eq]; exact saveObj_timers cfg _ h

theorem hgetdel_timers (cfg : Cfg) (s : State) (h : Nat) (k : String) : (hgetdel cfg s h k).1.timers = s.timers := by
  have hS := saveObj_timers cfg (s.setObj h { s.obj h with data := (s.obj h).data.map (erase k) }) h
  unfold hgetdel
  split
  · rfl
  · simp only []
    generalize saveObj cfg (s.setObj h { s.obj h with data := (s.obj h).data.map (erase k) }) h = g at hS
    obtain ⟨s2, ok, e⟩ := g
    exact hS

theorem hlogout_timers (cfg : Cfg) (s : State) (h : Nat) : (hlogout cfg s h).1.timers = s.timers := by
  cases hu : (s.obj h).user with
  | none => rw [Loc.hlogout_none hu]
  | some u => rw [Loc.hlogout_some hu]; exact saveObj_timers cfg _ h

theorem setUserAll_timers (cfg : Cfg) (u : Option (String × Nat)) (ids : List ID) (s : State) :
    (setUserAll cfg u ids s).1.timers = s.timers := by
  induction ids generalizing s with
  | nil => rfl
  | cons id rest ih =>
    have hG := (Loc.cacheGet_spec cfg s id).timers
    generalize hg : cacheGet cfg s id = g at hG
    obtain ⟨s1, res, e1⟩ := g
    simp only at hG
    cases res with
    | err => rw [Loc.setUserAll_cons_err hg]; exact hG
    | nil => rw [Loc.setUserAll_cons_nil hg]; exact (ih s1).trans hG
    | some h =>
      rw [Loc.setUserAll_cons_some hg]
      have hS : (Loc.userSet cfg u s1 h).1.timers = s1.timers := Loc.cacheSet_timers cfg _ h
      split
      · exact hS.trans hG
      · exact ((ih _).trans hS).trans hG

theorem forUser_timers (cfg : Cfg) (le : ID → ID → Bool) (s : State) (uid : String) (u : Option (String × Nat)) :
    (forUser cfg le s uid u).1.timers = s.timers := by
  rw [Loc.forUser_eq]
  split
  · rfl
  · exact setUserAll_timers cfg u _ s.pop

theorem logoutUser_timers (cfg : Cfg) (le : ID → ID → Bool) (s : State) (uid : String) :
    (logoutUser cfg le s uid).1.timers = s.timers := forUser_timers cfg le s uid none

theorem refreshUser_timers (cfg : Cfg) (le : ID → ID → Bool) (s : State) (uid : String) :
    (refreshUser cfg le s uid).1.timers = s.timers := by
  unfold refreshUser
  exact forUser_timers cfg le ({ s with vers := insert uid (s.ver uid + 1) s.vers } : State) uid _

theorem loginFirst_timers (cfg : Cfg) (le : ID → ID → Bool) (s : State) (h : Nat) (uid : String) (excl : Bool) :
    (loginFirst cfg le s h uid excl).1.timers = s.timers := by
  unfold loginFirst
  cases excl with
  | true => exact logoutUser_timers cfg le s uid
  | false =>
    have hL := hlogout_timers cfg s h
    simp only [Bool.false_eq_true, if_false]
    generalize hlogout cfg s h = g at hL
    obtain ⟨s1, r1, e1⟩ := g
    exact hL

theorem purgeList_timers (cfg : Cfg) (l : List (ID × Nat)) (s : State) : (purgeList cfg s l).1.timers = s.timers := by
  induction l generalizing s with
  | nil => rfl
  | cons p rest ih =>
    obtain ⟨id, h⟩ := p
    have hS := (Loc.saveRec_fr cfg s id (s.obj h)).timers
    simp only [purgeList]
    generalize saveRec cfg s id (s.obj h) = g at hS
    obtain ⟨s1, ok, e1⟩ := g
    have := ih s1
    generalize purgeList cfg s1 rest = g2 at this
    obtain ⟨s2, e2⟩ := g2
    exact this.trans hS

theorem purge_timers (cfg : Cfg) (s : State) : (purge cfg s).1.timers = s.timers := by
  have := purgeList_timers cfg (orderBy s.picks s.cache) s
  unfold purge
  generalize purgeList cfg s (orderBy s.picks s.cache) = g at this
  obtain ⟨s1, e1⟩ := g
  exact this

/-! ### no deletes in `cache.Set` / `RegenerateID` (every oracle) -/

theorem cacheSet_no_del (cfg : Cfg) (s : State) (h : Nat) (k : ID) : Ev.del k ∉ (cacheSet cfg s h).2.2 := by
  intro he
  rw [Loc.cacheSet_evs] at he
  rcases List.mem_append.1 he with he | he
  · rcases (Loc.setC_flushed cfg s h).ev_cases he with ⟨_, _, e⟩ | ⟨_, e⟩ <;> cases e
  · simp only [List.mem_singleton] at he
    split at he <;> cases he

theorem regen_no_del (cfg : Cfg) (s : State) (h : Nat) (k : ID) : Ev.del k ∉ (regenerate cfg s h).2.2 := by
  have hA : Ev.del k ∉ (Loc.regenA cfg s h).2.2 := cacheSet_no_del cfg _ _ k
  have hB : Ev.del k ∉ (Loc.regenB cfg s h).2.2 := cacheSet_no_del cfg _ _ k
  rw [Loc.regenerate_eq]
  split
  · exact hA
  · split
    · intro he
      rcases List.mem_append.1 he with he | he
      · exact hA he
      · exact hB he
    · intro he
      rcases List.mem_append.1 he with he | he
      · rcases List.mem_append.1 he with he | he
        · exact hA he
        · exact hB he
      · simp at he

end Sx.Glob
