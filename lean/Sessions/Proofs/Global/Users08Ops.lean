import Sessions.Proofs.Inv.All
import Sessions.Proofs.Local.All
import Sessions.Proofs.More.Crash10
import Sessions.Proofs.Global.Delta
/-!
# C08 — helper material: what one `cache.Get`, one `cache.Set`, one round of the user loop and the whole
loop do to the ESSENTIALS of every stored record

`E k st = (lookup k st).map ess` is the essential content (user, created, ref, data) of the record under `k`.
From a state satisfying the coherence invariant `Inv`, flushes re-write what is stored already, so
`cache.Get` and the compaction runs inside `cache.Set` leave every `E k` alone; the write-through save of
`cache.Set` changes `E` under the object's id only.
-/
namespace Sx.Glob

/-! ### small facts -/

theorem noFail_head {s : State} (h : NoFail s) : s.fails.headD false = false := by
  cases hf : s.fails with
  | nil => rfl
  | cons b r => exact h b (by rw [hf]; exact List.mem_cons_self)

theorem noFail_pop {s : State} (h : NoFail s) : NoFail s.pop := fun b hb => h b (List.mem_of_mem_tail hb)

/-- events that neither delete, nor fail to delete, nor are cookies, nor come from a clean-up goroutine -/
def plainEv : Ev → Bool
  | .del _ => false
  | .delFail _ => false
  | .setCookie _ => false
  | .delCookie => false
  | .bg _ _ => false
  | _ => true

theorem plainEv_not_cookie {e : Ev} (h : plainEv e = true) : isCookie e = false := by
  cases e <;> simp_all [plainEv, isCookie]

theorem plainEv_not_del {e : Ev} (h : plainEv e = true) (k : ID) : e ≠ .del k := by
  intro he; subst he; simp [plainEv] at h

theorem filter_cookie_plain {l : List Ev} (h : ∀ e ∈ l, plainEv e = true) : l.filter isCookie = [] := by
  rw [List.filter_eq_nil_iff]
  intro e he
  rw [plainEv_not_cookie (h e he)]; simp

theorem isFlush_plain {cfg : Cfg} {c : List (ID × Nat)} {obj : Nat → Sess} {e : Ev} (h : Loc.IsFlush cfg c obj e) :
    plainEv e = true := by
  obtain ⟨k, x, _, rfl | rfl⟩ := h <;> rfl

/-! ### essentials -/

/-- the essential content of the record under `k` (`none`: no record) -/
def E (k : ID) (st : List (ID × Rec)) : Option (Option String × Int × Option ID × Option Data) :=
  (lookup k st).map ess

theorem E_of_lookup {k : ID} {st : List (ID × Rec)} {r : Rec} (h : lookup k st = some r) : E k st = some (ess r) := by
  simp [E, h]

theorem E_none {k : ID} {st : List (ID × Rec)} (h : lookup k st = none) : E k st = none := by
  simp [E, h]


theorem enc_user (c : Codec) (o : Sess) : (enc c o).user = o.user.map (·.1) := by cases c <;> rfl

/-- changing user and `lastAccess` of an object changes the user component of the essentials only -/
theorem ess_enc_setUser (c : Codec) (o : Sess) (u : Option (String × Nat)) (la : Int) :
    ess (enc c { o with user := u, lastAccess := la }) = (u.map (·.1), (ess (enc c o)).2) := by
  cases c <;> rfl

theorem ess_setObjNow (c : Codec) (s : State) (h x : Nat) :
    ess (enc c ((Loc.setObjNow s h).obj x)) = ess (enc c (s.obj x)) := by
  by_cases hx : h = x
  · subst hx
    rw [Loc.setObjNow_obj_self]
    split
    · exact ess_enc_congr c rfl rfl rfl rfl
    · rfl
  · rw [Loc.setObjNow_obj_ne hx]

/-- **`cache.Set` and the essentials** (every oracle): from a state that is coherent except possibly at the key
`x`, a `Set` of object `h` leaves the essentials under every key other than `x` and the object's id alone. -/
theorem cacheSet_E {cfg : Cfg} {x : Option ID} {s : State} (h : Nat) (hi : InvX cfg.codec x s) (k : ID)
    (hx : some k ≠ x) (hk : k ≠ (s.obj h).id) : E k (cacheSet cfg s h).1.store = E k s.store := by
  unfold E
  rcases Loc.cacheSet_store_lk cfg s h k (fun _ => hk) with h1 | ⟨y, hy, h1⟩
  · rw [h1]
  · obtain ⟨r, hl, he⟩ := hi.coh k y hy hx
    rw [h1, hl, Loc.cacheSet_obj]
    simp only [Option.map_some]
    rw [ess_setObjNow, he]

/-- **`cache.Get` and the essentials** (every oracle): from a coherent state nothing essential changes. -/
theorem cacheGet_E {cfg : Cfg} {s : State} (id : ID) (hi : Inv cfg.codec s) (k : ID) :
    E k (cacheGet cfg s id).1.store = E k s.store := by
  unfold E
  have G := Loc.cacheGet_spec cfg s id
  rcases G.store_lk k with h1 | ⟨y, hy, h1⟩
  · rw [h1]
  · obtain ⟨r, hl, he⟩ := hi.coh k y hy (by simp)
    rw [h1, hl, G.obj_old y (hi.valid k y hy)]
    simp only [Option.map_some]
    rw [he]

/-- a save event re-writes an existing record of `st`, changing at most user and `lastAccess` (and ip/ua) -/
def SaveKeeps (st : List (ID × Rec)) (e : Ev) : Prop :=
  ∀ k r, e = .save k r → ∃ r0, lookup k st = some r0 ∧ r.ref = r0.ref ∧ r.data = r0.data ∧ r.created = r0.created

theorem saveKeeps_of_E {st st' : List (ID × Rec)} (h : ∀ k, (E k st').map (·.2) = (E k st).map (·.2)) {e : Ev}
    (he : SaveKeeps st' e) : SaveKeeps st e := by
  intro k r hk
  obtain ⟨r1, hl1, h1, h2, h3⟩ := he k r hk
  have := h k
  rw [E_of_lookup hl1] at this
  cases hl : lookup k st with
  | none => rw [E_none hl] at this; simp at this
  | some r0 =>
    rw [E_of_lookup hl] at this
    simp only [Option.map_some, Option.some.injEq, ess, Prod.mk.injEq] at this
    exact ⟨r0, rfl, by rw [h1, this.2.1], by rw [h2, this.2.2], by rw [h3, this.1]⟩

/-- a flush of a coherent cache entry keeps -/
theorem saveKeeps_flush {c : Codec} {s : State} (hi : Inv c s) {k : ID} {x : Nat} (hm : (k, x) ∈ s.cache) {o : Sess}
    (ho : ess (enc c o) = ess (enc c (s.obj x))) : SaveKeeps s.store (.save k (enc c o)) := by
  intro k' r' he
  simp only [Ev.save.injEq] at he
  obtain ⟨rfl, rfl⟩ := he
  obtain ⟨r, hl, hess⟩ := hi.coh k x hm (by simp)
  have := ho.trans hess
  exact ⟨r, hl, ess_ref this, ess_data this, ess_created this⟩

theorem saveKeeps_plain_other {st : List (ID × Rec)} {e : Ev} (h : ∀ k r, e ≠ .save k r) : SaveKeeps st e :=
  fun k r he => absurd he (h k r)

/-- the events of `cache.Get` from a coherent state: plain, and every save re-writes -/
theorem cacheGet_evs {cfg : Cfg} {s : State} (id : ID) (hi : Inv cfg.codec s) :
    ∀ e ∈ (cacheGet cfg s id).2.2, plainEv e = true ∧ SaveKeeps s.store e := by
  intro e he
  have G := Loc.cacheGet_spec cfg s id
  rcases G.evs_shape e he with hf | h
  · refine ⟨isFlush_plain hf, ?_⟩
    obtain ⟨k, x, hm, rfl | rfl⟩ := hf
    · exact saveKeeps_flush hi hm (by rw [G.obj_old x (hi.valid k x hm)])
    · exact saveKeeps_plain_other (by intro _ _ h; cases h)
  · rcases h with rfl | rfl | rfl | rfl | ⟨u, rfl⟩ | ⟨u, rfl⟩ <;>
      exact ⟨rfl, saveKeeps_plain_other (by intro _ _ h; cases h)⟩

/-! ### one round of the user loop / the `Set` of `LogIn` -/

/-- the object a round of the loop (and the `Set` of `LogIn`) leaves under handle `h` -/
def setUObj (s1 : State) (h : Nat) (u : Option (String × Nat)) : Sess :=
  { s1.obj h with user := u, lastAccess := s1.now }

/-- what `sessions.Set` of object `h` with its user overwritten by `u` does, fault-free, from a coherent state.
Only `HL` is needed (the object need not be the cached one). -/
structure RoundPost (cfg : Cfg) (u : Option (String × Nat)) (s1 : State) (h : Nat) (r : State × Bool × List Ev) : Prop where
  ok : r.2.1 = true
  inv : Inv cfg.codec r.1
  nofail : NoFail r.1
  hok : HOK r.1 h
  now : r.1.now = s1.now
  nextId : r.1.nextId = s1.nextId
  timers : r.1.timers = s1.timers
  vers : r.1.vers = s1.vers
  extra : r.1.extra = s1.extra
  len : r.1.heap.length = s1.heap.length
  obj : ∀ x, r.1.obj x = if h = x then setUObj s1 h u else s1.obj x
  cache : ∀ e ∈ r.1.cache, e = ((s1.obj h).id, h) ∨ e ∈ s1.cache
  E_ne : ∀ k, k ≠ (s1.obj h).id → E k r.1.store = E k s1.store
  self : lookup (s1.obj h).id r.1.store = some (enc cfg.codec (setUObj s1 h u))
  evs : ∀ e ∈ r.2.2, plainEv e = true ∧ ∀ k r', e = .save k r' →
    (k = (s1.obj h).id ∧ r' = enc cfg.codec (setUObj s1 h u)) ∨
    ∃ x, (k, x) ∈ s1.cache ∧ x ≠ h ∧ r' = enc cfg.codec (s1.obj x)

/-- writing a well-formed record under the exception key keeps the invariant-with-exception -/
theorem invX_store_put {c : Codec} {s : State} {k : ID} {r : Rec} (hi : InvX c (some k) s) (hk : Minted s.nextId k)
    (hr : RefOK s.nextId r.ref) (hn : Norm c r) : InvX c (some k) { s with store := insert k r s.store } := by
  constructor
  · exact hi.cnodup
  · exact hi.valid
  · exact hi.wf
  · intro id' h' hm hx
    obtain ⟨r', hl, he⟩ := hi.coh id' h' hm hx
    have hne : id' ≠ k := fun e => hx (by rw [e])
    exact ⟨r', by show lookup id' (insert k r s.store) = some r'; rw [Sx.lookup_insert_ne _ _ hne]; exact hl, he⟩
  · exact hi.ckeys
  · exact hi.crefs
  · exact hi.sok.put hk hr hn
  · exact hi.tkeys

/-- overwriting object `h` (all of whose cache entries are under `k`) from a state that is coherent, or coherent
except at `k`, leaves a state coherent except at `k` (`inv_setObj_except` for both cases) -/
theorem invX_setObj_exc {c : Codec} {x : Option ID} {s : State} (h : Nat) (k : ID) (o' : Sess) (hi : InvX c x s)
    (hx : x = none ∨ x = some k) (hr : RefOK s.nextId o'.ref) (honly : ∀ id', (id', h) ∈ s.cache → id' = k) :
    InvX c (some k) (s.setObj h o') := by
  have hxk : ∀ id', some id' ≠ some k → some id' ≠ x := by
    intro id' hne
    rcases hx with rfl | rfl
    · simp
    · exact hne
  constructor
  · exact hi.cnodup
  · intro id' h' hm; rw [setObj_len]; exact hi.valid id' h' hm
  · intro id' h' hm hx'
    have hne : h' ≠ h := by
      intro hh; subst hh; exact hx' (by rw [honly id' hm])
    rw [Sx.obj_setObj_ne s h h' o' hne]; exact hi.wf id' h' hm (hxk id' hx')
  · intro id' h' hm hx'
    have hne : h' ≠ h := by
      intro hh; subst hh; exact hx' (by rw [honly id' hm])
    rw [Sx.obj_setObj_ne s h h' o' hne]; exact hi.coh id' h' hm (hxk id' hx')
  · exact hi.ckeys
  · intro id' h' hm
    by_cases hh : h' = h
    · subst hh; rw [Sx.obj_setObj_self s h' o' (hi.valid id' h' hm)]; exact hr
    · rw [Sx.obj_setObj_ne s h h' o' hh]; exact hi.crefs id' h' hm
  · exact hi.sok
  · exact hi.tkeys

/-- the round from a state that is coherent, or coherent except at the object's own id (as it is between the direct
save of `s.LogOut()` and the `Set` of a non-exclusive `LogIn` when the request's object is not the cached one) -/
theorem round_core (cfg : Cfg) (u : Option (String × Nat)) (x : Option ID) (s1 : State) (h : Nat) (hnf : NoFail s1)
    (hi : InvX cfg.codec x s1) (hx : x = none ∨ x = some (s1.obj h).id) (hl : HL s1 h)
    (honly : ∀ id', (id', h) ∈ s1.cache → id' = (s1.obj h).id) : RoundPost cfg u s1 h (Loc.userSet cfg u s1 h) := by
  have hv := hl.valid
  have hX : InvX cfg.codec (some (s1.obj h).id) (s1.setObj h { s1.obj h with user := u }) :=
    invX_setObj_exc h (s1.obj h).id _ hi hx hl.ref honly
  have hobj2 : (s1.setObj h { s1.obj h with user := u }).obj h = { s1.obj h with user := u } :=
    Loc.obj_setObj_self hv _
  have hid2 : ((s1.setObj h { s1.obj h with user := u }).obj h).id = (s1.obj h).id := by rw [hobj2]
  have hnf2 : NoFail (s1.setObj h { s1.obj h with user := u }) := hnf
  have hl2 : HL (s1.setObj h { s1.obj h with user := u }) h :=
    ⟨by rw [setObj_len]; exact hv, by rw [hid2]; exact hl.minted, by rw [hobj2]; exact hl.ref⟩
  have hS := Sx.cacheSet_spec cfg (some (s1.obj h).id) (s1.setObj h { s1.obj h with user := u }) h hnf2 hl2 hX
  have hinv : Inv cfg.codec (Loc.userSet cfg u s1 h).1 := by
    have := hS.inv
    rw [hid2] at this
    simp only [if_true] at this
    exact this
  have hobjN : ∀ x, (Loc.setObjNow (s1.setObj h { s1.obj h with user := u }) h).obj x =
      if h = x then setUObj s1 h u else s1.obj x := by
    intro x; rw [More.C10.obj_set2 s1 h _ hv x]; rfl
  have hobjx : ∀ x, (Loc.userSet cfg u s1 h).1.obj x = if h = x then setUObj s1 h u else s1.obj x := by
    intro x; unfold Loc.userSet; rw [Loc.cacheSet_obj, hobjN]
  have hok : (cacheSet cfg (s1.setObj h { s1.obj h with user := u }) h).2.1 = true := hS.ok
  have hsrc : ∀ e ∈ (Loc.userSet cfg u s1 h).1.cache, e = ((s1.obj h).id, h) ∨ e ∈ s1.cache := by
    intro e he
    have := hS.src e he
    rw [hid2] at this
    exact this
  refine ⟨hS.ok, hinv, hS.step.nofail, hS.hok, ?_, hS.nextId, ?_, ?_, ?_, ?_, hobjx, hsrc, ?_, ?_, ?_⟩
  · unfold Loc.userSet; rw [Loc.cacheSet_now]; rfl
  · unfold Loc.userSet; rw [Loc.cacheSet_timers]; rfl
  · unfold Loc.userSet; rw [Loc.cacheSet_vers]; rfl
  · unfold Loc.userSet; rw [Loc.cacheSet_extra]; rfl
  · unfold Loc.userSet; rw [Loc.cacheSet_heap_length]; simp
  · intro k hk
    unfold Loc.userSet
    rw [cacheSet_E h hX k (by simpa using hk) (by rw [hid2]; exact hk)]; rfl
  · have := Loc.cacheSet_store_ok hok
    rw [hid2] at this
    unfold Loc.userSet
    rw [this, Loc.cacheSet_obj, hobjN, if_pos rfl]
    exact Loc.lookup_insert_self _ _ _
  · intro e he
    have hev := Loc.cacheSet_evs cfg (s1.setObj h { s1.obj h with user := u }) h
    rw [hok, if_pos rfl, hid2, Loc.cacheSet_obj, hobjN, if_pos rfl] at hev
    unfold Loc.userSet at he
    rw [hev] at he
    rcases List.mem_append.1 he with he | he
    · have hf := (Loc.setC_flushed cfg (s1.setObj h { s1.obj h with user := u }) h).evs_flush e he
      refine ⟨isFlush_plain hf, ?_⟩
      obtain ⟨k, x, hm, rfl | rfl⟩ := hf
      · intro k' r' hkr
        simp only [Ev.save.injEq] at hkr
        obtain ⟨rfl, rfl⟩ := hkr
        have hm' : (k, x) ∈ s1.cache := hm
        rw [hobjN]
        by_cases hx : h = x
        · subst hx
          rw [if_pos rfl]
          exact Or.inl ⟨honly k hm', rfl⟩
        · rw [if_neg hx]
          exact Or.inr ⟨x, hm', Ne.symm hx, rfl⟩
      · intro _ _ hkr; cases hkr
    · simp only [List.mem_singleton] at he; subst he
      refine ⟨rfl, ?_⟩
      intro k' r' hkr
      simp only [Ev.save.injEq] at hkr
      obtain ⟨rfl, rfl⟩ := hkr
      exact Or.inl ⟨rfl, rfl⟩

theorem round_spec (cfg : Cfg) (u : Option (String × Nat)) (s1 : State) (h : Nat) (hnf : NoFail s1)
    (hi : Inv cfg.codec s1) (hl : HL s1 h) : RoundPost cfg u s1 h (Loc.userSet cfg u s1 h) :=
  round_core cfg u none s1 h hnf hi (Or.inl rfl) hl (fun id' hm => (hi.wf id' h hm (by simp)).symm)

/-! ### the loop -/

theorem setUObj_congr {s s' : State} {x : Nat} (u : Option (String × Nat)) (ho : s'.obj x = s.obj x) (hn : s'.now = s.now) :
    setUObj s' x u = setUObj s x u := by
  unfold setUObj; rw [ho, hn]

theorem setUObj_idem {s s' : State} {x : Nat} (u : Option (String × Nat)) (ho : s'.obj x = setUObj s x u) (hn : s'.now = s.now) :
    setUObj s' x u = setUObj s x u := by
  unfold setUObj at *; rw [ho, hn]

/-- the effect of the loop on the essentials under one key -/
def updE (U : Option String) (b : Prop) [Decidable b] (e : Option String × Int × Option ID × Option Data) :
    Option String × Int × Option ID × Option Data := if b then (U, e.2) else e

theorem updE_snd (U : Option String) (b : Prop) [Decidable b] (e : Option String × Int × Option ID × Option Data) :
    (updE U b e).2 = e.2 := by unfold updE; split <;> rfl

theorem updE_comp (U : Option String) (a b : Prop) [Decidable a] [Decidable b]
    (e : Option String × Int × Option ID × Option Data) : updE U b (updE U a e) = updE U (a ∨ b) e := by
  unfold updE
  by_cases ha : a <;> by_cases hb : b <;> simp [ha, hb]

theorem updE_congr (U : Option String) {a b : Prop} [Decidable a] [Decidable b] (h : a ↔ b)
    (e : Option String × Int × Option ID × Option Data) : updE U a e = updE U b e := by
  unfold updE
  by_cases ha : a
  · have hb := h.1 ha; simp [ha, hb]
  · have hb : ¬ b := fun hb => ha (h.2 hb); simp [ha, hb]

/-- what the loop of `LogOut(uid)` / `RefreshUser` does, fault-free, from a coherent state, for ANY list of ids. -/
structure LoopPost (cfg : Cfg) (u : Option (String × Nat)) (ids : List ID) (s : State) (r : State × Bool × List Ev) : Prop where
  ok : r.2.1 = true
  inv : Inv cfg.codec r.1
  nofail : NoFail r.1
  now : r.1.now = s.now
  nextId : r.1.nextId = s.nextId
  timers : r.1.timers = s.timers
  vers : r.1.vers = s.vers
  extra : r.1.extra = s.extra
  len : s.heap.length ≤ r.1.heap.length
  obj : ∀ x, x < s.heap.length → r.1.obj x = s.obj x ∨ r.1.obj x = setUObj s x u
  E : ∀ k, E k r.1.store = (E k s.store).map (updE (u.map (·.1)) (k ∈ ids))
  evs : ∀ e ∈ r.2.2, plainEv e = true ∧ SaveKeeps s.store e
  cacheFrame : ∀ k x, (k, x) ∈ r.1.cache → k ∉ ids → (k, x) ∈ s.cache ∧ r.1.obj x = s.obj x
  cacheUser : ∀ k x, (k, x) ∈ r.1.cache → k ∈ ids → (r.1.obj x).user = u

theorem E_map_snd_of {st st' : List (ID × Rec)} {U : Option String} {b : ID → Prop} [DecidablePred b]
    (h : ∀ k, E k st' = (E k st).map (updE U (b k))) (k : ID) : (E k st').map (·.2) = (E k st).map (·.2) := by
  rw [h k, Option.map_map]
  congr 1
  funext e
  exact updE_snd _ _ _

theorem loop_delta (cfg : Cfg) (u : Option (String × Nat)) : ∀ (ids : List ID) (s : State), NoFail s → Inv cfg.codec s →
    LoopPost cfg u ids s (setUserAll cfg u ids s) := by
  intro ids
  induction ids with
  | nil =>
    intro s hnf hi
    rw [Loc.setUserAll_nil]
    refine ⟨rfl, hi, hnf, rfl, rfl, rfl, rfl, rfl, Nat.le_refl _, fun _ _ => Or.inl rfl, ?_, ?_, ?_, ?_⟩
    · intro k
      cases hE : E k s.store <;> simp [updE]
    · intro e he; simp at he
    · intro k x hm _; exact ⟨hm, rfl⟩
    · intro k x _ hk; simp at hk
  | cons id rest ih =>
    intro s hnf hi
    have hGi := Sx.cacheGet_spec cfg s id hnf hi
    have hGl := Loc.cacheGet_spec cfg s id
    have hEG := cacheGet_E (cfg := cfg) id hi
    have hevG := cacheGet_evs (cfg := cfg) id hi
    have hcohG := fun h1 => More.C10.get_coh (cfg := cfg) (s := s) (id := id) (h1 := h1) hi
    rcases hg : cacheGet cfg s id with ⟨s1, res, e1⟩
    rw [hg] at hGi hGl hEG hevG hcohG
    simp only at hGl hEG hevG hcohG
    obtain ⟨hinv1, hst1, hnext1, hres1, _⟩ := hGi
    simp only at hinv1 hst1 hnext1 hres1
    have hEsnd1 : ∀ k, (E k s1.store).map (·.2) = (E k s.store).map (·.2) := fun k => by rw [hEG k]
    cases res with
    | err => rcases hres1 with h | ⟨h, h', _⟩ <;> cases h <;> try cases h'
    | nil =>
      rw [Loc.setUserAll_cons_nil hg]
      have P := ih s1 hst1.nofail hinv1
      obtain ⟨_, hmissc, hmisss, hc1, hs1, hh1, _, _⟩ := hGl.nil_evs rfl
      have hobj1 : ∀ x, s1.obj x = s.obj x := fun x => Loc.obj_eq_of_heap hh1 x
      refine ⟨P.ok, P.inv, P.nofail, P.now.trans hGl.now, P.nextId.trans hGl.nextId, P.timers.trans hGl.timers,
        P.vers.trans hGl.vers, P.extra.trans hGl.extra, ?_, ?_, ?_, ?_, ?_, ?_⟩
      · have := P.len; rw [hh1] at this; exact this
      · intro x hx
        have hx1 : x < s1.heap.length := by rw [hh1]; exact hx
        rcases P.obj x hx1 with h | h
        · exact Or.inl (h.trans (hobj1 x))
        · exact Or.inr (h.trans (setUObj_congr u (hobj1 x) hGl.now))
      · intro k
        rw [P.E k, hs1]
        by_cases hk : k = id
        · subst hk
          rw [E_none hmisss]; rfl
        · congr 1
          funext e
          exact updE_congr _ (by simp [hk]) e
      · intro e he
        rcases List.mem_append.1 he with he | he
        · exact hevG e he
        · obtain ⟨p1, p2⟩ := P.evs e he
          exact ⟨p1, saveKeeps_of_E hEsnd1 p2⟩
      · intro k x hm hk
        have hk' : k ∉ rest := fun h => hk (List.mem_cons_of_mem _ h)
        obtain ⟨q1, q2⟩ := P.cacheFrame k x hm hk'
        exact ⟨hc1 ▸ q1, q2.trans (hobj1 x)⟩
      · intro k x hm hk
        by_cases hkr : k ∈ rest
        · exact P.cacheUser k x hm hkr
        · have hkid : k = id := by
            rcases List.mem_cons.1 hk with h | h
            · exact h
            · exact absurd h hkr
          subst hkid
          obtain ⟨q1, _⟩ := P.cacheFrame k x hm hkr
          rw [hc1] at q1
          exact absurd q1 (Sx.lookup_none_not_mem hmissc x)
    | some h1 =>
      have hk1 : HOK s1 h1 ∧ (s1.obj h1).id = id := by
        rcases hres1 with h | ⟨h', he, hk, hid⟩
        · cases h
        · simp only [GetRes.some.injEq] at he; subst he; exact ⟨hk, hid⟩
      obtain ⟨r, hlr, hessr⟩ := hcohG h1 rfl
      have R := round_spec cfg u s1 h1 hst1.nofail hinv1 hk1.1.toHL
      rw [Loc.setUserAll_cons_some hg]
      simp only [R.ok, Bool.true_eq_false, if_false]
      have P := ih (Loc.userSet cfg u s1 h1).1 R.nofail R.inv
      generalize Loc.userSet cfg u s1 h1 = g3 at R P ⊢
      obtain ⟨s3, ok3, e3⟩ := g3
      obtain ⟨_, hinv3, hnf3, hhok3, hnow3, hnext3, htim3, hvers3, hextra3, hlen3, hobj3, hcache3, hEne3, hself3, hevs3⟩ := R
      simp only at hinv3 hnf3 hhok3 hnow3 hnext3 htim3 hvers3 hextra3 hlen3 hobj3 hcache3 hEne3 hself3 hevs3 P ⊢
      rw [hk1.2] at hcache3 hEne3 hself3 hevs3
      -- the round on the essentials
      have hEstep : ∀ k, E k s3.store = (E k s.store).map (updE (u.map (·.1)) (k = id)) := by
        intro k
        by_cases hk : k = id
        · subst hk
          rw [E_of_lookup hself3, ← hEG k, E_of_lookup hlr]
          simp only [Option.map_some, updE, if_true]
          unfold setUObj
          rw [ess_enc_setUser, hessr]
        · rw [hEne3 k hk, hEG k]
          cases hE : E k s.store <;> simp [updE, hk]
      have hEsnd3 : ∀ k, (E k s3.store).map (·.2) = (E k s.store).map (·.2) := E_map_snd_of hEstep
      have hlen1 : s.heap.length ≤ s1.heap.length := hst1.len
      have hobj1 : ∀ x, x < s.heap.length → s1.obj x = s.obj x := hGl.obj_old
      have hid3 : (s3.obj h1).id = id := by rw [hobj3 h1, if_pos rfl]; exact hk1.2
      refine ⟨P.ok, P.inv, P.nofail, (P.now.trans hnow3).trans hGl.now, (P.nextId.trans hnext3).trans hGl.nextId,
        (P.timers.trans htim3).trans hGl.timers, (P.vers.trans hvers3).trans hGl.vers,
        (P.extra.trans hextra3).trans hGl.extra, ?_, ?_, ?_, ?_, ?_, ?_⟩
      · show s.heap.length ≤ (setUserAll cfg u rest s3).1.heap.length
        have := P.len; omega
      · intro x hx
        have hx3 : x < s3.heap.length := by omega
        have h3 : s3.obj x = s.obj x ∨ s3.obj x = setUObj s x u := by
          rw [hobj3 x]
          by_cases hhx : h1 = x
          · subst hhx
            rw [if_pos rfl]
            exact Or.inr (setUObj_congr u (hobj1 _ hx) hGl.now)
          · rw [if_neg hhx]; exact Or.inl (hobj1 x hx)
        have hn3 : s3.now = s.now := hnow3.trans hGl.now
        rcases P.obj x hx3 with h | h
        · rw [h]; exact h3
        · right
          rw [h]
          rcases h3 with h3 | h3
          · exact setUObj_congr u h3 hn3
          · exact setUObj_idem u h3 hn3
      · intro k
        rw [P.E k, hEstep k, Option.map_map]
        congr 1
        funext e
        simp only [Function.comp]
        rw [updE_comp]
        exact updE_congr _ (by simp) e
      · intro e he
        rcases List.mem_append.1 he with he | he
        · rcases List.mem_append.1 he with he | he
          · exact hevG e he
          · obtain ⟨p1, p2⟩ := hevs3 e he
            refine ⟨p1, saveKeeps_of_E hEsnd1 ?_⟩
            intro k r' hkr
            rcases p2 k r' hkr with ⟨rfl, rfl⟩ | ⟨x, hm, _, rfl⟩
            · have he2 : (ess (enc cfg.codec (setUObj s1 h1 u))).2 = (ess r).2 := by
                unfold setUObj; rw [ess_enc_setUser, hessr]
              simp only [ess, Prod.mk.injEq] at he2
              exact ⟨r, hlr, he2.2.1, he2.2.2, he2.1⟩
            · exact saveKeeps_flush hinv1 hm rfl k _ rfl
        · obtain ⟨p1, p2⟩ := P.evs e he
          exact ⟨p1, saveKeeps_of_E hEsnd3 p2⟩
      · intro k x hm hk
        have hk' : k ∉ rest := fun h => hk (List.mem_cons_of_mem _ h)
        have hkid : k ≠ id := fun h => hk (h ▸ List.mem_cons_self)
        obtain ⟨q1, q2⟩ := P.cacheFrame k x hm hk'
        have hm1 : (k, x) ∈ s1.cache := by
          rcases hcache3 _ q1 with h | h
          · exact absurd (Prod.mk.inj h).1 hkid
          · exact h
        have hm0 : (k, x) ∈ s.cache := by
          rcases hGl.cache_mem _ hm1 with h | ⟨h, _⟩
          · exact h
          · exact absurd (Prod.mk.inj h).1 hkid
        have hxh : h1 ≠ x := by
          intro hx; subst hx
          exact hkid ((hinv1.wf k h1 hm1 (by simp)).symm.trans hk1.2)
        refine ⟨hm0, ?_⟩
        rw [q2, hobj3 x, if_neg hxh]
        exact hobj1 x (hi.valid k x hm0)
      · intro k x hm hk
        by_cases hkr : k ∈ rest
        · exact P.cacheUser k x hm hkr
        · have hkid : k = id := by
            rcases List.mem_cons.1 hk with h | h
            · exact h
            · exact absurd h hkr
          subst hkid
          obtain ⟨q1, q2⟩ := P.cacheFrame k x hm hkr
          have hx : x = h1 := hhok3.only x (by rw [hid3]; exact q1)
          subst hx
          rw [q2, hobj3 x, if_pos rfl]
          rfl

/-- one round of the loop, abstractly: it leads to a coherent, fault-free state from which the loop goes on -/
theorem setUserAll_cons_split (cfg : Cfg) (u : Option (String × Nat)) (a : ID) (rest : List ID) (s : State)
    (hnf : NoFail s) (hi : Inv cfg.codec s) :
    ∃ s3 e, NoFail s3 ∧ Inv cfg.codec s3 ∧
      (∀ k, E k s3.store = (E k s.store).map (updE (u.map (·.1)) (k = a))) ∧
      setUserAll cfg u (a :: rest) s =
        ((setUserAll cfg u rest s3).1, (setUserAll cfg u rest s3).2.1, e ++ (setUserAll cfg u rest s3).2.2) := by
  have hGi := Sx.cacheGet_spec cfg s a hnf hi
  have hGl := Loc.cacheGet_spec cfg s a
  have hEG := cacheGet_E (cfg := cfg) a hi
  have hcohG := fun h1 => More.C10.get_coh (cfg := cfg) (s := s) (id := a) (h1 := h1) hi
  rcases hg : cacheGet cfg s a with ⟨s1, res, e1⟩
  rw [hg] at hGi hGl hEG hcohG
  simp only at hGl hEG hcohG
  obtain ⟨hinv1, hst1, _, hres1, _⟩ := hGi
  simp only at hinv1 hst1 hres1
  cases res with
  | err => rcases hres1 with h | ⟨h, h', _⟩ <;> cases h <;> try cases h'
  | nil =>
    refine ⟨s1, e1, hst1.nofail, hinv1, ?_, Loc.setUserAll_cons_nil hg⟩
    obtain ⟨_, _, hmisss, _, hs1, _, _, _⟩ := hGl.nil_evs rfl
    intro k
    rw [hs1]
    by_cases hk : k = a
    · subst hk; rw [E_none hmisss]; rfl
    · cases hE : E k s.store <;> simp [updE, hk]
  | some h1 =>
    have hk1 : HOK s1 h1 ∧ (s1.obj h1).id = a := by
      rcases hres1 with h | ⟨h', he, hk, hid⟩
      · cases h
      · simp only [GetRes.some.injEq] at he; subst he; exact ⟨hk, hid⟩
    obtain ⟨r, hlr, hessr⟩ := hcohG h1 rfl
    have R := round_spec cfg u s1 h1 hst1.nofail hinv1 hk1.1.toHL
    refine ⟨(Loc.userSet cfg u s1 h1).1, e1 ++ (Loc.userSet cfg u s1 h1).2.2, R.nofail, R.inv, ?_, ?_⟩
    · intro k
      by_cases hk : k = a
      · subst hk
        have hself := R.self
        rw [hk1.2] at hself
        rw [E_of_lookup hself, ← hEG k, E_of_lookup hlr]
        simp only [Option.map_some, updE, if_true]
        unfold setUObj
        rw [ess_enc_setUser, hessr]
      · rw [R.E_ne k (by rw [hk1.2]; exact hk), hEG k]
        cases hE : E k s.store <;> simp [updE, hk]
    · rw [Loc.setUserAll_cons_some hg]
      simp only [R.ok, Bool.true_eq_false, if_false]

/-! ### `RegenerateID` and the essentials of the other records -/

/-- fault-free `RegenerateID` from a coherent state touches the essentials under the old and the new id only -/
theorem regenerate_E (cfg : Cfg) (s : State) (h : Nat) (hnf : NoFail s) (hl : HL s h) (hi : Inv cfg.codec s) (k : ID)
    (hk1 : k ≠ (s.obj h).id) (hk2 : k ≠ .gen s.nextId) : E k (regenerate cfg s h).1.store = E k s.store := by
  have hv := hl.valid
  have honly : ∀ id', (id', h) ∈ s.cache → id' = (s.obj h).id := fun id' hm => (hi.wf id' h hm (by simp)).symm
  have hA : InvX cfg.codec (some (s.obj h).id) (Loc.regenS0 s h) :=
    inv_nextId (s.nextId + 1) (Nat.le_succ _)
      (inv_setObj_except h (s.obj h).id { s.obj h with id := ID.gen s.nextId, created := s.now } hi hl.ref honly)
  have hobjA : (Loc.regenS0 s h).obj h = { s.obj h with id := ID.gen s.nextId, created := s.now } :=
    Loc.regenS0_obj_self s h hv
  have hlA : HL (Loc.regenS0 s h) h :=
    ⟨by rw [Loc.regenS0_heap_length]; exact hv, by rw [hobjA]; exact minted_gen s.nextId,
     by rw [hobjA]; exact hl.ref.mono (Nat.le_succ _)⟩
  have hnfA : NoFail (Loc.regenS0 s h) := hnf
  have hidA : ((Loc.regenS0 s h).obj h).id = ID.gen s.nextId := by rw [hobjA]
  have hneq : ¬ (some (s.obj h).id = some (ID.gen s.nextId)) := by
    intro e; simp only [Option.some.injEq] at e; exact hl.minted.ne_gen e
  -- first `Set`
  have e1 : E k (Loc.regenA cfg s h).1.store = E k s.store := by
    unfold Loc.regenA
    rw [cacheSet_E h hA k (by simpa using hk1) (by rw [hidA]; exact hk2)]; rfl
  have hB := Sx.cacheSet_spec cfg (some (s.obj h).id) (Loc.regenS0 s h) h hnfA hlA hA
  have hinvA : InvX cfg.codec (some (s.obj h).id) (Loc.regenA cfg s h).1 := by
    have := hB.inv
    rw [hidA] at this
    simp only [hneq, if_false] at this
    exact this
  -- allocation, second `Set`
  have hC : InvX cfg.codec (some (s.obj h).id) (Loc.regenS2 cfg s h) := by
    unfold Loc.regenS2; exact inv_alloc _ hinvA
  have e2 : E k (Loc.regenB cfg s h).1.store = E k (Loc.regenA cfg s h).1.store := by
    rw [Loc.regenB_eq]
    rw [cacheSet_E s.heap.length hC k (by simpa using hk1) (by rw [Loc.regenS2_ref_id cfg s h hv]; exact hk1)]
    unfold Loc.regenS2; rfl
  have hok := (Sx.regenerate_spec cfg s h hnf hl hi).ok
  rw [(Loc.regenerate_state_ok cfg s h hok).1]
  show E k (Loc.regenB cfg s h).1.store = _
  rw [e2, e1]

end Sx.Glob
