import Sessions.Proofs.Global.Active03
import Sessions.Proofs.Global.Own01
/-!
# C03 (second half): the link between the clients' cookie jars and the ghost, over histories

`Linked w g` relates the browser side of the world (jars, the cookies of the response being built) to the ghost `G3`:
the id a client's jar holds — or will hold once the response in flight has been applied, whatever the cookie template
(`∀ ck`, so that `.cookiecfg` in mid-request is harmless) — has been served at least as late as the client's last
successful `.jar` request. `linked_step` / `linked_all_histories` show that it holds along every history satisfying
`Hist3OK` in which a request only starts when no request is open (`Op3LOK`); `link3_between_requests` gives `Link3`,
and `c03_active_kept_client` is `c03_active_kept_partial` with `Link3` discharged.

Deviation from the suggested shape of the `flight` clause (`respCookies = [] → …` / `getLast? = some (.setCookie id) →
…`): it is stated through `applyCookies ck jar respCookies = some j` for every template `ck`. This needs no side
invariant "`respCookies` holds cookie events only" and no case analysis on the last event at `endReq`; appending the
cookies of an API call is `List.foldl_append`.
-/
namespace Sx.Glob

/-! ## 1. the ghost after one operation -/

theorem l3_lastOK_quiet {g : G3} {op : Op} {out : Out} (h : jarClient op = none) : (g3Step g op out).lastOK = g.lastOK := by
  unfold g3Step
  cases out.sess with
  | none => rfl
  | some p => simp [h]

theorem l3_lastOK_jar {g : G3} {op : Op} {out : Out} {c : String} {p : Bool × Sess} (h : jarClient op = some c)
    (hs : out.sess = some p) : (g3Step g op out).lastOK = insert c out.t g.lastOK := by
  unfold g3Step
  rw [hs]
  simp [h]

/-- the ghost's `served` only grows, by an entry stamped `now`. -/
def l3_Grows (now : Int) (sv sv' : List (ID × Int)) : Prop := sv' = sv ∨ ∃ i, sv' = insert i now sv

theorem l3_grow {sv sv' : List (ID × Int)} {now : Int} (hg : l3_Grows now sv sv') (htle : ∀ i t, lookup i sv = some t → t ≤ now)
    {j : ID} {t : Int} (h : ∃ t', lookup j sv = some t' ∧ t ≤ t') : ∃ t', lookup j sv' = some t' ∧ t ≤ t' := by
  obtain ⟨t', hl, hle⟩ := h
  rcases hg with e | ⟨i, e⟩
  · rw [e]; exact ⟨t', hl, hle⟩
  · rw [e, Loc.lookup_insert]
    split
    · exact ⟨now, rfl, Int.le_trans hle (htle j t' hl)⟩
    · exact ⟨t', hl, hle⟩

theorem l3_applyCookies_append (ck : CookieCfg) (jar : Option ID) (a b : List Ev) :
    applyCookies ck jar (a ++ b) = applyCookies ck (applyCookies ck jar a) b := by
  unfold applyCookies
  rw [List.foldl_append]

/-! ## 2. the invariant -/

/-- **a request only starts when no request is open** (`endReq` came first). Without it an abandoned request that
rotated the id leaves the client's jar on the replaced id while `lastOK` has moved on (`c03_abandoned_script`; the
client would in fact still be served, through the reference record, but `Link3` as stated is false). -/
def Op3LOK (w : World) : Op → Prop
  | .req _ _ _ _ _ => w.inReq = false
  | _ => True

/-- **the jar/ghost link, at every operation boundary.** -/
structure Linked (w : World) (g : G3) : Prop where
  /-- a `lastOK` time is witnessed by a `served` time (hence lies in the past) -/
  wit : ∀ c t, lookup c g.lastOK = some t → ∃ i t', lookup i g.served = some t' ∧ t ≤ t'
  /-- between requests no response is being built -/
  idle : w.inReq = false → w.respCookies = []
  /-- the jars, except the one of the client whose request is in flight -/
  rest : ∀ c j t, lookup c w.jars = some j → lookup c g.lastOK = some t →
    (w.inReq = true ∧ c = w.client) ∨ ∃ t', lookup j g.served = some t' ∧ t ≤ t'
  /-- the jar of the client in flight, once the response has been applied (whatever the cookie template) -/
  flight : w.inReq = true → ∀ ck j t, lookup w.client g.lastOK = some t →
    applyCookies ck (lookup w.client w.jars) w.respCookies = some j → ∃ t', lookup j g.served = some t' ∧ t ≤ t'

theorem linked_init (cfg : Cfg) (ck : CookieCfg) : Linked { cfg := cfg, ck := ck } {} :=
  ⟨by intro c t h; simp [lookup] at h, fun _ => rfl, by intro c j t h; simp [lookup] at h, by intro h; cases h⟩

/-- **the frame**: jars, `inReq`, client unchanged; the response grows by the cookies `cks` of an API call — none, the
deletion cookie, or the live cookie of an id that has just been recorded as served; `lastOK` unchanged, `served` grown. -/
theorem linked_frame {w w' : World} {g g' : G3} (hl : Linked w g) (htle : ∀ i t, lookup i g.served = some t → t ≤ w.st.now)
    (hjars : w'.jars = w.jars) (hreq : w'.inReq = w.inReq) (hcl : w'.client = w.client) (cks : List Ev)
    (hresp : w'.respCookies = w.respCookies ++ cks) (hlast : g'.lastOK = g.lastOK)
    (hgrow : l3_Grows w.st.now g.served g'.served) (hidle : w.inReq = false → cks = [])
    (hcks : cks = [] ∨ cks = [.delCookie] ∨ ∃ i, cks = [.setCookie i] ∧ g'.served = insert i w.st.now g.served) :
    Linked w' g' := by
  refine ⟨?_, ?_, ?_, ?_⟩
  · intro c t hc
    rw [hlast] at hc
    obtain ⟨i, h⟩ := hl.wit c t hc
    exact ⟨i, l3_grow hgrow htle h⟩
  · intro hr
    rw [hreq] at hr
    rw [hresp, hl.idle hr, hidle hr]; rfl
  · intro c j t hj hc
    rw [hjars] at hj
    rw [hlast] at hc
    rcases hl.rest c j t hj hc with ⟨h1, h2⟩ | h
    · exact Or.inl ⟨by rw [hreq]; exact h1, by rw [hcl]; exact h2⟩
    · exact Or.inr (l3_grow hgrow htle h)
  · intro hr ck j t hc ha
    rw [hreq] at hr
    rw [hcl, hlast] at hc
    rw [hcl, hjars, hresp, l3_applyCookies_append] at ha
    rcases hcks with e | e | ⟨i, e, hs⟩
    · rw [e] at ha
      exact l3_grow hgrow htle (hl.flight hr ck j t hc ha)
    · rw [e] at ha; cases ha
    · rw [e] at ha
      have ha' : (if ck.dead then none else some i) = some j := ha
      split at ha'
      · cases ha'
      · simp only [Option.some.injEq] at ha'
        subst ha'
        obtain ⟨i0, t0, h0, hle0⟩ := hl.wit _ t hc
        exact ⟨w.st.now, by rw [hs, Loc.lookup_insert_self], Int.le_trans hle0 (htle i0 t0 h0)⟩


/-! ## 3. cookies of the handler calls -/

theorem l3_saveObj_nc (cfg : Cfg) (s : State) (h : Nat) : (saveObj cfg s h).2.2.filter isCookie = [] := by
  rw [Loc.saveObj_eq, Loc.saveRec_evs]
  split <;> rfl

theorem l3_hset_nc (cfg : Cfg) (s : State) (h : Nat) (k : String) (v : Val) : (hset cfg s h k v).2.2.filter isCookie = [] := by
  cases hd : (s.obj h).data with
  | none => rw [Loc.hset_none k v hd]; rfl
  | some d => rw [Loc.hset_some k v hd]; exact l3_saveObj_nc cfg _ h

theorem l3_hdel_nc (cfg : Cfg) (s : State) (h : Nat) (k : String) : (hdel cfg s h k).2.2.filter isCookie = [] := by
  rw [Loc.hdel_eq]; exact l3_saveObj_nc cfg _ h

theorem l3_hgetdel_nc (cfg : Cfg) (s : State) (h : Nat) (k : String) : (hgetdel cfg s h k).2.2.filter isCookie = [] := by
  have hS := l3_saveObj_nc cfg (s.setObj h { s.obj h with data := (s.obj h).data.map (erase k) }) h
  unfold hgetdel
  split
  · rfl
  · simp only []
    generalize saveObj cfg (s.setObj h { s.obj h with data := (s.obj h).data.map (erase k) }) h = g at hS
    obtain ⟨s2, ok, e⟩ := g
    exact hS

theorem l3_hlogout_nc (cfg : Cfg) (s : State) (h : Nat) : (hlogout cfg s h).2.2.filter isCookie = [] := by
  cases hu : (s.obj h).user with
  | none => rw [Loc.hlogout_none hu]; rfl
  | some u => rw [Loc.hlogout_some hu]; exact l3_saveObj_nc cfg _ h

/-! ## 4. a request, the end of a request -/

/-- the jar after a `Start` that returned a session, for every cookie template: unchanged with no cookie sent, or
the id of the returned session. -/
theorem l3_start_sess_jar (cfg : Cfg) (s : State) (r : Req) (ck : CookieCfg) (jar : Option ID)
    (hcv : ∀ k x, (k, x) ∈ s.cache → x < s.heap.length) {h : Nat} (hres : (start cfg s r).2.1 = .sess h) {j : ID}
    (ha : applyCookies ck jar (Loc.cookieEvs (start cfg s r).2.2) = some j) :
    (Loc.cookieEvs (start cfg s r).2.2 = [] ∧ jar = some j) ∨ j = ((start cfg s r).1.obj h).id := by
  rcases Loc.start_sess_last_cookie cfg s r hcv hres with h0 | hlast
  · rw [h0] at ha
    exact Or.inl ⟨h0, ha⟩
  · obtain ⟨pre, hpre⟩ := List.getLast?_eq_some_iff.1 hlast
    rw [hpre, l3_applyCookies_append] at ha
    have ha' : (if ck.dead then none else some ((start cfg s r).1.obj h).id) = some j := ha
    split at ha'
    · cases ha'
    · simp only [Option.some.injEq] at ha'
      exact Or.inr ha'.symm

/-- the jars after `endReq`. -/
def l3_newJars (jars : List (String × ID)) (cl : String) : Option ID → List (String × ID)
  | some id => insert cl id jars
  | none => erase cl jars

theorem l3_endReq_jars (jars : List (String × ID)) (cl c : String) (jar : Option ID) :
    lookup c (l3_newJars jars cl jar) = if cl = c then jar else lookup c jars := by
  cases jar with
  | none => show lookup c (erase cl jars) = _; rw [Loc.lookup_erase]
  | some id => show lookup c (insert cl id jars) = _; rw [Loc.lookup_insert]

/-- the end of a request: the response is applied to the client's jar. -/
theorem linked_endReq_core {w w' : World} {g : G3} (hl : Linked w g) (jar : Option ID)
    (hjar : jar = applyCookies w.ck (lookup w.client w.jars) w.respCookies)
    (hjars : w'.jars = l3_newJars w.jars w.client jar)
    (hreq : w'.inReq = false) (hresp : w'.respCookies = []) : Linked w' g := by
  refine ⟨hl.wit, fun _ => hresp, ?_, by intro hr; rw [hreq] at hr; cases hr⟩
  intro c j t hj hc
  right
  rw [hjars, l3_endReq_jars] at hj
  split at hj
  · rename_i hcl
    subst hcl
    cases hr : w.inReq with
    | true => exact hl.flight hr w.ck j t hc (by rw [← hjar]; exact hj)
    | false =>
      rw [hjar, hl.idle hr] at hj
      rcases hl.rest _ j t hj hc with ⟨h1, _⟩ | h
      · rw [hr] at h1; cases h1
      · exact h
  · rename_i hcl
    rcases hl.rest c j t hj hc with ⟨_, h2⟩ | h
    · exact absurd h2.symm hcl
    · exact h

theorem linked_finish {w' : World} {o : Out} {g : G3} (op : Op) (hl : Linked w' g) (hcr : w'.crashed = false) (hs : o.sess = none) :
    Linked (finish w' o).1 (g3Step g op (finish w' o).2) := by
  rw [finish_alive o hcr, g3Step_none hs]
  exact hl

/-- an API call that leaves jars, `inReq`, client alone. -/
theorem linked_apiCall (w : World) (orc : Orc) (run : State → State × RetV × Option String × List Ev) (b : Bool) {g g' : G3}
    (hl : Linked w g) (htle : ∀ i t, lookup i g.served = some t → t ≤ w.st.now) (hlast : g'.lastOK = g.lastOK)
    (hgrow : l3_Grows w.st.now g.served g'.served)
    (hidle : w.inReq = false → (run (orcSt w orc)).2.2.2.filter isCookie = [])
    (hcks : (run (orcSt w orc)).2.2.2.filter isCookie = [] ∨ (run (orcSt w orc)).2.2.2.filter isCookie = [.delCookie] ∨
      ∃ i, (run (orcSt w orc)).2.2.2.filter isCookie = [.setCookie i] ∧ g'.served = insert i w.st.now g.served) :
    Linked (apiCall w orc run b).1 g' :=
  linked_frame hl htle (by rw [apiCall_fst]) (by rw [apiCall_fst]) (by rw [apiCall_fst])
    ((run (orcSt w orc)).2.2.2.filter isCookie) (by rw [apiCall_fst]) hlast hgrow hidle hcks


theorem l3_jarClient_req (c : String) (spec : CookieSpec) (ip ua : String) (create : Bool) :
    (jarClient (.req c spec ip ua create) = some c ∧ spec = .jar) ∨
    (jarClient (.req c spec ip ua create) = none ∧ spec ≠ .jar) := by
  cases spec with
  | none => exact Or.inr ⟨rfl, by intro h; cases h⟩
  | jar => exact Or.inl ⟨rfl, rfl⟩
  | val id len => exact Or.inr ⟨rfl, by intro h; cases h⟩

theorem l3_reqOf_jar {w : World} {client : String} {j : ID} (ip ua : String) (create : Bool)
    (hj : lookup client w.jars = some j) :
    (reqOf w client .jar ip ua create).cookie = some j ∧ (reqOf w client .jar ip ua create).cookieLen = 24 := by
  simp [reqOf, presentedOf, hj]

/-- **a request** (started when no request is open). -/
theorem linked_req {c : Codec} (le : ID → ID → Bool) (w : World) (orc : Orc) (hw : WInv c w) {g : G3} (hk : Knows w g)
    (hl : Linked w g) (ho : OrcOK orc) (client : String) (spec : CookieSpec) (ip ua : String) (create : Bool)
    (hidle : w.inReq = false) :
    Linked (w.step le orc (.req client spec ip ua create)).1
      (g3Step g (.req client spec ip ua create) (w.step le orc (.req client spec ip ua create)).2) := by
  have hsk' : w.skip = false := hk.alive.1
  obtain ⟨hinv, _⟩ := hw.good hsk'
  have hcd := hw.codec
  subst hcd
  have hnf0 : NoFail (orcSt w orc) := ho
  have hinv0 : Inv w.cfg.codec (orcSt w orc) := hinv.congr rfl rfl rfl rfl rfl
  have htle : ∀ i t, lookup i g.served = some t → t ≤ w.st.now := hk.ks.tle
  rw [step_req_fst le w orc client spec ip ua create hsk', step_req_snd le w orc client spec ip ua create hsk', g3Step_input]
  have hsess := apiCall_sess (reqW w orc client spec (reqOf w client spec ip ua create)) orc
    (reqRun w (reqOf w client spec ip ua create)) true
  have ht : (apiCall (reqW w orc client spec (reqOf w client spec ip ua create)) orc
      (reqRun w (reqOf w client spec ip ua create)) true).2.t = w.st.now :=
    apiCall_t (reqW w orc client spec (reqOf w client spec ip ua create)) orc
      (reqRun w (reqOf w client spec ip ua create)) true
  have hjars : (apiCall (reqW w orc client spec (reqOf w client spec ip ua create)) orc
      (reqRun w (reqOf w client spec ip ua create)) true).1.jars = w.jars := by rw [apiCall_fst]; rfl
  have hreq : (apiCall (reqW w orc client spec (reqOf w client spec ip ua create)) orc
      (reqRun w (reqOf w client spec ip ua create)) true).1.inReq = true := by rw [apiCall_fst]; rfl
  have hcl : (apiCall (reqW w orc client spec (reqOf w client spec ip ua create)) orc
      (reqRun w (reqOf w client spec ip ua create)) true).1.client = client := by rw [apiCall_fst]; rfl
  have hresp : (apiCall (reqW w orc client spec (reqOf w client spec ip ua create)) orc
      (reqRun w (reqOf w client spec ip ua create)) true).1.respCookies =
      Loc.cookieEvs (start w.cfg (orcSt w orc) (reqOf w client spec ip ua create)).2.2 := by
    rw [apiCall_fst]
    show [] ++ _ = _
    rw [List.nil_append]; rfl
  generalize apiCall (reqW w orc client spec (reqOf w client spec ip ua create)) orc
      (reqRun w (reqOf w client spec ip ua create)) true = A at hsess ht hjars hreq hcl hresp ⊢
  -- the old link for every client (no request was open)
  have hold : ∀ c0 j t, lookup c0 w.jars = some j → lookup c0 g.lastOK = some t → ∃ t', lookup j g.served = some t' ∧ t ≤ t' := by
    intro c0 j t hj hc
    rcases hl.rest c0 j t hj hc with ⟨h1, _⟩ | h
    · rw [hidle] at h1; cases h1
    · exact h
  have hpast : ∀ c0 t, lookup c0 g.lastOK = some t → t ≤ w.st.now := by
    intro c0 t hc
    obtain ⟨i0, t0, h0, hle0⟩ := hl.wit c0 t hc
    exact Int.le_trans hle0 (htle i0 t0 h0)
  cases hres : (start w.cfg (orcSt w orc) (reqOf w client spec ip ua create)).2.1 with
  | sess h =>
    have hcw : (reqW w orc client spec (reqOf w client spec ip ua create)).cur = some h := by
      show (match (start w.cfg (orcSt w orc) (reqOf w client spec ip ua create)).2.1 with | .sess h => some h | _ => none) = _
      rw [hres]
    rw [hcw] at hsess
    simp only [if_true, Option.map_some] at hsess
    have hserved := g3Step_serves (g := g) (op := .req client spec ip ua create) (p := (_, _)) rfl hsess
    rw [ht] at hserved
    have hobj : ((reqRun w (reqOf w client spec ip ua create)) (orcSt (reqW w orc client spec (reqOf w client spec ip ua create)) orc)).1 =
        (start w.cfg (orcSt w orc) (reqOf w client spec ip ua create)).1 := rfl
    simp only [hobj] at hserved
    have hgrow : l3_Grows w.st.now g.served
        (g3Step g (.req client spec ip ua create) A.2).served := Or.inr ⟨_, hserved⟩
    -- the id just served
    have hnowS : ∀ t, t ≤ w.st.now → ∃ t', lookup ((start w.cfg (orcSt w orc) (reqOf w client spec ip ua create)).1.obj h).id
        (g3Step g (.req client spec ip ua create) A.2).served = some t' ∧ t ≤ t' :=
      fun t ht' => ⟨w.st.now, by rw [hserved, Loc.lookup_insert_self], ht'⟩
    rcases l3_jarClient_req client spec ip ua create with ⟨hjc, hspec⟩ | ⟨hjc, hspec⟩
    · -- the client sent its jar: `lastOK client := now`
      have hlast := l3_lastOK_jar (g := g) (op := .req client spec ip ua create) hjc hsess
      rw [ht] at hlast
      subst hspec
      refine ⟨?_, (by intro hr; rw [hreq] at hr; cases hr), ?_, ?_⟩
      · intro c0 t hc
        rw [hlast, Loc.lookup_insert] at hc
        split at hc
        · simp only [Option.some.injEq] at hc
          exact ⟨_, hnowS t (by rw [← hc]; exact Int.le_refl _)⟩
        · obtain ⟨i, h⟩ := hl.wit c0 t hc
          exact ⟨i, l3_grow hgrow htle h⟩
      · intro c0 j t hj hc
        rw [hjars] at hj
        by_cases hcc : c0 = client
        · exact Or.inl ⟨hreq, by rw [hcl]; exact hcc⟩
        · rw [hlast, Loc.lookup_insert_ne (Ne.symm hcc)] at hc
          exact Or.inr (l3_grow hgrow htle (hold c0 j t hj hc))
      · intro _ ck j t hc ha
        rw [hcl, hlast, Loc.lookup_insert_self] at hc
        simp only [Option.some.injEq] at hc
        rw [hcl, hjars, hresp] at ha
        rcases l3_start_sess_jar w.cfg (orcSt w orc) _ ck _ hinv0.valid hres ha with ⟨hnc, hjar⟩ | hj
        · -- no cookie: the session found under the jar's id is returned as it is
          obtain ⟨hck, hlen⟩ := l3_reqOf_jar ip ua create hjar
          have gd := cacheGet_delta w.cfg (orcSt w orc) j hnf0 hinv0
          rcases hg : cacheGet w.cfg (orcSt w orc) j with ⟨s1, gr, e1⟩
          rw [hg] at gd
          rcases Loc.start_sess_presented hck hlen hg hinv0.valid hres with ⟨_, h2 | h2⟩ | ⟨h1, _, h2, _⟩ | ⟨_, _, _, _, h2⟩
          · rw [h2] at hnc; cases hnc
          · rw [h2] at hnc; cases hnc
          · have hid : (s1.obj h).id = j := by
              rcases gd.res with ⟨h0, _⟩ | ⟨h', r0, h0, _, hid, _⟩
              · rw [h1] at h0; cases h0
              · rw [h1] at h0
                simp only [GetRes.some.injEq] at h0
                subst h0; exact hid
            rw [← hid, ← h2]
            exact hnowS t (by rw [← hc]; exact Int.le_refl _)
          · rw [h2] at hnc; cases hnc
        · rw [hj]
          exact hnowS t (by rw [← hc]; exact Int.le_refl _)
    · -- the client did not send its jar: `lastOK` unchanged
      have hlast := l3_lastOK_quiet (g := g) (op := .req client spec ip ua create) (out := A.2) hjc
      refine ⟨?_, (by intro hr; rw [hreq] at hr; cases hr), ?_, ?_⟩
      · intro c0 t hc
        rw [hlast] at hc
        obtain ⟨i, h⟩ := hl.wit c0 t hc
        exact ⟨i, l3_grow hgrow htle h⟩
      · intro c0 j t hj hc
        rw [hjars] at hj
        rw [hlast] at hc
        exact Or.inr (l3_grow hgrow htle (hold c0 j t hj hc))
      · intro _ ck j t hc ha
        rw [hcl, hlast] at hc
        rw [hcl, hjars, hresp] at ha
        rcases l3_start_sess_jar w.cfg (orcSt w orc) _ ck _ hinv0.valid hres ha with ⟨_, hjar⟩ | hj
        · exact l3_grow hgrow htle (hold client j t hjar hc)
        · rw [hj]; exact hnowS t (hpast client t hc)
  | nil =>
    have hcw : (reqW w orc client spec (reqOf w client spec ip ua create)).cur = none := by
      show (match (start w.cfg (orcSt w orc) (reqOf w client spec ip ua create)).2.1 with | .sess h => some h | _ => none) = _
      rw [hres]
    rw [hcw] at hsess
    rw [g3Step_none hsess]
    refine ⟨hl.wit, (by intro hr; rw [hreq] at hr; cases hr), ?_, ?_⟩
    · intro c0 j t hj hc
      rw [hjars] at hj
      exact Or.inr (hold c0 j t hj hc)
    · intro _ ck j t hc ha
      rw [hcl] at hc
      rw [hcl, hjars, hresp, ← Loc.applyCookies_cookieEvs] at ha
      rcases Loc.start_jar_nil w.cfg (orcSt w orc) _ ck (lookup client w.jars) hres with ⟨_, _, e⟩ | ⟨_, _, e⟩
      · rw [e] at ha; exact hold client j t ha hc
      · rw [e] at ha; cases ha
  | err m =>
    have hcw : (reqW w orc client spec (reqOf w client spec ip ua create)).cur = none := by
      show (match (start w.cfg (orcSt w orc) (reqOf w client spec ip ua create)).2.1 with | .sess h => some h | _ => none) = _
      rw [hres]
    rw [hcw] at hsess
    rw [g3Step_none hsess]
    refine ⟨hl.wit, (by intro hr; rw [hreq] at hr; cases hr), ?_, ?_⟩
    · intro c0 j t hj hc
      rw [hjars] at hj
      exact Or.inr (hold c0 j t hj hc)
    · intro _ ck j t hc ha
      rw [hcl] at hc
      rw [hcl, hjars, hresp, ← Loc.applyCookies_cookieEvs] at ha
      rcases Loc.start_jar_err w.cfg (orcSt w orc) _ ck (lookup client w.jars) hres with ⟨_, e⟩ | ⟨_, _, _, e⟩
      · rw [e] at ha; exact hold client j t ha hc
      · rw [e] at ha; cases ha


/-! ## 5. one step of a history -/

/-- **every operation of a history as in `knows_step`, requests being closed before the next one starts, keeps the
jar/ghost link.** -/
theorem linked_step {c : Codec} (le : ID → ID → Bool) (w : World) (orc : Orc) (op : Op) (hw : WInv c w) {g : G3}
    (hk : Knows w g) (hl : Linked w g) (ho : OrcOK orc) (hopk : OpOK le w op) (h3 : Op3OK w op) (h3l : Op3LOK w op) :
    Linked (w.step le orc op).1 (g3Step g op (w.step le orc op).2) := by
  have hsk' : w.skip = false := hk.alive.1
  have hcr : w.crashed = false := hk.alive.2.2
  obtain ⟨hinv, hcur⟩ := hw.good hsk'
  have hcd := hw.codec
  have hcurreq := hw.cur_req
  subst hcd
  have hnf0 : NoFail (orcSt w orc) := ho
  have hinv0 : Inv w.cfg.codec (orcSt w orc) := hinv.congr rfl rfl rfl rfl rfl
  have hcur0 : ∀ h, w.cur = some h → HOK (orcSt w orc) h := fun h hh => (hcur h hh).congr rfl rfl rfl
  have htle : ∀ i t, lookup i g.served = some t → t ≤ w.st.now := hk.ks.tle
  -- a top-level API call without cookies that shows no session
  have top : ∀ (run : State → State × RetV × Option String × List Ev) (op : Op),
      (run (orcSt w orc)).2.2.2.filter isCookie = [] →
      Linked (finish (apiCall w orc run false).1 (apiCall w orc run false).2).1
        (g3Step g op (finish (apiCall w orc run false).1 (apiCall w orc run false).2).2) := by
    intro run op hnc
    refine linked_finish op ?_ (by rw [(apiCall_flags w orc run false hk.alive.2.1).2.2]; exact hcr) (by rw [apiCall_sess]; rfl)
    exact linked_apiCall w orc run false hl htle rfl (Or.inl rfl) (fun _ => hnc) (Or.inl hnc)
  -- an operation that touches neither jars nor response nor ghost
  have still : ∀ (w' : World), w'.jars = w.jars → w'.inReq = w.inReq → w'.client = w.client →
      w'.respCookies = w.respCookies → Linked w' g := by
    intro w' h1 h2 h3' h4
    exact linked_frame hl htle h1 h2 h3' [] (by rw [h4, List.append_nil]) rfl (Or.inl rfl) (fun _ => rfl) (Or.inl rfl)
  cases op with
  | codec c' => exact absurd hopk (by simp [OpOK])
  | crashinside k => exact absurd h3 (by simp [Op3OK])
  | dropcache => exact absurd h3 (by simp [Op3OK])
  | crash => exact absurd h3 (by simp [Op3OK])
  | cfg n v =>
    unfold World.step
    simp only [hsk', Bool.false_and, Bool.false_eq_true, if_false]
    exact linked_finish (.cfg n v) (still _ rfl rfl rfl rfl) hcr rfl
  | cookiecfg ck =>
    unfold World.step
    simp only [hsk', Bool.false_and, Bool.false_eq_true, if_false]
    exact linked_finish (.cookiecfg ck) (still _ rfl rfl rfl rfl) hcr rfl
  | fault =>
    unfold World.step
    simp only [hsk', Bool.false_and, Bool.false_eq_true, if_false]
    exact linked_finish .fault hl hcr rfl
  | expiredRec id =>
    unfold World.step
    simp only [hsk', Bool.false_and, Bool.false_eq_true, if_false]
    exact linked_finish (.expiredRec id) hl hcr rfl
  | stale uid id =>
    unfold World.step
    simp only [hsk', Bool.false_and, Bool.false_eq_true, if_false]
    exact linked_finish (.stale uid id) (still _ rfl rfl rfl rfl) hcr rfl
  | wait d =>
    unfold World.step
    simp only [hsk', Bool.false_and, Bool.false_eq_true, if_false]
    exact linked_finish (.wait d) (still _ rfl rfl rfl rfl) hcr rfl
  | endReq =>
    unfold World.step
    simp only [hsk', Bool.false_and, Bool.false_eq_true, if_false]
    exact linked_finish .endReq (linked_endReq_core hl _ rfl rfl rfl rfl) hcr rfl
  | purge =>
    unfold World.step
    simp only [hsk', Bool.false_and, Bool.false_eq_true, if_false]
    exact top _ .purge (purge_fr_nc w.cfg (orcSt w orc)).2
  | logoutUser uid =>
    unfold World.step
    simp only [hsk', Bool.false_and, Bool.false_eq_true, if_false]
    exact top _ (.logoutUser uid) (logoutUser_delta w.cfg le (orcSt w orc) uid hnf0 hinv0).nocookie
  | refresh uid =>
    unfold World.step
    simp only [hsk', Bool.false_and, Bool.false_eq_true, if_false]
    exact top _ (.refresh uid) (refreshUser_delta w.cfg le (orcSt w orc) uid hnf0 hinv0).nocookie
  | req client spec ip ua create => exact linked_req le w orc hw hk hl ho client spec ip ua create h3l
  | h hop =>
    unfold World.step
    simp only [hsk', Bool.false_and, Bool.false_eq_true, if_false]
    cases hc : w.cur with
    | none => rw [g3Step_none rfl]; exact hl
    | some h =>
      simp only []
      have hk0 := hcur0 h hc
      have hv := hk0.valid
      have hin : w.inReq = true := hcurreq h hc
      have hH : ∀ (run : State → State × RetV × Option String × List Ev) (hop : HOp),
          ((run (orcSt w orc)).2.2.2.filter isCookie = [] ∧ servesOp (.h hop) = false) ∨
          ((run (orcSt w orc)).2.2.2.filter isCookie = [.delCookie] ∧ servesOp (.h hop) = false) ∨
          (servesOp (.h hop) = true ∧
            (run (orcSt w orc)).2.2.2.filter isCookie = [.setCookie ((run (orcSt w orc)).1.obj h).id]) →
          Linked (apiCall w orc run true).1 (g3Step g (.h hop) (apiCall w orc run true).2) := by
        intro run hop hcase
        have hsess := apiCall_sess w orc run true
        rw [hc] at hsess
        simp only [if_true, Option.map_some] at hsess
        refine linked_apiCall w orc run true hl htle (l3_lastOK_quiet rfl) ?_
          (fun hr => by rw [hin] at hr; cases hr) ?_
        · rcases hcase with ⟨_, hq⟩ | ⟨_, hq⟩ | ⟨hq, _⟩
          · exact Or.inl (g3Step_quiet hq)
          · exact Or.inl (g3Step_quiet hq)
          · exact Or.inr ⟨_, by rw [g3Step_serves (p := (_, _)) hq hsess, apiCall_t]⟩
        · rcases hcase with ⟨h1, _⟩ | ⟨h1, _⟩ | ⟨hq, h1⟩
          · exact Or.inl h1
          · exact Or.inr (Or.inl h1)
          · exact Or.inr (Or.inr ⟨_, h1, by rw [g3Step_serves (p := (_, _)) hq hsess, apiCall_t]⟩)
      cases hop with
      | set k v => exact hH _ (.set k v) (Or.inl ⟨l3_hset_nc w.cfg (orcSt w orc) h k v, rfl⟩)
      | del k => exact hH _ (.del k) (Or.inl ⟨l3_hdel_nc w.cfg (orcSt w orc) h k, rfl⟩)
      | get k => exact hH _ (.get k) (Or.inl ⟨rfl, rfl⟩)
      | getdel k => exact hH _ (.getdel k) (Or.inl ⟨l3_hgetdel_nc w.cfg (orcSt w orc) h k, rfl⟩)
      | logout => exact hH _ .logout (Or.inl ⟨l3_hlogout_nc w.cfg (orcSt w orc) h, rfl⟩)
      | expired => exact hH _ .expired (Or.inl ⟨rfl, rfl⟩)
      | lastaccess => exact hH _ .lastaccess (Or.inl ⟨rfl, rfl⟩)
      | user => exact hH _ .user (Or.inl ⟨rfl, rfl⟩)
      | destroy =>
        apply hH _ .destroy
        show ((destroy (orcSt w orc) h w.hasCookie).2.2.filter isCookie = [] ∧ _) ∨
          ((destroy (orcSt w orc) h w.hasCookie).2.2.filter isCookie = [.delCookie] ∧ _) ∨ _
        rw [destroy_nf _ h _ hnf0]
        cases w.hasCookie
        · exact Or.inl ⟨rfl, rfl⟩
        · exact Or.inr (Or.inl ⟨rfl, rfl⟩)
      | regen =>
        apply hH _ .regen
        right; right
        refine ⟨rfl, ?_⟩
        show Loc.cookieEvs (regenerate w.cfg (orcSt w orc) h).2.2 = [.setCookie ((regenerate w.cfg (orcSt w orc) h).1.obj h).id]
        rw [Loc.cookieEvs_regenerate, (Sx.regenerate_spec w.cfg (orcSt w orc) h hnf0 hk0.toHL hinv0).ok,
          Loc.regenerate_obj_id w.cfg hv]
        rfl
      | login uid excl =>
        apply hH _ (.login uid excl)
        right; right
        refine ⟨rfl, ?_⟩
        have D := hlogin_delta_HL w.cfg le (orcSt w orc) h uid excl hnf0 hinv0 hk0.toHL
        show (hlogin w.cfg le (orcSt w orc) h uid excl).2.2.filter isCookie =
          [.setCookie ((hlogin w.cfg le (orcSt w orc) h uid excl).1.obj h).id]
        rw [D.cookies, D.obj]


/-! ## 6. histories -/

/-- `Op3LOK` along the run: every `.req` arrives when no request is open. -/
def Hist3LOK (le : ID → ID → Bool) (w : World) : List (Orc × Op) → Prop
  | [] => True
  | (o, op) :: r => Op3LOK w op ∧ Hist3LOK le (w.step le o op).1 r

theorem Hist3LOK.take {le : ID → ID → Bool} {w : World} {hist : List (Orc × Op)} (h : Hist3LOK le w hist) (n : Nat) :
    Hist3LOK le w (hist.take n) := by
  induction hist generalizing w n with
  | nil => simp [Hist3LOK]
  | cons p r ih =>
    obtain ⟨o, op⟩ := p
    cases n with
    | zero => trivial
    | succ n => exact ⟨h.1, ih h.2 n⟩

theorem linked_hist {c : Codec} (le : ID → ID → Bool) (hist : List (Orc × Op)) (w : World) (g : G3) (hw : WInv c w)
    (hk : Knows w g) (hl : Linked w g) (hok : Hist3OK le w hist) (hlok : Hist3LOK le w hist) :
    WInv c (runK le w g hist).1 ∧ Knows (runK le w g hist).1 (runK le w g hist).2 ∧
    Linked (runK le w g hist).1 (runK le w g hist).2 := by
  induction hist generalizing w g with
  | nil => exact ⟨hw, hk, hl⟩
  | cons p r ih =>
    obtain ⟨o, op⟩ := p
    obtain ⟨h1, h2, h3, h4⟩ := hok
    obtain ⟨l1, l2⟩ := hlok
    exact ih _ _ (step_inv le w o op hw h1 h2) (knows_step le w o op hw hk h1 h2 h3)
      (linked_step le w o op hw hk hl h1 h2 h3 l1) h4 l2

/-- **the jar/ghost link at the end of every history** (hence at every boundary: `linked_every_boundary`). From the empty
world with any configuration whose cache is enabled and any cookie template, and the empty ghost, after every history
satisfying `Hist3OK` in which requests are closed before the next one starts (`Hist3LOK`): `WInv`, `Knows` and
`Linked` hold. -/
theorem linked_all_histories (le : ID → ID → Bool) (cfg : Cfg) (ck : CookieCfg) (hm : cfg.maxCache ≠ 0) (hist : List (Orc × Op))
    (hok : Hist3OK le { cfg := cfg, ck := ck } hist) (hlok : Hist3LOK le { cfg := cfg, ck := ck } hist) :
    WInv cfg.codec (runK le { cfg := cfg, ck := ck } {} hist).1 ∧
    Knows (runK le { cfg := cfg, ck := ck } {} hist).1 (runK le { cfg := cfg, ck := ck } {} hist).2 ∧
    Linked (runK le { cfg := cfg, ck := ck } {} hist).1 (runK le { cfg := cfg, ck := ck } {} hist).2 :=
  linked_hist le hist _ _ (init_winv cfg ck) (knows_init cfg ck hm) (linked_init cfg ck) hok hlok

theorem linked_every_boundary (le : ID → ID → Bool) (cfg : Cfg) (ck : CookieCfg) (hm : cfg.maxCache ≠ 0) (hist : List (Orc × Op))
    (hok : Hist3OK le { cfg := cfg, ck := ck } hist) (hlok : Hist3LOK le { cfg := cfg, ck := ck } hist) (n : Nat) :
    WInv cfg.codec (runK le { cfg := cfg, ck := ck } {} (hist.take n)).1 ∧
    Knows (runK le { cfg := cfg, ck := ck } {} (hist.take n)).1 (runK le { cfg := cfg, ck := ck } {} (hist.take n)).2 ∧
    Linked (runK le { cfg := cfg, ck := ck } {} (hist.take n)).1 (runK le { cfg := cfg, ck := ck } {} (hist.take n)).2 :=
  linked_all_histories le cfg ck hm _ (hok.take n) (hlok.take n)

/-- between requests `Linked` is `Link3`. -/
theorem link3_between_requests {w : World} {g : G3} (hl : Linked w g) (hr : w.inReq = false) : Link3 w g := by
  intro c j t hj hc
  rcases hl.rest c j t hj hc with ⟨h1, _⟩ | h
  · rw [hr] at h1; cases h1
  · exact h

/-- **C03, an active session is kept (client level; full sessions).** At a boundary between requests of a history as
in `linked_all_histories`: a client whose last request sending its cookie was given a session at `t`, and who sends its
cookie again less than `SessionExpiry` after `t` (as the codec keeps it; address/User-Agent tests switched off), is
answered with `sess` and given the session its jar points to — the object found under the jar's id, same user, same
data — however often that session was evicted, idle-swept, purged and re-loaded in between. (The case where the jar's id
is a reference record left by an id rotation is `c03_active_kept_id` / C05's subject; `ref = none` is assumed here.) -/
theorem c03_active_kept_client (le : ID → ID → Bool) (cfg : Cfg) (ck : CookieCfg) (hm : cfg.maxCache ≠ 0) (hist : List (Orc × Op))
    (hok : Hist3OK le { cfg := cfg, ck := ck } hist) (hlok : Hist3LOK le { cfg := cfg, ck := ck } hist)
    (hr : (runK le { cfg := cfg, ck := ck } {} hist).1.inReq = false)
    (orc : Orc) (ho : OrcOK orc) (client : String) (ip ua : String) (create : Bool) {j : ID} {t : Int}
    (hj : lookup client (runK le { cfg := cfg, ck := ck } {} hist).1.jars = some j)
    (hlast : lookup client (runK le { cfg := cfg, ck := ck } {} hist).2.lastOK = some t)
    (hfresh : (runK le { cfg := cfg, ck := ck } {} hist).1.st.now -
      truncC (runK le { cfg := cfg, ck := ck } {} hist).1.cfg.codec t < (runK le { cfg := cfg, ck := ck } {} hist).1.cfg.sessionExpiry)
    (hacc : AcceptAll (runK le { cfg := cfg, ck := ck } {} hist).1.cfg)
    {s1 : State} {h : Nat} {e1 : List Ev}
    (hg : cacheGet (runK le { cfg := cfg, ck := ck } {} hist).1.cfg (orcSt (runK le { cfg := cfg, ck := ck } {} hist).1 orc) j =
      (s1, .some h, e1))
    (href : (s1.obj h).ref = none) :
    ((runK le { cfg := cfg, ck := ck } {} hist).1.step le orc (.req client .jar ip ua create)).2.ret = some (.str "sess") ∧
    ((runK le { cfg := cfg, ck := ck } {} hist).1.step le orc (.req client .jar ip ua create)).1.cur = some h ∧
    (((runK le { cfg := cfg, ck := ck } {} hist).1.step le orc (.req client .jar ip ua create)).1.st.obj h).user = (s1.obj h).user ∧
    (((runK le { cfg := cfg, ck := ck } {} hist).1.step le orc (.req client .jar ip ua create)).1.st.obj h).data = (s1.obj h).data := by
  obtain ⟨hw, hk, hl⟩ := linked_all_histories le cfg ck hm hist hok hlok
  exact c03_active_kept_partial le _ orc hw hk (link3_between_requests hl hr) ho client ip ua create hj hlast hfresh hacc hg href

/-- **C03, `c03_active_kept` (client level, sessions proper and reference records).** At a boundary between requests of
a history as in `linked_all_histories` (cache enabled throughout, no cache loss, time forward, requests closed by
`endReq`; otherwise arbitrary: evictions by other clients' traffic, idle sweeps, `PurgeSessions`, `maxCache` changed
between non-zero values, every value of the durations, rotations, user-wide `LogOut`/`RefreshUser`): let client `c`'s
last request sending its cookie have been given a session at `t` (`lastOK`), and let `c` send its cookie `j` again less
than `SessionExpiry` after `t` (as the codec keeps it: JSON drops the sub-second part). If the session is live — from
`j` a chain of reference records of any length, none when `j` is the current id, leads to a session proper — the
address/User-Agent tests are off, and the id back-stop does not fire on a reference record found under `j`, then the
request is answered with `sess` and given a session proper: an active session is never expired, however often it was
evicted and re-loaded in between. -/
theorem c03_active_kept (le : ID → ID → Bool) (cfg : Cfg) (ck : CookieCfg) (hm : cfg.maxCache ≠ 0) (hist : List (Orc × Op))
    (hok : Hist3OK le { cfg := cfg, ck := ck } hist) (hlok : Hist3LOK le { cfg := cfg, ck := ck } hist)
    (hr : (runK le { cfg := cfg, ck := ck } {} hist).1.inReq = false)
    (orc : Orc) (ho : OrcOK orc) (client : String) (ip ua : String) (create : Bool) {j : ID} {t : Int}
    (hj : lookup client (runK le { cfg := cfg, ck := ck } {} hist).1.jars = some j)
    (hlast : lookup client (runK le { cfg := cfg, ck := ck } {} hist).2.lastOK = some t)
    (hfresh : (runK le { cfg := cfg, ck := ck } {} hist).1.st.now -
      truncC (runK le { cfg := cfg, ck := ck } {} hist).1.cfg.codec t < (runK le { cfg := cfg, ck := ck } {} hist).1.cfg.sessionExpiry)
    (hacc : AcceptAll (runK le { cfg := cfg, ck := ck } {} hist).1.cfg)
    {o : Sess} (hobj : More.PresObj (orcSt (runK le { cfg := cfg, ck := ck } {} hist).1 orc) j o)
    {l : List ID} {cur : ID} (hlive : More.Leads (orcSt (runK le { cfg := cfg, ck := ck } {} hist).1 orc) j l cur)
    (hback : o.ref ≠ none →
      ¬ (since (runK le { cfg := cfg, ck := ck } {} hist).1.st.now o.created ≥ (runK le { cfg := cfg, ck := ck } {} hist).1.cfg.idExpiry ∧
         since (runK le { cfg := cfg, ck := ck } {} hist).1.st.now o.created - (runK le { cfg := cfg, ck := ck } {} hist).1.cfg.idExpiry ≥
           (runK le { cfg := cfg, ck := ck } {} hist).1.cfg.grace)) :
    ((runK le { cfg := cfg, ck := ck } {} hist).1.step le orc (.req client .jar ip ua create)).2.ret = some (.str "sess") ∧
    ∃ h, ((runK le { cfg := cfg, ck := ck } {} hist).1.step le orc (.req client .jar ip ua create)).1.cur = some h ∧
      (((runK le { cfg := cfg, ck := ck } {} hist).1.step le orc (.req client .jar ip ua create)).1.st.obj h).ref = none := by
  obtain ⟨hw, hk, hl⟩ := linked_all_histories le cfg ck hm hist hok hlok
  have hw3 : More.WInv3 cfg.codec (runK le { cfg := cfg, ck := ck } {} hist).1 := by
    rw [runK_fst]; exact More.i3_all_histories le cfg ck hist hok.histOK
  obtain ⟨t', hs, hle⟩ := link3_between_requests hl hr client j t hj hlast
  have hp : presentedOf (runK le { cfg := cfg, ck := ck } {} hist).1 client .jar = some (j, 24) := by
    show (lookup client (runK le { cfg := cfg, ck := ck } {} hist).1.jars).map (fun id => (id, 24)) = _
    rw [hj]; rfl
  have hmono := truncC_mono (runK le { cfg := cfg, ck := ck } {} hist).1.cfg.codec hle
  exact c03_active_kept_id le _ orc hw3 hk ho client .jar ip ua create hp hs (by omega) hacc hobj hlive hback

/-! ### checkers -/

theorem l3_finW_inReq (w : World) : (finW w).inReq = w.inReq := by unfold finW; split <;> rfl

/-- outside a request nothing but `.req` opens one. -/
theorem l3_step_inReq (le : ID → ID → Bool) (w : World) (orc : Orc) (op : Op) (hr : w.inReq = false)
    (hne : ∀ client spec ip ua create, op ≠ .req client spec ip ua create) : (w.step le orc op).1.inReq = false := by
  by_cases hsk : w.skip = true
  · by_cases he : op = .endReq
    · subst he
      unfold World.step
      simp only [Bool.not_true, Bool.and_false, Bool.false_eq_true, if_false, finish_fst, l3_finW_inReq]
    · rw [step_skip le w orc op hsk he]; exact hr
  · have hsk' : w.skip = false := by simpa using hsk
    unfold World.step
    cases op with
    | req client spec ip ua create => exact absurd rfl (hne client spec ip ua create)
    | h hop =>
      simp only [hsk', Bool.false_and, Bool.false_eq_true, if_false]
      cases w.cur with
      | none => exact hr
      | some h => simp only [apiCall_inReq]; exact hr
    | _ => simp only [hsk', Bool.false_and, Bool.false_eq_true, if_false, finish_fst, l3_finW_inReq, apiCall_inReq, hr]

theorem l3_step_endReq_inReq (le : ID → ID → Bool) (w : World) (orc : Orc) : (w.step le orc .endReq).1.inReq = false := by
  unfold World.step
  simp only [Bool.not_true, Bool.and_false, Bool.false_eq_true, if_false, finish_fst, l3_finW_inReq]

/-- syntactic sufficient condition for `Hist3LOK`: requests are bracketed (the Boolean says whether one is open). -/
def synt3LB : Bool → List (Orc × Op) → Bool
  | _, [] => true
  | q, (_, op) :: r =>
    match op with
    | .req _ _ _ _ _ => !q && synt3LB true r
    | .endReq => synt3LB false r
    | _ => synt3LB q r

theorem hist3LOK_of_synt (le : ID → ID → Bool) (hist : List (Orc × Op)) (w : World) (q : Bool)
    (h : synt3LB q hist = true) (hq : q = false → w.inReq = false) : Hist3LOK le w hist := by
  induction hist generalizing w q with
  | nil => trivial
  | cons p r ih =>
    obtain ⟨o, op⟩ := p
    have hkeep : ∀ (_ : ∀ client spec ip ua create, op ≠ .req client spec ip ua create),
        q = false → (w.step le o op).1.inReq = false := fun hne hb => l3_step_inReq le w o op (hq hb) hne
    cases op with
    | req client spec ip ua create =>
      simp only [synt3LB, Bool.and_eq_true, Bool.not_eq_true'] at h
      exact ⟨hq h.1, ih _ true h.2 (by intro hb; cases hb)⟩
    | endReq => exact ⟨trivial, ih _ false h (fun _ => l3_step_endReq_inReq le w o)⟩
    | codec c => exact ⟨trivial, ih _ q h (hkeep (by intros; simp))⟩
    | cfg n v => exact ⟨trivial, ih _ q h (hkeep (by intros; simp))⟩
    | cookiecfg ck => exact ⟨trivial, ih _ q h (hkeep (by intros; simp))⟩
    | wait d => exact ⟨trivial, ih _ q h (hkeep (by intros; simp))⟩
    | stale uid id => exact ⟨trivial, ih _ q h (hkeep (by intros; simp))⟩
    | crashinside k => exact ⟨trivial, ih _ q h (hkeep (by intros; simp))⟩
    | h hop => exact ⟨trivial, ih _ q h (hkeep (by intros; simp))⟩
    | logoutUser uid => exact ⟨trivial, ih _ q h (hkeep (by intros; simp))⟩
    | refresh uid => exact ⟨trivial, ih _ q h (hkeep (by intros; simp))⟩
    | purge => exact ⟨trivial, ih _ q h (hkeep (by intros; simp))⟩
    | dropcache => exact ⟨trivial, ih _ q h (hkeep (by intros; simp))⟩
    | expiredRec id => exact ⟨trivial, ih _ q h (hkeep (by intros; simp))⟩
    | crash => exact ⟨trivial, ih _ q h (hkeep (by intros; simp))⟩
    | fault => exact ⟨trivial, ih _ q h (hkeep (by intros; simp))⟩

def op3LOKb (w : World) : Op → Bool
  | .req _ _ _ _ _ => !w.inReq
  | _ => true

def hist3LOKb (le : ID → ID → Bool) (w : World) : List (Orc × Op) → Bool
  | [] => true
  | (o, op) :: r => op3LOKb w op && hist3LOKb le (w.step le o op).1 r

/-- Boolean version of `Linked` (the `flight` clause for the world's own cookie template). -/
def linkedB (w : World) (g : G3) : Bool :=
  let le (j : ID) (t : Int) : Bool := match lookup j g.served with | some t' => decide (t ≤ t') | none => false
  g.lastOK.all (fun p => g.served.any (fun q => decide (p.2 ≤ q.2))) &&
  (w.inReq || w.respCookies.isEmpty) &&
  w.jars.all (fun p => match lookup p.1 g.lastOK with
    | none => true
    | some t => (w.inReq && p.1 == w.client) || le p.2 t) &&
  (!w.inReq || match lookup w.client g.lastOK, applyCookies w.ck (lookup w.client w.jars) w.respCookies with
    | some t, some j => le j t
    | _, _ => true)

/-! ## 7. non-vacuity, and `Op3LOK` is needed -/

theorem c03_script_lok (c : Codec) : Hist3LOK idLe { cfg := c03_cfg c } c03_script :=
  hist3LOK_of_synt idLe c03_script _ false (by decide) (fun _ => rfl)

/-- the theorem applies to `c03_script` (both codecs), at the end and at every boundary. -/
example (c : Codec) : Linked (runK idLe { cfg := c03_cfg c } {} c03_script).1 (runK idLe { cfg := c03_cfg c } {} c03_script).2 :=
  (linked_all_histories idLe (c03_cfg c) {} (by cases c <;> decide) c03_script (c03_script_ok c) (c03_script_lok c)).2.2
example (c : Codec) (n : Nat) :
    Linked (runK idLe { cfg := c03_cfg c } {} (c03_script.take n)).1 (runK idLe { cfg := c03_cfg c } {} (c03_script.take n)).2 :=
  (linked_every_boundary idLe (c03_cfg c) {} (by cases c <;> decide) c03_script (c03_script_ok c) (c03_script_lok c) n).2.2
/-- … and between requests that is `Link3`, e.g. before the last request of client `a` (step 27). -/
example (c : Codec) (hr : (runK idLe { cfg := c03_cfg c } {} (c03_script.take 27)).1.inReq = false) :
    Link3 (runK idLe { cfg := c03_cfg c } {} (c03_script.take 27)).1 (runK idLe { cfg := c03_cfg c } {} (c03_script.take 27)).2 :=
  link3_between_requests
    (linked_every_boundary idLe (c03_cfg c) {} (by cases c <;> decide) c03_script (c03_script_ok c) (c03_script_lok c) 27).2.2 hr

#guard hist3LOKb idLe { cfg := c03_cfg .gob } c03_script
#guard [Codec.gob, Codec.json].all (fun c => (List.range 30).all (fun n =>
  linkedB (runK idLe { cfg := c03_cfg c } {} (c03_script.take n)).1 (runK idLe { cfg := c03_cfg c } {} (c03_script.take n)).2))
#guard !(runK idLe { cfg := c03_cfg .gob } {} (c03_script.take 27)).1.inReq
-- in mid-request 17 (rotation) the jar still holds the replaced id; the pending cookie carries the new one
#guard (runK idLe { cfg := c03_cfg .gob } {} (c03_script.take 18)).1.respCookies == [.setCookie (.gen 3)] &&
  lookup "a" (runK idLe { cfg := c03_cfg .gob } {} (c03_script.take 18)).1.jars == some (.gen 0)

/-- **`Op3LOK` is needed**: client `a`'s request rotates the id (`gen 0 ↦ gen 1`) and is abandoned — the next request
starts without an `endReq`, the response with the new cookie is dropped. The jar of `a` still holds `gen 0`, served
long ago, while `lastOK a` is the time of the abandoned request: `Link3` is false. (Client `a` would in fact still be
served, through the reference record left under `gen 0` — that is C05 —, but not by virtue of this link.) The history
satisfies everything but `Op3LOK`. -/
def c03_abandoned_script : List (Orc × Op) :=
  [ ({}, .req "a" .none "1.2.3.4:5" "ua" true), ({}, .endReq),
    ({}, .cfg "idExpiry" 1),
    ({}, .wait (4 * sec)),
    ({}, .req "a" .jar "1.2.3.4:5" "ua" false),                    -- rotated, never ended
    ({}, .req "b" .none "5.6.7.8:9" "ub" true), ({}, .endReq) ]

#guard hist3OKb idLe { cfg := c03_cfg .gob } c03_abandoned_script && !hist3LOKb idLe { cfg := c03_cfg .gob } c03_abandoned_script
#guard !(runK idLe { cfg := c03_cfg .gob } {} c03_abandoned_script).1.inReq &&
  !linkB (runK idLe { cfg := c03_cfg .gob } {} c03_abandoned_script).1 (runK idLe { cfg := c03_cfg .gob } {} c03_abandoned_script).2
#guard lookup "a" (runK idLe { cfg := c03_cfg .gob } {} c03_abandoned_script).1.jars == some (.gen 0) &&
  lookup (.gen 0) (runK idLe { cfg := c03_cfg .gob } {} c03_abandoned_script).2.served == some 0 &&
  lookup "a" (runK idLe { cfg := c03_cfg .gob } {} c03_abandoned_script).2.lastOK == some (4 * sec + 1)

end Sx.Glob
