import Sessions.Proofs.Global.Faulty11Ops
/-!
# C11 / C09 with store faults — histories
-/
namespace Sx.Glob

/-! ## 1. the structural invariant at every boundary of every history, whatever the oracles -/

/-- The world-level structural invariant. Unlike `WInv` it holds at EVERY boundary — also between a crash inside a call
and the restart — because nothing in it refers to coherence. -/
structure WSInv (c : Codec) (w : World) : Prop where
  codec : w.cfg.codec = c
  inv : SInv c w.st
  /-- the handle `Start` gave the request in flight is allocated -/
  cur : ∀ h, w.cur = some h → h < w.st.heap.length

/-- `OpOK` without `NoFail` and without `SoleObject`: the only side condition the structural invariant needs is that the
codec is not switched in mid-history (stored records stay encodings of the history's codec; `codec_switch_breaks_norm`). -/
def OpOKs : Op → Prop
  | .codec _ => False
  | _ => True

theorem init_wsinv (cfg : Cfg) (ck : CookieCfg) : WSInv cfg.codec { cfg := cfg, ck := ck } :=
  ⟨rfl, sinv_init _, by intro h hh; simp at hh⟩

/-! ### time -/

theorem bgDelete_sinv {c : Codec} {s : State} (hi : SInv c s) (id : ID) : SInv c (bgDelete s id) :=
  ((hi.cacheErase id).store _ (hi.sok.del id)).congr rfl rfl rfl rfl rfl

theorem advance_sinv {c : Codec} (s : State) (d : Int) (hi : SInv c s) : SInv c (advance s d).1 := by
  apply advance_ind (SInv c)
  · intro tm htm; exact hi.timers tm (fun t id hm => hi.tkeys t id (htm _ hm))
  · intro s' id h; exact bgDelete_sinv h id
  · intro s' t h; exact h.congr rfl rfl rfl rfl rfl

theorem advance_heap (s : State) (d : Int) : (advance s d).1.heap = s.heap := by
  apply advance_ind (fun s' => s'.heap = s.heap)
  · intro tm _; rfl
  · intro s' id h; exact h
  · intro s' t h; exact h

theorem advance_nextId (s : State) (d : Int) : (advance s d).1.nextId = s.nextId := by
  apply advance_ind (fun s' => s'.nextId = s.nextId)
  · intro tm _; rfl
  · intro s' id h; exact h
  · intro s' t h; exact h

/-! ### restart, one API call -/

theorem crashState_sinv {c : Codec} {s : State} (hi : SInv c s) : SInv c (crashState s) :=
  (hi.cacheNil.timers [] (by intro _ _ h; simp at h)).congr rfl rfl rfl rfl rfl

theorem finW_wsinv {c : Codec} {w : World} (hw : WSInv c w) : WSInv c (finW w) := by
  unfold finW
  split
  · exact ⟨hw.codec, crashState_sinv hw.inv, hw.cur⟩
  · exact hw

/-- the state after the call and a possible crash point keeps `SInv` -/
theorem apiMid_sinv {c : Codec} (w : World) (s1 : State) (evs : List Ev) (hs : SOK c w.st.nextId w.st.store)
    (hm : SInv c s1) (hn : w.st.nextId ≤ s1.nextId) (he : EvsOK c s1.nextId evs) : SInv c (apiMid w s1 evs) := by
  unfold apiMid
  cases apiFrz w evs with
  | none => exact hm.congr rfl rfl rfl rfl rfl
  | some k =>
    have hs' : SOK c s1.nextId (((apiMuts evs).take k).foldl applyMut w.st.store) :=
      applyMut_sok _ _ (hs.mono hn) (fun e he' => he e (apiMuts_sub he'))
    exact ((hm.store _ hs').timers [] (by intro _ _ h; simp at h)).congr rfl rfl rfl rfl rfl

theorem apiMid_heap (w : World) (s1 : State) (evs : List Ev) : (apiMid w s1 evs).heap = s1.heap := by
  unfold apiMid; cases apiFrz w evs <;> rfl

/-- one API call keeps the structural invariant, whatever the oracle, crash point or not. -/
theorem apiCall_wsinv {c : Codec} (w : World) (orc : Orc) (run : State → State × RetV × Option String × List Ev) (b : Bool)
    (hcodec : w.cfg.codec = c) (hinv : SInv c w.st)
    (hrun : SMono c (orcSt w orc) (run (orcSt w orc)).1 (run (orcSt w orc)).2.2.2)
    (hcur : ∀ h, w.cur = some h → h < (run (orcSt w orc)).1.heap.length) :
    WSInv c (apiCall w orc run b).1 := by
  rw [apiCall_fst]
  refine ⟨hcodec, ?_, ?_⟩
  · exact advance_sinv _ 1 (apiMid_sinv w _ _ hinv.sok hrun.inv hrun.next hrun.evs)
  · intro h hh
    show h < (advance _ 1).1.heap.length
    rw [advance_heap, apiMid_heap]
    exact hcur h hh

/-- … in particular when the call does not change `cur`: the handle stays allocated because objects are only allocated. -/
theorem apiCall_wsinv' {c : Codec} (w : World) (orc : Orc) (run : State → State × RetV × Option String × List Ev) (b : Bool)
    (hw : WSInv c w)
    (hrun : SMono c (orcSt w orc) (run (orcSt w orc)).1 (run (orcSt w orc)).2.2.2) :
    WSInv c (apiCall w orc run b).1 :=
  apiCall_wsinv w orc run b hw.codec hw.inv hrun (fun h hh => Nat.lt_of_lt_of_le (hw.cur h hh) hrun.len)

theorem fin_api_s {c : Codec} (w : World) (orc : Orc) (run : State → State × RetV × Option String × List Ev) (b : Bool)
    (hw : WSInv c w)
    (hrun : SMono c (orcSt w orc) (run (orcSt w orc)).1 (run (orcSt w orc)).2.2.2) :
    WSInv c (finish (apiCall w orc run b).1 (apiCall w orc run b).2).1 := by
  rw [finish_fst]; exact finW_wsinv (apiCall_wsinv' w orc run b hw hrun)

/-! ### one step -/

/-- **`sinv_step`.** Every `World.step` — every `Op` but a codec switch, every fault oracle `orc.fails`, every order oracle
`orc.picks`, every presented cookie, every configuration value, crash points included — keeps the structural invariant.
No condition on `picks` is needed (`orderBy` only permutes cache entries), none on requests. -/
theorem sinv_step {c : Codec} (le : ID → ID → Bool) (w : World) (orc : Orc) (op : Op) (hw : WSInv c w) (hopk : OpOKs op) :
    WSInv c (w.step le orc op).1 := by
  by_cases hsk : w.skip = true
  · by_cases he : op = .endReq
    · subst he
      unfold World.step
      simp only [Bool.not_true, Bool.and_false, Bool.false_eq_true, if_false, finish_fst]
      exact finW_wsinv ⟨hw.codec, hw.inv, by intro h hh; simp at hh⟩
    · rw [step_skip le w orc op hsk he]; exact hw
  · have hsk' : w.skip = false := by simpa using hsk
    have hcd := hw.codec
    subst hcd
    have hi0 : SInv w.cfg.codec (orcSt w orc) := hw.inv.congr rfl rfl rfl rfl rfl
    unfold World.step
    cases op with
    | codec c' => exact absurd hopk (by simp [OpOKs])
    | cfg n v =>
      simp only [hsk', Bool.false_and, Bool.false_eq_true, if_false, finish_fst]
      exact finW_wsinv ⟨setCfg_codec w.cfg n v, hw.inv, hw.cur⟩
    | cookiecfg ck =>
      simp only [hsk', Bool.false_and, Bool.false_eq_true, if_false, finish_fst]
      exact finW_wsinv ⟨rfl, hw.inv, hw.cur⟩
    | fault =>
      simp only [hsk', Bool.false_and, Bool.false_eq_true, if_false, finish_fst]
      exact finW_wsinv hw
    | stale uid id =>
      simp only [hsk', Bool.false_and, Bool.false_eq_true, if_false, finish_fst]
      exact finW_wsinv ⟨rfl, hw.inv.congr rfl rfl rfl rfl rfl, hw.cur⟩
    | crashinside k =>
      simp only [hsk', Bool.false_and, Bool.false_eq_true, if_false, finish_fst]
      exact finW_wsinv ⟨rfl, hw.inv, hw.cur⟩
    | wait d =>
      simp only [hsk', Bool.false_and, Bool.false_eq_true, if_false, finish_fst]
      exact finW_wsinv ⟨rfl, advance_sinv w.st d hw.inv, fun h hh => by
        show h < (advance w.st d).1.heap.length
        rw [advance_heap]; exact hw.cur h hh⟩
    | dropcache =>
      simp only [hsk', Bool.false_and, Bool.false_eq_true, if_false, finish_fst]
      exact finW_wsinv ⟨rfl, hw.inv.cacheNil, hw.cur⟩
    | crash =>
      simp only [hsk', Bool.false_and, Bool.false_eq_true, if_false, finish_fst]
      exact finW_wsinv ⟨rfl, hw.inv, hw.cur⟩
    | expiredRec id =>
      simp only [hsk', Bool.false_and, Bool.false_eq_true, if_false, finish_fst]
      exact finW_wsinv hw
    | purge =>
      simp only [hsk', Bool.false_and, Bool.false_eq_true, if_false]
      exact fin_api_s w orc _ false hw (purge_smono w.cfg hi0)
    | logoutUser uid =>
      simp only [hsk', Bool.false_and, Bool.false_eq_true, if_false]
      exact fin_api_s w orc _ false hw (logoutUser_smono w.cfg le hi0 uid)
    | refresh uid =>
      simp only [hsk', Bool.false_and, Bool.false_eq_true, if_false]
      exact fin_api_s w orc _ false hw (refreshUser_smono w.cfg le hi0 uid)
    | endReq =>
      simp only [hsk', Bool.false_and, Bool.false_eq_true, if_false, finish_fst]
      exact finW_wsinv ⟨rfl, hw.inv, by intro h hh; simp at hh⟩
    | req client spec ip ua create =>
      simp only [hsk', Bool.false_and, Bool.false_eq_true, if_false]
      generalize ({ cookie := _, cookieLen := _, ip := ip, ua := ua, create := create } : Req) = r
      obtain ⟨hS, hSv⟩ := start_smono w.cfg hi0 r
      refine apiCall_wsinv _ orc _ true rfl hw.inv hS ?_
      · intro h hh
        simp only at hh
        split at hh
        · rename_i h' hres
          simp only [Option.some.injEq] at hh
          rw [← hh]; exact hSv h' hres
        · simp at hh
    | h hop =>
      simp only [hsk', Bool.false_and, Bool.false_eq_true, if_false]
      cases hc : w.cur with
      | none => exact hw
      | some h =>
        simp only []
        have hv : h < (orcSt w orc).heap.length := hw.cur h hc
        apply apiCall_wsinv' w orc _ true hw
        cases hop with
        | set k v => exact hset_smono w.cfg hi0 h hv k v
        | del k => exact hdel_smono w.cfg hi0 h hv k
        | get k => exact SMono.refl hi0
        | getdel k => exact hgetdel_smono w.cfg hi0 h hv k
        | login uid excl => exact hlogin_smono w.cfg le hi0 h hv uid excl
        | logout => exact hlogout_smono w.cfg hi0 h hv
        | regen => exact regenerate_smono w.cfg hi0 h hv
        | destroy => exact destroy_smono hi0 h w.hasCookie
        | expired => exact SMono.refl hi0
        | lastaccess => exact SMono.refl hi0
        | user => exact SMono.refl hi0

/-! ### all histories -/

/-- the side condition of a history for the structural invariant: no codec switch. Nothing is asked of the oracles
(any `fails`, any `picks`), of the cookies presented, of crash points, of `LogOut(uid)`/`RefreshUser` placement. -/
def HistOKs (hist : List (Orc × Op)) : Prop := ∀ p ∈ hist, OpOKs p.2

def opOKsB : Op → Bool
  | .codec _ => false
  | _ => true

theorem opOKs_of_b {op : Op} (h : opOKsB op = true) : OpOKs op := by
  cases op <;> first | trivial | simp [opOKsB] at h

theorem histOKs_of_b {hist : List (Orc × Op)} (h : hist.all (fun p => opOKsB p.2) = true) : HistOKs hist := by
  intro p hp; exact opOKs_of_b (List.all_eq_true.mp h p hp)

theorem HistOKs.take {hist : List (Orc × Op)} (h : HistOKs hist) (n : Nat) : HistOKs (hist.take n) :=
  fun p hp => h p (List.mem_of_mem_take hp)

theorem sinv_hist {c : Codec} (le : ID → ID → Bool) (hist : List (Orc × Op)) (w : World) (hw : WSInv c w)
    (hok : HistOKs hist) : WSInv c (runHist le w hist) := by
  induction hist generalizing w with
  | nil => exact hw
  | cons p r ih =>
    obtain ⟨o, op⟩ := p
    exact ih _ (sinv_step le w o op hw (hok (o, op) List.mem_cons_self)) (fun q hq => hok q (List.mem_cons_of_mem _ hq))

/-- **`sinv_all_histories`.** From the empty world with any configuration and cookie template, after EVERY history that
does not switch the codec — every fault oracle (any number of failing loads, saves, deletes, user look-ups, user
listings, anywhere), every order oracle, crash points, crashes, cache drops, purges, stale user-index entries, any
presented cookies — the structural invariant holds. Every `Sx.Loc` theorem whose hypotheses are structural (handle
allocated, `gen nextId` unused, …) therefore applies at every boundary of every history WITH faults. -/
theorem sinv_all_histories (le : ID → ID → Bool) (cfg : Cfg) (ck : CookieCfg) (hist : List (Orc × Op)) (hok : HistOKs hist) :
    WSInv cfg.codec (runHist le { cfg := cfg, ck := ck } hist) :=
  sinv_hist le hist _ (init_wsinv cfg ck) hok

theorem sinv_every_boundary (le : ID → ID → Bool) (cfg : Cfg) (ck : CookieCfg) (hist : List (Orc × Op)) (hok : HistOKs hist)
    (n : Nat) : WSInv cfg.codec (runHist le { cfg := cfg, ck := ck } (hist.take n)) :=
  sinv_all_histories le cfg ck _ (hok.take n)

/-- `SInv` spelled out. -/
theorem SInv.spelled_out {c : Codec} {s : State} (hi : SInv c s) :
    (keys s.cache).Nodup ∧ (keys s.store).Nodup ∧
    (∀ id h, (id, h) ∈ s.cache → h < s.heap.length ∧ ∃ n, id = .gen n ∧ n < s.nextId) ∧
    (∀ h, h < s.heap.length → (∃ n, (s.obj h).id = .gen n ∧ n < s.nextId) ∧
      ∀ t, (s.obj h).ref = some t → ∃ n, t = .gen n ∧ n < s.nextId) ∧
    (∀ id r, (id, r) ∈ s.store →
      (∃ n, id = .gen n ∧ n < s.nextId) ∧ (∀ t, r.ref = some t → ∃ n, t = .gen n ∧ n < s.nextId) ∧ ∃ o, r = enc c o) ∧
    (∀ t id, (t, id) ∈ s.timers → ∃ n, id = .gen n ∧ n < s.nextId) :=
  ⟨hi.cnodup, hi.sok.nodup, fun id h hm => ⟨hi.valid id h hm, hi.ckeys id h hm⟩,
   fun h hv => ⟨hi.hids h hv, hi.hrefs h hv⟩,
   fun id r hm => ⟨hi.sok.keys id r hm, hi.sok.refs id r hm, hi.sok.norm id r hm⟩, hi.tkeys⟩

/-! ### non-vacuity: a script with a failing save, a failing load, a failing delete, a failing user listing, a failing
rotation and a crash point -/

/-- 0 create `gen 0` · 1 `Set` whose save FAILS · 2 `Set` · 3 end · 4 drop the cache · 5 the cookie is presented and the
load FAILS · 6 end · 7 presented again, loaded · 8 `Destroy` whose delete FAILS · 9 `LogIn(u, exclusive)` whose user
listing FAILS · 10 `LogIn(u)` · (rotation to `gen 1`) · 11 `RegenerateID` whose first save FAILS · 12 end ·
13 a request · 14 `crashinside 1` · 15 a `Set` after whose save the process dies · 16 end (restart) -/
def fxScript : List (Orc × Op) :=
  [ ({}, .req "a" .none "1.2.3.4:5" "ua" true),
    ({ fails := [true] }, .h (.set "k" (.int 1))),
    ({}, .h (.set "k" (.int 2))),
    ({}, .endReq),
    ({}, .dropcache),
    ({ fails := [true] }, .req "a" .jar "1.2.3.4:5" "ua" false),
    ({}, .endReq),
    ({}, .req "a" .jar "1.2.3.4:5" "ua" false),
    ({ fails := [true] }, .h .destroy),
    ({ fails := [true] }, .h (.login "u" true)),
    ({}, .h (.login "u" false)),
    ({ fails := [true] }, .h .regen),
    ({}, .endReq),
    ({}, .req "a" .jar "1.2.3.4:5" "ua" false),
    ({}, .crashinside 1),
    ({}, .h (.set "z" (.int 3))),
    ({}, .endReq) ]

theorem fxScript_ok : HistOKs fxScript := histOKs_of_b (by decide)

example : WSInv .gob (runHist idLe {} fxScript) := sinv_all_histories idLe {} {} fxScript fxScript_ok
example (n : Nat) : WSInv .gob (runHist idLe {} (fxScript.take n)) := sinv_every_boundary idLe {} {} fxScript fxScript_ok n

/-- the events shown by step `n` of the script -/
def fxEvs (n : Nat) : List Ev :=
  match fxScript[n]? with
  | some (o, op) => ((runHist idLe {} (fxScript.take n)).step idLe o op).2.evs
  | none => []
def fxRet (n : Nat) : Option RetV :=
  match fxScript[n]? with
  | some (o, op) => ((runHist idLe {} (fxScript.take n)).step idLe o op).2.ret
  | none => none

#guard fxEvs 1 == [.saveFail (.gen 0)] && fxRet 1 == some (.str "err")          -- failing save: reported
#guard fxEvs 5 == [.loadFail (.gen 0)] && fxRet 5 == some (.str "err")          -- failing load: reported
#guard fxEvs 8 == [.delFail (.gen 0)] && fxRet 8 == some (.str "err")           -- failing delete: reported
#guard fxEvs 9 == [.usersFail "u"] && fxRet 9 == some (.str "err")              -- failing user listing: reported
#guard fxRet 10 == some (.str "ok") && (fxEvs 10).length == 3
#guard fxRet 11 == some (.str "err")                                            -- failing rotation: reported
#guard (runHist idLe {} (fxScript.take 16)).crashed && !(runHist idLe {} (fxScript.take 17)).crashed  -- the crash point struck

/-! ### `wf` ("the object cached under a key carries that key as its id") does NOT survive faults -/

/-- After step 11 (a `RegenerateID` whose first save failed) the session object carries the NEW id `gen 2` and is cached
(handle 1) under BOTH the old id `gen 1` and the new one: `Inv.wf` is false at a history boundary, and so is coherence (no record
under `gen 2`). `SInv` contains what is left. -/
def wfB (s : State) : Bool := s.cache.all (fun e => decide ((s.obj e.2).id = e.1))
#guard wfB (runHist idLe {} (fxScript.take 11)).st
#guard !wfB (runHist idLe {} (fxScript.take 12)).st
#guard (runHist idLe {} (fxScript.take 12)).st.cache == [(.gen 2, 1), (.gen 0, 2), (.gen 1, 1)]
#guard ((runHist idLe {} (fxScript.take 12)).st.obj 1).id == .gen 2
#guard (lookup (ID.gen 2) (runHist idLe {} (fxScript.take 12)).st.store).isNone

/-- the same at state level, checked by the kernel: `exS1` is the state after one creation -/
theorem wf_fails_under_faults :
    Inv .gob exS1 ∧
    (regenerate exCfg { exS1 with fails := [true] } 0).2.1 = false ∧
    (regenerate exCfg { exS1 with fails := [true] } 0).1.cache = [(.gen 1, 0), (.gen 0, 0)] ∧
    ((regenerate exCfg { exS1 with fails := [true] } 0).1.obj 0).id = .gen 1 := by
  refine ⟨exS1_ok.2.1, ?_, ?_, ?_⟩ <;> decide

/-! ### the hypothesis `OpOKs` (no codec switch): without it `SOK.norm` fails -/

/-- a gob record with a creation time that is no whole second is no JSON encoding -/
theorem codec_switch_breaks_norm : ¬ Norm .json (enc .gob { id := .gen 0, created := 1, lastAccess := 1 }) := by
  rintro ⟨o, ho⟩
  have h := congrArg Rec.created ho
  simp only [enc, truncSec] at h
  omega

/-- … and such a record is what a history that switches the codec after its first request has in its store. -/
def fxCodecScript : List (Orc × Op) := [ ({}, .wait 1), ({}, .req "a" .none "" "" true), ({}, .codec .json) ]
#guard ((runHist idLe {} fxCodecScript).st.store.map (fun e => e.2.created)) == [1]
#guard (runHist idLe {} fxCodecScript).cfg.codec == .json

end Sx.Glob
