import Sessions.Proofs.Global.Faulty11Ops
import Sessions.Proofs.Global.Own01
import Sessions.Proofs.Global.Faulty11Store
import Sessions.Proofs.Global.Faulty11Sim
/-!
# C11 "store failures are reported, never turned into silent loss or logout" and the fault side of C09
# — theorems over ALL histories, EVERY fault placement (namespace `Sx.Glob`)

Files: `Faulty11Ops` (structural invariant, every model function, every oracle), `Faulty11Store` (the store follows the
events, every oracle), `Faulty11Sim` (a run that shows no failure event is the fault-free run), this file (histories).

## the statements

* §1 **`sinv_step`, `sinv_all_histories`, `sinv_every_boundary`** — `WSInv` (= `SInv` of the state + codec + the request's
  handle is allocated) holds at every boundary of every history, for every `Orc` (any `fails`, any `picks`), every `Op`
  but a codec switch. Nothing is assumed of `picks`, of presented cookies, of `LogOut(uid)`/`RefreshUser` placement, of
  crash points. `SInv.spelled_out`. Finding: `Inv.wf` is NOT structural (`wf_fails_under_faults`, `wfB` guards).
* §2 **`c09_ack_saved_global`** (+ `c09_created_saved_global`, model level `hRun_ack_saved`, `createNew_ack_saved`,
  `hlogin_ok_saved'`) — at every boundary of every history with faults, a `Set`/`Delete`/`LogOut()`/`LogIn`/`RegenerateID`
  that answers `ok` has left, at the next boundary, the record under the session's id EQUAL to the encoding of the
  session object (`Saved`), whatever failed before: success of a changing call cleans its id.
* §3 (every state, every oracle) `start_failed_load_quiet` — a `Start` that shows a failed load returns an error, deletes
  nothing, sends no cookie, mints no id; `start_del_cases` — a `Start` that deletes found the object invalid or a
  reference past its grace; event classes `AllB isLoadFail/isDel/isCookie`, `SaveOnly`.
* §4 **`c11_no_silent_loss`** (a record in the store before a step is in the store after it unless the step's transcript
  shows a successful `.del k`/`.bg _ k`; no hypothesis at all), `c11_untouched`, **`c11_del_only_by_invalidation`** (only
  `Destroy` and an invalidating/back-stop `Start` ever show a successful delete, and such a `Start` shows no failed
  load), **`c11_failed_load_global`** (a request showing a failed load: `err`, no cookies, no delete, no session, no id
  minted). From `Faulty11Store`: **`store_follows_events`**, `step_store_follows_events`, `step_store_frozen`,
  `hist_store_follows_events`, **`c11_failed_call_changes_nothing`**.
* §5 **`cohf_all_histories_partial`**, `coh_lost_only_by_shown_fault`, `c09_untainted_crash_equiv` — the full fault-free
  invariant `WInv` (coherence, `wf`, handle invariant) holds at every boundary at which the one-bit ghost `taint` is
  off; `taint` is set only by a step whose output shows `faulted > 0` and cleared at the next boundary with an empty
  cache and no request session. §5.1 `pkScript`: the per-id version of this statement is FALSE in the model (and both
  the state-based and the ghost formulation fail on the same script); what a true per-id statement must add is spelled
  out at `cohf_all_histories_partial`.
* §6 non-vacuity on `fxScript` (oracles with `true`: failing save, load, delete, user listing, rotation; a crash point).

## hypotheses, each with its failing case

* `OpOKs`/`HistOKs` (no codec switch) for §1: `codec_switch_breaks_norm`, `fxCodecScript`.
* `c09_ack_saved_global`: `freezeAt = none` (`fxFreeze`), no clean-up of the id in `Out.bg` (`fxTimerW`, `fxTimerW_ok`);
  `ackSaves` only excludes `LogOut()` of a session without user, which saves nothing (`Loc.hlogout_none`).
* `HistOKf` = `OpOK` along the history (no codec switch; `SoleObject` for `LogOut(uid)`/`RefreshUser`) for §5: inherited
  from `Sx.step_inv`, failing cases `two_objects_break_coherence`, `badScript`, `badScript2` in `Inv/Examples.lean`.
* §3, §4: none (`c11_no_silent_loss`, `c11_del_only_by_invalidation`, `c11_failed_load_global` hold in every world).
-/
namespace Sx.Glob

/-! ## 1. the structural invariant at every boundary of every history, whatever the oracles -/

/-- The world-level structural invariant. Unlike `WInv` it holds at EVERY boundary — also between a crash inside a call
and the restart — because nothing in it refers to coherence. -/
structure WSInv (c : Codec) (w : World) : Prop where
  codec : w.cfg.codec = c
  inv : SInv c w.st
  /-- the handle `Start` gave the request in flight is allocated -/
  cur : ∀ h, w.cur = some h → h < w.st.heap.length

/-- `OpOK` without `NoFail` and without `SoleObject`: the only side condition the structural invariant needs is that the
codec is not switched in mid-history (stored records stay encodings of the history's codec; `codec_switch_breaks_norm`). -/
def OpOKs : Op → Prop
  | .codec _ => False
  | _ => True

theorem init_wsinv (cfg : Cfg) (ck : CookieCfg) : WSInv cfg.codec { cfg := cfg, ck := ck } :=
  ⟨rfl, sinv_init _, by intro h hh; simp at hh⟩

/-! ### time -/

theorem bgDelete_sinv {c : Codec} {s : State} (hi : SInv c s) (id : ID) : SInv c (bgDelete s id) :=
  ((hi.cacheErase id).store _ (hi.sok.del id)).congr rfl rfl rfl rfl rfl

theorem advance_sinv {c : Codec} (s : State) (d : Int) (hi : SInv c s) : SInv c (advance s d).1 := by
  apply advance_ind (SInv c)
  · intro tm htm; exact hi.timers tm (fun t id hm => hi.tkeys t id (htm _ hm))
  · intro s' id h; exact bgDelete_sinv h id
  · intro s' t h; exact h.congr rfl rfl rfl rfl rfl

theorem advance_heap (s : State) (d : Int) : (advance s d).1.heap = s.heap := by
  apply advance_ind (fun s' => s'.heap = s.heap)
  · intro tm _; rfl
  · intro s' id h; exact h
  · intro s' t h; exact h

theorem advance_nextId (s : State) (d : Int) : (advance s d).1.nextId = s.nextId := by
  apply advance_ind (fun s' => s'.nextId = s.nextId)
  · intro tm _; rfl
  · intro s' id h; exact h
  · intro s' t h; exact h

/-! ### restart, one API call -/

theorem crashState_sinv {c : Codec} {s : State} (hi : SInv c s) : SInv c (crashState s) :=
  (hi.cacheNil.timers [] (by intro _ _ h; simp at h)).congr rfl rfl rfl rfl rfl

theorem finW_wsinv {c : Codec} {w : World} (hw : WSInv c w) : WSInv c (finW w) := by
  unfold finW
  split
  · exact ⟨hw.codec, crashState_sinv hw.inv, hw.cur⟩
  · exact hw

/-- the state after the call and a possible crash point keeps `SInv` -/
theorem apiMid_sinv {c : Codec} (w : World) (s1 : State) (evs : List Ev) (hs : SOK c w.st.nextId w.st.store)
    (hm : SInv c s1) (hn : w.st.nextId ≤ s1.nextId) (he : EvsOK c s1.nextId evs) : SInv c (apiMid w s1 evs) := by
  unfold apiMid
  cases apiFrz w evs with
  | none => exact hm.congr rfl rfl rfl rfl rfl
  | some k =>
    have hs' : SOK c s1.nextId (((apiMuts evs).take k).foldl applyMut w.st.store) :=
      applyMut_sok _ _ (hs.mono hn) (fun e he' => he e (apiMuts_sub he'))
    exact ((hm.store _ hs').timers [] (by intro _ _ h; simp at h)).congr rfl rfl rfl rfl rfl

theorem apiMid_heap (w : World) (s1 : State) (evs : List Ev) : (apiMid w s1 evs).heap = s1.heap := by
  unfold apiMid; cases apiFrz w evs <;> rfl

/-- one API call keeps the structural invariant, whatever the oracle, crash point or not. -/
theorem apiCall_wsinv {c : Codec} (w : World) (orc : Orc) (run : State → State × RetV × Option String × List Ev) (b : Bool)
    (hcodec : w.cfg.codec = c) (hinv : SInv c w.st)
    (hrun : SMono c (orcSt w orc) (run (orcSt w orc)).1 (run (orcSt w orc)).2.2.2)
    (hcur : ∀ h, w.cur = some h → h < (run (orcSt w orc)).1.heap.length) :
    WSInv c (apiCall w orc run b).1 := by
  rw [apiCall_fst]
  refine ⟨hcodec, ?_, ?_⟩
  · exact advance_sinv _ 1 (apiMid_sinv w _ _ hinv.sok hrun.inv hrun.next hrun.evs)
  · intro h hh
    show h < (advance _ 1).1.heap.length
    rw [advance_heap, apiMid_heap]
    exact hcur h hh

/-- … in particular when the call does not change `cur`: the handle stays allocated because objects are only allocated. -/
theorem apiCall_wsinv' {c : Codec} (w : World) (orc : Orc) (run : State → State × RetV × Option String × List Ev) (b : Bool)
    (hw : WSInv c w)
    (hrun : SMono c (orcSt w orc) (run (orcSt w orc)).1 (run (orcSt w orc)).2.2.2) :
    WSInv c (apiCall w orc run b).1 :=
  apiCall_wsinv w orc run b hw.codec hw.inv hrun (fun h hh => Nat.lt_of_lt_of_le (hw.cur h hh) hrun.len)

theorem fin_api_s {c : Codec} (w : World) (orc : Orc) (run : State → State × RetV × Option String × List Ev) (b : Bool)
    (hw : WSInv c w)
    (hrun : SMono c (orcSt w orc) (run (orcSt w orc)).1 (run (orcSt w orc)).2.2.2) :
    WSInv c (finish (apiCall w orc run b).1 (apiCall w orc run b).2).1 := by
  rw [finish_fst]; exact finW_wsinv (apiCall_wsinv' w orc run b hw hrun)

/-! ### one step -/

/-- **`sinv_step`.** Every `World.step` — every `Op` but a codec switch, every fault oracle `orc.fails`, every order oracle
`orc.picks`, every presented cookie, every configuration value, crash points included — keeps the structural invariant.
No condition on `picks` is needed (`orderBy` only permutes cache entries), none on requests. -/
theorem sinv_step {c : Codec} (le : ID → ID → Bool) (w : World) (orc : Orc) (op : Op) (hw : WSInv c w) (hopk : OpOKs op) :
    WSInv c (w.step le orc op).1 := by
  by_cases hsk : w.skip = true
  · by_cases he : op = .endReq
    · subst he
      unfold World.step
      simp only [Bool.not_true, Bool.and_false, Bool.false_eq_true, if_false, finish_fst]
      exact finW_wsinv ⟨hw.codec, hw.inv, by intro h hh; simp at hh⟩
    · rw [step_skip le w orc op hsk he]; exact hw
  · have hsk' : w.skip = false := by simpa using hsk
    have hcd := hw.codec
    subst hcd
    have hi0 : SInv w.cfg.codec (orcSt w orc) := hw.inv.congr rfl rfl rfl rfl rfl
    unfold World.step
    cases op with
    | codec c' => exact absurd hopk (by simp [OpOKs])
    | cfg n v =>
      simp only [hsk', Bool.false_and, Bool.false_eq_true, if_false, finish_fst]
      exact finW_wsinv ⟨setCfg_codec w.cfg n v, hw.inv, hw.cur⟩
    | cookiecfg ck =>
      simp only [hsk', Bool.false_and, Bool.false_eq_true, if_false, finish_fst]
      exact finW_wsinv ⟨rfl, hw.inv, hw.cur⟩
    | fault =>
      simp only [hsk', Bool.false_and, Bool.false_eq_true, if_false, finish_fst]
      exact finW_wsinv hw
    | stale uid id =>
      simp only [hsk', Bool.false_and, Bool.false_eq_true, if_false, finish_fst]
      exact finW_wsinv ⟨rfl, hw.inv.congr rfl rfl rfl rfl rfl, hw.cur⟩
    | crashinside k =>
      simp only [hsk', Bool.false_and, Bool.false_eq_true, if_false, finish_fst]
      exact finW_wsinv ⟨rfl, hw.inv, hw.cur⟩
    | wait d =>
      simp only [hsk', Bool.false_and, Bool.false_eq_true, if_false, finish_fst]
      exact finW_wsinv ⟨rfl, advance_sinv w.st d hw.inv, fun h hh => by
        show h < (advance w.st d).1.heap.length
        rw [advance_heap]; exact hw.cur h hh⟩
    | dropcache =>
      simp only [hsk', Bool.false_and, Bool.false_eq_true, if_false, finish_fst]
      exact finW_wsinv ⟨rfl, hw.inv.cacheNil, hw.cur⟩
    | crash =>
      simp only [hsk', Bool.false_and, Bool.false_eq_true, if_false, finish_fst]
      exact finW_wsinv ⟨rfl, hw.inv, hw.cur⟩
    | expiredRec id =>
      simp only [hsk', Bool.false_and, Bool.false_eq_true, if_false, finish_fst]
      exact finW_wsinv hw
    | purge =>
      simp only [hsk', Bool.false_and, Bool.false_eq_true, if_false]
      exact fin_api_s w orc _ false hw (purge_smono w.cfg hi0)
    | logoutUser uid =>
      simp only [hsk', Bool.false_and, Bool.false_eq_true, if_false]
      exact fin_api_s w orc _ false hw (logoutUser_smono w.cfg le hi0 uid)
    | refresh uid =>
      simp only [hsk', Bool.false_and, Bool.false_eq_true, if_false]
      exact fin_api_s w orc _ false hw (refreshUser_smono w.cfg le hi0 uid)
    | endReq =>
      simp only [hsk', Bool.false_and, Bool.false_eq_true, if_false, finish_fst]
      exact finW_wsinv ⟨rfl, hw.inv, by intro h hh; simp at hh⟩
    | req client spec ip ua create =>
      simp only [hsk', Bool.false_and, Bool.false_eq_true, if_false]
      generalize ({ cookie := _, cookieLen := _, ip := ip, ua := ua, create := create } : Req) = r
      obtain ⟨hS, hSv⟩ := start_smono w.cfg hi0 r
      refine apiCall_wsinv _ orc _ true rfl hw.inv hS ?_
      · intro h hh
        simp only at hh
        split at hh
        · rename_i h' hres
          simp only [Option.some.injEq] at hh
          rw [← hh]; exact hSv h' hres
        · simp at hh
    | h hop =>
      simp only [hsk', Bool.false_and, Bool.false_eq_true, if_false]
      cases hc : w.cur with
      | none => exact hw
      | some h =>
        simp only []
        have hv : h < (orcSt w orc).heap.length := hw.cur h hc
        apply apiCall_wsinv' w orc _ true hw
        cases hop with
        | set k v => exact hset_smono w.cfg hi0 h hv k v
        | del k => exact hdel_smono w.cfg hi0 h hv k
        | get k => exact SMono.refl hi0
        | getdel k => exact hgetdel_smono w.cfg hi0 h hv k
        | login uid excl => exact hlogin_smono w.cfg le hi0 h hv uid excl
        | logout => exact hlogout_smono w.cfg hi0 h hv
        | regen => exact regenerate_smono w.cfg hi0 h hv
        | destroy => exact destroy_smono hi0 h w.hasCookie
        | expired => exact SMono.refl hi0
        | lastaccess => exact SMono.refl hi0
        | user => exact SMono.refl hi0

/-! ### all histories -/

/-- the side condition of a history for the structural invariant: no codec switch. Nothing is asked of the oracles
(any `fails`, any `picks`), of the cookies presented, of crash points, of `LogOut(uid)`/`RefreshUser` placement. -/
def HistOKs (hist : List (Orc × Op)) : Prop := ∀ p ∈ hist, OpOKs p.2

def opOKsB : Op → Bool
  | .codec _ => false
  | _ => true

theorem opOKs_of_b {op : Op} (h : opOKsB op = true) : OpOKs op := by
  cases op <;> first | trivial | simp [opOKsB] at h

theorem histOKs_of_b {hist : List (Orc × Op)} (h : hist.all (fun p => opOKsB p.2) = true) : HistOKs hist := by
  intro p hp; exact opOKs_of_b (List.all_eq_true.mp h p hp)

theorem HistOKs.take {hist : List (Orc × Op)} (h : HistOKs hist) (n : Nat) : HistOKs (hist.take n) :=
  fun p hp => h p (List.mem_of_mem_take hp)

theorem sinv_hist {c : Codec} (le : ID → ID → Bool) (hist : List (Orc × Op)) (w : World) (hw : WSInv c w)
    (hok : HistOKs hist) : WSInv c (runHist le w hist) := by
  induction hist generalizing w with
  | nil => exact hw
  | cons p r ih =>
    obtain ⟨o, op⟩ := p
    exact ih _ (sinv_step le w o op hw (hok (o, op) List.mem_cons_self)) (fun q hq => hok q (List.mem_cons_of_mem _ hq))

/-- **`sinv_all_histories`.** From the empty world with any configuration and cookie template, after EVERY history that
does not switch the codec — every fault oracle (any number of failing loads, saves, deletes, user look-ups, user
listings, anywhere), every order oracle, crash points, crashes, cache drops, purges, stale user-index entries, any
presented cookies — the structural invariant holds. Every `Sx.Loc` theorem whose hypotheses are structural (handle
allocated, `gen nextId` unused, …) therefore applies at every boundary of every history WITH faults. -/
theorem sinv_all_histories (le : ID → ID → Bool) (cfg : Cfg) (ck : CookieCfg) (hist : List (Orc × Op)) (hok : HistOKs hist) :
    WSInv cfg.codec (runHist le { cfg := cfg, ck := ck } hist) :=
  sinv_hist le hist _ (init_wsinv cfg ck) hok

theorem sinv_every_boundary (le : ID → ID → Bool) (cfg : Cfg) (ck : CookieCfg) (hist : List (Orc × Op)) (hok : HistOKs hist)
    (n : Nat) : WSInv cfg.codec (runHist le { cfg := cfg, ck := ck } (hist.take n)) :=
  sinv_all_histories le cfg ck _ (hok.take n)

/-- `SInv` spelled out. -/
theorem SInv.spelled_out {c : Codec} {s : State} (hi : SInv c s) :
    (keys s.cache).Nodup ∧ (keys s.store).Nodup ∧
    (∀ id h, (id, h) ∈ s.cache → h < s.heap.length ∧ ∃ n, id = .gen n ∧ n < s.nextId) ∧
    (∀ h, h < s.heap.length → (∃ n, (s.obj h).id = .gen n ∧ n < s.nextId) ∧
      ∀ t, (s.obj h).ref = some t → ∃ n, t = .gen n ∧ n < s.nextId) ∧
    (∀ id r, (id, r) ∈ s.store →
      (∃ n, id = .gen n ∧ n < s.nextId) ∧ (∀ t, r.ref = some t → ∃ n, t = .gen n ∧ n < s.nextId) ∧ ∃ o, r = enc c o) ∧
    (∀ t id, (t, id) ∈ s.timers → ∃ n, id = .gen n ∧ n < s.nextId) :=
  ⟨hi.cnodup, hi.sok.nodup, fun id h hm => ⟨hi.valid id h hm, hi.ckeys id h hm⟩,
   fun h hv => ⟨hi.hids h hv, hi.hrefs h hv⟩,
   fun id r hm => ⟨hi.sok.keys id r hm, hi.sok.refs id r hm, hi.sok.norm id r hm⟩, hi.tkeys⟩

/-! ### non-vacuity: a script with a failing save, a failing load, a failing delete, a failing user listing, a failing
rotation and a crash point -/

/-- 0 create `gen 0` · 1 `Set` whose save FAILS · 2 `Set` · 3 end · 4 drop the cache · 5 the cookie is presented and the
load FAILS · 6 end · 7 presented again, loaded · 8 `Destroy` whose delete FAILS · 9 `LogIn(u, exclusive)` whose user
listing FAILS · 10 `LogIn(u)` · (rotation to `gen 1`) · 11 `RegenerateID` whose first save FAILS · 12 end ·
13 a request · 14 `crashinside 1` · 15 a `Set` after whose save the process dies · 16 end (restart) -/
def fxScript : List (Orc × Op) :=
  [ ({}, .req "a" .none "1.2.3.4:5" "ua" true),
    ({ fails := [true] }, .h (.set "k" (.int 1))),
    ({}, .h (.set "k" (.int 2))),
    ({}, .endReq),
    ({}, .dropcache),
    ({ fails := [true] }, .req "a" .jar "1.2.3.4:5" "ua" false),
    ({}, .endReq),
    ({}, .req "a" .jar "1.2.3.4:5" "ua" false),
    ({ fails := [true] }, .h .destroy),
    ({ fails := [true] }, .h (.login "u" true)),
    ({}, .h (.login "u" false)),
    ({ fails := [true] }, .h .regen),
    ({}, .endReq),
    ({}, .req "a" .jar "1.2.3.4:5" "ua" false),
    ({}, .crashinside 1),
    ({}, .h (.set "z" (.int 3))),
    ({}, .endReq) ]

theorem fxScript_ok : HistOKs fxScript := histOKs_of_b (by decide)

example : WSInv .gob (runHist idLe {} fxScript) := sinv_all_histories idLe {} {} fxScript fxScript_ok
example (n : Nat) : WSInv .gob (runHist idLe {} (fxScript.take n)) := sinv_every_boundary idLe {} {} fxScript fxScript_ok n

/-- the events shown by step `n` of the script -/
def fxEvs (n : Nat) : List Ev :=
  match fxScript[n]? with
  | some (o, op) => ((runHist idLe {} (fxScript.take n)).step idLe o op).2.evs
  | none => []
def fxRet (n : Nat) : Option RetV :=
  match fxScript[n]? with
  | some (o, op) => ((runHist idLe {} (fxScript.take n)).step idLe o op).2.ret
  | none => none

#guard fxEvs 1 == [.saveFail (.gen 0)] && fxRet 1 == some (.str "err")          -- failing save: reported
#guard fxEvs 5 == [.loadFail (.gen 0)] && fxRet 5 == some (.str "err")          -- failing load: reported
#guard fxEvs 8 == [.delFail (.gen 0)] && fxRet 8 == some (.str "err")           -- failing delete: reported
#guard fxEvs 9 == [.usersFail "u"] && fxRet 9 == some (.str "err")              -- failing user listing: reported
#guard fxRet 10 == some (.str "ok") && (fxEvs 10).length == 3
#guard fxRet 11 == some (.str "err")                                            -- failing rotation: reported
#guard (runHist idLe {} (fxScript.take 16)).crashed && !(runHist idLe {} (fxScript.take 17)).crashed  -- the crash point struck

/-! ### `wf` ("the object cached under a key carries that key as its id") does NOT survive faults -/

/-- After step 11 (a `RegenerateID` whose first save failed) the session object carries the NEW id `gen 2` and is cached
(handle 1) under BOTH the old id `gen 1` and the new one: `Inv.wf` is false at a history boundary, and so is coherence (no record
under `gen 2`). `SInv` contains what is left. -/
def wfB (s : State) : Bool := s.cache.all (fun e => decide ((s.obj e.2).id = e.1))
#guard wfB (runHist idLe {} (fxScript.take 11)).st
#guard !wfB (runHist idLe {} (fxScript.take 12)).st
#guard (runHist idLe {} (fxScript.take 12)).st.cache == [(.gen 2, 1), (.gen 0, 2), (.gen 1, 1)]
#guard ((runHist idLe {} (fxScript.take 12)).st.obj 1).id == .gen 2
#guard (lookup (ID.gen 2) (runHist idLe {} (fxScript.take 12)).st.store).isNone

/-- the same at state level, checked by the kernel: `exS1` is the state after one creation -/
theorem wf_fails_under_faults :
    Inv .gob exS1 ∧
    (regenerate exCfg { exS1 with fails := [true] } 0).2.1 = false ∧
    (regenerate exCfg { exS1 with fails := [true] } 0).1.cache = [(.gen 1, 0), (.gen 0, 0)] ∧
    ((regenerate exCfg { exS1 with fails := [true] } 0).1.obj 0).id = .gen 1 := by
  refine ⟨exS1_ok.2.1, ?_, ?_, ?_⟩ <;> decide

/-! ### the hypothesis `OpOKs` (no codec switch): without it `SOK.norm` fails -/

/-- a gob record with a creation time that is no whole second is no JSON encoding -/
theorem codec_switch_breaks_norm : ¬ Norm .json (enc .gob { id := .gen 0, created := 1, lastAccess := 1 }) := by
  rintro ⟨o, ho⟩
  have h := congrArg Rec.created ho
  simp only [enc, truncSec] at h
  omega

/-- … and such a record is what a history that switches the codec after its first request has in its store. -/
def fxCodecScript : List (Orc × Op) := [ ({}, .wait 1), ({}, .req "a" .none "" "" true), ({}, .codec .json) ]
#guard ((runHist idLe {} fxCodecScript).st.store.map (fun e => e.2.created)) == [1]
#guard (runHist idLe {} fxCodecScript).cfg.codec == .json

/-! ### a dead process shows nothing -/

theorem step_skip_out (le : ID → ID → Bool) (w : World) (orc : Orc) (op : Op) (hsk : w.skip = true) :
    (w.step le orc op).2.evs = [] ∧ (w.step le orc op).2.ret = none := by
  unfold World.step
  cases op <;> simp [hsk, finish_snd_evs, finish_snd_ret]

/-! ## 2. C09 with faults: an acknowledged change is in the store (`Loc.AckSaved` lifted to every reachable state)

`Loc.AckSaved` proves, for every state and oracle, that a mutator returning success has written the record; the
theorems about `RegenerateID` and `LogIn` need structural facts ("`gen nextId` is in use nowhere"). `SInv` provides them
at every boundary of every history with faults. -/

/-- the record under the object's id is exactly the encoding of the object (stronger than agreement on `ess`) -/
def Saved (c : Codec) (s : State) (h : Nat) : Prop := lookup (s.obj h).id s.store = some (enc c (s.obj h))

theorem Saved.ess {c : Codec} {s : State} {h : Nat} (hs : Saved c s h) :
    ∃ r, lookup (s.obj h).id s.store = some r ∧ ess (enc c (s.obj h)) = ess r := ⟨_, hs, rfl⟩

/-! ### `LogIn` without the stale-index hypothesis of `Loc.hlogin_ok_saved`

`Loc.hlogin_ok_saved` assumes that no stale user-index entry names the id about to be minted. That is not needed: an id
that is neither cached nor stored cannot be loaded, so listing it changes nothing. -/

theorem cacheGet_safe' (cfg : Cfg) {N : ID} {S : State} (id : ID) (hst : lookup N S.store = none) (hs : Loc.Safe N S) :
    Loc.Safe N (cacheGet cfg S id).1 ∧ lookup N (cacheGet cfg S id).1.store = none := by
  have sp := Loc.cacheGet_spec cfg S id
  have hstore : lookup N (cacheGet cfg S id).1.store = none := by
    rcases sp.store_lk N with h | ⟨x, hx, _⟩
    · rw [h]; exact hst
    · exact absurd hx (hs.1 x)
  refine ⟨?_, hstore⟩
  by_cases hid : id = N
  · subst hid
    have hheap : (cacheGet cfg S id).1.heap = S.heap := by
      rcases sp.heap with h | ⟨o, _, _, _, _, r, hr, _⟩
      · exact h
      · rw [hst] at hr; cases hr
    constructor
    · intro x hx
      rcases sp.cache_mem _ hx with h | ⟨_, h2, _⟩
      · exact hs.1 x h
      · rcases sp.some_valid _ h2 with ⟨hc, _, _⟩ | ⟨_, _, hlen, _⟩
        · exact hs.1 _ (Loc.mem_of_lookup hc)
        · rw [hheap] at hlen; omega
    · intro x hx
      rw [hheap] at hx
      rw [Loc.obj_eq_of_heap hheap]; exact hs.2 x hx
  · exact Loc.cacheGet_safe cfg hid hs

theorem cacheSet_store_none (cfg : Cfg) {n : Nat} {S : State} (x : Nat) (hst : lookup (ID.gen n) S.store = none)
    (hs : Loc.Safe (.gen n) S) : lookup (ID.gen n) (cacheSet cfg S x).1.store = none := by
  rcases Loc.cacheSet_store_lk cfg S x (.gen n) (fun _ => (hs.obj_id_ne x).symm) with h | ⟨y, hy, _⟩
  · rw [h]; exact hst
  · exact absurd hy (hs.1 y)

theorem setUserAll_later_safe' (cfg : Cfg) (u : Option (String × Nat)) {n : Nat} :
    ∀ (ids : List ID) (S : State), Loc.Safe (.gen n) S → lookup (ID.gen n) S.store = none →
      Loc.Later S (setUserAll cfg u ids S).1 ∧ Loc.Safe (.gen n) (setUserAll cfg u ids S).1
  | [], S, hs, _ => ⟨Loc.Later.refl S, hs⟩
  | id :: rest, S, hs, hst => by
    have hl1 := Loc.cacheGet_later cfg S id
    obtain ⟨hs1, hst1⟩ := cacheGet_safe' cfg id hst hs
    rcases hG : cacheGet cfg S id with ⟨s1, res, e1⟩
    rw [hG] at hl1 hs1 hst1
    cases res with
    | err => rw [Loc.setUserAll_cons_err hG]; exact ⟨hl1, hs1⟩
    | nil =>
      rw [Loc.setUserAll_cons_nil hG]
      obtain ⟨a, b⟩ := setUserAll_later_safe' cfg u rest s1 hs1 hst1
      exact ⟨hl1.trans a, b⟩
    | some x =>
      rw [Loc.setUserAll_cons_some hG]
      have hl2 : Loc.Later s1 (Loc.userSet cfg u s1 x).1 := (Loc.setUser_later s1 x u).trans (Loc.cacheSet_later cfg _ x)
      have hsu : Loc.Safe (.gen n) (s1.setObj x { s1.obj x with user := u }) := Loc.setUser_safe x u hs1
      have hs2 : Loc.Safe (.gen n) (Loc.userSet cfg u s1 x).1 := Loc.cacheSet_safe cfg x hsu
      have hst2 : lookup (ID.gen n) (Loc.userSet cfg u s1 x).1.store = none := cacheSet_store_none cfg x hst1 hsu
      split
      · exact ⟨hl1.trans hl2, hs2⟩
      · obtain ⟨a, b⟩ := setUserAll_later_safe' cfg u rest _ hs2 hst2
        exact ⟨(hl1.trans hl2).trans a, b⟩

theorem loginPre_later_safe' (cfg : Cfg) (le : ID → ID → Bool) {n : Nat} (s : State) (h : Nat) (uid : String) (excl : Bool)
    (hstore : lookup (ID.gen n) s.store = none) (hs : Loc.Safe (.gen n) s) :
    Loc.Later s (Loc.loginPre cfg le s h uid excl).1 ∧ Loc.Safe (.gen n) (Loc.loginPre cfg le s h uid excl).1 := by
  unfold Loc.loginPre
  split
  · unfold logoutUser
    rw [Loc.forUser_eq]
    have hpop : Loc.Later s s.pop := ⟨rfl, Nat.le_refl _, fun _ _ => rfl⟩
    have hspop : Loc.Safe (.gen n) s.pop := hs
    split
    · exact ⟨hpop, hspop⟩
    · obtain ⟨a, b⟩ := setUserAll_later_safe' cfg none _ s.pop hspop hstore
      exact ⟨hpop.trans a, b⟩
  · exact Loc.hlogout_later_safe cfg s h hs

/-- **C09 / `LogIn`** as `Loc.hlogin_ok_saved`, first conjunct, without its hypothesis on the stale user index. -/
theorem hlogin_ok_saved' (cfg : Cfg) (le : ID → ID → Bool) (s : State) (h : Nat) (uid : String) (excl : Bool)
    (hv : h < s.heap.length) (hs : Loc.Safe (.gen s.nextId) s) (hstore : lookup (ID.gen s.nextId) s.store = none)
    (hok : (hlogin cfg le s h uid excl).2.1 = .ok) :
    lookup ((hlogin cfg le s h uid excl).1.obj h).id (hlogin cfg le s h uid excl).1.store =
      some (enc cfg.codec ((hlogin cfg le s h uid excl).1.obj h)) := by
  obtain ⟨a, b⟩ := loginPre_later_safe' cfg le s h uid excl hstore hs
  have hl : Loc.Later s (Loc.loginSet cfg le s h uid excl).1 := by
    unfold Loc.loginSet
    exact (a.trans (Loc.setUser_later _ h _)).trans (Loc.cacheSet_later cfg _ h)
  have hsafe : Loc.Safe (.gen s.nextId) (Loc.loginSet cfg le s h uid excl).1 := by
    unfold Loc.loginSet
    exact Loc.cacheSet_safe cfg h (Loc.setUser_safe h _ b)
  rw [Loc.hlogin_eq] at hok ⊢
  by_cases h1 : (Loc.loginPre cfg le s h uid excl).2.1 = false
  · rw [if_pos h1] at hok; cases hok
  · rw [if_neg h1] at hok ⊢
    by_cases h2 : (Loc.loginSet cfg le s h uid excl).2.1 = false
    · rw [if_pos h2] at hok; cases hok
    · rw [if_neg h2] at hok ⊢
      have hok' : (regenerate cfg (Loc.loginSet cfg le s h uid excl).1 h).2.1 = true := (Loc.hres_ok_iff _).1 hok
      have hv3 : h < (Loc.loginSet cfg le s h uid excl).1.heap.length := Nat.lt_of_lt_of_le hv hl.len
      have hn3 : (Loc.loginSet cfg le s h uid excl).1.nextId = s.nextId := hl.nextId
      exact Loc.regenerate_ok_saved cfg _ h hv3 (by rw [hn3]; exact hsafe.1) (by rw [hn3]; exact hsafe.2 h hv3) hok'

/-- the handler calls that change the session and acknowledge with `ok` (`LogOut()` of a session without a user
returns `ok` without saving anything: `Loc.hlogout_none`). -/
def ackSaves (s : State) (h : Nat) : HOp → Prop
  | .set _ _ => True
  | .del _ => True
  | .regen => True
  | .login _ _ => True
  | .logout => (s.obj h).user ≠ none
  | _ => False

theorem hresStr_ok {r : HRes} (h : hresStr r = .str "ok") : r = .ok := by
  cases r with
  | ok => rfl
  | err => exact absurd h (by decide)
  | panic => exact absurd h (by decide)
  | val v => simp [hresStr] at h
  | bool b => cases b <;> exact absurd h (by decide)
  | time t => simp [hresStr] at h
  | user u => simp [hresStr] at h

theorem boolStr_ok {b : Bool} (h : boolStr b = .str "ok") : b = true := by
  cases b
  · exact absurd h (by decide)
  · rfl

theorem SInv.safe {c : Codec} {s : State} (hi : SInv c s) : Loc.Safe (.gen s.nextId) s := ⟨hi.fresh.1, hi.fresh.2.1⟩

/-- **model level**: in every structurally sound state, under every oracle, a session-changing handler call that
answers `ok` leaves the record of the session equal to the encoding of the session object. -/
theorem hRun_ack_saved {cfg : Cfg} (le : ID → ID → Bool) {s : State} (hi : SInv cfg.codec s) (hasCookie : Bool) (h : Nat)
    (hv : h < s.heap.length) (hop : HOp) (ha : ackSaves s h hop)
    (hret : (hRun le cfg hasCookie h hop s).2.1 = .str "ok") : Saved cfg.codec (hRun le cfg hasCookie h hop s).1 h := by
  cases hop with
  | set k v => exact Loc.hset_ok_saved cfg s h k v (hresStr_ok hret)
  | del k => exact Loc.hdel_ok_saved cfg s h k (hresStr_ok hret)
  | regen => exact Loc.regenerate_ok_saved cfg s h hv hi.fresh.1 (hi.fresh.2.1 h hv) (boolStr_ok hret)
  | login uid excl => exact hlogin_ok_saved' cfg le s h uid excl hv hi.safe hi.fresh.2.2.1 (hresStr_ok hret)
  | logout =>
    cases hu : (s.obj h).user with
    | none => exact absurd hu ha
    | some u => exact Loc.hlogout_ok_saved cfg s h u hu (hresStr_ok hret)
  | get k => exact absurd ha (by simp [ackSaves])
  | getdel k => exact absurd ha (by simp [ackSaves])
  | destroy => exact absurd ha (by simp [ackSaves])
  | expired => exact absurd ha (by simp [ackSaves])
  | lastaccess => exact absurd ha (by simp [ackSaves])
  | user => exact absurd ha (by simp [ackSaves])

/-- creation: `Start` answering with a NEW session has written its record (every state, every oracle) -/
theorem createNew_ack_saved (cfg : Cfg) (s : State) (r : Req) (pre : List Ev) (h : Nat)
    (hres : (createNew cfg s r pre).2.1 = .sess h) : Saved cfg.codec (createNew cfg s r pre).1 h := by
  obtain ⟨_, hid, hl, _⟩ := Loc.createNew_sess_saved cfg s r pre h hres
  unfold Saved; rw [hid]; exact hl

/-! ### from the state after the call to the next boundary: the 1 ns tick -/

theorem advance_snd (s : State) (d : Int) : (advance s d).2 = (fireDue s (s.now + d)).2 := rfl

/-- the quiescence tick (or a `wait`) keeps the record and the cache entry of every id for which it shows no clean-up -/
theorem advance_keeps (s : State) (d : Int) (k : ID) (hb : ∀ t, Ev.bg t k ∉ (advance s d).2) :
    lookup k (advance s d).1.store = lookup k s.store ∧ lookup k (advance s d).1.cache = lookup k s.cache := by
  obtain ⟨_, _, _, _, h5⟩ := More.c05_cleanup_advance s d
  obtain ⟨_, _, _, h4, _⟩ := More.c05_cleanup_fireDue s (s.now + d)
  have := h5 k (by
    intro t id hm ht e
    subst e
    apply hb (max t s.now)
    rw [advance_snd, h4]
    exact List.mem_map.2 ⟨(t, id), More.c05_mem_due.mpr ⟨hm, ht⟩, rfl⟩)
  exact ⟨this.2, this.1⟩

theorem apiCall_bg (w : World) (orc : Orc) (run : State → State × RetV × Option String × List Ev) (b : Bool) :
    (apiCall w orc run b).2.bg =
      (advance (apiMid w (run { w.st with fails := orc.fails, picks := orc.picks }).1
                 (run { w.st with fails := orc.fails, picks := orc.picks }).2.2.2) 1).2 := by
  unfold apiCall apiMid apiFrz apiMuts
  generalize run { w.st with fails := orc.fails, picks := orc.picks } = r
  obtain ⟨s1, ret, msg, evs⟩ := r
  simp only []
  cases w.freezeAt with
  | none => rfl
  | some k =>
    simp only []
    split <;> rfl

theorem saved_tick {c : Codec} {s1 : State} {h : Nat} (hs : Saved c s1 h)
    (hb : ∀ t, Ev.bg t (s1.obj h).id ∉ (advance ({ s1 with fails := [], picks := [] } : State) 1).2) :
    Saved c (advance ({ s1 with fails := [], picks := [] } : State) 1).1 h := by
  have hheap := advance_heap ({ s1 with fails := [], picks := [] } : State) 1
  have ho : (advance ({ s1 with fails := [], picks := [] } : State) 1).1.obj h = s1.obj h := obj_of_heap_eq hheap h
  unfold Saved
  rw [ho, (advance_keeps _ 1 (s1.obj h).id hb).1]
  exact hs

/-- an API call without crash point: what was saved at the end of the call is saved at the next boundary, unless the
tick shows a clean-up of that id -/
theorem apiCall_saved {c : Codec} (w : World) (orc : Orc) (run : State → State × RetV × Option String × List Ev) (b : Bool)
    (h : Nat) (hfz : w.freezeAt = none) (hS : Saved c (run (orcSt w orc)).1 h)
    (hb : ∀ t, Ev.bg t (((apiCall w orc run b).1.st.obj h).id) ∉ (apiCall w orc run b).2.bg) :
    Saved c (apiCall w orc run b).1.st h := by
  have hmid : ∀ s1 evs, apiMid w s1 evs = { s1 with fails := [], picks := [] } := by
    intro s1 evs; unfold apiMid apiFrz; rw [hfz]
  rw [apiCall_bg, hmid] at hb
  rw [apiCall_fst, hmid] at hb ⊢
  simp only at hb ⊢
  have ho : (advance ({ (run (orcSt w orc)).1 with fails := [], picks := [] } : State) 1).1.obj h =
      (run (orcSt w orc)).1.obj h := obj_of_heap_eq (advance_heap _ 1) h
  rw [ho] at hb
  exact saved_tick hS hb

/-- **`c09_ack_saved_global`.** At every boundary of every history with faults (`WSInv`, i.e. `sinv_all_histories`), for
every oracle of the step: if a handler call that changes the request's session — `Set`, `Delete`, `LogOut()` of a
logged-in session, `LogIn`, `RegenerateID` — returns `ok`, then AT THE NEXT BOUNDARY the record stored under the session's
(possibly new) id is exactly the encoding of the session object: the id is clean whatever faults happened before.
Hypotheses besides reachability: no crash point is armed for this call (`freezeAt = none`: a crash point discards the
tail of the call's mutations by definition; `c09_needs_no_crash_point`), and the tick after the call shows no clean-up
deletion of this id (`Out.bg`; `c09_needs_no_cleanup`). (`LogIn`: unlike `Loc.hlogin_ok_saved`, no hypothesis on the stale
user index — `hlogin_ok_saved'`.) -/
theorem c09_ack_saved_global {c : Codec} (le : ID → ID → Bool) (w : World) (orc : Orc) (hop : HOp) (h : Nat)
    (hw : WSInv c w) (hfz : w.freezeAt = none) (hc : w.cur = some h)
    (ha : ackSaves w.st h hop) (hret : (w.step le orc (.h hop)).2.ret = some (.str "ok"))
    (hb : ∀ t, Ev.bg t (((w.step le orc (.h hop)).1.st.obj h).id) ∉ (w.step le orc (.h hop)).2.bg) :
    Saved c (w.step le orc (.h hop)).1.st h := by
  have hsk : w.skip = false := by
    cases hs : w.skip with
    | false => rfl
    | true => rw [(step_skip_out le w orc _ hs).2] at hret; cases hret
  have hcd := hw.codec
  subst hcd
  rw [step_h_some le w orc hop h hsk hc] at hret hb ⊢
  have hi0 : SInv w.cfg.codec (orcSt w orc) := hw.inv.congr rfl rfl rfl rfl rfl
  have hv : h < (orcSt w orc).heap.length := hw.cur h hc
  rw [(apiCall_out w orc _ true).1] at hret
  simp only [Option.some.injEq] at hret
  exact apiCall_saved w orc _ true h hfz (hRun_ack_saved le hi0 w.hasCookie h hv hop ha hret) hb

/-! ### the two hypotheses of `c09_ack_saved_global`, each with its failing case -/

/-- `freezeAt = none`: with `crashinside 0` armed the `Set` answers `ok`, but the process died before its save took
effect — the record at the next boundary lacks the value (that is what a crash point means; C10 is about these). -/
def fxFreeze : List (Orc × Op) := [ ({}, .req "a" .none "" "" true), ({}, .crashinside 0) ]
#guard ((runHist idLe {} fxFreeze).step idLe {} (.h (.set "k" (.int 1)))).2.ret == some (.str "ok")
#guard (lookup (ID.gen 0) ((runHist idLe {} fxFreeze).step idLe {} (.h (.set "k" (.int 1)))).1.st.store).map (·.data)
        == some (some [])
#guard (((runHist idLe {} fxFreeze).step idLe {} (.h (.set "k" (.int 1)))).1.st.obj 0).data == some [("k", .int 1)]

/-- no clean-up of the id at the tick: in the structurally sound world `fxTimerW` a clean-up goroutine is waiting for the
request's own id; the `Set` answers `ok`, the tick deletes the record. (`WSInv` does not exclude such a timer. In
fault-free histories a timer only ever waits for a replaced id — the chain theorems of `More/Chain05*` —; whether every
history WITH faults keeps timers off live ids is not proved here, hence the hypothesis, which the transcript decides.) -/
def fxTimerO : Sess := { id := .gen 0, created := 0, lastAccess := 0 }
def fxTimerW : World :=
  { st := { heap := [fxTimerO], store := [(.gen 0, enc .gob fxTimerO)], timers := [(0, .gen 0)], nextId := 1 },
    inReq := true, cur := some 0 }

theorem fxTimerW_ok : WSInv .gob fxTimerW := by
  have hm : Minted 1 (ID.gen 0) := ⟨0, rfl, by omega⟩
  refine ⟨rfl, ⟨List.nodup_nil, (by intro _ _ h; cases h), (by intro _ _ h; cases h), ?_, ?_, ?_, ?_⟩, ?_⟩
  · intro h hh
    have : h = 0 := by simp [fxTimerW] at hh; omega
    subst this; exact hm
  · intro h hh
    have : h = 0 := by simp [fxTimerW] at hh; omega
    subst this; exact refOK_none _
  · refine ⟨by decide, ?_, ?_, ?_⟩
    · intro id r hmem; simp [fxTimerW] at hmem; rw [hmem.1]; exact hm
    · intro id r hmem; simp [fxTimerW] at hmem; rw [hmem.2, enc_ref]; exact refOK_none _
    · intro id r hmem; simp [fxTimerW] at hmem; rw [hmem.2]; exact norm_enc _ _
  · intro t id hmem; simp [fxTimerW] at hmem; rw [hmem.2]; exact hm
  · intro h hh; simp [fxTimerW] at hh; subst hh; decide

#guard (fxTimerW.step idLe {} (.h (.set "k" (.int 1)))).2.ret == some (.str "ok")
#guard (fxTimerW.step idLe {} (.h (.set "k" (.int 1)))).2.bg == [.bg 0 (.gen 0)]
#guard (lookup (ID.gen 0) (fxTimerW.step idLe {} (.h (.set "k" (.int 1)))).1.st.store).isNone

/-- the same for creation by `Start`: a request without cookie answered with a session (stated for this case, which
needs no case analysis of `Start`; the other creating paths end in the same `createNew`). -/
theorem c09_created_saved_global {c : Codec} (le : ID → ID → Bool) (w : World) (orc : Orc) (client ip ua : String)
    (hw : WSInv c w) (hsk : w.skip = false) (hfz : w.freezeAt = none) (h : Nat)
    (hcur : (w.step le orc (.req client .none ip ua true)).1.cur = some h)
    (hb : ∀ t, Ev.bg t (((w.step le orc (.req client .none ip ua true)).1.st.obj h).id) ∉
      (w.step le orc (.req client .none ip ua true)).2.bg) :
    Saved c (w.step le orc (.req client .none ip ua true)).1.st h := by
  have hcd := hw.codec
  subst hcd
  rw [step_req le w orc client .none ip ua true hsk] at hcur hb ⊢
  simp only at hcur hb ⊢
  have hstart : start w.cfg (orcSt w orc) (reqOf1 w client .none ip ua true) =
      createNew w.cfg (orcSt w orc) (reqOf1 w client .none ip ua true) [] := Loc.start_none rfl
  have hres : (createNew w.cfg (orcSt w orc) (reqOf1 w client .none ip ua true) []).2.1 = .sess h := by
    rw [apiCall_fst] at hcur
    have : curOf (start w.cfg (orcSt w orc) (reqOf1 w client .none ip ua true)).2.1 = some h := hcur
    rw [hstart] at this
    generalize (createNew w.cfg (orcSt w orc) (reqOf1 w client .none ip ua true) []).2.1 = res at this
    cases res <;> simp [curOf] at this
    rw [this]
  have hS := createNew_ack_saved w.cfg (orcSt w orc) (reqOf1 w client .none ip ua true) [] h hres
  refine apiCall_saved _ orc _ true h hfz ?_ hb
  show Saved w.cfg.codec (start w.cfg (orcSt w orc) (reqOf1 w client .none ip ua true)).1 h
  rw [hstart]; exact hS

/-! ## 3. C11: what the events of a call can be (every state, every oracle)

Event classes: `isLoadFail` (a failed `LoadSession`, a failed `LoadUser` inside it, the decoder giving up), `isDel`
(a successful `DeleteSession`), `isCookie`. `AllB p evs`: no event of `evs` is in class `p`. -/

def isLoadFail : Ev → Bool
  | .loadFail _ => true
  | .loadErr _ => true
  | .userFail _ => true
  | _ => false

def isDel : Ev → Bool
  | .del _ => true
  | _ => false

def AllB (p : Ev → Bool) (evs : List Ev) : Prop := ∀ e ∈ evs, p e = false

theorem AllB.nil (p : Ev → Bool) : AllB p [] := by intro e he; cases he
theorem AllB.append {p : Ev → Bool} {a b : List Ev} (ha : AllB p a) (hb : AllB p b) : AllB p (a ++ b) := by
  intro e he; rcases List.mem_append.1 he with h | h
  · exact ha e h
  · exact hb e h
theorem AllB.single {p : Ev → Bool} {e : Ev} (h : p e = false) : AllB p [e] := by
  intro e' he; simp only [List.mem_singleton] at he; subst he; exact h
theorem AllB.left {p : Ev → Bool} {a b : List Ev} (h : AllB p (a ++ b)) : AllB p a := fun e he => h e (List.mem_append_left _ he)
theorem AllB.right {p : Ev → Bool} {a b : List Ev} (h : AllB p (a ++ b)) : AllB p b := fun e he => h e (List.mem_append_right _ he)
theorem AllB.cons {p : Ev → Bool} {e : Ev} {l : List Ev} (h : p e = false) (hl : AllB p l) : AllB p (e :: l) := by
  intro e' he; rcases List.mem_cons.1 he with h' | h'
  · subst h'; exact h
  · exact hl e' h'
theorem AllB.not_mem_del {evs : List Ev} (h : AllB isDel evs) (k : ID) : Ev.del k ∉ evs := fun hm => by
  have := h _ hm; simp [isDel] at this

/-- every event is a save or a failed save -/
def SaveOnly (evs : List Ev) : Prop := ∀ e ∈ evs, (∃ k r, e = .save k r) ∨ (∃ k, e = .saveFail k)

theorem SaveOnly.allB {evs : List Ev} (h : SaveOnly evs) {p : Ev → Bool} (h1 : ∀ k r, p (.save k r) = false)
    (h2 : ∀ k, p (.saveFail k) = false) : AllB p evs := by
  intro e he
  rcases h e he with ⟨k, r, rfl⟩ | ⟨k, rfl⟩
  · exact h1 k r
  · exact h2 k
theorem SaveOnly.lf {evs : List Ev} (h : SaveOnly evs) : AllB isLoadFail evs := h.allB (fun _ _ => rfl) (fun _ => rfl)
theorem SaveOnly.del {evs : List Ev} (h : SaveOnly evs) : AllB isDel evs := h.allB (fun _ _ => rfl) (fun _ => rfl)
theorem SaveOnly.ck {evs : List Ev} (h : SaveOnly evs) : AllB isCookie evs := h.allB (fun _ _ => rfl) (fun _ => rfl)
theorem SaveOnly.append {a b : List Ev} (ha : SaveOnly a) (hb : SaveOnly b) : SaveOnly (a ++ b) := by
  intro e he; rcases List.mem_append.1 he with h | h
  · exact ha e h
  · exact hb e h
theorem SaveOnly.nil : SaveOnly [] := by intro e he; cases he

theorem saveRec_saveOnly (cfg : Cfg) (s : State) (id : ID) (o : Sess) : SaveOnly (saveRec cfg s id o).2.2 := by
  rw [Loc.saveRec_evs]; intro e he; simp only [List.mem_singleton] at he; subst he
  split
  · exact Or.inl ⟨_, _, rfl⟩
  · exact Or.inr ⟨_, rfl⟩

theorem cacheSet_saveOnly (cfg : Cfg) (s : State) (h : Nat) : SaveOnly (cacheSet cfg s h).2.2 :=
  fun _ he => Loc.cacheSet_ev_cases he

theorem compact_saveOnly (cfg : Cfg) (req : Int) (s : State) : SaveOnly (compact cfg req s).2 :=
  fun _ he => (Loc.compact_flushed cfg req s).ev_cases he

/-- `RegenerateID`: saves and failed saves, then (on success) the new cookie -/
theorem regenerate_evs_shape (cfg : Cfg) (s : State) (h : Nat) :
    ∃ a b, (regenerate cfg s h).2.2 = a ++ b ∧ SaveOnly a ∧ (b = [] ∨ b = [.setCookie (ID.gen s.nextId)]) := by
  have hA := cacheSet_saveOnly cfg (Loc.regenS0 s h) h
  have hB := cacheSet_saveOnly cfg (Loc.regenS2 cfg s h) (Loc.regenA cfg s h).1.heap.length
  rw [Loc.regenerate_eq]
  split
  · exact ⟨_, [], (List.append_nil _).symm, hA, Or.inl rfl⟩
  · split
    · exact ⟨_, [], (List.append_nil _).symm, hA.append hB, Or.inl rfl⟩
    · exact ⟨_, _, rfl, hA.append hB, Or.inr rfl⟩

theorem regenerate_lf (cfg : Cfg) (s : State) (h : Nat) : AllB isLoadFail (regenerate cfg s h).2.2 := by
  obtain ⟨a, b, he, ha, hb⟩ := regenerate_evs_shape cfg s h
  rw [he]; refine ha.lf.append ?_
  rcases hb with rfl | rfl
  · exact AllB.nil _
  · exact AllB.single rfl

theorem regenerate_del (cfg : Cfg) (s : State) (h : Nat) : AllB isDel (regenerate cfg s h).2.2 := by
  obtain ⟨a, b, he, ha, hb⟩ := regenerate_evs_shape cfg s h
  rw [he]; refine ha.del.append ?_
  rcases hb with rfl | rfl
  · exact AllB.nil _
  · exact AllB.single rfl

theorem cacheDelete_evs (s : State) (id : ID) : (cacheDelete s id).2.2 = [.del id] ∨ (cacheDelete s id).2.2 = [.delFail id] := by
  rw [Loc.cacheDelete_eq]; split
  · exact Or.inr rfl
  · exact Or.inl rfl

theorem cacheDelete_lf (s : State) (id : ID) : AllB isLoadFail (cacheDelete s id).2.2 := by
  rcases cacheDelete_evs s id with h | h <;> rw [h] <;> exact AllB.single rfl
theorem cacheDelete_ck (s : State) (id : ID) : AllB isCookie (cacheDelete s id).2.2 := by
  rcases cacheDelete_evs s id with h | h <;> rw [h] <;> exact AllB.single rfl

theorem destroy_lf (s : State) (h : Nat) (b : Bool) : AllB isLoadFail (destroy s h b).2.2 := by
  have h1 := cacheDelete_lf s (s.obj h).id
  rw [Loc.destroy_eq]; split
  · exact h1
  · split
    · exact h1.append (AllB.single rfl)
    · exact h1

/-- creation adds saves, failed saves and (on success) the new cookie to the events so far -/
theorem createNew_allB (cfg : Cfg) (s : State) (r : Req) (pre : List Ev) {p : Ev → Bool} (hp : AllB p pre)
    (h1 : ∀ k r, p (.save k r) = false) (h2 : ∀ k, p (.saveFail k) = false) (h3 : ∀ k, p (.setCookie k) = false) :
    AllB p (createNew cfg s r pre).2.2 := by
  have hS := (cacheSet_saveOnly cfg (Loc.newS1 s r) s.heap.length).allB h1 h2
  cases hc : r.create with
  | false => rw [Loc.createNew_no pre hc]; exact hp
  | true =>
    rw [Loc.createNew_yes pre hc]; split
    · exact hp.append hS
    · exact (hp.append hS).append (AllB.single (h3 _))

theorem flush_allB {cfg : Cfg} {c : List (ID × Nat)} {obj : Nat → Sess} {e : Ev} (h : Loc.IsFlush cfg c obj e) {p : Ev → Bool}
    (h1 : ∀ k r, p (.save k r) = false) (h2 : ∀ k, p (.saveFail k) = false) : p e = false := by
  obtain ⟨k, x, _, he | he⟩ := h
  · rw [he]; exact h1 _ _
  · rw [he]; exact h2 _

/-- `cache.Get` never deletes and never touches a cookie -/
theorem cacheGet_del (cfg : Cfg) (s : State) (id : ID) : AllB isDel (cacheGet cfg s id).2.2 := by
  intro e he
  rcases (Loc.cacheGet_spec cfg s id).evs_shape e he with h | h | h | h | h | ⟨u, h⟩ | ⟨u, h⟩
  · exact flush_allB h (fun _ _ => rfl) (fun _ => rfl)
  all_goals (rw [h]; rfl)

theorem cacheGet_ck (cfg : Cfg) (s : State) (id : ID) : AllB isCookie (cacheGet cfg s id).2.2 := by
  intro e he
  rcases (Loc.cacheGet_spec cfg s id).evs_shape e he with h | h | h | h | h | ⟨u, h⟩ | ⟨u, h⟩
  · exact flush_allB h (fun _ _ => rfl) (fun _ => rfl)
  all_goals (rw [h]; rfl)

theorem failureEv_of_lf {e : Ev} (h : isLoadFail e = true) : Loc.FailureEv e := by
  cases e <;> simp [isLoadFail] at h
  · exact Or.inl rfl
  · exact Or.inr ⟨_, rfl⟩
  · exact Or.inl rfl

theorem allB_lf_of_onlySave {K : ID → Prop} {evs : List Ev} (h : Loc.OnlySaveFails K evs) : AllB isLoadFail evs := by
  intro e he
  cases hb : isLoadFail e with
  | false => rfl
  | true =>
    obtain ⟨k, hk, _⟩ := h e he (failureEv_of_lf hb)
    rw [hk] at hb; cases hb

/-- a `cache.Get` that did not fail shows no failed load -/
theorem cacheGet_lf {cfg : Cfg} {s : State} {id : ID} (hne : (cacheGet cfg s id).2.1 ≠ .err) :
    AllB isLoadFail (cacheGet cfg s id).2.2 := by
  intro e he
  cases hb : isLoadFail e with
  | false => rfl
  | true =>
    obtain ⟨k, x, _, hk⟩ := Loc.cacheGet_ok_fail_events hne he (failureEv_of_lf hb)
    rw [hk] at hb; cases hb

theorem follow_facts (cfg : Cfg) : ∀ (n : Nat) (s : State) (h : Nat),
    AllB isDel (follow cfg n s h).2.2 ∧ AllB isCookie (follow cfg n s h).2.2 ∧ (follow cfg n s h).1.nextId = s.nextId
  | 0, s, h => by rw [Loc.follow_zero]; exact ⟨AllB.nil _, AllB.nil _, rfl⟩
  | n + 1, s, h => by
    cases href : (s.obj h).ref with
    | none => rw [Loc.follow_succ_none n href]; exact ⟨AllB.nil _, AllB.nil _, rfl⟩
    | some tgt =>
      rw [Loc.follow_succ_some n href]
      have h1 := cacheGet_del cfg s tgt
      have h2 := cacheGet_ck cfg s tgt
      have h3 := (Loc.cacheGet_spec cfg s tgt).nextId
      generalize cacheGet cfg s tgt = x at h1 h2 h3
      obtain ⟨s1, res, e1⟩ := x
      cases res with
      | err => exact ⟨h1, h2, h3⟩
      | nil => exact ⟨h1, h2, h3⟩
      | some h2' =>
        obtain ⟨f1, f2, f3⟩ := follow_facts cfg n s1 h2'
        exact ⟨h1.append f1, h2.append f2, f3.trans h3⟩

theorem follow_lf {cfg : Cfg} {n : Nat} {s : State} {h : Nat} (hne : (follow cfg n s h).2.1 ≠ .err) :
    AllB isLoadFail (follow cfg n s h).2.2 := allB_lf_of_onlySave (Loc.follow_ok_clean cfg n s h hne)

/-- **C11 (a2), general form**: a `Start` that shows a failed load (of the presented id or of an id on its reference
chain) returns an error, deletes nothing, sends no cookie — neither the deletion cookie nor a new one — and mints no
id (no replacement session). Every state, every oracle. -/
theorem start_failed_load_quiet (cfg : Cfg) (s : State) (r : Req) (hlf : ¬ AllB isLoadFail (start cfg s r).2.2) :
    (∃ m, (start cfg s r).2.1 = .err m) ∧ AllB isDel (start cfg s r).2.2 ∧ AllB isCookie (start cfg s r).2.2 ∧
    (start cfg s r).1.nextId = s.nextId := by
  have hnew : ∀ s' pre, AllB isLoadFail pre → AllB isLoadFail (createNew cfg s' r pre).2.2 :=
    fun s' pre hp => createNew_allB cfg s' r pre hp (fun _ _ => rfl) (fun _ => rfl) (fun _ => rfl)
  cases hck : r.cookie with
  | none => rw [Loc.start_none hck] at hlf; exact absurd (hnew s [] (AllB.nil _)) hlf
  | some id =>
    by_cases hlen : r.cookieLen = 24
    · rw [Loc.start_some hck hlen] at hlf ⊢
      have g1 := cacheGet_del cfg s id
      have g2 := cacheGet_ck cfg s id
      have g3 := (Loc.cacheGet_spec cfg s id).nextId
      have g4 : (cacheGet cfg s id).2.1 ≠ .err → AllB isLoadFail (cacheGet cfg s id).2.2 := cacheGet_lf
      generalize cacheGet cfg s id = x at hlf g1 g2 g3 g4
      obtain ⟨s1, res, e1⟩ := x
      cases res with
      | err => exact ⟨⟨_, rfl⟩, g1, g2, g3⟩
      | nil =>
        exact absurd (hnew s1 _ ((g4 (by simp)).append (AllB.single rfl))) hlf
      | some h =>
        have e1lf : AllB isLoadFail e1 := g4 (by simp)
        simp only [Loc.startGot] at hlf ⊢
        split at hlf
        · -- invalid: destroy, then create
          rename_i hvf
          rw [if_pos hvf]
          unfold Loc.startInvalid at hlf ⊢
          have hD := e1lf.append (destroy_lf s1 h true)
          split at hlf
          · exact absurd hD hlf
          · exact absurd (hnew _ _ hD) hlf
        · rename_i hvf
          rw [if_neg hvf]
          cases href : (s1.obj h).ref with
          | none =>
            by_cases hage : since s1.now (s1.obj h).created ≥ cfg.idExpiry
            · rw [Loc.startValid_rotate id r e1 href hage] at hlf
              have hR := e1lf.append (regenerate_lf cfg s1 h)
              split at hlf
              · exact absurd hR hlf
              · exact absurd hR hlf
            · rw [Loc.startValid_young id r e1 href (by omega)] at hlf
              exact absurd e1lf hlf
          | some t =>
            by_cases hage : since s1.now (s1.obj h).created ≥ cfg.idExpiry ∧ since s1.now (s1.obj h).created - cfg.idExpiry ≥ cfg.grace
            · rw [Loc.startValid_ref_expired id r e1 href hage] at hlf
              have hD := e1lf.append (cacheDelete_lf s1 id)
              split at hlf
              · exact absurd hD hlf
              · exact absurd hD hlf
            · rw [Loc.startValid_ref id r e1 href hage] at hlf ⊢
              obtain ⟨f1, f2, f3⟩ := follow_facts cfg (s1.store.length + s1.cache.length + 1) s1 h
              have f4 : (follow cfg (s1.store.length + s1.cache.length + 1) s1 h).2.1 ≠ .err →
                  AllB isLoadFail (follow cfg (s1.store.length + s1.cache.length + 1) s1 h).2.2 := follow_lf
              generalize follow cfg (s1.store.length + s1.cache.length + 1) s1 h = y at hlf f1 f2 f3 f4
              obtain ⟨s2, res2, e2⟩ := y
              cases res2 with
              | err => exact ⟨⟨_, rfl⟩, g1.append f1, g2.append f2, f3.trans g3⟩
              | nil => exact absurd (e1lf.append (f4 (by simp))) hlf
              | some h2 => exact absurd ((e1lf.append (f4 (by simp))).append (AllB.single rfl)) hlf
    · rw [Loc.start_len hlen] at hlf; exact absurd (hnew s [] (AllB.nil _)) hlf

theorem createNew_del_pre {cfg : Cfg} {s : State} {r : Req} {pre : List Ev} {k : ID}
    (hd : Ev.del k ∈ (createNew cfg s r pre).2.2) : Ev.del k ∈ pre := by
  have hS := (cacheSet_saveOnly cfg (Loc.newS1 s r) s.heap.length).del
  cases hc : r.create with
  | false => rw [Loc.createNew_no pre hc] at hd; exact hd
  | true =>
    rw [Loc.createNew_yes pre hc] at hd
    split at hd
    · rcases List.mem_append.1 hd with h | h
      · exact h
      · exact absurd h (hS.not_mem_del k)
    · rcases List.mem_append.1 hd with h | h
      · rcases List.mem_append.1 h with h | h
        · exact h
        · exact absurd h (hS.not_mem_del k)
      · simp at h

/-- **what a `Start` that deletes has found**: a successful `DeleteSession` inside `Start` happens only after `cache.Get`
returned an object `h` for the presented id, and either that object failed the validity test (stale, or address/agent
anomaly: the request `Destroy`s it, deleting the record under the OBJECT's id), or it is a reference record past its
grace period (the back-stop: the record under the PRESENTED id is deleted). In particular never after a failed load
(`start_failed_load_quiet`). Every state, every oracle. -/
theorem start_del_cases (cfg : Cfg) (s : State) (r : Req) (k : ID) (hd : Ev.del k ∈ (start cfg s r).2.2) :
    ∃ id s1 h e1, r.cookie = some id ∧ r.cookieLen = 24 ∧ cacheGet cfg s id = (s1, .some h, e1) ∧
      ((validFor cfg s1.now (s1.obj h) r = false ∧ k = (s1.obj h).id) ∨
       (validFor cfg s1.now (s1.obj h) r = true ∧ (s1.obj h).ref ≠ none ∧
          since s1.now (s1.obj h).created ≥ cfg.idExpiry ∧ since s1.now (s1.obj h).created - cfg.idExpiry ≥ cfg.grace ∧ k = id)) := by
  have hnew : ∀ s' pre, AllB isDel pre → AllB isDel (createNew cfg s' r pre).2.2 :=
    fun s' pre hp => createNew_allB cfg s' r pre hp (fun _ _ => rfl) (fun _ => rfl) (fun _ => rfl)
  cases hck : r.cookie with
  | none => rw [Loc.start_none hck] at hd; exact absurd hd ((hnew s [] (AllB.nil _)).not_mem_del k)
  | some id =>
    by_cases hlen : r.cookieLen = 24
    · rw [Loc.start_some hck hlen] at hd
      have g1 := cacheGet_del cfg s id
      rcases hg : cacheGet cfg s id with ⟨s1, res, e1⟩
      rw [hg] at hd g1
      cases res with
      | err => exact absurd hd (g1.not_mem_del k)
      | nil => exact absurd hd ((hnew s1 _ (g1.append (AllB.single rfl))).not_mem_del k)
      | some h =>
        refine ⟨id, s1, h, e1, rfl, hlen, hg, ?_⟩
        simp only [Loc.startGot] at hd
        split at hd
        · rename_i hvf
          left
          refine ⟨hvf, ?_⟩
          unfold Loc.startInvalid at hd
          have hkey : ∀ l, AllB isDel l → Ev.del k ∈ e1 ++ (destroy s1 h true).2.2 ++ l → k = (s1.obj h).id := by
            intro l hl hm
            rcases List.mem_append.1 hm with hm | hm
            · rcases List.mem_append.1 hm with hm | hm
              · exact absurd hm (g1.not_mem_del k)
              · rw [Loc.destroy_eq] at hm
                have hcd : Ev.del k ∈ (cacheDelete s1 (s1.obj h).id).2.2 ∨ Ev.del k ∈ [Ev.delCookie] := by
                  split at hm
                  · exact Or.inl hm
                  · split at hm
                    · exact List.mem_append.1 hm
                    · exact Or.inl hm
                rcases hcd with hcd | hcd
                · rcases cacheDelete_evs s1 (s1.obj h).id with he | he <;> rw [he] at hcd <;> simp at hcd
                  exact hcd
                · simp at hcd
            · exact absurd hm (hl.not_mem_del k)
          split at hd
          · exact hkey [] (AllB.nil _) (by simpa using hd)
          · exact hkey [] (AllB.nil _) (by simpa using createNew_del_pre hd)
        · rename_i hvf
          right
          have hvt : validFor cfg s1.now (s1.obj h) r = true := by simpa using hvf
          refine ⟨hvt, ?_⟩
          cases href : (s1.obj h).ref with
          | none =>
            by_cases hage : since s1.now (s1.obj h).created ≥ cfg.idExpiry
            · rw [Loc.startValid_rotate id r e1 href hage] at hd
              have hR := g1.append (regenerate_del cfg s1 h)
              split at hd <;> exact absurd hd (hR.not_mem_del k)
            · rw [Loc.startValid_young id r e1 href (by omega)] at hd
              exact absurd hd (g1.not_mem_del k)
          | some t =>
            by_cases hage : since s1.now (s1.obj h).created ≥ cfg.idExpiry ∧ since s1.now (s1.obj h).created - cfg.idExpiry ≥ cfg.grace
            · rw [Loc.startValid_ref_expired id r e1 href hage] at hd
              refine ⟨by simp, hage.1, hage.2, ?_⟩
              have hm : Ev.del k ∈ e1 ++ (cacheDelete s1 id).2.2 := by split at hd <;> exact hd
              rcases List.mem_append.1 hm with hm | hm
              · exact absurd hm (g1.not_mem_del k)
              · rcases cacheDelete_evs s1 id with he | he <;> rw [he] at hm <;> simp at hm
                exact hm
            · rw [Loc.startValid_ref id r e1 href hage] at hd
              obtain ⟨f1, _, _⟩ := follow_facts cfg (s1.store.length + s1.cache.length + 1) s1 h
              generalize follow cfg (s1.store.length + s1.cache.length + 1) s1 h = y at hd f1
              obtain ⟨s2, res2, e2⟩ := y
              cases res2 with
              | err => exact absurd hd ((g1.append f1).not_mem_del k)
              | nil => exact absurd hd ((g1.append f1).not_mem_del k)
              | some h2 => exact absurd hd (((g1.append f1).append (AllB.single rfl)).not_mem_del k)
    · rw [Loc.start_len hlen] at hd; exact absurd hd ((hnew s [] (AllB.nil _)).not_mem_del k)

/-! ## 4. C11 at the level of histories: no silent loss, no deletion after a failed load

`Faulty11Store.lean` proves that the store after ANY step is the store before it with the events of the transcript
applied (`step_store_follows_events`, `step_store_frozen`, `hist_store_follows_events`; `applyEvs`). Consequences: -/

/-- **`c11_no_silent_loss`, part 1.** Whatever the oracles: a record that is in the store before a step is still in the
store after it (possibly overwritten by a successful save), unless the transcript of that very step shows a successful
`DeleteSession` of its id by the call (`.del k ∈ evs`) or by a clean-up goroutine (`.bg _ k ∈ bg`). Failed saves, failed
deletes, failed loads, failed user look-ups never remove anything. No hypothesis on the world at all: any state, any
oracle, crash point or not (a crash point only discards a tail of the shown mutations, `step_store_frozen`). -/
theorem c11_no_silent_loss (le : ID → ID → Bool) (w : World) (orc : Orc) (op : Op) (k : ID) (r : Rec)
    (hl : lookup k w.st.store = some r)
    (hkeep : ∀ e ∈ (w.step le orc op).2.evs ++ (w.step le orc op).2.bg, KeepsKey k e) :
    (lookup k (w.step le orc op).1.st.store).isSome = true := by
  cases hfz : (w.step le orc op).2.frozen with
  | none => rw [step_store_follows_events le w orc op (Or.inl hfz)]; exact lookup_applyEvs_keep hl hkeep
  | some x =>
    cases x with
    | none => rw [step_store_follows_events le w orc op (Or.inr hfz)]; exact lookup_applyEvs_keep hl hkeep
    | some n =>
      rw [step_store_frozen le w orc op n hfz]
      apply lookup_applyEvs_keep hl
      intro e he
      rcases List.mem_append.1 he with he | he
      · exact hkeep e (List.mem_append_left _ (List.mem_filter.1 (List.mem_of_mem_take he)).1)
      · exact hkeep e (List.mem_append_right _ he)

/-- … and a record no event of the step writes or deletes is literally unchanged. -/
theorem c11_untouched (le : ID → ID → Bool) (w : World) (orc : Orc) (op : Op) (k : ID)
    (hf : (w.step le orc op).2.frozen = none ∨ (w.step le orc op).2.frozen = some none)
    (hav : ∀ e ∈ (w.step le orc op).2.evs ++ (w.step le orc op).2.bg, AvoidsKey k e) :
    lookup k (w.step le orc op).1.st.store = lookup k w.st.store := by
  rw [step_store_follows_events le w orc op hf]
  exact lookup_applyEvs_untouched hav _

/-! ### which steps can show a successful delete -/

theorem purgeList_saveOnly (cfg : Cfg) : ∀ (l : List (ID × Nat)) (s : State), SaveOnly (purgeList cfg s l).2
  | [], _ => SaveOnly.nil
  | (id, h) :: rest, s => (saveRec_saveOnly cfg s id (s.obj h)).append (purgeList_saveOnly cfg rest _)

theorem purge_del (cfg : Cfg) (s : State) : AllB isDel (purge cfg s).2 := (purgeList_saveOnly cfg _ s).del

theorem saveObj_del (cfg : Cfg) (s : State) (h : Nat) : AllB isDel (saveObj cfg s h).2.2 := (saveRec_saveOnly cfg s _ _).del

theorem hset_del (cfg : Cfg) (s : State) (h : Nat) (k : String) (v : Val) : AllB isDel (hset cfg s h k v).2.2 := by
  cases hd : (s.obj h).data with
  | none => rw [Loc.hset_none k v hd]; exact AllB.nil _
  | some d => rw [Loc.hset_some k v hd]; exact saveObj_del cfg _ h

theorem hdel_del (cfg : Cfg) (s : State) (h : Nat) (k : String) : AllB isDel (hdel cfg s h k).2.2 := by
  rw [Loc.hdel_eq]; exact saveObj_del cfg _ h

theorem hgetdel_del (cfg : Cfg) (s : State) (h : Nat) (k : String) : AllB isDel (hgetdel cfg s h k).2.2 := by
  cases hl : lookup k ((s.obj h).data.getD []) with
  | none => rw [Loc.hgetdel_none hl]; exact AllB.nil _
  | some v => rw [Loc.hgetdel_some hl]; exact saveObj_del cfg _ h

theorem hlogout_del (cfg : Cfg) (s : State) (h : Nat) : AllB isDel (hlogout cfg s h).2.2 := by
  cases hu : (s.obj h).user with
  | none => rw [Loc.hlogout_none hu]; exact AllB.nil _
  | some u => rw [Loc.hlogout_some hu]; exact saveObj_del cfg _ h

theorem setUserAll_del (cfg : Cfg) (u : Option (String × Nat)) : ∀ (ids : List ID) (s : State),
    AllB isDel (setUserAll cfg u ids s).2.2
  | [], s => by rw [Loc.setUserAll_nil]; exact AllB.nil _
  | id :: rest, s => by
    have hG := cacheGet_del cfg s id
    rcases hg : cacheGet cfg s id with ⟨s1, res, e1⟩
    rw [hg] at hG
    cases res with
    | err => rw [Loc.setUserAll_cons_err hg]; exact hG
    | nil => rw [Loc.setUserAll_cons_nil hg]; exact hG.append (setUserAll_del cfg u rest s1)
    | some h =>
      rw [Loc.setUserAll_cons_some hg]
      have hU : AllB isDel (Loc.userSet cfg u s1 h).2.2 := (cacheSet_saveOnly cfg _ h).del
      split
      · exact hG.append hU
      · exact (hG.append hU).append (setUserAll_del cfg u rest _)

theorem forUser_del (cfg : Cfg) (le : ID → ID → Bool) (s : State) (uid : String) (u : Option (String × Nat)) :
    AllB isDel (forUser cfg le s uid u).2.2 := by
  rw [Loc.forUser_eq]; split
  · exact AllB.single rfl
  · exact AllB.cons rfl (setUserAll_del cfg u _ _)

theorem hlogin_del (cfg : Cfg) (le : ID → ID → Bool) (s : State) (h : Nat) (uid : String) (excl : Bool) :
    AllB isDel (hlogin cfg le s h uid excl).2.2 := by
  have hP : AllB isDel (Loc.loginPre cfg le s h uid excl).2.2 := by
    unfold Loc.loginPre; split
    · exact forUser_del cfg le s uid none
    · exact hlogout_del cfg s h
  have hS : AllB isDel (Loc.loginSet cfg le s h uid excl).2.2 := (cacheSet_saveOnly cfg _ h).del
  rw [Loc.hlogin_eq]; split
  · exact hP
  · split
    · exact hP.append hS
    · exact (hP.append hS).append (regenerate_del cfg _ h)

theorem mem_filter_del {evs : List Ev} {k : ID} (h : Ev.del k ∈ evs.filter (fun e => !isCookie e)) : Ev.del k ∈ evs :=
  (List.mem_filter.1 h).1

/-- **`c11_no_silent_loss`, part 2: a successful delete is shown only by a step that invalidated the session or by
`Destroy`.** For every world, oracle and operation: if the events of the step contain `.del k` then
either the operation is the handler's `Destroy` on the request's session, whose id is `k`; or it is a request whose
`Start` got an object `h` for the presented id from `cache.Get` and found it invalid (stale / address or agent anomaly:
`k` is that object's id) or found a reference record past its grace period (back-stop: `k` is the presented id) — and
in that case the step shows NO failed load (`loadFail`, `userFail`, `loadErr`) at all. No other operation —
`Set`, `Delete`, `GetAndDelete`, `LogIn`, `LogOut`, `RegenerateID`, `LogOut(uid)`, `RefreshUser`, `PurgeSessions` —
ever deletes a record, whatever fails. -/
theorem c11_del_only_by_invalidation (le : ID → ID → Bool) (w : World) (orc : Orc) (op : Op) (k : ID)
    (hd : Ev.del k ∈ (w.step le orc op).2.evs) :
    (∃ h, op = .h .destroy ∧ w.cur = some h ∧ k = (w.st.obj h).id) ∨
    (∃ client spec ip ua create, op = .req client spec ip ua create ∧
      AllB isLoadFail (w.step le orc op).2.evs ∧
      ∃ id s1 h e1, (reqOf1 w client spec ip ua create).cookie = some id ∧
        cacheGet w.cfg (orcSt w orc) id = (s1, .some h, e1) ∧
        ((validFor w.cfg s1.now (s1.obj h) (reqOf1 w client spec ip ua create) = false ∧ k = (s1.obj h).id) ∨
         (validFor w.cfg s1.now (s1.obj h) (reqOf1 w client spec ip ua create) = true ∧ (s1.obj h).ref ≠ none ∧
            since s1.now (s1.obj h).created ≥ w.cfg.idExpiry ∧
            since s1.now (s1.obj h).created - w.cfg.idExpiry ≥ w.cfg.grace ∧ k = id))) := by
  have hsk : w.skip = false := by
    cases hs : w.skip with
    | false => rfl
    | true => rw [(step_skip_out le w orc op hs).1] at hd; cases hd
  cases op with
  | req client spec ip ua create =>
    right
    rw [step_req le w orc client spec ip ua create hsk] at hd ⊢
    simp only at hd ⊢
    rw [(apiCall_out3 _ orc _ true).1] at hd ⊢
    have hd' : Ev.del k ∈ (start w.cfg (orcSt w orc) (reqOf1 w client spec ip ua create)).2.2 := mem_filter_del hd
    obtain ⟨id, s1, h, e1, hck, _, hg, hcases⟩ := start_del_cases w.cfg (orcSt w orc) _ k hd'
    refine ⟨client, spec, ip, ua, create, rfl, ?_, id, s1, h, e1, hck, hg, hcases⟩
    have hq : AllB isLoadFail (start w.cfg (orcSt w orc) (reqOf1 w client spec ip ua create)).2.2 := by
      cases Classical.em (AllB isLoadFail (start w.cfg (orcSt w orc) (reqOf1 w client spec ip ua create)).2.2) with
      | inl h => exact h
      | inr h => exact absurd hd' ((start_failed_load_quiet w.cfg (orcSt w orc) _ h).2.1.not_mem_del k)
    intro e he
    exact hq e (List.mem_filter.1 he).1
  | h hop =>
    cases hc : w.cur with
    | none => rw [step_h_none le w orc hop hsk hc] at hd; simp at hd
    | some h =>
      rw [step_h_some le w orc hop h hsk hc, (apiCall_out3 w orc _ true).1] at hd
      have hd' := mem_filter_del hd
      cases hop with
      | destroy =>
        left
        refine ⟨h, rfl, rfl, ?_⟩
        have hm : Ev.del k ∈ (destroy (orcSt w orc) h w.hasCookie).2.2 := hd'
        rw [Loc.destroy_eq] at hm
        have hcd : Ev.del k ∈ (cacheDelete (orcSt w orc) ((orcSt w orc).obj h).id).2.2 := by
          split at hm
          · exact hm
          · split at hm
            · rcases List.mem_append.1 hm with h' | h'
              · exact h'
              · simp at h'
            · exact hm
        rcases cacheDelete_evs (orcSt w orc) ((orcSt w orc).obj h).id with he | he <;> rw [he] at hcd <;> simp at hcd
        exact hcd
      | set k' v => exact absurd hd' ((hset_del w.cfg _ h k' v).not_mem_del k)
      | del k' => exact absurd hd' ((hdel_del w.cfg _ h k').not_mem_del k)
      | get k' => simp [hRun] at hd'
      | getdel k' => exact absurd hd' ((hgetdel_del w.cfg _ h k').not_mem_del k)
      | login uid excl => exact absurd hd' ((hlogin_del w.cfg le _ h uid excl).not_mem_del k)
      | logout => exact absurd hd' ((hlogout_del w.cfg _ h).not_mem_del k)
      | regen => exact absurd hd' ((regenerate_del w.cfg _ h).not_mem_del k)
      | expired => simp [hRun] at hd'
      | lastaccess => simp [hRun] at hd'
      | user => simp [hRun] at hd'
  | purge =>
    unfold World.step at hd
    simp only [hsk, Bool.false_and, Bool.false_eq_true, if_false, finish_snd_evs] at hd
    rw [(apiCall_out3 w orc _ false).1] at hd
    exact absurd (mem_filter_del hd) ((purge_del w.cfg _).not_mem_del k)
  | logoutUser uid =>
    unfold World.step at hd
    simp only [hsk, Bool.false_and, Bool.false_eq_true, if_false, finish_snd_evs] at hd
    rw [(apiCall_out3 w orc _ false).1] at hd
    exact absurd (mem_filter_del hd) ((forUser_del w.cfg le _ uid none).not_mem_del k)
  | refresh uid =>
    unfold World.step at hd
    simp only [hsk, Bool.false_and, Bool.false_eq_true, if_false, finish_snd_evs] at hd
    rw [(apiCall_out3 w orc _ false).1] at hd
    exact absurd (mem_filter_del hd) ((forUser_del w.cfg le _ uid _).not_mem_del k)
  | _ =>
    unfold World.step at hd
    simp only [hsk, Bool.false_and, Bool.false_eq_true, if_false, finish_snd_evs] at hd
    simp at hd

/-- **`c11_failed_load_global`** (C11 "a failed load is never treated as 'no such session'"), every world, every
oracle: a request whose transcript shows a failed load — of the presented id or of an id on its reference chain —
returns an error, sends no cookie (the client's cookie is not expired, no new cookie is set), shows no successful
delete, and mints no id (no replacement session is created). With `c11_no_silent_loss`: every record in the store
before the request is in the store after it, up to the clean-up goroutines of the tick. -/
theorem c11_failed_load_global (le : ID → ID → Bool) (w : World) (orc : Orc) (client : String) (spec : CookieSpec)
    (ip ua : String) (create : Bool)
    (hlf : ¬ AllB isLoadFail (w.step le orc (.req client spec ip ua create)).2.evs) :
    (w.step le orc (.req client spec ip ua create)).2.ret = some (.str "err") ∧
    (w.step le orc (.req client spec ip ua create)).2.cookies = [] ∧
    AllB isDel (w.step le orc (.req client spec ip ua create)).2.evs ∧
    (w.step le orc (.req client spec ip ua create)).1.cur = none ∧
    (w.step le orc (.req client spec ip ua create)).1.st.nextId = w.st.nextId := by
  have hsk : w.skip = false := by
    cases hs : w.skip with
    | false => rfl
    | true => rw [(step_skip_out le w orc _ hs).1] at hlf; exact absurd (AllB.nil _) hlf
  rw [step_req le w orc client spec ip ua create hsk] at hlf ⊢
  simp only at hlf ⊢
  rw [(apiCall_out3 _ orc _ true).1] at hlf ⊢
  have hlf' : ¬ AllB isLoadFail (start w.cfg (orcSt w orc) (reqOf1 w client spec ip ua create)).2.2 := by
    intro h; exact hlf (fun e he => h e (List.mem_filter.1 he).1)
  obtain ⟨⟨m, hm⟩, hdel, hck, hn⟩ := start_failed_load_quiet w.cfg (orcSt w orc) _ hlf'
  refine ⟨?_, ?_, ?_, ?_, ?_⟩
  · rw [(apiCall_out _ orc _ true).1]
    show some (resStr (start w.cfg (orcSt w orc) (reqOf1 w client spec ip ua create)).2.1).1 = _
    rw [hm]; rfl
  · rw [(apiCall_out _ orc _ true).2.1]
    show (start w.cfg (orcSt w orc) (reqOf1 w client spec ip ua create)).2.2.filter isCookie = []
    rw [List.filter_eq_nil_iff]
    intro e he; rw [hck e he]; simp
  · intro e he; exact hdel e (List.mem_filter.1 he).1
  · rw [apiCall_fst]
    show curOf (start w.cfg (orcSt w orc) (reqOf1 w client spec ip ua create)).2.1 = none
    rw [hm]; rfl
  · rw [apiCall_st, advance_nextId]
    have : ∀ (w' : World) s1 evs, (apiMid w' s1 evs).nextId = s1.nextId := by
      intro w' s1 evs; unfold apiMid; cases apiFrz w' evs <;> rfl
    rw [this]
    exact hn

/-! ## 5. coherence with faults

### 5.1 the per-key formulation is FALSE in the model

The intended statement — "`dirty` = the ids whose cached object disagrees with the store; an id enters this set only in
an operation that reported a failure", equivalently the ghost version "an id is marked when an operation on it fails
and cleared by its next successful save; clean cached ids agree with the store" — does not hold for this model (nor,
the model being the image of `cache.go`/`session.go`, for the library). A failure can leave TWO objects for one id
without any disagreement yet, and the next, fault-free and successful, call creates the disagreement:

`pkScript` (cache size 1, two sessions `gen 0`/`gen 1`, stale user-index entries listing both for `u`, the user listing
sorted so that `gen 1` comes first): request 7 is served with object 2 for `gen 0`. `LogIn(u, exclusive)` (step 8)
loads `gen 1` (evicting `gen 0`), then — `gen 0` not being cached any more — loads a SECOND object 4 for `gen 0`, whose
write-through save fails: `LogIn` returns the error. At this boundary every cached object agrees with its record (the
state-based dirty set is empty; the ghost has `gen 0` marked). Step 9, `Set("k", 1)` on the request's object 2, succeeds
without any fault and saves `gen 0` (the ghost clears `gen 0`) — and now the CACHED object 4 disagrees with the record:
`gen 0` entered the state-based dirty set in a step with `faulted = 0`, `ret = ok`, and the ghost invariant fails. -/

def revLe : ID → ID → Bool := fun a b => idLe b a

def pkScript : List (Orc × Op) :=
  [ ({}, .cfg "maxCache" 1),
    ({}, .req "a" .none "1.2.3.4:5" "ua" true),
    ({}, .endReq),
    ({}, .req "b" .none "1.2.3.4:5" "ub" true),
    ({}, .endReq),
    ({}, .stale "u" (.gen 0)),
    ({}, .stale "u" (.gen 1)),
    ({}, .req "a" .jar "1.2.3.4:5" "ua" false),
    ({ fails := [false, false, false, false, false, false, true] }, .h (.login "u" true)),
    ({}, .h (.set "k" (.int 1))),
    ({}, .endReq) ]

def pkOut (n : Nat) : Out :=
  match pkScript[n]? with
  | some (o, op) => ((runHist revLe {} (pkScript.take n)).step revLe o op).2
  | none => {}

#guard (pkOut 8).ret == some (.str "err") && (pkOut 8).faulted == 1 && (pkOut 8).evs.getLast? == some (.saveFail (.gen 0))
#guard cohB .gob (runHist revLe {} (pkScript.take 9)).st && wfB (runHist revLe {} (pkScript.take 9)).st  -- nothing dirty
#guard (runHist revLe {} (pkScript.take 9)).cur == some 2 && (runHist revLe {} (pkScript.take 9)).st.cache == [(.gen 0, 4)]
#guard (pkOut 9).ret == some (.str "ok") && (pkOut 9).faulted == 0                                       -- no failure
#guard ((pkOut 9).evs.map (fun e => match e with | .save id _ => some id | _ => none)) == [some (.gen 0)] -- saved
#guard !cohB .gob (runHist revLe {} (pkScript.take 10)).st                                              -- … and dirty
/-- the side conditions of the epoch theorem below hold for the script (so it is no artefact of an ill-formed history) -/
example : HistOKs pkScript := histOKs_of_b (by decide)

/-! ### 5.2 what does hold: coherence is lost only in a step that shows a fault, and regained at the next empty cache

`taint`: a Boolean ghost computed from the outputs and two observable facts of the boundary (cache empty, no request
session): set by every step that shows a failed persistence call (`Out.faulted > 0`), reset when the cache is empty
and no request holds a session (after `dropcache`/`PurgeSessions`/a restart between requests, or simply before the first
request). Invariant: at every untainted boundary the FULL fault-free invariant `WInv` (coherence of every cached entry,
`wf`, the handle invariant) holds. -/

/-- the shape facts of `WInv` that do not depend on faults -/
structure WShape (w : World) : Prop where
  cur_req : ∀ h, w.cur = some h → w.inReq = true
  skip_crashed : w.skip = true → w.crashed = true

theorem finW_shape {w : World} (hw : WShape w) : WShape (finW w) := by
  unfold finW
  split
  · exact ⟨hw.cur_req, by intro h; simp at h⟩
  · exact hw

theorem apiCall_shape (w : World) (orc : Orc) (run : State → State × RetV × Option String × List Ev) (b : Bool)
    (hw : WShape w) : WShape (apiCall w orc run b).1 := by
  rw [apiCall_fst]
  refine ⟨hw.cur_req, ?_⟩
  intro h
  simp only [Bool.or_eq_true, Bool.and_eq_true] at h ⊢
  rcases h with h | h
  · exact Or.inl (hw.skip_crashed h)
  · exact Or.inr h.1

theorem shape_step (le : ID → ID → Bool) (w : World) (orc : Orc) (op : Op) (hw : WShape w) : WShape (w.step le orc op).1 := by
  by_cases hsk : w.skip = true
  · by_cases he : op = .endReq
    · subst he
      unfold World.step
      simp only [Bool.not_true, Bool.and_false, Bool.false_eq_true, if_false, finish_fst]
      exact finW_shape ⟨by intro h hh; simp at hh, by intro h; simp at h⟩
    · rw [step_skip le w orc op hsk he]; exact hw
  · have hsk' : w.skip = false := by simpa using hsk
    unfold World.step
    cases op with
    | req client spec ip ua create =>
      simp only [hsk', Bool.false_and, Bool.false_eq_true, if_false]
      exact apiCall_shape _ orc _ true ⟨by intro _ _; rfl, by intro h; simp at h⟩
    | h hop =>
      simp only [hsk', Bool.false_and, Bool.false_eq_true, if_false]
      cases hc : w.cur with
      | none => exact hw
      | some h => exact apiCall_shape w orc _ true hw
    | endReq =>
      simp only [hsk', Bool.false_and, Bool.false_eq_true, if_false, finish_fst]
      exact finW_shape ⟨by intro h hh; simp at hh, by intro h; simp at h⟩
    | crash =>
      simp only [hsk', Bool.false_and, Bool.false_eq_true, if_false, finish_fst]
      exact finW_shape ⟨hw.cur_req, fun _ => rfl⟩
    | purge =>
      simp only [hsk', Bool.false_and, Bool.false_eq_true, if_false, finish_fst]
      exact finW_shape (apiCall_shape w orc _ false hw)
    | logoutUser uid =>
      simp only [hsk', Bool.false_and, Bool.false_eq_true, if_false, finish_fst]
      exact finW_shape (apiCall_shape w orc _ false hw)
    | refresh uid =>
      simp only [hsk', Bool.false_and, Bool.false_eq_true, if_false, finish_fst]
      exact finW_shape (apiCall_shape w orc _ false hw)
    | _ =>
      simp only [hsk', Bool.false_and, Bool.false_eq_true, if_false, finish_fst]
      exact finW_shape ⟨hw.cur_req, by intro h; simp [hsk'] at h⟩

/-- an empty cache and no request session: the structural invariant is the whole invariant -/
theorem winv_of_empty {c : Codec} {w : World} (hs : WSInv c w) (hsh : WShape w) (hc : w.st.cache = []) (hcur : w.cur = none) :
    WInv c w := by
  refine ⟨hs.codec, hs.inv.sok, hsh.cur_req, hsh.skip_crashed, fun _ => ⟨?_, by intro h hh; rw [hcur] at hh; cases hh⟩⟩
  exact ⟨hs.inv.cnodup, hs.inv.valid, (by intro id h hm; rw [hc] at hm; cases hm), (by intro id h hm; rw [hc] at hm; cases hm),
    hs.inv.ckeys, fun id h hm => hs.inv.hrefs h (hs.inv.valid id h hm), hs.inv.sok, hs.inv.tkeys⟩

/-- the taint after a step: observable from the output (`faulted`) and the boundary (`cache`, `cur`, both in the dump) -/
def taintStep (t : Bool) (w' : World) (o : Out) : Bool :=
  if w'.st.cache.isEmpty && w'.cur.isNone then false else t || decide (o.faulted > 0)

/-- world and taint along a history -/
def runTaint (le : ID → ID → Bool) : World × Bool → List (Orc × Op) → World × Bool
  | p, [] => p
  | (w, t), (o, op) :: r => runTaint le ((w.step le o op).1, taintStep t (w.step le o op).1 (w.step le o op).2) r

theorem runTaint_fst (le : ID → ID → Bool) (hist : List (Orc × Op)) (w : World) (t : Bool) :
    (runTaint le (w, t) hist).1 = runHist le w hist := by
  induction hist generalizing w t with
  | nil => rfl
  | cons p r ih => obtain ⟨o, op⟩ := p; exact ih _ _

/-- `HistOK` minus the no-fail part of `OrcOK`: the oracles are arbitrary -/
def HistOKf (le : ID → ID → Bool) (w : World) : List (Orc × Op) → Prop
  | [] => True
  | (o, op) :: r => OpOK le w op ∧ HistOKf le (w.step le o op).1 r

theorem opOKs_of_opOK {le : ID → ID → Bool} {w : World} {op : Op} (h : OpOK le w op) : OpOKs op := by
  cases op <;> first | trivial | exact h

/-- the epoch invariant -/
structure CohE (c : Codec) (w : World) (t : Bool) : Prop where
  s : WSInv c w
  shape : WShape w
  coh : t = false → WInv c w

theorem cohE_step {c : Codec} (le : ID → ID → Bool) (w : World) (t : Bool) (orc : Orc) (op : Op) (h : CohE c w t)
    (hop : OpOK le w op) :
    CohE c (w.step le orc op).1 (taintStep t (w.step le orc op).1 (w.step le orc op).2) := by
  have hs := sinv_step le w orc op h.s (opOKs_of_opOK hop)
  have hsh := shape_step le w orc op h.shape
  refine ⟨hs, hsh, ?_⟩
  unfold taintStep
  split
  · rename_i he
    simp only [Bool.and_eq_true, List.isEmpty_iff, Option.isNone_iff_eq_none] at he
    intro _; exact winv_of_empty hs hsh he.1 he.2
  · intro ht
    simp only [Bool.or_eq_false_iff, decide_eq_false_iff_not, Nat.not_lt, Nat.le_zero_eq] at ht
    exact step_inv_of_not_faulted le w orc op (h.coh ht.1) hop ht.2

theorem cohE_hist {c : Codec} (le : ID → ID → Bool) (hist : List (Orc × Op)) (w : World) (t : Bool) (h : CohE c w t)
    (hok : HistOKf le w hist) : CohE c (runTaint le (w, t) hist).1 (runTaint le (w, t) hist).2 := by
  induction hist generalizing w t with
  | nil => exact h
  | cons p r ih =>
    obtain ⟨o, op⟩ := p
    exact ih _ _ (cohE_step le w t o op h hok.1) hok.2

/-- **`cohf_all_histories_partial`.** For EVERY history whose requests are well-formed (`HistOKf` = `HistOK` without the
no-fault condition: no codec switch, `LogOut(uid)`/`RefreshUser` from outside a request do not list the request's
session) and EVERY fault oracle: at every boundary at which the taint is off, the full invariant `WInv` holds — every
cached object carries its key as id and agrees on `ess` with the record stored under it, and the request's handle is
the cached object for its id. The taint is switched on only by a step that SHOWS a failed persistence call and off by
the next boundary with an empty cache and no request session.

`_partial`: the dirtiness is one bit for the whole cache, not a set of ids. The per-id refinement asked for
(`k ∈ dirty ∨ stored record agrees`, with ids entering `dirty` only in failing operations on them and leaving it at their
next successful save) is FALSE in this model: `pkScript` above. What a true per-id statement would have to add is a
second way of being dirty — "another reachable object (the request's handle, or an object cached under an older id after
a failed `RegenerateID`, `wf_fails_under_faults`) claims this id" — whose clearing is not observable from saves. -/
theorem cohf_all_histories_partial (le : ID → ID → Bool) (cfg : Cfg) (ck : CookieCfg) (hist : List (Orc × Op))
    (hok : HistOKf le { cfg := cfg, ck := ck } hist) :
    CohE cfg.codec (runHist le { cfg := cfg, ck := ck } hist) (runTaint le ({ cfg := cfg, ck := ck }, false) hist).2 := by
  have := cohE_hist le hist { cfg := cfg, ck := ck } false
    ⟨init_wsinv cfg ck, ⟨by intro h hh; simp at hh, by intro h; simp at h⟩, fun _ => init_winv cfg ck⟩ hok
  rwa [runTaint_fst] at this

/-- **no silent loss of coherence**: one step from a coherent boundary, any oracle. Either the step shows a failed
persistence call (`faulted > 0` in its output), or the full invariant holds again afterwards. -/
theorem coh_lost_only_by_shown_fault {c : Codec} (le : ID → ID → Bool) (w : World) (orc : Orc) (op : Op) (hw : WInv c w)
    (hop : OpOK le w op) : (w.step le orc op).2.faulted > 0 ∨ WInv c (w.step le orc op).1 := by
  cases hf : (w.step le orc op).2.faulted with
  | zero => exact Or.inr (step_inv_of_not_faulted le w orc op hw hop hf)
  | succ n => exact Or.inl (Nat.succ_pos n)

/-- … spelled out for the cache entries: at an untainted boundary with the process alive, every cached object agrees
with its stored record on user, creation time, reference and data (C09's crash equivalence), faults before or not. -/
theorem c09_untainted_crash_equiv (le : ID → ID → Bool) (cfg : Cfg) (ck : CookieCfg) (hist : List (Orc × Op))
    (hok : HistOKf le { cfg := cfg, ck := ck } hist)
    (ht : (runTaint le ({ cfg := cfg, ck := ck }, false) hist).2 = false)
    (hsk : (runHist le { cfg := cfg, ck := ck } hist).skip = false)
    (id : ID) (h : Nat) (hm : (id, h) ∈ (runHist le { cfg := cfg, ck := ck } hist).st.cache) :
    ((runHist le { cfg := cfg, ck := ck } hist).st.obj h).id = id ∧
    ∃ r, lookup id (runHist le { cfg := cfg, ck := ck } hist).st.store = some r ∧
      ess (enc cfg.codec ((runHist le { cfg := cfg, ck := ck } hist).st.obj h)) = ess r := by
  have hI := (((cohf_all_histories_partial le cfg ck hist hok).coh ht).good hsk).1
  exact ⟨hI.wf id h hm (by simp), hI.coh id h hm (by simp)⟩

/-! ## 6. non-vacuity of §2–§5 on `fxScript` (failing save, load, delete, user listing, rotation; a crash point) -/

theorem histOKf_of_plain (le : ID → ID → Bool) (hist : List (Orc × Op)) (w : World) (h : ∀ p ∈ hist, p.2.plain = true) :
    HistOKf le w hist := by
  induction hist generalizing w with
  | nil => trivial
  | cons p r ih =>
    obtain ⟨o, op⟩ := p
    have h2 := h (o, op) List.mem_cons_self
    refine ⟨?_, ih _ (fun p hp => h p (List.mem_cons_of_mem _ hp))⟩
    cases op <;> first | trivial | (simp [Op.plain] at h2)

theorem fxScript_okf (w : World) : HistOKf idLe w fxScript := histOKf_of_plain idLe fxScript w (by decide)

/-- the epoch theorem applies to the faulty script, at the end and at every boundary -/
example : CohE .gob (runHist idLe {} fxScript) (runTaint idLe ({}, false) fxScript).2 :=
  cohf_all_histories_partial idLe {} {} fxScript (fxScript_okf _)

/-- the taint along the script: on after the failed `Set` (1), off after `dropcache` between requests (4), untouched by
the failed load of request 5 … which ends with an empty cache and no session, on again from the failed `Destroy` (8) to
the restart (16) -/
def fxTaint (n : Nat) : Bool := (runTaint idLe ({}, false) (fxScript.take n)).2
#guard (List.range 18).map fxTaint ==
  [false, false, true, true, true, false, false, false, false, true, true, true, true, true, true, true, true, false]
-- … and at the untainted boundaries the cache does agree with the store, at tainted ones it need not
#guard (List.range 18).all (fun n => fxTaint n || cohB .gob (runHist idLe {} (fxScript.take n)).st)
#guard !cohB .gob (runHist idLe {} (fxScript.take 2)).st     -- after the failed `Set` the cached object is ahead of the store

/-- `c09_ack_saved_global` applies to step 2 (the `Set` that succeeds after the `Set` whose save failed): the id that was
dirty is clean again -/
example : Saved .gob (runHist idLe {} (fxScript.take 3)).st 0 := by
  have hw := sinv_every_boundary idLe {} {} fxScript fxScript_ok 2
  have h := c09_ack_saved_global idLe (runHist idLe {} (fxScript.take 2)) {} (.set "k" (.int 2)) 0 hw
    (by decide +kernel) (by decide +kernel) trivial (by decide +kernel)
    (by
      have hbg : ((runHist idLe {} (fxScript.take 2)).step idLe {} (.h (.set "k" (.int 2)))).2.bg = [] := by decide +kernel
      intro t; rw [hbg]; simp)
  exact h
#guard !cohB .gob (runHist idLe {} (fxScript.take 2)).st && cohB .gob (runHist idLe {} (fxScript.take 3)).st

/-- `c11_failed_load_global` applies to step 5 (the request whose load fails) -/
example :
    ((runHist idLe {} (fxScript.take 5)).step idLe { fails := [true] } (.req "a" .jar "1.2.3.4:5" "ua" false)).2.ret = some (.str "err") ∧
    ((runHist idLe {} (fxScript.take 5)).step idLe { fails := [true] } (.req "a" .jar "1.2.3.4:5" "ua" false)).2.cookies = [] :=
  let h := c11_failed_load_global idLe (runHist idLe {} (fxScript.take 5)) { fails := [true] } "a" .jar "1.2.3.4:5" "ua" false
    (by
      intro hall
      have hm : Ev.loadFail (.gen 0) ∈
          ((runHist idLe {} (fxScript.take 5)).step idLe { fails := [true] } (.req "a" .jar "1.2.3.4:5" "ua" false)).2.evs := by
        decide +kernel
      have := hall _ hm
      simp [isLoadFail] at this)
  ⟨h.1, h.2.1⟩

/-- `c11_no_silent_loss` applies to every step of the script: the record of `gen 0`,
present from step 1 on, survives the failed save, the failed load, the failed delete, the failed listing … -/
example (n : Nat) (o : Orc) (op : Op)
    (r : Rec) (hl : lookup (.gen 0) (runHist idLe {} (fxScript.take n)).st.store = some r)
    (hk : ∀ e ∈ ((runHist idLe {} (fxScript.take n)).step idLe o op).2.evs ++
                ((runHist idLe {} (fxScript.take n)).step idLe o op).2.bg, KeepsKey (.gen 0) e) :
    (lookup (.gen 0) ((runHist idLe {} (fxScript.take n)).step idLe o op).1.st.store).isSome = true :=
  c11_no_silent_loss idLe _ o op (.gen 0) r hl hk
#guard (List.range 18).all (fun n => n == 0 || (lookup (ID.gen 0) (runHist idLe {} (fxScript.take n)).st.store).isSome)

end Sx.Glob

/-
#print axioms Sx.Glob.sinv_step
#print axioms Sx.Glob.sinv_all_histories
#print axioms Sx.Glob.c09_ack_saved_global
#print axioms Sx.Glob.c11_no_silent_loss
#print axioms Sx.Glob.c11_del_only_by_invalidation
#print axioms Sx.Glob.c11_failed_load_global
#print axioms Sx.Glob.start_failed_load_quiet
#print axioms Sx.Glob.cohf_all_histories_partial
each: [propext, Classical.choice, Quot.sound]
-/
