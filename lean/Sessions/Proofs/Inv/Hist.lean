import Sessions.Proofs.Inv.World
/-!
# All histories: `coherence_all_histories`, `c09_crash_equiv`

The fault-free history semantics on top of `Sx.World.step`:

* `OrcOK o`: the fault oracle of the operation holds no failure (the order oracle is arbitrary);
* `OpOK le w op`: the codec is not switched, and `LogOut(uid)`/`RefreshUser` issued from outside the
  request in flight do not list that request's session (`SoleObject`);
* nothing is assumed about the ids clients present: the unguessability assumption is not needed for this
  invariant (an id that was never minted is found neither in the cache nor in the store).
-/
namespace Sx

/-- run a history from world `w`. -/
def runHist (le : ID → ID → Bool) (w : World) : List (Orc × Op) → World
  | [] => w
  | (o, op) :: r => runHist le (w.step le o op).1 r

/-- the side conditions of a history, checked along its run. -/
def HistOK (le : ID → ID → Bool) (w : World) : List (Orc × Op) → Prop
  | [] => True
  | (o, op) :: r => OrcOK o ∧ OpOK le w op ∧ HistOK le (w.step le o op).1 r

theorem hist_inv {c : Codec} (le : ID → ID → Bool) (hist : List (Orc × Op)) (w : World) (hw : WInv c w)
    (hok : HistOK le w hist) : WInv c (runHist le w hist) := by
  induction hist generalizing w with
  | nil => exact hw
  | cons p r ih =>
    obtain ⟨o, op⟩ := p
    obtain ⟨h1, h2, h3⟩ := hok
    exact ih _ (step_inv le w o op hw h1 h2) h3

/-- the empty world with any configuration satisfies the invariant. -/
theorem init_winv (cfg : Cfg) (ck : CookieCfg) : WInv cfg.codec { cfg := cfg, ck := ck } :=
  ⟨rfl, SOK.nil _ _, by intro h hh; simp at hh, by intro h; simp at h, fun _ => ⟨inv_init _, by intro h hh; simp at hh⟩⟩

theorem runHist_append (le : ID → ID → Bool) (w : World) (a b : List (Orc × Op)) :
    runHist le w (a ++ b) = runHist le (runHist le w a) b := by
  induction a generalizing w with
  | nil => rfl
  | cons p r ih => obtain ⟨o, op⟩ := p; exact ih _

theorem HistOK.take {le : ID → ID → Bool} {w : World} {hist : List (Orc × Op)} (h : HistOK le w hist) (n : Nat) :
    HistOK le w (hist.take n) := by
  induction hist generalizing w n with
  | nil => simp [HistOK]
  | cons p r ih =>
    obtain ⟨o, op⟩ := p
    cases n with
    | zero => trivial
    | succ n => exact ⟨h.1, h.2.1, ih h.2.2 n⟩

/-- **I0 + I1 at every operation boundary of every fault-free history.**
From the empty world with any configuration and cookie template, after every history whose oracles hold no
failure, that does not switch the codec, and in which `LogOut(uid)`/`RefreshUser` from outside a request do not
list the session of the request in flight: the store invariant holds, and unless the process died inside the
current request (`skip`, i.e. between a `crashinside` and the restart at the end of that request) the state
satisfies `Inv` and the request's handle satisfies `HOK`. Configuration (including `maxCache`, 0 and negative
values too), cookie template, time, crashes, cache drops, purges, stale user-index entries and the ids clients
present are arbitrary. -/
theorem coherence_all_histories (le : ID → ID → Bool) (cfg : Cfg) (ck : CookieCfg) (hist : List (Orc × Op))
    (hok : HistOK le { cfg := cfg, ck := ck } hist) : WInv cfg.codec (runHist le { cfg := cfg, ck := ck } hist) :=
  hist_inv le hist _ (init_winv cfg ck) hok

/-- … hence after every step of the history. -/
theorem coherence_every_boundary (le : ID → ID → Bool) (cfg : Cfg) (ck : CookieCfg) (hist : List (Orc × Op))
    (hok : HistOK le { cfg := cfg, ck := ck } hist) (n : Nat) :
    WInv cfg.codec (runHist le { cfg := cfg, ck := ck } (hist.take n)) :=
  coherence_all_histories le cfg ck _ (hok.take n)

/-- the state invariant whenever no restart is pending. -/
theorem inv_of_not_crashed {c : Codec} {w : World} (hw : WInv c w) (hc : w.crashed = false) : Inv c w.st := by
  have hsk : w.skip = false := by
    cases hs : w.skip with
    | false => rfl
    | true => have := hw.skip_crashed hs; rw [hc] at this; simp at this
  exact (hw.good hsk).1

/-- `Inv` spelled out: I0 (structure) and I1 (coherence) in plain terms. -/
theorem Inv.spelled_out {c : Codec} {s : State} (hi : Inv c s) :
    (keys s.cache).Nodup ∧ (keys s.store).Nodup ∧
    (∀ id h, (id, h) ∈ s.cache →
      h < s.heap.length ∧ (s.obj h).id = id ∧ (∃ n, id = .gen n ∧ n < s.nextId) ∧
      (∀ t, (s.obj h).ref = some t → ∃ n, t = .gen n ∧ n < s.nextId) ∧
      ∃ r, lookup id s.store = some r ∧ ess (enc c (s.obj h)) = ess r) ∧
    (∀ id1 id2 h, (id1, h) ∈ s.cache → (id2, h) ∈ s.cache → id1 = id2) ∧
    (∀ id r, (id, r) ∈ s.store →
      (∃ n, id = .gen n ∧ n < s.nextId) ∧ (∀ t, r.ref = some t → ∃ n, t = .gen n ∧ n < s.nextId) ∧ ∃ o, r = enc c o) ∧
    (∀ t id, (t, id) ∈ s.timers → ∃ n, id = .gen n ∧ n < s.nextId) :=
  ⟨hi.cnodup, hi.sok.nodup,
   fun id h hm => ⟨hi.valid id h hm, hi.wf id h hm (by simp), hi.ckeys id h hm, hi.crefs id h hm, hi.coh id h hm (by simp)⟩,
   fun _ _ _ m1 m2 => hi.handle_inj m1 m2,
   fun id r hm => ⟨hi.sok.keys id r hm, hi.sok.refs id r hm, hi.sok.norm id r hm⟩,
   hi.tkeys⟩

/-! ### C09: dropping the cache loses nothing essential -/

/-- In a state satisfying the invariant, for every cache entry the stored record decodes to a session that
agrees with the cached one on user, creation time, reference and data (after encoding). -/
theorem inv_crash_equiv {c : Codec} {s : State} (hi : Inv c s) (id : ID) (h : Nat) (hm : (id, h) ∈ s.cache) :
    ∃ r, lookup id s.store = some r ∧ ess (enc c (dec s.ver id r)) = ess (enc c (s.obj h)) := by
  obtain ⟨r, hl, he⟩ := hi.coh id h hm (by simp)
  refine ⟨r, hl, ?_⟩
  rw [ess_enc_dec (hi.sok.norm id r (lookup_some_mem hl)), he]

/-- … and `LoadSession` after the cache was dropped does return that session. -/
theorem inv_reload {c : Codec} {s : State} (hi : Inv c s) (id : ID) (h : Nat) (hm : (id, h) ∈ s.cache) :
    ∃ o, (loadRec { s with cache := [], fails := [] } id).2.1 = .found o ∧ o.id = id ∧
      ess (enc c o) = ess (enc c (s.obj h)) := by
  obtain ⟨r, hl, he⟩ := inv_crash_equiv hi id h hm
  have hnf : NoFail ({ s with cache := [], fails := [] } : State) := noFail_of_nil rfl
  obtain ⟨_, _, _, hres⟩ := loadRec_spec ({ s with cache := [], fails := [] } : State) id hnf
  rcases hres with ⟨hn, _⟩ | ⟨r', hl', hf⟩
  · have : lookup id s.store = none := hn
    rw [hl] at this; simp at this
  · have hl'' : lookup id s.store = some r' := hl'
    rw [hl] at hl''
    simp only [Option.some.injEq] at hl''
    subst hl''
    exact ⟨_, hf, rfl, he⟩

/-- **C09 (crash equivalence)** in every reachable world in which the process is alive. -/
theorem c09_crash_equiv (le : ID → ID → Bool) (cfg : Cfg) (ck : CookieCfg) (hist : List (Orc × Op))
    (hok : HistOK le { cfg := cfg, ck := ck } hist) (hsk : (runHist le { cfg := cfg, ck := ck } hist).skip = false)
    (id : ID) (h : Nat) (hm : (id, h) ∈ (runHist le { cfg := cfg, ck := ck } hist).st.cache) :
    ∃ r, lookup id (runHist le { cfg := cfg, ck := ck } hist).st.store = some r ∧
      ess (enc cfg.codec (dec (runHist le { cfg := cfg, ck := ck } hist).st.ver id r)) =
        ess (enc cfg.codec ((runHist le { cfg := cfg, ck := ck } hist).st.obj h)) :=
  inv_crash_equiv ((coherence_all_histories le cfg ck hist hok).good hsk).1 id h hm

/-! ### a syntactic sufficient condition for `HistOK` -/

/-- operations that need no side condition. -/
def Op.plain : Op → Bool
  | .codec _ => false
  | .logoutUser _ => false
  | .refresh _ => false
  | _ => true

def orcOKb (o : Orc) : Bool := o.fails.all (fun b => b == false)

theorem orcOK_of_b {o : Orc} (h : orcOKb o = true) : OrcOK o := by
  intro b hb
  have := List.all_eq_true.mp h b hb
  simpa using this

/-- any history of plain operations with failure-free oracles satisfies the side conditions. -/
theorem histOK_of_plain (le : ID → ID → Bool) (hist : List (Orc × Op)) (w : World)
    (h : ∀ p ∈ hist, orcOKb p.1 = true ∧ p.2.plain = true) : HistOK le w hist := by
  induction hist generalizing w with
  | nil => trivial
  | cons p r ih =>
    obtain ⟨o, op⟩ := p
    obtain ⟨h1, h2⟩ := h (o, op) List.mem_cons_self
    refine ⟨orcOK_of_b h1, ?_, ih _ (fun p hp => h p (List.mem_cons_of_mem _ hp))⟩
    cases op <;> first | trivial | (simp [Op.plain] at h2)

/-! ### … and another one: user-wide operations only between requests -/

theorem finW_cur (w : World) : (finW w).cur = w.cur := by unfold finW; split <;> rfl

theorem apiCall_cur (w : World) (orc : Orc) (run : State → State × RetV × Option String × List Ev) (b : Bool) :
    (apiCall w orc run b).1.cur = w.cur := by rw [apiCall_fst]

/-- after `endReq` no session is held. -/
theorem step_endReq_cur (le : ID → ID → Bool) (w : World) (orc : Orc) : (w.step le orc .endReq).1.cur = none := by
  unfold World.step
  simp only [Bool.not_true, Bool.and_false, Bool.false_eq_true, if_false, finish_fst, finW_cur]

/-- only `req` makes the world hold a session. -/
theorem step_cur_none (le : ID → ID → Bool) (w : World) (orc : Orc) (op : Op) (hc : w.cur = none)
    (hne : ∀ client spec ip ua create, op ≠ .req client spec ip ua create) : (w.step le orc op).1.cur = none := by
  by_cases hsk : w.skip = true
  · by_cases he : op = .endReq
    · subst he; exact step_endReq_cur le w orc
    · rw [step_skip le w orc op hsk he]; exact hc
  · have hsk' : w.skip = false := by simpa using hsk
    unfold World.step
    cases op with
    | req client spec ip ua create => exact absurd rfl (hne client spec ip ua create)
    | h hop => simp only [hsk', Bool.false_and, Bool.false_eq_true, if_false, hc]
    | _ => simp only [hsk', Bool.false_and, Bool.false_eq_true, if_false, finish_fst, finW_cur, apiCall_cur, hc]

/-- failure-free oracles, no codec switch, and `LogOut(uid)`/`RefreshUser` only between requests
(the Boolean says whether a request is open). -/
def bracketedB : Bool → List (Orc × Op) → Bool
  | _, [] => true
  | inReq, (o, op) :: r =>
    orcOKb o &&
      (match op with
       | .codec _ => false
       | .logoutUser _ => !inReq && bracketedB inReq r
       | .refresh _ => !inReq && bracketedB inReq r
       | .req _ _ _ _ _ => bracketedB true r
       | .endReq => bracketedB false r
       | _ => bracketedB inReq r)

theorem histOK_of_bracketed (le : ID → ID → Bool) (hist : List (Orc × Op)) (w : World) (b : Bool)
    (hb : bracketedB b hist = true) (hw : b = false → w.cur = none) : HistOK le w hist := by
  induction hist generalizing w b with
  | nil => trivial
  | cons p r ih =>
    obtain ⟨o, op⟩ := p
    simp only [bracketedB, Bool.and_eq_true] at hb
    obtain ⟨ho, hop⟩ := hb
    have hsole : b = false → ∀ uid, SoleObject le w uid := by
      intro hb' uid h hh; rw [hw hb'] at hh; simp at hh
    have hkeep : ∀ (hne : ∀ client spec ip ua create, op ≠ .req client spec ip ua create),
        b = false → (w.step le o op).1.cur = none := fun hne hb' => step_cur_none le w o op (hw hb') hne
    cases op with
    | codec c => simp at hop
    | logoutUser uid =>
      simp only [Bool.and_eq_true, Bool.not_eq_true'] at hop
      exact ⟨orcOK_of_b ho, Or.inr (hsole hop.1 uid), ih _ b hop.2 (hkeep (by intros; simp))⟩
    | refresh uid =>
      simp only [Bool.and_eq_true, Bool.not_eq_true'] at hop
      exact ⟨orcOK_of_b ho, Or.inr (hsole hop.1 uid), ih _ b hop.2 (hkeep (by intros; simp))⟩
    | req client spec ip ua create =>
      exact ⟨orcOK_of_b ho, trivial, ih _ true hop (by intro h; simp at h)⟩
    | endReq =>
      exact ⟨orcOK_of_b ho, trivial, ih _ false hop (fun _ => step_endReq_cur le w o)⟩
    | cfg n v => exact ⟨orcOK_of_b ho, trivial, ih _ b hop (hkeep (by intros; simp))⟩
    | cookiecfg ck => exact ⟨orcOK_of_b ho, trivial, ih _ b hop (hkeep (by intros; simp))⟩
    | wait d => exact ⟨orcOK_of_b ho, trivial, ih _ b hop (hkeep (by intros; simp))⟩
    | stale uid id => exact ⟨orcOK_of_b ho, trivial, ih _ b hop (hkeep (by intros; simp))⟩
    | crashinside k => exact ⟨orcOK_of_b ho, trivial, ih _ b hop (hkeep (by intros; simp))⟩
    | h hop' => exact ⟨orcOK_of_b ho, trivial, ih _ b hop (hkeep (by intros; simp))⟩
    | purge => exact ⟨orcOK_of_b ho, trivial, ih _ b hop (hkeep (by intros; simp))⟩
    | dropcache => exact ⟨orcOK_of_b ho, trivial, ih _ b hop (hkeep (by intros; simp))⟩
    | expiredRec id => exact ⟨orcOK_of_b ho, trivial, ih _ b hop (hkeep (by intros; simp))⟩
    | crash => exact ⟨orcOK_of_b ho, trivial, ih _ b hop (hkeep (by intros; simp))⟩
    | fault => exact ⟨orcOK_of_b ho, trivial, ih _ b hop (hkeep (by intros; simp))⟩

/-- **Corollary.** Every fault-free history that does not switch the codec and calls `LogOut(uid)` /
`RefreshUser` only between requests keeps the invariant — a purely syntactic condition on the script. -/
theorem coherence_bracketed_histories (le : ID → ID → Bool) (cfg : Cfg) (ck : CookieCfg) (hist : List (Orc × Op))
    (hb : bracketedB false hist = true) : WInv cfg.codec (runHist le { cfg := cfg, ck := ck } hist) :=
  coherence_all_histories le cfg ck hist (histOK_of_bracketed le hist _ false hb (fun _ => rfl))

end Sx
