import Sessions.Proofs.Inv.Defs
/-!
# Fault-free persistence calls, and the elementary state updates that keep the invariant
-/
namespace Sx

/-! ### the persistence calls when nothing fails -/

/-- the state after a successful `SaveSession(id, o)` -/
def saveS (cfg : Cfg) (s : State) (id : ID) (o : Sess) : State :=
  { s with store := insert id (enc cfg.codec o) s.store, fails := s.fails.tail, picks := s.picks.tail }

theorem saveRec_eq (cfg : Cfg) {s : State} (id : ID) (o : Sess) (hnf : NoFail s) :
    saveRec cfg s id o = (saveS cfg s id o, true, [.save id (enc cfg.codec o)]) := by
  have h' : NoFail (popPick s) := hnf
  unfold saveRec
  rw [popFail_eq h']
  rfl

theorem saveS_nofail {cfg : Cfg} {s : State} {id : ID} {o : Sess} (hnf : NoFail s) : NoFail (saveS cfg s id o) :=
  hnf.popF

/-- the state after a successful `DeleteSession(id)` -/
def delS (s : State) (id : ID) : State := { s with store := erase id s.store, fails := s.fails.tail }

theorem delRec_eq {s : State} (id : ID) (hnf : NoFail s) : delRec s id = (delS s id, true, [.del id]) := by
  unfold delRec
  rw [popFail_eq hnf]
  rfl

theorem delS_nofail {s : State} {id : ID} (hnf : NoFail s) : NoFail (delS s id) := hnf.popF

/-- `LoadSession` without faults: the state changes in the oracle only, and the result is `nil`
or the decoded record found under the id. -/
theorem loadRec_spec (s : State) (id : ID) (hnf : NoFail s) :
    Eqv s (loadRec s id).1 ∧ NoFail (loadRec s id).1 ∧ (∀ c n, EvsOK c n (loadRec s id).2.2) ∧
    ((lookup id s.store = none ∧ (loadRec s id).2.1 = .nil) ∨
     (∃ r, lookup id s.store = some r ∧ (loadRec s id).2.1 = .found (dec s.ver id r))) := by
  unfold loadRec
  rw [popFail_eq hnf]
  simp only []
  have hst : s.popF.store = s.store := rfl
  rw [hst]
  cases hl : lookup id s.store with
  | none =>
    refine ⟨eqv_popF s, hnf.popF, ?_, Or.inl ⟨rfl, rfl⟩⟩
    intro c n e he; simp at he; subst he; trivial
  | some r =>
    simp only []
    cases hu : r.user with
    | none =>
      refine ⟨eqv_popF s, hnf.popF, ?_, Or.inr ⟨r, rfl, rfl⟩⟩
      intro c n e he; simp at he; subst he; trivial
    | some uid =>
      simp only []
      rw [popFail_eq hnf.popF]
      refine ⟨(eqv_popF s).trans (eqv_popF _), hnf.popF.popF, ?_, Or.inr ⟨r, rfl, rfl⟩⟩
      intro c n e he; simp at he; rcases he with he | he <;> subst he <;> trivial

/-! ### elementary updates -/

/-- flushing an entry (saving its object under its key) and dropping the key keeps the invariant. -/
theorem inv_flush_drop {c : Codec} {x : Option ID} {s : State} (id : ID) (h : Nat) (hi : InvX c x s)
    (hk : Minted s.nextId id) (hr : RefOK s.nextId (s.obj h).ref) :
    InvX c x { s with store := insert id (enc c (s.obj h)) s.store, cache := erase id s.cache } := by
  constructor
  · exact nodup_erase hi.cnodup
  · intro id' h' hm; exact hi.valid id' h' (mem_erase hm).1
  · intro id' h' hm hx; exact hi.wf id' h' (mem_erase hm).1 hx
  · intro id' h' hm hx
    obtain ⟨hm', hne⟩ := mem_erase hm
    obtain ⟨r, hl, he⟩ := hi.coh id' h' hm' hx
    exact ⟨r, by show lookup id' (insert id _ s.store) = some r; rw [lookup_insert_ne _ _ hne]; exact hl, he⟩
  · intro id' h' hm; exact hi.ckeys id' h' (mem_erase hm).1
  · intro id' h' hm; exact hi.crefs id' h' (mem_erase hm).1
  · exact hi.sok.put_enc hk hr
  · exact hi.tkeys

/-- replacing an object by one with the same id, reference and essentials keeps the invariant. -/
theorem inv_setObj_same {c : Codec} {x : Option ID} {s : State} (h : Nat) (o : Sess) (hid : o.id = (s.obj h).id)
    (hr : o.ref = (s.obj h).ref) (he : ess (enc c o) = ess (enc c (s.obj h))) (hi : InvX c x s) :
    InvX c x (s.setObj h o) := by
  have hsame := fun h' => setObj_obj_same s h h' o hid hr
  constructor
  · exact hi.cnodup
  · intro id' h' hm; rw [setObj_len]; exact hi.valid id' h' hm
  · intro id' h' hm hx; rw [(hsame h').1]; exact hi.wf id' h' hm hx
  · intro id' h' hm hx
    have hv := hi.valid id' h' hm
    obtain ⟨r, hl, her⟩ := hi.coh id' h' hm hx
    refine ⟨r, hl, ?_⟩
    by_cases hh : h' = h
    · subst hh; rw [obj_setObj_self s h' o hv, he]; exact her
    · rw [obj_setObj_ne s h h' o hh]; exact her
  · exact hi.ckeys
  · intro id' h' hm; rw [(hsame h').2]; exact hi.crefs id' h' hm
  · exact hi.sok
  · exact hi.tkeys

theorem inv_alloc {c : Codec} {x : Option ID} {s : State} (o : Sess) (hi : InvX c x s) : InvX c x (s.alloc o).2 := by
  constructor
  · exact hi.cnodup
  · intro id' h' hm
    have := hi.valid id' h' hm
    rw [alloc_len]; omega
  · intro id' h' hm hx
    rw [obj_alloc_old s o h' (hi.valid id' h' hm)]; exact hi.wf id' h' hm hx
  · intro id' h' hm hx
    rw [obj_alloc_old s o h' (hi.valid id' h' hm)]; exact hi.coh id' h' hm hx
  · exact hi.ckeys
  · intro id' h' hm
    rw [obj_alloc_old s o h' (hi.valid id' h' hm)]; exact hi.crefs id' h' hm
  · exact hi.sok
  · exact hi.tkeys

/-- overwriting object `h` arbitrarily breaks the invariant only at the key that points to `h`. -/
theorem inv_setObj_except {c : Codec} {s : State} (h : Nat) (k : ID) (o' : Sess) (hi : InvX c none s)
    (hr : RefOK s.nextId o'.ref) (honly : ∀ id', (id', h) ∈ s.cache → id' = k) : InvX c (some k) (s.setObj h o') := by
  constructor
  · exact hi.cnodup
  · intro id' h' hm; rw [setObj_len]; exact hi.valid id' h' hm
  · intro id' h' hm hx
    have hne : h' ≠ h := by
      intro hh; subst hh; exact hx (by rw [honly id' hm])
    rw [obj_setObj_ne s h h' o' hne]; exact hi.wf id' h' hm (by simp)
  · intro id' h' hm hx
    have hne : h' ≠ h := by
      intro hh; subst hh; exact hx (by rw [honly id' hm])
    rw [obj_setObj_ne s h h' o' hne]; exact hi.coh id' h' hm (by simp)
  · exact hi.ckeys
  · intro id' h' hm
    by_cases hh : h' = h
    · subst hh; rw [obj_setObj_self s h' o' (hi.valid id' h' hm)]; exact hr
    · rw [obj_setObj_ne s h h' o' hh]; exact hi.crefs id' h' hm
  · exact hi.sok
  · exact hi.tkeys

theorem inv_nextId {c : Codec} {x : Option ID} {s : State} (n : Nat) (hn : s.nextId ≤ n) (hi : InvX c x s) :
    InvX c x { s with nextId := n } :=
  ⟨hi.cnodup, hi.valid, hi.wf, hi.coh, fun id h hm => (hi.ckeys id h hm).mono hn, fun id h hm => (hi.crefs id h hm).mono hn,
   hi.sok.mono hn, fun t id hm => (hi.tkeys t id hm).mono hn⟩

theorem inv_timers {c : Codec} {x : Option ID} {s : State} (tm : List (Int × ID)) (ht : ∀ t id, (t, id) ∈ tm → Minted s.nextId id)
    (hi : InvX c x s) : InvX c x { s with timers := tm } :=
  ⟨hi.cnodup, hi.valid, hi.wf, hi.coh, hi.ckeys, hi.crefs, hi.sok, ht⟩

/-- insert into the cache and write through. -/
def putBoth (c : Codec) (s1 : State) (k : ID) (h : Nat) : State :=
  { s1 with cache := insert k h s1.cache, store := insert k (enc c (s1.obj h)) s1.store }

theorem putBoth_inv {c : Codec} (x : Option ID) (s1 : State) (k : ID) (h : Nat) (hv : h < s1.heap.length)
    (hk : (s1.obj h).id = k) (hm : Minted s1.nextId k) (hr : RefOK s1.nextId (s1.obj h).ref) (hi1 : InvX c x s1) :
    InvX c (if x = some k then none else x) (putBoth c s1 k h) := by
  have hxk : ∀ id', id' ≠ k → some id' ≠ (if x = some k then none else x) → some id' ≠ x := by
    intro id' hne hx hxe
    apply hx
    rw [← hxe]
    have : ¬ id' = k := hne
    simp [this]
  constructor
  · exact nodup_insert hi1.cnodup
  · intro id' h' hm'
    show h' < s1.heap.length
    rcases mem_insert hm' with e | ⟨hm'', _⟩
    · simp only [Prod.mk.injEq] at e; rw [e.2]; exact hv
    · exact hi1.valid id' h' hm''
  · intro id' h' hm' hx
    show (s1.obj h').id = id'
    rcases mem_insert hm' with e | ⟨hm'', hne⟩
    · simp only [Prod.mk.injEq] at e; rw [e.1, e.2]; exact hk
    · exact hi1.wf id' h' hm'' (hxk id' hne hx)
  · intro id' h' hm' hx
    show ∃ r, lookup id' (insert k (enc c (s1.obj h)) s1.store) = some r ∧ ess (enc c (s1.obj h')) = ess r
    rcases mem_insert hm' with e | ⟨hm'', hne⟩
    · simp only [Prod.mk.injEq] at e; rw [e.1, e.2]
      exact ⟨_, lookup_insert_self _ _ _, rfl⟩
    · obtain ⟨r, hl, he⟩ := hi1.coh id' h' hm'' (hxk id' hne hx)
      exact ⟨r, by rw [lookup_insert_ne _ _ hne]; exact hl, he⟩
  · intro id' h' hm'
    rcases mem_insert hm' with e | ⟨hm'', _⟩
    · simp only [Prod.mk.injEq] at e; rw [e.1]; exact hm
    · exact hi1.ckeys id' h' hm''
  · intro id' h' hm'
    show RefOK s1.nextId (s1.obj h').ref
    rcases mem_insert hm' with e | ⟨hm'', _⟩
    · simp only [Prod.mk.injEq] at e; rw [e.2]; exact hr
    · exact hi1.crefs id' h' hm''
  · exact hi1.sok.put_enc hm hr
  · exact hi1.tkeys

/-- deleting a key from cache and store. -/
theorem inv_delete {c : Codec} {x : Option ID} {s : State} (id : ID) (hi : InvX c x s) :
    InvX c x { s with cache := erase id s.cache, store := erase id s.store } := by
  constructor
  · exact nodup_erase hi.cnodup
  · intro id' h' hm; exact hi.valid id' h' (mem_erase hm).1
  · intro id' h' hm hx; exact hi.wf id' h' (mem_erase hm).1 hx
  · intro id' h' hm hx
    obtain ⟨hm', hne⟩ := mem_erase hm
    obtain ⟨r, hl, he⟩ := hi.coh id' h' hm' hx
    exact ⟨r, by show lookup id' (erase id s.store) = some r; rw [lookup_erase_ne _ hne]; exact hl, he⟩
  · intro id' h' hm; exact hi.ckeys id' h' (mem_erase hm).1
  · intro id' h' hm; exact hi.crefs id' h' (mem_erase hm).1
  · exact hi.sok.del id
  · exact hi.tkeys

/-- an empty cache needs no exception. -/
theorem InvX.clear_of_nil {c : Codec} {x : Option ID} {s : State} (hi : InvX c x s) (hc : s.cache = []) : InvX c none s := by
  constructor
  · exact hi.cnodup
  · exact hi.valid
  · intro id h hm; rw [hc] at hm; simp at hm
  · intro id h hm; rw [hc] at hm; simp at hm
  · exact hi.ckeys
  · exact hi.crefs
  · exact hi.sok
  · exact hi.tkeys

theorem inv_cache_nil {c : Codec} {x : Option ID} {s : State} (hi : InvX c x s) : InvX c none { s with cache := [] } :=
  ⟨List.nodup_nil, by intro _ _ h; simp at h, by intro _ _ h; simp at h, by intro _ _ h; simp at h,
   by intro _ _ h; simp at h, by intro _ _ h; simp at h, hi.sok, hi.tkeys⟩

/-- saving object `h` under key `id` when the only cache entry under `id` (if any) is `h` itself
and `h` carries that id: the exception at `id` (if any) is repaired. -/
theorem inv_save_obj {c : Codec} (x : Option ID) (s : State) (id : ID) (h : Nat) (hi : InvX c x s)
    (hk : Minted s.nextId id) (hr : RefOK s.nextId (s.obj h).ref)
    (honly : ∀ h', (id, h') ∈ s.cache → h' = h ∧ (s.obj h).id = id) :
    InvX c (if x = some id then none else x) { s with store := insert id (enc c (s.obj h)) s.store } := by
  have hxk : ∀ id', id' ≠ id → some id' ≠ (if x = some id then none else x) → some id' ≠ x := by
    intro id' hne hx hxe
    apply hx
    rw [← hxe]
    have : ¬ id' = id := hne
    simp [this]
  constructor
  · exact hi.cnodup
  · exact hi.valid
  · intro id' h' hm hx
    by_cases hid : id' = id
    · subst hid; obtain ⟨e1, e2⟩ := honly h' hm; rw [e1]; exact e2
    · exact hi.wf id' h' hm (hxk id' hid hx)
  · intro id' h' hm hx
    show ∃ r, lookup id' (insert id (enc c (s.obj h)) s.store) = some r ∧ ess (enc c (s.obj h')) = ess r
    by_cases hid : id' = id
    · subst hid; obtain ⟨e1, _⟩ := honly h' hm; rw [e1]
      exact ⟨_, lookup_insert_self _ _ _, rfl⟩
    · obtain ⟨r, hl, he⟩ := hi.coh id' h' hm (hxk id' hid hx)
      exact ⟨r, by rw [lookup_insert_ne _ _ hid]; exact hl, he⟩
  · exact hi.ckeys
  · exact hi.crefs
  · exact hi.sok.put_enc hk hr
  · exact hi.tkeys

end Sx
