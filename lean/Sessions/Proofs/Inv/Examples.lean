import Sessions.Proofs.Inv.Hist
/-!
# Non-vacuity: concrete states and histories satisfying the hypotheses, and the failing case

* state-level facts are checked by the kernel (`decide`);
* world-level facts need `List.mergeSort` (well-founded recursion, which the kernel does not unfold) and
  are checked by evaluation at build time (`#guard`).
-/
namespace Sx

/-! ### Boolean checkers -/

/-- I1 as a Boolean. -/
def cohB (c : Codec) (s : State) : Bool :=
  s.cache.all (fun e => match lookup e.1 s.store with
    | some r => decide (ess (enc c (s.obj e.2)) = ess r)
    | none => false)

theorem cohB_of_inv {c : Codec} {s : State} (hi : Inv c s) : cohB c s = true := by
  unfold cohB
  rw [List.all_eq_true]
  intro e he
  obtain ⟨id, h⟩ := e
  obtain ⟨r, hl, her⟩ := hi.coh id h he (by simp)
  simp only [hl, her, decide_true]

def soleObjectB (le : ID → ID → Bool) (w : World) (uid : String) : Bool :=
  match w.cur with
  | none => true
  | some h => !(userSessions le w.st uid).contains (w.st.obj h).id

def opOKb (le : ID → ID → Bool) (w : World) : Op → Bool
  | .codec _ => false
  | .logoutUser uid => w.skip || soleObjectB le w uid
  | .refresh uid => w.skip || soleObjectB le w uid
  | _ => true

def histOKb (le : ID → ID → Bool) (w : World) : List (Orc × Op) → Bool
  | [] => true
  | (o, op) :: r => orcOKb o && opOKb le w op && histOKb le (w.step le o op).1 r

theorem soleObject_of_b {le : ID → ID → Bool} {w : World} {uid : String} (h : soleObjectB le w uid = true) :
    SoleObject le w uid := by
  intro k hk
  unfold soleObjectB at h
  rw [hk] at h
  simpa using h

theorem opOK_of_b {le : ID → ID → Bool} {w : World} {op : Op} (h : opOKb le w op = true) : OpOK le w op := by
  cases op with
  | codec c => simp [opOKb] at h
  | logoutUser uid =>
    simp only [opOKb, Bool.or_eq_true] at h
    exact h.imp id soleObject_of_b
  | refresh uid =>
    simp only [opOKb, Bool.or_eq_true] at h
    exact h.imp id soleObject_of_b
  | _ => trivial

theorem histOK_of_b (le : ID → ID → Bool) (hist : List (Orc × Op)) (w : World) (h : histOKb le w hist = true) :
    HistOK le w hist := by
  induction hist generalizing w with
  | nil => trivial
  | cons p r ih =>
    obtain ⟨o, op⟩ := p
    simp only [histOKb, Bool.and_eq_true] at h
    exact ⟨orcOK_of_b h.1.1, opOK_of_b h.1.2, ih _ h.2⟩

/-! ### states -/

def exCfg : Cfg := { maxCache := 2 }
def exReq : Req := { create := true }

/-- one session created by `Start`. -/
def exS1 : State := (start exCfg {} exReq).1
/-- … after an id rotation: the session under `gen 1`, a reference record under `gen 0`, both cached, one timer. -/
def exS2 : State := (regenerate exCfg exS1 0).1

example : (start exCfg {} exReq).2.1 = .sess 0 := by decide
example : exS1.cache = [(.gen 0, 0)] := by decide
example : exS2.cache = [(.gen 0, 1), (.gen 1, 0)] ∧ exS2.timers = [(300000000000, .gen 0)] ∧ exS2.nextId = 2 := by decide
example : (exS2.obj 1).ref = some (.gen 1) ∧ (exS2.obj 0).id = .gen 1 := by decide

theorem exS1_ok : NoFail exS1 ∧ Inv exCfg.codec exS1 ∧ HOK exS1 0 := by
  have h := start_spec exCfg {} exReq (noFail_of_nil rfl) (inv_init _)
  exact ⟨h.mono.nofail, h.inv, h.hok 0 (by decide)⟩

theorem exS2_ok : NoFail exS2 ∧ Inv exCfg.codec exS2 ∧ HOK exS2 0 := by
  obtain ⟨h1, h2, h3⟩ := exS1_ok
  have h := regenerate_spec exCfg exS1 0 h1 h3.toHL h2
  exact ⟨h.mono.nofail, h.inv, h.hok⟩

/-- the hypotheses of the per-primitive and per-operation theorems are satisfied by `exS2`
(two cached objects, one of them a reference record, a pending timer), with a cache that is full
(`maxCache = 2`), so that `compact` has to evict. -/
example : Flush exCfg.codec none exS2 (compact exCfg 1 exS2).1 (compact exCfg 1 exS2).2 :=
  (compact_spec exCfg none 1 exS2 exS2_ok.1 exS2_ok.2.1).1
example : (compact exCfg 1 exS2).1.cache = [(.gen 1, 0)] := by decide
example : SetPost exCfg none exS2 0 (cacheSet exCfg exS2 0) :=
  cacheSet_spec exCfg none exS2 0 exS2_ok.1 exS2_ok.2.2.toHL exS2_ok.2.1
example : GetPost exCfg exS2 (.gen 0) (cacheGet exCfg exS2 (.gen 0)) :=
  cacheGet_spec exCfg exS2 (.gen 0) exS2_ok.1 exS2_ok.2.1
example : RegenPost exCfg exS2 0 (regenerate exCfg exS2 0) :=
  regenerate_spec exCfg exS2 0 exS2_ok.1 exS2_ok.2.2.toHL exS2_ok.2.1
example : (regenerate exCfg exS2 0).1.cache = [(.gen 1, 2), (.gen 2, 0)] := by decide
example : StartPost exCfg exS2 (start exCfg exS2 { cookie := some (.gen 0), cookieLen := 24 }) :=
  start_spec exCfg exS2 _ exS2_ok.1 exS2_ok.2.1
/-- following the reference: the old id leads to the live session -/
example : (start exCfg exS2 { cookie := some (.gen 0), cookieLen := 24 }).2.1 = .sess 0 := by decide
example : HandPost exCfg exS2 0 (hset exCfg exS2 0 "k" (.int 1)).1 (hset exCfg exS2 0 "k" (.int 1)).2.2 :=
  hset_spec exCfg exS2 0 "k" (.int 1) exS2_ok.1 exS2_ok.2.1 exS2_ok.2.2
example : HandPost exCfg exS2 0 (hdel exCfg exS2 0 "k").1 (hdel exCfg exS2 0 "k").2.2 :=
  hdel_spec exCfg exS2 0 "k" exS2_ok.1 exS2_ok.2.1 exS2_ok.2.2
example : HandPost exCfg exS2 0 (hgetdel exCfg exS2 0 "k").1 (hgetdel exCfg exS2 0 "k").2.2 :=
  hgetdel_spec exCfg exS2 0 "k" exS2_ok.1 exS2_ok.2.1 exS2_ok.2.2
example : HandPost exCfg exS2 0 (hlogout exCfg exS2 0).1 (hlogout exCfg exS2 0).2.2 :=
  hlogout_spec exCfg exS2 0 exS2_ok.1 exS2_ok.2.1 exS2_ok.2.2
example (le : ID → ID → Bool) : LoginPost exCfg exS2 0 (hlogin exCfg le exS2 0 "u" true) :=
  hlogin_spec exCfg le exS2 0 "u" true exS2_ok.1 exS2_ok.2.1 exS2_ok.2.2
example (le : ID → ID → Bool) : UsersPost exCfg exS2 (userSessions le exS2 "u") (logoutUser exCfg le exS2 "u") :=
  logoutUser_spec exCfg le exS2 "u" exS2_ok.1 exS2_ok.2.1
example : Flush exCfg.codec none exS2 (purge exCfg exS2).1 (purge exCfg exS2).2 :=
  (purge_spec exCfg exS2 exS2_ok.1 exS2_ok.2.1).1
example : Inv exCfg.codec (advance exS2 400000000000).1 := advance_inv exS2 _ exS2_ok.2.1
-- the clean-up goroutine has deleted the reference record by then
#guard (advance exS2 400000000000).1.cache == [(.gen 1, 0)] && (advance exS2 400000000000).1.timers.isEmpty

/-- with caching switched off every `cache.Set` empties the cache -/
example : (cacheSet { exCfg with maxCache := 0 } exS2 0).1.cache = [] := by decide

/-! ### the failing case: two objects for one session -/

/-- a state in which the handler's object `0` is not cached while a second object `1` for the same
session is: what `LogOut(uid)` produces when it runs while the request's object is not in the cache. -/
def twoObj : State := (cacheGet exCfg (purge exCfg exS1).1 (.gen 0)).1

example : twoObj.cache = [(.gen 0, 1)] ∧ (twoObj.obj 0).id = .gen 0 ∧ (twoObj.obj 1).id = .gen 0 := by decide

/-- `HOK.only` cannot be dropped: in `twoObj` the invariant holds and handle `0` is allocated with a minted id
(`HL`), but it is not the object cached under its id, and a handler write through it breaks coherence. -/
theorem two_objects_break_coherence :
    NoFail twoObj ∧ Inv exCfg.codec twoObj ∧ HL twoObj 0 ∧ ¬ HOK twoObj 0 ∧
    ¬ Inv exCfg.codec (hset exCfg twoObj 0 "k" (.int 1)).1 := by
  obtain ⟨h1, h2, h3⟩ := exS1_ok
  obtain ⟨hf, _⟩ := purge_spec exCfg exS1 h1 h2
  have hg := cacheGet_spec exCfg (purge exCfg exS1).1 (.gen 0) hf.nofail hf.inv
  refine ⟨hg.step.nofail, hg.inv, (h3.flush hf).toHL.step hg.step, ?_, ?_⟩
  · intro hk
    have := hk.only 1 (by decide)
    exact absurd this (by decide)
  · intro hi
    have := cohB_of_inv hi
    exact absurd this (by decide)

/-! ### histories -/

def idLe : ID → ID → Bool
  | .gen a, .gen b => a ≤ b
  | .gen _, .lit _ => true
  | .lit _, .gen _ => false
  | .lit a, .lit b => a ≤ b

/-- a history of plain operations: two clients, writes, id rotation, an unknown and a malformed cookie,
configuration changes (cache size 1, then 0, then unlimited), time, a crash inside `RegenerateID` after its first
save, a cache drop, a purge and a crash. -/
def okScript : List (Orc × Op) :=
  [({}, .req "a" .none "1.2.3.4:5" "" true),
   ({ fails := [false] }, .h (.set "k" (.int 1))),
   ({}, .h .regen),
   ({}, .endReq),
   ({}, .cfg "maxCache" 1),
   ({}, .req "b" .none "" "" true),
   ({}, .h (.login "u" false)),
   ({}, .endReq),
   ({}, .req "a" .jar "1.2.3.4:5" "" false),
   ({}, .h (.getdel "k")),
   ({}, .cfg "maxCache" 0),
   ({}, .h (.set "j" (.str "x"))),
   ({}, .endReq),
   ({}, .cfg "maxCache" (-1)),
   ({}, .req "x" (.val (.gen 7) 24) "" "" false),
   ({}, .endReq),
   ({}, .req "x" (.val (.lit "zz") 2) "" "" true),
   ({}, .crashinside 1),
   ({}, .h .regen),
   ({}, .h (.set "lost" .null)),
   ({}, .endReq),
   ({}, .req "a" .jar "1.2.3.4:5" "" false),
   ({}, .h .destroy),
   ({}, .endReq),
   ({}, .wait 400000000000),
   ({}, .dropcache),
   ({}, .req "b" .jar "" "" false),
   ({}, .purge),
   ({}, .h (.del "k")),
   ({}, .endReq),
   ({}, .crash)]

theorem okScript_ok (w : World) : HistOK idLe w okScript :=
  histOK_of_plain idLe okScript w (by decide)

/-- `coherence_all_histories` applies to `okScript` … -/
example : WInv Codec.gob (runHist idLe {} okScript) := coherence_all_histories idLe {} {} okScript (okScript_ok _)
example (n : Nat) : WInv Codec.json (runHist idLe { cfg := { codec := .json } } (okScript.take n)) :=
  coherence_every_boundary idLe { codec := .json } {} okScript (okScript_ok _) n
-- … and says something: caches are populated along the way, and the crash inside the request does happen;
-- between that crash and the restart (steps 19 and 20, `skip = true`) coherence does fail, everywhere else it holds.
#guard (runHist idLe {} (okScript.take 9)).st.cache.length == 1
#guard (runHist idLe {} (okScript.take 7)).st.store.length == 4
#guard (runHist idLe {} (okScript.take 19)).skip
#guard (runHist idLe {} (okScript.take 20)).crashed
#guard !(runHist idLe {} (okScript.take 21)).crashed
#guard (List.range 32).all (fun n => (runHist idLe {} (okScript.take n)).skip || cohB .gob (runHist idLe {} (okScript.take n)).st)
#guard !cohB .gob (runHist idLe {} (okScript.take 19)).st

/-- a history with `LogOut(uid)` and `RefreshUser`: between requests, and inside a request whose session is not
concerned or is cached — the side condition holds (checked by evaluation). -/
def userScript : List (Orc × Op) :=
  [({}, .req "a" .none "" "" true),
   ({}, .h (.login "u" true)),
   ({}, .endReq),
   ({}, .refresh "u"),
   ({}, .req "b" .none "" "" true),
   ({}, .logoutUser "u"),
   ({}, .h (.login "v" true)),
   ({}, .stale "v" (.gen 0)),
   ({}, .refresh "u"),
   ({}, .endReq),
   ({}, .logoutUser "v")]

#guard histOKb idLe {} userScript
#guard (List.range 12).all (fun n => cohB .gob (runHist idLe {} (userScript.take n)).st)

/-- the purely syntactic condition: `LogOut(uid)` / `RefreshUser` only between requests. -/
def betweenScript : List (Orc × Op) :=
  [({}, .req "a" .none "" "" true),
   ({ fails := [false, false, false, false, false] }, .h (.login "u" true)),
   ({}, .endReq),
   ({}, .logoutUser "u"),
   ({}, .req "a" .jar "" "" false),
   ({}, .h .user),
   ({}, .endReq),
   ({}, .refresh "u"),
   ({}, .crash)]

example : WInv Codec.gob (runHist idLe {} betweenScript) :=
  coherence_bracketed_histories idLe {} {} betweenScript (by decide)
#guard (runHist idLe {} (betweenScript.take 6)).st.cache.length == 2

/-- **The failing case.** `LogOut("u")` runs while the request of a session of user `u` is in flight and that
session's object is not cached (here: after `PurgeSessions`; with `maxCache = 1` the second `cache.Set` of
`RegenerateID` has the same effect). It loads and caches a second object for the session; the handler's next
write goes through its own object and the store: the cached object is stale, and the user logged out a moment
ago is logged in again in the store. -/
def badScript : List (Orc × Op) :=
  [({}, .req "c" .none "" "" true),
   ({}, .h (.login "u" false)),
   ({}, .purge),
   ({}, .logoutUser "u"),
   ({}, .h (.set "k" (.int 1)))]

#guard histOKb idLe {} (badScript.take 3)
#guard !histOKb idLe {} (badScript.take 4)          -- `SoleObject` fails at the `logoutUser`
#guard cohB .gob (runHist idLe {} (badScript.take 4)).st
#guard (runHist idLe {} (badScript.take 4)).cur == some 0 && (runHist idLe {} (badScript.take 4)).st.cache == [(.gen 1, 2)]
#guard !cohB .gob (runHist idLe {} badScript).st     -- coherence is lost
#guard (lookup (ID.gen 1) (runHist idLe {} badScript).st.store).map (·.user) == some (some "u")

/-- The same without any purge: with `maxCache = 1` the second `cache.Set` of the `RegenerateID` inside `LogIn`
evicts the request's own session, so the request goes on with an object that is not cached. -/
def badScript2 : List (Orc × Op) :=
  [({}, .cfg "maxCache" 1),
   ({}, .req "c" .none "" "" true),
   ({}, .h (.login "u" false)),
   ({}, .logoutUser "u"),
   ({}, .h (.set "k" (.int 1)))]

#guard (runHist idLe {} (badScript2.take 3)).cur == some 0 && (runHist idLe {} (badScript2.take 3)).st.cache == [(.gen 0, 1)]
#guard histOKb idLe {} (badScript2.take 3) && !histOKb idLe {} (badScript2.take 4)
#guard cohB .gob (runHist idLe {} (badScript2.take 4)).st && !cohB .gob (runHist idLe {} badScript2).st

end Sx
