import Sessions.Proofs.Inv.Assoc
/-!
# The invariant of the session model `Sx`: definitions and basic facts

* `Minted n id`: `id` is one of the first `n` ids minted by `generateSessionID`.
* `ess`: what must survive cache loss (everything of a record but `lastAccess`, `ip`, `ua`).
* `InvX c x s`: structure (I0) + coherence (I1) of a state `s` for codec `c`, with an optional
  exception key `x` (the old id in the middle of `RegenerateID`).
* `HOK s h`: what the application may rely on for the handle `Start` gave it.
* `NoFail s`: the fault oracle holds no failure (every persistence call of the execution succeeds).
* `Step s s' evs`: the frame every fault-free operation respects.
-/
namespace Sx

/-! ### minted ids -/

/-- `id` is one of the ids `gen 0 … gen (n-1)`. -/
def Minted (n : Nat) (id : ID) : Prop := ∃ k, id = .gen k ∧ k < n

theorem Minted.mono {n m : Nat} {id : ID} (h : n ≤ m) (hm : Minted n id) : Minted m id := by
  obtain ⟨k, e, hk⟩ := hm; exact ⟨k, e, by omega⟩

theorem minted_gen (n : Nat) : Minted (n + 1) (.gen n) := ⟨n, rfl, by omega⟩

theorem Minted.ne_gen {n : Nat} {id : ID} (hm : Minted n id) : id ≠ .gen n := by
  obtain ⟨k, e, hk⟩ := hm
  intro h; rw [e] at h; injection h with h; omega

/-- a reference field points to a minted id (or nowhere). -/
def RefOK (n : Nat) (o : Option ID) : Prop := ∀ t, o = some t → Minted n t

theorem RefOK.mono {n m : Nat} {o : Option ID} (h : n ≤ m) (hr : RefOK n o) : RefOK m o :=
  fun t ht => (hr t ht).mono h

theorem refOK_none (n : Nat) : RefOK n none := fun _ h => by simp at h

theorem refOK_some {n : Nat} {t : ID} (h : Minted n t) : RefOK n (some t) := by
  intro t' e; simp only [Option.some.injEq] at e; subst e; exact h

/-! ### codec facts -/

/-- what must survive cache loss: user, creation time, reference, data. -/
def ess (r : Rec) : Option String × Int × Option ID × Option Data := (r.user, r.created, r.ref, r.data)

/-- a record some session encodes to under codec `c`. -/
def Norm (c : Codec) (r : Rec) : Prop := ∃ o, r = enc c o

theorem norm_enc (c : Codec) (o : Sess) : Norm c (enc c o) := ⟨o, rfl⟩

@[simp] theorem enc_ref (c : Codec) (o : Sess) : (enc c o).ref = o.ref := by cases c <;> rfl
@[simp] theorem dec_ref (v : String → Nat) (id : ID) (r : Rec) : (dec v id r).ref = r.ref := rfl
@[simp] theorem dec_id (v : String → Nat) (id : ID) (r : Rec) : (dec v id r).id = id := rfl

theorem truncSec_idem (t : Int) : truncSec (truncSec t) = truncSec t := by
  unfold truncSec; omega

theorem convVal_idem (v : Val) : convVal (convVal v) = convVal v := by cases v <;> rfl

theorem convData_idem (d : Data) : convData (convData d) = convData d := by
  unfold convData
  rw [List.map_map]
  apply List.map_congr_left
  intro kv _
  simp [convVal_idem]

/-- re-encoding what was decoded from an encoded record changes nothing essential
(`enc c ∘ dec` is the identity on the image of `enc c`, up to the user-object version). -/
theorem ess_enc_dec {c : Codec} {r : Rec} (hn : Norm c r) (v : String → Nat) (id : ID) :
    ess (enc c (dec v id r)) = ess r := by
  obtain ⟨o, rfl⟩ := hn
  cases c with
  | gob =>
    simp only [ess, enc, dec, Prod.mk.injEq, true_and]
    refine ⟨?_, ?_⟩
    · cases o.user <;> rfl
    · rfl
  | json =>
    simp only [ess, enc, dec, Prod.mk.injEq, true_and, truncSec_idem]
    refine ⟨?_, ?_⟩
    · cases o.user <;> rfl
    · cases o.data with
      | none => rfl
      | some d => simp [convData_idem]

/-- the full record, not only its essentials, is reproduced apart from nothing: `enc c (dec v id (enc c o)) = enc c o`. -/
theorem enc_dec_enc (c : Codec) (o : Sess) (v : String → Nat) (id : ID) :
    enc c (dec v id (enc c o)) = enc c o := by
  cases c with
  | gob =>
    simp only [enc, dec]
    congr 1
    cases o.user <;> rfl
  | json =>
    simp only [enc, dec, truncSec_idem]
    congr 1
    · cases o.user <;> rfl
    · cases o.data with
      | none => rfl
      | some d => simp [convData_idem]

/-- the essentials of the encoding depend only on user id, creation time, reference and data. -/
theorem ess_enc_congr (c : Codec) {o o' : Sess} (hu : o'.user.map (·.1) = o.user.map (·.1))
    (hc : o'.created = o.created) (hr : o'.ref = o.ref) (hd : o'.data = o.data) :
    ess (enc c o') = ess (enc c o) := by
  cases c <;> simp [ess, enc, hu, hc, hr, hd]

/-! ### the fault oracle -/

/-- every persistence call still to come succeeds. -/
def NoFail (s : State) : Prop := ∀ b ∈ s.fails, b = false

def State.popF (s : State) : State := { s with fails := s.fails.tail }

theorem NoFail.popF {s : State} (h : NoFail s) : NoFail s.popF := by
  intro b hb; exact h b (List.mem_of_mem_tail hb)

theorem popFail_eq {s : State} (h : NoFail s) : popFail s = (false, s.popF) := by
  unfold popFail State.popF
  cases hf : s.fails with
  | nil => rfl
  | cons b r =>
    have : b = false := h b (by rw [hf]; exact List.mem_cons_self)
    subst this; rfl

theorem popFail_nil {s : State} (h : s.fails = []) : popFail s = (false, s) := by
  obtain ⟨now, heap, cache, store, timers, nextId, vers, extra, fails, picks⟩ := s
  simp only at h; subst h; rfl

theorem noFail_of_nil {s : State} (h : s.fails = []) : NoFail s := by
  intro b hb; rw [h] at hb; simp at hb

/-- `s'` differs from `s` at most in the two oracles. -/
structure Eqv (s s' : State) : Prop where
  now : s'.now = s.now
  heap : s'.heap = s.heap
  cache : s'.cache = s.cache
  store : s'.store = s.store
  timers : s'.timers = s.timers
  nextId : s'.nextId = s.nextId
  vers : s'.vers = s.vers
  extra : s'.extra = s.extra

theorem Eqv.refl (s : State) : Eqv s s := ⟨rfl, rfl, rfl, rfl, rfl, rfl, rfl, rfl⟩
theorem Eqv.trans {a b c : State} (h1 : Eqv a b) (h2 : Eqv b c) : Eqv a c :=
  ⟨h2.now.trans h1.now, h2.heap.trans h1.heap, h2.cache.trans h1.cache, h2.store.trans h1.store,
   h2.timers.trans h1.timers, h2.nextId.trans h1.nextId, h2.vers.trans h1.vers, h2.extra.trans h1.extra⟩
theorem eqv_popF (s : State) : Eqv s s.popF := ⟨rfl, rfl, rfl, rfl, rfl, rfl, rfl, rfl⟩
theorem eqv_popPick (s : State) : Eqv s (popPick s) := ⟨rfl, rfl, rfl, rfl, rfl, rfl, rfl, rfl⟩

/-! ### heap -/

theorem obj_setObj_self (s : State) (h : Nat) (o : Sess) (hv : h < s.heap.length) : (s.setObj h o).obj h = o := by
  simp [State.obj, State.setObj, List.getD_eq_getElem?_getD, hv]
theorem obj_setObj_ne (s : State) (h h' : Nat) (o : Sess) (hne : h' ≠ h) : (s.setObj h o).obj h' = s.obj h' := by
  simp [State.obj, State.setObj, List.getD_eq_getElem?_getD, Ne.symm hne]
theorem obj_alloc_old (s : State) (o : Sess) (h' : Nat) (hv : h' < s.heap.length) : (s.alloc o).2.obj h' = s.obj h' := by
  simp [State.obj, State.alloc, List.getD_eq_getElem?_getD, List.getElem?_append_left hv]
theorem obj_alloc_new (s : State) (o : Sess) : (s.alloc o).2.obj (s.alloc o).1 = o := by
  simp [State.obj, State.alloc, List.getD_eq_getElem?_getD]
theorem obj_of_heap_eq {s s' : State} (h : s'.heap = s.heap) (k : Nat) : s'.obj k = s.obj k := by
  simp [State.obj, h]
@[simp] theorem setObj_len (s : State) (h : Nat) (o : Sess) : (s.setObj h o).heap.length = s.heap.length := by
  simp [State.setObj]
@[simp] theorem alloc_len (s : State) (o : Sess) : (s.alloc o).2.heap.length = s.heap.length + 1 := by
  simp [State.alloc]
@[simp] theorem alloc_fst (s : State) (o : Sess) : (s.alloc o).1 = s.heap.length := rfl

/-- replacing an object by one with the same id and reference keeps every object's id and reference. -/
theorem setObj_obj_same (s : State) (h h' : Nat) (o : Sess) (hid : o.id = (s.obj h).id) (hr : o.ref = (s.obj h).ref) :
    ((s.setObj h o).obj h').id = (s.obj h').id ∧ ((s.setObj h o).obj h').ref = (s.obj h').ref := by
  by_cases hh : h' = h
  · subst hh
    by_cases hv : h' < s.heap.length
    · rw [obj_setObj_self s h' o hv, hid, hr]; exact ⟨rfl, rfl⟩
    · have : (s.setObj h' o).heap = s.heap := by
        simp only [State.setObj]; exact List.set_eq_of_length_le (by omega)
      rw [obj_of_heap_eq this]; exact ⟨rfl, rfl⟩
  · rw [obj_setObj_ne s h h' o hh]; exact ⟨rfl, rfl⟩

/-! ### the store side of the invariant -/

/-- store keys are unique and minted; stored references point to minted ids; stored records are
encodings under the history's codec. -/
structure SOK (c : Codec) (n : Nat) (st : List (ID × Rec)) : Prop where
  nodup : (keys st).Nodup
  keys : ∀ id r, (id, r) ∈ st → Minted n id
  refs : ∀ id r, (id, r) ∈ st → RefOK n r.ref
  norm : ∀ id r, (id, r) ∈ st → Norm c r

theorem SOK.nil (c : Codec) (n : Nat) : SOK c n [] :=
  ⟨List.nodup_nil, by intro _ _ h; simp at h, by intro _ _ h; simp at h, by intro _ _ h; simp at h⟩

theorem SOK.mono {c : Codec} {n m : Nat} {st : List (ID × Rec)} (h : n ≤ m) (hs : SOK c n st) : SOK c m st :=
  ⟨hs.nodup, fun id r hm => (hs.keys id r hm).mono h, fun id r hm => (hs.refs id r hm).mono h, hs.norm⟩

theorem SOK.del {c : Codec} {n : Nat} {st : List (ID × Rec)} (hs : SOK c n st) (k : ID) : SOK c n (erase k st) :=
  ⟨nodup_erase hs.nodup, fun id r hm => hs.keys id r (mem_erase hm).1, fun id r hm => hs.refs id r (mem_erase hm).1,
   fun id r hm => hs.norm id r (mem_erase hm).1⟩

theorem SOK.put {c : Codec} {n : Nat} {st : List (ID × Rec)} (hs : SOK c n st) {k : ID} {r : Rec}
    (hk : Minted n k) (hr : RefOK n r.ref) (hn : Norm c r) : SOK c n (insert k r st) := by
  refine ⟨nodup_insert hs.nodup, ?_, ?_, ?_⟩
  · intro id r' hm
    rcases mem_insert hm with e | ⟨hm', _⟩
    · simp only [Prod.mk.injEq] at e; rw [e.1]; exact hk
    · exact hs.keys id r' hm'
  · intro id r' hm
    rcases mem_insert hm with e | ⟨hm', _⟩
    · simp only [Prod.mk.injEq] at e; rw [e.2]; exact hr
    · exact hs.refs id r' hm'
  · intro id r' hm
    rcases mem_insert hm with e | ⟨hm', _⟩
    · simp only [Prod.mk.injEq] at e; rw [e.2]; exact hn
    · exact hs.norm id r' hm'

/-- saving an object with a minted id and a minted reference. -/
theorem SOK.put_enc {c : Codec} {n : Nat} {st : List (ID × Rec)} (hs : SOK c n st) {k : ID} {o : Sess}
    (hk : Minted n k) (hr : RefOK n o.ref) : SOK c n (insert k (enc c o) st) :=
  hs.put hk (by rw [enc_ref]; exact hr) (norm_enc c o)

/-! ### the invariant -/

/-- I0 (structure) and I1 (coherence) with an optional exception key `x`: under `x` the cache entry
may point to an object with another id and the stored record may disagree with it. -/
structure InvX (c : Codec) (x : Option ID) (s : State) : Prop where
  /-- cache keys are unique -/
  cnodup : (keys s.cache).Nodup
  /-- handles are allocated -/
  valid : ∀ id h, (id, h) ∈ s.cache → h < s.heap.length
  /-- the object under a key carries that key as its id -/
  wf : ∀ id h, (id, h) ∈ s.cache → some id ≠ x → (s.obj h).id = id
  /-- I1: the stored record under the key agrees with the cached object on the essentials -/
  coh : ∀ id h, (id, h) ∈ s.cache → some id ≠ x →
    ∃ r, lookup id s.store = some r ∧ ess (enc c (s.obj h)) = ess r
  /-- cache keys are minted -/
  ckeys : ∀ id h, (id, h) ∈ s.cache → Minted s.nextId id
  /-- references of cached objects are minted -/
  crefs : ∀ id h, (id, h) ∈ s.cache → RefOK s.nextId (s.obj h).ref
  /-- the store: unique minted keys, minted references, `c`-encodings -/
  sok : SOK c s.nextId s.store
  /-- ids awaited by clean-up goroutines are minted -/
  tkeys : ∀ t id, (t, id) ∈ s.timers → Minted s.nextId id

abbrev Inv (c : Codec) (s : State) : Prop := InvX c none s

theorem InvX.uniq {c x s} (hi : InvX c x s) {id : ID} {h1 h2 : Nat} (m1 : (id, h1) ∈ s.cache) (m2 : (id, h2) ∈ s.cache) :
    h1 = h2 := nodup_functional hi.cnodup m1 m2

/-- distinct cache keys hold distinct handles. -/
theorem InvX.handle_inj {c s} (hi : InvX c none s) {id1 id2 : ID} {h : Nat} (m1 : (id1, h) ∈ s.cache)
    (m2 : (id2, h) ∈ s.cache) : id1 = id2 := by
  rw [← hi.wf id1 h m1 (by simp), ← hi.wf id2 h m2 (by simp)]

theorem InvX.lookup_eq {c x s} (hi : InvX c x s) {id : ID} {h : Nat} (m : (id, h) ∈ s.cache) :
    lookup id s.cache = some h := lookup_of_mem_nodup hi.cnodup m

/-- the invariant only reads heap, cache, store, timers and the id counter. -/
theorem InvX.congr {c x} {s s' : State} (hi : InvX c x s) (h1 : s'.heap = s.heap) (h2 : s'.cache = s.cache)
    (h3 : s'.store = s.store) (h4 : s'.timers = s.timers) (h5 : s'.nextId = s.nextId) : InvX c x s' := by
  have ho : ∀ k, s'.obj k = s.obj k := obj_of_heap_eq h1
  constructor
  · rw [h2]; exact hi.cnodup
  · intro id h hm; rw [h2] at hm; rw [h1]; exact hi.valid id h hm
  · intro id h hm hx; rw [h2] at hm; rw [ho]; exact hi.wf id h hm hx
  · intro id h hm hx; rw [h2] at hm; rw [ho, h3]; exact hi.coh id h hm hx
  · intro id h hm; rw [h2] at hm; rw [h5]; exact hi.ckeys id h hm
  · intro id h hm; rw [h2] at hm; rw [h5, ho]; exact hi.crefs id h hm
  · rw [h3, h5]; exact hi.sok
  · intro t id hm; rw [h4] at hm; rw [h5]; exact hi.tkeys t id hm

theorem InvX.eqv {c x} {s s' : State} (he : Eqv s s') (hi : InvX c x s) : InvX c x s' :=
  hi.congr he.heap he.cache he.store he.timers he.nextId

theorem inv_init (c : Codec) : Inv c ({} : State) :=
  ⟨List.nodup_nil, by intro _ _ h; simp at h, by intro _ _ h; simp at h, by intro _ _ h; simp at h,
   by intro _ _ h; simp at h, by intro _ _ h; simp at h, SOK.nil c 0, by intro _ _ h; simp at h⟩

/-! ### handles -/

/-- what every operation on a handle needs: it is allocated, its id is minted, its reference is minted. -/
structure HL (s : State) (h : Nat) : Prop where
  valid : h < s.heap.length
  minted : Minted s.nextId (s.obj h).id
  ref : RefOK s.nextId (s.obj h).ref

/-- the handle invariant: additionally, no *other* object is cached under the handle's id
(`lookup (s.obj h).id s.cache` is `some h` or `none`). -/
structure HOK (s : State) (h : Nat) : Prop extends HL s h where
  only : ∀ h', ((s.obj h).id, h') ∈ s.cache → h' = h

theorem HOK.lookup_cases {s h} (hk : HOK s h) :
    lookup (s.obj h).id s.cache = some h ∨ lookup (s.obj h).id s.cache = none := by
  cases hl : lookup (s.obj h).id s.cache with
  | none => exact Or.inr rfl
  | some h' => rw [hk.only h' (lookup_some_mem hl)]; exact Or.inl rfl

theorem HL.congr {s s' : State} {h : Nat} (hl : HL s h) (h1 : s'.heap = s.heap) (h5 : s'.nextId = s.nextId) : HL s' h := by
  have ho : ∀ k, s'.obj k = s.obj k := obj_of_heap_eq h1
  exact ⟨by rw [h1]; exact hl.valid, by rw [h5, ho]; exact hl.minted, by rw [h5, ho]; exact hl.ref⟩

theorem HOK.congr {s s' : State} {h : Nat} (hk : HOK s h) (h1 : s'.heap = s.heap) (h2 : s'.cache = s.cache)
    (h5 : s'.nextId = s.nextId) : HOK s' h := by
  have ho : ∀ k, s'.obj k = s.obj k := obj_of_heap_eq h1
  exact ⟨hk.toHL.congr h1 h5, by intro h' hm; rw [ho, h2] at hm; exact hk.only h' hm⟩

theorem HOK.eqv {s s' : State} {h : Nat} (he : Eqv s s') (hk : HOK s h) : HOK s' h := hk.congr he.heap he.cache he.nextId
theorem HL.eqv {s s' : State} {h : Nat} (he : Eqv s s') (hk : HL s h) : HL s' h := hk.congr he.heap he.nextId

/-- a cached entry's handle satisfies `HOK`. -/
theorem HOK.of_mem {c s} (hi : Inv c s) {id : ID} {h : Nat} (hm : (id, h) ∈ s.cache) : HOK s h := by
  have hid := hi.wf id h hm (by simp)
  refine ⟨⟨hi.valid id h hm, by rw [hid]; exact hi.ckeys id h hm, hi.crefs id h hm⟩, ?_⟩
  intro h' hm'; rw [hid] at hm'; exact hi.uniq hm' hm

/-! ### events -/

/-- a save event writes an encoding under a minted key with a minted reference; a live cookie carries a minted id. -/
def EvOK (c : Codec) (n : Nat) : Ev → Prop
  | .save id r => Minted n id ∧ RefOK n r.ref ∧ Norm c r
  | .setCookie id => Minted n id
  | _ => True

def EvsOK (c : Codec) (n : Nat) (evs : List Ev) : Prop := ∀ e ∈ evs, EvOK c n e

theorem EvOK.mono {c : Codec} {n m : Nat} {e : Ev} (h : n ≤ m) (he : EvOK c n e) : EvOK c m e := by
  cases e <;> simp only [EvOK] at he ⊢
  · exact ⟨he.1.mono h, he.2.1.mono h, he.2.2⟩
  · exact he.mono h

theorem EvsOK.mono {c : Codec} {n m : Nat} {l : List Ev} (h : n ≤ m) (he : EvsOK c n l) : EvsOK c m l :=
  fun e hm => (he e hm).mono h

theorem EvsOK.nil (c : Codec) (n : Nat) : EvsOK c n [] := by intro e h; simp at h

theorem EvsOK.append {c : Codec} {n : Nat} {l1 l2 : List Ev} (h1 : EvsOK c n l1) (h2 : EvsOK c n l2) : EvsOK c n (l1 ++ l2) := by
  intro e hm
  rcases List.mem_append.mp hm with h | h
  · exact h1 e h
  · exact h2 e h

theorem evsOK_save {c : Codec} {n : Nat} {id : ID} {o : Sess} (hk : Minted n id) (hr : RefOK n o.ref) :
    EvsOK c n [.save id (enc c o)] := by
  intro e hm
  simp only [List.mem_singleton] at hm; subst hm
  exact ⟨hk, by rw [enc_ref]; exact hr, norm_enc c o⟩

/-! ### the frame of a fault-free operation -/

/-- what every fault-free operation guarantees besides the invariant: the oracle stays failure-free,
ids are only minted, objects are only allocated, and the events are well-formed. -/
structure Mono (c : Codec) (s s' : State) (evs : List Ev) : Prop where
  nofail : NoFail s'
  next : s.nextId ≤ s'.nextId
  len : s.heap.length ≤ s'.heap.length
  evs : EvsOK c s'.nextId evs

/-- … and (all operations but `RegenerateID`) no object changes its id or its reference. -/
structure Step (c : Codec) (s s' : State) (evs : List Ev) : Prop extends Mono c s s' evs where
  ids : ∀ k, k < s.heap.length → (s'.obj k).id = (s.obj k).id ∧ (s'.obj k).ref = (s.obj k).ref

theorem Step.refl {c : Codec} {s : State} (h : NoFail s) : Step c s s [] :=
  ⟨⟨h, Nat.le_refl _, Nat.le_refl _, EvsOK.nil c _⟩, fun _ _ => ⟨rfl, rfl⟩⟩

theorem Mono.trans {c : Codec} {a b d : State} {e1 e2 : List Ev} (h1 : Mono c a b e1) (h2 : Mono c b d e2) :
    Mono c a d (e1 ++ e2) :=
  ⟨h2.nofail, Nat.le_trans h1.next h2.next, Nat.le_trans h1.len h2.len, (h1.evs.mono h2.next).append h2.evs⟩

theorem Step.trans {c : Codec} {a b d : State} {e1 e2 : List Ev} (h1 : Step c a b e1) (h2 : Step c b d e2) :
    Step c a d (e1 ++ e2) :=
  ⟨h1.toMono.trans h2.toMono, fun k hk => by
    have h1' := h1.ids k hk
    have h2' := h2.ids k (Nat.lt_of_lt_of_le hk h1.len)
    exact ⟨h2'.1.trans h1'.1, h2'.2.trans h1'.2⟩⟩

/-- a step between states that agree on heap and counter. -/
theorem Step.of_eq {c : Codec} {s s' : State} {evs : List Ev} (hnf : NoFail s') (h1 : s'.heap = s.heap) (h5 : s'.nextId = s.nextId)
    (he : EvsOK c s'.nextId evs) : Step c s s' evs :=
  ⟨⟨hnf, by rw [h5]; exact Nat.le_refl _, by rw [h1]; exact Nat.le_refl _, he⟩,
   fun k _ => by rw [obj_of_heap_eq h1]; exact ⟨rfl, rfl⟩⟩

theorem Step.evs_pre {c : Codec} {s s' : State} {e : List Ev} (pre : List Ev) (h : Step c s s' e) (hp : EvsOK c s'.nextId pre) :
    Step c s s' (pre ++ e) :=
  ⟨⟨h.nofail, h.next, h.len, hp.append h.evs⟩, h.ids⟩

theorem Mono.evs_pre {c : Codec} {s s' : State} {e : List Ev} (pre : List Ev) (h : Mono c s s' e) (hp : EvsOK c s'.nextId pre) :
    Mono c s s' (pre ++ e) :=
  ⟨h.nofail, h.next, h.len, hp.append h.evs⟩

theorem Mono.evs_post {c : Codec} {s s' : State} {e : List Ev} (post : List Ev) (h : Mono c s s' e) (hp : EvsOK c s'.nextId post) :
    Mono c s s' (e ++ post) :=
  ⟨h.nofail, h.next, h.len, h.evs.append hp⟩

/-- `HL` survives a step. -/
theorem HL.step {c : Codec} {s s' : State} {e : List Ev} {h : Nat} (hl : HL s h) (st : Step c s s' e) : HL s' h := by
  obtain ⟨hid, hr⟩ := st.ids h hl.valid
  exact ⟨Nat.lt_of_lt_of_le hl.valid st.len, by rw [hid]; exact hl.minted.mono st.next, by rw [hr]; exact hl.ref.mono st.next⟩

end Sx
