import Sessions.Model.World
/-!
# Association-list lemmas for `Sx.lookup` / `Sx.erase` / `Sx.insert`

Generic in the key type (any `DecidableEq`), so they serve the cache (`ID ↦ Nat`), the store
(`ID ↦ Rec`), the jars and the session data alike.
-/
namespace Sx
section
variable {κ : Type} {β : Type}

/-- the keys of an association list -/
def keys (m : List (κ × β)) : List κ := m.map Prod.fst

@[simp] theorem keys_nil : keys ([] : List (κ × β)) = [] := rfl
@[simp] theorem keys_cons (p : κ × β) (m : List (κ × β)) : keys (p :: m) = p.1 :: keys m := rfl

theorem mem_keys_of_mem {p : κ × β} {m : List (κ × β)} (h : p ∈ m) : p.1 ∈ keys m :=
  List.mem_map_of_mem h

variable [DecidableEq κ]

theorem lookup_erase_self (k : κ) (m : List (κ × β)) : lookup k (erase k m) = none := by
  induction m with
  | nil => rfl
  | cons p r ih =>
    obtain ⟨k', v⟩ := p
    by_cases h : k' = k <;> simp [erase, lookup, h, ih]

theorem lookup_erase_ne {k k' : κ} (m : List (κ × β)) (h : k' ≠ k) : lookup k' (erase k m) = lookup k' m := by
  induction m with
  | nil => rfl
  | cons p r ih =>
    obtain ⟨k'', v⟩ := p
    by_cases h1 : k'' = k
    · subst h1
      have : ¬ k'' = k' := fun e => h e.symm
      simp [erase, lookup, ih, this]
    · by_cases h2 : k'' = k'
      · subst h2; simp [erase, lookup, h1]
      · simp [erase, lookup, h1, h2, ih]

theorem lookup_insert_self (k : κ) (v : β) (m : List (κ × β)) : lookup k (insert k v m) = some v := by
  simp [insert, lookup]

theorem lookup_insert_ne {k k' : κ} (v : β) (m : List (κ × β)) (h : k' ≠ k) :
    lookup k' (insert k v m) = lookup k' m := by
  have : ¬ k = k' := fun e => h e.symm
  simp [insert, lookup, this, lookup_erase_ne m h]

theorem mem_erase {k : κ} {p : κ × β} {m : List (κ × β)} (h : p ∈ erase k m) : p ∈ m ∧ p.1 ≠ k := by
  induction m with
  | nil => simp [erase] at h
  | cons q r ih =>
    obtain ⟨k', v⟩ := q
    by_cases hk : k' = k
    · simp [erase, hk] at h
      have := ih h
      exact ⟨List.mem_cons_of_mem _ this.1, this.2⟩
    · simp [erase, hk] at h
      rcases h with h | h
      · subst h; exact ⟨List.mem_cons_self, hk⟩
      · have := ih h; exact ⟨List.mem_cons_of_mem _ this.1, this.2⟩

theorem mem_erase_of_ne {k : κ} {p : κ × β} {m : List (κ × β)} (h : p ∈ m) (hne : p.1 ≠ k) : p ∈ erase k m := by
  induction m with
  | nil => simp at h
  | cons q r ih =>
    obtain ⟨k', v⟩ := q
    rcases List.mem_cons.mp h with h | h
    · subst h
      have : ¬ k' = k := hne
      simp [erase, this]
    · by_cases hk : k' = k
      · simp [erase, hk]; exact ih h
      · simp [erase, hk]; exact Or.inr (ih h)

theorem mem_insert {k : κ} {v : β} {p : κ × β} {m : List (κ × β)} (h : p ∈ insert k v m) :
    p = (k, v) ∨ (p ∈ m ∧ p.1 ≠ k) := by
  simp only [insert, List.mem_cons] at h
  rcases h with h | h
  · exact Or.inl h
  · exact Or.inr (mem_erase h)

theorem mem_insert_self (k : κ) (v : β) (m : List (κ × β)) : (k, v) ∈ insert k v m := by
  simp [insert]

theorem lookup_some_mem {k : κ} {v : β} {m : List (κ × β)} (h : lookup k m = some v) : (k, v) ∈ m := by
  induction m with
  | nil => simp [lookup] at h
  | cons p r ih =>
    obtain ⟨k', v'⟩ := p
    by_cases hk : k' = k
    · subst hk; simp [lookup] at h; subst h; exact List.mem_cons_self
    · simp [lookup, hk] at h; exact List.mem_cons_of_mem _ (ih h)

theorem lookup_none_not_mem {k : κ} {m : List (κ × β)} (h : lookup k m = none) : ∀ v, (k, v) ∉ m := by
  induction m with
  | nil => intro v hv; simp at hv
  | cons p r ih =>
    obtain ⟨k', v'⟩ := p
    by_cases hk : k' = k
    · subst hk; simp [lookup] at h
    · simp [lookup, hk] at h
      intro v hv
      simp only [List.mem_cons, Prod.mk.injEq] at hv
      rcases hv with ⟨h1, _⟩ | hv
      · exact hk h1.symm
      · exact ih h v hv

theorem lookup_none_of_not_key {k : κ} {m : List (κ × β)} (h : k ∉ keys m) : lookup k m = none := by
  cases hl : lookup k m with
  | none => rfl
  | some v => exact absurd (mem_keys_of_mem (lookup_some_mem hl)) h

theorem lookup_isSome_of_mem {k : κ} {v : β} {m : List (κ × β)} (h : (k, v) ∈ m) : ∃ v', lookup k m = some v' := by
  cases hl : lookup k m with
  | none => exact absurd h (lookup_none_not_mem hl v)
  | some v' => exact ⟨v', rfl⟩

/-! ### keys without duplicates -/

theorem keys_erase_sublist (k : κ) (m : List (κ × β)) : (keys (erase k m)).Sublist (keys m) := by
  induction m with
  | nil => exact List.Sublist.slnil
  | cons p r ih =>
    obtain ⟨k', v⟩ := p
    by_cases hk : k' = k
    · simp only [erase, hk, if_true, keys_cons]; exact List.Sublist.cons _ ih
    · simp only [erase, hk, if_false, keys_cons]; exact List.Sublist.cons_cons _ ih

theorem not_mem_keys_erase (k : κ) (m : List (κ × β)) : k ∉ keys (erase k m) := by
  intro h
  obtain ⟨p, hp, hk⟩ := List.mem_map.mp h
  exact (mem_erase hp).2 hk

theorem nodup_erase {k : κ} {m : List (κ × β)} (h : (keys m).Nodup) : (keys (erase k m)).Nodup :=
  List.Sublist.nodup (keys_erase_sublist k m) h

theorem nodup_insert {k : κ} {v : β} {m : List (κ × β)} (h : (keys m).Nodup) : (keys (insert k v m)).Nodup := by
  simp only [insert, keys_cons]
  exact List.nodup_cons.mpr ⟨not_mem_keys_erase k m, nodup_erase h⟩

omit [DecidableEq κ] in
/-- with duplicate-free keys an association list is a function -/
theorem nodup_functional {m : List (κ × β)} (h : (keys m).Nodup) {k : κ} {v1 v2 : β}
    (h1 : (k, v1) ∈ m) (h2 : (k, v2) ∈ m) : v1 = v2 := by
  induction m with
  | nil => simp at h1
  | cons p r ih =>
    obtain ⟨k', v'⟩ := p
    simp only [keys_cons, List.nodup_cons] at h
    rcases List.mem_cons.mp h1 with e1 | m1 <;> rcases List.mem_cons.mp h2 with e2 | m2
    · simp only [Prod.mk.injEq] at e1 e2; rw [e1.2, e2.2]
    · simp only [Prod.mk.injEq] at e1; exact absurd (by rw [← e1.1]; exact mem_keys_of_mem m2) h.1
    · simp only [Prod.mk.injEq] at e2; exact absurd (by rw [← e2.1]; exact mem_keys_of_mem m1) h.1
    · exact ih h.2 m1 m2

theorem lookup_of_mem_nodup {m : List (κ × β)} (h : (keys m).Nodup) {k : κ} {v : β} (hm : (k, v) ∈ m) :
    lookup k m = some v := by
  obtain ⟨v', hv'⟩ := lookup_isSome_of_mem hm
  rw [hv', nodup_functional h (lookup_some_mem hv') hm]

theorem length_erase_le (k : κ) (m : List (κ × β)) : (erase k m).length ≤ m.length := by
  have := (keys_erase_sublist k m).length_le
  simpa [keys] using this

theorem length_erase_lt {k : κ} {v : β} {m : List (κ × β)} (h : (k, v) ∈ m) : (erase k m).length < m.length := by
  induction m with
  | nil => simp at h
  | cons p r ih =>
    obtain ⟨k', v'⟩ := p
    by_cases hk : k' = k
    · simp only [erase, hk, if_true, List.length_cons]
      have := length_erase_le k r; omega
    · simp only [erase, hk, if_false, List.length_cons]
      rcases List.mem_cons.mp h with e | hm
      · simp only [Prod.mk.injEq] at e; exact absurd e.1.symm hk
      · have := ih hm; omega

end
end Sx
