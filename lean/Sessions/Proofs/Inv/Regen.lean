import Sessions.Proofs.Inv.CacheOps
/-!
# `RegenerateID` re-establishes the invariant it breaks at the old key
-/
namespace Sx

/-- the object gets its new id and creation time; the counter advances. -/
@[reducible] def regenS0 (s : State) (h : Nat) : State :=
  { s.setObj h { s.obj h with id := ID.gen s.nextId, created := s.now } with nextId := s.nextId + 1 }

/-- what `RegenerateID` guarantees when nothing fails. -/
structure RegenPost (cfg : Cfg) (s : State) (h : Nat) (r : State × Bool × List Ev) : Prop where
  ok : r.2.1 = true
  inv : Inv cfg.codec r.1
  mono : Mono cfg.codec s r.1 r.2.2
  hok : HOK r.1 h
  newid : (r.1.obj h).id = .gen s.nextId
  nextId : r.1.nextId = s.nextId + 1

/-- RegenerateID re-establishes the full invariant although it breaks it at the old key in the middle,
and the handle stays the only cached object under its (new) id. -/
theorem regenerate_spec (cfg : Cfg) (s : State) (h : Nat) (hnf : NoFail s) (hl : HL s h) (hi : Inv cfg.codec s) :
    RegenPost cfg s h (regenerate cfg s h) := by
  unfold regenerate
  simp only []
  -- step A: the object gets its new id; only the old key may now be wrong
  have honly : ∀ id', (id', h) ∈ s.cache → id' = (s.obj h).id := fun id' hm => (hi.wf id' h hm (by simp)).symm
  have hA : InvX cfg.codec (some (s.obj h).id) (regenS0 s h) :=
    inv_nextId (s.nextId + 1) (Nat.le_succ _)
      (inv_setObj_except h (s.obj h).id { s.obj h with id := ID.gen s.nextId, created := s.now } hi hl.ref honly)
  have hobjA : (regenS0 s h).obj h = { s.obj h with id := ID.gen s.nextId, created := s.now } :=
    obj_setObj_self s h _ hl.valid
  have hlA : HL (regenS0 s h) h :=
    ⟨by show h < (s.setObj h _).heap.length; rw [setObj_len]; exact hl.valid,
     by rw [hobjA]; exact minted_gen s.nextId,
     by rw [hobjA]; exact hl.ref.mono (Nat.le_succ _)⟩
  have hnfA : NoFail (regenS0 s h) := hnf
  have hlenA : (regenS0 s h).heap.length = s.heap.length := by show (s.setObj h _).heap.length = _; rw [setObj_len]
  have hneq : ¬ (some (s.obj h).id = some (ID.gen s.nextId)) := by
    intro e; simp only [Option.some.injEq] at e; exact hl.minted.ne_gen e
  -- step B: first cache.Set (under the new id) keeps the exception at the old key
  have hB := cacheSet_spec cfg (some (s.obj h).id) (regenS0 s h) h hnfA hlA hA
  have hidA : ((regenS0 s h).obj h).id = ID.gen s.nextId := by rw [hobjA]
  have hrefA : ((regenS0 s h).obj h).ref = (s.obj h).ref := by rw [hobjA]
  have hnextA : (regenS0 s h).nextId = s.nextId + 1 := rfl
  generalize cacheSet cfg (regenS0 s h) h = r1 at hB ⊢
  obtain ⟨s1, ok1, e1⟩ := r1
  obtain ⟨hok1, hinv1, hst1, hhok1, hsrc1, hnext1, hlen1, _, _⟩ := hB
  simp only at hok1 hinv1 hst1 hhok1 hsrc1 hnext1 hlen1 ⊢
  subst hok1
  have hnext1' : s1.nextId = s.nextId + 1 := hnext1
  have hlen1' : s1.heap.length = s.heap.length := by rw [hlen1]; exact hlenA
  rw [hidA] at hinv1
  simp only [hneq, if_false] at hinv1
  simp only [Bool.not_true, Bool.false_eq_true, if_false]
  have hid1 : (s1.obj h).id = ID.gen s.nextId := by rw [(hst1.ids h hlA.valid).1]; exact hidA
  have href1 : (s1.obj h).ref = (s.obj h).ref := by rw [(hst1.ids h hlA.valid).2]; exact hrefA
  have hv1 : h < s1.heap.length := hhok1.valid
  -- step C: allocate the reference object
  have hC := inv_alloc (refObj (s1.obj h) (s.obj h).id (ID.gen s.nextId) s1.now) hinv1
  have hnew := obj_alloc_new s1 (refObj (s1.obj h) (s.obj h).id (ID.gen s.nextId) s1.now)
  have holdC := obj_alloc_old s1 (refObj (s1.obj h) (s.obj h).id (ID.gen s.nextId) s1.now) h hv1
  have hlenC := alloc_len s1 (refObj (s1.obj h) (s.obj h).id (ID.gen s.nextId) s1.now)
  have hfstC := alloc_fst s1 (refObj (s1.obj h) (s.obj h).id (ID.gen s.nextId) s1.now)
  have hnextC : (s1.alloc (refObj (s1.obj h) (s.obj h).id (ID.gen s.nextId) s1.now)).2.nextId = s1.nextId := rfl
  have hcacheC : (s1.alloc (refObj (s1.obj h) (s.obj h).id (ID.gen s.nextId) s1.now)).2.cache = s1.cache := rfl
  have hnfC : NoFail (s1.alloc (refObj (s1.obj h) (s.obj h).id (ID.gen s.nextId) s1.now)).2 := hst1.nofail
  generalize (s1.alloc (refObj (s1.obj h) (s.obj h).id (ID.gen s.nextId) s1.now)).1 = hr at hnew hfstC ⊢
  generalize (s1.alloc (refObj (s1.obj h) (s.obj h).id (ID.gen s.nextId) s1.now)).2 = s2 at hC hnew holdC hlenC hnextC hcacheC hnfC ⊢
  have hidr : (s2.obj hr).id = (s.obj h).id := by rw [hnew]; rfl
  have hlC : HL s2 hr :=
    ⟨by rw [hlenC, hfstC]; omega,
     by rw [hidr, hnextC, hnext1']; exact hl.minted.mono (Nat.le_succ _),
     by rw [hnew, hnextC, hnext1']; exact refOK_some (minted_gen s.nextId)⟩
  -- step D: second cache.Set (under the old id) removes the exception
  have hD := cacheSet_spec cfg (some (s.obj h).id) s2 hr hnfC hlC hC
  generalize cacheSet cfg s2 hr = r3 at hD ⊢
  obtain ⟨s3, ok3, e3⟩ := r3
  obtain ⟨hok3, hinv3, hst3, _, hsrc3, hnext3, hlen3, _, _⟩ := hD
  simp only at hok3 hinv3 hst3 hsrc3 hnext3 hlen3 ⊢
  subst hok3
  rw [hidr] at hinv3 hsrc3
  simp only [if_true] at hinv3
  simp only [Bool.not_true, Bool.false_eq_true, if_false]
  have hh2 : h < s2.heap.length := by rw [hlenC]; omega
  have hid3 : (s3.obj h).id = ID.gen s.nextId := by rw [(hst3.ids h hh2).1, holdC]; exact hid1
  have href3 : (s3.obj h).ref = (s.obj h).ref := by rw [(hst3.ids h hh2).2, holdC]; exact href1
  have hn3 : s3.nextId = s.nextId + 1 := by rw [hnext3, hnextC, hnext1']
  have hmold : Minted s3.nextId (s.obj h).id := by rw [hn3]; exact hl.minted.mono (Nat.le_succ _)
  refine ⟨rfl, ?_, ?_, ?_, hid3, hn3⟩
  · apply inv_timers _ _ hinv3
    intro t id hm
    rcases List.mem_append.mp hm with hm | hm
    · exact hinv3.tkeys t id hm
    · simp only [List.mem_singleton, Prod.mk.injEq] at hm; rw [hm.2]; exact hmold
  · refine ⟨hst3.nofail, ?_, ?_, ?_⟩
    · show s.nextId ≤ s3.nextId; omega
    · show s.heap.length ≤ s3.heap.length
      rw [hlen3, hlenC, hlen1']; omega
    · show EvsOK cfg.codec s3.nextId (e1 ++ e3 ++ [.setCookie (ID.gen s.nextId)])
      refine ((hst1.evs.mono ?_).append hst3.evs).append ?_
      · rw [hnext3, hnextC]; exact Nat.le_refl _
      · intro e he; simp only [List.mem_singleton] at he; subst he
        show Minted s3.nextId (ID.gen s.nextId)
        rw [hn3]; exact minted_gen _
  · refine ⟨⟨?_, ?_, ?_⟩, ?_⟩
    · show h < s3.heap.length; rw [hlen3]; exact hh2
    · show Minted s3.nextId (s3.obj h).id; rw [hid3, hn3]; exact minted_gen _
    · show RefOK s3.nextId (s3.obj h).ref; rw [href3, hn3]; exact hl.ref.mono (Nat.le_succ _)
    · intro h' hm
      have hm' : ((s3.obj h).id, h') ∈ s3.cache := hm
      rw [hid3] at hm'
      rcases hsrc3 _ hm' with e | hin
      · simp only [Prod.mk.injEq] at e
        exact absurd e.1.symm (hl.minted.ne_gen)
      · rw [hcacheC] at hin
        rw [← hid1] at hin
        exact hhok1.only h' hin

end Sx
