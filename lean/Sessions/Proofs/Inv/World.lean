import Sessions.Proofs.Inv.Users
/-!
# Histories: the invariant holds at every operation boundary of every fault-free history
-/
namespace Sx

/-! ### time -/

theorem foldl_ind {α β : Type} (P : β → Prop) (f : β → α → β) (l : List α) (b : β) (h0 : P b)
    (hstep : ∀ b a, P b → P (f b a)) : P (l.foldl f b) := by
  induction l generalizing b with
  | nil => exact h0
  | cons a r ih => exact ih _ (hstep b a h0)

/-- induction principle for the clean-up goroutines that run while time passes. -/
theorem fireDue_ind (P : State → Prop) (s : State) (target : Int)
    (h0 : ∀ tm, (∀ p ∈ tm, p ∈ s.timers) → P { s with timers := tm })
    (hdel : ∀ s' id, P s' → P (bgDelete s' id)) : P (fireDue s target).1 := by
  unfold fireDue
  apply foldl_ind (fun acc : State × List Ev => P acc.1)
  · exact h0 _ (fun p hp => (List.mem_filter.mp hp).1)
  · intro b a hb; exact hdel b.1 a.2 hb

theorem advance_fst (s : State) (d : Int) : (advance s d).1 = { (fireDue s (s.now + d)).1 with now := s.now + d } := rfl

theorem advance_ind (P : State → Prop) (s : State) (d : Int)
    (h0 : ∀ tm, (∀ p ∈ tm, p ∈ s.timers) → P { s with timers := tm })
    (hdel : ∀ s' id, P s' → P (bgDelete s' id)) (hnow : ∀ s' t, P s' → P { s' with now := t }) : P (advance s d).1 := by
  rw [advance_fst]
  exact hnow _ _ (fireDue_ind P s _ h0 hdel)

theorem bgDelete_inv {c : Codec} {x : Option ID} {s : State} (id : ID) (hi : InvX c x s) : InvX c x (bgDelete s id) :=
  inv_delete id hi

theorem fireDue_inv {c : Codec} {x : Option ID} (s : State) (t : Int) (hi : InvX c x s) : InvX c x (fireDue s t).1 := by
  apply fireDue_ind (InvX c x)
  · intro tm htm; exact inv_timers tm (fun t id hm => hi.tkeys t id (htm _ hm)) hi
  · intro s' id h; exact bgDelete_inv id h

theorem advance_inv {c : Codec} {x : Option ID} (s : State) (d : Int) (hi : InvX c x s) : InvX c x (advance s d).1 := by
  apply advance_ind (InvX c x)
  · intro tm htm; exact inv_timers tm (fun t id hm => hi.tkeys t id (htm _ hm)) hi
  · intro s' id h; exact bgDelete_inv id h
  · intro s' t h; exact h.congr rfl rfl rfl rfl rfl

/-- a handle stays good when cache entries are only dropped. -/
theorem HOK.shrink {s s' : State} {h : Nat} (hk : HOK s h) (h1 : s'.heap = s.heap) (h5 : s'.nextId = s.nextId)
    (sub : ∀ p ∈ s'.cache, p ∈ s.cache) : HOK s' h := by
  refine ⟨hk.toHL.congr h1 h5, ?_⟩
  intro h' hm
  rw [obj_of_heap_eq h1] at hm
  exact hk.only h' (sub _ hm)

theorem advance_hok (s : State) (d : Int) (h : Nat) (hk : HOK s h) : HOK (advance s d).1 h := by
  apply advance_ind (fun s' => HOK s' h)
  · intro tm _; exact hk.congr rfl rfl rfl
  · intro s' id hk'; exact hk'.shrink rfl rfl (fun p hp => (mem_erase hp).1)
  · intro s' t hk'; exact hk'.congr rfl rfl rfl

theorem advance_sok {c : Codec} (s : State) (d : Int) (hs : SOK c s.nextId s.store) :
    SOK c (advance s d).1.nextId (advance s d).1.store := by
  apply advance_ind (fun s' => SOK c s'.nextId s'.store)
  · intro tm _; exact hs
  · intro s' id h; exact h.del id
  · intro s' t h; exact h

/-! ### the world invariant -/

/-- The invariant of a history. `sok` holds always, even between a crash inside an operation and the
restart; `good` (the state invariant and the handle invariant of the request's session) holds whenever the
process is not dead (`skip = false`), in particular whenever no restart is pending. -/
structure WInv (c : Codec) (w : World) : Prop where
  codec : w.cfg.codec = c
  sok : SOK c w.st.nextId w.st.store
  cur_req : ∀ h, w.cur = some h → w.inReq = true
  skip_crashed : w.skip = true → w.crashed = true
  good : w.skip = false → Inv c w.st ∧ ∀ h, w.cur = some h → HOK w.st h

/-- the same before `finish` has performed a pending restart. -/
structure WPre (c : Codec) (w : World) : Prop where
  codec : w.cfg.codec = c
  sok : SOK c w.st.nextId w.st.store
  cur_req : ∀ h, w.cur = some h → w.inReq = true
  skip_crashed : w.skip = true → w.crashed = true
  good : w.skip = false → (w.crashed = true ∧ w.inReq = false) ∨ (Inv c w.st ∧ ∀ h, w.cur = some h → HOK w.st h)

theorem WInv.toWPre {c : Codec} {w : World} (hw : WInv c w) (hsk : w.skip = false) : WPre c w :=
  ⟨hw.codec, hw.sok, hw.cur_req, hw.skip_crashed, fun _ => Or.inr (hw.good hsk)⟩

theorem WPre.toWInv {c : Codec} {w : World} (hw : WPre c w) (hr : w.inReq = true) : WInv c w := by
  refine ⟨hw.codec, hw.sok, hw.cur_req, hw.skip_crashed, ?_⟩
  intro hsk
  rcases hw.good hsk with ⟨_, h⟩ | h
  · rw [hr] at h; simp at h
  · exact h

/-- the restart: the store survives, cache and timers are gone. -/
theorem crashState_inv {c : Codec} (s : State) (hs : SOK c s.nextId s.store) : Inv c (crashState s) :=
  ⟨List.nodup_nil, by intro _ _ h; simp [crashState] at h, by intro _ _ h; simp [crashState] at h,
   by intro _ _ h; simp [crashState] at h, by intro _ _ h; simp [crashState] at h, by intro _ _ h; simp [crashState] at h,
   hs, by intro _ _ h; simp [crashState] at h⟩

/-- the world after `finish` -/
def finW (w : World) : World :=
  if w.crashed && !w.inReq then { w with st := crashState w.st, crashed := false, skip := false } else w

theorem finish_fst (w : World) (o : Out) : (finish w o).1 = finW w := by
  unfold finish finW; split <;> rfl

/-- `finish` re-establishes the invariant: a pending restart outside a request is performed. -/
theorem finW_inv {c : Codec} {w : World} (hw : WPre c w) : WInv c (finW w) := by
  unfold finW
  split
  · rename_i hc
    simp only [Bool.and_eq_true, Bool.not_eq_true'] at hc
    refine ⟨hw.codec, hw.sok, hw.cur_req, by intro h; simp at h, ?_⟩
    intro _
    refine ⟨crashState_inv w.st hw.sok, ?_⟩
    intro h hcur
    have := hw.cur_req h hcur
    rw [hc.2] at this; simp at this
  · rename_i hc
    simp only [Bool.and_eq_true, Bool.not_eq_true', not_and, Bool.not_eq_false] at hc
    refine ⟨hw.codec, hw.sok, hw.cur_req, hw.skip_crashed, ?_⟩
    intro hsk
    rcases hw.good hsk with ⟨h1, h2⟩ | h
    · have := hc h1; rw [h2] at this; simp at this
    · exact h

/-! ### one API call -/

def apiMuts (evs : List Ev) : List Ev := (evs.filter (fun e => !isCookie e)).filter isMut

/-- does the armed `crashinside k` strike during this call? -/
def apiFrz (w : World) (evs : List Ev) : Option Nat :=
  match w.freezeAt with
  | none => none
  | some k => if k ≤ (apiMuts evs).length then some k else none

/-- the state after the call and a possible freeze, before the quiescence tick -/
def apiMid (w : World) (s1 : State) (evs : List Ev) : State :=
  match apiFrz w evs with
  | none => { s1 with fails := [], picks := [] }
  | some k => { s1 with fails := [], picks := [], store := ((apiMuts evs).take k).foldl applyMut w.st.store, timers := [] }

theorem apiCall_fst (w : World) (orc : Orc) (run : State → State × RetV × Option String × List Ev) (b : Bool) :
    (apiCall w orc run b).1 =
      { w with st := (advance (apiMid w (run { w.st with fails := orc.fails, picks := orc.picks }).1
                        (run { w.st with fails := orc.fails, picks := orc.picks }).2.2.2) 1).1,
               freezeAt := none,
               respCookies := w.respCookies ++ (run { w.st with fails := orc.fails, picks := orc.picks }).2.2.2.filter isCookie,
               crashed := w.crashed || (apiFrz w (run { w.st with fails := orc.fails, picks := orc.picks }).2.2.2).isSome,
               skip := w.skip || ((apiFrz w (run { w.st with fails := orc.fails, picks := orc.picks }).2.2.2).isSome && w.inReq) } := by
  unfold apiCall apiMid apiFrz apiMuts
  generalize run { w.st with fails := orc.fails, picks := orc.picks } = r
  obtain ⟨s1, ret, msg, evs⟩ := r
  simp only []
  cases w.freezeAt with
  | none => rfl
  | some k =>
    simp only []
    split <;> rfl

theorem applyMut_sok {c : Codec} {n : Nat} (l : List Ev) (st : List (ID × Rec)) (hs : SOK c n st) (hl : EvsOK c n l) :
    SOK c n (l.foldl applyMut st) := by
  induction l generalizing st with
  | nil => exact hs
  | cons e r ih =>
    apply ih _ _ (fun e' he' => hl e' (List.mem_cons_of_mem _ he'))
    have he := hl e List.mem_cons_self
    cases e <;> simp only [applyMut] <;> try exact hs
    · exact hs.put he.1 he.2.1 he.2.2
    · exact hs.del _

theorem apiMuts_sub {evs : List Ev} {k : Nat} {e : Ev} (h : e ∈ (apiMuts evs).take k) : e ∈ evs := by
  have := List.mem_of_mem_take h
  unfold apiMuts at this
  exact (List.mem_filter.mp (List.mem_filter.mp this).1).1

/-- the oracle of an operation holds no failure. -/
def OrcOK (o : Orc) : Prop := ∀ b ∈ o.fails, b = false

/-- what the function run by an API call must guarantee on the state with the oracles installed. -/
structure RunOK (c : Codec) (w : World) (r : State × RetV × Option String × List Ev) : Prop where
  inv : Inv c r.1
  cur : ∀ h, w.cur = some h → HOK r.1 h
  next : w.st.nextId ≤ r.1.nextId
  evs : EvsOK c r.1.nextId r.2.2.2

theorem apiCall_pre {c : Codec} (w : World) (orc : Orc) (run : State → State × RetV × Option String × List Ev) (b : Bool)
    (hcodec : w.cfg.codec = c) (hsok : SOK c w.st.nextId w.st.store) (hcr : ∀ h, w.cur = some h → w.inReq = true)
    (hsk : w.skip = false) (hrun : RunOK c w (run { w.st with fails := orc.fails, picks := orc.picks })) :
    WPre c (apiCall w orc run b).1 := by
  rw [apiCall_fst]
  generalize run { w.st with fails := orc.fails, picks := orc.picks } = r at hrun ⊢
  obtain ⟨s1, ret, msg, evs⟩ := r
  obtain ⟨hinv, hcur, hnext, hevs⟩ := hrun
  simp only at hinv hcur hnext hevs ⊢
  cases hf : apiFrz w evs with
  | none =>
    have hmid : apiMid w s1 evs = { s1 with fails := [], picks := [] } := by unfold apiMid; rw [hf]
    rw [hmid]
    have hinv' : Inv c ({ s1 with fails := [], picks := [] } : State) := hinv.congr rfl rfl rfl rfl rfl
    have hA := advance_inv _ 1 hinv'
    refine ⟨hcodec, hA.sok, hcr, ?_, ?_⟩
    · intro h; simp [hsk] at h
    · intro _
      right
      refine ⟨hA, ?_⟩
      intro h hc
      exact advance_hok _ 1 h ((hcur h hc).congr rfl rfl rfl)
  | some k =>
    have hmid : apiMid w s1 evs =
        { s1 with fails := [], picks := [], store := ((apiMuts evs).take k).foldl applyMut w.st.store, timers := [] } := by
      unfold apiMid; rw [hf]
    rw [hmid]
    have hs : SOK c s1.nextId (((apiMuts evs).take k).foldl applyMut w.st.store) :=
      applyMut_sok _ _ (hsok.mono hnext) (fun e he => hevs e (apiMuts_sub he))
    have hA := advance_sok (c := c)
      ({ s1 with fails := [], picks := [], store := ((apiMuts evs).take k).foldl applyMut w.st.store, timers := [] } : State) 1 hs
    refine ⟨hcodec, hA, hcr, ?_, ?_⟩
    · intro _; simp
    · intro h
      left
      simp only [hsk, Option.isSome_some, Bool.true_and, Bool.false_or] at h
      exact ⟨by simp, h⟩

/-! ### the functions run by the API calls -/

theorem runOK_H {c : Codec} {w : World} (f : State → State × HRes × List Ev) (s0 : State) (hn : w.st.nextId = s0.nextId)
    (hinv : Inv c (f s0).1) (hcur : ∀ h, w.cur = some h → HOK (f s0).1 h) (hm : Mono c s0 (f s0).1 (f s0).2.2) :
    RunOK c w ((fun s => let (s', r, e) := f s; (s', hresStr r, (none : Option String), e)) s0) := by
  simp only []
  generalize f s0 = g at hinv hcur hm
  obtain ⟨s', r, e⟩ := g
  exact ⟨hinv, hcur, by rw [hn]; exact hm.next, hm.evs⟩

theorem runOK_B {c : Codec} {w : World} (f : State → State × Bool × List Ev) (s0 : State) (hn : w.st.nextId = s0.nextId)
    (hinv : Inv c (f s0).1) (hcur : ∀ h, w.cur = some h → HOK (f s0).1 h) (hm : Mono c s0 (f s0).1 (f s0).2.2) :
    RunOK c w ((fun s => let (s', ok, e) := f s; (s', boolStr ok, (none : Option String), e)) s0) := by
  simp only []
  generalize f s0 = g at hinv hcur hm
  obtain ⟨s', r, e⟩ := g
  exact ⟨hinv, hcur, by rw [hn]; exact hm.next, hm.evs⟩

theorem runOK_read {c : Codec} {w : World} (s0 : State) (ret : RetV) (hn : w.st.nextId = s0.nextId)
    (hinv : Inv c s0) (hcur : ∀ h, w.cur = some h → HOK s0 h) :
    RunOK c w (s0, ret, (none : Option String), ([] : List Ev)) :=
  ⟨hinv, hcur, by rw [hn]; exact Nat.le_refl _, EvsOK.nil _ _⟩

/-! ### the side conditions of a history -/

/-- `LogOut(uid)` / `RefreshUser` called from outside the request do not concern the session of a
request in flight: otherwise, when that session's object is not cached, a *second* object is loaded and
cached for it, and the handler's later writes through its own object leave the cached one stale
(`two_objects_break_coherence` below). -/
def SoleObject (le : ID → ID → Bool) (w : World) (uid : String) : Prop :=
  ∀ h, w.cur = some h → (w.st.obj h).id ∉ userSessions le w.st uid

/-- the side condition on one operation of a history. -/
def OpOK (le : ID → ID → Bool) (w : World) : Op → Prop
  | .codec _ => False
  | .logoutUser uid => w.skip = true ∨ SoleObject le w uid
  | .refresh uid => w.skip = true ∨ SoleObject le w uid
  | _ => True

theorem setCfg_codec (cfg : Cfg) (n : String) (v : Int) : (setCfg cfg n v).codec = cfg.codec := by
  unfold setCfg
  repeat (first | rfl | split)

theorem step_skip (le : ID → ID → Bool) (w : World) (orc : Orc) (op : Op) (hsk : w.skip = true)
    (hne : op ≠ .endReq) : (w.step le orc op).1 = w := by
  unfold World.step
  cases op <;> first | exact absurd rfl hne | simp only [hsk, Bool.true_and, Bool.not_false, if_true]

/-! ### continuations of `World.step` -/

theorem fin_api {c : Codec} (w : World) (orc : Orc) (run : State → State × RetV × Option String × List Ev) (b : Bool)
    (hw : WInv c w) (hsk : w.skip = false) (hrun : RunOK c w (run { w.st with fails := orc.fails, picks := orc.picks })) :
    WInv c (finish (apiCall w orc run b).1 (apiCall w orc run b).2).1 := by
  rw [finish_fst]
  exact finW_inv (apiCall_pre w orc run b hw.codec hw.sok hw.cur_req hsk hrun)

theorem apiCall_inReq (w : World) (orc : Orc) (run : State → State × RetV × Option String × List Ev) (b : Bool) :
    (apiCall w orc run b).1.inReq = w.inReq := by rw [apiCall_fst]

theorem api_inreq {c : Codec} (w : World) (orc : Orc) (run : State → State × RetV × Option String × List Ev) (b : Bool)
    (hcodec : w.cfg.codec = c) (hsok : SOK c w.st.nextId w.st.store) (hcr : ∀ h, w.cur = some h → w.inReq = true)
    (hsk : w.skip = false) (hr : w.inReq = true)
    (hrun : RunOK c w (run { w.st with fails := orc.fails, picks := orc.picks })) :
    WInv c (apiCall w orc run b).1 :=
  (apiCall_pre w orc run b hcodec hsok hcr hsk hrun).toWInv (by rw [apiCall_inReq]; exact hr)

theorem runOK_mk {c : Codec} {w : World} (s0 s' : State) (ret : RetV) (msg : Option String) (evs : List Ev)
    (hn : w.st.nextId = s0.nextId) (hinv : Inv c s') (hcur : ∀ h, w.cur = some h → HOK s' h) (hm : Mono c s0 s' evs) :
    RunOK c w (s', ret, msg, evs) :=
  ⟨hinv, hcur, by rw [hn]; exact hm.next, hm.evs⟩

/-! ### one step of a history -/

/-- the state an API call runs on: the world's state with the operation's oracles installed. -/
@[reducible] def orcSt (w : World) (orc : Orc) : State := { w.st with fails := orc.fails, picks := orc.picks }


/-- Every operation of a fault-free history keeps the world invariant. -/
theorem step_inv {c : Codec} (le : ID → ID → Bool) (w : World) (orc : Orc) (op : Op) (hw : WInv c w) (ho : OrcOK orc)
    (hopk : OpOK le w op) : WInv c (w.step le orc op).1 := by
  by_cases hsk : w.skip = true
  · by_cases he : op = .endReq
    · subst he
      unfold World.step
      simp only [Bool.not_true, Bool.and_false, Bool.false_eq_true, if_false, finish_fst]
      apply finW_inv
      refine ⟨hw.codec, hw.sok, by intro h hh; simp at hh, by intro h; simp at h, ?_⟩
      intro _
      exact Or.inl ⟨hw.skip_crashed hsk, rfl⟩
    · rw [step_skip le w orc op hsk he]; exact hw
  · have hsk' : w.skip = false := by simpa using hsk
    obtain ⟨hinv, hcur⟩ := hw.good hsk'
    have hcd := hw.codec
    subst hcd
    have hnf0 : NoFail (orcSt w orc) := ho
    have hinv0 : Inv w.cfg.codec (orcSt w orc) := hinv.congr rfl rfl rfl rfl rfl
    have hcur0 : ∀ h, w.cur = some h → HOK (orcSt w orc) h := fun h hh => (hcur h hh).congr rfl rfl rfl
    unfold World.step
    cases op with
    | codec c' => exact absurd hopk (by simp [OpOK])
    | cfg n v =>
      simp only [hsk', Bool.false_and, Bool.false_eq_true, if_false, finish_fst]
      apply finW_inv
      exact ⟨setCfg_codec w.cfg n v, hw.sok, hw.cur_req, by intro h; simp at h,
        fun _ => Or.inr ⟨hinv, hcur⟩⟩
    | cookiecfg ck =>
      simp only [hsk', Bool.false_and, Bool.false_eq_true, if_false, finish_fst]
      exact finW_inv ⟨hw.codec, hw.sok, hw.cur_req, by intro h; simp at h, fun _ => Or.inr ⟨hinv, hcur⟩⟩
    | fault =>
      simp only [hsk', Bool.false_and, Bool.false_eq_true, if_false, finish_fst]
      exact finW_inv (hw.toWPre hsk')
    | stale uid id =>
      simp only [hsk', Bool.false_and, Bool.false_eq_true, if_false, finish_fst]
      exact finW_inv ⟨hw.codec, hw.sok, hw.cur_req, by intro h; simp at h,
        fun _ => Or.inr ⟨hinv.congr rfl rfl rfl rfl rfl, fun h hh => (hcur h hh).congr rfl rfl rfl⟩⟩
    | crashinside k =>
      simp only [hsk', Bool.false_and, Bool.false_eq_true, if_false, finish_fst]
      exact finW_inv ⟨hw.codec, hw.sok, hw.cur_req, by intro h; simp at h, fun _ => Or.inr ⟨hinv, hcur⟩⟩
    | wait d =>
      simp only [hsk', Bool.false_and, Bool.false_eq_true, if_false, finish_fst]
      have hA := advance_inv w.st d hinv
      exact finW_inv ⟨hw.codec, hA.sok, hw.cur_req, by intro h; simp at h,
        fun _ => Or.inr ⟨hA, fun h hh => advance_hok w.st d h (hcur h hh)⟩⟩
    | dropcache =>
      simp only [hsk', Bool.false_and, Bool.false_eq_true, if_false, finish_fst]
      exact finW_inv ⟨hw.codec, hw.sok, hw.cur_req, by intro h; simp at h,
        fun _ => Or.inr ⟨inv_cache_nil hinv, fun h hh => (hcur h hh).shrink rfl rfl (by intro p hp; simp at hp)⟩⟩
    | crash =>
      simp only [hsk', Bool.false_and, Bool.false_eq_true, if_false, finish_fst]
      exact finW_inv ⟨hw.codec, hw.sok, hw.cur_req, fun _ => rfl, fun _ => Or.inr ⟨hinv, hcur⟩⟩
    | expiredRec id =>
      simp only [hsk', Bool.false_and, Bool.false_eq_true, if_false, finish_fst]
      exact finW_inv (hw.toWPre hsk')
    | purge =>
      simp only [hsk', Bool.false_and, Bool.false_eq_true, if_false]
      apply fin_api w orc _ false hw hsk'
      obtain ⟨hf, _⟩ := purge_spec w.cfg (orcSt w orc) hnf0 hinv0
      exact runOK_mk (orcSt w orc) _ _ _ _ rfl hf.inv (fun h hh => (hcur0 h hh).flush hf) hf.step.toMono
    | logoutUser uid =>
      simp only [hsk', Bool.false_and, Bool.false_eq_true, if_false]
      apply fin_api w orc _ false hw hsk'
      have hP := logoutUser_spec w.cfg le (orcSt w orc) uid hnf0 hinv0
      refine runOK_mk (orcSt w orc) _ _ _ _ rfl hP.inv ?_ hP.step.toMono
      intro h hh
      rcases hopk with hs | hs
      · rw [hsk'] at hs; simp at hs
      · exact hP.keep h (hcur0 h hh) (fun id hid e => hs h hh (e ▸ hid))
    | refresh uid =>
      simp only [hsk', Bool.false_and, Bool.false_eq_true, if_false]
      apply fin_api w orc _ false hw hsk'
      have hP := refreshUser_spec w.cfg le (orcSt w orc) uid hnf0 hinv0
      refine runOK_mk (orcSt w orc) _ _ _ _ rfl hP.inv ?_ hP.step.toMono
      intro h hh
      rcases hopk with hs | hs
      · rw [hsk'] at hs; simp at hs
      · exact hP.keep h (hcur0 h hh) (fun id hid e => hs h hh (e ▸ hid))
    | endReq =>
      simp only [hsk', Bool.false_and, Bool.false_eq_true, if_false, finish_fst]
      apply finW_inv
      refine ⟨hw.codec, hw.sok, by intro h hh; simp at hh, by intro h; simp at h, ?_⟩
      intro _
      exact Or.inr ⟨hinv, by intro h hh; simp at hh⟩
    | req client spec ip ua create =>
      simp only [hsk', Bool.false_and, Bool.false_eq_true, if_false]
      generalize ({ cookie := _, cookieLen := _, ip := ip, ua := ua, create := create } : Req) = r
      have hS := start_spec w.cfg (orcSt w orc) r hnf0 hinv0
      refine api_inreq _ orc _ true ?_ ?_ ?_ ?_ ?_ ?_
      · exact rfl
      · exact hw.sok
      · intro _ _; rfl
      · rfl
      · rfl
      refine runOK_mk (orcSt w orc) _ _ _ _ rfl hS.inv ?_ hS.mono
      intro h hh
      apply hS.hok h
      simp only at hh
      split at hh
      · rename_i h' hres
        simp only [Option.some.injEq] at hh
        rw [← hh]; exact hres
      · simp at hh
    | h hop =>
      simp only [hsk', Bool.false_and, Bool.false_eq_true, if_false]
      cases hc : w.cur with
      | none => exact hw
      | some h =>
        simp only []
        have hk0 := hcur0 h hc
        have hr := hw.cur_req h hc
        apply api_inreq w orc _ true hw.codec hw.sok hw.cur_req hsk' hr
        have hsame : ∀ h', w.cur = some h' → h' = h := by intro h' hh'; rw [hc] at hh'; simp at hh'; exact hh'.symm
        cases hop with
        | set k v =>
          have hP := hset_spec w.cfg (orcSt w orc) h k v hnf0 hinv0 hk0
          exact runOK_mk (orcSt w orc) _ _ _ _ rfl hP.inv (fun h' hh' => by rw [hsame h' hh']; exact hP.hok) hP.step.toMono
        | del k =>
          have hP := hdel_spec w.cfg (orcSt w orc) h k hnf0 hinv0 hk0
          exact runOK_mk (orcSt w orc) _ _ _ _ rfl hP.inv (fun h' hh' => by rw [hsame h' hh']; exact hP.hok) hP.step.toMono
        | get k =>
          exact runOK_mk (orcSt w orc) _ _ _ _ rfl hinv0 hcur0 (Step.refl (c := w.cfg.codec) hnf0).toMono
        | getdel k =>
          have hP := hgetdel_spec w.cfg (orcSt w orc) h k hnf0 hinv0 hk0
          exact runOK_mk (orcSt w orc) _ _ _ _ rfl hP.inv (fun h' hh' => by rw [hsame h' hh']; exact hP.hok) hP.step.toMono
        | login uid excl =>
          have hP := hlogin_spec w.cfg le (orcSt w orc) h uid excl hnf0 hinv0 hk0
          exact runOK_mk (orcSt w orc) _ _ _ _ rfl hP.inv (fun h' hh' => by rw [hsame h' hh']; exact hP.hok) hP.mono
        | logout =>
          have hP := hlogout_spec w.cfg (orcSt w orc) h hnf0 hinv0 hk0
          exact runOK_mk (orcSt w orc) _ _ _ _ rfl hP.inv (fun h' hh' => by rw [hsame h' hh']; exact hP.hok) hP.step.toMono
        | regen =>
          have hP := regenerate_spec w.cfg (orcSt w orc) h hnf0 hk0.toHL hinv0
          exact runOK_mk (orcSt w orc) _ _ _ _ rfl hP.inv (fun h' hh' => by rw [hsame h' hh']; exact hP.hok) hP.mono
        | destroy =>
          have hP := hdestroy_spec w.cfg (orcSt w orc) h w.hasCookie hnf0 hinv0 hk0
          exact runOK_mk (orcSt w orc) _ _ _ _ rfl hP.inv (fun h' hh' => by rw [hsame h' hh']; exact hP.hok) hP.step.toMono
        | expired =>
          exact runOK_mk (orcSt w orc) _ _ _ _ rfl hinv0 hcur0 (Step.refl (c := w.cfg.codec) hnf0).toMono
        | lastaccess =>
          exact runOK_mk (orcSt w orc) _ _ _ _ rfl hinv0 hcur0 (Step.refl (c := w.cfg.codec) hnf0).toMono
        | user =>
          exact runOK_mk (orcSt w orc) _ _ _ _ rfl hinv0 hcur0 (Step.refl (c := w.cfg.codec) hnf0).toMono

end Sx
