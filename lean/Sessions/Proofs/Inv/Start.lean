import Sessions.Proofs.Inv.Regen
/-!
# `Start` (with `Destroy`, reference following, creation) keeps the invariant and hands out a good handle
-/
namespace Sx

theorem Mono.of_le {c : Codec} {s s1 s' : State} {evs : List Ev} (hm : Mono c s1 s' evs) (hn : s.nextId ≤ s1.nextId)
    (hl : s.heap.length ≤ s1.heap.length) : Mono c s s' evs :=
  ⟨hm.nofail, Nat.le_trans hn hm.next, Nat.le_trans hl hm.len, hm.evs⟩

theorem Mono.after {c : Codec} {s s1 s' : State} {e1 evs : List Ev} (h1 : Step c s s1 e1) (hm : Mono c s1 s' evs) :
    Mono c s s' evs := hm.of_le h1.next h1.len

theorem evsOK_single_other {c : Codec} {n : Nat} {e : Ev} (h : EvOK c n e) : EvsOK c n [e] := by
  intro e' he; simp only [List.mem_singleton] at he; subst he; exact h

/-! ### replacing an object by one with the same id and reference -/

theorem HOK.setObj_same {s : State} {k : Nat} (hk : HOK s k) (h : Nat) (o : Sess) (hid : o.id = (s.obj h).id)
    (hr : o.ref = (s.obj h).ref) : HOK (s.setObj h o) k := by
  have hsame := setObj_obj_same s h k o hid hr
  refine ⟨⟨by rw [setObj_len]; exact hk.valid, by rw [hsame.1]; exact hk.minted, by rw [hsame.2]; exact hk.ref⟩, ?_⟩
  intro h' hm
  rw [hsame.1] at hm
  exact hk.only h' hm

theorem setObj_step {c : Codec} {s : State} (h : Nat) (o : Sess) (hid : o.id = (s.obj h).id) (hr : o.ref = (s.obj h).ref)
    (hnf : NoFail s) : Step c s (s.setObj h o) [] :=
  ⟨⟨hnf, Nat.le_refl _, by rw [setObj_len]; exact Nat.le_refl _, EvsOK.nil _ _⟩, fun k _ => setObj_obj_same s h k o hid hr⟩

/-! ### touch -/

theorem touch_inv {c : Codec} {x : Option ID} {s : State} (h : Nat) (r : Req) (hi : InvX c x s) : InvX c x (touch s h r) :=
  inv_setObj_same h _ rfl rfl (ess_enc_congr c rfl rfl rfl rfl) hi

theorem touch_step {c : Codec} {s : State} (h : Nat) (r : Req) (hnf : NoFail s) : Step c s (touch s h r) [] :=
  setObj_step h _ rfl rfl hnf

theorem HOK.touch {s : State} {k : Nat} (hk : HOK s k) (h : Nat) (r : Req) : HOK (touch s h r) k :=
  hk.setObj_same h _ rfl rfl

/-! ### Destroy -/

theorem destroy_spec {c : Codec} (x : Option ID) (s : State) (h : Nat) (b : Bool) (hnf : NoFail s) (hi : InvX c x s) :
    Flush c x s (destroy s h b).1 (destroy s h b).2.2 ∧ (b = true → (destroy s h b).2.1 = true) := by
  obtain ⟨hok, hf⟩ := cacheDelete_spec x s (s.obj h).id hnf hi
  unfold destroy
  generalize cacheDelete s (s.obj h).id = g at hok hf
  obtain ⟨s1, ok, e1⟩ := g
  simp only at hok hf ⊢
  subst hok
  simp only [Bool.not_true, Bool.false_eq_true, if_false]
  cases b with
  | true =>
    simp only [if_true]
    refine ⟨⟨hf.inv, hf.nofail, hf.heap, hf.nextId, hf.sub, hf.evs.append (evsOK_single_other (e := .delCookie) trivial)⟩, fun _ => trivial⟩
  | false =>
    simp only [Bool.false_eq_true, if_false]
    exact ⟨hf, fun h => by simp at h⟩

/-! ### results of `Start` -/

/-- what `Start` and its parts guarantee when nothing fails. -/
structure StartPost (cfg : Cfg) (s : State) (r : State × Res × List Ev) : Prop where
  inv : Inv cfg.codec r.1
  mono : Mono cfg.codec s r.1 r.2.2
  hok : ∀ h, r.2.1 = .sess h → HOK r.1 h

/-! ### creating a session -/

theorem createNew_spec (cfg : Cfg) (s : State) (r : Req) (pre : List Ev) (hnf : NoFail s) (hi : Inv cfg.codec s)
    (hpre : EvsOK cfg.codec s.nextId pre) : StartPost cfg s (createNew cfg s r pre) := by
  unfold createNew
  by_cases hcr : r.create = true
  · have hb : (!r.create) = false := by simp [hcr]
    simp only [hb, Bool.false_eq_true, if_false]
    have hi0 : Inv cfg.codec ({ s with nextId := s.nextId + 1 } : State) := inv_nextId (s.nextId + 1) (Nat.le_succ _) hi
    generalize ho : ({ id := ID.gen s.nextId, created := s.now, lastAccess := s.now, ip := r.ip, ua := agentHash r.ua } : Sess) = o
    have hoid : o.id = ID.gen s.nextId := by rw [← ho]
    have horef : o.ref = none := by rw [← ho]
    have hiA := inv_alloc o hi0
    have hnew := obj_alloc_new ({ s with nextId := s.nextId + 1 } : State) o
    have hlenA := alloc_len ({ s with nextId := s.nextId + 1 } : State) o
    have hfstA := alloc_fst ({ s with nextId := s.nextId + 1 } : State) o
    have hnextA : (({ s with nextId := s.nextId + 1 } : State).alloc o).2.nextId = s.nextId + 1 := rfl
    have hnfA : NoFail (({ s with nextId := s.nextId + 1 } : State).alloc o).2 := hnf
    generalize (({ s with nextId := s.nextId + 1 } : State).alloc o).1 = h at hnew hfstA ⊢
    generalize (({ s with nextId := s.nextId + 1 } : State).alloc o).2 = s1 at hiA hnew hlenA hnextA hnfA ⊢
    have hlen1 : s1.heap.length = s.heap.length + 1 := hlenA
    have hlA : HL s1 h :=
      ⟨by rw [hlen1, hfstA]; show s.heap.length < _; omega,
       by rw [hnew, hoid, hnextA]; exact minted_gen _,
       by rw [hnew, horef]; exact refOK_none _⟩
    have hS := cacheSet_spec cfg none s1 h hnfA hlA hiA
    generalize cacheSet cfg s1 h = g at hS ⊢
    obtain ⟨s2, ok, e2⟩ := g
    obtain ⟨hok, hinv, hst, hhok, _, hnext, hlen, _, _⟩ := hS
    simp only [reduceCtorEq, if_false] at hok hinv hst hhok hnext hlen ⊢
    subst hok
    simp only [Bool.not_true, Bool.false_eq_true, if_false]
    have hn2 : s2.nextId = s.nextId + 1 := by rw [hnext, hnextA]
    refine ⟨hinv, ⟨hst.nofail, ?_, ?_, ?_⟩, ?_⟩
    · show s.nextId ≤ s2.nextId; omega
    · show s.heap.length ≤ s2.heap.length; omega
    · show EvsOK cfg.codec s2.nextId (pre ++ e2 ++ [.setCookie (ID.gen s.nextId)])
      refine ((hpre.mono (by omega)).append hst.evs).append (evsOK_single_other ?_)
      show Minted s2.nextId (ID.gen s.nextId)
      rw [hn2]; exact minted_gen _
    · intro h' hh'
      simp only [Res.sess.injEq] at hh'
      subst hh'
      exact hhok
  · have hb : (!r.create) = true := by simp [hcr]
    simp only [hb, if_true]
    exact ⟨hi, ⟨hnf, Nat.le_refl _, Nat.le_refl _, hpre⟩, fun h hh => by simp at hh⟩

/-! ### following references -/

structure FollowPost (cfg : Cfg) (s : State) (r : State × GetRes × List Ev) : Prop where
  inv : Inv cfg.codec r.1
  step : Step cfg.codec s r.1 r.2.2
  res : r.2.1 = .nil ∨ ∃ h, r.2.1 = .some h ∧ HOK r.1 h

theorem follow_spec (cfg : Cfg) (fuel : Nat) (s : State) (h : Nat) (hnf : NoFail s) (hi : Inv cfg.codec s) (hk : HOK s h) :
    FollowPost cfg s (follow cfg fuel s h) := by
  induction fuel generalizing s h with
  | zero => exact ⟨hi, Step.refl hnf, Or.inl rfl⟩
  | succ n ih =>
    cases hr : (s.obj h).ref with
    | none =>
      simp only [follow, hr]
      exact ⟨hi, Step.refl hnf, Or.inr ⟨h, rfl, hk⟩⟩
    | some tgt =>
      simp only [follow, hr]
      have hG := cacheGet_spec cfg s tgt hnf hi
      generalize cacheGet cfg s tgt = g at hG ⊢
      obtain ⟨s1, gr, e1⟩ := g
      obtain ⟨hinv1, hst1, _, hres1, _⟩ := hG
      simp only at hinv1 hst1 hres1 ⊢
      rcases hres1 with rfl | ⟨h2, rfl, hk2, _⟩
      · exact ⟨hinv1, hst1, Or.inl rfl⟩
      · simp only []
        have hF := ih s1 h2 hst1.nofail hinv1 hk2
        generalize follow cfg n s1 h2 = g2 at hF ⊢
        obtain ⟨s2, r2, e2⟩ := g2
        exact ⟨hF.inv, hst1.trans hF.step, hF.res⟩

/-! ### Start on a valid object -/

theorem startValid_spec (cfg : Cfg) (s1 : State) (id : ID) (h : Nat) (r : Req) (e1 : List Ev) (hnf : NoFail s1)
    (hi : Inv cfg.codec s1) (hk : HOK s1 h) (hpre : EvsOK cfg.codec s1.nextId e1) :
    StartPost cfg s1 (startValid cfg s1 id h r e1) := by
  unfold startValid
  simp only []
  split
  · -- the id is due for rotation
    have hR := regenerate_spec cfg s1 h hnf hk.toHL hi
    generalize regenerate cfg s1 h = g at hR ⊢
    obtain ⟨s2, ok, e2⟩ := g
    obtain ⟨hok, hinv, hmono, hhok, _, _⟩ := hR
    simp only at hok hinv hmono hhok ⊢
    subst hok
    simp only [Bool.not_true, Bool.false_eq_true, if_false]
    have hst := touch_step (c := cfg.codec) h r hmono.nofail
    refine ⟨touch_inv h r hinv, ?_, ?_⟩
    · have := (hmono.evs_pre e1 (hpre.mono hmono.next))
      exact ⟨hst.nofail, Nat.le_trans this.next hst.next, Nat.le_trans this.len hst.len, this.evs.mono hst.next⟩
    · intro h' hh'
      simp only [Res.sess.injEq] at hh'
      subst hh'
      exact hhok.touch h r
  · split
    · -- the id expired beyond the grace period
      obtain ⟨hok, hf⟩ := cacheDelete_spec none s1 id hnf hi
      generalize cacheDelete s1 id = g at hok hf ⊢
      obtain ⟨s2, ok, e2⟩ := g
      simp only at hok hf ⊢
      subst hok
      simp only [Bool.not_true, Bool.false_eq_true, if_false]
      exact ⟨hf.inv, (hf.step.evs_pre e1 (by rw [hf.nextId]; exact hpre)).toMono, fun h' hh' => by simp at hh'⟩
    · split
      · -- a reference record: follow the chain
        have hF := follow_spec cfg (s1.store.length + s1.cache.length + 1) s1 h hnf hi hk
        generalize follow cfg (s1.store.length + s1.cache.length + 1) s1 h = g at hF ⊢
        obtain ⟨s2, gr, e2⟩ := g
        obtain ⟨hinv, hst, hres⟩ := hF
        simp only at hinv hst hres ⊢
        have hst' := hst.evs_pre e1 (hpre.mono hst.next)
        rcases hres with rfl | ⟨h2, rfl, hk2⟩
        · exact ⟨hinv, hst'.toMono, fun h' hh' => by simp at hh'⟩
        · simp only []
          have hst2 := touch_step (c := cfg.codec) h2 r hst.nofail
          refine ⟨touch_inv h2 r hinv, ?_, ?_⟩
          · refine ⟨hst2.nofail, Nat.le_trans hst'.next hst2.next, Nat.le_trans hst'.len hst2.len, ?_⟩
            show EvsOK cfg.codec (touch s2 h2 r).nextId (e1 ++ e2 ++ [.setCookie (s2.obj h2).id])
            exact hst'.evs.append (evsOK_single_other hk2.minted)
          · intro h' hh'
            simp only [Res.sess.injEq] at hh'
            subst hh'
            exact hk2.touch h2 r
      · -- the ordinary case
        have hst := touch_step (c := cfg.codec) h r hnf
        refine ⟨touch_inv h r hi, ⟨hst.nofail, hst.next, hst.len, hpre⟩, ?_⟩
        intro h' hh'
        simp only [Res.sess.injEq] at hh'
        subst hh'
        exact hk.touch h r

/-! ### Start -/

/-- `Start` keeps the invariant for every request whatsoever, and the handle it returns satisfies `HOK`. -/
theorem start_spec (cfg : Cfg) (s : State) (r : Req) (hnf : NoFail s) (hi : Inv cfg.codec s) :
    StartPost cfg s (start cfg s r) := by
  unfold start
  split
  · exact createNew_spec cfg s r [] hnf hi (EvsOK.nil _ _)
  · rename_i id hck
    split
    · exact createNew_spec cfg s r [] hnf hi (EvsOK.nil _ _)
    · have hG := cacheGet_spec cfg s id hnf hi
      generalize cacheGet cfg s id = g at hG ⊢
      obtain ⟨s1, gr, e1⟩ := g
      obtain ⟨hinv1, hst1, _, hres1, _⟩ := hG
      simp only at hinv1 hst1 hres1 ⊢
      rcases hres1 with rfl | ⟨h, rfl, hk, _⟩
      · simp only []
        have hC := createNew_spec cfg s1 r (e1 ++ [.delCookie]) hst1.nofail hinv1 (hst1.evs.append (evsOK_single_other (e := .delCookie) trivial))
        exact ⟨hC.inv, hC.mono.after hst1, hC.hok⟩
      · simp only []
        split
        · -- stale or foreign: destroy, then maybe create
          obtain ⟨hf, hok⟩ := destroy_spec none s1 h true hst1.nofail hinv1
          have hok' := hok rfl
          generalize destroy s1 h true = g at hf hok' ⊢
          obtain ⟨s2, ok, e2⟩ := g
          simp only at hf hok' ⊢
          subst hok'
          simp only [Bool.not_true, Bool.false_eq_true, if_false]
          have hC := createNew_spec cfg s2 r (e1 ++ e2) hf.nofail hf.inv
            ((hst1.evs.mono (by rw [hf.nextId]; exact Nat.le_refl _)).append (by rw [hf.nextId]; exact hf.evs))
          exact ⟨hC.inv, (hC.mono.after hf.step).after hst1, hC.hok⟩
        · have hV := startValid_spec cfg s1 id h r e1 hst1.nofail hinv1 hk hst1.evs
          exact ⟨hV.inv, hV.mono.after hst1, hV.hok⟩

end Sx
