import Sessions.Proofs.Inv.Assoc
import Sessions.Proofs.Inv.Defs
import Sessions.Proofs.Inv.Prims
import Sessions.Proofs.Inv.Compact
import Sessions.Proofs.Inv.CacheOps
import Sessions.Proofs.Inv.Regen
import Sessions.Proofs.Inv.Start
import Sessions.Proofs.Inv.Handlers
import Sessions.Proofs.Inv.Users
import Sessions.Proofs.Inv.World
import Sessions.Proofs.Inv.Hist
import Sessions.Proofs.Inv.Examples
/-!
# The structural + coherence invariant of the session model `Sx` (I0, I1, C09)

* `Defs`     — `Minted`, `ess`, `Norm`, `NoFail`, `InvX`/`Inv`, `HL`/`HOK`, `EvOK`, `Mono`/`Step`; codec lemmas
* `Prims`    — fault-free `saveRec`/`delRec`/`loadRec`; elementary state updates
* `Compact`  — order oracle, idle sweep, eviction loop, `compact_spec`
* `CacheOps` — `cacheSet_spec`, `cacheGet_spec`, `cacheDelete_spec`, `purge_spec`, bare persistence calls
* `Regen`    — `regenerate_spec`
* `Start`    — `destroy_spec`, `createNew_spec`, `follow_spec`, `startValid_spec`, `start_spec`
* `Handlers` — `hset_spec`, `hdel_spec`, `hgetdel_spec`, `hlogout_spec`, `hdestroy_spec`
* `Users`    — `setUserAll_spec`, `forUser_spec`, `logoutUser_spec`, `refreshUser_spec`, `hlogin_spec`
* `World`    — time, `WInv`, `apiCall`, `finish`, `step_inv`
* `Hist`     — `coherence_all_histories`, `coherence_every_boundary`, `c09_crash_equiv`, sufficient conditions
* `Examples` — non-vacuity, and the failing case `two_objects_break_coherence` / `badScript`
-/
