import Sessions.Proofs.Inv.Compact
/-!
# `cache.Set`, `cache.Get`, `cache.Delete`, `PurgeSessions`
-/
namespace Sx

theorem HOK.flush {c x s s' evs h} (hk : HOK s h) (hf : Flush c x s s' evs) : HOK s' h := by
  have ho := hf.obj
  refine ⟨hk.toHL.congr hf.heap hf.nextId, ?_⟩
  intro h' hm
  rw [ho] at hm
  exact hk.only h' (hf.sub _ hm)

/-! ### cache.Set -/

def touchNow (s : State) (h : Nat) : State := s.setObj h { s.obj h with lastAccess := s.now }

def csReq (s0 : State) (k : ID) : Int := if (lookup k s0.cache).isSome then 0 else 1

theorem csReq_nonneg (s0 : State) (k : ID) : 0 ≤ csReq s0 k := by unfold csReq; split <;> omega

def csInsert (cfg : Cfg) (s1 : State) (k : ID) (h : Nat) : State :=
  if cfg.maxCache != 0 then { s1 with cache := insert k h s1.cache } else s1

theorem csInsert_on {cfg : Cfg} (hc : cfg.maxCache ≠ 0) (s1 : State) (k : ID) (h : Nat) :
    csInsert cfg s1 k h = { s1 with cache := insert k h s1.cache } := by
  have hb : (cfg.maxCache != 0) = true := by simp [hc]
  simp only [csInsert, hb, if_true]

theorem csInsert_off {cfg : Cfg} (hc : cfg.maxCache = 0) (s1 : State) (k : ID) (h : Nat) : csInsert cfg s1 k h = s1 := by
  have hb : (cfg.maxCache != 0) = false := by simp [hc]
  simp only [csInsert, hb, Bool.false_eq_true, if_false]

/-- `cache.Set` as a composition of named steps. -/
theorem cacheSet_unfold (cfg : Cfg) (s : State) (h : Nat) :
    cacheSet cfg s h =
      ((saveRec cfg (csInsert cfg (compact cfg (csReq (touchNow s h) (s.obj h).id) (touchNow s h)).1 (s.obj h).id h) (s.obj h).id
          ((csInsert cfg (compact cfg (csReq (touchNow s h) (s.obj h).id) (touchNow s h)).1 (s.obj h).id h).obj h)).1,
       (saveRec cfg (csInsert cfg (compact cfg (csReq (touchNow s h) (s.obj h).id) (touchNow s h)).1 (s.obj h).id h) (s.obj h).id
          ((csInsert cfg (compact cfg (csReq (touchNow s h) (s.obj h).id) (touchNow s h)).1 (s.obj h).id h).obj h)).2.1,
       (compact cfg (csReq (touchNow s h) (s.obj h).id) (touchNow s h)).2 ++
       (saveRec cfg (csInsert cfg (compact cfg (csReq (touchNow s h) (s.obj h).id) (touchNow s h)).1 (s.obj h).id h) (s.obj h).id
          ((csInsert cfg (compact cfg (csReq (touchNow s h) (s.obj h).id) (touchNow s h)).1 (s.obj h).id h).obj h)).2.2) := rfl

theorem touchNow_inv {c : Codec} {x : Option ID} {s : State} (h : Nat) (hi : InvX c x s) : InvX c x (touchNow s h) :=
  inv_setObj_same h _ rfl rfl (ess_enc_congr c rfl rfl rfl rfl) hi

theorem touchNow_step {c : Codec} {s : State} (h : Nat) (hnf : NoFail s) : Step c s (touchNow s h) [] :=
  ⟨⟨hnf, Nat.le_refl _, by unfold touchNow; rw [setObj_len]; exact Nat.le_refl _, EvsOK.nil _ _⟩,
   fun k _ => setObj_obj_same s h k _ rfl rfl⟩

/-- what `cache.Set` guarantees when nothing fails. -/
structure SetPost (cfg : Cfg) (x : Option ID) (s : State) (h : Nat) (r : State × Bool × List Ev) : Prop where
  ok : r.2.1 = true
  inv : InvX cfg.codec (if x = some (s.obj h).id then none else x) r.1
  step : Step cfg.codec s r.1 r.2.2
  hok : HOK r.1 h
  src : ∀ p ∈ r.1.cache, p = ((s.obj h).id, h) ∨ p ∈ s.cache
  nextId : r.1.nextId = s.nextId
  len : r.1.heap.length = s.heap.length
  cached : cfg.maxCache ≠ 0 → ((s.obj h).id, h) ∈ r.1.cache
  empty : cfg.maxCache = 0 → r.1.cache = []

theorem cacheSet_spec (cfg : Cfg) (x : Option ID) (s : State) (h : Nat) (hnf : NoFail s) (hl : HL s h)
    (hi : InvX cfg.codec x s) : SetPost cfg x s h (cacheSet cfg s h) := by
  rw [cacheSet_unfold]
  have hi0 : InvX cfg.codec x (touchNow s h) := touchNow_inv h hi
  have hst0 : Step cfg.codec s (touchNow s h) [] := touchNow_step h hnf
  have hl0 : HL (touchNow s h) h := hl.step hst0
  have hid0 : ((touchNow s h).obj h).id = (s.obj h).id := (hst0.ids h hl.valid).1
  have hcache0 : (touchNow s h).cache = s.cache := rfl
  have hlen0 : (touchNow s h).heap.length = s.heap.length := by unfold touchNow; rw [setObj_len]
  have hnext0 : (touchNow s h).nextId = s.nextId := rfl
  obtain ⟨hf, _, hz⟩ := compact_spec cfg x (csReq (touchNow s h) (s.obj h).id) (touchNow s h) hnf hi0
  have hz' := fun hc => hz hc (csReq_nonneg _ _)
  generalize compact cfg (csReq (touchNow s h) (s.obj h).id) (touchNow s h) = g at hf hz'
  obtain ⟨s1, e1⟩ := g
  simp only at hf hz' ⊢
  have hl1 : HL s1 h := hl0.congr hf.heap hf.nextId
  have hid1 : (s1.obj h).id = (s.obj h).id := by rw [hf.obj]; exact hid0
  have hst1 : Step cfg.codec s s1 e1 := by simpa using hst0.trans hf.step
  by_cases hc : cfg.maxCache = 0
  · -- caching is off: compact emptied the cache, nothing is inserted
    rw [csInsert_off hc, saveRec_eq cfg _ _ hf.nofail]
    have hc1 : s1.cache = [] := hz' hc
    have hm1 : Minted s1.nextId (s.obj h).id := by rw [← hid1]; exact hl1.minted
    have hinv := inv_save_obj x s1 (s.obj h).id h hf.inv hm1 hl1.ref (by intro h' hm; rw [hc1] at hm; simp at hm)
    have hinv' : InvX cfg.codec (if x = some (s.obj h).id then none else x) (saveS cfg s1 (s.obj h).id (s1.obj h)) :=
      hinv.congr rfl rfl rfl rfl rfl
    have hst2 : Step cfg.codec s1 (saveS cfg s1 (s.obj h).id (s1.obj h)) [.save (s.obj h).id (enc cfg.codec (s1.obj h))] :=
      Step.of_eq hf.nofail.popF rfl rfl (evsOK_save hm1 hl1.ref)
    refine ⟨rfl, hinv', ?_, ⟨hl1.congr rfl rfl, ?_⟩, ?_, ?_, ?_, fun h0 => absurd hc h0, fun _ => hc1⟩
    · exact hst1.trans hst2
    · intro h' hm
      have : (h' : Nat) ∈ ([] : List Nat) := by
        have hm' : ((s1.obj h).id, h') ∈ s1.cache := hm
        rw [hc1] at hm'; simp at hm'
      simp at this
    · intro p hp
      have hp' : p ∈ s1.cache := hp
      rw [hc1] at hp'; simp at hp'
    · show s1.nextId = s.nextId
      rw [hf.nextId]; rfl
    · show s1.heap.length = s.heap.length
      rw [hf.heap, hlen0]
  · -- caching is on: insert and write through
    rw [csInsert_on hc]
    have hnf2 : NoFail ({ s1 with cache := insert (s.obj h).id h s1.cache } : State) := hf.nofail
    rw [saveRec_eq cfg _ _ hnf2]
    have hm1 : Minted s1.nextId (s.obj h).id := by rw [← hid1]; exact hl1.minted
    have hinv := putBoth_inv x s1 (s.obj h).id h hl1.valid hid1 hm1 hl1.ref hf.inv
    have hinv' : InvX cfg.codec (if x = some (s.obj h).id then none else x)
        (saveS cfg { s1 with cache := insert (s.obj h).id h s1.cache } (s.obj h).id
          (({ s1 with cache := insert (s.obj h).id h s1.cache } : State).obj h)) :=
      hinv.congr rfl rfl rfl rfl rfl
    have hst2 : Step cfg.codec s1 (saveS cfg { s1 with cache := insert (s.obj h).id h s1.cache } (s.obj h).id
          (({ s1 with cache := insert (s.obj h).id h s1.cache } : State).obj h))
          [.save (s.obj h).id (enc cfg.codec (s1.obj h))] :=
      Step.of_eq hnf2.popF rfl rfl (evsOK_save hm1 hl1.ref)
    have hmem : ((s.obj h).id, h) ∈ (saveS cfg { s1 with cache := insert (s.obj h).id h s1.cache } (s.obj h).id
          (({ s1 with cache := insert (s.obj h).id h s1.cache } : State).obj h)).cache := mem_insert_self _ _ _
    refine ⟨rfl, hinv', ?_, ⟨hl1.congr rfl rfl, ?_⟩, ?_, ?_, ?_, fun _ => hmem, fun h0 => absurd h0 hc⟩
    · exact hst1.trans hst2
    · intro h' hm
      have hm' : ((s1.obj h).id, h') ∈ insert (s.obj h).id h s1.cache := hm
      rw [hid1] at hm'
      exact hinv'.uniq hm' hmem
    · intro p hp
      rcases mem_insert (show p ∈ insert (s.obj h).id h s1.cache from hp) with e | ⟨hp', _⟩
      · exact Or.inl e
      · exact Or.inr (hf.sub p hp')
    · show s1.nextId = s.nextId
      rw [hf.nextId]; rfl
    · show s1.heap.length = s.heap.length
      rw [hf.heap, hlen0]

/-! ### cache.Get -/

theorem cacheGet_hit (cfg : Cfg) (s : State) (id : ID) (h : Nat) (hl : lookup id s.cache = some h) :
    cacheGet cfg s id = (s, .some h, []) := by
  unfold cacheGet; simp only [hl]

/-- inserting a freshly loaded object under its id. -/
theorem inv_cache_insert {c : Codec} {s : State} (id : ID) (hn : Nat) (hi : Inv c s) (hv : hn < s.heap.length)
    (hid : (s.obj hn).id = id) (hm : Minted s.nextId id) (hr : RefOK s.nextId (s.obj hn).ref)
    (hcoh : ∃ r, lookup id s.store = some r ∧ ess (enc c (s.obj hn)) = ess r) :
    Inv c { s with cache := insert id hn s.cache } := by
  constructor
  · exact nodup_insert hi.cnodup
  · intro id' h' hm'
    rcases mem_insert hm' with e | ⟨hm'', _⟩
    · simp only [Prod.mk.injEq] at e; rw [e.2]; exact hv
    · exact hi.valid id' h' hm''
  · intro id' h' hm' hx
    show (s.obj h').id = id'
    rcases mem_insert hm' with e | ⟨hm'', _⟩
    · simp only [Prod.mk.injEq] at e; rw [e.1, e.2]; exact hid
    · exact hi.wf id' h' hm'' hx
  · intro id' h' hm' hx
    show ∃ r, lookup id' s.store = some r ∧ ess (enc c (s.obj h')) = ess r
    rcases mem_insert hm' with e | ⟨hm'', _⟩
    · simp only [Prod.mk.injEq] at e; rw [e.1, e.2]; exact hcoh
    · exact hi.coh id' h' hm'' hx
  · intro id' h' hm'
    rcases mem_insert hm' with e | ⟨hm'', _⟩
    · simp only [Prod.mk.injEq] at e; rw [e.1]; exact hm
    · exact hi.ckeys id' h' hm''
  · intro id' h' hm'
    show RefOK s.nextId (s.obj h').ref
    rcases mem_insert hm' with e | ⟨hm'', _⟩
    · simp only [Prod.mk.injEq] at e; rw [e.2]; exact hr
    · exact hi.crefs id' h' hm''
  · exact hi.sok
  · exact hi.tkeys

/-- what `cache.Get` guarantees when nothing fails. -/
structure GetPost (cfg : Cfg) (s : State) (id : ID) (r : State × GetRes × List Ev) : Prop where
  inv : Inv cfg.codec r.1
  step : Step cfg.codec s r.1 r.2.2
  nextId : r.1.nextId = s.nextId
  res : r.2.1 = .nil ∨ ∃ h, r.2.1 = .some h ∧ HOK r.1 h ∧ (r.1.obj h).id = id
  src : ∀ p ∈ r.1.cache, p ∈ s.cache ∨ p.1 = id

theorem cacheGet_spec (cfg : Cfg) (s : State) (id : ID) (hnf : NoFail s) (hi : Inv cfg.codec s) :
    GetPost cfg s id (cacheGet cfg s id) := by
  cases hl : lookup id s.cache with
  | some h0 =>
    rw [cacheGet_hit cfg s id h0 hl]
    have hm := lookup_some_mem hl
    exact ⟨hi, Step.refl hnf, rfl, Or.inr ⟨h0, rfl, HOK.of_mem hi hm, hi.wf id h0 hm (by simp)⟩, fun p hp => Or.inl hp⟩
  | none =>
    unfold cacheGet
    simp only [hl]
    obtain ⟨heq, hnf0, hev0, hres⟩ := loadRec_spec s id hnf
    generalize loadRec s id = g at heq hnf0 hev0 hres
    obtain ⟨s0, lr, e0⟩ := g
    simp only at heq hnf0 hev0 hres
    have hi0 : Inv cfg.codec s0 := hi.eqv heq
    have hst0 : Step cfg.codec s s0 e0 := Step.of_eq hnf0 heq.heap heq.nextId (hev0 _ _)
    rcases hres with ⟨_, rfl⟩ | ⟨r, hlr, rfl⟩
    · exact ⟨hi0, hst0, heq.nextId, Or.inl rfl, fun p hp => Or.inl (by rw [← heq.cache]; exact hp)⟩
    · simp only []
      have hrm : (id, r) ∈ s0.store := by rw [heq.store]; exact lookup_some_mem hlr
      have hmint : Minted s0.nextId id := hi0.sok.keys id r hrm
      have hrref : RefOK s0.nextId r.ref := hi0.sok.refs id r hrm
      have hnorm : Norm cfg.codec r := hi0.sok.norm id r hrm
      have hnc : ∀ p ∈ s0.cache, p.1 ≠ id := by
        intro p hp e
        obtain ⟨pk, pv⟩ := p
        simp only at e; subst e
        rw [heq.cache] at hp
        exact lookup_none_not_mem hl pv hp
      have hiA := inv_alloc (dec s.ver id r) hi0
      have hstA : Step cfg.codec s0 (s0.alloc (dec s.ver id r)).2 [] :=
        ⟨⟨hnf0, Nat.le_refl _, by rw [alloc_len]; omega, EvsOK.nil _ _⟩,
         fun k hk => by rw [obj_alloc_old s0 _ k hk]; exact ⟨rfl, rfl⟩⟩
      have hnew := obj_alloc_new s0 (dec s.ver id r)
      have hlA : HL (s0.alloc (dec s.ver id r)).2 (s0.alloc (dec s.ver id r)).1 :=
        ⟨by rw [alloc_len, alloc_fst]; omega, by rw [hnew]; exact hmint, by rw [hnew]; exact hrref⟩
      by_cases hc : cfg.maxCache = 0
      · have hb : (cfg.maxCache != 0) = false := by simp [hc]
        simp only [hb, Bool.false_eq_true, if_false]
        refine ⟨hiA, ?_, heq.nextId, Or.inr ⟨_, rfl, ⟨hlA, ?_⟩, by rw [hnew]; rfl⟩, fun p hp => Or.inl (by rw [← heq.cache]; exact hp)⟩
        · simpa using hst0.trans hstA
        · intro h' hm
          rw [hnew] at hm
          exact absurd rfl (hnc _ hm)
      · have hb : (cfg.maxCache != 0) = true := by simp [hc]
        simp only [hb, if_true]
        obtain ⟨hf, ho, _⟩ := compact_spec cfg none 1 (s0.alloc (dec s.ver id r)).2 hnf0 hiA
        have hst : lookup id (compact cfg 1 (s0.alloc (dec s.ver id r)).2).1.store = some r := by
          rw [ho id hnc]; show lookup id s0.store = some r; rw [heq.store]; exact hlr
        have hAnext : (s0.alloc (dec s.ver id r)).2.nextId = s0.nextId := rfl
        have hAcache : (s0.alloc (dec s.ver id r)).2.cache = s0.cache := rfl
        generalize (s0.alloc (dec s.ver id r)).1 = hn at hnew hlA ⊢
        generalize (s0.alloc (dec s.ver id r)).2 = sA at hnew hlA hf hst hstA hiA hAnext hAcache ⊢
        generalize compact cfg 1 sA = g2 at hf hst ⊢
        obtain ⟨s2, e2⟩ := g2
        simp only at hf hst ⊢
        have hl2 : HL s2 hn := hlA.congr hf.heap hf.nextId
        have hobj2 : s2.obj hn = dec s.ver id r := by rw [hf.obj]; exact hnew
        have hfin := inv_cache_insert id hn hf.inv hl2.valid (by rw [hobj2]; rfl) (by rw [hf.nextId]; exact hlA.minted |> fun h => by rw [hnew] at h; exact h)
          hl2.ref ⟨r, hst, by rw [hobj2]; exact ess_enc_dec hnorm _ _⟩
        have hmem : (id, hn) ∈ ({ s2 with cache := insert id hn s2.cache } : State).cache := mem_insert_self _ _ _
        refine ⟨hfin, ?_, ?_, Or.inr ⟨hn, rfl, ?_, ?_⟩, ?_⟩
        · have h3 : Step cfg.codec s2 { s2 with cache := insert id hn s2.cache } [] :=
            Step.of_eq hf.nofail rfl rfl (EvsOK.nil _ _)
          simpa using ((hst0.trans hstA).trans hf.step).trans h3
        · show s2.nextId = s.nextId
          rw [hf.nextId, hAnext]; exact heq.nextId
        · have hk := HOK.of_mem hfin hmem
          exact hk
        · show (s2.obj hn).id = id
          rw [hobj2]; rfl
        · intro p hp
          rcases mem_insert (show p ∈ insert id hn s2.cache from hp) with e | ⟨hp', _⟩
          · right; rw [e]
          · left
            have := hf.sub p hp'
            rw [hAcache] at this
            rw [← heq.cache]; exact this

/-! ### cache.Delete -/

theorem cacheDelete_eq (s : State) (id : ID) (hnf : NoFail s) :
    cacheDelete s id = (delS { s with cache := erase id s.cache } id, true, [.del id]) := by
  unfold cacheDelete
  exact delRec_eq id hnf

theorem cacheDelete_spec {c : Codec} (x : Option ID) (s : State) (id : ID) (hnf : NoFail s) (hi : InvX c x s) :
    (cacheDelete s id).2.1 = true ∧ Flush c x s (cacheDelete s id).1 (cacheDelete s id).2.2 := by
  rw [cacheDelete_eq s id hnf]
  refine ⟨rfl, (inv_delete id hi).congr rfl rfl rfl rfl rfl, hnf.popF, rfl, rfl, fun p hp => (mem_erase hp).1, ?_⟩
  intro e he; simp at he; subst he; trivial

/-! ### PurgeSessions -/

theorem purgeList_spec (cfg : Cfg) (l : List (ID × Nat)) (s : State) (hnf : NoFail s) (hi : Inv cfg.codec s)
    (hl : ∀ p ∈ l, p ∈ s.cache) :
    Flush cfg.codec none s (purgeList cfg s l).1 (purgeList cfg s l).2 ∧ (purgeList cfg s l).1.cache = s.cache := by
  induction l generalizing s with
  | nil => exact ⟨Flush.refl hi hnf, rfl⟩
  | cons p rest ih =>
    obtain ⟨id, h⟩ := p
    simp only [purgeList, saveRec_eq cfg id (s.obj h) hnf]
    have hm : (id, h) ∈ s.cache := hl _ List.mem_cons_self
    have hinv := inv_save_obj none s id h hi (hi.ckeys id h hm) (hi.crefs id h hm)
      (fun h' hm' => ⟨hi.uniq hm' hm, hi.wf id h hm (by simp)⟩)
    simp only [reduceCtorEq, if_false] at hinv
    have hinv' : Inv cfg.codec (saveS cfg s id (s.obj h)) := hinv.congr rfl rfl rfl rfl rfl
    have hf1 : Flush cfg.codec none s (saveS cfg s id (s.obj h)) [.save id (enc cfg.codec (s.obj h))] :=
      ⟨hinv', hnf.popF, rfl, rfl, fun p hp => hp, evsOK_save (hi.ckeys id h hm) (hi.crefs id h hm)⟩
    obtain ⟨h1, h2⟩ := ih (saveS cfg s id (s.obj h)) hnf.popF hinv' (fun p hp => hl p (List.mem_cons_of_mem _ hp))
    exact ⟨hf1.trans h1, h2⟩

theorem purge_spec (cfg : Cfg) (s : State) (hnf : NoFail s) (hi : Inv cfg.codec s) :
    Flush cfg.codec none s (purge cfg s).1 (purge cfg s).2 ∧ (purge cfg s).1.cache = [] := by
  obtain ⟨h1, _⟩ := purgeList_spec cfg (orderBy s.picks s.cache) s hnf hi (fun p hp => mem_orderBy_sub hp)
  unfold purge
  generalize purgeList cfg s (orderBy s.picks s.cache) = g at h1
  obtain ⟨s1, e1⟩ := g
  simp only at h1 ⊢
  refine And.intro ?_ trivial
  exact ⟨inv_cache_nil h1.inv, h1.nofail, h1.heap, h1.nextId, by intro p hp; simp at hp, h1.evs⟩

/-! ### the bare persistence calls -/

/-- `SaveSession(id, obj h)` keeps the invariant when the only cache entry under `id` (if any) is `h` itself,
carrying that id; an exception at `id` is repaired. -/
theorem saveRec_inv (cfg : Cfg) (x : Option ID) (s : State) (id : ID) (h : Nat) (hnf : NoFail s) (hi : InvX cfg.codec x s)
    (hk : Minted s.nextId id) (hr : RefOK s.nextId (s.obj h).ref)
    (honly : ∀ h', (id, h') ∈ s.cache → h' = h ∧ (s.obj h).id = id) :
    (saveRec cfg s id (s.obj h)).2.1 = true ∧ NoFail (saveRec cfg s id (s.obj h)).1 ∧
    InvX cfg.codec (if x = some id then none else x) (saveRec cfg s id (s.obj h)).1 := by
  rw [saveRec_eq cfg id (s.obj h) hnf]
  exact ⟨rfl, hnf.popF, (inv_save_obj x s id h hi hk hr honly).congr rfl rfl rfl rfl rfl⟩

/-- `DeleteSession(id)` alone keeps the invariant when `id` is not cached
(`cache.Delete` and the clean-up goroutine drop the cache entry first). -/
theorem delRec_inv {c : Codec} (x : Option ID) (s : State) (id : ID) (hnf : NoFail s) (hi : InvX c x s)
    (hnc : ∀ h, (id, h) ∉ s.cache) :
    (delRec s id).2.1 = true ∧ NoFail (delRec s id).1 ∧ InvX c x (delRec s id).1 := by
  rw [delRec_eq id hnf]
  refine ⟨rfl, hnf.popF, ?_⟩
  constructor
  · exact hi.cnodup
  · exact hi.valid
  · exact hi.wf
  · intro id' h' hm hx
    obtain ⟨r, hl, he⟩ := hi.coh id' h' hm hx
    have hne : id' ≠ id := by intro e; subst e; exact hnc h' hm
    exact ⟨r, by show lookup id' (erase id s.store) = some r; rw [lookup_erase_ne _ hne]; exact hl, he⟩
  · exact hi.ckeys
  · exact hi.crefs
  · exact hi.sok.del id
  · exact hi.tkeys

/-- `LoadSession(id)` changes nothing the invariant reads. -/
theorem loadRec_inv {c : Codec} (x : Option ID) (s : State) (id : ID) (hnf : NoFail s) (hi : InvX c x s) :
    NoFail (loadRec s id).1 ∧ InvX c x (loadRec s id).1 := by
  obtain ⟨heq, hnf', _, _⟩ := loadRec_spec s id hnf
  exact ⟨hnf', hi.eqv heq⟩

end Sx
