import Sessions.Proofs.Inv.Prims
/-!
# `cache.compact`: idle sweep and eviction keep the invariant (any exception key, any order oracle)
-/
namespace Sx

/-! ### the order oracle only permutes -/

theorem mem_orderBy_sub {picks : List ID} {l : List (ID × Nat)} {p : ID × Nat} (h : p ∈ orderBy picks l) : p ∈ l := by
  unfold orderBy at h
  rcases List.mem_append.mp h with h | h
  · rw [List.mem_eraseDups, List.mem_filterMap] at h
    obtain ⟨a, _, ha⟩ := h
    exact List.mem_of_find?_eq_some ha
  · exact (List.mem_filter.mp h).1

theorem mem_orderBy_of_mem {picks : List ID} {l : List (ID × Nat)} (hn : (keys l).Nodup) {p : ID × Nat} (h : p ∈ l) :
    p ∈ orderBy picks l := by
  unfold orderBy
  by_cases hp : p.1 ∈ picks
  · apply List.mem_append_left
    rw [List.mem_eraseDups, List.mem_filterMap]
    refine ⟨p.1, hp, ?_⟩
    cases hf : l.find? (fun e => decide (e.1 = p.1)) with
    | none =>
      have := List.find?_eq_none.mp hf p h
      simp at this
    | some q =>
      have hq := List.mem_of_find?_eq_some hf
      have hqk : q.1 = p.1 := by simpa using List.find?_some hf
      obtain ⟨qk, qv⟩ := q
      obtain ⟨pk, pv⟩ := p
      simp only at hqk; subst hqk
      rw [nodup_functional hn hq h]
  · apply List.mem_append_right
    rw [List.mem_filter]
    exact ⟨h, by simpa using hp⟩

/-! ### one flush -/

/-- save the object of entry `(id, h)` under `id` and drop `id` from the cache. -/
def dropS (cfg : Cfg) (s : State) (id : ID) (h : Nat) : State :=
  { saveS cfg s id (s.obj h) with cache := erase id s.cache }

/-- what sweep, eviction loop and `compact` guarantee. -/
structure Flush (c : Codec) (x : Option ID) (s s' : State) (evs : List Ev) : Prop where
  inv : InvX c x s'
  nofail : NoFail s'
  heap : s'.heap = s.heap
  nextId : s'.nextId = s.nextId
  sub : ∀ p ∈ s'.cache, p ∈ s.cache
  evs : EvsOK c s.nextId evs

theorem Flush.refl {c x s} (hi : InvX c x s) (hnf : NoFail s) : Flush c x s s [] :=
  ⟨hi, hnf, rfl, rfl, fun _ h => h, EvsOK.nil _ _⟩

theorem Flush.trans {c x} {a b d : State} {e1 e2 : List Ev} (h1 : Flush c x a b e1) (h2 : Flush c x b d e2) :
    Flush c x a d (e1 ++ e2) :=
  ⟨h2.inv, h2.nofail, h2.heap.trans h1.heap, h2.nextId.trans h1.nextId, fun p hp => h1.sub p (h2.sub p hp),
   h1.evs.append (by rw [← h1.nextId]; exact h2.evs)⟩

theorem Flush.step {c x s s' evs} (h : Flush c x s s' evs) : Step c s s' evs :=
  Step.of_eq h.nofail h.heap h.nextId (by rw [h.nextId]; exact h.evs)

theorem Flush.obj {c x s s' evs} (h : Flush c x s s' evs) (k : Nat) : s'.obj k = s.obj k := obj_of_heap_eq h.heap k

theorem dropS_flush {cfg : Cfg} {x : Option ID} {s : State} (id : ID) (h : Nat) (hi : InvX cfg.codec x s) (hnf : NoFail s)
    (hk : Minted s.nextId id) (hr : RefOK s.nextId (s.obj h).ref) :
    Flush cfg.codec x s (dropS cfg s id h) [.save id (enc cfg.codec (s.obj h))] :=
  ⟨(inv_flush_drop id h hi hk hr).congr rfl rfl rfl rfl rfl, hnf.popF, rfl, rfl, fun _ hp => (mem_erase hp).1,
   evsOK_save hk hr⟩

theorem dropS_store_other (cfg : Cfg) (s : State) (id : ID) (h : Nat) (k : ID) (hne : k ≠ id) :
    lookup k (dropS cfg s id h).store = lookup k s.store := lookup_insert_ne _ _ hne

/-! ### the idle sweep -/

theorem sweep_nil (cfg : Cfg) (s : State) : sweep cfg s [] = (s, true, []) := rfl

theorem sweep_cons_young (cfg : Cfg) (s : State) (id : ID) (h : Nat) (rest : List (ID × Nat))
    (hy : ¬ since s.now (s.obj h).lastAccess > cfg.cacheExpiry) : sweep cfg s ((id, h) :: rest) = sweep cfg s rest := by
  simp only [sweep, hy, if_false]

theorem sweep_cons_old (cfg : Cfg) (s : State) (id : ID) (h : Nat) (rest : List (ID × Nat)) (hnf : NoFail s)
    (ho : since s.now (s.obj h).lastAccess > cfg.cacheExpiry) :
    sweep cfg s ((id, h) :: rest) =
      ((sweep cfg (dropS cfg s id h) rest).1, (sweep cfg (dropS cfg s id h) rest).2.1,
       [.save id (enc cfg.codec (s.obj h))] ++ (sweep cfg (dropS cfg s id h) rest).2.2) := by
  simp only [sweep, ho, if_true, saveRec_eq cfg id (s.obj h) hnf]
  rfl

/-- entries that may be flushed: minted key, minted reference. -/
def EntOK (s : State) (p : ID × Nat) : Prop := Minted s.nextId p.1 ∧ RefOK s.nextId (s.obj p.2).ref

theorem entOK_of_mem {c x s} (hi : InvX c x s) {p : ID × Nat} (hp : p ∈ s.cache) : EntOK s p :=
  ⟨hi.ckeys p.1 p.2 hp, hi.crefs p.1 p.2 hp⟩

theorem EntOK.congr {s s' : State} {p : ID × Nat} (h : EntOK s p) (h1 : s'.heap = s.heap) (h5 : s'.nextId = s.nextId) : EntOK s' p := by
  unfold EntOK; rw [h5, obj_of_heap_eq h1]; exact h

theorem sweep_spec (cfg : Cfg) (x : Option ID) (l : List (ID × Nat)) (s : State) (hnf : NoFail s)
    (hi : InvX cfg.codec x s) (hl : ∀ p ∈ l, EntOK s p) :
    (sweep cfg s l).2.1 = true ∧ Flush cfg.codec x s (sweep cfg s l).1 (sweep cfg s l).2.2 ∧
    ∀ k, (∀ p ∈ l, p.1 ≠ k) → lookup k (sweep cfg s l).1.store = lookup k s.store := by
  induction l generalizing s with
  | nil => exact ⟨rfl, Flush.refl hi hnf, fun _ _ => rfl⟩
  | cons p rest ih =>
    obtain ⟨id, h⟩ := p
    have hr : ∀ p ∈ rest, EntOK s p := fun p hp => hl p (List.mem_cons_of_mem _ hp)
    by_cases ho : since s.now (s.obj h).lastAccess > cfg.cacheExpiry
    · rw [sweep_cons_old cfg s id h rest hnf ho]
      obtain ⟨hk, hrf⟩ := hl (id, h) List.mem_cons_self
      have hf := dropS_flush (cfg := cfg) id h hi hnf hk hrf
      obtain ⟨h1, h2, h3⟩ := ih (dropS cfg s id h) hf.nofail hf.inv (fun p hp => (hr p hp).congr hf.heap hf.nextId)
      refine ⟨h1, hf.trans h2, ?_⟩
      intro k hk'
      have hne : k ≠ id := fun e => hk' (id, h) List.mem_cons_self e.symm
      show lookup k (sweep cfg (dropS cfg s id h) rest).1.store = _
      rw [h3 k (fun p hp => hk' p (List.mem_cons_of_mem _ hp)), dropS_store_other cfg s id h k hne]
    · rw [sweep_cons_young cfg s id h rest ho]
      obtain ⟨h1, h2, h3⟩ := ih s hnf hi hr
      exact ⟨h1, h2, fun k hk' => h3 k (fun p hp => hk' p (List.mem_cons_of_mem _ hp))⟩

/-! ### the eviction loop -/

theorem firstMin_mem (s : State) (m : Int) (l : List (ID × Nat)) (p : ID × Nat) (h : firstMin s m l = some p) : p ∈ l := by
  induction l with
  | nil => simp [firstMin] at h
  | cons q r ih =>
    obtain ⟨id, hh⟩ := q
    simp only [firstMin] at h
    split at h
    · simp at h; subst h; exact List.mem_cons_self
    · exact List.mem_cons_of_mem _ (ih h)

theorem victim_mem (s : State) (p : ID × Nat) (h : victim s = some p) : p ∈ s.cache := by
  unfold victim at h
  split at h
  · simp at h
  · exact mem_orderBy_sub (firstMin_mem s _ _ p h)

theorem minLA_attained (s : State) (l : List (ID × Nat)) (m : Int) (h : minLA s l = some m) :
    ∃ p ∈ l, (s.obj p.2).lastAccess = m := by
  induction l generalizing m with
  | nil => simp [minLA] at h
  | cons q r ih =>
    obtain ⟨id, hh⟩ := q
    simp only [minLA] at h
    cases hr : minLA s r with
    | none =>
      rw [hr] at h; simp only [Option.some.injEq] at h
      exact ⟨(id, hh), List.mem_cons_self, h⟩
    | some m' =>
      rw [hr] at h; simp only [Option.some.injEq] at h
      obtain ⟨p, hp, hpm⟩ := ih m' hr
      by_cases hle : (s.obj hh).lastAccess ≤ m'
      · exact ⟨(id, hh), List.mem_cons_self, by show (s.obj hh).lastAccess = m; omega⟩
      · exact ⟨p, List.mem_cons_of_mem _ hp, by rw [hpm]; omega⟩

theorem minLA_none (s : State) (l : List (ID × Nat)) (h : minLA s l = none) : l = [] := by
  cases l with
  | nil => rfl
  | cons q r =>
    obtain ⟨id, hh⟩ := q
    simp only [minLA] at h
    split at h <;> simp at h

theorem firstMin_some (s : State) (m : Int) (l : List (ID × Nat)) (h : ∃ p ∈ l, (s.obj p.2).lastAccess = m) :
    ∃ q, firstMin s m l = some q := by
  induction l with
  | nil => obtain ⟨p, hp, _⟩ := h; simp at hp
  | cons q r ih =>
    obtain ⟨id, hh⟩ := q
    simp only [firstMin]
    split
    · exact ⟨_, rfl⟩
    · rename_i hne
      obtain ⟨p, hp, hpm⟩ := h
      rcases List.mem_cons.mp hp with e | hp'
      · subst e; exact absurd hpm hne
      · exact ih ⟨p, hp', hpm⟩

/-- a non-empty cache with unique keys always has a victim. -/
theorem victim_none (s : State) (hn : (keys s.cache).Nodup) (h : victim s = none) : s.cache = [] := by
  unfold victim at h
  split at h
  · rename_i hm; exact minLA_none s _ hm
  · rename_i m hm
    obtain ⟨p, hp, hpm⟩ := minLA_attained s _ m hm
    obtain ⟨q, hq⟩ := firstMin_some s m (orderBy (s.picks.take 1) s.cache) ⟨p, mem_orderBy_of_mem hn hp, hpm⟩
    rw [hq] at h; simp at h

theorem evictLoop_zero (cfg : Cfg) (req : Int) (s : State) : evictLoop cfg req 0 s = (s, []) := rfl

theorem evictLoop_done (cfg : Cfg) (req : Int) (fuel : Nat) (s : State) (h : ¬ (s.cache.length : Int) + req > cfg.maxCache) :
    evictLoop cfg req (fuel + 1) s = (s, []) := by
  simp only [evictLoop, h, if_false]

theorem evictLoop_novictim (cfg : Cfg) (req : Int) (fuel : Nat) (s : State) (h : (s.cache.length : Int) + req > cfg.maxCache)
    (hv : victim s = none) : evictLoop cfg req (fuel + 1) s = (s, []) := by
  simp only [evictLoop, h, if_true, hv]

theorem evictLoop_evict (cfg : Cfg) (req : Int) (fuel : Nat) (s : State) (id : ID) (hh : Nat) (hnf : NoFail s)
    (h : (s.cache.length : Int) + req > cfg.maxCache) (hv : victim s = some (id, hh)) :
    evictLoop cfg req (fuel + 1) s =
      ((evictLoop cfg req fuel (dropS cfg s id hh)).1,
       [.save id (enc cfg.codec (s.obj hh))] ++ (evictLoop cfg req fuel (dropS cfg s id hh)).2) := by
  simp only [evictLoop, h, if_true, hv, saveRec_eq cfg id (s.obj hh) hnf]
  rfl

theorem evictLoop_spec (cfg : Cfg) (x : Option ID) (req : Int) (fuel : Nat) (s : State) (hnf : NoFail s)
    (hi : InvX cfg.codec x s) :
    Flush cfg.codec x s (evictLoop cfg req fuel s).1 (evictLoop cfg req fuel s).2 ∧
    (∀ k, (∀ p ∈ s.cache, p.1 ≠ k) → lookup k (evictLoop cfg req fuel s).1.store = lookup k s.store) ∧
    (s.cache.length ≤ fuel →
      ¬ (((evictLoop cfg req fuel s).1.cache.length : Int) + req > cfg.maxCache) ∨ (evictLoop cfg req fuel s).1.cache = []) := by
  induction fuel generalizing s with
  | zero =>
    refine ⟨Flush.refl hi hnf, fun _ _ => rfl, ?_⟩
    intro hle
    right
    show s.cache = []
    exact List.eq_nil_of_length_eq_zero (by omega)
  | succ n ih =>
    by_cases hc : (s.cache.length : Int) + req > cfg.maxCache
    · cases hv : victim s with
      | none =>
        rw [evictLoop_novictim cfg req n s hc hv]
        exact ⟨Flush.refl hi hnf, fun _ _ => rfl, fun _ => Or.inr (victim_none s hi.cnodup hv)⟩
      | some p =>
        obtain ⟨id, hh⟩ := p
        rw [evictLoop_evict cfg req n s id hh hnf hc hv]
        have hmem := victim_mem s _ hv
        have hf := dropS_flush (cfg := cfg) id hh hi hnf (hi.ckeys id hh hmem) (hi.crefs id hh hmem)
        obtain ⟨h1, h2, h3⟩ := ih (dropS cfg s id hh) hf.nofail hf.inv
        refine ⟨hf.trans h1, ?_, ?_⟩
        · intro k hk
          have hne : k ≠ id := fun e => hk (id, hh) hmem e.symm
          show lookup k (evictLoop cfg req n (dropS cfg s id hh)).1.store = _
          rw [h2 k (fun p hp => hk p (hf.sub p hp)), dropS_store_other cfg s id hh k hne]
        · intro hle
          apply h3
          have : (erase id s.cache).length < s.cache.length := length_erase_lt hmem
          show (erase id s.cache).length ≤ n
          omega
    · rw [evictLoop_done cfg req n s hc]
      exact ⟨Flush.refl hi hnf, fun _ _ => rfl, fun _ => Or.inl hc⟩

/-! ### compact -/

/-- `compact` without faults keeps the invariant (with any exception key), only drops cache entries,
leaves the records of uncached ids alone, and empties the cache when caching is switched off. -/
theorem compact_spec (cfg : Cfg) (x : Option ID) (req : Int) (s : State) (hnf : NoFail s) (hi : InvX cfg.codec x s) :
    Flush cfg.codec x s (compact cfg req s).1 (compact cfg req s).2 ∧
    (∀ k, (∀ p ∈ s.cache, p.1 ≠ k) → lookup k (compact cfg req s).1.store = lookup k s.store) ∧
    (cfg.maxCache = 0 → 0 ≤ req → (compact cfg req s).1.cache = []) := by
  have hl : ∀ p ∈ orderBy s.picks s.cache, EntOK s p := fun p hp => entOK_of_mem hi (mem_orderBy_sub hp)
  obtain ⟨hok, hf, ho⟩ := sweep_spec cfg x (orderBy s.picks s.cache) s hnf hi hl
  have ho' : ∀ k, (∀ p ∈ s.cache, p.1 ≠ k) → lookup k (sweep cfg s (orderBy s.picks s.cache)).1.store = lookup k s.store :=
    fun k hk => ho k (fun p hp => hk p (mem_orderBy_sub hp))
  unfold compact
  generalize sweep cfg s (orderBy s.picks s.cache) = g at hok hf ho'
  obtain ⟨s1, ok, e1⟩ := g
  simp only at hok hf ho'
  subst hok
  simp only [Bool.not_true, Bool.false_eq_true, if_false]
  split
  · rename_i hsm
    refine ⟨hf, ho', ?_⟩
    intro hz hreq
    simp only [Bool.or_eq_true, decide_eq_true_eq] at hsm
    show s1.cache = []
    apply List.eq_nil_of_length_eq_zero
    omega
  · rename_i hsm
    simp only [Bool.or_eq_true, decide_eq_true_eq, not_or] at hsm
    have hr' : cfg.maxCache = 0 → 0 ≤ req → (if req > cfg.maxCache then cfg.maxCache else req) = 0 := by
      intro hz hreq; split <;> omega
    generalize (if req > cfg.maxCache then cfg.maxCache else req) = req' at hr'
    obtain ⟨h1, h2, h3⟩ := evictLoop_spec cfg x req' s1.cache.length s1 hf.nofail hf.inv
    refine ⟨hf.trans h1, ?_, ?_⟩
    · intro k hk
      show lookup k (evictLoop cfg _ s1.cache.length s1).1.store = _
      rw [h2 k (fun p hp => hk p (hf.sub p hp)), ho' k hk]
    · intro hz hreq
      show (evictLoop cfg _ s1.cache.length s1).1.cache = []
      have hr0 := hr' hz hreq
      rcases h3 (Nat.le_refl _) with h | h
      · apply List.eq_nil_of_length_eq_zero
        omega
      · exact h

end Sx
