import Sessions.Proofs.Inv.Handlers
/-!
# `LogOut(userID)`, `RefreshUser`, `s.LogIn`
-/
namespace Sx

/-- overwrite an object (same id, same reference) and `cache.Set` it. Needs no `HOK`: `cache.Set`
replaces whatever was cached under the id (or, with caching off, empties the cache). -/
structure SetObjPost (cfg : Cfg) (s : State) (h : Nat) (r : State × Bool × List Ev) : Prop where
  ok : r.2.1 = true
  inv : Inv cfg.codec r.1
  step : Step cfg.codec s r.1 r.2.2
  hok : HOK r.1 h
  nextId : r.1.nextId = s.nextId
  src : ∀ p ∈ r.1.cache, p = ((s.obj h).id, h) ∨ p ∈ s.cache

theorem setObj_cacheSet_spec (cfg : Cfg) (s : State) (h : Nat) (o' : Sess) (hnf : NoFail s) (hi : Inv cfg.codec s)
    (hl : HL s h) (hid : o'.id = (s.obj h).id) (href : o'.ref = (s.obj h).ref) :
    SetObjPost cfg s h (cacheSet cfg (s.setObj h o') h) := by
  have hobj : (s.setObj h o').obj h = o' := obj_setObj_self s h o' hl.valid
  have honly : ∀ id', (id', h) ∈ s.cache → id' = (s.obj h).id := fun id' hm => (hi.wf id' h hm (by simp)).symm
  have hrefok : RefOK s.nextId o'.ref := by rw [href]; exact hl.ref
  have hX : InvX cfg.codec (some (s.obj h).id) (s.setObj h o') := inv_setObj_except h (s.obj h).id o' hi hrefok honly
  have hnf1 : NoFail (s.setObj h o') := hnf
  have hst1 : Step cfg.codec s (s.setObj h o') [] := setObj_step h o' hid href hnf
  have hl1 : HL (s.setObj h o') h := hl.step hst1
  have hid1 : ((s.setObj h o').obj h).id = (s.obj h).id := by rw [hobj]; exact hid
  have hS := cacheSet_spec cfg (some (s.obj h).id) (s.setObj h o') h hnf1 hl1 hX
  generalize cacheSet cfg (s.setObj h o') h = g at hS ⊢
  obtain ⟨hok, hinv, hst, hhok, hsrc, hnext, _, _, _⟩ := hS
  rw [hid1] at hinv hsrc
  simp only [if_true] at hinv
  refine ⟨hok, hinv, ?_, hhok, hnext, hsrc⟩
  simpa using hst1.trans hst

/-! ### the loop of `LogOut(uid)` / `RefreshUser` -/

/-- a handle stays good across a step that adds no cache entry under the handle's id. -/
theorem HOK.keep_of_src {c : Codec} {s s' : State} {e : List Ev} {k : Nat} (hk : HOK s k) (st : Step c s s' e)
    (src : ∀ p ∈ s'.cache, p ∈ s.cache ∨ p.1 ≠ (s.obj k).id) : HOK s' k := by
  refine ⟨hk.toHL.step st, ?_⟩
  intro h' hm
  rw [(st.ids k hk.valid).1] at hm
  rcases src _ hm with h | h
  · exact hk.only h' h
  · exact absurd rfl h

/-- what the user loops guarantee when nothing fails; `keep`: a handle whose id is not among the
listed ids stays good (no second object is loaded for its session). -/
structure UsersPost (cfg : Cfg) (s : State) (ids : List ID) (r : State × Bool × List Ev) : Prop where
  ok : r.2.1 = true
  inv : Inv cfg.codec r.1
  step : Step cfg.codec s r.1 r.2.2
  keep : ∀ k, HOK s k → (∀ id ∈ ids, id ≠ (s.obj k).id) → HOK r.1 k

theorem setUserAll_spec (cfg : Cfg) (u : Option (String × Nat)) (ids : List ID) (s : State) (hnf : NoFail s)
    (hi : Inv cfg.codec s) : UsersPost cfg s ids (setUserAll cfg u ids s) := by
  induction ids generalizing s with
  | nil => exact ⟨rfl, hi, Step.refl hnf, fun k hk _ => hk⟩
  | cons id rest ih =>
    simp only [setUserAll]
    have hG := cacheGet_spec cfg s id hnf hi
    generalize cacheGet cfg s id = g at hG ⊢
    obtain ⟨s1, gr, e1⟩ := g
    obtain ⟨hinv1, hst1, _, hres1, hsrc1⟩ := hG
    simp only at hinv1 hst1 hres1 hsrc1 ⊢
    have hkeep1 : ∀ k, HOK s k → id ≠ (s.obj k).id → HOK s1 k := by
      intro k hk hne
      apply hk.keep_of_src hst1
      intro p hp
      rcases hsrc1 p hp with h | h
      · exact Or.inl h
      · exact Or.inr (by rw [h]; exact hne)
    rcases hres1 with rfl | ⟨h, rfl, hk, hidh⟩
    · simp only []
      have hP := ih s1 hst1.nofail hinv1
      generalize setUserAll cfg u rest s1 = g2 at hP ⊢
      obtain ⟨s2, ok, e2⟩ := g2
      refine ⟨hP.ok, hP.inv, hst1.trans hP.step, ?_⟩
      intro k hk0 hne
      have hk1 := hkeep1 k hk0 (hne id List.mem_cons_self)
      apply hP.keep k hk1
      intro id' hid'
      rw [(hst1.ids k hk0.valid).1]
      exact hne id' (List.mem_cons_of_mem _ hid')
    · simp only []
      have hS := setObj_cacheSet_spec cfg s1 h { s1.obj h with user := u } hst1.nofail hinv1 hk.toHL rfl rfl
      generalize cacheSet cfg (s1.setObj h { s1.obj h with user := u }) h = g3 at hS ⊢
      obtain ⟨s3, ok3, e3⟩ := g3
      obtain ⟨hok3, hinv3, hst3, _, _, hsrc3⟩ := hS
      simp only at hok3 hinv3 hst3 hsrc3 ⊢
      subst hok3
      simp only [Bool.not_true, Bool.false_eq_true, if_false]
      have hP := ih s3 hst3.nofail hinv3
      generalize setUserAll cfg u rest s3 = g4 at hP ⊢
      obtain ⟨s4, ok4, e4⟩ := g4
      refine ⟨hP.ok, hP.inv, (hst1.trans hst3).trans hP.step, ?_⟩
      intro k hk0 hne
      have hne0 := hne id List.mem_cons_self
      have hk1 := hkeep1 k hk0 hne0
      have hid1 : (s1.obj k).id = (s.obj k).id := (hst1.ids k hk0.valid).1
      have hk3 : HOK s3 k := by
        apply hk1.keep_of_src hst3
        intro p hp
        rcases hsrc3 p hp with e | hin
        · right; rw [e, hid1, hidh]; exact hne0
        · exact Or.inl hin
      apply hP.keep k hk3
      intro id' hid'
      rw [(hst3.ids k hk1.valid).1, hid1]
      exact hne id' (List.mem_cons_of_mem _ hid')

theorem forUser_spec (cfg : Cfg) (le : ID → ID → Bool) (s : State) (uid : String) (u : Option (String × Nat))
    (hnf : NoFail s) (hi : Inv cfg.codec s) :
    UsersPost cfg s (userSessions le s uid) (forUser cfg le s uid u) := by
  unfold forUser
  rw [popFail_eq hnf]
  simp only [Bool.false_eq_true, if_false]
  have hi0 : Inv cfg.codec s.popF := hi.eqv (eqv_popF s)
  have hP := setUserAll_spec cfg u (userSessions le s.popF uid) s.popF hnf.popF hi0
  generalize setUserAll cfg u (userSessions le s.popF uid) s.popF = g at hP ⊢
  obtain ⟨s1, ok, e1⟩ := g
  have h0 : Step cfg.codec s s.popF [.users uid] :=
    Step.of_eq hnf.popF rfl rfl (evsOK_single_other (e := .users uid) trivial)
  exact ⟨hP.ok, hP.inv, h0.trans hP.step, fun k hk hne => hP.keep k (hk.congr rfl rfl rfl) hne⟩

theorem logoutUser_spec (cfg : Cfg) (le : ID → ID → Bool) (s : State) (uid : String) (hnf : NoFail s) (hi : Inv cfg.codec s) :
    UsersPost cfg s (userSessions le s uid) (logoutUser cfg le s uid) :=
  forUser_spec cfg le s uid none hnf hi

theorem refreshUser_spec (cfg : Cfg) (le : ID → ID → Bool) (s : State) (uid : String) (hnf : NoFail s) (hi : Inv cfg.codec s) :
    UsersPost cfg s (userSessions le s uid) (refreshUser cfg le s uid) := by
  unfold refreshUser
  have hnf0 : NoFail ({ s with vers := insert uid (s.ver uid + 1) s.vers } : State) := hnf
  have hi0 : Inv cfg.codec ({ s with vers := insert uid (s.ver uid + 1) s.vers } : State) := hi.congr rfl rfl rfl rfl rfl
  have hP := forUser_spec cfg le _ uid (some (uid, s.ver uid + 1)) hnf0 hi0
  have h0 : Step cfg.codec s ({ s with vers := insert uid (s.ver uid + 1) s.vers } : State) [] :=
    Step.of_eq hnf0 rfl rfl (EvsOK.nil _ _)
  refine ⟨hP.ok, hP.inv, by simpa using h0.trans hP.step, fun k hk hne => hP.keep k (hk.congr rfl rfl rfl) hne⟩

/-! ### s.LogIn -/

/-- what `s.LogIn` guarantees when nothing fails (`RegenerateID` at its end changes the handle's id). -/
structure LoginPost (cfg : Cfg) (s : State) (h : Nat) (r : State × HRes × List Ev) : Prop where
  inv : Inv cfg.codec r.1
  hok : HOK r.1 h
  mono : Mono cfg.codec s r.1 r.2.2

/-- the first part of `LogIn`: log out the user everywhere (exclusive) or this session only. -/
def loginFirst (cfg : Cfg) (le : ID → ID → Bool) (s : State) (h : Nat) (uid : String) (excl : Bool) : State × Bool × List Ev :=
  if excl then logoutUser cfg le s uid
  else
    let (s', _, e') := hlogout cfg s h
    (s', true, e')

/-- the rest of `LogIn`: set the user, `cache.Set`, `RegenerateID`. -/
def loginTail (cfg : Cfg) (h : Nat) (uid : String) (first : State × Bool × List Ev) : State × HRes × List Ev :=
  let (s1, ok1, e1) := first
  if !ok1 then (s1, .err, e1) else
  let s2 := s1.setObj h { s1.obj h with user := some (uid, s1.ver uid) }
  let (s3, ok3, e3) := cacheSet cfg s2 h
  if !ok3 then (s3, .err, e1 ++ e3) else
  let (s4, ok4, e4) := regenerate cfg s3 h
  (s4, hres ok4, e1 ++ e3 ++ e4)

theorem hlogin_eq (cfg : Cfg) (le : ID → ID → Bool) (s : State) (h : Nat) (uid : String) (excl : Bool) :
    hlogin cfg le s h uid excl = loginTail cfg h uid (loginFirst cfg le s h uid excl) := rfl

/-- The tail needs the handle to be allocated with a minted id only, not `HOK`: an exclusive log-in may
just have loaded a second object for the same session, which `cache.Set` now replaces in the cache. -/
theorem loginTail_spec (cfg : Cfg) (h : Nat) (uid : String) (s1 : State) (e1 : List Ev) (hnf : NoFail s1) (hi : Inv cfg.codec s1)
    (hl : HL s1 h) (hpre : EvsOK cfg.codec s1.nextId e1) :
    LoginPost cfg s1 h (loginTail cfg h uid (s1, true, e1)) := by
  unfold loginTail
  simp only [Bool.not_true, Bool.false_eq_true, if_false]
  have hS := setObj_cacheSet_spec cfg s1 h { s1.obj h with user := some (uid, s1.ver uid) } hnf hi hl rfl rfl
  generalize cacheSet cfg (s1.setObj h { s1.obj h with user := some (uid, s1.ver uid) }) h = g3 at hS ⊢
  obtain ⟨s3, ok3, e3⟩ := g3
  obtain ⟨hok3, hinv3, hst3, hhok3, _, _⟩ := hS
  simp only at hok3 hinv3 hst3 hhok3 ⊢
  subst hok3
  simp only [Bool.not_true, Bool.false_eq_true, if_false]
  have hR := regenerate_spec cfg s3 h hst3.nofail hhok3.toHL hinv3
  generalize regenerate cfg s3 h = g4 at hR ⊢
  obtain ⟨s4, ok4, e4⟩ := g4
  obtain ⟨_, hinv4, hmono4, hhok4, _, _⟩ := hR
  simp only at hinv4 hmono4 hhok4 ⊢
  refine ⟨hinv4, hhok4, ?_⟩
  have hm3 : Mono cfg.codec s1 s3 (e1 ++ e3) := (hst3.evs_pre e1 (hpre.mono hst3.next)).toMono
  exact hm3.trans hmono4

theorem loginFirst_spec (cfg : Cfg) (le : ID → ID → Bool) (s : State) (h : Nat) (uid : String) (excl : Bool) (hnf : NoFail s)
    (hi : Inv cfg.codec s) (hk : HOK s h) :
    (loginFirst cfg le s h uid excl).2.1 = true ∧ Inv cfg.codec (loginFirst cfg le s h uid excl).1 ∧
    Step cfg.codec s (loginFirst cfg le s h uid excl).1 (loginFirst cfg le s h uid excl).2.2 := by
  unfold loginFirst
  cases excl with
  | true =>
    simp only [if_true]
    have hP := logoutUser_spec cfg le s uid hnf hi
    exact ⟨hP.ok, hP.inv, hP.step⟩
  | false =>
    simp only [Bool.false_eq_true, if_false]
    have hP := hlogout_spec cfg s h hnf hi hk
    generalize hlogout cfg s h = g at hP ⊢
    obtain ⟨s1, r1, e1⟩ := g
    exact ⟨trivial, hP.inv, hP.step⟩

theorem hlogin_spec (cfg : Cfg) (le : ID → ID → Bool) (s : State) (h : Nat) (uid : String) (excl : Bool) (hnf : NoFail s)
    (hi : Inv cfg.codec s) (hk : HOK s h) : LoginPost cfg s h (hlogin cfg le s h uid excl) := by
  rw [hlogin_eq]
  obtain ⟨h1, h2, h3⟩ := loginFirst_spec cfg le s h uid excl hnf hi hk
  generalize loginFirst cfg le s h uid excl = g at h1 h2 h3 ⊢
  obtain ⟨s1, ok1, e1⟩ := g
  simp only at h1 h2 h3
  subst h1
  have hT := loginTail_spec cfg h uid s1 e1 h3.nofail h2 (hk.toHL.step h3) h3.evs
  exact ⟨hT.inv, hT.hok, hT.mono.after h3⟩

end Sx
