import Sessions.Proofs.Inv.Start
/-!
# Handler operations on the session `Start` returned: Set, Delete, GetAndDelete, LogOut, RegenerateID, Destroy
-/
namespace Sx

/-- what a handler operation on handle `h` guarantees when nothing fails. -/
structure HandPost (cfg : Cfg) (s : State) (h : Nat) (s' : State) (evs : List Ev) : Prop where
  inv : Inv cfg.codec s'
  hok : HOK s' h
  step : Step cfg.codec s s' evs

theorem HandPost.refl {cfg : Cfg} {s : State} {h : Nat} (hnf : NoFail s) (hi : Inv cfg.codec s) (hk : HOK s h) :
    HandPost cfg s h s [] := ⟨hi, hk, Step.refl hnf⟩

/-- overwrite the object (same id, same reference) and write it through with `SaveSession`. -/
theorem setObj_save_spec (cfg : Cfg) (s : State) (h : Nat) (o' : Sess) (hnf : NoFail s) (hi : Inv cfg.codec s) (hk : HOK s h)
    (hid : o'.id = (s.obj h).id) (href : o'.ref = (s.obj h).ref) :
    (saveObj cfg (s.setObj h o') h).2.1 = true ∧
    HandPost cfg s h (saveObj cfg (s.setObj h o') h).1 (saveObj cfg (s.setObj h o') h).2.2 := by
  have hobj : (s.setObj h o').obj h = o' := obj_setObj_self s h o' hk.valid
  have honly : ∀ id', (id', h) ∈ s.cache → id' = (s.obj h).id := fun id' hm => (hi.wf id' h hm (by simp)).symm
  have hrefok : RefOK s.nextId o'.ref := by rw [href]; exact hk.ref
  have hX : InvX cfg.codec (some (s.obj h).id) (s.setObj h o') := inv_setObj_except h (s.obj h).id o' hi hrefok honly
  have hnf1 : NoFail (s.setObj h o') := hnf
  have hst1 : Step cfg.codec s (s.setObj h o') [] := setObj_step h o' hid href hnf
  have hk1 : HOK (s.setObj h o') h := hk.setObj_same h o' hid href
  have hid1 : ((s.setObj h o').obj h).id = (s.obj h).id := by rw [hobj]; exact hid
  unfold saveObj
  rw [saveRec_eq cfg _ _ hnf1, hid1]
  have hS := inv_save_obj (some (s.obj h).id) (s.setObj h o') (s.obj h).id h hX hk.minted hk1.ref
    (fun h' hm => ⟨hk.only h' hm, hid1⟩)
  simp only [if_true] at hS
  refine ⟨rfl, hS.congr rfl rfl rfl rfl rfl, hk1.congr rfl rfl rfl, ?_⟩
  have hst2 : Step cfg.codec (s.setObj h o') (saveS cfg (s.setObj h o') (s.obj h).id ((s.setObj h o').obj h))
      [.save (s.obj h).id (enc cfg.codec ((s.setObj h o').obj h))] :=
    Step.of_eq hnf1.popF rfl rfl (evsOK_save hk.minted hk1.ref)
  exact hst1.trans hst2

theorem hset_spec (cfg : Cfg) (s : State) (h : Nat) (k : String) (v : Val) (hnf : NoFail s) (hi : Inv cfg.codec s)
    (hk : HOK s h) : HandPost cfg s h (hset cfg s h k v).1 (hset cfg s h k v).2.2 := by
  unfold hset
  split
  · exact HandPost.refl hnf hi hk
  · rename_i d hd
    obtain ⟨_, hp⟩ := setObj_save_spec cfg s h { s.obj h with data := some (insert k v d) } hnf hi hk rfl rfl
    exact hp

theorem hdel_spec (cfg : Cfg) (s : State) (h : Nat) (k : String) (hnf : NoFail s) (hi : Inv cfg.codec s)
    (hk : HOK s h) : HandPost cfg s h (hdel cfg s h k).1 (hdel cfg s h k).2.2 := by
  unfold hdel
  obtain ⟨_, hp⟩ := setObj_save_spec cfg s h { s.obj h with data := (s.obj h).data.map (erase k) } hnf hi hk rfl rfl
  exact hp

theorem hgetdel_spec (cfg : Cfg) (s : State) (h : Nat) (k : String) (hnf : NoFail s) (hi : Inv cfg.codec s)
    (hk : HOK s h) : HandPost cfg s h (hgetdel cfg s h k).1 (hgetdel cfg s h k).2.2 := by
  unfold hgetdel
  split
  · exact HandPost.refl hnf hi hk
  · obtain ⟨_, hp⟩ := setObj_save_spec cfg s h { s.obj h with data := (s.obj h).data.map (erase k) } hnf hi hk rfl rfl
    exact hp

theorem hlogout_spec (cfg : Cfg) (s : State) (h : Nat) (hnf : NoFail s) (hi : Inv cfg.codec s)
    (hk : HOK s h) : HandPost cfg s h (hlogout cfg s h).1 (hlogout cfg s h).2.2 := by
  unfold hlogout
  split
  · exact HandPost.refl hnf hi hk
  · obtain ⟨_, hp⟩ := setObj_save_spec cfg s h { s.obj h with user := none } hnf hi hk rfl rfl
    exact hp

/-- `s.Destroy` in a handler. -/
theorem hdestroy_spec (cfg : Cfg) (s : State) (h : Nat) (b : Bool) (hnf : NoFail s) (hi : Inv cfg.codec s) (hk : HOK s h) :
    HandPost cfg s h (destroy s h b).1 (destroy s h b).2.2 := by
  obtain ⟨hf, _⟩ := destroy_spec (c := cfg.codec) none s h b hnf hi
  exact ⟨hf.inv, hk.flush hf, hf.step⟩

end Sx
