import Sessions.Model.World
/-!
# C18: what the cookies carry

`Sx.cookieOut` is what the driver prints for every cookie event (and what is compared with every Set-Cookie the real package
emits). These theorems say that a live cookie is the template returned by `NewSessionCookie`, unchanged, with name and value
filled in, and that the deletion cookie is expired and carries no id. Which events occur when is the business of
`Sx.Loc.start_cookie_shapes` and friends.
-/
namespace Sx.Ck

/-- every live cookie: named `SessionCookie`, value exactly the id of the event, attributes of the template unchanged
(up to net/http's own normalisation of `Max-Age` and `SameSite`), `Expires = now + offset` when the template has one -/
theorem live_cookie_is_template (ck : CookieCfg) (t : Int) (id : ID) :
    ∃ c, cookieOut ck t (.setCookie id) = some c ∧ c.name = ck.name ∧ c.value = some id ∧ c.path = ck.path ∧ c.domain = ck.domain ∧
      c.secure = ck.secure ∧ c.httpOnly = ck.httpOnly ∧ c.maxAge = normMaxAge ck.maxAge ∧ c.sameSite = normSameSite ck.sameSite ∧
      c.expires = (if ck.expOff == 0 then none else some (t / 1000000000 + ck.expOff)) :=
  ⟨_, rfl, rfl, rfl, rfl, rfl, rfl, rfl, rfl, rfl, rfl⟩

/-- a positive lifetime is passed on unchanged -/
theorem live_cookie_lifetime (ck : CookieCfg) (t : Int) (id : ID) (h : 0 < ck.maxAge) :
    ∀ c, cookieOut ck t (.setCookie id) = some c → c.maxAge = ck.maxAge := by
  intro c hc
  simp only [cookieOut, Option.some.injEq] at hc
  subst hc
  simp [normMaxAge, h]

/-- the deletion cookie carries no id, is expired (negative Max-Age, Expires before every instant of the run) and bears the
configured name -/
theorem deletion_cookie_expired (ck : CookieCfg) (t : Int) (ht : 0 ≤ t) :
    ∃ c, cookieOut ck t .delCookie = some c ∧ c.name = ck.name ∧ c.value = none ∧ c.maxAge < 0 ∧
      ∃ x, c.expires = some x ∧ x * 1000000000 < t := by
  refine ⟨_, rfl, rfl, rfl, ?_, deletionExpires, rfl, ?_⟩
  · show (-1 : Int) < 0
    decide
  · unfold deletionExpires
    omega

/-- nothing but cookie events is rendered as a cookie -/
theorem cookieOut_isCookie (ck : CookieCfg) (t : Int) (e : Ev) : (cookieOut ck t e).isSome = isCookie e := by
  cases e <;> rfl

/-- the jar logic agrees with the rendering: a live cookie is dropped by the browser exactly when its template is dead -/
theorem dead_iff_expired_attrs (ck : CookieCfg) : ck.dead = (normMaxAge ck.maxAge < 0 || ck.expOff < 0) := by
  unfold CookieCfg.dead normMaxAge
  by_cases h1 : ck.maxAge > 0
  · have : ¬ ck.maxAge < 0 := by omega
    simp [h1, this]
  · by_cases h2 : ck.maxAge = 0
    · simp [h2]
    · have h3 : ck.maxAge < 0 := by omega
      simp [h1, h2, h3]

end Sx.Ck
