import Sessions.Proofs.Inv.All
import Sessions.Proofs.Local.All
/-!
# C10 — an ID change is crash-safe

"If the process stops at any point during an ID change (RegenerateID, LogIn or automatic rotation),
then after a restart from the store the ID the client presented for that request still resolves to
the session with all previously acknowledged data, and if the response had been sent the new ID does
too. At no crash point does the store hold a replaced-ID record that points at an ID which does not
exist."

The model exposes the store mutations of an operation as its `.save`/`.del` events;
`World.apiCall` with `freezeAt = some k` replaces the store by
`((apiMuts evs).take k).foldl applyMut pre.store`. The theorems below quantify over EVERY `k`
(every crash point), and — unless a theorem says otherwise — over every fault and order oracle.

* `Dangling`, `resolves` (+ Boolean `danglingB`, `danglingB_iff`), `crashStore` (= the store `apiCall` installs, `crashStore_apiMid`)
* `regenerate_prefix_safe` (every oracle; + `_nofail`, `_cached`)                  — `RegenerateID`
* `startValid_rotation_prefix_safe` (every oracle), `start_rotation_prefix_safe` (cache hit, every oracle),
  `start_rotation_prefix_safe_nofail` (hit or load, fault-free)                      — the automatic rotation of `Start`
* `hlogin_prefix_safe` (+ `_cached`; exclusive AND non-exclusive, fault-free)        — `LogIn`
* `swapped_saves_dangle`, `real_saves_safe`     — the mutant with the two saves swapped fails, the real one does not

Method (`namespace C10`): a crash point is a prefix of the event list (`crash_point`); an operation is cut
into segments (`Seg`) — flushes of coherent cache entries and re-writes of the session's own full record
(`Ev1`: same key set, same `ref`s as before, phase `Q1`), the save under the new id (to phase `Q2`, where
a flush of the new entry is harmless too, `Ev2`), the save of the reference record (to phase `Q3`) — and
each phase implies the crash-point property `P`. For `LogIn` the store after each sub-call is the replay
of its events (`Replay`), which lets the phases be chained across `LogOut`/`Set`/`RegenerateID`.
-/
namespace Sx.More

/-! ### 1. dangling references, resolution of an id in a store -/

/-- the record under `id` is a replaced-ID record that points at an ID which has no record. -/
def Dangling (st : List (ID × Rec)) (id : ID) : Prop :=
  ∃ r t, lookup id st = some r ∧ r.ref = some t ∧ lookup t st = none

/-- follow `ref` links in the store `st` starting at `id`, at most `fuel` records are read; the
result is the full (non-reference) record at the end of the chain; `none` when a link is missing or
the fuel runs out. -/
def resolves (st : List (ID × Rec)) : Nat → ID → Option Rec
  | 0, _ => none
  | fuel + 1, id =>
    match lookup id st with
    | none => none
    | some r =>
      match r.ref with
      | none => some r
      | some t => resolves st fuel t

/-- `Dangling` as a Boolean. -/
def danglingB (st : List (ID × Rec)) (id : ID) : Bool :=
  match lookup id st with
  | none => false
  | some r =>
    match r.ref with
    | none => false
    | some t => (lookup t st).isNone

theorem danglingB_iff (st : List (ID × Rec)) (id : ID) : danglingB st id = true ↔ Dangling st id := by
  constructor
  · intro h
    unfold danglingB at h
    split at h
    · cases h
    · rename_i r hl
      split at h
      · cases h
      · rename_i t hr
        exact ⟨r, t, hl, hr, by simpa using h⟩
  · rintro ⟨r, t, h1, h2, h3⟩
    simp [danglingB, h1, h2, h3]

instance (st : List (ID × Rec)) (id : ID) : Decidable (Dangling st id) :=
  decidable_of_iff _ (danglingB_iff st id)

namespace C10

/-! ### store-level core: what a save may do without creating a dangling reference -/

/-- the `ref` field of the record under `k` (`none`: no record). `Dangling` only reads this view. -/
def refAt (st : List (ID × Rec)) (k : ID) : Option (Option ID) := (lookup k st).map (·.ref)

theorem dangling_iff_refAt (st : List (ID × Rec)) (id : ID) :
    Dangling st id ↔ ∃ t, refAt st id = some (some t) ∧ refAt st t = none := by
  unfold Dangling refAt
  constructor
  · rintro ⟨r, t, h1, h2, h3⟩
    exact ⟨t, by simp [h1, h2], by simp [h3]⟩
  · rintro ⟨t, h1, h2⟩
    cases hl : lookup id st with
    | none => simp [hl] at h1
    | some r =>
      simp only [hl, Option.map_some, Option.some.injEq] at h1
      exact ⟨r, t, rfl, h1, by simpa using h2⟩

theorem refAt_insert_self (k : ID) (r : Rec) (st : List (ID × Rec)) : refAt (insert k r st) k = some r.ref := by
  simp [refAt, Sx.lookup_insert_self k r st]

theorem refAt_insert_ne {k k' : ID} (r : Rec) (st : List (ID × Rec)) (h : k' ≠ k) :
    refAt (insert k r st) k' = refAt st k' := by
  simp [refAt, Sx.lookup_insert_ne r st h]

theorem refAt_of_lookup {st : List (ID × Rec)} {k : ID} {r : Rec} (h : lookup k st = some r) :
    refAt st k = some r.ref := by simp [refAt, h]

theorem refAt_none {st : List (ID × Rec)} {k : ID} (h : lookup k st = none) : refAt st k = none := by
  simp [refAt, h]

theorem lookup_ne_none_of_refAt {st : List (ID × Rec)} {k : ID} {o : Option ID} (h : refAt st k = some o) :
    lookup k st ≠ none := by
  intro hn; simp [refAt, hn] at h

theorem resolves_full {st : List (ID × Rec)} {id : ID} {r : Rec} (h : lookup id st = some r) (hr : r.ref = none)
    (fuel : Nat) : resolves st (fuel + 1) id = some r := by
  simp [resolves, h, hr]

theorem resolves_link {st : List (ID × Rec)} {id t : ID} {r : Rec} (h : lookup id st = some r) (hr : r.ref = some t)
    (fuel : Nat) : resolves st (fuel + 1) id = resolves st fuel t := by
  simp [resolves, h, hr]

/-! #### crash points: prefixes of the mutation list -/

theorem applyMut_inert {e : Ev} (h : (isMut e && !isCookie e) = false) (st : List (ID × Rec)) : applyMut st e = st := by
  cases e <;> first | rfl | simp [isMut, isCookie] at h

theorem apiMuts_eq (evs : List Ev) : apiMuts evs = evs.filter (fun e => isMut e && !isCookie e) := by
  unfold apiMuts; rw [List.filter_filter]

/-- applying the mutations of `evs` is folding `applyMut` over all of `evs`. -/
theorem foldl_apiMuts (evs : List Ev) (st : List (ID × Rec)) : (apiMuts evs).foldl applyMut st = evs.foldl applyMut st := by
  rw [apiMuts_eq]
  induction evs generalizing st with
  | nil => rfl
  | cons e l ih =>
    cases hp : (isMut e && !isCookie e) with
    | true => rw [List.filter_cons_of_pos (by simpa using hp)]; simp only [List.foldl_cons]; exact ih _
    | false =>
      rw [List.filter_cons_of_neg (by simp [hp])]; simp only [List.foldl_cons]
      rw [applyMut_inert hp]; exact ih _

theorem take_filter (p : Ev → Bool) (l : List Ev) (k : Nat) : ∃ j, (l.filter p).take k = (l.take j).filter p := by
  induction l generalizing k with
  | nil => exact ⟨0, by simp⟩
  | cons a l ih =>
    cases k with
    | zero => exact ⟨0, by simp⟩
    | succ k' =>
      cases hp : p a with
      | true =>
        obtain ⟨j, hj⟩ := ih k'
        exact ⟨j + 1, by simp [hp, hj]⟩
      | false =>
        obtain ⟨j, hj⟩ := ih (k' + 1)
        exact ⟨j + 1, by simp [hp, hj]⟩

/-- every crash point of the call (a prefix of its mutation list) is a prefix of its event list. -/
theorem crash_point (evs : List Ev) (k : Nat) (st : List (ID × Rec)) :
    ∃ j, ((apiMuts evs).take k).foldl applyMut st = (evs.take j).foldl applyMut st := by
  obtain ⟨j, hj⟩ := take_filter (fun e => isMut e && !isCookie e) evs k
  refine ⟨j, ?_⟩
  rw [apiMuts_eq, hj, ← apiMuts_eq, foldl_apiMuts]

theorem crash_point_last (evs : List Ev) (st : List (ID × Rec)) :
    ((apiMuts evs).take (apiMuts evs).length).foldl applyMut st = evs.foldl applyMut st := by
  rw [List.take_length, foldl_apiMuts]

/-- `Seg Q l P Q'`: run from a store satisfying `Q`, every prefix of `l` leaves a store satisfying `P`
and the whole of `l` one satisfying `Q'`. -/
def Seg (Q : List (ID × Rec) → Prop) (l : List Ev) (P Q' : List (ID × Rec) → Prop) : Prop :=
  ∀ st, Q st → (∀ j, P ((l.take j).foldl applyMut st)) ∧ Q' (l.foldl applyMut st)

theorem Seg.append {Q Q' Q'' P : List (ID × Rec) → Prop} {l1 l2 : List Ev} (h1 : Seg Q l1 P Q') (h2 : Seg Q' l2 P Q'') :
    Seg Q (l1 ++ l2) P Q'' := by
  intro st hq
  obtain ⟨a1, b1⟩ := h1 st hq
  obtain ⟨a2, b2⟩ := h2 _ b1
  refine ⟨?_, by rw [List.foldl_append]; exact b2⟩
  intro j
  rw [List.take_append, List.foldl_append]
  by_cases hj : j ≤ l1.length
  · have h0 : j - l1.length = 0 := by omega
    rw [h0]; simpa using a1 j
  · rw [List.take_of_length_le (by omega)]; exact a2 _

theorem Seg.of_inv {Q P : List (ID × Rec) → Prop} {l : List Ev} (hstep : ∀ e ∈ l, ∀ st, Q st → Q (applyMut st e))
    (hP : ∀ st, Q st → P st) : Seg Q l P Q := by
  have key : ∀ (l' : List Ev), (∀ e ∈ l', e ∈ l) → ∀ st, Q st → Q (l'.foldl applyMut st) := by
    intro l'
    induction l' with
    | nil => intro _ st hq; exact hq
    | cons e r ih =>
      intro hsub st hq
      simp only [List.foldl_cons]
      exact ih (fun e' he' => hsub e' (List.mem_cons_of_mem _ he')) _ (hstep e (hsub e List.mem_cons_self) st hq)
  intro st hq
  exact ⟨fun j => hP _ (key (l.take j) (fun e he => List.mem_of_mem_take he) st hq), key l (fun _ h => h) st hq⟩

theorem Seg.single {Q Q' P : List (ID × Rec) → Prop} (e : Ev) (hP : ∀ st, Q st → P st)
    (hQ : ∀ st, Q st → Q' (applyMut st e)) (hP' : ∀ st, Q' st → P st) : Seg Q [e] P Q' := by
  intro st hq
  refine ⟨?_, hQ st hq⟩
  intro j
  cases j with
  | zero => exact hP st hq
  | succ n => simpa using hP' _ (hQ st hq)

theorem Seg.nil {Q P : List (ID × Rec) → Prop} (hP : ∀ st, Q st → P st) : Seg Q [] P Q := by
  intro st hq; exact ⟨fun j => by simpa using hP st hq, hq⟩

theorem Seg.weaken {Q Q' Q'' P : List (ID × Rec) → Prop} {l : List Ev} (h : Seg Q l P Q') (hw : ∀ st, Q' st → Q'' st) :
    Seg Q l P Q'' := fun st hq => ⟨(h st hq).1, hw _ (h st hq).2⟩

/-! #### the three phases of an id change, abstractly

`st0` is the store before the operation, `old`/`new` the two ids, `G` what the record the old id
resolves to must satisfy, `Rnew` the session's record under the new id, `Rref` the reference record. -/

structure Ctx (st0 : List (ID × Rec)) (old new : ID) (G : Rec → Prop) (Rnew Rref : Rec) : Prop where
  ne : old ≠ new
  new_absent : lookup new st0 = none
  rnew_ref : Rnew.ref = none
  rnew_good : G Rnew
  rref_ref : Rref.ref = some new

/-- a harmless event before the session is saved under the new id: not a delete, and a save only
re-writes an existing record with the same `ref` (a flush of a coherent cache entry), with a good
record if it is under the old id. -/
def Ev1 (st0 : List (ID × Rec)) (old : ID) (G : Rec → Prop) : Ev → Prop
  | .save k r => refAt st0 k = some r.ref ∧ (k = old → G r)
  | .del _ => False
  | _ => True

/-- … and after it: the new cache entry may be flushed too, which re-writes `Rnew`. -/
def Ev2 (st0 : List (ID × Rec)) (old new : ID) (G : Rec → Prop) (Rnew : Rec) : Ev → Prop
  | .save k r => (k = new ∧ r = Rnew) ∨ (refAt st0 k = some r.ref ∧ (k = old → G r))
  | .del _ => False
  | _ => True

theorem Ev1.ev2 {st0 old new G Rnew} {e : Ev} (h : Ev1 st0 old G e) : Ev2 st0 old new G Rnew e := by
  cases e <;> first | exact Or.inr h | exact h

/-- phase 1: same keys and same `ref`s as before, a good full record under the old id. -/
def Q1 (st0 : List (ID × Rec)) (old : ID) (G : Rec → Prop) (st : List (ID × Rec)) : Prop :=
  (∀ k, refAt st k = refAt st0 k) ∧ ∃ r, lookup old st = some r ∧ r.ref = none ∧ G r

/-- phase 2: additionally the session's record under the new id. -/
def Q2 (st0 : List (ID × Rec)) (old new : ID) (G : Rec → Prop) (Rnew : Rec) (st : List (ID × Rec)) : Prop :=
  (∀ k, k ≠ new → refAt st k = refAt st0 k) ∧ lookup new st = some Rnew ∧ ∃ r, lookup old st = some r ∧ r.ref = none ∧ G r

/-- phase 3: the reference record under the old id. -/
def Q3 (st0 : List (ID × Rec)) (old new : ID) (Rnew Rref : Rec) (st : List (ID × Rec)) : Prop :=
  (∀ k, k ≠ new → k ≠ old → refAt st k = refAt st0 k) ∧ lookup new st = some Rnew ∧ lookup old st = some Rref

/-- what must hold at every crash point: no new dangling reference, the old id resolves to a good
full record. -/
def P (st0 : List (ID × Rec)) (old : ID) (G : Rec → Prop) (st : List (ID × Rec)) : Prop :=
  (∀ id, Dangling st id → Dangling st0 id) ∧
  ∃ r, (∀ fuel, 2 ≤ fuel → resolves st fuel old = some r) ∧ r.ref = none ∧ G r

theorem resolves_of_full {st : List (ID × Rec)} {id : ID} {r : Rec} (h : lookup id st = some r) (hr : r.ref = none) :
    ∀ fuel, 1 ≤ fuel → resolves st fuel id = some r := by
  intro fuel hf
  obtain ⟨n, rfl⟩ : ∃ n, fuel = n + 1 := ⟨fuel - 1, by omega⟩
  exact resolves_full h hr n

theorem Q1.p {st0 old G st} (h : Q1 st0 old G st) : P st0 old G st := by
  obtain ⟨hr, r, hl, hrr, hg⟩ := h
  refine ⟨?_, r, fun fuel hf => resolves_of_full hl hrr fuel (by omega), hrr, hg⟩
  intro id hd
  rw [dangling_iff_refAt] at hd ⊢
  obtain ⟨t, h1, h2⟩ := hd
  exact ⟨t, by rw [← hr]; exact h1, by rw [← hr]; exact h2⟩

theorem Q2.p {st0 old new G Rnew Rref st} (hc : Ctx st0 old new G Rnew Rref) (h : Q2 st0 old new G Rnew st) :
    P st0 old G st := by
  obtain ⟨hr, hn, r, hl, hrr, hg⟩ := h
  refine ⟨?_, r, fun fuel hf => resolves_of_full hl hrr fuel (by omega), hrr, hg⟩
  intro id hd
  rw [dangling_iff_refAt] at hd ⊢
  obtain ⟨t, h1, h2⟩ := hd
  have hid : id ≠ new := by
    intro e; subst e
    rw [refAt_of_lookup hn, hc.rnew_ref] at h1; simp at h1
  have ht : t ≠ new := by
    intro e; subst e
    rw [refAt_of_lookup hn] at h2; simp at h2
  exact ⟨t, by rw [← hr id hid]; exact h1, by rw [← hr t ht]; exact h2⟩

theorem Q3.p {st0 old new G Rnew Rref st} (hc : Ctx st0 old new G Rnew Rref) (h : Q3 st0 old new Rnew Rref st) :
    P st0 old G st := by
  obtain ⟨hr, hn, ho⟩ := h
  refine ⟨?_, Rnew, ?_, hc.rnew_ref, hc.rnew_good⟩
  · intro id hd
    rw [dangling_iff_refAt] at hd ⊢
    obtain ⟨t, h1, h2⟩ := hd
    have hid : id ≠ new := by
      intro e; subst e
      rw [refAt_of_lookup hn, hc.rnew_ref] at h1; simp at h1
    have ht : t ≠ new := by
      intro e; subst e
      rw [refAt_of_lookup hn] at h2; simp at h2
    have ht' : t ≠ old := by
      intro e; subst e
      rw [refAt_of_lookup ho] at h2; simp at h2
    have hid' : id ≠ old := by
      intro e; subst e
      rw [refAt_of_lookup ho, hc.rref_ref] at h1
      simp only [Option.some.injEq] at h1
      exact ht h1.symm
    exact ⟨t, by rw [← hr id hid hid']; exact h1, by rw [← hr t ht ht']; exact h2⟩
  · intro fuel hf
    obtain ⟨n, rfl⟩ : ∃ n, fuel = n + 2 := ⟨fuel - 2, by omega⟩
    rw [resolves_link ho hc.rref_ref, resolves_full hn hc.rnew_ref]

theorem Q1.step {st0 old G st} {e : Ev} (h : Q1 st0 old G st) (he : Ev1 st0 old G e) : Q1 st0 old G (applyMut st e) := by
  cases e with
  | save k r =>
    obtain ⟨hr, r0, hl, hrr, hg⟩ := h
    obtain ⟨he1, he2⟩ := he
    refine ⟨?_, ?_⟩
    · intro k'
      by_cases hk : k' = k
      · subst hk; show refAt (insert k' r st) k' = _; rw [refAt_insert_self, he1]
      · show refAt (insert k r st) k' = _; rw [refAt_insert_ne r st hk]; exact hr k'
    · by_cases hk : old = k
      · subst hk
        refine ⟨r, Sx.lookup_insert_self _ _ _, ?_, he2 rfl⟩
        have := hr old
        rw [refAt_of_lookup hl, hrr, he1] at this
        simpa using this.symm
      · exact ⟨r0, by show lookup old (insert k r st) = _; rw [Sx.lookup_insert_ne r st hk]; exact hl, hrr, hg⟩
  | del _ => exact absurd he id
  | _ => exact h

theorem Q2.step {st0 old new G Rnew Rref st} {e : Ev} (hc : Ctx st0 old new G Rnew Rref) (h : Q2 st0 old new G Rnew st)
    (he : Ev2 st0 old new G Rnew e) : Q2 st0 old new G Rnew (applyMut st e) := by
  cases e with
  | save k r =>
    obtain ⟨hr, hn, r0, hl, hrr, hg⟩ := h
    rcases he with ⟨rfl, rfl⟩ | ⟨he1, he2⟩
    · refine ⟨?_, Sx.lookup_insert_self _ _ _, r0, ?_, hrr, hg⟩
      · intro k' hk; show refAt (insert k r st) k' = _; rw [refAt_insert_ne r st hk]; exact hr k' hk
      · show lookup old (insert k r st) = _; rw [Sx.lookup_insert_ne r st hc.ne]; exact hl
    · have hkn : k ≠ new := by
        intro e; subst e
        exact lookup_ne_none_of_refAt he1 hc.new_absent
      refine ⟨?_, ?_, ?_⟩
      · intro k' hk'
        by_cases hk : k' = k
        · subst hk; show refAt (insert k' r st) k' = _; rw [refAt_insert_self, he1]
        · show refAt (insert k r st) k' = _; rw [refAt_insert_ne r st hk]; exact hr k' hk'
      · show lookup new (insert k r st) = _; rw [Sx.lookup_insert_ne r st (Ne.symm hkn)]; exact hn
      · by_cases hk : old = k
        · subst hk
          refine ⟨r, Sx.lookup_insert_self _ _ _, ?_, he2 rfl⟩
          have := hr old hc.ne
          rw [refAt_of_lookup hl, hrr, he1] at this
          simpa using this.symm
        · exact ⟨r0, by show lookup old (insert k r st) = _; rw [Sx.lookup_insert_ne r st hk]; exact hl, hrr, hg⟩
  | del _ => exact absurd he id
  | _ => exact h

/-- the save of the session under the new id takes phase 1 to phase 2 -/
theorem Q1.save_new {st0 old new G Rnew Rref st} (hc : Ctx st0 old new G Rnew Rref) (h : Q1 st0 old G st) :
    Q2 st0 old new G Rnew (applyMut st (.save new Rnew)) := by
  obtain ⟨hr, r0, hl, hrr, hg⟩ := h
  refine ⟨?_, Sx.lookup_insert_self _ _ _, r0, ?_, hrr, hg⟩
  · intro k' hk; show refAt (insert new Rnew st) k' = _; rw [refAt_insert_ne Rnew st hk]; exact hr k'
  · show lookup old (insert new Rnew st) = _; rw [Sx.lookup_insert_ne Rnew st hc.ne]; exact hl

/-- the save of the reference record under the old id takes phase 2 to phase 3 -/
theorem Q2.save_old {st0 old new G Rnew Rref st} (hc : Ctx st0 old new G Rnew Rref) (h : Q2 st0 old new G Rnew st) :
    Q3 st0 old new Rnew Rref (applyMut st (.save old Rref)) := by
  obtain ⟨hr, hn, _⟩ := h
  refine ⟨?_, ?_, Sx.lookup_insert_self _ _ _⟩
  · intro k' hk hk'; show refAt (insert old Rref st) k' = _; rw [refAt_insert_ne Rref st hk']; exact hr k' hk
  · show lookup new (insert old Rref st) = _; rw [Sx.lookup_insert_ne Rref st (Ne.symm hc.ne)]; exact hn

theorem inert_step {Q : List (ID × Rec) → Prop} {e : Ev} (h : (isMut e && !isCookie e) = false) :
    ∀ st, Q st → Q (applyMut st e) := fun st hq => by rw [applyMut_inert h]; exact hq

/-- the segments of an id change -/
theorem seg1 {st0 old G} {l : List Ev} (hl : ∀ e ∈ l, Ev1 st0 old G e) :
    Seg (Q1 st0 old G) l (P st0 old G) (Q1 st0 old G) :=
  Seg.of_inv (fun e he _ hq => hq.step (hl e he)) (fun _ hq => hq.p)

theorem seg2 {st0 old new G Rnew Rref} (hc : Ctx st0 old new G Rnew Rref) {l : List Ev}
    (hl : ∀ e ∈ l, Ev2 st0 old new G Rnew e) :
    Seg (Q2 st0 old new G Rnew) l (P st0 old G) (Q2 st0 old new G Rnew) :=
  Seg.of_inv (fun e he _ hq => hq.step hc (hl e he)) (fun _ hq => hq.p hc)

theorem seg_new {st0 old new G Rnew Rref} (hc : Ctx st0 old new G Rnew Rref) :
    Seg (Q1 st0 old G) [.save new Rnew] (P st0 old G) (Q2 st0 old new G Rnew) :=
  Seg.single _ (fun _ hq => hq.p) (fun _ hq => hq.save_new hc) (fun _ hq => hq.p hc)

theorem seg_old {st0 old new G Rnew Rref} (hc : Ctx st0 old new G Rnew Rref) :
    Seg (Q2 st0 old new G Rnew) [.save old Rref] (P st0 old G) (Q3 st0 old new Rnew Rref) :=
  Seg.single _ (fun _ hq => hq.p hc) (fun _ hq => hq.save_old hc) (fun _ hq => hq.p hc)

theorem seg_inert {Q Pp : List (ID × Rec) → Prop} {e : Ev} (h : (isMut e && !isCookie e) = false)
    (hP : ∀ st, Q st → Pp st) : Seg Q [e] Pp Q :=
  Seg.single _ hP (inert_step h) hP

/-! #### the concrete side: flushes of coherent cache entries are harmless -/

/-- what the old id must resolve to: a record with the user and the data of the session as it was
when the operation started (the acknowledged state: `Inv.coh` makes the stored record agree with it). -/
def Good (cfg : Cfg) (s : State) (h : Nat) (r : Rec) : Prop :=
  r.user = (enc cfg.codec (s.obj h)).user ∧ r.data = (enc cfg.codec (s.obj h)).data

/-- `o'` is `o` up to id, time stamps, address and fingerprint. -/
def Sim (o o' : Sess) : Prop := o'.ref = o.ref ∧ o'.user = o.user ∧ o'.data = o.data

theorem Sim.rfl' (o : Sess) : Sim o o := ⟨rfl, rfl, rfl⟩

theorem Sim.enc {o o' : Sess} (c : Codec) (h : Sim o o') :
    (enc c o').ref = (enc c o).ref ∧ (enc c o').user = (enc c o).user ∧ (enc c o').data = (enc c o).data := by
  obtain ⟨h1, h2, h3⟩ := h
  cases c <;> simp [Sx.enc, h1, h2, h3]

theorem ess_ref {r r' : Rec} (h : ess r = ess r') : r.ref = r'.ref := congrArg (·.2.2.1) h
theorem ess_user {r r' : Rec} (h : ess r = ess r') : r.user = r'.user := congrArg (·.1) h
theorem ess_data {r r' : Rec} (h : ess r = ess r') : r.data = r'.data := congrArg (·.2.2.2) h

/-- a (successful or failed) flush of an entry of the cache of `s`, the object read from a heap that
agrees with the heap of `s` up to `Sim`, is harmless in phase 1. -/
theorem flush_ev1 {cfg : Cfg} {s : State} {h : Nat} (hi : Inv cfg.codec s) (hk : HOK s h) {obj : Nat → Sess}
    (hsim : ∀ k x, (k, x) ∈ s.cache → Sim (s.obj x) (obj x)) {e : Ev} (he : Loc.IsFlush cfg s.cache obj e) :
    Ev1 s.store (s.obj h).id (Good cfg s h) e := by
  obtain ⟨k, x, hm, rfl | rfl⟩ := he
  · obtain ⟨r, hl, hess⟩ := hi.coh k x hm (by simp)
    obtain ⟨s1, s2, s3⟩ := (hsim k x hm).enc cfg.codec
    refine ⟨?_, ?_⟩
    · rw [refAt_of_lookup hl, s1, ess_ref hess]
    · intro hko
      subst hko
      have hx : x = h := hk.only x hm
      subst hx
      exact ⟨s2, s3⟩
  · trivial

theorem flush_ev2 {cfg : Cfg} {s : State} {h : Nat} (hi : Inv cfg.codec s) (hk : HOK s h) {obj : Nat → Sess}
    (hsim : ∀ k x, (k, x) ∈ s.cache → Sim (s.obj x) (obj x)) (hh : obj h = Loc.rotObj s h)
    {c2 : List (ID × Nat)} (hc2 : ∀ p, p ∈ c2 → p = (ID.gen s.nextId, h) ∨ p ∈ s.cache) {e : Ev}
    (he : Loc.IsFlush cfg c2 obj e) :
    Ev2 s.store (s.obj h).id (ID.gen s.nextId) (Good cfg s h) (enc cfg.codec (Loc.rotObj s h)) e := by
  obtain ⟨k, x, hm, he'⟩ := he
  rcases hc2 _ hm with heq | hm'
  · obtain ⟨rfl, rfl⟩ := Prod.mk.inj heq
    rcases he' with rfl | rfl
    · exact Or.inl ⟨rfl, by rw [hh]⟩
    · trivial
  · exact (flush_ev1 hi hk hsim ⟨k, x, hm', he'⟩).ev2

theorem new_absent {c : Codec} {s : State} (hi : Inv c s) : lookup (ID.gen s.nextId) s.store = none := by
  cases hl : lookup (ID.gen s.nextId) s.store with
  | none => rfl
  | some r => exact absurd rfl (hi.sok.keys _ r (Sx.lookup_some_mem hl)).ne_gen

theorem sim_rotObj (s : State) (h : Nat) : Sim (s.obj h) (Loc.rotObj s h) := ⟨rfl, rfl, rfl⟩

theorem regen_ctx {cfg : Cfg} {s : State} {h : Nat} (hi : Inv cfg.codec s) (hk : HOK s h) (href : (s.obj h).ref = none) :
    Ctx s.store (s.obj h).id (ID.gen s.nextId) (Good cfg s h) (enc cfg.codec (Loc.rotObj s h))
      (enc cfg.codec (Loc.rotRef s h)) where
  ne := hk.minted.ne_gen
  new_absent := new_absent hi
  rnew_ref := by rw [((sim_rotObj s h).enc cfg.codec).1, enc_ref, href]
  rnew_good := ⟨((sim_rotObj s h).enc cfg.codec).2.1, ((sim_rotObj s h).enc cfg.codec).2.2⟩
  rref_ref := (Loc.enc_rotRef cfg s h).1

/-- the store before the operation is in phase 1 -/
theorem regen_q1 {cfg : Cfg} {s : State} {h : Nat} (href : (s.obj h).ref = none)
    (hrec : ∃ r0, lookup (s.obj h).id s.store = some r0 ∧ ess r0 = ess (enc cfg.codec (s.obj h))) :
    Q1 s.store (s.obj h).id (Good cfg s h) s.store := by
  obtain ⟨r0, hl, hess⟩ := hrec
  exact ⟨fun _ => rfl, r0, hl, by rw [ess_ref hess, enc_ref, href], ess_user hess, ess_data hess⟩

/-- objects as the compaction of the first `Set` sees them -/
theorem sim_phase1 (s : State) (h x : Nat) : Sim (s.obj x) ((Loc.setObjNow (Loc.regenS0 s h) h).obj x) := by
  by_cases hx : h = x
  · subst hx
    rw [Loc.setObjNow_obj_self]
    by_cases hv : h < s.heap.length
    · have : h < (Loc.regenS0 s h).heap.length := by rw [Loc.regenS0_heap_length]; exact hv
      rw [if_pos this, Loc.regenS0_obj_self s h hv]; exact ⟨rfl, rfl, rfl⟩
    · have : ¬ h < (Loc.regenS0 s h).heap.length := by rw [Loc.regenS0_heap_length]; exact hv
      rw [if_neg this]
      have : (Loc.regenS0 s h).obj h = s.obj h := by
        show (s.setObj h _).obj h = _
        rw [Loc.setObj_oob hv]
      rw [this]; exact Sim.rfl' _
  · rw [Loc.setObjNow_obj_ne hx, Loc.regenS0_obj_ne s h hx]; exact Sim.rfl' _

/-- objects as the compaction of the second `Set` sees them -/
theorem obj_phase2 (cfg : Cfg) (s : State) (h : Nat) (hv : h < s.heap.length) {x : Nat} (hx : x < s.heap.length) :
    (Loc.setObjNow (Loc.regenS2 cfg s h) s.heap.length).obj x = if h = x then Loc.rotObj s h else s.obj x := by
  rw [Loc.setObjNow_obj_ne (by omega), Loc.regenS2_obj_old cfg s h hx]
  by_cases hh : h = x
  · subst hh; rw [if_pos rfl, Loc.regenA_obj_self cfg s h hv]
  · rw [if_neg hh, Loc.regenA_obj_ne cfg s h hh]

theorem sim_phase2 (cfg : Cfg) (s : State) (h : Nat) (hv : h < s.heap.length) {x : Nat} (hx : x < s.heap.length) :
    Sim (s.obj x) ((Loc.setObjNow (Loc.regenS2 cfg s h) s.heap.length).obj x) := by
  rw [obj_phase2 cfg s h hv hx]
  split
  · rename_i hh; subst hh; exact sim_rotObj s h
  · exact Sim.rfl' _

theorem regenA_evs (cfg : Cfg) (s : State) (h : Nat) (hv : h < s.heap.length) :
    (Loc.regenA cfg s h).2.2 = (Loc.setC cfg (Loc.regenS0 s h) h).2 ++
      [if (Loc.regenA cfg s h).2.1 = true then .save (ID.gen s.nextId) (enc cfg.codec (Loc.rotObj s h))
       else .saveFail (ID.gen s.nextId)] := by
  have e1 := Loc.cacheSet_evs cfg (Loc.regenS0 s h) h
  rw [show cacheSet cfg (Loc.regenS0 s h) h = Loc.regenA cfg s h from rfl] at e1
  rw [e1, Loc.regenA_obj_self cfg s h hv, Loc.regenS0_id s h hv]

theorem regenB_evs (cfg : Cfg) (s : State) (h : Nat) (hv : h < s.heap.length) :
    (Loc.regenB cfg s h).2.2 = (Loc.setC cfg (Loc.regenS2 cfg s h) s.heap.length).2 ++
      [if (Loc.regenB cfg s h).2.1 = true then .save (s.obj h).id (enc cfg.codec (Loc.rotRef s h))
       else .saveFail (s.obj h).id] := by
  have e2 := Loc.cacheSet_evs cfg (Loc.regenS2 cfg s h) s.heap.length
  rw [← Loc.regenB_eq] at e2
  rw [e2, Loc.regenB_obj_self cfg s h hv, Loc.regenS2_ref_id cfg s h hv]

/-- the flushes of the first compaction are harmless in phase 1 -/
theorem regen_F1 {cfg : Cfg} {s : State} {h : Nat} (hi : Inv cfg.codec s) (hk : HOK s h) :
    ∀ e ∈ (Loc.setC cfg (Loc.regenS0 s h) h).2, Ev1 s.store (s.obj h).id (Good cfg s h) e := by
  intro e he
  have hf := (Loc.setC_flushed cfg (Loc.regenS0 s h) h).evs_flush e he
  exact flush_ev1 hi hk (fun k x _ => sim_phase1 s h x) hf

/-- the flushes of the second compaction are harmless in phase 2 -/
theorem regen_F2 {cfg : Cfg} {s : State} {h : Nat} (hi : Inv cfg.codec s) (hk : HOK s h) :
    ∀ e ∈ (Loc.setC cfg (Loc.regenS2 cfg s h) s.heap.length).2,
      Ev2 s.store (s.obj h).id (ID.gen s.nextId) (Good cfg s h) (enc cfg.codec (Loc.rotObj s h)) e := by
  intro e he
  have hf := (Loc.setC_flushed cfg (Loc.regenS2 cfg s h) s.heap.length).evs_flush e he
  have hc : (Loc.regenS2 cfg s h).cache = (Loc.regenA cfg s h).1.cache := by unfold Loc.regenS2; simp
  rw [hc] at hf
  obtain ⟨k, x, hm, he'⟩ := hf
  have hxv : x < s.heap.length := by
    rcases Loc.regenA_cache_mem cfg s h hk.valid hm with heq | hm'
    · rw [(Prod.mk.inj heq).2]; exact hk.valid
    · exact hi.valid k x hm'
  -- read the object from a heap that is total on the handles in use
  let obj : Nat → Sess := fun y => if y < s.heap.length then (Loc.setObjNow (Loc.regenS2 cfg s h) s.heap.length).obj y else s.obj y
  have hobjx : (Loc.setObjNow (Loc.regenS2 cfg s h) s.heap.length).obj x = obj x := by simp [obj, hxv]
  refine flush_ev2 (obj := obj) hi hk ?_ ?_ (fun p hp => Loc.regenA_cache_mem cfg s h hk.valid hp) ⟨k, x, hm, ?_⟩
  · intro k' x' hm'
    have := hi.valid k' x' hm'
    simp only [obj, this, if_true]
    exact sim_phase2 cfg s h hk.valid this
  · simp only [obj, hk.valid, if_true]
    rw [obj_phase2 cfg s h hk.valid hk.valid, if_pos rfl]
  · rw [← hobjx]; exact he'

/-- **the event-level statement**: run from the store of `s`, every prefix of the events of
`RegenerateID` leaves a store satisfying `P`; and when the call succeeds the final store is in phase 3. -/
theorem regen_seg {cfg : Cfg} {s : State} {h : Nat} (hi : Inv cfg.codec s) (hk : HOK s h) (href : (s.obj h).ref = none) :
    Seg (Q1 s.store (s.obj h).id (Good cfg s h)) (regenerate cfg s h).2.2 (P s.store (s.obj h).id (Good cfg s h))
      (fun st => (regenerate cfg s h).2.1 = true →
        Q3 s.store (s.obj h).id (ID.gen s.nextId) (enc cfg.codec (Loc.rotObj s h)) (enc cfg.codec (Loc.rotRef s h)) st) := by
  have hc := regen_ctx hi hk href
  have hv := hk.valid
  have s1 := seg1 (regen_F1 hi hk)
  have s2 := seg2 hc (regen_F2 hi hk)
  cases hA : (Loc.regenA cfg s h).2.1 with
  | false =>
    have hev : (regenerate cfg s h).2.2 = (Loc.regenA cfg s h).2.2 := by rw [Loc.regenerate_eq]; simp [hA]
    have hok : (regenerate cfg s h).2.1 = false := by rw [Loc.regenerate_eq]; simp [hA]
    rw [hev, regenA_evs cfg s h hv, hA, hok]
    simp only [Bool.false_eq_true, if_false]
    exact (s1.append (seg_inert (by rfl) (fun _ hq => hq.p))).weaken (fun _ _ hf => absurd hf (by simp))
  | true =>
    cases hB : (Loc.regenB cfg s h).2.1 with
    | false =>
      have hev : (regenerate cfg s h).2.2 = (Loc.regenA cfg s h).2.2 ++ (Loc.regenB cfg s h).2.2 := by
        rw [Loc.regenerate_eq]; simp [hA, hB]
      have hok : (regenerate cfg s h).2.1 = false := by rw [Loc.regenerate_eq]; simp [hA, hB]
      rw [hev, regenA_evs cfg s h hv, regenB_evs cfg s h hv, hA, hB, hok]
      simp only [Bool.false_eq_true, if_false, if_true]
      exact ((s1.append (seg_new hc)).append (s2.append (seg_inert (by rfl) (fun _ hq => hq.p hc)))).weaken
        (fun _ _ hf => absurd hf (by simp))
    | true =>
      have hok : (regenerate cfg s h).2.1 = true := (Loc.regenerate_ok_iff cfg s h).2 ⟨hA, hB⟩
      rw [Loc.regenerate_evs_ok cfg s h hv hok]
      exact ((((s1.append (seg_new hc)).append s2).append (seg_old hc)).append
        (seg_inert (by rfl) (fun _ hq => hq.p hc))).weaken (fun _ hq _ => hq)

end C10

/-! ### 2. `RegenerateID` -/

/-- the store a crash after the first `k` store mutations of a call with events `evs`, started with
the store `st0`, leaves behind: what `World.apiCall` installs for `freezeAt = some k`
(`k > (apiMuts evs).length` gives the store after the whole call). -/
def crashStore (st0 : List (ID × Rec)) (evs : List Ev) (k : Nat) : List (ID × Rec) :=
  ((apiMuts evs).take k).foldl applyMut st0

theorem crashStore_zero (st0 : List (ID × Rec)) (evs : List Ev) : crashStore st0 evs 0 = st0 := by
  simp [crashStore]

/-- `crashStore` is the store `World.apiCall` installs when an armed `crashinside k` strikes
(`apiMid`: the state after the call and the freeze, before the quiescence tick). -/
theorem crashStore_apiMid (w : World) (s1 : State) (evs : List Ev) (k : Nat) (h : apiFrz w evs = some k) :
    (apiMid w s1 evs).store = crashStore w.st.store evs k := by
  unfold apiMid; rw [h]; rfl

/-- **C10 for `RegenerateID`, for EVERY fault and order oracle and EVERY crash point `k`.**
`s` satisfies the invariant, `h` is the handle of a full session (not a reference record) whose
record under its id `old` agrees with the object on the essentials (`hrec`, see
`regenerate_prefix_safe_cached` and the example after it). Then in the store left by a crash after `k` mutations
(i) every dangling reference was dangling before the call — flushes of other sessions by the two
compaction runs and failed saves included —,
(ii) `old` resolves to a full record carrying user and data of the session,
(iii) if the call succeeded and all its mutations happened, the new id resolves to the record of the
rotated session, and so does `old` (through the reference record). -/
theorem regenerate_prefix_safe (cfg : Cfg) (s : State) (h : Nat) (hi : Inv cfg.codec s) (hk : HOK s h)
    (href : (s.obj h).ref = none)
    (hrec : ∃ r0, lookup (s.obj h).id s.store = some r0 ∧ ess r0 = ess (enc cfg.codec (s.obj h)))
    (k : Nat) :
    (∀ id, Dangling (crashStore s.store (regenerate cfg s h).2.2 k) id → Dangling s.store id) ∧
    (∀ fuel, 2 ≤ fuel → ∃ r, resolves (crashStore s.store (regenerate cfg s h).2.2 k) fuel (s.obj h).id = some r ∧
        r.ref = none ∧ r.user = (enc cfg.codec (s.obj h)).user ∧ r.data = (enc cfg.codec (s.obj h)).data) ∧
    ((regenerate cfg s h).2.1 = true → k = (apiMuts (regenerate cfg s h).2.2).length →
      (∀ fuel, 1 ≤ fuel → resolves (crashStore s.store (regenerate cfg s h).2.2 k) fuel (.gen s.nextId) =
          some (enc cfg.codec (Loc.rotObj s h))) ∧
      (∀ fuel, 2 ≤ fuel → resolves (crashStore s.store (regenerate cfg s h).2.2 k) fuel (s.obj h).id =
          some (enc cfg.codec (Loc.rotObj s h)))) := by
  have hseg := C10.regen_seg hi hk href s.store (C10.regen_q1 href hrec)
  have hc := C10.regen_ctx hi hk href
  obtain ⟨j, hj⟩ := C10.crash_point (regenerate cfg s h).2.2 k s.store
  have hP := hseg.1 j
  unfold crashStore
  rw [hj]
  obtain ⟨hd, r, hres, hrr, hg⟩ := hP
  refine ⟨hd, fun fuel hf => ⟨r, hres fuel hf, hrr, hg.1, hg.2⟩, ?_⟩
  intro hok hlen
  rw [← hj, hlen, C10.crash_point_last]
  obtain ⟨_, hn, ho⟩ := hseg.2 hok
  refine ⟨fun fuel hf => C10.resolves_of_full hn hc.rnew_ref fuel hf, ?_⟩
  intro fuel hf
  obtain ⟨n, rfl⟩ : ∃ n, fuel = n + 2 := ⟨fuel - 2, by omega⟩
  rw [C10.resolves_link ho hc.rref_ref, C10.resolves_full hn hc.rnew_ref]

/-- … when nothing fails (`NoFail`: the oracle holds no failure) the call succeeds, so (iii) is unconditional. -/
theorem regenerate_prefix_safe_nofail (cfg : Cfg) (s : State) (h : Nat) (hnf : NoFail s) (hi : Inv cfg.codec s) (hk : HOK s h)
    (href : (s.obj h).ref = none)
    (hrec : ∃ r0, lookup (s.obj h).id s.store = some r0 ∧ ess r0 = ess (enc cfg.codec (s.obj h)))
    (k : Nat) :
    (∀ id, Dangling (crashStore s.store (regenerate cfg s h).2.2 k) id → Dangling s.store id) ∧
    (∀ fuel, 2 ≤ fuel → ∃ r, resolves (crashStore s.store (regenerate cfg s h).2.2 k) fuel (s.obj h).id = some r ∧
        r.ref = none ∧ r.user = (enc cfg.codec (s.obj h)).user ∧ r.data = (enc cfg.codec (s.obj h)).data) ∧
    (k = (apiMuts (regenerate cfg s h).2.2).length → ∀ fuel, 1 ≤ fuel →
      resolves (crashStore s.store (regenerate cfg s h).2.2 k) fuel (.gen s.nextId) = some (enc cfg.codec (Loc.rotObj s h))) := by
  obtain ⟨h1, h2, h3⟩ := regenerate_prefix_safe cfg s h hi hk href hrec k
  exact ⟨h1, h2, fun hlen => (h3 (Sx.regenerate_spec cfg s h hnf hk.toHL hi).ok hlen).1⟩

/-- `hrec` follows from the invariant when the session is cached under its id. -/
theorem C10.hrec_of_cached {c : Codec} {s : State} {h : Nat} (hi : Inv c s) (hc : ((s.obj h).id, h) ∈ s.cache) :
    ∃ r0, lookup (s.obj h).id s.store = some r0 ∧ ess r0 = ess (enc c (s.obj h)) := by
  obtain ⟨r, hl, he⟩ := hi.coh _ _ hc (by simp)
  exact ⟨r, hl, he.symm⟩

theorem regenerate_prefix_safe_cached (cfg : Cfg) (s : State) (h : Nat) (hi : Inv cfg.codec s)
    (hc : ((s.obj h).id, h) ∈ s.cache) (href : (s.obj h).ref = none) (k : Nat) :
    (∀ id, Dangling (crashStore s.store (regenerate cfg s h).2.2 k) id → Dangling s.store id) ∧
    (∀ fuel, 2 ≤ fuel → ∃ r, resolves (crashStore s.store (regenerate cfg s h).2.2 k) fuel (s.obj h).id = some r ∧
        r.ref = none ∧ r.user = (enc cfg.codec (s.obj h)).user ∧ r.data = (enc cfg.codec (s.obj h)).data) ∧
    ((regenerate cfg s h).2.1 = true → k = (apiMuts (regenerate cfg s h).2.2).length →
      (∀ fuel, 1 ≤ fuel → resolves (crashStore s.store (regenerate cfg s h).2.2 k) fuel (.gen s.nextId) =
          some (enc cfg.codec (Loc.rotObj s h))) ∧
      (∀ fuel, 2 ≤ fuel → resolves (crashStore s.store (regenerate cfg s h).2.2 k) fuel (s.obj h).id =
          some (enc cfg.codec (Loc.rotObj s h)))) :=
  regenerate_prefix_safe cfg s h hi (HOK.of_mem hi hc) href (C10.hrec_of_cached hi hc) k

/-! #### `hrec` is needed

`Inv` and `HOK` say nothing about the record of a session that is not cached (caching switched off,
or the entry evicted): an allocated object whose id has no record satisfies both. Then (ii) fails at
`k = 0`: nothing is stored under the old id. -/

/-- an uncached session object without a record -/
def C10.exBare : State := { heap := [{ id := .gen 0, created := 0, lastAccess := 0 }], nextId := 1 }

theorem C10.exBare_ok : Inv Codec.gob C10.exBare ∧ HOK C10.exBare 0 ∧ (C10.exBare.obj 0).ref = none ∧ NoFail C10.exBare := by
  refine ⟨⟨List.nodup_nil, ?_, ?_, ?_, ?_, ?_, SOK.nil _ _, ?_⟩, ⟨⟨by decide, ⟨0, rfl, by decide⟩, refOK_none _⟩, ?_⟩, rfl,
    noFail_of_nil rfl⟩
  all_goals (intros; simp_all [C10.exBare])

/-- without `hrec` statement (ii) of `regenerate_prefix_safe` is false (crash point `k = 0`). -/
example : ¬ (∀ fuel, 2 ≤ fuel → ∃ r,
    resolves (crashStore C10.exBare.store (regenerate {} C10.exBare 0).2.2 0) fuel (C10.exBare.obj 0).id = some r ∧
      r.ref = none ∧ r.user = (enc Codec.gob (C10.exBare.obj 0)).user ∧ r.data = (enc Codec.gob (C10.exBare.obj 0)).data) := by
  intro hall
  obtain ⟨r, hr, _⟩ := hall 2 (Nat.le_refl _)
  rw [crashStore_zero] at hr
  have hn : resolves C10.exBare.store 2 (C10.exBare.obj 0).id = none := by decide
  rw [hn] at hr; cases hr

/-! #### non-vacuity: `RegenerateID` on concrete states -/

/-- on the state after one `Start` (one cached session): the theorem applies … -/
example (k : Nat) := regenerate_prefix_safe_cached exCfg exS1 0 exS1_ok.2.1 (by decide) (by decide) k

/-- … and the call makes exactly two mutations: session under the new id, then the reference record. -/
example : apiMuts (regenerate exCfg exS1 0).2.2 =
    [.save (.gen 1) (enc .gob (Loc.rotObj exS1 0)), .save (.gen 0) (enc .gob (Loc.rotRef exS1 0))] := by decide

/-- (i) and (ii) checked by evaluation at the three crash points `k = 0, 1, 2` … -/
example : ∀ k ∈ [0, 1, 2], ∀ id ∈ [ID.gen 0, .gen 1, .gen 2],
    danglingB (crashStore exS1.store (regenerate exCfg exS1 0).2.2 k) id = false := by decide
example : ∀ k ∈ [0, 1, 2],
    (resolves (crashStore exS1.store (regenerate exCfg exS1 0).2.2 k) 2 (.gen 0)).map (·.ref) = some none ∧
    (resolves (crashStore exS1.store (regenerate exCfg exS1 0).2.2 k) 2 (.gen 0)).map (·.user) = some none ∧
    (resolves (crashStore exS1.store (regenerate exCfg exS1 0).2.2 k) 2 (.gen 0)).map (·.data) = some (some []) := by decide
/-- … and (iii) at `k = 2`, while at `k = 1` the new id already resolves and at `k = 0` not yet. -/
example : (resolves (crashStore exS1.store (regenerate exCfg exS1 0).2.2 2) 1 (.gen 1)) =
    some (enc .gob (Loc.rotObj exS1 0)) := by decide
example : (resolves (crashStore exS1.store (regenerate exCfg exS1 0).2.2 0) 5 (.gen 1)) = none := by decide

/-- on the state after a rotation (two cached objects, the cache full, `maxCache = 2`) the first
`Set` has to evict: the flush of another entry is interleaved with the two saves. -/
example (k : Nat) := regenerate_prefix_safe_cached exCfg exS2 0 exS2_ok.2.1 (by decide) (by decide) k
example : (apiMuts (regenerate exCfg exS2 0).2.2).map (fun e => match e with | .save id _ => some id | _ => none) =
    [some (.gen 0), some (.gen 2), some (.gen 1)] := by decide

/-! ### 4. the automatic rotation of `Start` -/

theorem C10.apiMuts_append (a b : List Ev) : apiMuts (a ++ b) = apiMuts a ++ apiMuts b := by
  simp [apiMuts]

theorem C10.crashStore_pre (st0 : List (ID × Rec)) {e1 : List Ev} (evs : List Ev) (h : apiMuts e1 = []) (k : Nat) :
    crashStore st0 (e1 ++ evs) k = crashStore st0 evs k := by
  unfold crashStore; rw [C10.apiMuts_append, h, List.nil_append]

/-- the rotation branch of `startValid`: its events are `e1` followed by those of `RegenerateID`,
and it answers with the session iff `RegenerateID` succeeded. -/
theorem C10.startValid_rotate_evs (cfg : Cfg) (s1 : State) (id : ID) (h : Nat) (r : Req) (e1 : List Ev)
    (href : (s1.obj h).ref = none) (hage : since s1.now (s1.obj h).created ≥ cfg.idExpiry) :
    (startValid cfg s1 id h r e1).2.2 = e1 ++ (regenerate cfg s1 h).2.2 ∧
    ((startValid cfg s1 id h r e1).2.1 = .sess h → (regenerate cfg s1 h).2.1 = true) := by
  rw [Loc.startValid_rotate id r e1 href hage]
  cases (regenerate cfg s1 h).2.1 <;> simp

/-- **C10 for the automatic rotation** (the rotation branch of `startValid`: the object `h` found
under the presented id `id` is a full session at least `idExpiry` old), every oracle, every crash point.
`e1` are the events of the preceding `cache.Get`; they must contain no store mutation (`he1`: true
for a cache hit, `e1 = []`, see `start_rotation_prefix_safe`, and for a load that does not make the
cache overflow). `hkey`: the object found under the presented id carries that id (`Inv.wf` for a cache
entry, and what `cache.Get` guarantees for a loaded object) — without it `id` is unrelated to the call,
see the example below. (iii) is stated for the case that `Start` answered with the session. -/
theorem startValid_rotation_prefix_safe (cfg : Cfg) (s1 : State) (id : ID) (h : Nat) (r : Req) (e1 : List Ev)
    (hi : Inv cfg.codec s1) (hk : HOK s1 h) (hkey : (s1.obj h).id = id) (href : (s1.obj h).ref = none)
    (hage : since s1.now (s1.obj h).created ≥ cfg.idExpiry)
    (hrec : ∃ r0, lookup id s1.store = some r0 ∧ ess r0 = ess (enc cfg.codec (s1.obj h)))
    (he1 : apiMuts e1 = []) (k : Nat) :
    (∀ i, Dangling (crashStore s1.store (startValid cfg s1 id h r e1).2.2 k) i → Dangling s1.store i) ∧
    (∀ fuel, 2 ≤ fuel → ∃ r0, resolves (crashStore s1.store (startValid cfg s1 id h r e1).2.2 k) fuel id = some r0 ∧
        r0.ref = none ∧ r0.user = (enc cfg.codec (s1.obj h)).user ∧ r0.data = (enc cfg.codec (s1.obj h)).data) ∧
    ((startValid cfg s1 id h r e1).2.1 = .sess h → k = (apiMuts (startValid cfg s1 id h r e1).2.2).length →
      (∀ fuel, 1 ≤ fuel → resolves (crashStore s1.store (startValid cfg s1 id h r e1).2.2 k) fuel (.gen s1.nextId) =
          some (enc cfg.codec (Loc.rotObj s1 h))) ∧
      (∀ fuel, 2 ≤ fuel → resolves (crashStore s1.store (startValid cfg s1 id h r e1).2.2 k) fuel id =
          some (enc cfg.codec (Loc.rotObj s1 h)))) := by
  obtain ⟨hev, hres⟩ := C10.startValid_rotate_evs cfg s1 id h r e1 href hage
  subst hkey
  rw [hev, C10.crashStore_pre _ _ he1, C10.apiMuts_append, he1, List.nil_append]
  obtain ⟨h1, h2, h3⟩ := regenerate_prefix_safe cfg s1 h hi hk href hrec k
  exact ⟨h1, h2, fun hs => h3 (hres hs)⟩

/-- a configuration under which every session is old enough to be rotated -/
def C10.exCfgRot : Cfg := { maxCache := 2, idExpiry := 0 }
def C10.exReqRot : Req := { cookie := some (.gen 0), cookieLen := 24 }

/-- without `hkey`, (ii) of `startValid_rotation_prefix_safe` is false: an id that has nothing to do with
the object (`lit "zz"`) does not resolve at `k = 0`. -/
example : resolves (crashStore exS1.store (startValid C10.exCfgRot exS1 (.lit "zz") 0 {} []).2.2 0) 2 (.lit "zz") = none := by
  decide

/-- **C10 for `Start` with a cached session**: the presented id `id` is cached (`hhit`), its object
is a valid full session old enough to be rotated. Everything else follows from the invariant. -/
theorem start_rotation_prefix_safe (cfg : Cfg) (s : State) (r : Req) (id : ID) (h : Nat) (hi : Inv cfg.codec s)
    (hc : r.cookie = some id) (hl : r.cookieLen = 24) (hhit : lookup id s.cache = some h)
    (hvalid : validFor cfg s.now (s.obj h) r = true) (href : (s.obj h).ref = none)
    (hage : since s.now (s.obj h).created ≥ cfg.idExpiry) (k : Nat) :
    (∀ i, Dangling (crashStore s.store (start cfg s r).2.2 k) i → Dangling s.store i) ∧
    (∀ fuel, 2 ≤ fuel → ∃ r0, resolves (crashStore s.store (start cfg s r).2.2 k) fuel id = some r0 ∧
        r0.ref = none ∧ r0.user = (enc cfg.codec (s.obj h)).user ∧ r0.data = (enc cfg.codec (s.obj h)).data) ∧
    ((start cfg s r).2.1 = .sess h → k = (apiMuts (start cfg s r).2.2).length →
      (∀ fuel, 1 ≤ fuel → resolves (crashStore s.store (start cfg s r).2.2 k) fuel (.gen s.nextId) =
          some (enc cfg.codec (Loc.rotObj s h))) ∧
      (∀ fuel, 2 ≤ fuel → resolves (crashStore s.store (start cfg s r).2.2 k) fuel id =
          some (enc cfg.codec (Loc.rotObj s h)))) := by
  have hm : (id, h) ∈ s.cache := Sx.lookup_some_mem hhit
  have hkey : (s.obj h).id = id := hi.wf id h hm (by simp)
  have hm' : ((s.obj h).id, h) ∈ s.cache := by rw [hkey]; exact hm
  rw [Loc.start_valid hc hl (Loc.cacheGet_hit hhit) hvalid]
  exact startValid_rotation_prefix_safe cfg s id h r [] hi (HOK.of_mem hi hm) hkey href hage
    (by rw [← hkey]; exact C10.hrec_of_cached hi hm') rfl k

/-- non-vacuity: with `idExpiry = 0` the session of `exS1` is rotated by the next `Start`. -/
example (k : Nat) := start_rotation_prefix_safe C10.exCfgRot exS1 C10.exReqRot (.gen 0) 0 exS1_ok.2.1 rfl rfl
  (by decide) (by decide) (by decide) (by decide) k
example : (start C10.exCfgRot exS1 C10.exReqRot).2.1 = .sess 0 ∧
    (apiMuts (start C10.exCfgRot exS1 C10.exReqRot).2.2).length = 2 ∧
    resolves (crashStore exS1.store (start C10.exCfgRot exS1 C10.exReqRot).2.2 1) 2 (.gen 0) = some (enc .gob (exS1.obj 0)) ∧
    (resolves (crashStore exS1.store (start C10.exCfgRot exS1 C10.exReqRot).2.2 2) 2 (.gen 0)).map (·.ref) = some none := by
  decide

/-! ### 3. `LogIn` -/

namespace C10

/-! #### the store after a call is the store before it with the events of the call applied (every oracle) -/

@[reducible] def Replay (s s' : State) (evs : List Ev) : Prop := s'.store = evs.foldl applyMut s.store

theorem Replay.trans' {a b b' c : State} {e1 e2 : List Ev} (h1 : Replay a b e1) (hb : b'.store = b.store)
    (h2 : Replay b' c e2) : Replay a c (e1 ++ e2) := by
  unfold Replay at *; rw [List.foldl_append, ← h1, ← hb, h2]

theorem replay_saveRec (cfg : Cfg) (s : State) (id : ID) (o : Sess) :
    Replay s (saveRec cfg s id o).1 (saveRec cfg s id o).2.2 := by
  rw [Loc.saveRec_eq]; split <;> rfl

theorem replay_sweep (cfg : Cfg) : ∀ (l : List (ID × Nat)) (s : State), Replay s (sweep cfg s l).1 (sweep cfg s l).2.2
  | [], _ => rfl
  | (id, h) :: rest, s => by
    rw [Loc.sweep_cons]
    split
    · split
      · exact (replay_saveRec cfg s id (s.obj h)).trans' rfl (replay_sweep cfg rest _)
      · exact replay_saveRec cfg s id (s.obj h)
    · exact replay_sweep cfg rest s

theorem replay_evictLoop (cfg : Cfg) (req : Int) : ∀ (fuel : Nat) (s : State),
    Replay s (evictLoop cfg req fuel s).1 (evictLoop cfg req fuel s).2
  | 0, _ => rfl
  | fuel + 1, s => by
    rw [Loc.evictLoop_succ]
    split
    · cases hv : victim s with
      | none => rfl
      | some e =>
        obtain ⟨id, h⟩ := e
        simp only
        split
        · exact (replay_saveRec cfg s id (s.obj h)).trans' rfl (replay_evictLoop cfg req fuel _)
        · exact replay_saveRec cfg s id (s.obj h)
    · rfl

theorem replay_compact (cfg : Cfg) (req : Int) (s : State) : Replay s (compact cfg req s).1 (compact cfg req s).2 := by
  have h1 := replay_sweep cfg (orderBy s.picks s.cache) s
  rw [Loc.compact_eq]
  split
  · exact h1
  · split
    · exact h1
    · exact h1.trans' rfl (replay_evictLoop cfg _ _ _)

theorem replay_cacheSet (cfg : Cfg) (s : State) (h : Nat) : Replay s (cacheSet cfg s h).1 (cacheSet cfg s h).2.2 := by
  rw [Loc.cacheSet_eq]
  have h1 : Replay s (Loc.setC cfg s h).1 (Loc.setC cfg s h).2 := replay_compact cfg (Loc.setReq s h) (Loc.setObjNow s h)
  exact h1.trans' (Loc.setK_store cfg s h) (replay_saveRec cfg (Loc.setK cfg s h) (s.obj h).id ((Loc.setK cfg s h).obj h))

theorem crashStore_append_le (st0 : List (ID × Rec)) (a b : List Ev) {k : Nat} (hk : k ≤ (apiMuts a).length) :
    crashStore st0 (a ++ b) k = crashStore st0 a k := by
  unfold crashStore; rw [apiMuts_append, List.take_append_of_le_length hk]

theorem crashStore_append_ge (st0 : List (ID × Rec)) (a b : List Ev) {k : Nat} (hk : (apiMuts a).length ≤ k) :
    crashStore st0 (a ++ b) k = crashStore (a.foldl applyMut st0) b (k - (apiMuts a).length) := by
  unfold crashStore
  rw [apiMuts_append, List.take_append, List.take_of_length_le hk, List.foldl_append, foldl_apiMuts]

end C10

namespace C10

/-- the general form of `flush_ev1`: any `old`, any `G`. -/
theorem flush_ev1' {cfg : Cfg} {s : State} {old : ID} {G : Rec → Prop} (hi : Inv cfg.codec s) {obj : Nat → Sess}
    (href : ∀ k x, (k, x) ∈ s.cache → (obj x).ref = (s.obj x).ref)
    (hG : ∀ x, (old, x) ∈ s.cache → G (enc cfg.codec (obj x)))
    {e : Ev} (he : Loc.IsFlush cfg s.cache obj e) : Ev1 s.store old G e := by
  obtain ⟨k, x, hm, rfl | rfl⟩ := he
  · obtain ⟨r, hl, hess⟩ := hi.coh k x hm (by simp)
    refine ⟨?_, ?_⟩
    · rw [refAt_of_lookup hl, ← ess_ref hess, enc_ref, enc_ref, href k x hm]
    · intro hko; subst hko; exact hG x hm
  · trivial

theorem P.mono {st0 st0' : List (ID × Rec)} {old : ID} {G G' : Rec → Prop} {st : List (ID × Rec)}
    (hd : ∀ id, Dangling st0 id → Dangling st0' id) (hG : ∀ r, G r → G' r) (h : P st0 old G st) : P st0' old G' st := by
  obtain ⟨h1, r, h2, h3, h4⟩ := h
  exact ⟨fun id hid => hd id (h1 id hid), r, h2, h3, hG r h4⟩

/-- `regenerate_prefix_safe` (i), (ii) in `P`-form -/
theorem regen_P {cfg : Cfg} {s : State} {h : Nat} (hi : Inv cfg.codec s) (hk : HOK s h) (href : (s.obj h).ref = none)
    (hrec : ∃ r0, lookup (s.obj h).id s.store = some r0 ∧ ess r0 = ess (enc cfg.codec (s.obj h))) (k : Nat) :
    P s.store (s.obj h).id (Good cfg s h) (crashStore s.store (regenerate cfg s h).2.2 k) := by
  obtain ⟨j, hj⟩ := crash_point (regenerate cfg s h).2.2 k s.store
  unfold crashStore; rw [hj]
  exact (regen_seg hi hk href s.store (regen_q1 href hrec)).1 j

/-- every crash point of a call all of whose events are harmless (phase 1) -/
theorem ev1_P {st0 : List (ID × Rec)} {old : ID} {G : Rec → Prop} {evs : List Ev} (hq : Q1 st0 old G st0)
    (hev : ∀ e ∈ evs, Ev1 st0 old G e) (k : Nat) :
    P st0 old G (crashStore st0 evs k) ∧ Q1 st0 old G (evs.foldl applyMut st0) := by
  obtain ⟨j, hj⟩ := crash_point evs k st0
  unfold crashStore; rw [hj]
  exact ⟨(seg1 hev st0 hq).1 j, (seg1 hev st0 hq).2⟩

theorem enc_user (c : Codec) (o : Sess) : (enc c o).user = o.user.map (·.1) := by cases c <;> rfl
theorem enc_data_congr (c : Codec) {o o' : Sess} (h : o'.data = o.data) : (enc c o').data = (enc c o).data := by
  cases c <;> simp [Sx.enc, h]

/-- the record has data `D` and its user satisfies `Us` -/
def GU (D : Option Data) (Us : Option String → Prop) (r : Rec) : Prop := r.data = D ∧ Us r.user

/-! #### the tail of `LogIn`: store the user with `Set`, then `RegenerateID` -/

/-- the object `LogIn` hands to its `Set` -/
def loginObj (s1 : State) (h : Nat) (uid : String) : Sess := { s1.obj h with user := some (uid, s1.ver uid) }
/-- the `Set` of `LogIn` -/
def tailSet (cfg : Cfg) (s1 : State) (h : Nat) (uid : String) : State × Bool × List Ev :=
  cacheSet cfg (s1.setObj h (loginObj s1 h uid)) h
/-- the events of `LogIn` after its first phase -/
def tailEvs (cfg : Cfg) (s1 : State) (h : Nat) (uid : String) : List Ev :=
  (tailSet cfg s1 h uid).2.2 ++ (regenerate cfg (tailSet cfg s1 h uid).1 h).2.2

theorem obj_set2 (s1 : State) (h : Nat) (o' : Sess) (hv : h < s1.heap.length) (x : Nat) :
    (Loc.setObjNow (s1.setObj h o') h).obj x = if h = x then { o' with lastAccess := s1.now } else s1.obj x := by
  by_cases hx : h = x
  · subst hx
    rw [Loc.setObjNow_obj_self, if_pos (by simpa using hv), if_pos rfl, Loc.obj_setObj_self hv]; rfl
  · rw [Loc.setObjNow_obj_ne hx, Loc.obj_setObj_ne hx, if_neg hx]

/-- what the tail of `LogIn` guarantees at every crash point `k` (counted from the start of the tail):
relative to the store `s1.store` at the start of the tail, whose record `r0` under the session's id is a
full record with the session's data. `HL` suffices (an exclusive log-in may have loaded a second object
for the same session). -/
theorem tail_safe (cfg : Cfg) (s1 : State) (h : Nat) (uid : String) (hnf : NoFail s1) (hi : Inv cfg.codec s1)
    (hl : HL s1 h) (href : (s1.obj h).ref = none) {r0 : Rec} (hl0 : lookup (s1.obj h).id s1.store = some r0)
    (hr0 : r0.ref = none) (hd0 : r0.data = (enc cfg.codec (s1.obj h)).data) (k : Nat) :
    P s1.store (s1.obj h).id
      (GU (enc cfg.codec (s1.obj h)).data (fun u => (u = r0.user ∨ u = some uid) ∧
        ((apiMuts (tailSet cfg s1 h uid).2.2).length ≤ k → u = some uid)))
      (crashStore s1.store (tailEvs cfg s1 h uid) k) ∧
    (k = (apiMuts (tailEvs cfg s1 h uid)).length → ∃ R, R.ref = none ∧ R.user = some uid ∧
      R.data = (enc cfg.codec (s1.obj h)).data ∧
      ∀ fuel, 1 ≤ fuel → resolves (crashStore s1.store (tailEvs cfg s1 h uid) k) fuel (.gen s1.nextId) = some R) := by
  have hv := hl.valid
  have hS : SetObjPost cfg s1 h (tailSet cfg s1 h uid) :=
    Sx.setObj_cacheSet_spec cfg s1 h (loginObj s1 h uid) hnf hi hl rfl rfl
  have hok : (tailSet cfg s1 h uid).2.1 = true := hS.ok
  have hv2 : h < (s1.setObj h (loginObj s1 h uid)).heap.length := by simpa using hv
  have hobj2 : (s1.setObj h (loginObj s1 h uid)).obj h = loginObj s1 h uid := Loc.obj_setObj_self hv _
  have hobj3 : (tailSet cfg s1 h uid).1.obj h = { loginObj s1 h uid with lastAccess := s1.now } := by
    unfold tailSet; rw [Loc.cacheSet_obj_self cfg hv2, hobj2]; rfl
  have hid3 : ((tailSet cfg s1 h uid).1.obj h).id = (s1.obj h).id := by rw [hobj3]; rfl
  have href3 : ((tailSet cfg s1 h uid).1.obj h).ref = none := by rw [hobj3]; exact href
  have hdat3 : (enc cfg.codec ((tailSet cfg s1 h uid).1.obj h)).data = (enc cfg.codec (s1.obj h)).data :=
    enc_data_congr _ (by rw [hobj3]; rfl)
  have husr3 : (enc cfg.codec ((tailSet cfg s1 h uid).1.obj h)).user = some uid := by rw [enc_user, hobj3]; rfl
  -- the events of the `Set`
  have hev : (tailSet cfg s1 h uid).2.2 = (Loc.setC cfg (s1.setObj h (loginObj s1 h uid)) h).2 ++
      [.save (s1.obj h).id (enc cfg.codec ((tailSet cfg s1 h uid).1.obj h))] := by
    have := Loc.cacheSet_evs cfg (s1.setObj h (loginObj s1 h uid)) h
    rw [show cacheSet cfg (s1.setObj h (loginObj s1 h uid)) h = tailSet cfg s1 h uid from rfl, hok, hobj2] at this
    simpa [loginObj] using this
  -- … are harmless for the weak `G`
  let G : Rec → Prop := GU (enc cfg.codec (s1.obj h)).data (fun u => u = r0.user ∨ u = some uid)
  have hq1 : Q1 s1.store (s1.obj h).id G s1.store := ⟨fun _ => rfl, r0, hl0, hr0, hd0, Or.inl rfl⟩
  have hev1 : ∀ e ∈ (tailSet cfg s1 h uid).2.2, Ev1 s1.store (s1.obj h).id G e := by
    intro e he
    rw [hev] at he
    rcases List.mem_append.1 he with he | he
    · have hf := (Loc.setC_flushed cfg (s1.setObj h (loginObj s1 h uid)) h).evs_flush e he
      refine flush_ev1' (obj := (Loc.setObjNow (s1.setObj h (loginObj s1 h uid)) h).obj) hi ?_ ?_ hf
      · intro k' x _
        rw [obj_set2 s1 h _ hv x]
        split
        · rename_i hx; subst hx; rfl
        · rfl
      · intro x hm
        rw [obj_set2 s1 h _ hv x]
        split
        · exact ⟨enc_data_congr _ rfl, Or.inr (by rw [enc_user]; rfl)⟩
        · obtain ⟨r, hlr, hess⟩ := hi.coh _ x hm (by simp)
          rw [hl0] at hlr
          simp only [Option.some.injEq] at hlr; subst hlr
          exact ⟨by rw [ess_data hess, hd0], Or.inl (ess_user hess)⟩
    · simp only [List.mem_singleton] at he; subst he
      exact ⟨by rw [refAt_of_lookup hl0, hr0, enc_ref, href3], fun _ => ⟨hdat3, Or.inr husr3⟩⟩
  have hrep : (tailSet cfg s1 h uid).1.store = (tailSet cfg s1 h uid).2.2.foldl applyMut s1.store :=
    replay_cacheSet cfg (s1.setObj h (loginObj s1 h uid)) h
  -- `RegenerateID` from the state after the `Set`
  have hrec3 : ∃ r3, lookup ((tailSet cfg s1 h uid).1.obj h).id (tailSet cfg s1 h uid).1.store = some r3 ∧
      ess r3 = ess (enc cfg.codec ((tailSet cfg s1 h uid).1.obj h)) := ⟨_, Loc.cacheSet_saved hok, rfl⟩
  have hfinal := (ev1_P hq1 hev1 0).2
  rw [← hrep] at hfinal
  have hdang : ∀ id, Dangling (tailSet cfg s1 h uid).1.store id → Dangling s1.store id := hfinal.p.1
  have hlen : (apiMuts (tailEvs cfg s1 h uid)).length =
      (apiMuts (tailSet cfg s1 h uid).2.2).length + (apiMuts (regenerate cfg (tailSet cfg s1 h uid).1 h).2.2).length := by
    unfold tailEvs; rw [apiMuts_append, List.length_append]
  by_cases hk : k < (apiMuts (tailSet cfg s1 h uid).2.2).length
  · -- the crash is inside the `Set`, before its write-through save
    refine ⟨?_, fun hkl => by omega⟩
    unfold tailEvs
    rw [crashStore_append_le _ _ _ (Nat.le_of_lt hk)]
    refine (ev1_P hq1 hev1 k).1.mono (fun _ h => h) ?_
    rintro r ⟨h1, h2⟩
    exact ⟨h1, h2, fun hge => by omega⟩
  · -- the `Set` is complete: the rest is `RegenerateID` from the state it left
    have hk' : (apiMuts (tailSet cfg s1 h uid).2.2).length ≤ k := Nat.le_of_not_lt hk
    have hcs : crashStore s1.store (tailEvs cfg s1 h uid) k =
        crashStore (tailSet cfg s1 h uid).1.store (regenerate cfg (tailSet cfg s1 h uid).1 h).2.2
          (k - (apiMuts (tailSet cfg s1 h uid).2.2).length) := by
      unfold tailEvs; rw [crashStore_append_ge _ _ _ hk', ← hrep]
    rw [hcs]
    have hP := regen_P hS.inv hS.hok href3 hrec3 (k - (apiMuts (tailSet cfg s1 h uid).2.2).length)
    rw [hid3] at hP
    refine ⟨hP.mono hdang ?_, ?_⟩
    · rintro r ⟨h1, h2⟩
      rw [husr3] at h1; rw [hdat3] at h2
      exact ⟨h2, Or.inr h1, fun _ => h1⟩
    · intro hkl
      have hok3 := (Sx.regenerate_spec cfg (tailSet cfg s1 h uid).1 h hS.step.nofail hS.hok.toHL hS.inv).ok
      have h3 := (regenerate_prefix_safe cfg (tailSet cfg s1 h uid).1 h hS.inv hS.hok href3 hrec3
        (k - (apiMuts (tailSet cfg s1 h uid).2.2).length)).2.2 hok3 (by omega)
      have hsim := (sim_rotObj (tailSet cfg s1 h uid).1 h).enc cfg.codec
      refine ⟨enc cfg.codec (Loc.rotObj (tailSet cfg s1 h uid).1 h), ?_, ?_, ?_, ?_⟩
      · rw [hsim.1, enc_ref, href3]
      · rw [hsim.2.1, husr3]
      · rw [hsim.2.2, hdat3]
      · rw [← hS.nextId]; exact h3.1

/-- the `Set` of `LogIn` makes at least one mutation: its write-through save -/
theorem tailSet_muts_pos (cfg : Cfg) (s1 : State) (h : Nat) (uid : String) (hok : (tailSet cfg s1 h uid).2.1 = true) :
    1 ≤ (apiMuts (tailSet cfg s1 h uid).2.2).length := by
  have := Loc.cacheSet_evs cfg (s1.setObj h (loginObj s1 h uid)) h
  rw [show cacheSet cfg (s1.setObj h (loginObj s1 h uid)) h = tailSet cfg s1 h uid from rfl, hok] at this
  rw [this, apiMuts_append, List.length_append, if_pos rfl]
  have h1 : ∀ a b, (apiMuts [Ev.save a b]).length = 1 := fun _ _ => rfl
  rw [h1]; omega

/-! #### the first phase of `LogIn`, abstractly -/

/-- what the first phase `pre` of `LogIn` (run from `s`) must guarantee for the session `h`:
it succeeds and keeps the invariant; the object keeps id, data and stays a full session; no id is
minted; every event is harmless with respect to the record of the session (which keeps its data and
whose user stays or becomes `none`); the store after it is the replay of its events. -/
structure PreSpec (cfg : Cfg) (s : State) (h : Nat) (pre : State × Bool × List Ev) : Prop where
  ok : pre.2.1 = true
  nf : NoFail pre.1
  inv : Inv cfg.codec pre.1
  hl : HL pre.1 h
  id : (pre.1.obj h).id = (s.obj h).id
  ref : (pre.1.obj h).ref = none
  data : (pre.1.obj h).data = (s.obj h).data
  nextId : pre.1.nextId = s.nextId
  evs : ∀ e ∈ pre.2.2, Ev1 s.store (s.obj h).id
    (GU (enc cfg.codec (s.obj h)).data (fun u => u = (enc cfg.codec (s.obj h)).user ∨ u = none)) e
  replay : pre.1.store = pre.2.2.foldl applyMut s.store

/-- **`LogIn` from a first phase satisfying `PreSpec`**: at every crash point `k` no new dangling
reference, the presented id resolves to a full record with the session's data whose user is the old
one or none up to the end of the first phase (`k ≤ nPre`) and the new one from the write-through save
of the `Set` on (`nSet ≤ k`); after all mutations the new id resolves to a full record with the
session's data and the new user. -/
theorem login_assemble (cfg : Cfg) (le : ID → ID → Bool) (s : State) (h : Nat) (uid : String) (excl : Bool)
    (hrec : ∃ r0, lookup (s.obj h).id s.store = some r0 ∧ ess r0 = ess (enc cfg.codec (s.obj h)))
    (href : (s.obj h).ref = none)
    (hpre : PreSpec cfg s h (Loc.loginPre cfg le s h uid excl)) (k : Nat) :
    P s.store (s.obj h).id
      (GU (enc cfg.codec (s.obj h)).data (fun u =>
        (u = (enc cfg.codec (s.obj h)).user ∨ u = none ∨ u = some uid) ∧
        (k ≤ (apiMuts (Loc.loginPre cfg le s h uid excl).2.2).length → u = (enc cfg.codec (s.obj h)).user ∨ u = none) ∧
        ((apiMuts ((Loc.loginPre cfg le s h uid excl).2.2 ++ (Loc.loginSet cfg le s h uid excl).2.2)).length ≤ k →
          u = some uid)))
      (crashStore s.store (hlogin cfg le s h uid excl).2.2 k) ∧
    (k = (apiMuts (hlogin cfg le s h uid excl).2.2).length → ∃ R, R.ref = none ∧ R.user = some uid ∧
      R.data = (enc cfg.codec (s.obj h)).data ∧
      ∀ fuel, 1 ≤ fuel → resolves (crashStore s.store (hlogin cfg le s h uid excl).2.2 k) fuel (.gen s.nextId) = some R) := by
  have hset : Loc.loginSet cfg le s h uid excl = tailSet cfg (Loc.loginPre cfg le s h uid excl).1 h uid := rfl
  have hS : SetObjPost cfg (Loc.loginPre cfg le s h uid excl).1 h (tailSet cfg (Loc.loginPre cfg le s h uid excl).1 h uid) :=
    Sx.setObj_cacheSet_spec cfg _ h (loginObj _ h uid) hpre.nf hpre.inv hpre.hl rfl rfl
  have hev : (hlogin cfg le s h uid excl).2.2 =
      (Loc.loginPre cfg le s h uid excl).2.2 ++ tailEvs cfg (Loc.loginPre cfg le s h uid excl).1 h uid := by
    rw [Loc.hlogin_eq, hset]
    simp only [hpre.ok, hS.ok, Bool.true_eq_false, if_false]
    unfold tailEvs; rw [List.append_assoc]
  have hpos := tailSet_muts_pos cfg (Loc.loginPre cfg le s h uid excl).1 h uid hS.ok
  rw [hev, hset]
  generalize Loc.loginPre cfg le s h uid excl = pre at hpre hS hpos ⊢
  obtain ⟨r0, hl0, hess0⟩ := hrec
  have hq1 : Q1 s.store (s.obj h).id
      (GU (enc cfg.codec (s.obj h)).data (fun u => u = (enc cfg.codec (s.obj h)).user ∨ u = none)) s.store :=
    ⟨fun _ => rfl, r0, hl0, by rw [ess_ref hess0, enc_ref, href], ess_data hess0, Or.inl (ess_user hess0)⟩
  have hlenA : (apiMuts (pre.2.2 ++ (tailSet cfg pre.1 h uid).2.2)).length =
      (apiMuts pre.2.2).length + (apiMuts (tailSet cfg pre.1 h uid).2.2).length := by
    rw [apiMuts_append, List.length_append]
  have hlenT : (apiMuts (pre.2.2 ++ tailEvs cfg pre.1 h uid)).length =
      (apiMuts pre.2.2).length + (apiMuts (tailEvs cfg pre.1 h uid)).length := by
    rw [apiMuts_append, List.length_append]
  have hlenE : (apiMuts (tailEvs cfg pre.1 h uid)).length =
      (apiMuts (tailSet cfg pre.1 h uid).2.2).length + (apiMuts (regenerate cfg (tailSet cfg pre.1 h uid).1 h).2.2).length := by
    unfold tailEvs; rw [apiMuts_append, List.length_append]
  by_cases hk : k ≤ (apiMuts pre.2.2).length
  · -- the crash is inside the first phase
    refine ⟨?_, fun hkl => by omega⟩
    rw [crashStore_append_le _ _ _ hk]
    refine (ev1_P hq1 hpre.evs k).1.mono (fun _ h => h) ?_
    rintro r ⟨h1, h2⟩
    refine ⟨h1, ?_, fun _ => h2, fun hge => by omega⟩
    rcases h2 with h2 | h2
    · exact Or.inl h2
    · exact Or.inr (Or.inl h2)
  · -- the first phase is complete: the rest is the tail, run from the state it left
    have hk' : (apiMuts pre.2.2).length ≤ k := by omega
    obtain ⟨_, r1, hl1, hr1, hd1, hu1⟩ := (ev1_P hq1 hpre.evs 0).2
    have hdang : ∀ id, Dangling pre.1.store id → Dangling s.store id := by
      have := (ev1_P hq1 hpre.evs 0).2.p.1
      rw [← hpre.replay] at this; exact this
    rw [← hpre.replay] at hl1
    have hdat : (enc cfg.codec (pre.1.obj h)).data = (enc cfg.codec (s.obj h)).data := enc_data_congr _ hpre.data
    rw [crashStore_append_ge _ _ _ hk', ← hpre.replay]
    have hT := tail_safe cfg pre.1 h uid hpre.nf hpre.inv hpre.hl hpre.ref (r0 := r1) (by rw [hpre.id]; exact hl1) hr1
      (by rw [hd1, hdat]) (k - (apiMuts pre.2.2).length)
    rw [hpre.id, hdat, hpre.nextId] at hT
    refine ⟨hT.1.mono hdang ?_, fun hkl => hT.2 (by omega)⟩
    rintro r ⟨h1, h2, h3⟩
    refine ⟨h1, ?_, fun hle => by omega, fun hge => h3 (by omega)⟩
    rcases h2 with h2 | h2
    · rcases hu1 with hu1 | hu1
      · exact Or.inl (by rw [h2, hu1])
      · exact Or.inr (Or.inl (by rw [h2, hu1]))
    · exact Or.inr (Or.inr h2)

/-! #### the first phase of a non-exclusive `LogIn`: `s.LogOut()` -/

theorem pre_logout (cfg : Cfg) (le : ID → ID → Bool) (s : State) (h : Nat) (uid : String) (hnf : NoFail s)
    (hi : Inv cfg.codec s) (hk : HOK s h) (href : (s.obj h).ref = none)
    (hrec : ∃ r0, lookup (s.obj h).id s.store = some r0 ∧ ess r0 = ess (enc cfg.codec (s.obj h))) :
    PreSpec cfg s h (Loc.loginPre cfg le s h uid false) := by
  have hH := Sx.hlogout_spec cfg s h hnf hi hk
  have hpre : Loc.loginPre cfg le s h uid false = ((hlogout cfg s h).1, true, (hlogout cfg s h).2.2) := by
    simp [Loc.loginPre]
  rw [hpre]
  cases hu : (s.obj h).user with
  | none =>
    rw [Loc.hlogout_none hu]
    exact ⟨rfl, hnf, hi, hk.toHL, rfl, href, rfl, rfl, by intro e he; simp at he, rfl⟩
  | some u =>
    rw [Loc.hlogout_some hu] at hH ⊢
    have hv := hk.valid
    have hobj : (s.setObj h { s.obj h with user := none }).obj h = { s.obj h with user := none } := Loc.obj_setObj_self hv _
    have hfr := Loc.saveRec_fr cfg (s.setObj h { s.obj h with user := none }) (s.obj h).id { s.obj h with user := none }
    have hso : saveObj cfg (s.setObj h { s.obj h with user := none }) h =
        saveRec cfg (s.setObj h { s.obj h with user := none }) (s.obj h).id { s.obj h with user := none } := by
      rw [Loc.saveObj_eq, hobj]
    rw [hso] at hH ⊢
    have hobj' : (saveRec cfg (s.setObj h { s.obj h with user := none }) (s.obj h).id { s.obj h with user := none }).1.obj h =
        { s.obj h with user := none } := by rw [hfr.obj, hobj]
    refine ⟨rfl, hH.step.nofail, hH.inv, hH.hok.toHL, by rw [hobj'], by rw [hobj']; exact href, by rw [hobj'], hfr.nextId, ?_,
      replay_saveRec cfg _ _ _⟩
    intro e he
    simp only at he
    rw [Loc.saveRec_evs] at he
    simp only [List.mem_singleton] at he
    obtain ⟨r0, hl0, hess0⟩ := hrec
    split at he
    · subst he
      refine ⟨by rw [refAt_of_lookup hl0, ess_ref hess0, enc_ref, enc_ref], fun _ => ⟨enc_data_congr _ rfl, Or.inr ?_⟩⟩
      rw [enc_user]; rfl
    · subst he; trivial

/-! #### the first phase of an exclusive `LogIn`: `LogOut(uid)`, the loop over the user's sessions -/

/-- `G` only reads the essentials of a record -/
def EssInv (G : Rec → Prop) : Prop := ∀ r r', ess r = ess r' → G r' → G r

theorem GU_essInv (D : Option Data) (Us : Option String → Prop) : EssInv (GU D Us) := by
  rintro r r' he ⟨h1, h2⟩
  exact ⟨by rw [ess_data he, h1], by rw [ess_user he]; exact h2⟩

theorem Q1.fold {st0 : List (ID × Rec)} {old : ID} {G : Rec → Prop} {st : List (ID × Rec)} {evs : List Ev}
    (hq : Q1 st0 old G st) (hev : ∀ e ∈ evs, Ev1 st0 old G e) : Q1 st0 old G (evs.foldl applyMut st) :=
  (seg1 hev st hq).2

/-- a flush of a cache entry that is coherent with the store re-writes the essentials of its record -/
theorem coh_flush_ev1 {cfg : Cfg} {s : State} {st0 : List (ID × Rec)} {old : ID} {G : Rec → Prop}
    (hi : Inv cfg.codec s) (hq : Q1 st0 old G s.store) (hG : EssInv G) {k : ID} {x : Nat} (hm : (k, x) ∈ s.cache)
    {o : Sess} (ho : ess (enc cfg.codec o) = ess (enc cfg.codec (s.obj x))) :
    Ev1 st0 old G (.save k (enc cfg.codec o)) := by
  obtain ⟨r, hl, hess⟩ := hi.coh k x hm (by simp)
  refine ⟨by rw [← hq.1 k, refAt_of_lookup hl, ess_ref (ho.trans hess)], ?_⟩
  intro hko; subst hko
  obtain ⟨r', hl', _, hg⟩ := hq.2
  rw [hl] at hl'
  simp only [Option.some.injEq] at hl'; subst hl'
  exact hG _ _ (ho.trans hess) hg

/-- saving, under `k`, a modification `o'` (same reference, same data, an allowed user) of an object `o`
that is coherent with the record under `k` -/
theorem mod_save_ev1 {cfg : Cfg} {s : State} {st0 : List (ID × Rec)} {old : ID} {D : Option Data}
    {Us : Option String → Prop} (hq : Q1 st0 old (GU D Us) s.store) {k : ID} {o o' : Sess} {r : Rec}
    (hl : lookup k s.store = some r) (hess : ess (enc cfg.codec o) = ess r)
    (href : o'.ref = o.ref) (hdata : o'.data = o.data) (hus : Us (o'.user.map (·.1))) :
    Ev1 st0 old (GU D Us) (.save k (enc cfg.codec o')) := by
  refine ⟨by rw [← hq.1 k, refAt_of_lookup hl, ← ess_ref hess, enc_ref, enc_ref, href], ?_⟩
  intro hko; subst hko
  obtain ⟨r', hl', _, hg⟩ := hq.2
  rw [hl] at hl'
  simp only [Option.some.injEq] at hl'; subst hl'
  exact ⟨by rw [enc_data_congr _ hdata, ess_data hess]; exact hg.1, by rw [enc_user]; exact hus⟩

/-- the object `cache.Get` returns is coherent with the record under the requested id -/
theorem get_coh {cfg : Cfg} {s : State} {id : ID} {h1 : Nat} (hi : Inv cfg.codec s)
    (hres : (cacheGet cfg s id).2.1 = .some h1) :
    ∃ r, lookup id (cacheGet cfg s id).1.store = some r ∧
      ess (enc cfg.codec ((cacheGet cfg s id).1.obj h1)) = ess r := by
  have G := Loc.cacheGet_spec cfg s id
  rcases G.some_valid h1 hres with ⟨hc, hs', _⟩ | ⟨hh1, hmiss, hlen, _⟩
  · rw [hs']; exact hi.coh id h1 (Sx.lookup_some_mem hc) (by simp)
  · rcases G.heap with hheap | ⟨o, hheap, _, _, _, r, hlr, ho⟩
    · rw [hheap] at hlen; omega
    · have hobj : (cacheGet cfg s id).1.obj h1 = o := by
        subst hh1; simp [State.obj, hheap, List.getD_eq_getElem?_getD]
      refine ⟨r, ?_, ?_⟩
      · rcases G.store_lk id with hsl | ⟨x, hx, _⟩
        · rw [hsl]; exact hlr
        · exact absurd hx (Sx.lookup_none_not_mem hmiss x)
      · rw [hobj, ho]; exact ess_enc_dec (hi.sok.norm id r (Sx.lookup_some_mem hlr)) _ _

theorem replay_getOf (cfg : Cfg) (id : ID) (s : State) (x : State × LoadRes × List Ev) (hst : x.1.store = s.store)
    (hev : ∀ st, x.2.2.foldl applyMut st = st) : Replay s (Loc.getOf cfg id x).1 (Loc.getOf cfg id x).2.2 := by
  obtain ⟨s0, lr, e0⟩ := x
  simp only at hst hev
  cases lr with
  | fail => show s0.store = e0.foldl applyMut s.store; rw [hev]; exact hst
  | nil => show s0.store = e0.foldl applyMut s.store; rw [hev]; exact hst
  | found o =>
    rw [Loc.getOf_found]
    split
    · show (compact cfg 1 (s0.alloc o).2).1.store = (e0 ++ (compact cfg 1 (s0.alloc o).2).2).foldl applyMut s.store
      rw [List.foldl_append, hev, ← hst]
      exact replay_compact cfg 1 (s0.alloc o).2
    · show s0.store = e0.foldl applyMut s.store; rw [hev]; exact hst

theorem replay_cacheGet (cfg : Cfg) (s : State) (id : ID) : Replay s (cacheGet cfg s id).1 (cacheGet cfg s id).2.2 := by
  cases hc : lookup id s.cache with
  | some h => rw [Loc.cacheGet_hit hc]; rfl
  | none =>
    rw [Loc.cacheGet_miss hc]
    have key : (loadRec s id).1.store = s.store ∧ ∀ st, (loadRec s id).2.2.foldl applyMut st = st := by
      have := Loc.loadRec_cases s id
      generalize loadRec s id = x at this ⊢
      cases this <;> exact ⟨rfl, fun _ => rfl⟩
    exact replay_getOf cfg id s _ key.1 key.2

/-- the events of `cache.Get` are harmless -/
theorem get_ev1 {cfg : Cfg} {s : State} {st0 : List (ID × Rec)} {old : ID} {G : Rec → Prop} (id : ID)
    (hi : Inv cfg.codec s) (hq : Q1 st0 old G s.store) (hG : EssInv G) :
    ∀ e ∈ (cacheGet cfg s id).2.2, Ev1 st0 old G e := by
  intro e he
  have G' := Loc.cacheGet_spec cfg s id
  rcases G'.evs_shape e he with hf | h
  · obtain ⟨k, x, hm, rfl | rfl⟩ := hf
    · exact coh_flush_ev1 hi hq hG hm (by rw [G'.obj_old x (hi.valid k x hm)])
    · trivial
  · rcases h with rfl | rfl | rfl | rfl | ⟨u, rfl⟩ | ⟨u, rfl⟩ <;> trivial

/-- one `Set` of the user loop (user := `none`), from a state whose object `h1` is coherent with its record -/
theorem userSet_spec (cfg : Cfg) {st0 : List (ID × Rec)} {old : ID} {D : Option Data} {Us : Option String → Prop}
    (hUs : Us none) (s1 : State) (h1 : Nat) (hnf : NoFail s1) (hi : Inv cfg.codec s1) (hl : HL s1 h1)
    (hcoh : ∃ r, lookup (s1.obj h1).id s1.store = some r ∧ ess (enc cfg.codec (s1.obj h1)) = ess r)
    (hq : Q1 st0 old (GU D Us) s1.store) :
    (Loc.userSet cfg none s1 h1).2.1 = true ∧ NoFail (Loc.userSet cfg none s1 h1).1 ∧
    Inv cfg.codec (Loc.userSet cfg none s1 h1).1 ∧
    (∀ e ∈ (Loc.userSet cfg none s1 h1).2.2, Ev1 st0 old (GU D Us) e) ∧
    Replay s1 (Loc.userSet cfg none s1 h1).1 (Loc.userSet cfg none s1 h1).2.2 ∧
    (Loc.userSet cfg none s1 h1).1.nextId = s1.nextId ∧
    (Loc.userSet cfg none s1 h1).1.heap.length = s1.heap.length ∧
    ∀ x, ((Loc.userSet cfg none s1 h1).1.obj x).data = (s1.obj x).data := by
  have hv := hl.valid
  have hS : SetObjPost cfg s1 h1 (Loc.userSet cfg none s1 h1) :=
    Sx.setObj_cacheSet_spec cfg s1 h1 { s1.obj h1 with user := none } hnf hi hl rfl rfl
  have hobj2 : (s1.setObj h1 { s1.obj h1 with user := none }).obj h1 = { s1.obj h1 with user := none } :=
    Loc.obj_setObj_self hv _
  have hobjx : ∀ x, (Loc.userSet cfg none s1 h1).1.obj x =
      if h1 = x then { s1.obj h1 with user := none, lastAccess := s1.now } else s1.obj x := by
    intro x; unfold Loc.userSet; rw [Loc.cacheSet_obj, obj_set2 s1 h1 _ hv x]
  have hev : (Loc.userSet cfg none s1 h1).2.2 = (Loc.setC cfg (s1.setObj h1 { s1.obj h1 with user := none }) h1).2 ++
      [.save (s1.obj h1).id (enc cfg.codec { s1.obj h1 with user := none, lastAccess := s1.now })] := by
    have := Loc.cacheSet_evs cfg (s1.setObj h1 { s1.obj h1 with user := none }) h1
    rw [show cacheSet cfg (s1.setObj h1 { s1.obj h1 with user := none }) h1 = Loc.userSet cfg none s1 h1 from rfl,
      hS.ok, hobj2, hobjx h1, if_pos rfl, if_pos rfl] at this
    exact this
  obtain ⟨r, hlr, hess⟩ := hcoh
  refine ⟨hS.ok, hS.step.nofail, hS.inv, ?_, replay_cacheSet cfg (s1.setObj h1 { s1.obj h1 with user := none }) h1,
    hS.nextId, ?_, ?_⟩
  · intro e he
    rw [hev] at he
    rcases List.mem_append.1 he with he | he
    · have hf := (Loc.setC_flushed cfg (s1.setObj h1 { s1.obj h1 with user := none }) h1).evs_flush e he
      obtain ⟨k, x, hm, rfl | rfl⟩ := hf
      · have hm' : (k, x) ∈ s1.cache := hm
        rw [obj_set2 s1 h1 _ hv x]
        by_cases hx : h1 = x
        · subst hx
          rw [if_pos rfl]
          have hkid : (s1.obj h1).id = k := hi.wf k h1 hm' (by simp)
          subst hkid
          exact mod_save_ev1 hq hlr hess rfl rfl hUs
        · rw [if_neg hx]
          exact coh_flush_ev1 hi hq (GU_essInv D Us) hm' rfl
      · trivial
    · simp only [List.mem_singleton] at he; subst he
      exact mod_save_ev1 hq hlr hess rfl rfl hUs
  · unfold Loc.userSet; rw [Loc.cacheSet_heap_length]; simp
  · intro x; rw [hobjx x]; split
    · rename_i hx; subst hx; rfl
    · rfl

/-- **the loop of `LogOut(uid)`**: every event is harmless for any session's record (`old` arbitrary),
the store is the replay of the events, no id is minted, no object changes its data. -/
theorem loop_spec (cfg : Cfg) {st0 : List (ID × Rec)} {old : ID} {D : Option Data} {Us : Option String → Prop}
    (hUs : Us none) : ∀ (ids : List ID) (s : State), NoFail s → Inv cfg.codec s → Q1 st0 old (GU D Us) s.store →
      (∀ e ∈ (setUserAll cfg none ids s).2.2, Ev1 st0 old (GU D Us) e) ∧
      Replay s (setUserAll cfg none ids s).1 (setUserAll cfg none ids s).2.2 ∧
      (setUserAll cfg none ids s).1.nextId = s.nextId ∧
      ∀ x, x < s.heap.length → ((setUserAll cfg none ids s).1.obj x).data = (s.obj x).data := by
  intro ids
  induction ids with
  | nil =>
    intro s _ _ _
    rw [Loc.setUserAll_nil]
    exact ⟨by intro e he; simp at he, rfl, rfl, fun _ _ => rfl⟩
  | cons id rest ih =>
    intro s hnf hi hq
    have hGi := Sx.cacheGet_spec cfg s id hnf hi
    have hGl := Loc.cacheGet_spec cfg s id
    have hrepG := replay_cacheGet cfg s id
    have hevG := get_ev1 id hi hq (GU_essInv D Us)
    have hcohG := fun h1 => get_coh (cfg := cfg) (s := s) (id := id) (h1 := h1) hi
    have hq1 : Q1 st0 old (GU D Us) (cacheGet cfg s id).1.store := by rw [hrepG]; exact hq.fold hevG
    have hobjG := hGl.obj_old
    have hlenG := hGi.step.len
    rcases hg : cacheGet cfg s id with ⟨s1, res, e1⟩
    rw [hg] at hGi hrepG hevG hcohG hq1 hobjG hlenG
    simp only at hrepG hevG hcohG hq1 hobjG hlenG
    obtain ⟨hinv1, hst1, hnext1, hres1, _⟩ := hGi
    simp only at hinv1 hst1 hnext1 hres1
    cases res with
    | err => rcases hres1 with h | ⟨h, h', _⟩ <;> cases h <;> try cases h'
    | nil =>
      rw [Loc.setUserAll_cons_nil hg]
      obtain ⟨a1, a2, a3, a4⟩ := ih s1 hst1.nofail hinv1 hq1
      refine ⟨?_, hrepG.trans' rfl a2, a3.trans hnext1, ?_⟩
      · intro e he
        rcases List.mem_append.1 he with he | he
        · exact hevG e he
        · exact a1 e he
      · intro x hx; rw [a4 x (by omega), hobjG x hx]
    | some h1 =>
      have hk1 : HOK s1 h1 ∧ (s1.obj h1).id = id := by
        rcases hres1 with h | ⟨h', he, hk, hid⟩
        · cases h
        · simp only [GetRes.some.injEq] at he; subst he; exact ⟨hk, hid⟩
      have hcoh1 : ∃ r, lookup (s1.obj h1).id s1.store = some r ∧ ess (enc cfg.codec (s1.obj h1)) = ess r := by
        rw [hk1.2]; exact hcohG h1 rfl
      obtain ⟨b1, b2, b3, b4, b5, b6, b7, b8⟩ := userSet_spec cfg hUs s1 h1 hst1.nofail hinv1 hk1.1.toHL hcoh1 hq1
      rw [Loc.setUserAll_cons_some hg]
      simp only [b1, Bool.true_eq_false, if_false]
      have hq2 : Q1 st0 old (GU D Us) (Loc.userSet cfg none s1 h1).1.store := by rw [b5]; exact hq1.fold b4
      obtain ⟨a1, a2, a3, a4⟩ := ih (Loc.userSet cfg none s1 h1).1 b2 b3 hq2
      refine ⟨?_, (hrepG.trans' rfl b5).trans' rfl a2, (a3.trans b6).trans hnext1, ?_⟩
      · intro e he
        rcases List.mem_append.1 he with he | he
        · rcases List.mem_append.1 he with he | he
          · exact hevG e he
          · exact b4 e he
        · exact a1 e he
      · intro x hx; rw [a4 x (by omega), b8 x, hobjG x hx]

theorem pre_logoutUser (cfg : Cfg) (le : ID → ID → Bool) (s : State) (h : Nat) (uid : String) (hnf : NoFail s)
    (hi : Inv cfg.codec s) (hk : HOK s h) (href : (s.obj h).ref = none)
    (hrec : ∃ r0, lookup (s.obj h).id s.store = some r0 ∧ ess r0 = ess (enc cfg.codec (s.obj h))) :
    PreSpec cfg s h (Loc.loginPre cfg le s h uid true) := by
  have hU := Sx.logoutUser_spec cfg le s uid hnf hi
  have hpre : Loc.loginPre cfg le s h uid true = forUser cfg le s uid none := by simp [Loc.loginPre, logoutUser]
  have hU' : UsersPost cfg s (userSessions le s uid) (forUser cfg le s uid none) := hU
  rw [hpre]
  have hf : s.fails.headD false = false := by
    cases hfl : s.fails with
    | nil => rfl
    | cons b r => exact hnf b (by rw [hfl]; exact List.mem_cons_self)
  obtain ⟨r0, hl0, hess0⟩ := hrec
  have hq1 : Q1 s.store (s.obj h).id
      (GU (enc cfg.codec (s.obj h)).data (fun u => u = (enc cfg.codec (s.obj h)).user ∨ u = none)) s.pop.store :=
    ⟨fun _ => rfl, r0, hl0, by rw [ess_ref hess0, enc_ref, href], ess_data hess0, Or.inl (ess_user hess0)⟩
  have hnfp : NoFail s.pop := fun b hb => hnf b (List.mem_of_mem_tail hb)
  have hip : Inv cfg.codec s.pop := hi.congr rfl rfl rfl rfl rfl
  obtain ⟨a1, a2, a3, a4⟩ := loop_spec cfg (Us := fun u => u = (enc cfg.codec (s.obj h)).user ∨ u = none) (Or.inr rfl)
    (userSessions le s.pop uid) s.pop hnfp hip hq1
  have heq := Loc.forUser_eq cfg le s uid none
  rw [hf] at heq
  simp only [Bool.false_eq_true, if_false] at heq
  obtain ⟨hid, hrf⟩ := hU'.step.ids h hk.valid
  rw [heq] at hU' hid hrf ⊢
  exact ⟨hU'.ok, hU'.step.nofail, hU'.inv, hk.toHL.step hU'.step, hid, by rw [hrf]; exact href, a4 h hk.valid, a3,
    by intro e he
       rcases List.mem_cons.1 he with rfl | he
       · trivial
       · exact a1 e he,
    a2⟩

end C10

/-- **C10 for `LogIn`** (exclusive or not), fault-free (`NoFail`), every order oracle, every crash point `k`.
`old := (s.obj h).id` is the id the client presented, `nPre` the number of mutations of the first
phase (`s.LogOut()`: 0 or 1 mutation; exclusive: `LogOut(uid)`, the loop over the user's sessions with
its loads, flushes and saves — which may re-write this very session's record with `user := none`, no
side condition is needed), `nSet` the number of mutations up to and including the write-through save
of the `Set` that stores the user.
(i) no new dangling reference; (ii) `old` resolves to a full record with the session's DATA, whose user
is the old one or none for `k ≤ nPre`, and `some uid` for `nSet ≤ k` — "the user is saved before the
rotation that announces it" — (in between, a flush by the compaction of that `Set` may already have
written `some uid`); (iii) after all mutations the new id resolves to a full record with the session's
data and user `uid`. -/
theorem hlogin_prefix_safe (cfg : Cfg) (le : ID → ID → Bool) (s : State) (h : Nat) (uid : String) (excl : Bool)
    (hnf : NoFail s) (hi : Inv cfg.codec s) (hk : HOK s h) (href : (s.obj h).ref = none)
    (hrec : ∃ r0, lookup (s.obj h).id s.store = some r0 ∧ ess r0 = ess (enc cfg.codec (s.obj h))) (k : Nat) :
    (∀ id, Dangling (crashStore s.store (hlogin cfg le s h uid excl).2.2 k) id → Dangling s.store id) ∧
    (∃ r, (∀ fuel, 2 ≤ fuel → resolves (crashStore s.store (hlogin cfg le s h uid excl).2.2 k) fuel (s.obj h).id = some r) ∧
      r.ref = none ∧ r.data = (enc cfg.codec (s.obj h)).data ∧
      (r.user = (enc cfg.codec (s.obj h)).user ∨ r.user = none ∨ r.user = some uid) ∧
      (k ≤ (apiMuts (Loc.loginPre cfg le s h uid excl).2.2).length →
        r.user = (enc cfg.codec (s.obj h)).user ∨ r.user = none) ∧
      ((apiMuts ((Loc.loginPre cfg le s h uid excl).2.2 ++ (Loc.loginSet cfg le s h uid excl).2.2)).length ≤ k →
        r.user = some uid)) ∧
    (k = (apiMuts (hlogin cfg le s h uid excl).2.2).length → ∃ R, R.ref = none ∧ R.user = some uid ∧
      R.data = (enc cfg.codec (s.obj h)).data ∧
      ∀ fuel, 1 ≤ fuel → resolves (crashStore s.store (hlogin cfg le s h uid excl).2.2 k) fuel (.gen s.nextId) = some R) := by
  have hpre : C10.PreSpec cfg s h (Loc.loginPre cfg le s h uid excl) := by
    cases excl with
    | false => exact C10.pre_logout cfg le s h uid hnf hi hk href hrec
    | true => exact C10.pre_logoutUser cfg le s h uid hnf hi hk href hrec
  obtain ⟨⟨h1, r, h2, h3, h4, h5⟩, h6⟩ := C10.login_assemble cfg le s h uid excl hrec href hpre k
  exact ⟨h1, ⟨r, h2, h3, h4, h5⟩, h6⟩

/-- `hrec` from the invariant when the session is cached under its id. -/
theorem hlogin_prefix_safe_cached (cfg : Cfg) (le : ID → ID → Bool) (s : State) (h : Nat) (uid : String) (excl : Bool)
    (hnf : NoFail s) (hi : Inv cfg.codec s) (hc : ((s.obj h).id, h) ∈ s.cache) (href : (s.obj h).ref = none) (k : Nat) :
    (∀ id, Dangling (crashStore s.store (hlogin cfg le s h uid excl).2.2 k) id → Dangling s.store id) ∧
    (∃ r, (∀ fuel, 2 ≤ fuel → resolves (crashStore s.store (hlogin cfg le s h uid excl).2.2 k) fuel (s.obj h).id = some r) ∧
      r.ref = none ∧ r.data = (enc cfg.codec (s.obj h)).data ∧
      (r.user = (enc cfg.codec (s.obj h)).user ∨ r.user = none ∨ r.user = some uid) ∧
      (k ≤ (apiMuts (Loc.loginPre cfg le s h uid excl).2.2).length →
        r.user = (enc cfg.codec (s.obj h)).user ∨ r.user = none) ∧
      ((apiMuts ((Loc.loginPre cfg le s h uid excl).2.2 ++ (Loc.loginSet cfg le s h uid excl).2.2)).length ≤ k →
        r.user = some uid)) ∧
    (k = (apiMuts (hlogin cfg le s h uid excl).2.2).length → ∃ R, R.ref = none ∧ R.user = some uid ∧
      R.data = (enc cfg.codec (s.obj h)).data ∧
      ∀ fuel, 1 ≤ fuel → resolves (crashStore s.store (hlogin cfg le s h uid excl).2.2 k) fuel (.gen s.nextId) = some R) :=
  hlogin_prefix_safe cfg le s h uid excl hnf hi (HOK.of_mem hi hc) href (C10.hrec_of_cached hi hc) k

/-! ### 4 (continued). `Start` when the session has to be loaded first

`cache.Get` then makes persistence calls of its own and its compaction may flush other sessions:
the events `e1` before the rotation contain store mutations. Fault-free. -/

/-- the object `cache.Get` returns is coherent with the record found under the requested id BEFORE the call -/
theorem C10.get_coh_pre {cfg : Cfg} {s : State} {id : ID} {h1 : Nat} (hi : Inv cfg.codec s)
    (hres : (cacheGet cfg s id).2.1 = .some h1) :
    ∃ r, lookup id s.store = some r ∧ ess (enc cfg.codec ((cacheGet cfg s id).1.obj h1)) = ess r := by
  have G := Loc.cacheGet_spec cfg s id
  rcases G.some_valid h1 hres with ⟨hc, hs', _⟩ | ⟨hh1, hmiss, hlen, _⟩
  · rw [hs']; exact hi.coh id h1 (Sx.lookup_some_mem hc) (by simp)
  · rcases G.heap with hheap | ⟨o, hheap, _, _, _, r, hlr, ho⟩
    · rw [hheap] at hlen; omega
    · have hobj : (cacheGet cfg s id).1.obj h1 = o := by
        subst hh1; simp [State.obj, hheap, List.getD_eq_getElem?_getD]
      exact ⟨r, hlr, by rw [hobj, ho]; exact ess_enc_dec (hi.sok.norm id r (Sx.lookup_some_mem hlr)) _ _⟩

theorem C10.good_essInv (cfg : Cfg) (s : State) (h : Nat) : C10.EssInv (C10.Good cfg s h) := by
  rintro r r' he ⟨h1, h2⟩
  exact ⟨by rw [C10.ess_user he, h1], by rw [C10.ess_data he, h2]⟩

/-- **C10 for the automatic rotation, `Start` as a whole** (fault-free): the presented id `id` is found
by `cache.Get` — cached or loaded from the store, with whatever flushes the load causes — as a valid
full session `h` old enough to be rotated. `o` below is that object; user and data are those of the
record stored under `id` before the call. -/
theorem start_rotation_prefix_safe_nofail (cfg : Cfg) (s : State) (r : Req) (id : ID) (h : Nat) (hnf : NoFail s)
    (hi : Inv cfg.codec s) (hc : r.cookie = some id) (hl : r.cookieLen = 24)
    (hget : (cacheGet cfg s id).2.1 = .some h)
    (hvalid : validFor cfg (cacheGet cfg s id).1.now ((cacheGet cfg s id).1.obj h) r = true)
    (href : ((cacheGet cfg s id).1.obj h).ref = none)
    (hage : since (cacheGet cfg s id).1.now ((cacheGet cfg s id).1.obj h).created ≥ cfg.idExpiry) (k : Nat) :
    (∀ i, Dangling (crashStore s.store (start cfg s r).2.2 k) i → Dangling s.store i) ∧
    (∀ fuel, 2 ≤ fuel → ∃ r0, resolves (crashStore s.store (start cfg s r).2.2 k) fuel id = some r0 ∧ r0.ref = none ∧
        r0.user = (enc cfg.codec ((cacheGet cfg s id).1.obj h)).user ∧
        r0.data = (enc cfg.codec ((cacheGet cfg s id).1.obj h)).data) ∧
    ((start cfg s r).2.1 = .sess h → k = (apiMuts (start cfg s r).2.2).length →
      (∀ fuel, 1 ≤ fuel → resolves (crashStore s.store (start cfg s r).2.2 k) fuel (.gen s.nextId) =
          some (enc cfg.codec (Loc.rotObj (cacheGet cfg s id).1 h))) ∧
      (∀ fuel, 2 ≤ fuel → resolves (crashStore s.store (start cfg s r).2.2 k) fuel id =
          some (enc cfg.codec (Loc.rotObj (cacheGet cfg s id).1 h)))) := by
  have hGi := Sx.cacheGet_spec cfg s id hnf hi
  have hrepG := C10.replay_cacheGet cfg s id
  obtain ⟨rp, hlp, hessp⟩ := C10.get_coh_pre hi hget
  obtain ⟨rq, hlq, hessq⟩ := C10.get_coh hi hget
  have hq : C10.Q1 s.store id (C10.Good cfg (cacheGet cfg s id).1 h) s.store :=
    ⟨fun _ => rfl, rp, hlp, by rw [← C10.ess_ref hessp, enc_ref, href], (C10.ess_user hessp).symm, (C10.ess_data hessp).symm⟩
  have hev1 := C10.get_ev1 id hi hq (C10.good_essInv cfg _ h)
  rcases hg : cacheGet cfg s id with ⟨s1, res, e1⟩
  rw [hg] at hGi hrepG hq hev1 hget hvalid href hage hlq hessq
  simp only at hGi hrepG hq hev1 hget hvalid href hage hlq hessq ⊢
  subst hget
  obtain ⟨hinv1, hst1, hnext1, hres1, _⟩ := hGi
  simp only at hinv1 hst1 hnext1 hres1
  have hk1 : HOK s1 h ∧ (s1.obj h).id = id := by
    rcases hres1 with h' | ⟨h', he, hk, hid⟩
    · cases h'
    · simp only [GetRes.some.injEq] at he; subst he; exact ⟨hk, hid⟩
  obtain ⟨hk1, hid1⟩ := hk1
  subst hid1
  rw [Loc.start_valid hc hl hg hvalid]
  obtain ⟨hev, hres⟩ := C10.startValid_rotate_evs cfg s1 (s1.obj h).id h r e1 href hage
  rw [hev]
  have hfin := (C10.ev1_P hq hev1 0).2
  rw [← hrepG] at hfin
  have hdang : ∀ i, Dangling s1.store i → Dangling s.store i := hfin.p.1
  have hlenT : (apiMuts (e1 ++ (regenerate cfg s1 h).2.2)).length =
      (apiMuts e1).length + (apiMuts (regenerate cfg s1 h).2.2).length := by
    rw [C10.apiMuts_append, List.length_append]
  by_cases hk : k < (apiMuts e1).length
  · rw [C10.crashStore_append_le _ _ _ (Nat.le_of_lt hk)]
    obtain ⟨hd, r0, hr0, hr0ref, hg0⟩ := (C10.ev1_P hq hev1 k).1
    exact ⟨hd, fun fuel hf => ⟨r0, hr0 fuel hf, hr0ref, hg0.1, hg0.2⟩, fun _ hkl => by omega⟩
  · have hk' : (apiMuts e1).length ≤ k := Nat.le_of_not_lt hk
    rw [C10.crashStore_append_ge _ _ _ hk', ← hrepG]
    obtain ⟨h1, h2, h3⟩ := regenerate_prefix_safe cfg s1 h hinv1 hk1 href ⟨rq, hlq, hessq.symm⟩ (k - (apiMuts e1).length)
    refine ⟨fun i hi' => hdang i (h1 i hi'), h2, fun hs hkl => ?_⟩
    rw [← hnext1]
    exact h3 (hres hs) (by omega)

/-- non-vacuity: two sessions are created, the process restarts (empty cache), `gen 0` is loaded; then,
with room for one cached session only, `Start` with cookie `gen 1` must load that session, which flushes
`gen 0` (a mutation BEFORE the rotation), and rotates it. -/
def C10.exT3 : State :=
  (start exCfg (crashState (start exCfg exS1 exReq).1) { cookie := some (.gen 0), cookieLen := 24 }).1

theorem C10.exT3_ok : NoFail C10.exT3 ∧ Inv Codec.gob C10.exT3 := by
  have h1 := start_spec exCfg exS1 exReq exS1_ok.1 exS1_ok.2.1
  have h2 : Inv Codec.gob (crashState (start exCfg exS1 exReq).1) := crashState_inv _ h1.inv.sok
  have h3 := start_spec exCfg (crashState (start exCfg exS1 exReq).1) { cookie := some (.gen 0), cookieLen := 24 }
    (noFail_of_nil rfl) h2
  exact ⟨h3.mono.nofail, h3.inv⟩

def C10.cfgT : Cfg := { maxCache := 1, idExpiry := 0 }
def C10.reqT : Req := { cookie := some (.gen 1), cookieLen := 24 }

example (k : Nat) := start_rotation_prefix_safe_nofail C10.cfgT C10.exT3 C10.reqT (.gen 1) 3 C10.exT3_ok.1 C10.exT3_ok.2
  rfl rfl (by decide) (by decide) (by decide) (by decide) k
/-- its mutations: flush of `gen 0` by `cache.Get`; flush of the session under its old key, save under the
new id, flush of the new entry, reference record by `RegenerateID`. -/
example : (start C10.cfgT C10.exT3 C10.reqT).2.1 = .sess 3 ∧
    (apiMuts (start C10.cfgT C10.exT3 C10.reqT).2.2).map
      (fun e => match e with | .save id r => some (id, r.ref) | _ => none) =
    [some (.gen 0, none), some (.gen 1, none), some (.gen 2, none), some (.gen 2, none), some (.gen 1, some (.gen 2))] := by
  decide

/-! #### non-vacuity: `LogIn` on concrete states -/

def C10.exLe : ID → ID → Bool := fun _ _ => true
/-- the state after `Start` and a first `LogIn` as "u": the session under `gen 1` (handle 0), a
reference record under `gen 0`, both cached, the cache full. -/
def C10.exS3 : State := (hlogin exCfg C10.exLe exS1 0 "u" false).1

theorem C10.exS3_ok : NoFail C10.exS3 ∧ Inv exCfg.codec C10.exS3 ∧ HOK C10.exS3 0 := by
  have h := Sx.hlogin_spec exCfg C10.exLe exS1 0 "u" false exS1_ok.1 exS1_ok.2.1 exS1_ok.2.2
  exact ⟨h.mono.nofail, h.inv, h.hok⟩

/-- the theorem applies to the first log-in (no user before: the first phase is empty) … -/
example (excl : Bool) (k : Nat) :=
  hlogin_prefix_safe_cached exCfg C10.exLe exS1 0 "u" excl exS1_ok.1 exS1_ok.2.1 (by decide) (by decide) k
example : (apiMuts (hlogin exCfg C10.exLe exS1 0 "u" false).2.2).map
      (fun e => match e with | .save id r => some (id, r.user, r.ref) | _ => none) =
    [some (.gen 0, some "u", none), some (.gen 1, some "u", none), some (.gen 0, none, some (.gen 1))] := by decide

/-- … and to a second log-in as "v" from the state it left. Its six mutations: the log-out save, the
write-through save of the user, a FLUSH of the session's cache entry under its old key by the first
compaction of `RegenerateID` (the full session record, written under the old id), the save under the
new id, a flush of the new entry by the second compaction, the reference record. -/
example (excl : Bool) (k : Nat) :=
  hlogin_prefix_safe_cached exCfg C10.exLe C10.exS3 0 "v" excl C10.exS3_ok.1 C10.exS3_ok.2.1 (by decide) (by decide) k
example : (apiMuts (hlogin exCfg C10.exLe C10.exS3 0 "v" false).2.2).map
      (fun e => match e with | .save id r => some (id, r.user, r.ref) | _ => none) =
    [some (.gen 1, none, none), some (.gen 1, some "v", none), some (.gen 1, some "v", none),
     some (.gen 2, some "v", none), some (.gen 2, some "v", none), some (.gen 1, none, some (.gen 2))] := by decide
/-- the user of the record the presented id `gen 1` resolves to, at the crash points `k = 0 … 6` -/
example : (List.range 7).map (fun k =>
      (resolves (crashStore C10.exS3.store (hlogin exCfg C10.exLe C10.exS3 0 "v" false).2.2 k) 2 (.gen 1)).map (·.user)) =
    [some (some "u"), some none, some (some "v"), some (some "v"), some (some "v"), some (some "v"), some (some "v")] := by
  decide

/-- an EXCLUSIVE log-in as "u" from `exS3`, where this very session is logged in as "u": the loop of
`LogOut("u")` finds the session's own id and re-writes its record with `user := none` (first mutation)
— covered by the theorem without a side condition. (`userSessions` sorts with `List.mergeSort`, which
the kernel does not unfold: checked by evaluation.) -/
example (k : Nat) :=
  hlogin_prefix_safe_cached exCfg C10.exLe C10.exS3 0 "u" true C10.exS3_ok.1 C10.exS3_ok.2.1 (by decide) (by decide) k
#guard (apiMuts (hlogin exCfg C10.exLe C10.exS3 0 "u" true).2.2).map
      (fun e => match e with | .save id r => some (id, r.user, r.ref) | _ => none) ==
    [some (.gen 1, none, none), some (.gen 1, some "u", none), some (.gen 1, some "u", none),
     some (.gen 2, some "u", none), some (.gen 2, some "u", none), some (.gen 1, none, some (.gen 2))]

/-! ### 5. the order of the two saves matters: the swapped mutant leaves a dangling reference -/

/-- `RegenerateID` with the two `cache.Set` calls swapped: the reference record is written under the
old id BEFORE the session is written under the new id (everything else as in `regenerate`). -/
def regenerateSwapped (cfg : Cfg) (s : State) (h : Nat) : State × Bool × List Ev :=
  let o := s.obj h
  let oldID := o.id
  let newID := ID.gen s.nextId
  let (hr, s0) := { s with nextId := s.nextId + 1 }.alloc (refObj { o with created := s.now } oldID newID s.now)
  let (s1, ok1, e1) := cacheSet cfg s0 hr
  if !ok1 then (s1, false, e1) else
  let s2 := s1.setObj h { s1.obj h with id := newID, created := s1.now }
  let (s3, ok3, e3) := cacheSet cfg s2 h
  if !ok3 then (s3, false, e1 ++ e3) else
  ({ s3 with timers := s3.timers ++ [(s3.now + cfg.grace, oldID)] }, true, e1 ++ e3 ++ [.setCookie newID])

/-- the mutant writes the same two records as `regenerate`, in the other order … -/
example : apiMuts (regenerateSwapped exCfg exS1 0).2.2 =
    [.save (.gen 0) (enc .gob (Loc.rotRef exS1 0)), .save (.gen 1) (enc .gob (Loc.rotObj exS1 0))] := by decide

/-- … and ends with the same records, cache entries and timers as `regenerate`. -/
example : (∀ id ∈ [ID.gen 0, .gen 1, .gen 2],
      lookup id (regenerateSwapped exCfg exS1 0).1.store = lookup id (regenerate exCfg exS1 0).1.store ∧
      lookup id (regenerateSwapped exCfg exS1 0).1.cache = lookup id (regenerate exCfg exS1 0).1.cache) ∧
    (regenerateSwapped exCfg exS1 0).1.timers = (regenerate exCfg exS1 0).1.timers ∧
    (regenerateSwapped exCfg exS1 0).2.1 = true := by decide

/-- **Counter-example.** For the mutant, property (i) of `regenerate_prefix_safe` FAILS at the crash
point `k = 1`, on the state after one `Start` (hypotheses of the theorem: `exS1_ok`): the store then
holds the reference record `gen 0 ↦ gen 1` but no record under `gen 1`, and `gen 0` was not dangling
before. (ii) fails too: the presented id no longer resolves. -/
theorem swapped_saves_dangle :
    (∃ id, Dangling (crashStore exS1.store (regenerateSwapped exCfg exS1 0).2.2 1) id ∧ ¬ Dangling exS1.store id) ∧
    (∀ fuel, resolves (crashStore exS1.store (regenerateSwapped exCfg exS1 0).2.2 1) fuel (exS1.obj 0).id = none) := by
  refine ⟨⟨.gen 0, by decide, by decide⟩, ?_⟩
  have hst : crashStore exS1.store (regenerateSwapped exCfg exS1 0).2.2 1 = [(.gen 0, enc .gob (Loc.rotRef exS1 0))] := by
    decide
  have hid : (exS1.obj 0).id = .gen 0 := by decide
  rw [hst, hid]
  intro fuel
  have hl0 : lookup (ID.gen 0) [(ID.gen 0, enc .gob (Loc.rotRef exS1 0))] = some (enc .gob (Loc.rotRef exS1 0)) := by decide
  have hl1 : lookup (ID.gen 1) [(ID.gen 0, enc .gob (Loc.rotRef exS1 0))] = none := by decide
  have hr : (enc .gob (Loc.rotRef exS1 0)).ref = some (.gen 1) := by decide
  cases fuel with
  | zero => rfl
  | succ n =>
    rw [C10.resolves_link hl0 hr]
    cases n with
    | zero => rfl
    | succ m => simp [resolves, hl1]

/-- the real `RegenerateID` on the same state: (i) and (ii) hold at `k = 0, 1, 2` (by evaluation; in
general by `regenerate_prefix_safe`). -/
theorem real_saves_safe : ∀ k ∈ [0, 1, 2],
    (∀ id ∈ [ID.gen 0, .gen 1, .gen 2], ¬ Dangling (crashStore exS1.store (regenerate exCfg exS1 0).2.2 k) id) ∧
    (resolves (crashStore exS1.store (regenerate exCfg exS1 0).2.2 k) 2 (exS1.obj 0).id).isSome = true := by decide

end Sx.More
