import Sessions.Proofs.More.Chain05
/-!
# C05, history level — in a running process no reference record outlives its grace period

* `c05_crBound`, `C05RefRec`, `C05Covered`: every cached or stored reference record has a pending clean-up timer for its id
  with a deadline at most `created + G`.
* `C05NoNew`: the frame "creates no reference record, drops no timer", proved T-locally for every operation but
  `RegenerateID` (`c05_noNew_cacheSet`, `c05_noNew_cacheGet`, `c05_noNew_purge`, `c05_noNew_createNew`, `c05_noNew_follow`, handlers,
  user loops …; most for every oracle); `c05_cov_regenerate`, `c05_cov_startValid`, `c05_cov_start`, `c05_cov_hlogin`, `c05_cov_advance`.
* `C05WT`, `c05_step_wt`, `c05_timers_all_histories`, `c05_no_overdue_reference`, `c05_reference_age_lt`.
* non-vacuity (`c05_calmScript`) and the failing case after a restart (`c05_crashScript`).
-/
namespace Sx.More

/-! ## the invariant

The invariant `C05Covered`: every reference record that is cached or stored has a clean-up timer pending for its
id, with a deadline at most `created + G` (`G` bounds the grace period configured along the history; under JSON
the creation time is stored to the second, whence up to 1 s of slack: `c05_crBound`). Timers are lost by a restart,
so this is about histories without `crash` / `crashinside`. Together with "at an operation boundary every pending
timer is in the future" it says: a reference record that still exists is younger than `G` (+ 1 s under JSON). -/

/-- the latest instant a creation time read off a record can stand for (JSON keeps instants to the second). -/
def c05_crBound (c : Codec) (cr : Int) : Int :=
  match c with
  | .gob => cr
  | .json => truncSec cr + 999999999

theorem c05_crBound_ge (c : Codec) (cr : Int) : cr ≤ c05_crBound c cr := by
  cases c <;> simp only [c05_crBound, truncSec] <;> omega

theorem c05_crBound_le (c : Codec) (cr : Int) : c05_crBound c cr ≤ cr + 999999999 := by
  cases c <;> simp only [c05_crBound, truncSec] <;> omega

theorem c05_crBound_gob (cr : Int) : c05_crBound .gob cr = cr := rfl

theorem c05_crBound_enc (c : Codec) (o : Sess) : c05_crBound c (enc c o).created = c05_crBound c o.created := by
  cases c
  · rfl
  · simp only [c05_crBound, enc, truncSec_idem]

/-- a reference record under `k` is in the cache or in the store; `b` is the bound on its creation instant. -/
def C05RefRec (c : Codec) (s : State) (k : ID) (b : Int) : Prop :=
  (∃ h, (k, h) ∈ s.cache ∧ (s.obj h).ref ≠ none ∧ c05_crBound c (s.obj h).created = b) ∨
  (∃ r, lookup k s.store = some r ∧ r.ref ≠ none ∧ c05_crBound c r.created = b)

/-- every reference record has a pending clean-up timer with a deadline at most `created + G`. -/
def C05Covered (c : Codec) (G : Int) (s : State) : Prop :=
  ∀ k b, C05RefRec c s k b → ∃ d, (d, k) ∈ s.timers ∧ d ≤ b + G

/-- an operation that creates no reference record and drops no timer. -/
structure C05NoNew (c : Codec) (s s' : State) : Prop where
  refs : ∀ k b, C05RefRec c s' k b → C05RefRec c s k b
  timers : ∀ p ∈ s.timers, p ∈ s'.timers

theorem C05NoNew.refl (c : Codec) (s : State) : C05NoNew c s s := ⟨fun _ _ h => h, fun _ h => h⟩
theorem C05NoNew.trans {c : Codec} {a b d : State} (h1 : C05NoNew c a b) (h2 : C05NoNew c b d) : C05NoNew c a d :=
  ⟨fun k x h => h1.refs k x (h2.refs k x h), fun p h => h2.timers p (h1.timers p h)⟩

theorem C05Covered.of_noNew {c : Codec} {G : Int} {s s' : State} (hc : C05Covered c G s) (hn : C05NoNew c s s') : C05Covered c G s' := by
  intro k b h
  obtain ⟨d, hd, hle⟩ := hc k b (hn.refs k b h)
  exact ⟨d, hn.timers _ hd, hle⟩

/-- only heap objects changed, and no reference object among them changed its reference or creation time. -/
theorem c05_noNew_of_heap {c : Codec} {s s' : State} (h1 : s'.cache = s.cache) (h2 : s'.store = s.store)
    (h3 : s'.timers = s.timers)
    (ho : ∀ k x, (k, x) ∈ s.cache → (s'.obj x).ref ≠ none → (s.obj x).ref ≠ none ∧ (s'.obj x).created = (s.obj x).created) :
    C05NoNew c s s' := by
  refine ⟨?_, fun p hp => by rw [h3]; exact hp⟩
  intro k b h
  rcases h with ⟨x, hm, hr, hb⟩ | ⟨r, hl, hr, hb⟩
  · rw [h1] at hm
    obtain ⟨g1, g2⟩ := ho k x hm hr
    exact Or.inl ⟨x, hm, g1, by rw [← g2]; exact hb⟩
  · rw [h2] at hl; exact Or.inr ⟨r, hl, hr, hb⟩

theorem c05_noNew_congr {c : Codec} {s s' : State} (h0 : s'.heap = s.heap) (h1 : s'.cache = s.cache) (h2 : s'.store = s.store)
    (h3 : s'.timers = s.timers) : C05NoNew c s s' :=
  c05_noNew_of_heap h1 h2 h3 (fun _ x _ hr => by rw [obj_of_heap_eq h0] at hr ⊢; exact ⟨hr, rfl⟩)

/-- overwriting an object without touching reference and creation time. -/
theorem c05_noNew_setObj {c : Codec} (s : State) (h : Nat) (o' : Sess) (h1 : o'.ref = (s.obj h).ref)
    (h2 : o'.created = (s.obj h).created) : C05NoNew c s (s.setObj h o') := by
  refine c05_noNew_of_heap (by rfl) (by rfl) (by rfl) ?_
  intro k x _ hr
  rw [Loc.obj_setObj] at hr ⊢
  split
  · rename_i hx; rw [if_pos hx] at hr; obtain ⟨rfl, _⟩ := hx; rw [← h1, ← h2]; exact ⟨hr, rfl⟩
  · rename_i hx; rw [if_neg hx] at hr; exact ⟨hr, rfl⟩

/-- overwriting an object by a session proper. -/
theorem c05_noNew_setObj_plain {c : Codec} (s : State) (h : Nat) (o' : Sess) (h1 : o'.ref = none) : C05NoNew c s (s.setObj h o') := by
  refine c05_noNew_of_heap (by rfl) (by rfl) (by rfl) ?_
  intro k x _ hr
  rw [Loc.obj_setObj] at hr ⊢
  split
  · rename_i hx; rw [if_pos hx] at hr; exact absurd h1 hr
  · rename_i hx; rw [if_neg hx] at hr; exact ⟨hr, rfl⟩

theorem c05_noNew_alloc {c : Codec} {s : State} (hi : I3 s) (o : Sess) : C05NoNew c s (s.alloc o).2 := by
  refine c05_noNew_of_heap (by rfl) (by rfl) (by rfl) ?_
  intro k x hm hr
  rw [Loc.obj_alloc_old (hi.valid k x hm)] at hr ⊢
  exact ⟨hr, rfl⟩

theorem c05_noNew_touch {c : Codec} (s : State) (h : Nat) (r : Req) : C05NoNew c s (touch s h r) := c05_noNew_setObj s h _ rfl rfl

theorem c05_cacheSet_created (cfg : Cfg) (s : State) (h x : Nat) :
    ((cacheSet cfg s h).1.obj x).created = (s.obj x).created := by
  rw [Loc.cacheSet_obj]
  unfold Loc.setObjNow
  rw [Loc.obj_setObj]
  split
  · rename_i hx; obtain ⟨rfl, _⟩ := hx; rfl
  · rfl

/-- the reference records after a `cache.Set` (every oracle): old ones, or the object that was set. -/
theorem c05_refRec_cacheSet (cfg : Cfg) (s : State) (h : Nat) (k : ID) (b : Int)
    (hr : C05RefRec cfg.codec (cacheSet cfg s h).1 k b) :
    C05RefRec cfg.codec s k b ∨
      (k = (s.obj h).id ∧ (s.obj h).ref ≠ none ∧ c05_crBound cfg.codec (s.obj h).created = b) := by
  have hsame := i3_cacheSet_same cfg s h
  have hcr := c05_cacheSet_created cfg s h
  rcases hr with ⟨x, hm, hr, hb⟩ | ⟨r, hl, hr, hb⟩
  · rw [(hsame x).2.1] at hr; rw [hcr] at hb
    rcases Loc.cacheSet_cache_mem cfg s h hm with e | ⟨hm', _⟩
    · obtain ⟨rfl, rfl⟩ := Prod.mk.inj e
      exact Or.inr ⟨rfl, hr, hb⟩
    · exact Or.inl (Or.inl ⟨x, hm', hr, hb⟩)
  · by_cases hk : (cacheSet cfg s h).2.1 = true ∧ k = (s.obj h).id
    · obtain ⟨hok, rfl⟩ := hk
      rw [Loc.cacheSet_store_ok hok, Loc.lookup_insert_self] at hl
      simp only [Option.some.injEq] at hl; subst hl
      rw [enc_ref, (hsame h).2.1] at hr; rw [c05_crBound_enc, hcr] at hb
      exact Or.inr ⟨rfl, hr, hb⟩
    · rcases Loc.cacheSet_store_lk cfg s h k (fun hok e => hk ⟨hok, e⟩) with h1 | ⟨x, hm, h1⟩
      · rw [h1] at hl; exact Or.inl (Or.inr ⟨r, hl, hr, hb⟩)
      · rw [h1] at hl
        simp only [Option.some.injEq] at hl; subst hl
        rw [enc_ref, (hsame x).2.1] at hr; rw [c05_crBound_enc, hcr] at hb
        exact Or.inl (Or.inl ⟨x, hm, hr, hb⟩)

/-- `cache.Set` of a session proper, or of a reference object whose record is already there. -/
theorem c05_noNew_cacheSet (cfg : Cfg) (s : State) (h : Nat)
    (hself : (s.obj h).ref ≠ none → C05RefRec cfg.codec s (s.obj h).id (c05_crBound cfg.codec (s.obj h).created)) :
    C05NoNew cfg.codec s (cacheSet cfg s h).1 := by
  refine ⟨?_, fun p hp => by rw [Loc.cacheSet_timers]; exact hp⟩
  intro k b hr
  rcases c05_refRec_cacheSet cfg s h k b hr with h1 | ⟨rfl, h2, rfl⟩
  · exact h1
  · exact hself h2

/-- **`cache.Get` creates no reference record** (every oracle): what it caches is a record of the store, what its
compaction stores is an object of the cache. -/
theorem c05_noNew_cacheGet (cfg : Cfg) {s : State} (hi : I3 s) (id : ID) : C05NoNew cfg.codec s (cacheGet cfg s id).1 := by
  have sp := Loc.cacheGet_spec cfg s id
  generalize cacheGet cfg s id = g at sp
  obtain ⟨s', res, evs⟩ := g
  simp only at sp ⊢
  refine ⟨?_, fun p hp => by rw [sp.timers]; exact hp⟩
  intro k b hr
  rcases hr with ⟨x, hm, hr, hb⟩ | ⟨r, hl, hr, hb⟩
  · rcases sp.cache_mem _ hm with hm' | ⟨e, hres, hmiss⟩
    · rw [sp.obj_old x (hi.valid k x hm')] at hr hb
      exact Or.inl ⟨x, hm', hr, hb⟩
    · obtain ⟨rfl, rfl⟩ := Prod.mk.inj e
      rcases sp.heap with hh | ⟨o, hh, _, _, _, r, hlr, ho⟩
      · rcases sp.some_valid _ hres with ⟨h1, _⟩ | ⟨_, _, h3, _⟩
        · rw [hmiss] at h1; simp at h1
        · rw [hh] at h3; omega
      · rw [i3_obj_append hh, if_pos rfl, ho] at hr hb
        exact Or.inr ⟨r, hlr, hr, hb⟩
  · rcases sp.store_lk k with h1 | ⟨x, hm, h1⟩
    · rw [h1] at hl; exact Or.inr ⟨r, hl, hr, hb⟩
    · rw [h1] at hl
      simp only [Option.some.injEq] at hl; subst hl
      rw [enc_ref, sp.obj_old x (hi.valid k x hm)] at hr
      rw [c05_crBound_enc, sp.obj_old x (hi.valid k x hm)] at hb
      exact Or.inl ⟨x, hm, hr, hb⟩

/-- the object `cache.Get` returns, if it is a reference, is a reference record of the state. -/
theorem c05_refRec_cacheGet_self {cfg : Cfg} {s s1 : State} {id : ID} {h : Nat} {e1 : List Ev} (hi : I3 s)
    (hg : cacheGet cfg s id = (s1, .some h, e1)) (hr : (s1.obj h).ref ≠ none) :
    C05RefRec cfg.codec s1 (s1.obj h).id (c05_crBound cfg.codec (s1.obj h).created) := by
  have sp := Loc.cacheGet_spec cfg s id
  rw [hg] at sp
  simp only at sp
  rcases sp.some_valid h rfl with ⟨h1, h2, _⟩ | ⟨h1, hmiss, h3, h4⟩
  · subst h2
    have hm := Sx.lookup_some_mem h1
    rw [hi.key id h hm hr]
    exact Or.inl ⟨h, hm, hr, rfl⟩
  · rw [h4]
    rcases sp.heap with hh | ⟨o, hh, _, _, _, r, hlr, ho⟩
    · rw [hh] at h3; omega
    · have hobj : s1.obj h = dec s.ver id r := by rw [i3_obj_append hh, if_pos h1, ho]
      rw [hobj] at hr ⊢
      rcases sp.store_lk id with h5 | ⟨x, hm, _⟩
      · exact Or.inr ⟨r, by rw [h5]; exact hlr, hr, rfl⟩
      · exact absurd hm (Sx.lookup_none_not_mem hmiss x)

theorem c05_noNew_cacheDelete {c : Codec} (s : State) (id : ID) : C05NoNew c s (cacheDelete s id).1 := by
  refine ⟨?_, fun p hp => by rw [(Loc.cacheDelete_fr s id).timers]; exact hp⟩
  have hobj := (Loc.cacheDelete_fr s id).obj
  have hcache : ∀ e, e ∈ (cacheDelete s id).1.cache → e ∈ s.cache := by
    rw [Loc.cacheDelete_eq]; split <;> exact fun e he => (Sx.mem_erase he).1
  have hstore : ∀ k r, lookup k (cacheDelete s id).1.store = some r → lookup k s.store = some r := by
    rw [Loc.cacheDelete_eq]; split
    · exact fun _ _ h => h
    · intro k r h
      have h' : lookup k (erase id s.store) = some r := h
      rw [Loc.lookup_erase] at h'
      split at h'
      · simp at h'
      · exact h'
  intro k b hr
  rcases hr with ⟨x, hm, hr, hb⟩ | ⟨r, hl, hr, hb⟩
  · rw [hobj] at hr hb; exact Or.inl ⟨x, hcache _ hm, hr, hb⟩
  · exact Or.inr ⟨r, hstore k r hl, hr, hb⟩

theorem c05_noNew_destroy {c : Codec} (s : State) (h : Nat) (b : Bool) : C05NoNew c s (destroy s h b).1 := by
  rw [Loc.destroy_eq]
  split
  · exact c05_noNew_cacheDelete s _
  · split <;> exact c05_noNew_cacheDelete s _

/-- a direct `SaveSession(id, o)`: of a session proper, or of a reference object whose record is already there. -/
theorem c05_noNew_saveRec (cfg : Cfg) (s : State) (id : ID) (o : Sess)
    (hself : o.ref ≠ none → C05RefRec cfg.codec s id (c05_crBound cfg.codec o.created)) :
    C05NoNew cfg.codec s (saveRec cfg s id o).1 := by
  rw [Loc.saveRec_eq]
  split
  · exact c05_noNew_congr rfl rfl rfl rfl
  · refine ⟨?_, fun p hp => hp⟩
    intro k b hr
    rcases hr with ⟨x, hm, hr, hb⟩ | ⟨r, hl, hr, hb⟩
    · exact Or.inl ⟨x, hm, hr, hb⟩
    · have hl' : lookup k (insert id (enc cfg.codec o) s.store) = some r := hl
      rw [Loc.lookup_insert] at hl'
      split at hl'
      · rename_i e; subst e
        simp only [Option.some.injEq] at hl'; subst hl'
        rw [enc_ref] at hr; rw [c05_crBound_enc] at hb
        rw [← hb]; exact hself hr
      · exact Or.inr ⟨r, hl', hr, hb⟩

theorem c05_noNew_purgeList (cfg : Cfg) (l : List (ID × Nat)) (s : State) (hl : ∀ p ∈ l, p ∈ s.cache) :
    C05NoNew cfg.codec s (purgeList cfg s l).1 := by
  induction l generalizing s with
  | nil => exact C05NoNew.refl _ _
  | cons p rest ih =>
    obtain ⟨id, h⟩ := p
    have hm : (id, h) ∈ s.cache := hl _ List.mem_cons_self
    have hS := c05_noNew_saveRec cfg s id (s.obj h) (fun hr => Or.inl ⟨h, hm, hr, rfl⟩)
    have hc := Loc.saveRec_cache cfg s id (s.obj h)
    simp only [purgeList]
    generalize saveRec cfg s id (s.obj h) = g at hS hc
    obtain ⟨s1, ok, e1⟩ := g
    simp only at hS hc ⊢
    have ih' := ih s1 (fun p hp => by rw [hc]; exact hl p (List.mem_cons_of_mem _ hp))
    generalize purgeList cfg s1 rest = g2 at ih'
    obtain ⟨s2, e2⟩ := g2
    exact hS.trans ih'

theorem c05_noNew_purge (cfg : Cfg) (s : State) : C05NoNew cfg.codec s (purge cfg s).1 := by
  have h := c05_noNew_purgeList cfg (orderBy s.picks s.cache) s (fun p hp => mem_orderBy_sub hp)
  unfold purge
  generalize purgeList cfg s (orderBy s.picks s.cache) = g at h
  obtain ⟨s1, e1⟩ := g
  refine h.trans ⟨?_, fun p hp => hp⟩
  intro k b hr
  rcases hr with ⟨x, hm, _⟩ | ⟨r, hl, hr, hb⟩
  · simp at hm
  · exact Or.inr ⟨r, hl, hr, hb⟩

/-- **a successful `RegenerateID` keeps every reference record covered**: the one it creates gets the timer
`(now + grace, old)`, and `grace ≤ G`. -/
theorem c05_cov_regenerate (cfg : Cfg) (G : Int) {s : State} (hi : I3 s) (hc : C05Covered cfg.codec G s) (h : Nat)
    (hv : h < s.heap.length) (href : (s.obj h).ref = none) (hg : cfg.grace ≤ G)
    (hok : (regenerate cfg s h).2.1 = true) : C05Covered cfg.codec G (regenerate cfg s h).1 := by
  have hd : (s.obj h).data ≠ none := (hi.heap h).2 href
  have hS0 : I3 (Loc.regenS0 s h) :=
    (hi.setObj_plain h { s.obj h with id := ID.gen s.nextId, created := s.now } href hd).congr rfl rfl rfl
  have hIA : I3 (Loc.regenA cfg s h).1 := (i3_cacheSet cfg hS0 h (by rw [Loc.regenS0_heap_length]; exact hv)).1
  have n0 : C05NoNew cfg.codec s (Loc.regenS0 s h) :=
    (c05_noNew_setObj_plain s h { s.obj h with id := ID.gen s.nextId, created := s.now } href).trans
      (c05_noNew_congr rfl rfl rfl rfl)
  have nA : C05NoNew cfg.codec (Loc.regenS0 s h) (Loc.regenA cfg s h).1 :=
    c05_noNew_cacheSet cfg (Loc.regenS0 s h) h (fun hr => by rw [Loc.regenS0_obj_self s h hv] at hr; exact absurd href hr)
  have n2 : C05NoNew cfg.codec (Loc.regenA cfg s h).1 (Loc.regenS2 cfg s h) := c05_noNew_alloc hIA _
  have hlenA : (Loc.regenA cfg s h).1.heap.length = s.heap.length := (Loc.regenA_fr cfg s h).2.2.2.2.2
  have hnew : (Loc.regenS2 cfg s h).obj (Loc.regenA cfg s h).1.heap.length = Loc.rotRef s h := by
    rw [hlenA]; exact Loc.regenS2_obj_new cfg s h hv
  rw [(Loc.regenerate_state_ok cfg s h hok).1]
  intro k b hR
  have hR' : C05RefRec cfg.codec (Loc.regenB cfg s h).1 k b := hR
  show ∃ d, (d, k) ∈ (Loc.regenB cfg s h).1.timers ++ [((Loc.regenB cfg s h).1.now + cfg.grace, (s.obj h).id)] ∧ d ≤ b + G
  rw [(Loc.regenB_fr cfg s h).2.2.1, (Loc.regenB_fr cfg s h).1]
  rcases c05_refRec_cacheSet cfg (Loc.regenS2 cfg s h) _ k b hR' with h1 | ⟨h1, _, h3⟩
  · obtain ⟨d, hd, hle⟩ := hc k b (n0.refs k b (nA.refs k b (n2.refs k b h1)))
    exact ⟨d, List.mem_append_left _ hd, hle⟩
  · rw [hnew] at h1 h3
    refine ⟨s.now + cfg.grace, ?_, ?_⟩
    · rw [h1]; simp [Loc.rotRef]
    · have := c05_crBound_ge cfg.codec s.now
      have h3' : c05_crBound cfg.codec s.now = b := h3
      omega

theorem c05_noNew_createNew (cfg : Cfg) {s : State} (hi : I3 s) (r : Req) (pre : List Ev) :
    C05NoNew cfg.codec s (createNew cfg s r pre).1 := by
  cases hc : r.create with
  | false => rw [Loc.createNew_no pre hc]; exact C05NoNew.refl _ _
  | true =>
    rw [Loc.createNew_yes pre hc]
    have h1 : C05NoNew cfg.codec s (Loc.newS1 s r) :=
      (c05_noNew_congr (s := s) (s' := { s with nextId := s.nextId + 1 }) rfl rfl rfl rfl).trans
        (c05_noNew_alloc (hi.congr (s' := { s with nextId := s.nextId + 1 }) rfl rfl rfl) _)
    have h2 : C05NoNew cfg.codec (Loc.newS1 s r) (cacheSet cfg (Loc.newS1 s r) s.heap.length).1 :=
      c05_noNew_cacheSet cfg _ _ (fun hr => by rw [Loc.newS1_obj_new] at hr; exact absurd rfl hr)
    split <;> exact h1.trans h2

theorem c05_noNew_follow (cfg : Cfg) (n : Nat) (s : State) (h : Nat) (hi : I3 s) : C05NoNew cfg.codec s (follow cfg n s h).1 := by
  induction n generalizing s h with
  | zero => rw [Loc.follow_zero]; exact C05NoNew.refl _ _
  | succ n ih =>
    cases href : (s.obj h).ref with
    | none => rw [Loc.follow_succ_none n href]; exact C05NoNew.refl _ _
    | some tgt =>
      rw [Loc.follow_succ_some n href]
      have hG := c05_noNew_cacheGet cfg hi tgt
      have hI := (i3_cacheGet cfg hi tgt).1
      generalize cacheGet cfg s tgt = g at hG hI
      obtain ⟨s1, res, e1⟩ := g
      cases res with
      | err => exact hG
      | nil => exact hG
      | some h2 => exact hG.trans (ih s1 h2 hI)

/-- `Start` on a found object (fault-free, under `Inv`). -/
theorem c05_cov_startValid (cfg : Cfg) (G : Int) {s1 : State} (hnf : NoFail s1) (hinv : Inv cfg.codec s1) (hi : I3 s1)
    (hc : C05Covered cfg.codec G s1) (id : ID) (h : Nat) (r : Req) (e1 : List Ev) (hk : HOK s1 h) (hg : cfg.grace ≤ G) :
    C05Covered cfg.codec G (startValid cfg s1 id h r e1).1 := by
  cases href : (s1.obj h).ref with
  | none =>
    by_cases hage : since s1.now (s1.obj h).created ≥ cfg.idExpiry
    · rw [Loc.startValid_rotate id r e1 href hage]
      have hok := (Sx.regenerate_spec cfg s1 h hnf hk.toHL hinv).ok
      have hR := c05_cov_regenerate cfg G hi hc h hk.valid href hg hok
      rw [hok]
      simp only [Bool.true_eq_false, if_false]
      exact hR.of_noNew (c05_noNew_touch _ h r)
    · rw [Loc.startValid_young id r e1 href (by omega)]
      exact hc.of_noNew (c05_noNew_touch _ h r)
  | some t =>
    by_cases hage : since s1.now (s1.obj h).created ≥ cfg.idExpiry ∧
        since s1.now (s1.obj h).created - cfg.idExpiry ≥ cfg.grace
    · rw [Loc.startValid_ref_expired id r e1 href hage]
      split <;> exact hc.of_noNew (c05_noNew_cacheDelete s1 id)
    · rw [Loc.startValid_ref id r e1 href hage]
      have hF := c05_noNew_follow cfg (s1.store.length + s1.cache.length + 1) s1 h hi
      generalize follow cfg (s1.store.length + s1.cache.length + 1) s1 h = g at hF
      obtain ⟨s2, res, e2⟩ := g
      cases res with
      | err => exact hc.of_noNew hF
      | nil => exact hc.of_noNew hF
      | some h2 => exact hc.of_noNew (hF.trans (c05_noNew_touch s2 h2 r))

/-- **`Start` keeps every reference record covered** (fault-free, `Inv ∧ I3`, `grace ≤ G`). -/
theorem c05_cov_start (cfg : Cfg) (G : Int) (s : State) (r : Req) (hnf : NoFail s) (hinv : Inv cfg.codec s) (hi : I3 s)
    (hc : C05Covered cfg.codec G s) (hg : cfg.grace ≤ G) : C05Covered cfg.codec G (start cfg s r).1 := by
  cases hck : r.cookie with
  | none => rw [Loc.start_none hck]; exact hc.of_noNew (c05_noNew_createNew cfg hi r [])
  | some id =>
    by_cases hl : r.cookieLen = 24
    · rw [Loc.start_some hck hl]
      have hG := c05_noNew_cacheGet cfg hi id
      have hI := (i3_cacheGet cfg hi id).1
      have hP := Sx.cacheGet_spec cfg s id hnf hinv
      generalize cacheGet cfg s id = g at hG hI hP
      obtain ⟨s1, res, e1⟩ := g
      cases res with
      | err => exact hc.of_noNew hG
      | nil => exact hc.of_noNew (hG.trans (c05_noNew_createNew cfg hI r _))
      | some h =>
        simp only [Loc.startGot]
        split
        · unfold Loc.startInvalid
          have hD : C05NoNew cfg.codec s1 (destroy s1 h true).1 := c05_noNew_destroy s1 h true
          have hID := (i3_destroy hI h true).1
          split
          · exact hc.of_noNew (hG.trans hD)
          · exact hc.of_noNew ((hG.trans hD).trans (c05_noNew_createNew cfg hID r _))
        · have hk : HOK s1 h := by
            rcases hP.res with h0 | ⟨h', h0, hk, _⟩
            · cases h0
            · simp only [GetRes.some.injEq] at h0; subst h0; exact hk
          exact c05_cov_startValid cfg G hP.step.nofail hP.inv hI (hc.of_noNew hG) id h r e1 hk hg
    · rw [Loc.start_len hl]; exact hc.of_noNew (c05_noNew_createNew cfg hi r [])

/-! ### handlers, user loops, `LogIn`, time -/

theorem c05_setObj_obj_ref (s : State) (h : Nat) (o' : Sess) (h1 : o'.ref = (s.obj h).ref) (x : Nat) :
    ((s.setObj h o').obj x).ref = (s.obj x).ref := by
  rw [Loc.obj_setObj]
  split
  · rename_i hx; obtain ⟨rfl, _⟩ := hx; exact h1
  · rfl

theorem c05_refRec_setObj_fwd {c : Codec} (s : State) (h : Nat) (o' : Sess) (h1 : o'.ref = (s.obj h).ref)
    (h2 : o'.created = (s.obj h).created) {k : ID} {b : Int} (hr : C05RefRec c s k b) : C05RefRec c (s.setObj h o') k b := by
  rcases hr with ⟨x, hm, hr, hb⟩ | ⟨r, hl, hr, hb⟩
  · refine Or.inl ⟨x, hm, by rw [c05_setObj_obj_ref s h o' h1]; exact hr, ?_⟩
    rw [Loc.obj_setObj]
    split
    · rename_i hx; obtain ⟨rfl, _⟩ := hx; rw [h2]; exact hb
    · exact hb
  · exact Or.inr ⟨r, hl, hr, hb⟩

/-- overwrite a session proper (reference and creation time untouched) and write it through with `SaveSession`. -/
theorem c05_noNew_setObj_save (cfg : Cfg) (s : State) (h : Nat) (o' : Sess) (href : (s.obj h).ref = none)
    (h1 : o'.ref = (s.obj h).ref) (h2 : o'.created = (s.obj h).created) :
    C05NoNew cfg.codec s (saveObj cfg (s.setObj h o') h).1 := by
  refine (c05_noNew_setObj s h o' h1 h2).trans ?_
  rw [Loc.saveObj_eq]
  exact c05_noNew_saveRec cfg _ _ _ (fun hr => by rw [c05_setObj_obj_ref s h o' h1, href] at hr; exact absurd rfl hr)

theorem c05_noNew_hset (cfg : Cfg) (s : State) (h : Nat) (k : String) (v : Val) (href : (s.obj h).ref = none) :
    C05NoNew cfg.codec s (hset cfg s h k v).1 := by
  cases hd : (s.obj h).data with
  | none => rw [Loc.hset_none k v hd]; exact C05NoNew.refl _ _
  | some d =>
    rw [Loc.hset_some k v hd]
    exact c05_noNew_setObj_save cfg s h { s.obj h with data := some (insert k v d) } href rfl rfl

theorem c05_noNew_hdel (cfg : Cfg) (s : State) (h : Nat) (k : String) (href : (s.obj h).ref = none) :
    C05NoNew cfg.codec s (hdel cfg s h k).1 := by
  rw [Loc.hdel_eq]
  exact c05_noNew_setObj_save cfg s h { s.obj h with data := (s.obj h).data.map (erase k) } href rfl rfl

theorem c05_noNew_hgetdel (cfg : Cfg) (s : State) (h : Nat) (k : String) (href : (s.obj h).ref = none) :
    C05NoNew cfg.codec s (hgetdel cfg s h k).1 := by
  have hS := c05_noNew_setObj_save cfg s h { s.obj h with data := (s.obj h).data.map (erase k) } href rfl rfl
  unfold hgetdel
  split
  · exact C05NoNew.refl _ _
  · simp only []
    generalize saveObj cfg (s.setObj h { s.obj h with data := (s.obj h).data.map (erase k) }) h = g at hS
    obtain ⟨s2, ok, e⟩ := g
    exact hS

theorem c05_noNew_hlogout (cfg : Cfg) (s : State) (h : Nat) (href : (s.obj h).ref = none) :
    C05NoNew cfg.codec s (hlogout cfg s h).1 := by
  cases hu : (s.obj h).user with
  | none => rw [Loc.hlogout_none hu]; exact C05NoNew.refl _ _
  | some u =>
    rw [Loc.hlogout_some hu]
    exact c05_noNew_setObj_save cfg s h { s.obj h with user := none } href rfl rfl

/-- the user loops create no reference record (every oracle): a reference record they touch is already there. -/
theorem c05_noNew_setUserAll (cfg : Cfg) (u : Option (String × Nat)) (ids : List ID) (s : State) (hi : I3 s) :
    C05NoNew cfg.codec s (setUserAll cfg u ids s).1 := by
  induction ids generalizing s with
  | nil => exact C05NoNew.refl _ _
  | cons id rest ih =>
    have hG := c05_noNew_cacheGet cfg hi id
    have hI := (i3_cacheGet cfg hi id).1
    generalize hg : cacheGet cfg s id = g at hG hI
    obtain ⟨s1, res, e1⟩ := g
    cases res with
    | err => rw [Loc.setUserAll_cons_err hg]; exact hG
    | nil => rw [Loc.setUserAll_cons_nil hg]; exact hG.trans (ih s1 hI)
    | some h =>
      rw [Loc.setUserAll_cons_some hg]
      have hv := i3_cacheGet_valid hi hg
      have hI2 : I3 (s1.setObj h { s1.obj h with user := u }) := hI.setObj_same h _ rfl rfl rfl
      have hIS : I3 (Loc.userSet cfg u s1 h).1 := (i3_cacheSet cfg hI2 h (by rw [Loc.setObj_heap_length]; exact hv)).1
      have hobj : (s1.setObj h { s1.obj h with user := u }).obj h = { s1.obj h with user := u } :=
        Loc.obj_setObj_self hv _
      have hS : C05NoNew cfg.codec s1 (Loc.userSet cfg u s1 h).1 := by
        refine (c05_noNew_setObj s1 h { s1.obj h with user := u } rfl rfl).trans ?_
        apply c05_noNew_cacheSet
        intro hr
        rw [hobj] at hr ⊢
        exact c05_refRec_setObj_fwd s1 h { s1.obj h with user := u } rfl rfl (c05_refRec_cacheGet_self hi hg hr)
      split
      · exact hG.trans hS
      · exact (hG.trans hS).trans (ih _ hIS)

theorem c05_noNew_forUser (cfg : Cfg) (le : ID → ID → Bool) {s : State} (hi : I3 s) (uid : String) (u : Option (String × Nat)) :
    C05NoNew cfg.codec s (forUser cfg le s uid u).1 := by
  rw [Loc.forUser_eq]
  have hp : C05NoNew cfg.codec s s.pop := c05_noNew_congr rfl rfl rfl rfl
  split
  · exact hp
  · exact hp.trans (c05_noNew_setUserAll cfg u _ s.pop (hi.congr rfl rfl rfl))

theorem c05_noNew_logoutUser (cfg : Cfg) (le : ID → ID → Bool) {s : State} (hi : I3 s) (uid : String) :
    C05NoNew cfg.codec s (logoutUser cfg le s uid).1 := c05_noNew_forUser cfg le hi uid none

theorem c05_noNew_refreshUser (cfg : Cfg) (le : ID → ID → Bool) {s : State} (hi : I3 s) (uid : String) :
    C05NoNew cfg.codec s (refreshUser cfg le s uid).1 := by
  unfold refreshUser
  exact (c05_noNew_congr (s := s) (s' := { s with vers := insert uid (s.ver uid + 1) s.vers }) rfl rfl rfl rfl).trans
    (c05_noNew_forUser cfg le (hi.congr (s' := { s with vers := insert uid (s.ver uid + 1) s.vers }) rfl rfl rfl) uid _)

theorem c05_noNew_loginFirst (cfg : Cfg) (le : ID → ID → Bool) {s : State} (hi : I3 s) (h : Nat) (uid : String) (excl : Bool)
    (href : (s.obj h).ref = none) : C05NoNew cfg.codec s (loginFirst cfg le s h uid excl).1 := by
  unfold loginFirst
  cases excl with
  | true => exact c05_noNew_logoutUser cfg le hi uid
  | false =>
    have hL := c05_noNew_hlogout cfg s h href
    simp only [Bool.false_eq_true, if_false]
    generalize hlogout cfg s h = g at hL
    obtain ⟨s1, r1, e1⟩ := g
    exact hL

/-- **`s.LogIn` keeps every reference record covered**: its `RegenerateID` arms the timer of the id it replaces. -/
theorem c05_cov_hlogin (cfg : Cfg) (le : ID → ID → Bool) (G : Int) (s : State) (h : Nat) (uid : String) (excl : Bool)
    (hnf : NoFail s) (hinv : Inv cfg.codec s) (hk : HOK s h) (hi : I3 s) (href : (s.obj h).ref = none)
    (hc : C05Covered cfg.codec G s) (hg : cfg.grace ≤ G) : C05Covered cfg.codec G (hlogin cfg le s h uid excl).1 := by
  rw [Sx.hlogin_eq]
  obtain ⟨h1, h2, h3⟩ := loginFirst_spec cfg le s h uid excl hnf hinv hk
  have hF := i3_loginFirst cfg le hi h uid excl
  have hN := c05_noNew_loginFirst cfg le hi h uid excl href
  generalize loginFirst cfg le s h uid excl = g at h1 h2 h3 hF hN
  obtain ⟨s1, ok1, e1⟩ := g
  simp only at h1 h2 h3 hF hN
  subst h1
  have hl1 : HL s1 h := hk.toHL.step h3
  have href1 : (s1.obj h).ref = none := by rw [(h3.ids h hk.valid).2]; exact href
  unfold loginTail
  simp only [Bool.not_true, Bool.false_eq_true, if_false]
  have hS := setObj_cacheSet_spec cfg s1 h { s1.obj h with user := some (uid, s1.ver uid) } h3.nofail h2 hl1 rfl rfl
  have hS3 := i3_cacheSet cfg (hF.1.setObj_same h { s1.obj h with user := some (uid, s1.ver uid) } rfl rfl rfl) h
    (by rw [Loc.setObj_heap_length]; exact hl1.valid)
  have hN3 : C05NoNew cfg.codec s1 (cacheSet cfg (s1.setObj h { s1.obj h with user := some (uid, s1.ver uid) }) h).1 := by
    refine (c05_noNew_setObj s1 h { s1.obj h with user := some (uid, s1.ver uid) } rfl rfl).trans ?_
    apply c05_noNew_cacheSet
    intro hr
    rw [c05_setObj_obj_ref s1 h { s1.obj h with user := some (uid, s1.ver uid) } rfl, href1] at hr
    exact absurd rfl hr
  generalize cacheSet cfg (s1.setObj h { s1.obj h with user := some (uid, s1.ver uid) }) h = g3 at hS hS3 hN3
  obtain ⟨s3, ok3, e3⟩ := g3
  obtain ⟨hok3, hinv3, hst3, hhok3, _, _⟩ := hS
  simp only at hok3 hinv3 hst3 hhok3 hS3 hN3
  subst hok3
  simp only [Bool.not_true, Bool.false_eq_true, if_false]
  have href3 : (s3.obj h).ref = none := by rw [(hst3.ids h hl1.valid).2]; exact href1
  have hok := (Sx.regenerate_spec cfg s3 h hst3.nofail hhok3.toHL hinv3).ok
  have hR := c05_cov_regenerate cfg G hS3.1 ((hc.of_noNew hN).of_noNew hN3) h hhok3.valid href3 hg hok
  generalize regenerate cfg s3 h = g4 at hR
  obtain ⟨s4, ok4, e4⟩ := g4
  exact hR

/-- what the clean-up goroutines leave: cache entries and records only disappear. -/
theorem c05_advance_sub (s : State) (d : Int) :
    (∀ e ∈ (advance s d).1.cache, e ∈ s.cache) ∧
    (∀ k r, lookup k (advance s d).1.store = some r → lookup k s.store = some r) ∧ (advance s d).1.heap = s.heap := by
  apply advance_ind (fun s' => (∀ e ∈ s'.cache, e ∈ s.cache) ∧
    (∀ k r, lookup k s'.store = some r → lookup k s.store = some r) ∧ s'.heap = s.heap)
  · intro tm _; exact ⟨fun _ h => h, fun _ _ h => h, rfl⟩
  · intro s' id ⟨h1, h2, h3⟩
    refine ⟨fun e he => h1 e (Sx.mem_erase he).1, ?_, h3⟩
    intro k r hl
    have hl' : lookup k (erase id s'.store) = some r := hl
    rw [Loc.lookup_erase] at hl'
    split at hl'
    · simp at hl'
    · exact h2 k r hl'
  · intro s' t h; exact h

/-- **time keeps every reference record covered**: a timer that fires takes its reference record with it. -/
theorem c05_cov_advance {c : Codec} {G : Int} {s : State} (hc : C05Covered c G s) (d : Int) : C05Covered c G (advance s d).1 := by
  obtain ⟨a1, a2, a3⟩ := c05_advance_sub s d
  obtain ⟨_, b2, _, b4, _⟩ := c05_cleanup_advance s d
  intro k b hr
  have hr0 : C05RefRec c s k b := by
    rcases hr with ⟨x, hm, hr, hb⟩ | ⟨r, hl, hr, hb⟩
    · rw [obj_of_heap_eq a3] at hr hb; exact Or.inl ⟨x, a1 _ hm, hr, hb⟩
    · exact Or.inr ⟨r, a2 k r hl, hr, hb⟩
  obtain ⟨d0, hd0, hle⟩ := hc k b hr0
  by_cases hdue : d0 ≤ s.now + d
  · obtain ⟨g1, g2⟩ := b4 d0 k hd0 hdue
    rcases hr with ⟨x, hm, _⟩ | ⟨r, hl, _⟩
    · exact absurd hm (Sx.lookup_none_not_mem g1 x)
    · rw [g2] at hl; simp at hl
  · refine ⟨d0, ?_, hle⟩
    rw [b2, List.mem_filter]
    exact ⟨hd0, by simpa using hdue⟩

/-! ### histories without crashes -/

theorem C05Covered.congr {c : Codec} {G : Int} {s s' : State} (hc : C05Covered c G s) (h0 : s'.heap = s.heap)
    (h1 : s'.cache = s.cache) (h2 : s'.store = s.store) (h3 : s'.timers = s.timers) : C05Covered c G s' :=
  hc.of_noNew (c05_noNew_congr h0 h1 h2 h3)

/-- the timer part of the world invariant, for a process that never crashed: every reference record is covered by
a pending timer (deadline `≤ created + G`), and every pending timer is still in the future. -/
structure C05WT (c : Codec) (G : Int) (w : World) : Prop where
  alive : w.crashed = false ∧ w.skip = false ∧ w.freezeAt = none
  grace : w.cfg.grace ≤ G
  cov : C05Covered c G w.st
  future : ∀ p ∈ w.st.timers, w.st.now < p.1

theorem c05_finW_alive {w : World} (h : w.crashed = false) : finW w = w := by
  unfold finW; simp [h]

theorem c05_wt_finW {c : Codec} {G : Int} {w : World} (h : C05WT c G w) : C05WT c G (finW w) := by
  rw [c05_finW_alive h.alive.1]; exact h

theorem c05_apiCall_wt {c : Codec} {G : Int} (w : World) (orc : Orc) (run : State → State × RetV × Option String × List Ev)
    (b : Bool) (ht : C05WT c G w) (hrun : C05Covered c G (run (orcSt w orc)).1) : C05WT c G (apiCall w orc run b).1 := by
  rw [apiCall_fst]
  have hf : ∀ evs, apiFrz w evs = none := by intro evs; unfold apiFrz; rw [ht.alive.2.2]
  generalize run { w.st with fails := orc.fails, picks := orc.picks } = r at hrun ⊢
  obtain ⟨s1, ret, msg, evs⟩ := r
  simp only at hrun ⊢
  have hmid : apiMid w s1 evs = { s1 with fails := [], picks := [] } := by unfold apiMid; rw [hf]
  rw [hmid, hf]
  have hc' : C05Covered c G ({ s1 with fails := [], picks := [] } : State) := hrun.congr rfl rfl rfl rfl
  refine ⟨⟨by simp [ht.alive.1], by simp [ht.alive.2.1], rfl⟩, ht.grace, c05_cov_advance hc' 1, ?_⟩
  exact (c05_cleanup_advance _ 1).2.2.1

/-- the side condition that keeps timers alive and the grace period bounded: no `crash`, no `crashinside`, and a
configuration change leaves `grace ≤ G`. -/
def C05CalmOK (G : Int) (w : World) : Op → Prop
  | .crash => False
  | .crashinside _ => False
  | .cfg n v => (setCfg w.cfg n v).grace ≤ G
  | _ => True

/-- **every operation of a fault-free, crash-free history keeps the timer invariant.** -/
theorem c05_step_wt {c : Codec} {G : Int} (le : ID → ID → Bool) (w : World) (orc : Orc) (op : Op) (hw : WInv3 c w)
    (ht : C05WT c G w) (ho : OrcOK orc) (hopk : OpOK le w op) (hcalm : C05CalmOK G w op) : C05WT c G (w.step le orc op).1 := by
  have hsk' : w.skip = false := ht.alive.2.1
  have hcr : w.crashed = false := ht.alive.1
  obtain ⟨hinv, hcur⟩ := hw.inv.good hsk'
  obtain ⟨hi, hcref⟩ := hw.w3.good hsk'
  have hcd := hw.inv.codec
  subst hcd
  have hnf0 : NoFail (orcSt w orc) := ho
  have hinv0 : Inv w.cfg.codec (orcSt w orc) := hinv.congr rfl rfl rfl rfl rfl
  have hcur0 : ∀ h, w.cur = some h → HOK (orcSt w orc) h := fun h hh => (hcur h hh).congr rfl rfl rfl
  have hi0 : I3 (orcSt w orc) := hi.congr rfl rfl rfl
  have hcref0 : ∀ h, w.cur = some h → ((orcSt w orc).obj h).ref = none := hcref
  have hc0 : C05Covered w.cfg.codec G (orcSt w orc) := ht.cov.congr rfl rfl rfl rfl
  unfold World.step
  cases op with
  | codec c' => exact absurd hopk (by simp [OpOK])
  | crash => exact absurd hcalm (by simp [C05CalmOK])
  | crashinside k => exact absurd hcalm (by simp [C05CalmOK])
  | cfg n v =>
    simp only [hsk', Bool.false_and, Bool.false_eq_true, if_false, finish_fst]
    apply c05_wt_finW
    exact ⟨⟨hcr, rfl, ht.alive.2.2⟩, hcalm, ht.cov, ht.future⟩
  | cookiecfg ck =>
    simp only [hsk', Bool.false_and, Bool.false_eq_true, if_false, finish_fst]
    apply c05_wt_finW
    exact ⟨⟨hcr, rfl, ht.alive.2.2⟩, ht.grace, ht.cov, ht.future⟩
  | fault =>
    simp only [hsk', Bool.false_and, Bool.false_eq_true, if_false, finish_fst]
    exact c05_wt_finW ht
  | stale uid id =>
    simp only [hsk', Bool.false_and, Bool.false_eq_true, if_false, finish_fst]
    apply c05_wt_finW
    exact ⟨⟨hcr, rfl, ht.alive.2.2⟩, ht.grace, ht.cov.congr rfl rfl rfl rfl, ht.future⟩
  | wait d =>
    simp only [hsk', Bool.false_and, Bool.false_eq_true, if_false, finish_fst]
    apply c05_wt_finW
    exact ⟨⟨hcr, rfl, ht.alive.2.2⟩, ht.grace, c05_cov_advance ht.cov d, (c05_cleanup_advance w.st d).2.2.1⟩
  | dropcache =>
    simp only [hsk', Bool.false_and, Bool.false_eq_true, if_false, finish_fst]
    apply c05_wt_finW
    refine ⟨⟨hcr, rfl, ht.alive.2.2⟩, ht.grace, ht.cov.of_noNew ⟨?_, fun p hp => hp⟩, ht.future⟩
    intro k b hr
    rcases hr with ⟨x, hm, _⟩ | ⟨r, hl, hr, hb⟩
    · simp at hm
    · exact Or.inr ⟨r, hl, hr, hb⟩
  | expiredRec id =>
    simp only [hsk', Bool.false_and, Bool.false_eq_true, if_false, finish_fst]
    exact c05_wt_finW ht
  | purge =>
    simp only [hsk', Bool.false_and, Bool.false_eq_true, if_false, finish_fst]
    have hA := c05_apiCall_wt w orc (fun s => let (s', e) := purge w.cfg s; (s', .str "ok", none, e)) false ht
      (hc0.of_noNew (c05_noNew_purge w.cfg (orcSt w orc)))
    exact c05_wt_finW hA
  | logoutUser uid =>
    simp only [hsk', Bool.false_and, Bool.false_eq_true, if_false, finish_fst]
    have hA := c05_apiCall_wt w orc (fun s => let (s', ok, e) := logoutUser w.cfg le s uid; (s', boolStr ok, none, e)) false ht
      (hc0.of_noNew (c05_noNew_logoutUser w.cfg le hi0 uid))
    exact c05_wt_finW hA
  | refresh uid =>
    simp only [hsk', Bool.false_and, Bool.false_eq_true, if_false, finish_fst]
    have hA := c05_apiCall_wt w orc (fun s => let (s', ok, e) := refreshUser w.cfg le s uid; (s', boolStr ok, none, e)) false ht
      (hc0.of_noNew (c05_noNew_refreshUser w.cfg le hi0 uid))
    exact c05_wt_finW hA
  | endReq =>
    simp only [hsk', Bool.false_and, Bool.false_eq_true, if_false, finish_fst]
    apply c05_wt_finW
    exact ⟨⟨hcr, rfl, ht.alive.2.2⟩, ht.grace, ht.cov, ht.future⟩
  | req client spec ip ua create =>
    simp only [hsk', Bool.false_and, Bool.false_eq_true, if_false]
    generalize ({ cookie := _, cookieLen := _, ip := ip, ua := ua, create := create } : Req) = r
    refine c05_apiCall_wt _ orc _ true ⟨⟨hcr, rfl, ht.alive.2.2⟩, ht.grace, ht.cov, ht.future⟩ ?_
    exact c05_cov_start w.cfg G (orcSt w orc) r hnf0 hinv0 hi0 hc0 ht.grace
  | h hop =>
    simp only [hsk', Bool.false_and, Bool.false_eq_true, if_false]
    cases hc : w.cur with
    | none => exact ht
    | some h =>
      simp only []
      have hk0 := hcur0 h hc
      have hr0 := hcref0 h hc
      apply c05_apiCall_wt w orc _ true ht
      cases hop with
      | set k v => exact hc0.of_noNew (c05_noNew_hset w.cfg (orcSt w orc) h k v hr0)
      | del k => exact hc0.of_noNew (c05_noNew_hdel w.cfg (orcSt w orc) h k hr0)
      | get k => exact hc0
      | getdel k => exact hc0.of_noNew (c05_noNew_hgetdel w.cfg (orcSt w orc) h k hr0)
      | login uid excl => exact c05_cov_hlogin w.cfg le G (orcSt w orc) h uid excl hnf0 hinv0 hk0 hi0 hr0 hc0 ht.grace
      | logout => exact hc0.of_noNew (c05_noNew_hlogout w.cfg (orcSt w orc) h hr0)
      | regen =>
        exact c05_cov_regenerate w.cfg G hi0 hc0 h hk0.valid hr0 ht.grace
          (Sx.regenerate_spec w.cfg (orcSt w orc) h hnf0 hk0.toHL hinv0).ok
      | destroy => exact hc0.of_noNew (c05_noNew_destroy (orcSt w orc) h w.hasCookie)
      | expired => exact hc0
      | lastaccess => exact hc0
      | user => exact hc0

/-- the side condition `C05CalmOK` checked along the run of a history. -/
def C05CalmHist (le : ID → ID → Bool) (G : Int) (w : World) : List (Orc × Op) → Prop
  | [] => True
  | (o, op) :: r => C05CalmOK G w op ∧ C05CalmHist le G (w.step le o op).1 r

theorem c05_hist_wt {c : Codec} {G : Int} (le : ID → ID → Bool) (hist : List (Orc × Op)) (w : World) (hw : WInv3 c w)
    (ht : C05WT c G w) (hok : HistOK le w hist) (hcalm : C05CalmHist le G w hist) : C05WT c G (runHist le w hist) := by
  induction hist generalizing w with
  | nil => exact ht
  | cons p r ih =>
    obtain ⟨o, op⟩ := p
    obtain ⟨h1, h2, h3⟩ := hok
    obtain ⟨c1, c2⟩ := hcalm
    exact ih _ (step_inv3 le w o op hw h1 h2) (c05_step_wt le w o op hw ht h1 h2 c1) h3 c2

theorem c05_init_wt (cfg : Cfg) (ck : CookieCfg) (G : Int) (hg : cfg.grace ≤ G) : C05WT cfg.codec G { cfg := cfg, ck := ck } := by
  refine ⟨⟨rfl, rfl, rfl⟩, hg, ?_, by intro p hp; simp at hp⟩
  intro k b hr
  rcases hr with ⟨x, hm, _⟩ | ⟨r, hl, _⟩
  · simp at hm
  · simp [lookup] at hl

/-- **the timer invariant at every operation boundary of every fault-free history without crashes** in which the
configured grace period never exceeds `G` (everything else as in `i3_all_histories`: configuration changes, time,
cache drops, purges, stale index entries, arbitrary presented ids). -/
theorem c05_timers_all_histories (le : ID → ID → Bool) (cfg : Cfg) (ck : CookieCfg) (G : Int) (hist : List (Orc × Op))
    (hg : cfg.grace ≤ G) (hok : HistOK le { cfg := cfg, ck := ck } hist) (hcalm : C05CalmHist le G { cfg := cfg, ck := ck } hist) :
    C05WT cfg.codec G (runHist le { cfg := cfg, ck := ck } hist) :=
  c05_hist_wt le hist _ (init_winv3 cfg ck) (c05_init_wt cfg ck G hg) hok hcalm

/-- **C05 (gone after grace, history level).** In a running process — a fault-free history without `crash` /
`crashinside`, with a grace period of at most `G` throughout — at every operation boundary every reference record
that still exists, cached or stored, is younger than the grace period: `now < created + G`, where under JSON
`created` is only known to the second (`c05_crBound`; `≤ created + 1 s`). Contrapositive: a reference record written at
time `t0` is in neither cache nor store at any operation boundary with `now ≥ t0 + G` (`+ 1 s` under JSON) — its
clean-up goroutine has removed it, and nothing re-creates it. (After a restart the timers are gone and this no
longer holds; then the back-stop `c05_backstop` takes over.) -/
theorem c05_no_overdue_reference (le : ID → ID → Bool) (cfg : Cfg) (ck : CookieCfg) (G : Int) (hist : List (Orc × Op))
    (hg : cfg.grace ≤ G) (hok : HistOK le { cfg := cfg, ck := ck } hist) (hcalm : C05CalmHist le G { cfg := cfg, ck := ck } hist) :
    (∀ k h, (k, h) ∈ (runHist le { cfg := cfg, ck := ck } hist).st.cache →
      ((runHist le { cfg := cfg, ck := ck } hist).st.obj h).ref ≠ none →
      (runHist le { cfg := cfg, ck := ck } hist).st.now <
        c05_crBound cfg.codec ((runHist le { cfg := cfg, ck := ck } hist).st.obj h).created + G) ∧
    (∀ k r, lookup k (runHist le { cfg := cfg, ck := ck } hist).st.store = some r → r.ref ≠ none →
      (runHist le { cfg := cfg, ck := ck } hist).st.now < c05_crBound cfg.codec r.created + G) := by
  have ht := c05_timers_all_histories le cfg ck G hist hg hok hcalm
  constructor
  · intro k h hm hr
    obtain ⟨d, hd, hle⟩ := ht.cov k _ (Or.inl ⟨h, hm, hr, rfl⟩)
    have := ht.future _ hd
    simp only at this
    omega
  · intro k r hl hr
    obtain ⟨d, hd, hle⟩ := ht.cov k _ (Or.inr ⟨r, hl, hr, rfl⟩)
    have := ht.future _ hd
    simp only at this
    omega

/-- … in terms of the age `time.Since(created)` of the record: less than `G` plus one second, whatever the codec; less
than `G` under gob. -/
theorem c05_reference_age_lt (le : ID → ID → Bool) (cfg : Cfg) (ck : CookieCfg) (G : Int) (hist : List (Orc × Op))
    (hg : cfg.grace ≤ G) (hok : HistOK le { cfg := cfg, ck := ck } hist) (hcalm : C05CalmHist le G { cfg := cfg, ck := ck } hist)
    (k : ID) (r : Rec) (hl : lookup k (runHist le { cfg := cfg, ck := ck } hist).st.store = some r) (hr : r.ref ≠ none) :
    since (runHist le { cfg := cfg, ck := ck } hist).st.now r.created < G + 999999999 ∧
    (cfg.codec = .gob → since (runHist le { cfg := cfg, ck := ck } hist).st.now r.created < G) := by
  have h := (c05_no_overdue_reference le cfg ck G hist hg hok hcalm).2 k r hl hr
  have h2 := c05_crBound_le cfg.codec r.created
  refine ⟨by unfold since; omega, fun hc => ?_⟩
  rw [hc, c05_crBound_gob] at h
  unfold since; omega

/-- a syntactic sufficient condition for `C05CalmHist`: no `crash`, no `crashinside`, no configuration change. -/
def c05_calmOp : Op → Bool
  | .crash => false
  | .crashinside _ => false
  | .cfg _ _ => false
  | _ => true

theorem c05_calmHist_of_calm (le : ID → ID → Bool) (G : Int) (hist : List (Orc × Op)) (w : World)
    (h : ∀ p ∈ hist, c05_calmOp p.2 = true) : C05CalmHist le G w hist := by
  induction hist generalizing w with
  | nil => trivial
  | cons p r ih =>
    obtain ⟨o, op⟩ := p
    have h1 := h (o, op) List.mem_cons_self
    refine ⟨?_, ih _ (fun p hp => h p (List.mem_cons_of_mem _ hp))⟩
    cases op <;> first | trivial | (simp [c05_calmOp] at h1)

/-! ### non-vacuity: a run with two replacements, 100 s apart, and waits across both deadlines -/

def c05_calmScript : List (Orc × Op) :=
  [({}, .req "a" .none "1.2.3.4:5" "" true),
   ({}, .h (.set "k" (.int 1))),
   ({}, .h .regen),                                        -- gen 0 ↦ gen 1, at t ≈ 0
   ({}, .endReq),
   ({}, .wait 100000000000),
   ({}, .req "a" (.val (.gen 0) 24) "1.2.3.4:5" "" false),  -- the old id still reaches the session
   ({}, .h (.login "u" false)),                            -- gen 1 ↦ gen 2, at t ≈ 100 s
   ({}, .endReq),
   ({}, .wait 250000000000),                               -- t ≈ 350 s: the first reference is due, the second is not
   ({}, .purge),
   ({}, .dropcache),
   ({}, .wait 100000000000)]                               -- t ≈ 450 s: both are gone

example : C05WT Codec.gob 300000000000 (runHist idLe {} c05_calmScript) :=
  c05_timers_all_histories idLe {} {} 300000000000 c05_calmScript (by decide)
    (histOK_of_plain idLe c05_calmScript _ (by decide)) (c05_calmHist_of_calm idLe _ c05_calmScript _ (by decide))

-- the reference records of the run: both present at step 8, only the younger one at step 9, none at the end
#guard ((runHist idLe {} (c05_calmScript.take 8)).st.store.filter (fun e => e.2.ref.isSome)).map (·.1) == [ID.gen 1, ID.gen 0]
#guard (runHist idLe {} (c05_calmScript.take 6)).cur == some 0
#guard ((runHist idLe {} (c05_calmScript.take 9)).st.store.filter (fun e => e.2.ref.isSome)).map (·.1) == [ID.gen 1]
#guard ((runHist idLe {} c05_calmScript).st.store.filter (fun e => e.2.ref.isSome)).isEmpty &&
  (runHist idLe {} c05_calmScript).st.timers.isEmpty && (runHist idLe {} c05_calmScript).st.store.length == 1

/-- **without the `crash` exclusion the statement fails**: a restart loses the timers, and the reference record is
still stored long after `created + grace` (until someone presents the id: `c05_backstop`). -/
def c05_crashScript : List (Orc × Op) :=
  [({}, .req "a" .none "" "" true), ({}, .h .regen), ({}, .endReq), ({}, .crash), ({}, .wait 400000000000)]

#guard histOKb idLe {} c05_crashScript
#guard (lookup (ID.gen 0) (runHist idLe {} c05_crashScript).st.store).map (fun r => (r.ref, r.created)) ==
    some (some (ID.gen 1), 1) &&
  (runHist idLe {} c05_crashScript).st.now > 400000000000 && (runHist idLe {} c05_crashScript).st.timers.isEmpty

end Sx.More
