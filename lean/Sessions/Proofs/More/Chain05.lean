import Sessions.Proofs.More.Chain05Inv
/-!
# C05 — replaced ids reach the live session during grace and nothing afterwards

T-local theorems (one operation, or `advance`, from a state), on top of the invariant trees `Sessions/Proofs/Inv`
(I0 + I1) and `Chain05Inv` (I3, the reference structure):

* §4 `c05_backstop`, `c05_backstop_start`, `c05_backstop_cached`, `c05_backstop_stored`, `c05_backstop_invalid`:
  a reference older than `idExpiry + grace` is deleted and answered with `"idexpired"`, timers or not.
* §3 `c05_cleanup_fireDue`, `c05_cleanup_advance`, `c05_regenerate_timer`, `c05_gone_after_grace`: the clean-up
  goroutines remove exactly the timers due and the records they name.
* §2 `RefAt`-chains (`Leads`, `Chain`), `c05_refAt_cacheGet`, `c05_leads_bound`, `c05_follow_leads`,
  `follow_fuel_enough`, `c05_chain_resolves`: during grace a chain of any length leads to the live session.

The history-level corollary of §3 is in `Chain05Hist.lean`.
-/
namespace Sx.More

/-! ## 0. small helpers -/

theorem c05_nofail_of_drop {s s' : State} (hnf : NoFail s) (h : ∃ n, s'.fails = s.fails.drop n) : NoFail s' := by
  obtain ⟨n, hn⟩ := h
  intro b hb
  rw [hn] at hb
  exact hnf b (List.mem_of_mem_drop hb)

/-- the state after a fault-free `cache.Delete(id)`: the key is gone from cache and store, one oracle entry is consumed. -/
def c05_delSt (s : State) (id : ID) : State := delS { s with cache := erase id s.cache } id

@[simp] theorem c05_delSt_cache (s : State) (id : ID) : (c05_delSt s id).cache = erase id s.cache := rfl
@[simp] theorem c05_delSt_store (s : State) (id : ID) : (c05_delSt s id).store = erase id s.store := rfl
@[simp] theorem c05_delSt_heap (s : State) (id : ID) : (c05_delSt s id).heap = s.heap := rfl
@[simp] theorem c05_delSt_nextId (s : State) (id : ID) : (c05_delSt s id).nextId = s.nextId := rfl
@[simp] theorem c05_delSt_now (s : State) (id : ID) : (c05_delSt s id).now = s.now := rfl
@[simp] theorem c05_delSt_timers (s : State) (id : ID) : (c05_delSt s id).timers = s.timers := rfl
theorem c05_delSt_nofail {s : State} (id : ID) (hnf : NoFail s) : NoFail (c05_delSt s id) := hnf.popF

/-! ## 4. the back-stop -/

/-- the equation behind `c05_backstop`. -/
theorem c05_backstop_eq (cfg : Cfg) (s1 : State) (id : ID) (h : Nat) (r : Req) (e1 : List Ev) (t : ID)
    (hnf : NoFail s1) (href : (s1.obj h).ref = some t) (hgr : 0 ≤ cfg.grace)
    (hage : since s1.now (s1.obj h).created ≥ cfg.idExpiry + cfg.grace) :
    startValid cfg s1 id h r e1 = (c05_delSt s1 id, .err "idexpired", e1 ++ [.del id]) := by
  have hage' : since s1.now (s1.obj h).created ≥ cfg.idExpiry ∧
      since s1.now (s1.obj h).created - cfg.idExpiry ≥ cfg.grace := by
    constructor <;> omega
  rw [Loc.startValid_ref_expired id r e1 href hage', Sx.cacheDelete_eq s1 id hnf]
  rfl

/-- **C05 (back-stop), on `startValid`.** The object `h` found under the presented id `id` is a reference
(`ref = some t`) whose age has reached `idExpiry + grace`. Then a fault-free `Start` deletes the record
under the presented id (cache entry and stored record; the event is `.del id`) and answers
`"idexpired"`: the chain is NOT followed, no session is returned, no cookie is sent, no id is minted.
Nothing is assumed about timers, the cache, the store or any invariant, so this also covers a
process that was restarted (timers lost) and records of any provenance.
Of the two sign conditions only `0 ≤ grace` is needed (`hgr`): the model's test is
`age ≥ idExpiry && age - idExpiry ≥ grace`, whose first conjunct follows from `age ≥ idExpiry + grace`
only when `grace` is not negative (see the `example` below). -/
theorem c05_backstop (cfg : Cfg) (s1 : State) (id : ID) (h : Nat) (r : Req) (e1 : List Ev) (t : ID)
    (hnf : NoFail s1) (href : (s1.obj h).ref = some t) (hgr : 0 ≤ cfg.grace)
    (hage : since s1.now (s1.obj h).created ≥ cfg.idExpiry + cfg.grace) :
    (startValid cfg s1 id h r e1).2.1 = .err "idexpired" ∧
    (startValid cfg s1 id h r e1).2.2 = e1 ++ [.del id] ∧
    lookup id (startValid cfg s1 id h r e1).1.cache = none ∧
    lookup id (startValid cfg s1 id h r e1).1.store = none ∧
    (startValid cfg s1 id h r e1).1.cache = erase id s1.cache ∧
    (startValid cfg s1 id h r e1).1.store = erase id s1.store ∧
    (startValid cfg s1 id h r e1).1.nextId = s1.nextId ∧
    (startValid cfg s1 id h r e1).1.heap = s1.heap ∧
    NoFail (startValid cfg s1 id h r e1).1 := by
  rw [c05_backstop_eq cfg s1 id h r e1 t hnf href hgr hage]
  exact ⟨rfl, rfl, Sx.lookup_erase_self _ _, Sx.lookup_erase_self _ _, rfl, rfl, rfl, rfl, c05_delSt_nofail id hnf⟩

/-- what a fault-free `cache.Get` of an id that is not cached but stored returns: a fresh handle whose
object is the decoded record (no invariant needed). -/
theorem c05_cacheGet_load (cfg : Cfg) (s : State) (id : ID) (rec : Rec) (hnf : NoFail s)
    (hc : lookup id s.cache = none) (hs : lookup id s.store = some rec) :
    (cacheGet cfg s id).2.1 = .some s.heap.length ∧
    (cacheGet cfg s id).1.obj s.heap.length = dec s.ver id rec ∧
    (cacheGet cfg s id).1.now = s.now := by
  rw [Loc.cacheGet_miss hc]
  obtain ⟨heq, _, _, hres⟩ := loadRec_spec s id hnf
  generalize loadRec s id = g at heq hres
  obtain ⟨s0, lr, e0⟩ := g
  simp only at heq hres
  rcases hres with ⟨hn, _⟩ | ⟨r', hl', rfl⟩
  · rw [hs] at hn; simp at hn
  · rw [hs] at hl'
    simp only [Option.some.injEq] at hl'
    subst hl'
    rw [Loc.getOf_found]
    have hlen : s0.heap.length = s.heap.length := by rw [heq.heap]
    split
    · refine ⟨by simp only [hlen], ?_, ?_⟩
      · show (compact cfg 1 (s0.alloc (dec s.ver id rec)).2).1.obj s.heap.length = _
        rw [(Loc.compact_flushed cfg 1 _).fr.obj, ← hlen, Loc.obj_alloc_new]
      · show (compact cfg 1 (s0.alloc (dec s.ver id rec)).2).1.now = _
        rw [(Loc.compact_flushed cfg 1 _).fr.now]; exact heq.now
    · refine ⟨by simp only [hlen], ?_, heq.now⟩
      show (s0.alloc (dec s.ver id rec)).2.obj s.heap.length = _
      rw [← hlen, Loc.obj_alloc_new]

/-- **C05 (back-stop), on `Start`.** The request presents `id` (24 bytes); the cache answers with the
object `h` (in state `s1`, after the events `e1`: a hit, or a load from the store), that object is a
reference whose age has reached `idExpiry + grace`, and it passes the validity test of `Start`
(`hv`; for the other case see `c05_backstop_invalid`). Then a fault-free `Start` answers `"idexpired"`,
its last event is `.del id`, and afterwards `id` is neither cached nor stored. -/
theorem c05_backstop_start (cfg : Cfg) (s s1 : State) (r : Req) (id t : ID) (h : Nat) (e1 : List Ev)
    (hc : r.cookie = some id) (hl : r.cookieLen = 24) (hnf : NoFail s)
    (hg : cacheGet cfg s id = (s1, .some h, e1))
    (href : (s1.obj h).ref = some t) (hgr : 0 ≤ cfg.grace)
    (hage : since s1.now (s1.obj h).created ≥ cfg.idExpiry + cfg.grace)
    (hv : validFor cfg s1.now (s1.obj h) r = true) :
    (start cfg s r).2.1 = .err "idexpired" ∧
    (start cfg s r).2.2 = e1 ++ [.del id] ∧
    lookup id (start cfg s r).1.cache = none ∧
    lookup id (start cfg s r).1.store = none ∧
    (start cfg s r).1.nextId = s.nextId ∧
    NoFail (start cfg s r).1 := by
  have hsp := Loc.cacheGet_spec cfg s id
  rw [hg] at hsp
  have hnf1 : NoFail s1 := c05_nofail_of_drop hnf hsp.fails_drop
  rw [Loc.start_valid hc hl hg hv]
  obtain ⟨h1, h2, h3, h4, _, _, h7, _, h9⟩ := c05_backstop cfg s1 id h r e1 t hnf1 href hgr hage
  exact ⟨h1, h2, h3, h4, h7.trans hsp.nextId, h9⟩

/-- … the presented id is cached (object `h`). -/
theorem c05_backstop_cached (cfg : Cfg) (s : State) (r : Req) (id t : ID) (h : Nat)
    (hc : r.cookie = some id) (hl : r.cookieLen = 24) (hnf : NoFail s)
    (hcache : lookup id s.cache = some h)
    (href : (s.obj h).ref = some t) (hgr : 0 ≤ cfg.grace)
    (hage : since s.now (s.obj h).created ≥ cfg.idExpiry + cfg.grace)
    (hv : validFor cfg s.now (s.obj h) r = true) :
    (start cfg s r).2.1 = .err "idexpired" ∧ (start cfg s r).2.2 = [.del id] ∧
    lookup id (start cfg s r).1.cache = none ∧ lookup id (start cfg s r).1.store = none := by
  obtain ⟨h1, h2, h3, h4, _⟩ :=
    c05_backstop_start cfg s s r id t h [] hc hl hnf (Loc.cacheGet_hit hcache) href hgr hage hv
  exact ⟨h1, by simpa using h2, h3, h4⟩

/-- … the presented id is not cached; its stored record `rec` is a reference old enough (e.g. after a
restart, when the clean-up goroutine of the replacement no longer exists). -/
theorem c05_backstop_stored (cfg : Cfg) (s : State) (r : Req) (id t : ID) (rec : Rec)
    (hc : r.cookie = some id) (hl : r.cookieLen = 24) (hnf : NoFail s)
    (hcache : lookup id s.cache = none) (hstore : lookup id s.store = some rec)
    (href : rec.ref = some t) (hgr : 0 ≤ cfg.grace)
    (hage : since s.now rec.created ≥ cfg.idExpiry + cfg.grace)
    (hv : validFor cfg s.now (dec s.ver id rec) r = true) :
    (start cfg s r).2.1 = .err "idexpired" ∧ Ev.del id ∈ (start cfg s r).2.2 ∧
    lookup id (start cfg s r).1.cache = none ∧ lookup id (start cfg s r).1.store = none := by
  obtain ⟨g1, g2, g3⟩ := c05_cacheGet_load cfg s id rec hnf hcache hstore
  generalize hG : cacheGet cfg s id = g at g1 g2 g3
  obtain ⟨s1, res, e1⟩ := g
  simp only at g1 g2 g3
  subst g1
  obtain ⟨h1, h2, h3, h4, _⟩ :=
    c05_backstop_start cfg s s1 r id t s.heap.length e1 hc hl hnf hG (by rw [g2]; exact href) hgr
      (by rw [g2, g3]; exact hage) (by rw [g2, g3]; exact hv)
  exact ⟨h1, by rw [h2]; simp, h3, h4⟩

/-- **C05 (back-stop), the other branch.** When the reference object found under the presented id
fails the validity test (stale `lastAccess`, address, fingerprint) it is not resolved either: a
fault-free `Start` destroys it (`.del id`, deletion cookie) and goes on to `createNew`; whatever that
returns, it is not a session that existed before. `hkey` (the found object's id is the presented id;
`Inv.wf`/`GetPost.res` provide it) is needed because `Destroy` deletes `s.id`. This holds for every
age, expired or not. -/
theorem c05_backstop_invalid (cfg : Cfg) (s s1 : State) (r : Req) (id : ID) (h : Nat) (e1 : List Ev)
    (hc : r.cookie = some id) (hl : r.cookieLen = 24) (hnf : NoFail s)
    (hg : cacheGet cfg s id = (s1, .some h, e1)) (hkey : (s1.obj h).id = id)
    (hv : validFor cfg s1.now (s1.obj h) r = false) :
    start cfg s r = createNew cfg (c05_delSt s1 id) r (e1 ++ [.del id, .delCookie]) ∧
    (∀ h', h' < s1.heap.length → (start cfg s r).2.1 ≠ .sess h') ∧
    Ev.del id ∈ (start cfg s r).2.2 ∧ Ev.delCookie ∈ (start cfg s r).2.2 := by
  have hsp := Loc.cacheGet_spec cfg s id
  rw [hg] at hsp
  have hnf1 : NoFail s1 := c05_nofail_of_drop hnf hsp.fails_drop
  have heq : start cfg s r = createNew cfg (c05_delSt s1 id) r (e1 ++ [.del id, .delCookie]) := by
    rw [Loc.start_invalid hc hl hg hv, Loc.startInvalid, Loc.destroy_eq, hkey, Sx.cacheDelete_eq s1 id hnf1]
    simp
    rfl
  refine ⟨heq, ?_, ?_, ?_⟩
  · intro h' hh'
    rw [heq]
    exact Loc.createNew_res_ne cfg _ r _ (by simpa using hh')
  · rw [heq]; exact Loc.createNew_pre_mem cfg _ r (by simp)
  · rw [heq]; exact Loc.createNew_pre_mem cfg _ r (by simp)

/-! ### non-vacuity of the back-stop, and why `hgr` is there -/

/-- `exS2` (a session under `gen 1`, a reference record under `gen 0`) after a restart — cache and
timers are lost, the clean-up goroutine will never run — and more than `idExpiry + grace` later. -/
def c05_exLate : State := { crashState exS2 with now := 4000000000000 }

example : c05_exLate.timers = [] ∧ c05_exLate.cache = [] ∧
    lookup (.gen 0) c05_exLate.store = some { created := 0, lastAccess := 0, ref := some (.gen 1) } := by decide

/-- the hypotheses of `c05_backstop_stored` hold in `c05_exLate` … -/
example :
    (start exCfg c05_exLate { cookie := some (.gen 0), cookieLen := 24 }).2.1 = .err "idexpired" ∧
    Ev.del (.gen 0) ∈ (start exCfg c05_exLate { cookie := some (.gen 0), cookieLen := 24 }).2.2 ∧
    lookup (.gen 0) (start exCfg c05_exLate { cookie := some (.gen 0), cookieLen := 24 }).1.cache = none ∧
    lookup (.gen 0) (start exCfg c05_exLate { cookie := some (.gen 0), cookieLen := 24 }).1.store = none :=
  c05_backstop_stored exCfg c05_exLate _ (.gen 0) (.gen 1) { created := 0, lastAccess := 0, ref := some (.gen 1) }
    rfl rfl (noFail_of_nil rfl) (by decide) (by decide) rfl (by decide) (by decide) (by decide)

/-- … and the conclusion is what the model computes (events included). -/
example : (start exCfg c05_exLate { cookie := some (.gen 0), cookieLen := 24 }).2 =
    (.err "idexpired", [.load (.gen 0) true, .del (.gen 0)]) ∧
    (start exCfg c05_exLate { cookie := some (.gen 0), cookieLen := 24 }).1.store = [(.gen 1, { created := 0, lastAccess := 0 })] := by
  decide

/-- the cached case: the same long wait without a restart but with the timer lost
(`c05_backstop_cached`). -/
example : (start exCfg { exS2 with now := 4000000000000, timers := [] } { cookie := some (.gen 0), cookieLen := 24 }).2.1
      = .err "idexpired" :=
  (c05_backstop_cached exCfg { exS2 with now := 4000000000000, timers := [] } _ (.gen 0) (.gen 1) 1
    rfl rfl (noFail_of_nil rfl) (by decide) (by decide) (by decide) (by decide) (by decide)).1

/-- **`hgr` cannot be dropped.** With a negative grace period, `age ≥ idExpiry + grace` does not imply the
model's test `age ≥ idExpiry && age - idExpiry ≥ grace`: here `idExpiry = 100`, `grace = -50`, age 60; the
reference is still followed and the live session is returned. -/
example :
    let cfg : Cfg := { exCfg with idExpiry := 100, grace := -50 }
    let s : State := { exS2 with now := 60 }
    (s.obj 1).ref = some (.gen 1) ∧ since s.now (s.obj 1).created ≥ cfg.idExpiry + cfg.grace ∧
    (startValid cfg s (.gen 0) 1 {} []).2.1 = .sess 0 := by decide

/-! ## 3. the clean-up goroutines -/

/-- running the clean-up deletions of a list of timers, in order. -/
def c05_bgAll (l : List (Int × ID)) (s : State) : State := l.foldl (fun acc t => bgDelete acc t.2) s

theorem c05_bgAll_nil (s : State) : c05_bgAll [] s = s := rfl
theorem c05_bgAll_cons (a : Int × ID) (l : List (Int × ID)) (s : State) :
    c05_bgAll (a :: l) s = c05_bgAll l (bgDelete s a.2) := rfl

/-- the loop of `fireDue`, state and events separately. -/
theorem c05_fireLoop (now : Int) (l : List (Int × ID)) (s0 : State) (e0 : List Ev) :
    l.foldl (fun (acc : State × List Ev) t => (bgDelete acc.1 t.2, acc.2 ++ [Ev.bg (max t.1 now) t.2])) (s0, e0) =
      (c05_bgAll l s0, e0 ++ l.map (fun t => Ev.bg (max t.1 now) t.2)) := by
  induction l generalizing s0 e0 with
  | nil => simp [c05_bgAll]
  | cons a r ih => simp only [List.foldl_cons, ih, c05_bgAll_cons, List.map_cons, List.append_assoc, List.singleton_append]

/-- the timers due at `target`, in the order the model runs them. -/
def c05_due (s : State) (target : Int) : List (Int × ID) :=
  (s.timers.filter (fun t => t.1 ≤ target)).mergeSort (fun a b => a.1 ≤ b.1)

theorem c05_mem_due {s : State} {target : Int} {p : Int × ID} : p ∈ c05_due s target ↔ p ∈ s.timers ∧ p.1 ≤ target := by
  unfold c05_due
  rw [List.mem_mergeSort, List.mem_filter]
  simp

/-- `fireDue`, spelled out. -/
theorem c05_fireDue_eq (s : State) (target : Int) :
    fireDue s target =
      (c05_bgAll (c05_due s target) { s with timers := s.timers.filter (fun t => ¬ t.1 ≤ target) },
       (c05_due s target).map (fun t => Ev.bg (max t.1 s.now) t.2)) := by
  unfold fireDue
  simp only []
  rw [c05_fireLoop]
  rfl

/-- what the deletions leave alone: everything but cache and store. -/
theorem c05_bgAll_frame (l : List (Int × ID)) (s : State) :
    (c05_bgAll l s).timers = s.timers ∧ (c05_bgAll l s).heap = s.heap ∧ (c05_bgAll l s).now = s.now ∧
    (c05_bgAll l s).nextId = s.nextId ∧ (c05_bgAll l s).vers = s.vers ∧ (c05_bgAll l s).extra = s.extra ∧
    (c05_bgAll l s).fails = s.fails ∧ (c05_bgAll l s).picks = s.picks := by
  induction l generalizing s with
  | nil => exact ⟨rfl, rfl, rfl, rfl, rfl, rfl, rfl, rfl⟩
  | cons a r ih => rw [c05_bgAll_cons]; exact ih (bgDelete s a.2)

/-- a key that is absent stays absent (nothing in the loop creates records). -/
theorem c05_bgAll_keeps_none (l : List (Int × ID)) (s : State) (k : ID) :
    (lookup k s.cache = none → lookup k (c05_bgAll l s).cache = none) ∧
    (lookup k s.store = none → lookup k (c05_bgAll l s).store = none) := by
  induction l generalizing s with
  | nil => exact ⟨id, id⟩
  | cons a r ih =>
    rw [c05_bgAll_cons]
    obtain ⟨h1, h2⟩ := ih (bgDelete s a.2)
    constructor
    · intro h; apply h1
      show lookup k (erase a.2 s.cache) = none
      rw [Loc.lookup_erase]; split <;> simp [h]
    · intro h; apply h2
      show lookup k (erase a.2 s.store) = none
      rw [Loc.lookup_erase]; split <;> simp [h]

/-- every id in the list is gone afterwards … -/
theorem c05_bgAll_gone (l : List (Int × ID)) (s : State) (p : Int × ID) (hp : p ∈ l) :
    lookup p.2 (c05_bgAll l s).cache = none ∧ lookup p.2 (c05_bgAll l s).store = none := by
  induction l generalizing s with
  | nil => simp at hp
  | cons a r ih =>
    rw [c05_bgAll_cons]
    rcases List.mem_cons.mp hp with e | hr
    · subst e
      obtain ⟨h1, h2⟩ := c05_bgAll_keeps_none r (bgDelete s p.2) p.2
      exact ⟨h1 (Sx.lookup_erase_self _ _), h2 (Sx.lookup_erase_self _ _)⟩
    · exact ih _ hr

/-- … and every other key is untouched. -/
theorem c05_bgAll_other (l : List (Int × ID)) (s : State) (k : ID) (hk : ∀ p ∈ l, p.2 ≠ k) :
    lookup k (c05_bgAll l s).cache = lookup k s.cache ∧ lookup k (c05_bgAll l s).store = lookup k s.store := by
  induction l generalizing s with
  | nil => exact ⟨rfl, rfl⟩
  | cons a r ih =>
    rw [c05_bgAll_cons]
    obtain ⟨h1, h2⟩ := ih (bgDelete s a.2) (fun p hp => hk p (List.mem_cons_of_mem _ hp))
    have hne : k ≠ a.2 := fun e => hk a List.mem_cons_self e.symm
    rw [h1, h2]
    exact ⟨Sx.lookup_erase_ne _ hne, Sx.lookup_erase_ne _ hne⟩

/-- **C05 (clean-up) for `fireDue`.**
1. exactly the timers due (deadline `≤ target`) are removed from the timer list;
2. for every timer that fired, its id is afterwards neither cached nor stored (later clean-ups in the same
   batch cannot bring it back: nothing inside `fireDue` creates records);
3. ids no due timer names keep their cache entry and their record;
4. one `.bg` event per due timer; heap, clock, id counter are untouched. -/
theorem c05_cleanup_fireDue (s : State) (target : Int) :
    (fireDue s target).1.timers = s.timers.filter (fun t => ¬ t.1 ≤ target) ∧
    (∀ t id, (t, id) ∈ s.timers → t ≤ target →
      lookup id (fireDue s target).1.cache = none ∧ lookup id (fireDue s target).1.store = none) ∧
    (∀ k, (∀ t id, (t, id) ∈ s.timers → t ≤ target → id ≠ k) →
      lookup k (fireDue s target).1.cache = lookup k s.cache ∧ lookup k (fireDue s target).1.store = lookup k s.store) ∧
    (fireDue s target).2 = (c05_due s target).map (fun t => Ev.bg (max t.1 s.now) t.2) ∧
    (fireDue s target).1.heap = s.heap ∧ (fireDue s target).1.now = s.now ∧ (fireDue s target).1.nextId = s.nextId := by
  rw [c05_fireDue_eq]
  obtain ⟨f1, f2, f3, f4, _⟩ := c05_bgAll_frame (c05_due s target) { s with timers := s.timers.filter (fun t => ¬ t.1 ≤ target) }
  refine ⟨f1, ?_, ?_, rfl, f2, f3, f4⟩
  · intro t id hm ht
    exact c05_bgAll_gone _ _ (t, id) (c05_mem_due.mpr ⟨hm, ht⟩)
  · intro k hk
    exact c05_bgAll_other _ _ k (fun p hp => hk p.1 p.2 (c05_mem_due.mp hp).1 (c05_mem_due.mp hp).2)

/-- the timers that remain after `fireDue` are exactly the ones not yet due. -/
theorem c05_fireDue_mem_timers (s : State) (target : Int) (p : Int × ID) :
    p ∈ (fireDue s target).1.timers ↔ p ∈ s.timers ∧ target < p.1 := by
  rw [(c05_cleanup_fireDue s target).1, List.mem_filter]
  simp only [decide_eq_true_eq, Int.not_le]

/-- **C05 (clean-up) for `advance`** (a `wait d`, or the 1 ns tick after an API call): the clock is
`now + d`; the remaining timers are exactly those with a deadline after the new clock — none with a
deadline `≤ now + d` is left; every timer with a deadline `≤ now + d` has had its id removed from
cache and store; ids not named by such a timer are untouched. -/
theorem c05_cleanup_advance (s : State) (d : Int) :
    (advance s d).1.now = s.now + d ∧
    (advance s d).1.timers = s.timers.filter (fun t => ¬ t.1 ≤ s.now + d) ∧
    (∀ p ∈ (advance s d).1.timers, (advance s d).1.now < p.1) ∧
    (∀ t id, (t, id) ∈ s.timers → t ≤ s.now + d →
      lookup id (advance s d).1.cache = none ∧ lookup id (advance s d).1.store = none) ∧
    (∀ k, (∀ t id, (t, id) ∈ s.timers → t ≤ s.now + d → id ≠ k) →
      lookup k (advance s d).1.cache = lookup k s.cache ∧ lookup k (advance s d).1.store = lookup k s.store) := by
  rw [advance_fst]
  obtain ⟨h1, h2, h3, _⟩ := c05_cleanup_fireDue s (s.now + d)
  refine ⟨rfl, h1, ?_, h2, h3⟩
  intro p hp
  exact ((c05_fireDue_mem_timers s (s.now + d) p).mp hp).2

/-- every successful `RegenerateID` (any oracle, any state) arms the clean-up timer of the old id. -/
theorem c05_regenerate_timer (cfg : Cfg) (s : State) (h : Nat) (hok : (regenerate cfg s h).2.1 = true) :
    (regenerate cfg s h).1.timers = s.timers ++ [(s.now + cfg.grace, (s.obj h).id)] ∧
    (regenerate cfg s h).1.now = s.now := by
  refine ⟨?_, Loc.regenerate_now cfg s h⟩
  rw [(Loc.regenerate_state_ok cfg s h hok).1]
  show (Loc.regenB cfg s h).1.timers ++ _ = _
  rw [(Loc.regenB_fr cfg s h).2.2.1, (Loc.regenB_fr cfg s h).1]

/-- **C05 (gone after grace, T-local).** A successful `RegenerateID` of the session `h` at time `t0 = s.now`
(whatever the state and the oracles), then time passes by `d ≥ grace` in the running process with no other
operation in between (`advance`: a `wait`, which runs the clean-up goroutines that come due): the
old id is in neither the cache nor the store; in particular its reference record is gone. -/
theorem c05_gone_after_grace (cfg : Cfg) (s : State) (h : Nat) (d : Int)
    (hok : (regenerate cfg s h).2.1 = true) (hd : cfg.grace ≤ d) :
    lookup (s.obj h).id (advance (regenerate cfg s h).1 d).1.cache = none ∧
    lookup (s.obj h).id (advance (regenerate cfg s h).1 d).1.store = none ∧
    (advance (regenerate cfg s h).1 d).1.now = s.now + d := by
  obtain ⟨ht, hn⟩ := c05_regenerate_timer cfg s h hok
  obtain ⟨a1, _, _, a4, _⟩ := c05_cleanup_advance (regenerate cfg s h).1 d
  obtain ⟨g1, g2⟩ := a4 (s.now + cfg.grace) (s.obj h).id (by rw [ht]; simp) (by rw [hn]; omega)
  exact ⟨g1, g2, by rw [a1, hn]⟩

/-- … in the fault-free setting of the invariant tree `RegenerateID` does succeed. -/
theorem c05_gone_after_grace_inv (cfg : Cfg) (s : State) (h : Nat) (d : Int)
    (hnf : NoFail s) (hl : HL s h) (hi : Inv cfg.codec s) (hd : cfg.grace ≤ d) :
    lookup (s.obj h).id (advance (regenerate cfg s h).1 d).1.cache = none ∧
    lookup (s.obj h).id (advance (regenerate cfg s h).1 d).1.store = none :=
  let ⟨a, b, _⟩ := c05_gone_after_grace cfg s h d (Sx.regenerate_spec cfg s h hnf hl hi).ok hd
  ⟨a, b⟩

/-! ### non-vacuity of the clean-up theorems -/

/-- `c05_gone_after_grace` applies to the replacement `exS1 ⟶ exS2` (old id `gen 0`, grace 300 s). -/
example : lookup (.gen 0) (advance exS2 300000000000).1.cache = none ∧
    lookup (.gen 0) (advance exS2 300000000000).1.store = none := by
  have h := c05_gone_after_grace exCfg exS1 0 300000000000 (by decide) (by decide)
  have e : (exS1.obj 0).id = .gen 0 := by decide
  rw [e] at h
  exact ⟨h.1, h.2.1⟩

-- evaluation (`fireDue` sorts with `List.mergeSort`, which the kernel does not unfold):
-- at the deadline the record and the timer are gone, one nanosecond earlier both are still there,
-- and the live session `gen 1` is untouched.
#guard (advance exS2 300000000000).1.timers.isEmpty && (lookup (ID.gen 0) (advance exS2 300000000000).1.store).isNone &&
  (lookup (ID.gen 0) (advance exS2 300000000000).1.cache).isNone && (lookup (ID.gen 1) (advance exS2 300000000000).1.store).isSome
#guard (advance exS2 299999999999).1.timers.length == 1 && (lookup (ID.gen 0) (advance exS2 299999999999).1.store).isSome &&
  (lookup (ID.gen 0) (advance exS2 299999999999).1.cache).isSome
#guard (advance exS2 300000000000).2 == [Ev.bg 300000000000 (ID.gen 0)]

/-! ## 2. during grace the chain resolves -/

/-- the object `cache.Get k` hands out in state `s`: the cached one, else the decoding of the stored record. -/
def PresObj (s : State) (k : ID) (o : Sess) : Prop :=
  (∃ h, lookup k s.cache = some h ∧ o = s.obj h) ∨
  (lookup k s.cache = none ∧ ∃ r, lookup k s.store = some r ∧ o = dec s.ver k r)

theorem c05_presObj_refAt {s : State} {k : ID} {o : Sess} (h : PresObj s k o) : RefAt s k o.ref := by
  rcases h with ⟨x, hl, rfl⟩ | ⟨hn, r, hl, rfl⟩
  · exact Or.inl ⟨x, hl, rfl⟩
  · exact Or.inr ⟨hn, r, hl, rfl⟩

theorem c05_refAt_unique {s : State} {k : ID} {t t' : Option ID} (h : RefAt s k t) (h' : RefAt s k t') : t = t' := by
  rcases h with ⟨x, hl, hr⟩ | ⟨hn, r, hl, hr⟩ <;> rcases h' with ⟨x', hl', hr'⟩ | ⟨hn', r', hl', hr'⟩
  · rw [hl] at hl'; simp only [Option.some.injEq] at hl'; subst hl'; rw [← hr, ← hr']
  · rw [hl] at hn'; simp at hn'
  · rw [hl'] at hn; simp at hn
  · rw [hl] at hl'; simp only [Option.some.injEq] at hl'; subst hl'; rw [← hr, ← hr']

theorem c05_refAt_presObj {c : Codec} {s : State} (hinv : Inv c s) {k : ID} {t : Option ID} (h : RefAt s k t) :
    ∃ o, PresObj s k o ∧ o.ref = t ∧ o.id = k := by
  rcases h with ⟨x, hl, hr⟩ | ⟨hn, r, hl, hr⟩
  · exact ⟨s.obj x, Or.inl ⟨x, hl, rfl⟩, hr, hinv.wf k x (Sx.lookup_some_mem hl) (by simp)⟩
  · exact ⟨dec s.ver k r, Or.inr ⟨hn, r, hl, rfl⟩, hr, rfl⟩

/-- a fault-free `cache.Get k` returns a handle to exactly that object (no invariant needed). -/
theorem c05_cacheGet_pres (cfg : Cfg) (s : State) (k : ID) (o : Sess) (hnf : NoFail s) (hp : PresObj s k o) :
    ∃ h, (cacheGet cfg s k).2.1 = .some h ∧ (cacheGet cfg s k).1.obj h = o ∧ (cacheGet cfg s k).1.now = s.now := by
  rcases hp with ⟨x, hl, rfl⟩ | ⟨hn, r, hl, rfl⟩
  · rw [Loc.cacheGet_hit hl]; exact ⟨x, rfl, rfl, rfl⟩
  · exact ⟨s.heap.length, c05_cacheGet_load cfg s k r hnf hn hl⟩

theorem c05_cacheGet_refAt (cfg : Cfg) (s : State) (k : ID) (t : Option ID) (hnf : NoFail s) (hinv : Inv cfg.codec s)
    (h : RefAt s k t) :
    ∃ h2, (cacheGet cfg s k).2.1 = .some h2 ∧ ((cacheGet cfg s k).1.obj h2).id = k ∧ ((cacheGet cfg s k).1.obj h2).ref = t := by
  obtain ⟨o, hp, hr, hid⟩ := c05_refAt_presObj hinv h
  obtain ⟨h2, g1, g2, _⟩ := c05_cacheGet_pres cfg s k o hnf hp
  exact ⟨h2, g1, by rw [g2]; exact hid, by rw [g2]; exact hr⟩

/-- **`cache.Get id` leaves the records of the OTHER ids as they are**, as far as references are concerned (under
`Inv`): the compaction inside `Get` may move an entry from the cache to the store, but the flushed record has the
cached object's reference (and `Inv.coh` says the stored record already agreed with it). -/
theorem c05_refAt_cacheGet (cfg : Cfg) {s : State} (hinv : Inv cfg.codec s) {id k : ID} {t : Option ID} (hne : k ≠ id)
    (h : RefAt s k t) : RefAt (cacheGet cfg s id).1 k t := by
  have sp := Loc.cacheGet_spec cfg s id
  generalize cacheGet cfg s id = g at sp
  obtain ⟨s', res, evs⟩ := g
  simp only at sp ⊢
  rcases h with ⟨x, hl, hr⟩ | ⟨hn, r, hlr, hr⟩
  · have hm : (k, x) ∈ s.cache := Sx.lookup_some_mem hl
    have hobj : s'.obj x = s.obj x := sp.obj_old x (hinv.valid k x hm)
    rcases sp.cache_lk k hne with h1 | h1
    · exact Or.inl ⟨x, by rw [h1]; exact hl, by rw [hobj]; exact hr⟩
    · refine Or.inr ⟨h1, ?_⟩
      obtain ⟨r, hlr, he⟩ := hinv.coh k x hm (by simp)
      have href : r.ref = (s.obj x).ref := by
        have := congrArg (fun e => e.2.2.1) he
        simpa [ess] using this.symm
      rcases sp.store_lk k with h2 | ⟨x', hm', h2⟩
      · exact ⟨r, by rw [h2]; exact hlr, by rw [href]; exact hr⟩
      · have hx : x' = x := hinv.uniq hm' hm
        subst hx
        exact ⟨_, h2, by rw [enc_ref, hobj]; exact hr⟩
  · refine Or.inr ⟨?_, ?_⟩
    · rcases sp.cache_lk k hne with h1 | h1
      · rw [h1]; exact hn
      · exact h1
    · rcases sp.store_lk k with h2 | ⟨x', hm', h2⟩
      · exact ⟨r, by rw [h2]; exact hlr, hr⟩
      · exact absurd hm' (Sx.lookup_none_not_mem hn x')

/-- `Leads s k l cur`: the record under `k` is a reference to the first element of `l`, the record under each
element of `l` is a reference to the next one, and the last element of `l` is `cur`, whose record is a session
proper; `l = []` means that `k = cur` is itself that session. (`l` lists the successive targets; the keys
visited are `k :: l`.) "The record under an id" is what `cache.Get` finds: `RefAt`. -/
def Leads (s : State) : ID → List ID → ID → Prop
  | k, [], cur => k = cur ∧ RefAt s cur none
  | k, m :: l, cur => RefAt s k (some m) ∧ Leads s m l cur

/-- **the chain** from the presented id through the intermediate ids `mids` to the live session `cur`:
every id on it has its record in the cache (object) or the store (record), each is a reference to the next, the
last is a session proper under `cur`. The presented id is a reference, so there is at least one link. -/
def Chain (s : State) (id : ID) (mids : List ID) (cur : ID) : Prop := Leads s id (mids ++ [cur]) cur

theorem c05_leads_reach {s : State} : ∀ (l : List ID) (k cur : ID), Leads s k l cur →
    ∀ x ∈ l, Relation.TransGen (RefStep s) k x
  | [], _, _, _, x, hx => by simp at hx
  | m :: l, k, cur, ⟨h1, h2⟩, x, hx => by
    rcases List.mem_cons.mp hx with rfl | hx
    · exact .single (show RefStep s k x from h1)
    · exact (Relation.TransGen.single (show RefStep s k m from h1)).trans (c05_leads_reach l m cur h2 x hx)

/-- the ids on a chain are pairwise distinct (by I3 their minted indices increase strictly). -/
theorem c05_leads_nodup {s : State} (hi : I3 s) : ∀ (l : List ID) (k cur : ID), Leads s k l cur → (k :: l).Nodup
  | [], _, _, _ => by simp
  | m :: l, k, cur, hL => by
    refine List.nodup_cons.mpr ⟨?_, c05_leads_nodup hi l m cur hL.2⟩
    intro hk
    exact i3_acyclic hi k (c05_leads_reach (m :: l) k cur hL k hk)

theorem c05_refAt_stored {c : Codec} {s : State} (hinv : Inv c s) {k : ID} {t : Option ID} (h : RefAt s k t) :
    k ∈ keys s.store := by
  rcases h with ⟨x, hl, _⟩ | ⟨_, r, hl, _⟩
  · obtain ⟨r, hlr, _⟩ := hinv.coh k x (Sx.lookup_some_mem hl) (by simp)
    exact mem_keys_of_mem (Sx.lookup_some_mem hlr)
  · exact mem_keys_of_mem (Sx.lookup_some_mem hl)

theorem c05_leads_stored {c : Codec} {s : State} (hinv : Inv c s) : ∀ (l : List ID) (k cur : ID), Leads s k l cur →
    ∀ x ∈ k :: l, x ∈ keys s.store
  | [], k, cur, ⟨e, h⟩, x, hx => by
    simp only [List.mem_singleton] at hx
    rw [hx, e]; exact c05_refAt_stored hinv h
  | m :: l, k, cur, ⟨h1, h2⟩, x, hx => by
    rcases List.mem_cons.mp hx with rfl | hx
    · exact c05_refAt_stored hinv h1
    · exact c05_leads_stored hinv l m cur h2 x hx

/-- **a chain is never longer than the store**: its ids are distinct keys of the store (a cached id is stored
too, `Inv.coh`). This is what makes the fuel of `follow` — `store.length + cache.length + 1` — sufficient. -/
theorem c05_leads_bound {c : Codec} {s : State} (hinv : Inv c s) (hi : I3 s) (l : List ID) (k cur : ID)
    (hL : Leads s k l cur) : l.length + 1 ≤ s.store.length := by
  have h := List.Nodup.length_le_of_subset (c05_leads_nodup hi l k cur hL) (fun x hx => c05_leads_stored hinv l k cur hL x hx)
  simpa [keys] using h

/-- the rest of the chain still exists after a `cache.Get` of an id that is not on it. -/
theorem c05_leads_cacheGet (cfg : Cfg) {s : State} (hinv : Inv cfg.codec s) (id : ID) : ∀ (l : List ID) (k cur : ID),
    (∀ x ∈ k :: l, x ≠ id) → Leads s k l cur → Leads (cacheGet cfg s id).1 k l cur
  | [], k, cur, hne, ⟨e, h⟩ => ⟨e, c05_refAt_cacheGet cfg hinv (by rw [← e]; exact hne k (by simp)) h⟩
  | m :: l, k, cur, hne, ⟨h1, h2⟩ =>
    ⟨c05_refAt_cacheGet cfg hinv (hne k (by simp)) h1,
     c05_leads_cacheGet cfg hinv id l m cur (fun x hx => hne x (List.mem_cons_of_mem _ hx)) h2⟩

/-- **following a chain of any length.** `h` is a reference object pointing to `m`; from `m` the chain `l` leads to
the session proper `cur`; the fuel covers the chain. Then a fault-free `follow` ends at a handle whose object is
the session `cur`. -/
theorem c05_follow_leads (cfg : Cfg) : ∀ (l : List ID) (n : Nat) (s : State) (h : Nat) (m cur : ID),
    NoFail s → Inv cfg.codec s → I3 s → (s.obj h).ref = some m → Leads s m l cur → l.length + 2 ≤ n →
    ∃ h2, (follow cfg n s h).2.1 = .some h2 ∧ ((follow cfg n s h).1.obj h2).id = cur ∧
      ((follow cfg n s h).1.obj h2).ref = none := by
  intro l
  induction l with
  | nil =>
    intro n s h m cur hnf hinv hi href hL hn
    obtain ⟨rfl, hR⟩ := hL
    obtain ⟨n', rfl⟩ : ∃ n', n = n' + 1 := ⟨n - 1, by omega⟩
    rw [Loc.follow_succ_some n' href]
    obtain ⟨h2, g1, g2, g3⟩ := c05_cacheGet_refAt cfg s m none hnf hinv hR
    generalize cacheGet cfg s m = g at g1 g2 g3
    obtain ⟨s1, res, e1⟩ := g
    simp only at g1 g2 g3
    subst g1
    obtain ⟨n'', rfl⟩ : ∃ n'', n' = n'' + 1 := ⟨n' - 1, by omega⟩
    simp only [Loc.followStep]
    rw [Loc.follow_succ_none n'' g3]
    exact ⟨h2, rfl, g2, g3⟩
  | cons m' l' ih =>
    intro n s h m cur hnf hinv hi href hL hn
    have hnd := c05_leads_nodup hi (m' :: l') m cur hL
    obtain ⟨hR, hL'⟩ := hL
    obtain ⟨n', rfl⟩ : ∃ n', n = n' + 1 := ⟨n - 1, by omega⟩
    rw [Loc.follow_succ_some n' href]
    obtain ⟨h2, g1, g2, g3⟩ := c05_cacheGet_refAt cfg s m (some m') hnf hinv hR
    have hL1 := c05_leads_cacheGet cfg hinv m l' m' cur
      (fun x hx e => (List.nodup_cons.mp hnd).1 (e ▸ hx)) hL'
    have hP := Sx.cacheGet_spec cfg s m hnf hinv
    have hI := (i3_cacheGet cfg hi m).1
    generalize cacheGet cfg s m = g at g1 g2 g3 hL1 hP hI
    obtain ⟨s1, res, e1⟩ := g
    simp only at g1 g2 g3 hL1 hI
    subst g1
    simp only [Loc.followStep]
    have hn' : l'.length + 2 ≤ n' := by simp only [List.length_cons] at hn; omega
    exact ih n' s1 h2 m' cur hP.step.nofail hP.inv hI g3 hL1 hn'

/-- **the fuel of `follow` is enough** (`Inv ∧ I3`, fault-free): with the fuel `Start` passes,
`store.length + cache.length + 1`, following a chain whose records all exist never stops for lack of fuel, however
long the chain is — it ends at the live session. -/
theorem follow_fuel_enough (cfg : Cfg) (s : State) (h : Nat) (m cur : ID) (l : List ID) (hnf : NoFail s)
    (hinv : Inv cfg.codec s) (hi : I3 s) (href : (s.obj h).ref = some m) (hL : Leads s m l cur) :
    ∃ h2, (follow cfg (s.store.length + s.cache.length + 1) s h).2.1 = .some h2 ∧
      ((follow cfg (s.store.length + s.cache.length + 1) s h).1.obj h2).id = cur ∧
      ((follow cfg (s.store.length + s.cache.length + 1) s h).1.obj h2).ref = none := by
  have hb := c05_leads_bound hinv hi l m cur hL
  exact c05_follow_leads cfg l _ s h m cur hnf hinv hi href hL (by omega)

/-- **C05 (during grace the chain resolves).** In a state satisfying `Inv ∧ I3`, fault-free: the request presents
`id` (24 bytes); `o` is the object `cache.Get id` finds (cached, or the decoded stored record); it passes the
validity test of `Start` (`hv`) and the back-stop does not fire (`hgrace`: NOT `age ≥ idExpiry ∧ age - idExpiry ≥
grace`); and from `id` a chain of references — of ANY length: `mids` are the intermediate ids — leads to the
session proper `cur`. Then `Start` returns a session `h` that is not a reference, whose id is `cur`, with a
non-nil data map; the last event is `setCookie cur`, and it is the only cookie event: the client's jar is moved
from the replaced id to the current one. -/
theorem c05_chain_resolves (cfg : Cfg) (s : State) (r : Req) (id cur : ID) (mids : List ID) (o : Sess)
    (hc : r.cookie = some id) (hl : r.cookieLen = 24) (hnf : NoFail s) (hinv : Inv cfg.codec s) (hi : I3 s)
    (hobj : PresObj s id o) (hv : validFor cfg s.now o r = true)
    (hgrace : ¬ (since s.now o.created ≥ cfg.idExpiry ∧ since s.now o.created - cfg.idExpiry ≥ cfg.grace))
    (hchain : Chain s id mids cur) :
    ∃ h, (start cfg s r).2.1 = .sess h ∧
      ((start cfg s r).1.obj h).ref = none ∧
      ((start cfg s r).1.obj h).id = cur ∧
      ((start cfg s r).1.obj h).data ≠ none ∧
      (start cfg s r).2.2.getLast? = some (.setCookie cur) ∧
      (start cfg s r).2.2.filter isCookie = [.setCookie cur] := by
  -- the first link
  unfold Chain at hchain
  obtain ⟨m0, rest, hmr⟩ : ∃ m0 rest, mids ++ [cur] = m0 :: rest := by
    cases mids with
    | nil => exact ⟨cur, [], rfl⟩
    | cons a b => exact ⟨a, b ++ [cur], rfl⟩
  rw [hmr] at hchain
  have hnd := c05_leads_nodup hi (m0 :: rest) id cur hchain
  obtain ⟨hR, hL⟩ := hchain
  have horef : o.ref = some m0 := c05_refAt_unique (c05_presObj_refAt hobj) hR
  -- the `cache.Get` of the presented id
  obtain ⟨h, g1, g2, g3⟩ := c05_cacheGet_pres cfg s id o hnf hobj
  have hL1 := c05_leads_cacheGet cfg hinv id rest m0 cur (fun x hx e => (List.nodup_cons.mp hnd).1 (e ▸ hx)) hL
  have hP := Sx.cacheGet_spec cfg s id hnf hinv
  have hI := (i3_cacheGet cfg hi id).1
  have hE1 : (cacheGet cfg s id).2.2.filter isCookie = [] := Loc.cookieEvs_cacheGet cfg s id
  generalize hG : cacheGet cfg s id = g at g1 g2 g3 hL1 hP hI hE1
  obtain ⟨s1, res, e1⟩ := g
  simp only at g1 g2 g3 hL1 hI hE1
  subst g1
  have href1 : (s1.obj h).ref = some m0 := by rw [g2]; exact horef
  rw [Loc.start_valid hc hl hG (by rw [g2, g3]; exact hv),
    Loc.startValid_ref id r e1 href1 (by rw [g2, g3]; exact hgrace)]
  -- following the rest
  obtain ⟨h2, f1, f2, f3⟩ := follow_fuel_enough cfg s1 h m0 cur rest hP.step.nofail hP.inv hI href1 hL1
  have hF := i3_follow cfg (s1.store.length + s1.cache.length + 1) s1 h hI
  have hE2 : (follow cfg (s1.store.length + s1.cache.length + 1) s1 h).2.2.filter isCookie = [] :=
    Loc.cookieEvs_follow cfg _ s1 h
  generalize follow cfg (s1.store.length + s1.cache.length + 1) s1 h = gf at f1 f2 f3 hF hE2
  obtain ⟨s2, res2, e2⟩ := gf
  simp only at f1 f2 f3 hF hE2
  subst f1
  have hk := Loc.touch_obj_keep s2 h2 h2 r
  refine ⟨h2, rfl, ?_, ?_, ?_, ?_, ?_⟩
  · show ((touch s2 h2 r).obj h2).ref = none
    rw [hk.2.2.2.2]; exact f3
  · show ((touch s2 h2 r).obj h2).id = cur
    rw [hk.1]; exact f2
  · show ((touch s2 h2 r).obj h2).data ≠ none
    rw [hk.2.2.1]; exact (hF.1.heap h2).2 f3
  · show (e1 ++ e2 ++ [Ev.setCookie (s2.obj h2).id]).getLast? = _
    rw [List.getLast?_concat, f2]
  · show (e1 ++ e2 ++ [Ev.setCookie (s2.obj h2).id]).filter isCookie = _
    rw [List.filter_append, List.filter_append, hE1, hE2, f2]
    rfl

/-! ### non-vacuity of the chain theorems -/

/-- `exS2` after a second rotation: the session is `gen 2` (handle 0), `gen 1 ↦ gen 2` is cached (handle 2), and
`gen 0 ↦ gen 1` was evicted to the store (`maxCache = 2`): a chain of two links, half cached, half stored. -/
def c05_exS3 : State := (regenerate exCfg exS2 0).1

theorem c05_exS3_ok : NoFail c05_exS3 ∧ Inv exCfg.codec c05_exS3 ∧ I3 c05_exS3 := by
  obtain ⟨h1, h2, h3⟩ := exS2_ok
  have h := Sx.regenerate_spec exCfg exS2 0 h1 h3.toHL h2
  exact ⟨h.mono.nofail, h.inv, (i3_regenerate exCfg i3_exS2 0 h3.valid (by decide) h3.minted).1⟩

theorem c05_exS3_chain : Chain c05_exS3 (.gen 0) [.gen 1] (.gen 2) :=
  ⟨Or.inr ⟨by decide, { created := 0, lastAccess := 0, ref := some (.gen 1) }, by decide, rfl⟩,
   Or.inl ⟨2, by decide, by decide⟩, rfl, Or.inl ⟨0, by decide, by decide⟩⟩

/-- `c05_chain_resolves` applies: the oldest id still reaches the live session through two references … -/
example : ∃ h, (start exCfg c05_exS3 { cookie := some (.gen 0), cookieLen := 24 }).2.1 = .sess h ∧
    ((start exCfg c05_exS3 { cookie := some (.gen 0), cookieLen := 24 }).1.obj h).ref = none ∧
    ((start exCfg c05_exS3 { cookie := some (.gen 0), cookieLen := 24 }).1.obj h).id = .gen 2 ∧
    ((start exCfg c05_exS3 { cookie := some (.gen 0), cookieLen := 24 }).1.obj h).data ≠ none ∧
    (start exCfg c05_exS3 { cookie := some (.gen 0), cookieLen := 24 }).2.2.getLast? = some (.setCookie (.gen 2)) ∧
    (start exCfg c05_exS3 { cookie := some (.gen 0), cookieLen := 24 }).2.2.filter isCookie = [.setCookie (.gen 2)] :=
  c05_chain_resolves exCfg c05_exS3 _ (.gen 0) (.gen 2) [.gen 1]
    (dec c05_exS3.ver (.gen 0) { created := 0, lastAccess := 0, ref := some (.gen 1) })
    rfl rfl c05_exS3_ok.1 c05_exS3_ok.2.1 c05_exS3_ok.2.2
    (Or.inr ⟨by decide, _, by decide, rfl⟩) (by decide) (by decide) c05_exS3_chain

/-- … and this is what the model computes: handle 0; the cache is full, so loading `gen 0` evicts the next
reference `gen 1`, which must then be loaded again, evicting `gen 0` — the chain's records move between cache and
store *while* it is followed (load, flush, load, flush, cookie). -/
example : (start exCfg c05_exS3 { cookie := some (.gen 0), cookieLen := 24 }).2.1 = .sess 0 ∧
    (start exCfg c05_exS3 { cookie := some (.gen 0), cookieLen := 24 }).2.2.getLast? = some (.setCookie (.gen 2)) ∧
    (start exCfg c05_exS3 { cookie := some (.gen 0), cookieLen := 24 }).2.2.filter (fun e => !isMut e) =
      [.load (.gen 0) true, .load (.gen 1) true, .setCookie (.gen 2)] ∧
    (start exCfg c05_exS3 { cookie := some (.gen 0), cookieLen := 24 }).2.2.length = 5 := by decide

/-- one link (`mids = []`), everything cached: `exS2`. -/
example : ∃ h, (start exCfg exS2 { cookie := some (.gen 0), cookieLen := 24 }).2.1 = .sess h ∧
    ((start exCfg exS2 { cookie := some (.gen 0), cookieLen := 24 }).1.obj h).ref = none ∧
    ((start exCfg exS2 { cookie := some (.gen 0), cookieLen := 24 }).1.obj h).id = .gen 1 ∧
    ((start exCfg exS2 { cookie := some (.gen 0), cookieLen := 24 }).1.obj h).data ≠ none ∧
    (start exCfg exS2 { cookie := some (.gen 0), cookieLen := 24 }).2.2.getLast? = some (.setCookie (.gen 1)) ∧
    (start exCfg exS2 { cookie := some (.gen 0), cookieLen := 24 }).2.2.filter isCookie = [.setCookie (.gen 1)] :=
  c05_chain_resolves exCfg exS2 _ (.gen 0) (.gen 1) [] (exS2.obj 1) rfl rfl exS2_ok.1 exS2_ok.2.1 i3_exS2
    (Or.inl ⟨1, by decide, rfl⟩) (by decide) (by decide)
    ⟨Or.inl ⟨1, by decide, by decide⟩, rfl, Or.inl ⟨0, by decide, by decide⟩⟩

/-- `follow_fuel_enough` on the two-link chain, entered at the cached reference object of `gen 1`. -/
example : ∃ h2, (follow exCfg (c05_exS3.store.length + c05_exS3.cache.length + 1) c05_exS3 2).2.1 = .some h2 ∧
    ((follow exCfg (c05_exS3.store.length + c05_exS3.cache.length + 1) c05_exS3 2).1.obj h2).id = .gen 2 ∧
    ((follow exCfg (c05_exS3.store.length + c05_exS3.cache.length + 1) c05_exS3 2).1.obj h2).ref = none :=
  follow_fuel_enough exCfg c05_exS3 2 (.gen 2) (.gen 2) [] c05_exS3_ok.1 c05_exS3_ok.2.1 c05_exS3_ok.2.2 (by decide)
    ⟨rfl, Or.inl ⟨0, by decide, by decide⟩⟩

/-- **the chain must exist** (`hchain`): when the target's record is missing (here: deleted by hand), `Start`
answers `"refmissing"` although every other hypothesis holds. -/
example :
    let s : State := { exS2 with cache := erase (.gen 1) exS2.cache, store := erase (.gen 1) exS2.store }
    PresObj s (.gen 0) (s.obj 1) ∧ validFor exCfg s.now (s.obj 1) {} = true ∧
    (start exCfg s { cookie := some (.gen 0), cookieLen := 24 }).2.1 = .err "refmissing" :=
  ⟨Or.inl ⟨1, by decide, rfl⟩, by decide, by decide⟩

end Sx.More
