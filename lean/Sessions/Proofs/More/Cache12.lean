import Sessions.Proofs.Inv.All
import Sessions.Proofs.Local.All
/-!
# C12 — the cache keeps to its size, evicts least recently used, flushes before dropping

T-local: one call from an arbitrary state, for EVERY order oracle `s.picks`; the fault oracle is
arbitrary where nothing else is said and failure-free (`NoFail s`) where the statement needs a
completed compaction.

The central notion is `Drops cfg P s s' evs`: a run of cache drops, each one preceded by the save of
the dropped entry's object, each dropped entry satisfying `P` *in the state at the moment of its
removal*, ending either normally or with one failed save after which nothing more happens.
`sweep_drops`, `evictLoop_drops` and `compact_drops` show that the idle sweep, the size loop and
`compact` are such runs (for every oracle); the numbered theorems are consequences.
-/
namespace Sx.More

/-! ### small list facts -/

theorem erase_sublist {κ β : Type} [DecidableEq κ] (k : κ) (m : List (κ × β)) : (erase k m).Sublist m := by
  induction m with
  | nil => exact List.Sublist.slnil
  | cons p r ih =>
    obtain ⟨k', v⟩ := p
    simp only [erase]
    split
    · exact List.Sublist.cons _ ih
    · exact List.Sublist.cons_cons _ ih

theorem length_insert_le {κ β : Type} [DecidableEq κ] (k : κ) (v : β) (m : List (κ × β)) :
    (insert k v m).length ≤ m.length + 1 := by
  show (erase k m).length + 1 ≤ m.length + 1
  have := length_erase_le k m
  omega

theorem length_insert_of_mem {κ β : Type} [DecidableEq κ] {k : κ} (v : β) {v' : β} {m : List (κ × β)} (h : (k, v') ∈ m) :
    (insert k v m).length ≤ m.length := by
  show (erase k m).length + 1 ≤ m.length
  have := length_erase_lt h
  omega

theorem noFail_head {s : State} (h : NoFail s) : s.fails.headD false = false := by
  cases hf : s.fails with
  | nil => rfl
  | cons b r => exact h b (by rw [hf]; exact List.mem_cons_self)

theorem noFail_pop2 {s : State} (h : NoFail s) : NoFail s.pop2 := fun b hb => h b (List.mem_of_mem_tail hb)

theorem noFail_of_drop {s s' : State} (h : NoFail s) (hd : ∃ n, s'.fails = s.fails.drop n) : NoFail s' := by
  obtain ⟨n, hn⟩ := hd
  intro b hb; rw [hn] at hb; exact h b (List.mem_of_mem_drop hb)

/-! ### idle, least recently used -/

/-- the object `h` has been unused for longer than `SessionCacheExpiry` -/
def Idle (cfg : Cfg) (s : State) (h : Nat) : Prop := since s.now (s.obj h).lastAccess > cfg.cacheExpiry

/-- `p` is a least recently accessed entry of the cache of `s` -/
def LRU (s : State) (p : ID × Nat) : Prop := ∀ q ∈ s.cache, (s.obj p.2).lastAccess ≤ (s.obj q.2).lastAccess

/-! ### runs of drops -/

/-- the state after a successful flush of `(id, h)` followed by dropping the key (as `Sx.dropS`, for every oracle) -/
theorem dropS_eq (cfg : Cfg) (s : State) (id : ID) (h : Nat) (hok : s.fails.headD false = false) :
    ({ (saveRec cfg s id (s.obj h)).1 with cache := erase id (saveRec cfg s id (s.obj h)).1.cache } : State) =
      dropS cfg s id h := by
  rw [Loc.saveRec_ok id (s.obj h) hok]; rfl

/-- A run of flush-and-drop steps. Every dropped entry satisfies `P` in the state it is dropped from and
its object is saved under its key first; a failed save ends the run with the entry still cached. -/
inductive Drops (cfg : Cfg) (P : State → ID × Nat → Prop) : State → State → List Ev → Prop
  | refl (s : State) : Drops cfg P s s []
  | step {s s' : State} {id : ID} {h : Nat} {evs : List Ev} (hp : P s (id, h)) (hok : s.fails.headD false = false)
      (rest : Drops cfg P (dropS cfg s id h) s' evs) :
      Drops cfg P s s' (Ev.save id (enc cfg.codec (s.obj h)) :: evs)
  | fail {s : State} {id : ID} {h : Nat} (hp : P s (id, h)) (hf : s.fails.headD false = true) :
      Drops cfg P s s.pop2 [Ev.saveFail id]

namespace Drops
variable {cfg : Cfg} {P Q : State → ID × Nat → Prop} {s s' s'' : State} {evs evs' : List Ev}

theorem mono (hPQ : ∀ s p, P s p → Q s p) (hd : Drops cfg P s s' evs) : Drops cfg Q s s' evs := by
  induction hd with
  | refl s => exact Drops.refl s
  | step hp hok _ ih => exact Drops.step (hPQ _ _ hp) hok ih
  | fail hp hf => exact Drops.fail (hPQ _ _ hp) hf

/-- runs compose when the first one did not end in a failure -/
theorem trans (h1 : Drops cfg P s s' evs) (hnf : ∀ k, Ev.saveFail k ∉ evs) (h2 : Drops cfg P s' s'' evs') :
    Drops cfg P s s'' (evs ++ evs') := by
  induction h1 with
  | refl s => exact h2
  | step hp hok _ ih =>
    exact Drops.step hp hok (ih (fun k hk => hnf k (List.mem_cons_of_mem _ hk)) h2)
  | fail hp hf => exact absurd List.mem_cons_self (hnf _)

/-- nothing but store, cache and oracles changes -/
theorem fr (hd : Drops cfg P s s' evs) : Loc.Fr s s' := by
  induction hd with
  | refl s => exact Loc.Fr.refl s
  | @step s s' id h evs _ _ _ ih =>
    have h0 : Loc.Fr s (dropS cfg s id h) := ⟨rfl, rfl, rfl, rfl, rfl, rfl⟩
    exact h0.trans ih
  | fail _ _ => exact ⟨rfl, rfl, rfl, rfl, rfl, rfl⟩

theorem obj (hd : Drops cfg P s s' evs) (x : Nat) : s'.obj x = s.obj x := hd.fr.obj x

/-- the cache only loses entries, in place -/
theorem sublist (hd : Drops cfg P s s' evs) : s'.cache.Sublist s.cache := by
  induction hd with
  | refl s => exact List.Sublist.refl _
  | step _ _ _ ih => exact ih.trans (erase_sublist _ _)
  | fail _ _ => exact List.Sublist.refl _

theorem sub (hd : Drops cfg P s s' evs) : ∀ p ∈ s'.cache, p ∈ s.cache := fun _ hp => hd.sublist.subset hp

theorem length_le (hd : Drops cfg P s s' evs) : s'.cache.length ≤ s.cache.length := hd.sublist.length_le

theorem fails_drop (hd : Drops cfg P s s' evs) : ∃ n, s'.fails = s.fails.drop n := by
  induction hd with
  | refl s => exact ⟨0, rfl⟩
  | @step s s' id h evs _ _ _ ih =>
    obtain ⟨n, hn⟩ := ih
    exact ⟨1 + n, by rw [hn]; show (s.fails.tail).drop n = _; cases s.fails <;> simp [Nat.add_comm]⟩
  | @fail s id h _ _ => exact ⟨1, by show s.fails.tail = _; simp⟩

theorem nofail (hd : Drops cfg P s s' evs) (hnf : NoFail s) : NoFail s' := noFail_of_drop hnf hd.fails_drop

/-- without faults no save of the run fails -/
theorem evs_ok (hd : Drops cfg P s s' evs) (hnf : NoFail s) : ∀ k, Ev.saveFail k ∉ evs := by
  induction hd with
  | refl s => intro k hk; simp at hk
  | step hp hok rest ih =>
    intro k hk
    rcases List.mem_cons.mp hk with h | h
    · cases h
    · exact ih (fun b hb => hnf b (List.mem_of_mem_tail hb)) k h
  | fail hp hf => rw [noFail_head hnf] at hf; cases hf

/-- what the run does to a record: nothing, or the flush of a cached entry -/
theorem store_lk (hP : ∀ s p, P s p → p ∈ s.cache) (hd : Drops cfg P s s' evs) (k : ID) :
    lookup k s'.store = lookup k s.store ∨ ∃ h, (k, h) ∈ s.cache ∧ lookup k s'.store = some (enc cfg.codec (s.obj h)) := by
  induction hd with
  | refl s => exact Or.inl rfl
  | @step s s' id h evs hp hok rest ih =>
    rcases ih with e | ⟨x, hx, e⟩
    · by_cases hk : k = id
      · subst hk
        exact Or.inr ⟨h, hP _ _ hp, by rw [e]; exact lookup_insert_self _ _ _⟩
      · exact Or.inl (by rw [e]; exact lookup_insert_ne _ _ hk)
    · exact Or.inr ⟨x, (mem_erase hx).1, e⟩
  | fail _ _ => exact Or.inl rfl

/-- **flush before dropping** (every oracle): an entry that left the cache during the run was saved during
the run, and the record under its key is the encoding of its object when the run ends. -/
theorem flushed (hn : (keys s.cache).Nodup) (hP : ∀ s p, P s p → p ∈ s.cache) (hd : Drops cfg P s s' evs) :
    ∀ id h, (id, h) ∈ s.cache → (id, h) ∉ s'.cache →
      Ev.save id (enc cfg.codec (s.obj h)) ∈ evs ∧ lookup id s'.store = some (enc cfg.codec (s.obj h)) := by
  induction hd with
  | refl s => intro id h hm hnm; exact absurd hm hnm
  | @step s s' id0 h0 evs hp hok rest ih =>
    intro id h hm hnm
    by_cases hid : id = id0
    · subst hid
      have hh : h = h0 := nodup_functional hn hm (hP _ _ hp)
      subst hh
      refine ⟨List.mem_cons_self, ?_⟩
      rcases rest.store_lk hP id with e | ⟨x, hx, _⟩
      · rw [e]; exact lookup_insert_self _ _ _
      · exact absurd rfl (mem_erase hx).2
    · have hm' : (id, h) ∈ (dropS cfg s id0 h0).cache := mem_erase_of_ne hm hid
      obtain ⟨h1, h2⟩ := ih (nodup_erase hn) id h hm' hnm
      exact ⟨List.mem_cons_of_mem _ h1, h2⟩
  | fail _ _ => intro id h hm hnm; exact absurd hm hnm

/-- every save event of the run is the flush of an entry that then left the cache -/
theorem evs_dropped (hP : ∀ s p, P s p → p ∈ s.cache) (hd : Drops cfg P s s' evs) :
    ∀ e ∈ evs, (∃ id h, e = Ev.save id (enc cfg.codec (s.obj h)) ∧ (id, h) ∈ s.cache ∧ ∀ x, (id, x) ∉ s'.cache) ∨
      (∃ id h, e = Ev.saveFail id ∧ (id, h) ∈ s'.cache) := by
  induction hd with
  | refl s => intro e he; simp at he
  | @step s s' id0 h0 evs hp hok rest ih =>
    intro e he
    rcases List.mem_cons.mp he with h | h
    · left
      refine ⟨id0, h0, h, hP _ _ hp, ?_⟩
      intro x hx
      have := rest.sub _ hx
      exact (mem_erase this).2 rfl
    · rcases ih e h with ⟨id, x, h1, h2, h3⟩ | h1
      · exact Or.inl ⟨id, x, h1, (mem_erase h2).1, h3⟩
      · exact Or.inr h1
  | @fail s id h hp hf =>
    intro e he
    simp only [List.mem_singleton] at he
    exact Or.inr ⟨id, h, he, (hP _ _ hp : (id, h) ∈ s.cache)⟩

/-- **least recently used, along a run**: when every dropped entry was least recently accessed at its
removal, every entry that left is at most as recent as every entry that stayed. -/
theorem lru (hn : (keys s.cache).Nodup) (hP : ∀ s p, P s p → p ∈ s.cache ∧ LRU s p) (hd : Drops cfg P s s' evs) :
    ∀ p ∈ s.cache, p ∉ s'.cache → ∀ q ∈ s'.cache, (s.obj p.2).lastAccess ≤ (s.obj q.2).lastAccess := by
  induction hd with
  | refl s => intro p hm hnm; exact absurd hm hnm
  | @step s s' id0 h0 evs hp hok rest ih =>
    intro p hm hnm q hq
    obtain ⟨id, h⟩ := p
    by_cases hid : id = id0
    · subst hid
      have hh : h = h0 := nodup_functional hn hm (hP _ _ hp).1
      subst hh
      exact (hP _ _ hp).2 q (mem_erase (rest.sub q hq)).1
    · have hm' : (id, h) ∈ (dropS cfg s id0 h0).cache := mem_erase_of_ne hm hid
      exact ih (nodup_erase hn) (id, h) hm' hnm q hq
  | fail _ _ => intro p hm hnm; exact absurd hm hnm

/-- a failed save is the last event of the run, and its entry is still cached afterwards -/
theorem fail_last (hP : ∀ s p, P s p → p ∈ s.cache) (hd : Drops cfg P s s' evs) :
    ∀ k, Ev.saveFail k ∈ evs → evs.getLast? = some (Ev.saveFail k) ∧ ∃ h, (k, h) ∈ s'.cache := by
  induction hd with
  | refl s => intro k hk; simp at hk
  | @step s s' id0 h0 evs hp hok rest ih =>
    intro k hk
    rcases List.mem_cons.mp hk with e | e
    · cases e
    · obtain ⟨h1, h2⟩ := ih k e
      refine ⟨?_, h2⟩
      cases evs with
      | nil => simp at e
      | cons a r => rw [List.getLast?_cons_cons]; exact h1
  | @fail s id h hp hf =>
    intro k hk
    simp only [List.mem_singleton, Ev.saveFail.injEq] at hk
    subst hk
    exact ⟨rfl, h, (hP _ _ hp : (k, h) ∈ s.cache)⟩

end Drops

/-! ### the order oracle lists every entry once -/

theorem nodup_eraseDups {α : Type} [BEq α] [LawfulBEq α] (l : List α) : l.eraseDups.Nodup := by
  induction hlen : l.length using Nat.strongRecOn generalizing l with
  | ind n ih =>
    cases l with
    | nil => simp
    | cons a r =>
      rw [List.eraseDups_cons, List.nodup_cons]
      refine ⟨?_, ih _ ?_ _ rfl⟩
      · intro hm
        rw [List.mem_eraseDups, List.mem_filter] at hm
        simp at hm
      · rw [← hlen]
        have := List.length_filter_le (fun b => !b == a) r
        simp only [List.length_cons]; omega

/-- the entries in oracle order have pairwise distinct keys when the cache has -/
theorem orderBy_pairwise (picks : List ID) (l : List (ID × Nat)) (hn : (keys l).Nodup) :
    (orderBy picks l).Pairwise (fun p q => p.1 ≠ q.1) := by
  have hl : l.Pairwise (fun p q => p.1 ≠ q.1) := List.pairwise_map.mp hn
  unfold orderBy
  rw [List.pairwise_append]
  refine ⟨?_, hl.filter _, ?_⟩
  · refine List.Pairwise.imp_of_mem ?_ (nodup_eraseDups _)
    intro a b ha hb hab hk
    apply hab
    have ha' : a ∈ l := mem_orderBy_sub (List.mem_append_left _ ha)
    have hb' : b ∈ l := mem_orderBy_sub (List.mem_append_left _ hb)
    obtain ⟨ak, av⟩ := a; obtain ⟨bk, bv⟩ := b
    simp only at hk; subst hk
    rw [nodup_functional hn ha' hb']
  · intro a ha b hb
    rw [List.mem_eraseDups, List.mem_filterMap] at ha
    obtain ⟨k, hk, hf⟩ := ha
    have hak : a.1 = k := by simpa using List.find?_some hf
    have hbk : b.1 ∉ picks := by simpa using (List.mem_filter.mp hb).2
    intro e; rw [hak] at e; rw [← e] at hbk; exact hbk hk

/-! ### the idle sweep is a run of drops of idle entries -/

/-- what the idle sweep may drop: a cached entry unused for longer than `SessionCacheExpiry` -/
def SweepP (cfg : Cfg) (s : State) (p : ID × Nat) : Prop := p ∈ s.cache ∧ Idle cfg s p.2

/-- **the idle sweep, for every oracle**: a run of drops of idle entries; when it completes (flag `true`) no
save failed and no listed entry that is still cached is idle; when it does not, a save failed. -/
theorem sweep_drops (cfg : Cfg) (l : List (ID × Nat)) (s : State) (hl : ∀ p ∈ l, p ∈ s.cache)
    (hpw : l.Pairwise (fun p q => p.1 ≠ q.1)) :
    Drops cfg (SweepP cfg) s (sweep cfg s l).1 (sweep cfg s l).2.2 ∧
    ((sweep cfg s l).2.1 = true → (∀ k, Ev.saveFail k ∉ (sweep cfg s l).2.2) ∧
        ∀ p ∈ (sweep cfg s l).1.cache, p ∈ l → ¬ Idle cfg s p.2) ∧
    ((sweep cfg s l).2.1 = false → ∃ k, Ev.saveFail k ∈ (sweep cfg s l).2.2) ∧
    (NoFail s → (sweep cfg s l).2.1 = true) := by
  induction l generalizing s with
  | nil =>
    exact ⟨Drops.refl s, fun _ => ⟨by intro k hk; simp [sweep] at hk, by intro p _ hp; simp at hp⟩,
      by intro h; simp [sweep] at h, fun _ => rfl⟩
  | cons p rest ih =>
    obtain ⟨id, h⟩ := p
    obtain ⟨hpw1, hpw2⟩ := List.pairwise_cons.mp hpw
    rw [Loc.sweep_cons]
    by_cases ho : since s.now (s.obj h).lastAccess > cfg.cacheExpiry
    · rw [if_pos ho]
      rcases Loc.headD_false_or_true s.fails with hf | hf
      · have hok : (saveRec cfg s id (s.obj h)).2.1 = true := (Loc.saveRec_ok_iff cfg s id (s.obj h)).2 hf
        have hev : (saveRec cfg s id (s.obj h)).2.2 = [Ev.save id (enc cfg.codec (s.obj h))] := by
          rw [Loc.saveRec_ok id _ hf]
        rw [if_pos hok, dropS_eq cfg s id h hf, hev]
        have hrest : ∀ p ∈ rest, p ∈ (dropS cfg s id h).cache := fun p hp =>
          mem_erase_of_ne (hl p (List.mem_cons_of_mem _ hp)) (Ne.symm (hpw1 p hp))
        obtain ⟨h1, h2, h3, h4⟩ := ih (dropS cfg s id h) hrest hpw2
        refine ⟨Drops.step ⟨hl _ List.mem_cons_self, ho⟩ hf h1, ?_, ?_, ?_⟩
        · intro hflag
          obtain ⟨h2a, h2b⟩ := h2 hflag
          refine ⟨?_, ?_⟩
          · intro k hk
            rcases List.mem_cons.mp hk with e | e
            · cases e
            · exact h2a k e
          · intro p hp hpl
            rcases List.mem_cons.mp hpl with e | e
            · subst e
              exact absurd rfl (mem_erase (h1.sub _ hp)).2
            · exact h2b p hp e
        · intro hflag
          obtain ⟨k, hk⟩ := h3 hflag
          exact ⟨k, List.mem_cons_of_mem _ hk⟩
        · intro hnf; exact h4 (fun b hb => hnf b (List.mem_of_mem_tail hb))
      · have hok : ¬ (saveRec cfg s id (s.obj h)).2.1 = true := by
          rw [Loc.saveRec_ok_iff, hf]; simp
        rw [if_neg hok, Loc.saveRec_fail id _ hf]
        exact ⟨Drops.fail ⟨hl _ List.mem_cons_self, ho⟩ hf, (by intro h; cases h), fun _ => ⟨id, List.mem_cons_self⟩,
          fun hnf => by rw [noFail_head hnf] at hf; cases hf⟩
    · rw [if_neg ho]
      obtain ⟨h1, h2, h3, h4⟩ := ih s (fun p hp => hl p (List.mem_cons_of_mem _ hp)) hpw2
      refine ⟨h1, ?_, h3, h4⟩
      intro hflag
      obtain ⟨a, b⟩ := h2 hflag
      refine ⟨a, ?_⟩
      intro p hp hpl
      rcases List.mem_cons.mp hpl with e | e
      · subst e; exact ho
      · exact b p hp e

/-! ### the victim is least recently used, whatever the oracle -/

theorem minLA_le (s : State) (l : List (ID × Nat)) (m : Int) (h : minLA s l = some m) :
    ∀ p ∈ l, m ≤ (s.obj p.2).lastAccess := by
  induction l generalizing m with
  | nil => intro p hp; simp at hp
  | cons q r ih =>
    obtain ⟨id, hh⟩ := q
    simp only [minLA] at h
    intro p hp
    cases hr : minLA s r with
    | none =>
      rw [hr] at h; simp only [Option.some.injEq] at h
      have hnil := minLA_none s r hr
      subst hnil
      simp only [List.mem_singleton] at hp
      subst hp; show m ≤ (s.obj hh).lastAccess; omega
    | some m' =>
      rw [hr] at h; simp only [Option.some.injEq] at h
      rcases List.mem_cons.mp hp with e | e
      · subst e; show m ≤ (s.obj hh).lastAccess; omega
      · have := ih m' hr p e
        omega

theorem firstMin_eq (s : State) (m : Int) (l : List (ID × Nat)) (p : ID × Nat) (h : firstMin s m l = some p) :
    (s.obj p.2).lastAccess = m := by
  induction l with
  | nil => simp [firstMin] at h
  | cons q r ih =>
    obtain ⟨id, hh⟩ := q
    simp only [firstMin] at h
    split at h
    · rename_i hm; simp only [Option.some.injEq] at h; subst h; exact hm
    · exact ih h

/-- **C12.3 (LRU)**: for EVERY order oracle the eviction victim is a cached entry whose `lastAccess` is
minimal among the entries cached at that moment. -/
theorem c12_lru {s : State} {id : ID} {h : Nat} (hv : victim s = some (id, h)) :
    (id, h) ∈ s.cache ∧ ∀ p ∈ s.cache, (s.obj h).lastAccess ≤ (s.obj p.2).lastAccess := by
  refine ⟨victim_mem s _ hv, ?_⟩
  unfold victim at hv
  split at hv
  · cases hv
  · rename_i m hm
    have h1 := firstMin_eq s m _ _ hv
    intro p hp
    have h2 := minLA_le s s.cache m hm p hp
    simp only at h1
    omega

theorem victim_lru {s : State} {p : ID × Nat} (hv : victim s = some p) : p ∈ s.cache ∧ LRU s p := by
  obtain ⟨id, h⟩ := p
  exact c12_lru hv

/-! ### the size loop is a run of drops of least recently used entries -/

/-- what the size loop may drop: the victim, while the cache is too full for `req` more entries -/
def EvictP (cfg : Cfg) (req : Int) (s : State) (p : ID × Nat) : Prop :=
  victim s = some p ∧ (s.cache.length : Int) + req > cfg.maxCache

theorem evictLoop_drops (cfg : Cfg) (req : Int) (fuel : Nat) (s : State) :
    Drops cfg (EvictP cfg req) s (evictLoop cfg req fuel s).1 (evictLoop cfg req fuel s).2 := by
  induction fuel generalizing s with
  | zero => exact Drops.refl s
  | succ n ih =>
    rw [Loc.evictLoop_succ]
    by_cases hc : (s.cache.length : Int) + req > cfg.maxCache
    · rw [if_pos hc]
      cases hv : victim s with
      | none => exact Drops.refl s
      | some p =>
        obtain ⟨id, h⟩ := p
        simp only []
        rcases Loc.headD_false_or_true s.fails with hf | hf
        · have hok : (saveRec cfg s id (s.obj h)).2.1 = true := (Loc.saveRec_ok_iff cfg s id (s.obj h)).2 hf
          have hev : (saveRec cfg s id (s.obj h)).2.2 = [Ev.save id (enc cfg.codec (s.obj h))] := by
            rw [Loc.saveRec_ok id _ hf]
          rw [if_pos hok, dropS_eq cfg s id h hf, hev]
          exact Drops.step ⟨hv, hc⟩ hf (ih _)
        · have hok : ¬ (saveRec cfg s id (s.obj h)).2.1 = true := by
            rw [Loc.saveRec_ok_iff, hf]; simp
          rw [if_neg hok, Loc.saveRec_fail id _ hf]
          exact Drops.fail ⟨hv, hc⟩ hf
    · rw [if_neg hc]; exact Drops.refl s

/-- without faults and with enough fuel the size loop ends with room for `req` entries, or with an empty cache -/
theorem evictLoop_room (cfg : Cfg) (req : Int) (fuel : Nat) (s : State) (hnf : NoFail s) (hn : (keys s.cache).Nodup)
    (hle : s.cache.length ≤ fuel) :
    ¬ (((evictLoop cfg req fuel s).1.cache.length : Int) + req > cfg.maxCache) ∨ (evictLoop cfg req fuel s).1.cache = [] := by
  induction fuel generalizing s with
  | zero => right; show s.cache = []; exact List.eq_nil_of_length_eq_zero (by omega)
  | succ n ih =>
    by_cases hc : (s.cache.length : Int) + req > cfg.maxCache
    · cases hv : victim s with
      | none =>
        rw [evictLoop_novictim cfg req n s hc hv]
        exact Or.inr (victim_none s hn hv)
      | some p =>
        obtain ⟨id, hh⟩ := p
        rw [evictLoop_evict cfg req n s id hh hnf hc hv]
        have hmem := victim_mem s _ hv
        apply ih (dropS cfg s id hh) hnf.popF (nodup_erase hn)
        have : (erase id s.cache).length < s.cache.length := length_erase_lt hmem
        show (erase id s.cache).length ≤ n
        omega
    · rw [evictLoop_done cfg req n s hc]
      exact Or.inl hc

/-! ### `compact` as a run of drops -/

/-- the idle sweep of `compact` -/
def swept (cfg : Cfg) (s : State) : State × Bool × List Ev := sweep cfg s (orderBy s.picks s.cache)

/-- "We can't request more than is allowed." -/
def reqCap (cfg : Cfg) (req : Int) : Int := if req > cfg.maxCache then cfg.maxCache else req

/-- does `compact` enter its size loop? -/
def Loops (cfg : Cfg) (req : Int) (s : State) : Prop :=
  ¬ (swept cfg s).2.1 = false ∧ ¬ (cfg.maxCache < 0 ∨ ((swept cfg s).1.cache.length : Int) + req ≤ cfg.maxCache)

/-- `compact` when the size loop is not entered -/
theorem compact_noloop {cfg : Cfg} {req : Int} {s : State} (h : ¬ Loops cfg req s) :
    compact cfg req s = ((swept cfg s).1, (swept cfg s).2.2) := by
  rw [Loc.compact_eq]
  unfold Loops swept at h
  by_cases h1 : (sweep cfg s (orderBy s.picks s.cache)).2.1 = false
  · rw [if_pos h1]; rfl
  · rw [if_neg h1]
    by_cases h2 : cfg.maxCache < 0 ∨ ((sweep cfg s (orderBy s.picks s.cache)).1.cache.length : Int) + req ≤ cfg.maxCache
    · rw [if_pos h2]; rfl
    · exact absurd ⟨h1, h2⟩ h

/-- `compact` when the size loop is entered -/
theorem compact_loop {cfg : Cfg} {req : Int} {s : State} (h : Loops cfg req s) :
    compact cfg req s =
      ((evictLoop cfg (reqCap cfg req) (swept cfg s).1.cache.length (swept cfg s).1).1,
       (swept cfg s).2.2 ++ (evictLoop cfg (reqCap cfg req) (swept cfg s).1.cache.length (swept cfg s).1).2) := by
  rw [Loc.compact_eq]
  unfold Loops swept at h
  rw [if_neg h.1, if_neg h.2]; rfl

theorem swept_drops (cfg : Cfg) (s : State) (hn : (keys s.cache).Nodup) :
    Drops cfg (SweepP cfg) s (swept cfg s).1 (swept cfg s).2.2 ∧
    ((swept cfg s).2.1 = true → (∀ k, Ev.saveFail k ∉ (swept cfg s).2.2) ∧
        ∀ p ∈ (swept cfg s).1.cache, ¬ Idle cfg s p.2) ∧
    ((swept cfg s).2.1 = false → ∃ k, Ev.saveFail k ∈ (swept cfg s).2.2) ∧
    (NoFail s → (swept cfg s).2.1 = true) := by
  obtain ⟨h1, h2, h3, h4⟩ := sweep_drops cfg (orderBy s.picks s.cache) s (fun p hp => mem_orderBy_sub hp)
    (orderBy_pairwise s.picks s.cache hn)
  refine ⟨h1, ?_, h3, h4⟩
  intro hflag
  obtain ⟨a, b⟩ := h2 hflag
  exact ⟨a, fun p hp => b p hp (mem_orderBy_of_mem hn (h1.sub p hp))⟩

theorem nodup_of_sublist {l l' : List (ID × Nat)} (h : l'.Sublist l) (hn : (keys l).Nodup) : (keys l').Nodup :=
  List.Nodup.sublist (h.map _) hn

/-- what `compact cfg req` may drop -/
def CompactP (cfg : Cfg) (req : Int) (s : State) (p : ID × Nat) : Prop := SweepP cfg s p ∨ EvictP cfg (reqCap cfg req) s p

theorem compactP_mem {cfg : Cfg} {req : Int} (s : State) (p : ID × Nat) (h : CompactP cfg req s p) : p ∈ s.cache := by
  rcases h with h | h
  · exact h.1
  · exact (victim_lru h.1).1

/-- **`compact` is a run of drops, for every oracle**: first of idle entries, then of least recently
used entries while the cache is over-full. -/
theorem compact_drops (cfg : Cfg) (req : Int) (s : State) (hn : (keys s.cache).Nodup) :
    Drops cfg (CompactP cfg req) s (compact cfg req s).1 (compact cfg req s).2 := by
  obtain ⟨h1, h2, _, _⟩ := swept_drops cfg s hn
  have h1' : Drops cfg (CompactP cfg req) s (swept cfg s).1 (swept cfg s).2.2 := h1.mono (fun _ _ h => Or.inl h)
  by_cases hl : Loops cfg req s
  · rw [compact_loop hl]
    have hflag : (swept cfg s).2.1 = true := by
      cases hb : (swept cfg s).2.1 with
      | true => rfl
      | false => exact absurd hb hl.1
    exact h1'.trans (h2 hflag).1 ((evictLoop_drops cfg (reqCap cfg req) _ _).mono (fun _ _ h => Or.inr h))
  · rw [compact_noloop hl]; exact h1'

/-- the size loop of `compact` alone, from the swept state -/
theorem compact_drops_evict (cfg : Cfg) (req : Int) (s : State) :
    ∃ e2, (compact cfg req s).2 = (swept cfg s).2.2 ++ e2 ∧
      Drops cfg (EvictP cfg (reqCap cfg req)) (swept cfg s).1 (compact cfg req s).1 e2 := by
  by_cases hl : Loops cfg req s
  · rw [compact_loop hl]
    exact ⟨_, rfl, evictLoop_drops cfg (reqCap cfg req) _ _⟩
  · rw [compact_noloop hl]
    exact ⟨[], by simp, Drops.refl _⟩

theorem idle_congr {cfg : Cfg} {s s' : State} (hfr : Loc.Fr s s') (x : Nat) : Idle cfg s' x ↔ Idle cfg s x := by
  unfold Idle; rw [hfr.now, hfr.obj]

/-! ## C12.5 — flush before dropping -/

/-- **C12.5 (every oracle)**: every entry that is in the cache before `compact` and not after it was
handed to the persistence layer first — the event list holds the save of its object, and afterwards the
record under its key is the encoding of that object (as cached: with its last access time). -/
theorem c12_flush_first (cfg : Cfg) (req : Int) (s : State) (hn : (keys s.cache).Nodup) :
    ∀ id h, (id, h) ∈ s.cache → (id, h) ∉ (compact cfg req s).1.cache →
      Ev.save id (enc cfg.codec (s.obj h)) ∈ (compact cfg req s).2 ∧
      lookup id (compact cfg req s).1.store = some (enc cfg.codec (s.obj h)) :=
  (compact_drops cfg req s hn).flushed hn compactP_mem

/-- the flushed record carries the object's last access time: exactly under gob, to the second under JSON -/
theorem c12_flush_lastAccess (o : Sess) :
    (enc .gob o).lastAccess = o.lastAccess ∧ (enc .json o).lastAccess = truncSec o.lastAccess := ⟨rfl, rfl⟩

/-- conversely every save event of `compact` is the flush of an entry that left the cache, and a failed
save leaves its entry cached -/
theorem c12_flush_only (cfg : Cfg) (req : Int) (s : State) (hn : (keys s.cache).Nodup) :
    ∀ e ∈ (compact cfg req s).2,
      (∃ id h, e = Ev.save id (enc cfg.codec (s.obj h)) ∧ (id, h) ∈ s.cache ∧ ∀ x, (id, x) ∉ (compact cfg req s).1.cache) ∨
      (∃ id h, e = Ev.saveFail id ∧ (id, h) ∈ (compact cfg req s).1.cache) :=
  (compact_drops cfg req s hn).evs_dropped compactP_mem

/-- **C12.5 with faults**: a failed flush ABORTS the compaction — it is the last event — and the entry
whose save failed STAYS cached; by `c12_flush_first` nothing at all is dropped unsaved. -/
theorem c12_failed_flush_aborts (cfg : Cfg) (req : Int) (s : State) (hn : (keys s.cache).Nodup) :
    ∀ k, Ev.saveFail k ∈ (compact cfg req s).2 →
      (compact cfg req s).2.getLast? = some (Ev.saveFail k) ∧ ∃ h, (k, h) ∈ (compact cfg req s).1.cache :=
  (compact_drops cfg req s hn).fail_last compactP_mem

/-- the same for the two loops separately: `sweep` and `evictLoop` never remove an entry whose save failed -/
theorem c12_sweep_failed_stays (cfg : Cfg) (s : State) (hn : (keys s.cache).Nodup) :
    ∀ k, Ev.saveFail k ∈ (swept cfg s).2.2 →
      (swept cfg s).2.2.getLast? = some (Ev.saveFail k) ∧ ∃ h, (k, h) ∈ (swept cfg s).1.cache :=
  (swept_drops cfg s hn).1.fail_last (fun _ _ h => h.1)

theorem c12_evictLoop_failed_stays (cfg : Cfg) (req : Int) (fuel : Nat) (s : State) :
    ∀ k, Ev.saveFail k ∈ (evictLoop cfg req fuel s).2 →
      (evictLoop cfg req fuel s).2.getLast? = some (Ev.saveFail k) ∧ ∃ h, (k, h) ∈ (evictLoop cfg req fuel s).1.cache :=
  (evictLoop_drops cfg req fuel s).fail_last (fun _ _ h => (victim_lru h.1).1)

/-! ## C12.4 — idle entries are dropped at the next cache write -/

/-- **C12.4**: after a completed `compact` (no save failed) no remaining entry has been unused for longer
than `SessionCacheExpiry`. -/
theorem c12_idle_completed (cfg : Cfg) (req : Int) (s : State) (hn : (keys s.cache).Nodup)
    (hdone : ∀ k, Ev.saveFail k ∉ (compact cfg req s).2) :
    ∀ p ∈ (compact cfg req s).1.cache, ¬ since (compact cfg req s).1.now ((compact cfg req s).1.obj p.2).lastAccess > cfg.cacheExpiry := by
  obtain ⟨h1, h2, h3, _⟩ := swept_drops cfg s hn
  obtain ⟨e2, he, hd2⟩ := compact_drops_evict cfg req s
  have hflag : (swept cfg s).2.1 = true := by
    cases hb : (swept cfg s).2.1 with
    | true => rfl
    | false =>
      obtain ⟨k, hk⟩ := h3 hb
      exact absurd (by rw [he]; exact List.mem_append_left _ hk) (hdone k)
  intro p hp
  have hfr := h1.fr.trans hd2.fr
  exact fun hi => (h2 hflag).2 p (hd2.sub p hp) ((idle_congr hfr p.2).mp hi)

/-- **C12.4, fault-free** -/
theorem c12_idle (cfg : Cfg) (req : Int) (s : State) (hnf : NoFail s) (hn : (keys s.cache).Nodup) :
    ∀ p ∈ (compact cfg req s).1.cache, ¬ since (compact cfg req s).1.now ((compact cfg req s).1.obj p.2).lastAccess > cfg.cacheExpiry :=
  c12_idle_completed cfg req s hn ((compact_drops cfg req s hn).evs_ok hnf)

/-! ## C12.3 — least recently used, lifted to `compact` -/

/-- **C12.3 for `compact`**: every entry removed by the size loop (cached after the idle sweep, gone at the
end) was last used no later than every entry that survives; and (`compact_drops`, `EvictP`) each one
was the `victim`, hence minimal by `c12_lru`, in the intermediate state it was removed from. -/
theorem c12_lru_compact (cfg : Cfg) (req : Int) (s : State) (hn : (keys s.cache).Nodup) :
    ∀ p ∈ (swept cfg s).1.cache, p ∉ (compact cfg req s).1.cache →
      ∀ q ∈ (compact cfg req s).1.cache, (s.obj p.2).lastAccess ≤ (s.obj q.2).lastAccess := by
  obtain ⟨h1, _, _, _⟩ := swept_drops cfg s hn
  obtain ⟨e2, _, hd2⟩ := compact_drops_evict cfg req s
  intro p hp hnp q hq
  have := hd2.lru (nodup_of_sublist h1.sublist hn) (fun _ _ h => victim_lru h.1) p hp hnp q hq
  rwa [h1.obj, h1.obj] at this

/-- an entry removed by `compact` was idle or was removed by the size loop -/
theorem c12_removed_why (cfg : Cfg) (req : Int) (s : State) (hn : (keys s.cache).Nodup) :
    ∀ p ∈ s.cache, p ∉ (compact cfg req s).1.cache →
      Idle cfg s p.2 ∨ (p ∈ (swept cfg s).1.cache ∧ ((swept cfg s).1.cache.length : Int) + req > cfg.maxCache ∧ ¬ cfg.maxCache < 0) := by
  intro p hp hnp
  by_cases hsw : p ∈ (swept cfg s).1.cache
  · right
    refine ⟨hsw, ?_⟩
    by_cases hl : Loops cfg req s
    · have := hl.2
      omega
    · rw [compact_noloop hl] at hnp; exact absurd hsw hnp
  · left
    obtain ⟨h1, _, _, _⟩ := swept_drops cfg s hn
    -- the sweep only drops idle entries: a generic invariant argument
    have key : ∀ (a b : State) (evs : List Ev), Drops cfg (SweepP cfg) a b evs → (keys a.cache).Nodup → p ∈ a.cache → p ∉ b.cache →
        Idle cfg a p.2 := by
      intro a b evs hd
      induction hd with
      | refl s => intro _ h1 h2; exact absurd h1 h2
      | @step s s' id h evs hp' hok rest ih =>
        intro hn' hm hnm
        by_cases hk : p.1 = id
        · obtain ⟨pk, pv⟩ := p
          simp only at hk; subst hk
          rw [nodup_functional hn' hm hp'.1]; exact hp'.2
        · exact ih (nodup_erase hn') (mem_erase_of_ne hm hk) hnm
      | fail _ _ => intro _ h1 h2; exact absurd h1 h2
    exact key _ _ _ h1 hn hp hsw

/-! ## C12.1 — the size bound -/

theorem reqCap_eq_min (cfg : Cfg) (req : Int) : reqCap cfg req = min req cfg.maxCache := by
  unfold reqCap; split <;> omega

/-- after a fault-free `compact cfg req` with `MaxSessionCacheSize ≥ 0` there is room for `min req MaxSessionCacheSize`
more entries — however many entries the cache held before -/
theorem compact_room (cfg : Cfg) (req : Int) (s : State) (hnf : NoFail s) (hn : (keys s.cache).Nodup)
    (hN : 0 ≤ cfg.maxCache) :
    ((compact cfg req s).1.cache.length : Int) + min req cfg.maxCache ≤ cfg.maxCache := by
  obtain ⟨h1, _, _, h4⟩ := swept_drops cfg s hn
  by_cases hl : Loops cfg req s
  · rw [compact_loop hl]
    rcases evictLoop_room cfg (reqCap cfg req) _ (swept cfg s).1 (h1.nofail hnf) (nodup_of_sublist h1.sublist hn)
      (Nat.le_refl _) with h | h
    · have hr := reqCap_eq_min cfg req
      simp only at h ⊢
      omega
    · simp only [h, List.length_nil]
      omega
  · rw [compact_noloop hl]
    have hflag := h4 hnf
    have h2 : cfg.maxCache < 0 ∨ ((swept cfg s).1.cache.length : Int) + req ≤ cfg.maxCache := by
      by_cases h2 : cfg.maxCache < 0 ∨ ((swept cfg s).1.cache.length : Int) + req ≤ cfg.maxCache
      · exact h2
      · exact absurd ⟨by rw [hflag]; simp, h2⟩ hl
    simp only
    omega

theorem noFail_pop {s : State} (h : NoFail s) : NoFail s.pop := fun b hb => h b (List.mem_of_mem_tail hb)

theorem getOf_found_size (cfg : Cfg) (id : ID) (s0 : State) (o : Sess) (e0 : List Ev) (hnf : NoFail s0)
    (hn : (keys s0.cache).Nodup) (hN : 0 < cfg.maxCache) :
    ((Loc.getOf cfg id (s0, .found o, e0)).1.cache.length : Int) ≤ cfg.maxCache := by
  rw [Loc.getOf_found]
  have hb : (cfg.maxCache != 0) = true := by simp; omega
  rw [if_pos hb]
  have h1 := compact_room cfg 1 (s0.alloc o).2 hnf hn (by omega)
  have h2 := length_insert_le id s0.heap.length (compact cfg 1 (s0.alloc o).2).1.cache
  simp only
  omega

/-- **C12.1 for `cache.Get`** (`MaxSessionCacheSize = N > 0`, fault-free, unique keys): either the call left
the cache as it was — and then it did not load: a returned handle is the cached one — or the cache holds at
most `N` entries afterwards, even when it held more than `N` before. -/
theorem c12_size_get (cfg : Cfg) (s : State) (id : ID) (hnf : NoFail s) (hn : (keys s.cache).Nodup)
    (hN : 0 < cfg.maxCache) :
    ((cacheGet cfg s id).1.cache = s.cache ∧ ∀ h, (cacheGet cfg s id).2.1 = .some h → lookup id s.cache = some h) ∨
    ((cacheGet cfg s id).1.cache.length : Int) ≤ cfg.maxCache := by
  cases hc : lookup id s.cache with
  | some h0 =>
    rw [Loc.cacheGet_hit hc]
    exact Or.inl ⟨rfl, by intro h hh; simp only [GetRes.some.injEq] at hh; rw [hh]⟩
  | none =>
    rw [Loc.cacheGet_miss hc]
    have hcase := Loc.loadRec_cases s id
    generalize loadRec s id = x at hcase
    cases hcase with
    | fail hf => exact Or.inl ⟨rfl, by intro h hh; simp [Loc.getOf] at hh⟩
    | nil hf hl => exact Or.inl ⟨rfl, by intro h hh; simp [Loc.getOf] at hh⟩
    | plain r hf hl hu => exact Or.inr (getOf_found_size cfg id _ _ _ (noFail_pop hnf) hn hN)
    | userFail r uid hf hl hu hf2 => exact Or.inl ⟨rfl, by intro h hh; simp [Loc.getOf] at hh⟩
    | user r uid hf hl hu hf2 => exact Or.inr (getOf_found_size cfg id _ _ _ (noFail_pop (noFail_pop hnf)) hn hN)

/-- a `cache.Get` that loads (a handle is returned although the id was not cached) respects the bound -/
theorem c12_size_get_load (cfg : Cfg) (s : State) (id : ID) (hnf : NoFail s) (hn : (keys s.cache).Nodup)
    (hN : 0 < cfg.maxCache) (hmiss : lookup id s.cache = none) (h : Nat) (hres : (cacheGet cfg s id).2.1 = .some h) :
    ((cacheGet cfg s id).1.cache.length : Int) ≤ cfg.maxCache := by
  rcases c12_size_get cfg s id hnf hn hN with ⟨_, h2⟩ | h2
  · have := h2 h hres; rw [hmiss] at this; cases this
  · exact h2

/-- **C12.1, `N = 0`, `cache.Get`** (every oracle): nothing is ever inserted. -/
theorem c12_size_get_zero (cfg : Cfg) (s : State) (id : ID) (hN : cfg.maxCache = 0) :
    (cacheGet cfg s id).1.cache = s.cache := by
  cases hc : lookup id s.cache with
  | some h0 => rw [Loc.cacheGet_hit hc]
  | none =>
    rw [Loc.cacheGet_miss hc]
    have hb : ¬ (cfg.maxCache != 0) = true := by simp [hN]
    have hcase := Loc.loadRec_cases s id
    generalize loadRec s id = x at hcase
    cases hcase with
    | fail hf => rfl
    | nil hf hl => rfl
    | plain r hf hl hu => rw [Loc.getOf_found, if_neg hb]; rfl
    | userFail r uid hf hl hu hf2 => rfl
    | user r uid hf hl hu hf2 => rw [Loc.getOf_found, if_neg hb]; rfl

theorem sublist_length_lt {α : Type} {l' l : List α} (h : l'.Sublist l) {x : α} (hx : x ∈ l) (hnx : x ∉ l') :
    l'.length < l.length := by
  induction h with
  | slnil => simp at hx
  | cons a h ih =>
    have := h.length_le
    simp only [List.length_cons]; omega
  | cons_cons a h ih =>
    rcases List.mem_cons.mp hx with e | e
    · subst e; exact absurd List.mem_cons_self hnx
    · have := ih e (fun hm => hnx (List.mem_cons_of_mem _ hm))
      simp only [List.length_cons]; omega

/-- a generic invariant of a run -/
theorem Drops.inv {cfg : Cfg} {P : State → ID × Nat → Prop} {s s' : State} {evs : List Ev} (J : State → Prop)
    (hstep : ∀ s id h, J s → P s (id, h) → J (dropS cfg s id h)) (hfail : ∀ s, J s → J s.pop2)
    (hd : Drops cfg P s s' evs) (h0 : J s) : J s' := by
  induction hd with
  | refl s => exact h0
  | step hp _ _ ih => exact ih (hstep _ _ _ h0 hp)
  | fail _ _ => exact hfail _ h0

/-- The side condition under which a re-`Set` of an already cached session establishes the bound even from
an over-full cache: the session is cached under its own id, caching times are not negative, and every
OTHER cached session was last used strictly before now. Without it (`c12_size_set_needs_case`) a tie in
`lastAccess` lets the size loop evict the very entry that is then re-inserted. -/
structure SetKeeps (cfg : Cfg) (s : State) (h : Nat) : Prop where
  valid : h < s.heap.length
  mem : ((s.obj h).id, h) ∈ s.cache
  older : ∀ p ∈ s.cache, p.1 ≠ (s.obj h).id → p.2 ≠ h ∧ (s.obj p.2).lastAccess < s.now
  exp : 0 ≤ cfg.cacheExpiry

theorem length_le_one_of_all_eq {l : List (ID × Nat)} (hn : (keys l).Nodup) (x : ID × Nat) (h : ∀ q ∈ l, q = x) :
    l.length ≤ 1 := by
  match l, hn, h with
  | [], _, _ => simp
  | [_], _, _ => simp
  | a :: b :: r, hn, h =>
    have ha := h a List.mem_cons_self
    have hb := h b (List.mem_cons_of_mem _ List.mem_cons_self)
    subst ha; subst hb
    simp [keys] at hn

/-- under `SetKeeps` the compaction inside `Set` does not drop the session's own entry -/
theorem setKeeps_survives {cfg : Cfg} {s : State} {h : Nat} (hk : SetKeeps cfg s h) (hn : (keys s.cache).Nodup)
    (hN : 0 < cfg.maxCache) :
    ((s.obj h).id, h) ∈ (compact cfg 0 (Loc.setObjNow s h)).1.cache := by
  have hd := compact_drops cfg 0 (Loc.setObjNow s h) hn
  have hla : ((Loc.setObjNow s h).obj h).lastAccess = s.now := by
    rw [Loc.setObjNow_obj_self, if_pos hk.valid]
  let J : State → Prop := fun s1 => Loc.Fr (Loc.setObjNow s h) s1 ∧ (keys s1.cache).Nodup ∧ ((s.obj h).id, h) ∈ s1.cache ∧
    ∀ p ∈ s1.cache, p ∈ s.cache
  have hJ : J (compact cfg 0 (Loc.setObjNow s h)).1 := by
    refine Drops.inv J ?_ ?_ hd ⟨Loc.Fr.refl _, hn, hk.mem, fun _ hp => hp⟩
    · intro s1 id0 h0 ⟨hfr, hn1, hm1, hsub1⟩ hp
      have hne : id0 ≠ (s.obj h).id := by
        intro e
        subst e
        have hh : h0 = h := nodup_functional hn1 (compactP_mem _ _ hp) hm1
        subst hh
        rcases hp with hp | hp
        · have hi := hp.2
          unfold Idle since at hi
          rw [hfr.now, hfr.obj, hla] at hi
          have := hk.exp
          simp only [Loc.setObjNow_now] at hi
          omega
        · obtain ⟨hv, hover⟩ := hp
          have hl := (victim_lru hv).2
          have hall : ∀ q ∈ s1.cache, q = ((s.obj h0).id, h0) := by
            intro q hq
            by_cases hq1 : q.1 = (s.obj h0).id
            · obtain ⟨qk, qv⟩ := q
              simp only at hq1; subst hq1
              rw [nodup_functional hn1 hq hm1]
            · obtain ⟨hq2, hq3⟩ := hk.older q (hsub1 q hq) hq1
              have := hl q hq
              rw [hfr.obj, hfr.obj, hla, Loc.setObjNow_obj_ne (Ne.symm hq2)] at this
              omega
          have hlen := length_le_one_of_all_eq hn1 _ hall
          rw [reqCap_eq_min] at hover
          omega
      refine ⟨hfr.trans ⟨rfl, rfl, rfl, rfl, rfl, rfl⟩, nodup_erase hn1, mem_erase_of_ne hm1 (Ne.symm hne), ?_⟩
      intro p hp'; exact hsub1 p (mem_erase hp').1
    · intro s1 ⟨hfr, hn1, hm1, hsub1⟩
      exact ⟨hfr.trans ⟨rfl, rfl, rfl, rfl, rfl, rfl⟩, hn1, hm1, hsub1⟩
  exact hJ.2.2.1

/-- **C12.1 for `cache.Set`** (`MaxSessionCacheSize = N > 0`, fault-free, unique keys): afterwards the cache
holds at most `N` entries
* when the session was not cached before (a fresh insert) — even when the cache held MORE than `N`
  entries before (`N` was lowered);
* when the cache respected the bound before (so the bound is an invariant);
* when the session was cached, the cache was over-full, and `SetKeeps` holds.
The case distinction is necessary: `c12_size_set_needs_case`. -/
theorem c12_size_set (cfg : Cfg) (s : State) (h : Nat) (hnf : NoFail s) (hn : (keys s.cache).Nodup)
    (hN : 0 < cfg.maxCache)
    (hcase : lookup (s.obj h).id s.cache = none ∨ (s.cache.length : Int) ≤ cfg.maxCache ∨ SetKeeps cfg s h) :
    ((cacheSet cfg s h).1.cache.length : Int) ≤ cfg.maxCache := by
  rw [Loc.cacheSet_cache, if_pos (by omega)]
  have hC : Loc.setC cfg s h = compact cfg (Loc.setReq s h) (Loc.setObjNow s h) := rfl
  rw [hC]
  have hn0 : (keys (Loc.setObjNow s h).cache).Nodup := hn
  have hnf0 : NoFail (Loc.setObjNow s h) := hnf
  have hroom := compact_room cfg (Loc.setReq s h) (Loc.setObjNow s h) hnf0 hn0 (by omega)
  have hd := compact_drops cfg (Loc.setReq s h) (Loc.setObjNow s h) hn0
  have hins := length_insert_le (s.obj h).id h (compact cfg (Loc.setReq s h) (Loc.setObjNow s h)).1.cache
  have hlen : (compact cfg (Loc.setReq s h) (Loc.setObjNow s h)).1.cache.length ≤ s.cache.length := hd.length_le
  by_cases hlk : lookup (s.obj h).id s.cache = none
  · have hreq : Loc.setReq s h = 1 := by simp [Loc.setReq, hlk]
    rw [hreq] at hroom hins ⊢
    omega
  · obtain ⟨h', hh'⟩ := Option.ne_none_iff_exists'.mp hlk
    have hreq : Loc.setReq s h = 0 := by simp [Loc.setReq, hh']
    rw [hreq] at hroom hins hlen hd ⊢
    have hmem' := lookup_some_mem hh'
    rcases hcase with hc | hc | hc
    · exact absurd hc hlk
    · by_cases hstill : ∃ x, ((s.obj h).id, x) ∈ (compact cfg 0 (Loc.setObjNow s h)).1.cache
      · obtain ⟨x, hx⟩ := hstill
        have := length_insert_of_mem h hx
        omega
      · have hnot : ((s.obj h).id, h') ∉ (compact cfg 0 (Loc.setObjNow s h)).1.cache := fun hm => hstill ⟨h', hm⟩
        have hlt := sublist_length_lt hd.sublist (show ((s.obj h).id, h') ∈ (Loc.setObjNow s h).cache from hmem') hnot
        have : (Loc.setObjNow s h).cache.length = s.cache.length := rfl
        omega
    · have := length_insert_of_mem h (setKeeps_survives hc hn hN)
      omega

/-- **C12.1, `N = 0`, `cache.Set`** (fault-free): the cache is empty afterwards, whatever it held. -/
theorem c12_size_set_zero (cfg : Cfg) (s : State) (h : Nat) (hnf : NoFail s) (hn : (keys s.cache).Nodup)
    (hN : cfg.maxCache = 0) : (cacheSet cfg s h).1.cache = [] := by
  rw [Loc.cacheSet_cache, if_neg (by simp [hN])]
  have hC : Loc.setC cfg s h = compact cfg (Loc.setReq s h) (Loc.setObjNow s h) := rfl
  rw [hC]
  have hroom := compact_room cfg (Loc.setReq s h) (Loc.setObjNow s h) hnf hn (by omega)
  have hreq : Loc.setReq s h = 0 ∨ Loc.setReq s h = 1 := by unfold Loc.setReq; split <;> simp
  apply List.eq_nil_of_length_eq_zero
  rcases hreq with e | e <;> rw [e] at hroom ⊢ <;> omega

/-- **C12.1, `N = 0`, `cache.Set`** (every oracle): an empty cache stays empty; in general the cache is
what `compact` leaves of it (a sub-list: nothing is inserted), and without faults that is nothing. -/
theorem c12_size_set_zero_any (cfg : Cfg) (s : State) (h : Nat) (hN : cfg.maxCache = 0) :
    (cacheSet cfg s h).1.cache = (compact cfg (Loc.setReq s h) (Loc.setObjNow s h)).1.cache ∧
    (s.cache = [] → (cacheSet cfg s h).1.cache = []) := by
  rw [Loc.cacheSet_cache, if_neg (by simp [hN])]
  refine ⟨rfl, ?_⟩
  intro he
  have hsub := (Loc.compact_flushed cfg (Loc.setReq s h) (Loc.setObjNow s h)).cache_sub
  cases hc : (Loc.setC cfg s h).1.cache with
  | nil => rfl
  | cons p r =>
    have : p ∈ (Loc.setObjNow s h).cache := hsub p (by
      show p ∈ (Loc.setC cfg s h).1.cache
      rw [hc]; exact List.mem_cons_self)
    rw [show (Loc.setObjNow s h).cache = s.cache from rfl, he] at this
    simp at this

/-- **C12.1, `N < 0`** (every oracle): `compact` never evicts for size — no entry whose idle time is at most
`SessionCacheExpiry` is removed. -/
theorem c12_neg_keeps (cfg : Cfg) (req : Int) (s : State) (hn : (keys s.cache).Nodup) (hN : cfg.maxCache < 0) :
    ∀ p ∈ s.cache, ¬ since s.now (s.obj p.2).lastAccess > cfg.cacheExpiry → p ∈ (compact cfg req s).1.cache := by
  intro p hp hy
  by_cases hm : p ∈ (compact cfg req s).1.cache
  · exact hm
  · rcases c12_removed_why cfg req s hn p hp hm with h | ⟨_, _, h⟩
    · exact absurd h hy
    · exact absurd hN h

/-! ## C12.5 for `PurgeSessions` -/

theorem purge_eq (cfg : Cfg) (s : State) :
    purge cfg s = ({ (purgeList cfg s (orderBy s.picks s.cache)).1 with cache := [] },
                   (purgeList cfg s (orderBy s.picks s.cache)).2) := rfl

theorem purgeList_flush (cfg : Cfg) (l : List (ID × Nat)) (s : State) (hnf : NoFail s) :
    (∀ id h, (id, h) ∈ l → Ev.save id (enc cfg.codec (s.obj h)) ∈ (purgeList cfg s l).2) ∧
    (∀ k, (lookup k (purgeList cfg s l).1.store = lookup k s.store ∧ ∀ h, (k, h) ∉ l) ∨
       ∃ h, (k, h) ∈ l ∧ lookup k (purgeList cfg s l).1.store = some (enc cfg.codec (s.obj h))) := by
  induction l generalizing s with
  | nil => exact ⟨by intro id h hm; simp at hm, fun k => Or.inl ⟨rfl, by intro h hm; simp at hm⟩⟩
  | cons p rest ih =>
    obtain ⟨id0, h0⟩ := p
    simp only [purgeList, Sx.saveRec_eq cfg id0 (s.obj h0) hnf]
    obtain ⟨h1, h2⟩ := ih (saveS cfg s id0 (s.obj h0)) hnf.popF
    constructor
    · intro id h hm
      rcases List.mem_cons.mp hm with e | e
      · cases e; exact List.mem_append_left _ (List.mem_singleton.mpr rfl)
      · exact List.mem_append_right _ (h1 id h e)
    · intro k
      rcases h2 k with ⟨e, hk⟩ | ⟨x, hx, e⟩
      · by_cases hkid : k = id0
        · subst hkid
          exact Or.inr ⟨h0, List.mem_cons_self, by rw [e]; exact lookup_insert_self _ _ _⟩
        · refine Or.inl ⟨by rw [e]; exact lookup_insert_ne _ _ hkid, ?_⟩
          intro h hm
          rcases List.mem_cons.mp hm with e' | e'
          · cases e'; exact hkid rfl
          · exact hk h e'
      · exact Or.inr ⟨x, List.mem_cons_of_mem _ hx, e⟩

/-- **C12.5 for `PurgeSessions`** (fault-free; its errors are ignored by the code): the cache is emptied and
EVERY entry was flushed first: its save is among the events and the record under its key is the encoding
of its object. -/
theorem c12_purge_flush (cfg : Cfg) (s : State) (hnf : NoFail s) (hn : (keys s.cache).Nodup) :
    (purge cfg s).1.cache = [] ∧
    ∀ id h, (id, h) ∈ s.cache →
      Ev.save id (enc cfg.codec (s.obj h)) ∈ (purge cfg s).2 ∧
      lookup id (purge cfg s).1.store = some (enc cfg.codec (s.obj h)) := by
  rw [purge_eq]
  refine ⟨rfl, ?_⟩
  intro id h hm
  obtain ⟨h1, h2⟩ := purgeList_flush cfg (orderBy s.picks s.cache) s hnf
  have hmo := mem_orderBy_of_mem (picks := s.picks) hn hm
  refine ⟨h1 id h hmo, ?_⟩
  rcases h2 id with ⟨_, hk⟩ | ⟨x, hx, e⟩
  · exact absurd hmo (hk h)
  · rw [nodup_functional hn hm (mem_orderBy_sub hx)]; exact e

/-! ## C12.2 — nothing but `Set` and `Get` lengthens the cache, and these by at most one -/

theorem c12_no_growth_cacheDelete (s : State) (id : ID) : (cacheDelete s id).1.cache.length ≤ s.cache.length := by
  rw [Loc.cacheDelete_eq]; split <;> exact length_erase_le id s.cache

theorem c12_no_growth_purge (cfg : Cfg) (s : State) : (purge cfg s).1.cache.length ≤ s.cache.length := by
  rw [purge_eq]; exact Nat.zero_le _

theorem c12_no_growth_bgDelete (s : State) (id : ID) : (bgDelete s id).cache.length ≤ s.cache.length :=
  length_erase_le id s.cache

theorem c12_no_growth_destroy (s : State) (h : Nat) (b : Bool) : (destroy s h b).1.cache.length ≤ s.cache.length := by
  rw [Loc.destroy_eq]
  split
  · exact c12_no_growth_cacheDelete s _
  · split <;> exact c12_no_growth_cacheDelete s _

theorem c12_no_growth_hset (cfg : Cfg) (s : State) (h : Nat) (k : String) (v : Val) : (hset cfg s h k v).1.cache = s.cache := by
  cases hd : (s.obj h).data with
  | none => rw [Loc.hset_none k v hd]
  | some d => rw [Loc.hset_some k v hd]; simp [Loc.saveObj_eq]

theorem c12_no_growth_hdel (cfg : Cfg) (s : State) (h : Nat) (k : String) : (hdel cfg s h k).1.cache = s.cache := by
  rw [Loc.hdel_eq]; simp [Loc.saveObj_eq]

theorem c12_no_growth_hgetdel (cfg : Cfg) (s : State) (h : Nat) (k : String) : (hgetdel cfg s h k).1.cache = s.cache := by
  unfold hgetdel
  split
  · rfl
  · simp [Loc.saveObj_eq]

theorem c12_no_growth_hlogout (cfg : Cfg) (s : State) (h : Nat) : (hlogout cfg s h).1.cache = s.cache := by
  cases hu : (s.obj h).user with
  | none => rw [Loc.hlogout_none hu]
  | some u => rw [Loc.hlogout_some hu]; simp [Loc.saveObj_eq]

theorem c12_no_growth_touch (s : State) (h : Nat) (r : Req) : (touch s h r).cache = s.cache := rfl

/-- `compact` never lengthens the cache -/
theorem c12_no_growth_compact (cfg : Cfg) (req : Int) (s : State) (hn : (keys s.cache).Nodup) :
    (compact cfg req s).1.cache.Sublist s.cache := (compact_drops cfg req s hn).sublist

/-- `cache.Set` lengthens the cache by at most one (every oracle) -/
theorem c12_no_growth_cacheSet (cfg : Cfg) (s : State) (h : Nat) (hn : (keys s.cache).Nodup) :
    (cacheSet cfg s h).1.cache.length ≤ s.cache.length + 1 := by
  rw [Loc.cacheSet_cache]
  have hlen : (Loc.setC cfg s h).1.cache.length ≤ s.cache.length :=
    (compact_drops cfg (Loc.setReq s h) (Loc.setObjNow s h) hn).length_le
  split
  · have := length_insert_le (s.obj h).id h (Loc.setC cfg s h).1.cache
    omega
  · omega

theorem getOf_found_growth (cfg : Cfg) (id : ID) (s0 : State) (o : Sess) (e0 : List Ev) (hn : (keys s0.cache).Nodup) :
    (Loc.getOf cfg id (s0, .found o, e0)).1.cache.length ≤ s0.cache.length + 1 := by
  rw [Loc.getOf_found]
  split
  · have h1 : (compact cfg 1 (s0.alloc o).2).1.cache.length ≤ s0.cache.length := (compact_drops cfg 1 (s0.alloc o).2 hn).length_le
    have h2 := length_insert_le id s0.heap.length (compact cfg 1 (s0.alloc o).2).1.cache
    simp only
    omega
  · exact Nat.le_succ _

/-- `cache.Get` lengthens the cache by at most one (every oracle) -/
theorem c12_no_growth_cacheGet (cfg : Cfg) (s : State) (id : ID) (hn : (keys s.cache).Nodup) :
    (cacheGet cfg s id).1.cache.length ≤ s.cache.length + 1 := by
  cases hc : lookup id s.cache with
  | some h0 => rw [Loc.cacheGet_hit hc]; exact Nat.le_succ _
  | none =>
    rw [Loc.cacheGet_miss hc]
    have hcase := Loc.loadRec_cases s id
    generalize loadRec s id = x at hcase
    cases hcase with
    | fail hf => exact Nat.le_succ _
    | nil hf hl => exact Nat.le_succ _
    | plain r hf hl hu => exact getOf_found_growth cfg id _ _ _ hn
    | userFail r uid hf hl hu hf2 => exact Nat.le_succ _
    | user r uid hf hl hu hf2 => exact getOf_found_growth cfg id _ _ _ hn

/-- **C12.2**, collected. -/
theorem c12_no_growth (cfg : Cfg) (s : State) (hn : (keys s.cache).Nodup) :
    (∀ id, (cacheDelete s id).1.cache.length ≤ s.cache.length) ∧
    (purge cfg s).1.cache.length ≤ s.cache.length ∧
    (∀ id, (bgDelete s id).cache.length ≤ s.cache.length) ∧
    (∀ h b, (destroy s h b).1.cache.length ≤ s.cache.length) ∧
    (∀ h k v, (hset cfg s h k v).1.cache = s.cache) ∧
    (∀ h k, (hdel cfg s h k).1.cache = s.cache) ∧
    (∀ h k, (hgetdel cfg s h k).1.cache = s.cache) ∧
    (∀ h, (hlogout cfg s h).1.cache = s.cache) ∧
    (∀ h r, (touch s h r).cache = s.cache) ∧
    (∀ h, (cacheSet cfg s h).1.cache.length ≤ s.cache.length + 1) ∧
    (∀ id, (cacheGet cfg s id).1.cache.length ≤ s.cache.length + 1) :=
  ⟨c12_no_growth_cacheDelete s, c12_no_growth_purge cfg s, c12_no_growth_bgDelete s, c12_no_growth_destroy s,
   c12_no_growth_hset cfg s, c12_no_growth_hdel cfg s, c12_no_growth_hgetdel cfg s, c12_no_growth_hlogout cfg s,
   c12_no_growth_touch s, fun h => c12_no_growth_cacheSet cfg s h hn, fun id => c12_no_growth_cacheGet cfg s id hn⟩

/-! ## C12.4 / C12.5 at the level of the cache writes `Set` and `Get` -/

theorem mem_insert_of_ne {κ β : Type} [DecidableEq κ] {k : κ} {v : β} {p : κ × β} {m : List (κ × β)} (h : p ∈ m) (hne : p.1 ≠ k) :
    p ∈ insert k v m := List.mem_cons_of_mem _ (mem_erase_of_ne h hne)

/-- the cache after `Set`, apart from the session's own key, is what its compaction left -/
theorem cacheSet_cache_other (cfg : Cfg) (s : State) (h : Nat) (p : ID × Nat) (hne : p.1 ≠ (s.obj h).id) :
    p ∈ (cacheSet cfg s h).1.cache ↔ p ∈ (compact cfg (Loc.setReq s h) (Loc.setObjNow s h)).1.cache := by
  rw [Loc.cacheSet_cache]
  show _ ↔ p ∈ (Loc.setC cfg s h).1.cache
  split
  · constructor
    · intro hp
      rcases mem_insert hp with e | ⟨hp', _⟩
      · rw [e] at hne; exact absurd rfl hne
      · exact hp'
    · intro hp; exact mem_insert_of_ne hp hne
  · exact Iff.rfl

/-- **C12.4 for `cache.Set`** (fault-free): after the call no OTHER cached session has been unused for longer
than `SessionCacheExpiry`; the session itself carries `lastAccess = now`. -/
theorem c12_idle_set (cfg : Cfg) (s : State) (h : Nat) (hnf : NoFail s) (hn : (keys s.cache).Nodup) :
    (∀ p ∈ (cacheSet cfg s h).1.cache, p.1 ≠ (s.obj h).id →
      ¬ since (cacheSet cfg s h).1.now ((cacheSet cfg s h).1.obj p.2).lastAccess > cfg.cacheExpiry) ∧
    (h < s.heap.length → ((cacheSet cfg s h).1.obj h).lastAccess = (cacheSet cfg s h).1.now) := by
  constructor
  · intro p hp hne
    have hp' := (cacheSet_cache_other cfg s h p hne).mp hp
    have hi := c12_idle cfg (Loc.setReq s h) (Loc.setObjNow s h) hnf hn p hp'
    have hfr := (compact_drops cfg (Loc.setReq s h) (Loc.setObjNow s h) hn).fr
    have hfr2 := Loc.cacheSet_fr cfg s h
    rw [hfr.now, hfr.obj] at hi
    rw [hfr2.now, hfr2.obj]
    exact hi
  · intro hv
    rw [Loc.cacheSet_obj_self cfg hv, Loc.cacheSet_now]

/-- **C12.5 for `cache.Set`** (every oracle): every other session that was cached before the call and is not
cached after it was saved during the call, with the state (and last access time) it had in the cache. -/
theorem c12_flush_first_set (cfg : Cfg) (s : State) (h : Nat) (hn : (keys s.cache).Nodup) :
    ∀ k x, (k, x) ∈ s.cache → k ≠ (s.obj h).id → (k, x) ∉ (cacheSet cfg s h).1.cache →
      Ev.save k (enc cfg.codec ((cacheSet cfg s h).1.obj x)) ∈ (cacheSet cfg s h).2.2 ∧
      lookup k (cacheSet cfg s h).1.store = some (enc cfg.codec ((cacheSet cfg s h).1.obj x)) := by
  intro k x hm hne hnm
  have hnm' : (k, x) ∉ (compact cfg (Loc.setReq s h) (Loc.setObjNow s h)).1.cache :=
    fun hc => hnm ((cacheSet_cache_other cfg s h (k, x) hne).mpr hc)
  obtain ⟨h1, h2⟩ := c12_flush_first cfg (Loc.setReq s h) (Loc.setObjNow s h) hn k x hm hnm'
  rw [Loc.cacheSet_obj]
  refine ⟨?_, ?_⟩
  · rw [Loc.cacheSet_evs]; exact List.mem_append_left _ h1
  · cases hok : (cacheSet cfg s h).2.1 with
    | true => rw [Loc.cacheSet_store_ok hok, lookup_insert_ne _ _ hne]; exact h2
    | false => rw [Loc.cacheSet_store_fail hok]; exact h2

theorem getOf_found_flush (cfg : Cfg) (id : ID) (s0 : State) (o : Sess) (e0 : List Ev) (hn : (keys s0.cache).Nodup) :
    ∀ k x, (k, x) ∈ s0.cache → k ≠ id → (k, x) ∉ (Loc.getOf cfg id (s0, .found o, e0)).1.cache →
      Ev.save k (enc cfg.codec ((Loc.getOf cfg id (s0, .found o, e0)).1.obj x)) ∈ (Loc.getOf cfg id (s0, .found o, e0)).2.2 ∧
      lookup k (Loc.getOf cfg id (s0, .found o, e0)).1.store =
        some (enc cfg.codec ((Loc.getOf cfg id (s0, .found o, e0)).1.obj x)) := by
  intro k x hm hne hnm
  rw [Loc.getOf_found] at hnm ⊢
  split at hnm
  · rename_i hb
    rw [if_pos hb]
    have hnm' : (k, x) ∉ (compact cfg 1 (s0.alloc o).2).1.cache := fun hc => hnm (mem_insert_of_ne hc hne)
    obtain ⟨h1, h2⟩ := c12_flush_first cfg 1 (s0.alloc o).2 hn k x hm hnm'
    have hobj : (compact cfg 1 (s0.alloc o).2).1.obj x = (s0.alloc o).2.obj x := (compact_drops cfg 1 (s0.alloc o).2 hn).obj x
    show Ev.save k (enc cfg.codec ((compact cfg 1 (s0.alloc o).2).1.obj x)) ∈ _ ∧
      lookup k (compact cfg 1 (s0.alloc o).2).1.store = some (enc cfg.codec ((compact cfg 1 (s0.alloc o).2).1.obj x))
    rw [hobj]
    exact ⟨List.mem_append_right _ h1, h2⟩
  · exact absurd hm hnm

/-- **C12.5 for `cache.Get`** (every oracle): every session that was cached before the call and is not cached
after it was saved during the call, with the state (and last access time) it had in the cache. -/
theorem c12_flush_first_get (cfg : Cfg) (s : State) (id : ID) (hn : (keys s.cache).Nodup) :
    ∀ k x, (k, x) ∈ s.cache → (k, x) ∉ (cacheGet cfg s id).1.cache →
      Ev.save k (enc cfg.codec ((cacheGet cfg s id).1.obj x)) ∈ (cacheGet cfg s id).2.2 ∧
      lookup k (cacheGet cfg s id).1.store = some (enc cfg.codec ((cacheGet cfg s id).1.obj x)) := by
  intro k x hm
  cases hc : lookup id s.cache with
  | some h0 => rw [Loc.cacheGet_hit hc]; intro hnm; exact absurd hm hnm
  | none =>
    have hne : k ≠ id := by intro e; subst e; exact lookup_none_not_mem hc x hm
    rw [Loc.cacheGet_miss hc]
    have hcase := Loc.loadRec_cases s id
    generalize loadRec s id = y at hcase
    cases hcase with
    | fail hf => intro hnm; exact absurd hm hnm
    | nil hf hl => intro hnm; exact absurd hm hnm
    | plain r hf hl hu => exact getOf_found_flush cfg id s.pop _ _ hn k x hm hne
    | userFail r uid hf hl hu hf2 => intro hnm; exact absurd hm hnm
    | user r uid hf hl hu hf2 => exact getOf_found_flush cfg id s.pop.pop _ _ hn k x hm hne

/-- **C12.4 for `cache.Get`** (fault-free): after a call that loads, no cached session other than the loaded one
has been unused for longer than `SessionCacheExpiry`. (The loaded object itself carries the last access time of
its record; `Start` stamps it right away.) -/
theorem c12_idle_get (cfg : Cfg) (s : State) (id : ID) (hnf : NoFail s) (hn : (keys s.cache).Nodup)
    (hN : cfg.maxCache ≠ 0) (hmiss : lookup id s.cache = none) (h : Nat) (hres : (cacheGet cfg s id).2.1 = .some h) :
    ∀ p ∈ (cacheGet cfg s id).1.cache, p.1 ≠ id →
      ¬ since (cacheGet cfg s id).1.now ((cacheGet cfg s id).1.obj p.2).lastAccess > cfg.cacheExpiry := by
  have hb : (cfg.maxCache != 0) = true := by simpa using hN
  have key : ∀ (s0 : State) (o : Sess) (e0 : List Ev), NoFail s0 → (keys s0.cache).Nodup →
      ∀ p ∈ (Loc.getOf cfg id (s0, .found o, e0)).1.cache, p.1 ≠ id →
        ¬ since (Loc.getOf cfg id (s0, .found o, e0)).1.now ((Loc.getOf cfg id (s0, .found o, e0)).1.obj p.2).lastAccess > cfg.cacheExpiry := by
    intro s0 o e0 hnf0 hn0 p hp hne
    rw [Loc.getOf_found, if_pos hb] at hp ⊢
    have hp' : p ∈ (compact cfg 1 (s0.alloc o).2).1.cache := by
      rcases mem_insert hp with e | ⟨hp', _⟩
      · rw [e] at hne; exact absurd rfl hne
      · exact hp'
    exact c12_idle cfg 1 (s0.alloc o).2 hnf0 hn0 p hp'
  revert hres
  rw [Loc.cacheGet_miss hmiss]
  have hcase := Loc.loadRec_cases s id
  generalize loadRec s id = y at hcase
  cases hcase with
  | fail hf => intro hres; simp [Loc.getOf] at hres
  | nil hf hl => intro hres; simp [Loc.getOf] at hres
  | plain r hf hl hu => intro _; exact key s.pop _ _ (noFail_pop hnf) hn
  | userFail r uid hf hl hu hf2 => intro hres; simp [Loc.getOf] at hres
  | user r uid hf hl hu hf2 => intro _; exact key s.pop.pop _ _ (noFail_pop (noFail_pop hnf)) hn

/-! ## non-vacuity and the necessary side condition -/

section Examples

def xo (n : Nat) (la : Int) : Sess := { id := .gen n, created := 0, lastAccess := la }

/-- three sessions on the heap, two of them cached, at time 5; the cache limit is about to be 1 -/
def xS : State :=
  { now := 5, heap := [xo 0 1, xo 1 2, xo 2 3], cache := [(.gen 1, 1), (.gen 0, 0)], nextId := 3,
    store := [(.gen 0, enc .gob (xo 0 0)), (.gen 1, enc .gob (xo 1 0)), (.gen 2, enc .gob (xo 2 0))] }

def xC1 : Cfg := { maxCache := 1 }

example : NoFail xS := noFail_of_nil rfl
example : (keys xS.cache).Nodup := by decide

/-- LRU: the victim is the entry used at time 1, not the first in the list -/
example : victim xS = some (.gen 0, 0) := by decide
example : ∀ p ∈ xS.cache, (xS.obj 0).lastAccess ≤ (xS.obj p.2).lastAccess := (c12_lru (s := xS) (id := .gen 0) (h := 0) (by decide)).2

/-- size: the cache holds 2 > N = 1 entries (N was lowered); a fresh `Set` leaves exactly one, having flushed
both others, least recently used first, each with its last access time -/
example : (cacheSet xC1 xS 2).1.cache = [(.gen 2, 2)] := by decide
example : (cacheSet xC1 xS 2).2.2 =
    [.save (.gen 0) (enc .gob (xo 0 1)), .save (.gen 1) (enc .gob (xo 1 2)), .save (.gen 2) (enc .gob (xo 2 5))] := by decide
example : ((cacheSet xC1 xS 2).1.cache.length : Int) ≤ xC1.maxCache :=
  c12_size_set xC1 xS 2 (noFail_of_nil rfl) (by decide) (by decide) (Or.inl (by decide))
example : lookup (.gen 0) (cacheSet xC1 xS 2).1.store = some (enc .gob (xo 0 1)) := by decide

/-- `Get` that loads: same bound -/
example : (cacheGet xC1 xS (.gen 2)).1.cache = [(.gen 2, 3)] ∧ (cacheGet xC1 xS (.gen 2)).2.1 = .some 3 := by decide

/-- `N = 0`: `Set` empties the cache (flushing), `Get` inserts nothing -/
example : (cacheSet { maxCache := 0 } xS 2).1.cache = [] := by decide
example : (cacheGet { maxCache := 0 } xS (.gen 2)).1.cache = xS.cache := by decide

/-- `N < 0`: nothing is evicted for size … -/
example : (compact { maxCache := -1 } 1 xS).1.cache = xS.cache := by decide
/-- … but idle entries still go: with `SessionCacheExpiry` = 3 ns the entry unused for 4 ns is dropped, the one
unused for 3 ns stays -/
example : (compact { maxCache := -1, cacheExpiry := 3 } 1 xS).1.cache = [(.gen 1, 1)] := by decide
example : (compact { maxCache := -1, cacheExpiry := 3 } 1 xS).2 = [.save (.gen 0) (enc .gob (xo 0 1))] := by decide

/-- a failed flush aborts the compaction: nothing is dropped, not even the second over-age entry -/
example : (compact { maxCache := 1, cacheExpiry := 0 } 1 { xS with fails := [true] }).1.cache = xS.cache ∧
    (compact { maxCache := 1, cacheExpiry := 0 } 1 { xS with fails := [true] }).2 = [.saveFail (.gen 1)] := by decide
/-- … and a flush that fails later leaves exactly the unsaved entry (and what was not yet visited) cached -/
example : (compact { maxCache := 1, cacheExpiry := 0 } 1 { xS with fails := [false, true] }).1.cache = [(.gen 0, 0)] ∧
    (compact { maxCache := 1, cacheExpiry := 0 } 1 { xS with fails := [false, true] }).2 =
      [.save (.gen 1) (enc .gob (xo 1 2)), .saveFail (.gen 0)] := by decide

/-- `PurgeSessions` -/
example : (purge {} xS).1.cache = [] ∧
    (purge {} xS).2 = [.save (.gen 1) (enc .gob (xo 1 2)), .save (.gen 0) (enc .gob (xo 0 1))] := by decide

/-- two cached sessions last used at the same instant (now), limit lowered to 1, the order oracle names the
session being `Set` -/
def xTie : State :=
  { now := 5, heap := [xo 0 5, xo 1 5], cache := [(.gen 0, 0), (.gen 1, 1)], nextId := 2, picks := [.gen 0] }

/-- **the case distinction of `c12_size_set` is necessary**: a re-`Set` of a cached session on an over-full
cache, with a tie in `lastAccess`, evicts the session's own entry and re-inserts it: 2 > N = 1 entries remain.
(The Go code does the same: `compact(0)` may pick the session itself when `time.Now()` ties.) -/
theorem c12_size_set_needs_case :
    NoFail xTie ∧ (keys xTie.cache).Nodup ∧ 0 < xC1.maxCache ∧ ¬ ((cacheSet xC1 xTie 0).1.cache.length : Int) ≤ xC1.maxCache := by
  refine ⟨noFail_of_nil rfl, by decide, by decide, by decide⟩

/-- with the other session strictly older `SetKeeps` holds and the bound is re-established -/
def xOld : State :=
  { now := 5, heap := [xo 0 4, xo 1 3], cache := [(.gen 0, 0), (.gen 1, 1)], nextId := 2, picks := [.gen 0] }

example : SetKeeps xC1 xOld 0 :=
  ⟨by decide, by decide, by decide, by decide⟩
example : (cacheSet xC1 xOld 0).1.cache = [(.gen 0, 0)] := by decide

end Examples

end Sx.More
