import Sessions.Proofs.Inv.All
import Sessions.Proofs.Local.All
/-!
# I3 — the reference structure of the session model, at every operation boundary of every history

* `RefShape`/`ObjShape`/`RecShape`, `I3`: a reference record sits under a minted id `gen a`, points to a
  LATER-minted id `gen b` (`a < b`) and carries no data; a session proper has a non-nil data map.
* T-local preservation for every operation (`i3_cacheSet`, `i3_cacheGet`, `i3_purge`, `i3_regenerate`,
  `i3_createNew`, `i3_follow`, `i3_startValid`, `i3_start`, handlers, user loops, `i3_hlogin`, time, restart,
  crash points); most of them for every oracle.
* `W3`, `WInv3`, `step_w3`, `step_inv3`, `i3_all_histories`.
* consequences: `i3_refStep_lt`, `i3_acyclic`.
* the conjunct "a reference record carries no user" is NOT invariant: `i3_userScript`.
-/
namespace Sx.More

/-! ## 1. the reference-structure invariant I3 -/

/-- the reference structure of one record, read off its key, its reference field and its data:
* a reference (`ref = some t`) sits under a minted id `gen a`, points to a LATER-minted id `gen b` (`a < b`),
  and carries no data (`nil` map, or the empty map a gob round trip turns it into);
* a session proper (`ref = none`) has a non-nil data map. -/
def RefShape (id : ID) (ref : Option ID) (data : Option Data) : Prop :=
  (∀ t, ref = some t → (∃ a b, id = .gen a ∧ t = .gen b ∧ a < b) ∧ (data = none ∨ data = some [])) ∧
  (ref = none → data ≠ none)

def ObjShape (o : Sess) : Prop := RefShape o.id o.ref o.data
def RecShape (id : ID) (r : Rec) : Prop := RefShape id r.ref r.data

/-- every record found in the store has the reference structure. -/
def StoreI3 (st : List (ID × Rec)) : Prop := ∀ id r, lookup id st = some r → RecShape id r

/-- every record an operation writes has the reference structure. -/
def EvsI3 (evs : List Ev) : Prop := ∀ id r, Ev.save id r ∈ evs → RecShape id r

/-- **I3.** Every object on the heap (cached or not; handles out of range read the default object, which is a
session proper with an empty map) and every stored record has the reference structure; cache handles are
allocated; a cached *reference* object sits under its own id. (`valid` and `key` also follow from `Inv`; they
are repeated here so that I3 is inductive on its own, also in the middle of `RegenerateID` where `Inv.wf` is
broken at the old key.) -/
structure I3 (s : State) : Prop where
  heap : ∀ h, ObjShape (s.obj h)
  valid : ∀ id h, (id, h) ∈ s.cache → h < s.heap.length
  key : ∀ id h, (id, h) ∈ s.cache → (s.obj h).ref ≠ none → (s.obj h).id = id
  store : StoreI3 s.store

theorem i3_init : I3 ({} : State) :=
  ⟨fun h => ⟨fun t ht => by simp [State.obj] at ht, fun _ => by simp [State.obj]⟩,
   by intro _ _ h; simp at h, by intro _ _ h; simp at h, by intro _ _ h; simp [lookup] at h⟩

/-- I3 reads heap, cache and store only. -/
theorem I3.congr {s s' : State} (hi : I3 s) (h1 : s'.heap = s.heap) (h2 : s'.cache = s.cache) (h3 : s'.store = s.store) :
    I3 s' := by
  have ho : ∀ k, s'.obj k = s.obj k := obj_of_heap_eq h1
  refine ⟨fun h => by rw [ho]; exact hi.heap h, ?_, ?_, by rw [StoreI3, h3]; exact hi.store⟩
  · intro id h hm; rw [h2] at hm; rw [h1]; exact hi.valid id h hm
  · intro id h hm; rw [h2] at hm; rw [ho]; exact hi.key id h hm

theorem EvsI3.nil : EvsI3 [] := by intro _ _ h; simp at h
theorem EvsI3.append {a b : List Ev} (ha : EvsI3 a) (hb : EvsI3 b) : EvsI3 (a ++ b) := by
  intro id r h
  rcases List.mem_append.mp h with h | h
  · exact ha id r h
  · exact hb id r h
theorem EvsI3.single_other {e : Ev} (he : ∀ id r, e ≠ .save id r) : EvsI3 [e] := by
  intro id r h
  simp only [List.mem_singleton] at h
  exact absurd h.symm (he id r)
theorem EvsI3.single_save {id : ID} {r : Rec} (h : RecShape id r) : EvsI3 [.save id r] := by
  intro id' r' hm
  simp only [List.mem_singleton, Ev.save.injEq] at hm
  rw [hm.1, hm.2]; exact h

/-! ### shapes and the codecs -/

theorem i3_shape_enc (c : Codec) (k : ID) (o : Sess) (h : RefShape k o.ref o.data) :
    RefShape k (enc c o).ref (enc c o).data := by
  obtain ⟨h1, h2⟩ := h
  rw [enc_ref]
  constructor
  · intro t ht
    obtain ⟨hab, hd⟩ := h1 t ht
    refine ⟨hab, ?_⟩
    cases c with
    | gob => right; rcases hd with hd | hd <;> simp [enc, hd]
    | json => rcases hd with hd | hd <;> simp [enc, hd, convData]
  · intro hr
    have hne := h2 hr
    cases c with
    | gob => simp [enc]
    | json =>
      cases hd : o.data with
      | none => exact absurd hd hne
      | some d => simp [enc, hd]

/-- the record a flush writes: the object's shape, under the object's own id or (for a session proper) any key. -/
theorem i3_rec_enc (c : Codec) (k : ID) (o : Sess) (ho : ObjShape o) (hk : o.ref ≠ none → o.id = k) :
    RecShape k (enc c o) := by
  apply i3_shape_enc
  cases hr : o.ref with
  | none =>
    refine ⟨fun t ht => by simp at ht, fun _ => ?_⟩
    exact ho.2 hr
  | some t =>
    rw [← hk (by rw [hr]; simp), ← hr]; exact ho

theorem i3_obj_dec (v : String → Nat) (id : ID) (r : Rec) (h : RecShape id r) : ObjShape (dec v id r) := h

/-- the default object (what a dangling handle reads) is a session proper. -/
theorem i3_default_shape : ObjShape { id := .lit "", created := 0, lastAccess := 0 } :=
  ⟨fun t ht => by simp at ht, fun _ => by simp⟩

/-- an object that differs from one with the shape in neither id, reference nor data has the shape. -/
theorem ObjShape.of_same {o o' : Sess} (h : ObjShape o) (h1 : o'.id = o.id) (h2 : o'.ref = o.ref) (h3 : o'.data = o.data) :
    ObjShape o' := by
  unfold ObjShape; rw [h1, h2, h3]; exact h

/-! ### elementary updates -/

theorem StoreI3.insert {st : List (ID × Rec)} (h : StoreI3 st) {k : ID} {r : Rec} (hr : RecShape k r) :
    StoreI3 (insert k r st) := by
  intro id r' hl
  rw [Loc.lookup_insert] at hl
  split at hl
  · rename_i e; subst e; simp only [Option.some.injEq] at hl; subst hl; exact hr
  · exact h id r' hl

theorem StoreI3.erase {st : List (ID × Rec)} (h : StoreI3 st) (k : ID) : StoreI3 (erase k st) := by
  intro id r' hl
  rw [Loc.lookup_erase] at hl
  split at hl
  · simp at hl
  · exact h id r' hl

theorem i3_obj_alloc (s : State) (o : Sess) (x : Nat) :
    (s.alloc o).2.obj x = if x = s.heap.length then o else s.obj x := by
  by_cases h1 : x < s.heap.length
  · rw [Loc.obj_alloc_old h1, if_neg (by omega)]
  · by_cases h2 : x = s.heap.length
    · subst h2; rw [Loc.obj_alloc_new, if_pos rfl]
    · rw [if_neg h2]
      have h3 : s.heap.length + 1 ≤ x := by omega
      simp [State.obj, State.alloc, List.getD_eq_getElem?_getD, h3, Nat.le_of_lt h3]

/-- overwriting an object without touching id, reference, data. -/
theorem I3.setObj_same {s : State} (hi : I3 s) (h : Nat) (o' : Sess) (h1 : o'.id = (s.obj h).id)
    (h2 : o'.ref = (s.obj h).ref) (h3 : o'.data = (s.obj h).data) : I3 (s.setObj h o') := by
  have hsame : ∀ x, ((s.setObj h o').obj x).id = (s.obj x).id ∧ ((s.setObj h o').obj x).ref = (s.obj x).ref ∧
      ((s.setObj h o').obj x).data = (s.obj x).data := by
    intro x
    rw [Loc.obj_setObj]
    split
    · rename_i hx; obtain ⟨rfl, _⟩ := hx; exact ⟨h1, h2, h3⟩
    · exact ⟨rfl, rfl, rfl⟩
  refine ⟨fun x => (hi.heap x).of_same (hsame x).1 (hsame x).2.1 (hsame x).2.2, ?_, ?_, hi.store⟩
  · intro id x hm; rw [Loc.setObj_heap_length]; exact hi.valid id x hm
  · intro id x hm hr
    rw [(hsame x).1]; rw [(hsame x).2.1] at hr
    exact hi.key id x hm hr

/-- overwriting an object by a session proper (the id may change, the data may change). -/
theorem I3.setObj_plain {s : State} (hi : I3 s) (h : Nat) (o' : Sess)
    (hr : o'.ref = none) (hd : o'.data ≠ none) : I3 (s.setObj h o') := by
  refine ⟨?_, ?_, ?_, hi.store⟩
  · intro x
    rw [Loc.obj_setObj]
    split
    · exact ⟨fun t ht => by rw [hr] at ht; simp at ht, fun _ => hd⟩
    · exact hi.heap x
  · intro id x hm; rw [Loc.setObj_heap_length]; exact hi.valid id x hm
  · intro id x hm hrx
    rw [Loc.obj_setObj] at hrx ⊢
    split
    · rename_i hx; rw [if_pos hx] at hrx; exact absurd hr hrx
    · rename_i hx; rw [if_neg hx] at hrx; exact hi.key id x hm hrx

theorem I3.alloc {s : State} (hi : I3 s) (o : Sess) (ho : ObjShape o) : I3 (s.alloc o).2 := by
  refine ⟨?_, ?_, ?_, hi.store⟩
  · intro x; rw [i3_obj_alloc]; split
    · exact ho
    · exact hi.heap x
  · intro id x hm
    have := hi.valid id x hm
    rw [alloc_len]; omega
  · intro id x hm
    have hv := hi.valid id x hm
    rw [Loc.obj_alloc_old hv]
    exact hi.key id x hm

theorem I3.touch {s : State} (hi : I3 s) (h : Nat) (r : Req) : I3 (touch s h r) :=
  hi.setObj_same h _ rfl rfl rfl

/-- a `SaveSession(id, o)` (whatever the oracle) of an object with the shape, under its own id. -/
theorem i3_saveRec (cfg : Cfg) {s : State} (hi : I3 s) (id : ID) (o : Sess) (ho : ObjShape o)
    (hk : o.ref ≠ none → o.id = id) : I3 (saveRec cfg s id o).1 ∧ EvsI3 (saveRec cfg s id o).2.2 := by
  rw [Loc.saveRec_eq]
  split
  · exact ⟨hi.congr rfl rfl rfl, EvsI3.single_other (by intro _ _ h; cases h)⟩
  · have hr := i3_rec_enc cfg.codec id o ho hk
    exact ⟨⟨hi.heap, hi.valid, hi.key, hi.store.insert hr⟩, EvsI3.single_save hr⟩

/-- `cache.Delete` (whatever the oracle). -/
theorem i3_cacheDelete {s : State} (hi : I3 s) (id : ID) : I3 (cacheDelete s id).1 ∧ EvsI3 (cacheDelete s id).2.2 := by
  have hc : I3 ({ s with cache := erase id s.cache } : State) :=
    ⟨hi.heap, fun k x hm => hi.valid k x (Sx.mem_erase hm).1, fun k x hm => hi.key k x (Sx.mem_erase hm).1, hi.store⟩
  rw [Loc.cacheDelete_eq]
  split
  · exact ⟨hc.congr rfl rfl rfl, EvsI3.single_other (by intro _ _ h; cases h)⟩
  · exact ⟨⟨hi.heap, hc.valid, hc.key, hi.store.erase id⟩, EvsI3.single_other (by intro _ _ h; cases h)⟩

theorem i3_bgDelete {s : State} (hi : I3 s) (id : ID) : I3 (bgDelete s id) :=
  ⟨hi.heap, fun k x hm => hi.valid k x (Sx.mem_erase hm).1, fun k x hm => hi.key k x (Sx.mem_erase hm).1, hi.store.erase id⟩

/-! ### `cache.Set`, `cache.Get` (whatever the oracles) -/

theorem i3_setObjNow_same (s : State) (h x : Nat) :
    ((Loc.setObjNow s h).obj x).id = (s.obj x).id ∧ ((Loc.setObjNow s h).obj x).ref = (s.obj x).ref ∧
    ((Loc.setObjNow s h).obj x).data = (s.obj x).data := by
  unfold Loc.setObjNow
  rw [Loc.obj_setObj]
  split
  · rename_i hx; obtain ⟨rfl, _⟩ := hx; exact ⟨rfl, rfl, rfl⟩
  · exact ⟨rfl, rfl, rfl⟩

theorem i3_cacheSet_same (cfg : Cfg) (s : State) (h x : Nat) :
    ((cacheSet cfg s h).1.obj x).id = (s.obj x).id ∧ ((cacheSet cfg s h).1.obj x).ref = (s.obj x).ref ∧
    ((cacheSet cfg s h).1.obj x).data = (s.obj x).data := by
  rw [Loc.cacheSet_obj]; exact i3_setObjNow_same s h x

/-- a flush event of an entry of a cache that satisfies I3 writes a record with the shape. -/
theorem i3_isFlush {cfg : Cfg} {s : State} (hi : I3 s) {obj : Nat → Sess}
    (hobj : ∀ x, (obj x).id = (s.obj x).id ∧ (obj x).ref = (s.obj x).ref ∧ (obj x).data = (s.obj x).data)
    {e : Ev} (he : Loc.IsFlush cfg s.cache obj e) : EvsI3 [e] := by
  obtain ⟨k, x, hm, h | h⟩ := he
  · subst h
    apply EvsI3.single_save
    apply i3_rec_enc _ _ _ ((hi.heap x).of_same (hobj x).1 (hobj x).2.1 (hobj x).2.2)
    rw [(hobj x).1, (hobj x).2.1]
    exact hi.key k x hm
  · subst h; exact EvsI3.single_other (by intro _ _ h; cases h)

theorem EvsI3.of_each {l : List Ev} (h : ∀ e ∈ l, EvsI3 [e]) : EvsI3 l := by
  intro id r hm
  exact h _ hm id r List.mem_cons_self

/-- **`cache.Set` keeps I3** (every oracle); the handle must be allocated. -/
theorem i3_cacheSet (cfg : Cfg) {s : State} (hi : I3 s) (h : Nat) (hv : h < s.heap.length) :
    I3 (cacheSet cfg s h).1 ∧ EvsI3 (cacheSet cfg s h).2.2 := by
  have hsame := i3_cacheSet_same cfg s h
  have hshape : ∀ x, ObjShape ((cacheSet cfg s h).1.obj x) := fun x =>
    (hi.heap x).of_same (hsame x).1 (hsame x).2.1 (hsame x).2.2
  have hkeyold : ∀ k x, (k, x) ∈ s.cache → ((cacheSet cfg s h).1.obj x).ref ≠ none → ((cacheSet cfg s h).1.obj x).id = k := by
    intro k x hm hr
    rw [(hsame x).1]; rw [(hsame x).2.1] at hr; exact hi.key k x hm hr
  have hself : RecShape (s.obj h).id (enc cfg.codec ((cacheSet cfg s h).1.obj h)) :=
    i3_rec_enc _ _ _ (hshape h) (fun _ => (hsame h).1)
  refine ⟨⟨hshape, ?_, ?_, ?_⟩, ?_⟩
  · intro k x hm
    rw [Loc.cacheSet_heap_length]
    rcases Loc.cacheSet_cache_mem cfg s h hm with e | ⟨hm', _⟩
    · rw [(Prod.mk.inj e).2]; exact hv
    · exact hi.valid k x hm'
  · intro k x hm hr
    rcases Loc.cacheSet_cache_mem cfg s h hm with e | ⟨hm', _⟩
    · rw [(Prod.mk.inj e).2, (Prod.mk.inj e).1]; exact (hsame h).1
    · exact hkeyold k x hm' hr
  · intro k r hl
    by_cases hk : (cacheSet cfg s h).2.1 = true ∧ k = (s.obj h).id
    · obtain ⟨hok, rfl⟩ := hk
      rw [Loc.cacheSet_store_ok hok, Loc.lookup_insert_self] at hl
      simp only [Option.some.injEq] at hl; subst hl; exact hself
    · rcases Loc.cacheSet_store_lk cfg s h k (fun hok e => hk ⟨hok, e⟩) with h1 | ⟨x, hm, h1⟩
      · rw [h1] at hl; exact hi.store k r hl
      · rw [h1] at hl; simp only [Option.some.injEq] at hl; subst hl
        exact i3_rec_enc _ _ _ (hshape x) (hkeyold k x hm)
  · rw [Loc.cacheSet_evs]
    apply EvsI3.append
    · apply EvsI3.of_each
      intro e he
      exact i3_isFlush hi (i3_setObjNow_same s h) ((Loc.setC_flushed cfg s h).evs_flush e he)
    · split
      · exact EvsI3.single_save hself
      · exact EvsI3.single_other (by intro _ _ h; cases h)

theorem i3_obj_append {s s' : State} {o : Sess} (hh : s'.heap = s.heap ++ [o]) (x : Nat) :
    s'.obj x = if x = s.heap.length then o else s.obj x := by
  have : s'.obj x = (s.alloc o).2.obj x := obj_of_heap_eq (s := (s.alloc o).2) (s' := s') hh x
  rw [this, i3_obj_alloc]

/-- **`cache.Get` keeps I3** (every oracle): a loaded object is the decoding of a record with the shape. -/
theorem i3_cacheGet (cfg : Cfg) {s : State} (hi : I3 s) (id : ID) :
    I3 (cacheGet cfg s id).1 ∧ EvsI3 (cacheGet cfg s id).2.2 := by
  have sp := Loc.cacheGet_spec cfg s id
  generalize cacheGet cfg s id = g at sp
  obtain ⟨s', res, evs⟩ := g
  simp only at sp ⊢
  have hlen : s.heap.length ≤ s'.heap.length := by
    rcases sp.heap with h | ⟨o, h, _⟩ <;> rw [h] <;> simp
  have hshape : ∀ x, ObjShape (s'.obj x) := by
    intro x
    rcases sp.heap with h | ⟨o, h, _, _, _, r, hr, ho⟩
    · rw [obj_of_heap_eq h]; exact hi.heap x
    · rw [i3_obj_append h]
      split
      · rw [ho]; exact i3_obj_dec _ _ _ (hi.store id r hr)
      · exact hi.heap x
  have hkeyold : ∀ k x, (k, x) ∈ s.cache → (s'.obj x).ref ≠ none → (s'.obj x).id = k := by
    intro k x hm
    rw [sp.obj_old x (hi.valid k x hm)]
    exact hi.key k x hm
  refine ⟨⟨hshape, ?_, ?_, ?_⟩, ?_⟩
  · intro k x hm
    rcases sp.cache_mem _ hm with hm' | ⟨e, hres, hmiss⟩
    · exact Nat.lt_of_lt_of_le (hi.valid k x hm') hlen
    · rcases sp.some_valid _ hres with ⟨h1, _⟩ | ⟨_, _, h3, _⟩
      · rw [hmiss] at h1; simp at h1
      · rw [(Prod.mk.inj e).2, h3]; omega
  · intro k x hm hr
    rcases sp.cache_mem _ hm with hm' | ⟨e, hres, hmiss⟩
    · exact hkeyold k x hm' hr
    · rcases sp.some_valid _ hres with ⟨h1, _⟩ | ⟨_, _, _, h4⟩
      · rw [hmiss] at h1; simp at h1
      · rw [(Prod.mk.inj e).2, (Prod.mk.inj e).1]; exact h4
  · intro k r hl
    rcases sp.store_lk k with h1 | ⟨x, hm, h1⟩
    · rw [h1] at hl; exact hi.store k r hl
    · rw [h1] at hl; simp only [Option.some.injEq] at hl; subst hl
      exact i3_rec_enc _ _ _ (hshape x) (hkeyold k x hm)
  · apply EvsI3.of_each
    intro e he
    rcases sp.evs_shape e he with h | h | h | h | h | ⟨u, h⟩ | ⟨u, h⟩
    · obtain ⟨k, x, hm, h | h⟩ := h
      · subst h
        exact EvsI3.single_save (i3_rec_enc _ _ _ (hshape x) (hkeyold k x hm))
      · subst h; exact EvsI3.single_other (by intro _ _ h; cases h)
    all_goals (subst h; exact EvsI3.single_other (by intro _ _ h; cases h))

/-! ### `PurgeSessions`, `RegenerateID`, `Destroy`, creation -/

theorem i3_purgeList (cfg : Cfg) (l : List (ID × Nat)) (s : State) (hi : I3 s) (hl : ∀ p ∈ l, p ∈ s.cache) :
    I3 (purgeList cfg s l).1 ∧ EvsI3 (purgeList cfg s l).2 := by
  induction l generalizing s with
  | nil => exact ⟨hi, EvsI3.nil⟩
  | cons p rest ih =>
    obtain ⟨id, h⟩ := p
    have hm : (id, h) ∈ s.cache := hl _ List.mem_cons_self
    have hS := i3_saveRec cfg hi id (s.obj h) (hi.heap h) (hi.key id h hm)
    have hc := Loc.saveRec_cache cfg s id (s.obj h)
    simp only [purgeList]
    generalize saveRec cfg s id (s.obj h) = g at hS hc
    obtain ⟨s1, ok, e1⟩ := g
    simp only at hS hc ⊢
    have ih' := ih s1 hS.1 (fun p hp => by rw [hc]; exact hl p (List.mem_cons_of_mem _ hp))
    generalize purgeList cfg s1 rest = g2 at ih'
    obtain ⟨s2, e2⟩ := g2
    exact ⟨ih'.1, hS.2.append ih'.2⟩

/-- **`PurgeSessions` keeps I3** (every oracle). -/
theorem i3_purge (cfg : Cfg) {s : State} (hi : I3 s) : I3 (purge cfg s).1 ∧ EvsI3 (purge cfg s).2 := by
  have h := i3_purgeList cfg (orderBy s.picks s.cache) s hi (fun p hp => mem_orderBy_sub hp)
  unfold purge
  generalize purgeList cfg s (orderBy s.picks s.cache) = g at h
  obtain ⟨s1, e1⟩ := g
  exact ⟨⟨h.1.heap, by intro _ _ hm; simp at hm, by intro _ _ hm; simp at hm, h.1.store⟩, h.2⟩

/-- the reference object `RegenerateID` leaves under the old id has the reference shape: the old id was
minted before the new one. -/
theorem i3_refObj_shape (o : Sess) (old : ID) (n : Nat) (now : Int) (hm : Minted n old) :
    ObjShape (refObj o old (.gen n) now) := by
  obtain ⟨a, ha, hlt⟩ := hm
  refine ⟨fun t ht => ?_, fun hr => by simp [refObj] at hr⟩
  simp only [refObj, Option.some.injEq] at ht
  exact ⟨⟨a, n, ha, ht.symm, hlt⟩, Or.inl rfl⟩

/-- **`RegenerateID` keeps I3** (every oracle) when called on an allocated session proper with a minted id —
which is what `Start` and the handlers call it on (`i3_start`, `W3`). The new reference points from the old id
`gen a`, `a < nextId`, to `gen nextId`: forward. -/
theorem i3_regenerate (cfg : Cfg) {s : State} (hi : I3 s) (h : Nat) (hv : h < s.heap.length)
    (href : (s.obj h).ref = none) (hmint : Minted s.nextId (s.obj h).id) :
    I3 (regenerate cfg s h).1 ∧ EvsI3 (regenerate cfg s h).2.2 ∧ ((regenerate cfg s h).1.obj h).ref = none := by
  have hd : (s.obj h).data ≠ none := (hi.heap h).2 href
  have hS0 : I3 (Loc.regenS0 s h) :=
    (hi.setObj_plain h { s.obj h with id := ID.gen s.nextId, created := s.now } href hd).congr rfl rfl rfl
  have hA : I3 (Loc.regenA cfg s h).1 ∧ EvsI3 (Loc.regenA cfg s h).2.2 :=
    i3_cacheSet cfg hS0 h (by rw [Loc.regenS0_heap_length]; exact hv)
  have hS2 : I3 (Loc.regenS2 cfg s h) := hA.1.alloc _ (i3_refObj_shape _ _ _ _ hmint)
  have hB : I3 (Loc.regenB cfg s h).1 ∧ EvsI3 (Loc.regenB cfg s h).2.2 :=
    i3_cacheSet cfg hS2 _ (by rw [Loc.regenS2_heap_length, (Loc.regenA_fr cfg s h).2.2.2.2.2]; omega)
  refine ⟨?_, ?_, by rw [Loc.regenerate_obj cfg s h hv]; exact href⟩
  · rw [Loc.regenerate_eq]
    split
    · exact hA.1
    · split
      · exact hB.1
      · exact hB.1.congr rfl rfl rfl
  · rw [Loc.regenerate_eq]
    split
    · exact hA.2
    · split
      · exact hA.2.append hB.2
      · exact (hA.2.append hB.2).append (EvsI3.single_other (by intro _ _ h; cases h))

/-- **`Destroy` keeps I3** (every oracle). -/
theorem i3_destroy {s : State} (hi : I3 s) (h : Nat) (b : Bool) : I3 (destroy s h b).1 ∧ EvsI3 (destroy s h b).2.2 := by
  have hD := i3_cacheDelete hi (s.obj h).id
  rw [Loc.destroy_eq]
  split
  · exact hD
  · split
    · exact ⟨hD.1, hD.2.append (EvsI3.single_other (by intro _ _ h; cases h))⟩
    · exact hD

/-- what `Start` and its parts guarantee about the reference structure: I3, well-shaped writes, and the
returned handle is a session proper, never a reference record. -/
structure StartPost3 (r : State × Res × List Ev) : Prop where
  i3 : I3 r.1
  evs : EvsI3 r.2.2
  cur : ∀ h, r.2.1 = .sess h → (r.1.obj h).ref = none

theorem i3_createNew (cfg : Cfg) {s : State} (hi : I3 s) (r : Req) (pre : List Ev) (hpre : EvsI3 pre) :
    StartPost3 (createNew cfg s r pre) := by
  cases hc : r.create with
  | false =>
    rw [Loc.createNew_no pre hc]
    exact ⟨hi, hpre, by intro h hh; cases hh⟩
  | true =>
    rw [Loc.createNew_yes pre hc]
    have h1 : I3 (Loc.newS1 s r) :=
      (hi.congr (s' := { s with nextId := s.nextId + 1 }) rfl rfl rfl).alloc _
        ⟨fun t ht => by simp at ht, fun _ => by simp⟩
    have hS := i3_cacheSet cfg h1 s.heap.length (Loc.newS1_valid s r)
    split
    · exact ⟨hS.1, hpre.append hS.2, by intro h hh; cases hh⟩
    · refine ⟨hS.1, (hpre.append hS.2).append (EvsI3.single_other (by intro _ _ h; cases h)), ?_⟩
      intro h hh
      simp only [Res.sess.injEq] at hh
      subst hh
      show ((Loc.newSet cfg s r).1.obj s.heap.length).ref = none
      rw [Loc.newSet_obj_new]; rfl

/-! ### following references, `Start` -/

/-- **following the chain keeps I3** (every oracle), and the handle it ends at is a session proper. -/
theorem i3_follow (cfg : Cfg) (n : Nat) (s : State) (h : Nat) (hi : I3 s) :
    I3 (follow cfg n s h).1 ∧ EvsI3 (follow cfg n s h).2.2 ∧
    ∀ h2, (follow cfg n s h).2.1 = .some h2 → ((follow cfg n s h).1.obj h2).ref = none := by
  induction n generalizing s h with
  | zero => rw [Loc.follow_zero]; exact ⟨hi, EvsI3.nil, by intro h2 hh; cases hh⟩
  | succ n ih =>
    cases href : (s.obj h).ref with
    | none =>
      rw [Loc.follow_succ_none n href]
      refine ⟨hi, EvsI3.nil, ?_⟩
      intro h2 hh
      simp only [GetRes.some.injEq] at hh
      subst hh; exact href
    | some tgt =>
      rw [Loc.follow_succ_some n href]
      have hG := i3_cacheGet cfg hi tgt
      generalize cacheGet cfg s tgt = g at hG
      obtain ⟨s1, res, e1⟩ := g
      cases res with
      | err => exact ⟨hG.1, hG.2, by intro h2 hh; cases hh⟩
      | nil => exact ⟨hG.1, hG.2, by intro h2 hh; cases hh⟩
      | some h2 =>
        obtain ⟨i1, i2, i3⟩ := ih s1 h2 hG.1
        exact ⟨i1, hG.2.append i2, i3⟩

/-- **`Start` on a found object keeps I3** (every oracle); `hv`, `hmint`: the handle is allocated and its id
minted (`HL`), needed for the rotation branch. -/
theorem i3_startValid (cfg : Cfg) {s1 : State} (hi : I3 s1) (id : ID) (h : Nat) (r : Req) (e1 : List Ev)
    (hv : h < s1.heap.length) (hmint : Minted s1.nextId (s1.obj h).id) (hpre : EvsI3 e1) :
    StartPost3 (startValid cfg s1 id h r e1) := by
  cases href : (s1.obj h).ref with
  | none =>
    by_cases hage : since s1.now (s1.obj h).created ≥ cfg.idExpiry
    · rw [Loc.startValid_rotate id r e1 href hage]
      obtain ⟨r1, r2, r3⟩ := i3_regenerate cfg hi h hv href hmint
      split
      · exact ⟨r1, hpre.append r2, by intro h' hh; cases hh⟩
      · refine ⟨r1.touch h r, hpre.append r2, ?_⟩
        intro h' hh
        simp only [Res.sess.injEq] at hh
        subst hh
        rw [(Loc.touch_obj_keep _ h h r).2.2.2.2]; exact r3
    · rw [Loc.startValid_young id r e1 href (by omega)]
      refine ⟨hi.touch h r, hpre, ?_⟩
      intro h' hh
      simp only [Res.sess.injEq] at hh
      subst hh
      rw [(Loc.touch_obj_keep _ h h r).2.2.2.2]; exact href
  | some t =>
    by_cases hage : since s1.now (s1.obj h).created ≥ cfg.idExpiry ∧
        since s1.now (s1.obj h).created - cfg.idExpiry ≥ cfg.grace
    · rw [Loc.startValid_ref_expired id r e1 href hage]
      have hD := i3_cacheDelete hi id
      split
      · exact ⟨hD.1, hpre.append hD.2, by intro h' hh; cases hh⟩
      · exact ⟨hD.1, hpre.append hD.2, by intro h' hh; cases hh⟩
    · rw [Loc.startValid_ref id r e1 href hage]
      have hF := i3_follow cfg (s1.store.length + s1.cache.length + 1) s1 h hi
      generalize follow cfg (s1.store.length + s1.cache.length + 1) s1 h = g at hF
      obtain ⟨s2, res, e2⟩ := g
      obtain ⟨f1, f2, f3⟩ := hF
      cases res with
      | err => exact ⟨f1, hpre.append f2, by intro h' hh; cases hh⟩
      | nil => exact ⟨f1, hpre.append f2, by intro h' hh; cases hh⟩
      | some h2 =>
        refine ⟨f1.touch h2 r, (hpre.append f2).append (EvsI3.single_other (by intro _ _ h; cases h)), ?_⟩
        intro h' hh
        simp only [Loc.startRef, Res.sess.injEq] at hh
        subst hh
        show ((touch s2 h2 r).obj h2).ref = none
        rw [(Loc.touch_obj_keep _ h2 h2 r).2.2.2.2]; exact f3 h2 rfl

/-- **`Start` keeps I3** and returns a session proper. Fault-free and under `Inv` (which provides that the
handle `cache.Get` returns is allocated and carries a minted id). -/
theorem i3_start (cfg : Cfg) (s : State) (r : Req) (hnf : NoFail s) (hinv : Inv cfg.codec s) (hi : I3 s) :
    StartPost3 (start cfg s r) := by
  cases hc : r.cookie with
  | none => rw [Loc.start_none hc]; exact i3_createNew cfg hi r [] EvsI3.nil
  | some id =>
    by_cases hl : r.cookieLen = 24
    · rw [Loc.start_some hc hl]
      have hG := i3_cacheGet cfg hi id
      have hP := Sx.cacheGet_spec cfg s id hnf hinv
      generalize cacheGet cfg s id = g at hG hP
      obtain ⟨s1, res, e1⟩ := g
      cases res with
      | err => exact ⟨hG.1, hG.2, by intro h hh; cases hh⟩
      | nil => exact i3_createNew cfg hG.1 r _ (hG.2.append (EvsI3.single_other (by intro _ _ h; cases h)))
      | some h =>
        simp only [Loc.startGot]
        split
        · unfold Loc.startInvalid
          have hD := i3_destroy hG.1 h true
          split
          · exact ⟨hD.1, hG.2.append hD.2, by intro h' hh; cases hh⟩
          · exact i3_createNew cfg hD.1 r _ (hG.2.append hD.2)
        · have hk : HOK s1 h := by
            rcases hP.res with h0 | ⟨h', h0, hk, _⟩
            · cases h0
            · simp only [GetRes.some.injEq] at h0; subst h0; exact hk
          exact i3_startValid cfg hG.1 id h r e1 hk.valid hk.minted hG.2
    · rw [Loc.start_len hl]; exact i3_createNew cfg hi r [] EvsI3.nil

/-! ### handler operations (every oracle) -/

theorem i3_saveObj (cfg : Cfg) {s : State} (hi : I3 s) (h : Nat) : I3 (saveObj cfg s h).1 ∧ EvsI3 (saveObj cfg s h).2.2 :=
  i3_saveRec cfg hi _ _ (hi.heap h) (fun _ => rfl)

/-- `Set(k, v)` on a session proper. -/
theorem i3_hset (cfg : Cfg) {s : State} (hi : I3 s) (h : Nat) (k : String) (v : Val) (href : (s.obj h).ref = none) :
    I3 (hset cfg s h k v).1 ∧ EvsI3 (hset cfg s h k v).2.2 := by
  cases hd : (s.obj h).data with
  | none => rw [Loc.hset_none k v hd]; exact ⟨hi, EvsI3.nil⟩
  | some d =>
    rw [Loc.hset_some k v hd]
    exact i3_saveObj cfg (hi.setObj_plain h { s.obj h with data := some (insert k v d) } href (by simp)) h

theorem i3_hdel (cfg : Cfg) {s : State} (hi : I3 s) (h : Nat) (k : String) (href : (s.obj h).ref = none) :
    I3 (hdel cfg s h k).1 ∧ EvsI3 (hdel cfg s h k).2.2 := by
  rw [Loc.hdel_eq]
  have hd : (s.obj h).data ≠ none := (hi.heap h).2 href
  refine i3_saveObj cfg (hi.setObj_plain h { s.obj h with data := (s.obj h).data.map (erase k) } href ?_) h
  cases hdd : (s.obj h).data with
  | none => exact absurd hdd hd
  | some d => simp

theorem i3_hgetdel (cfg : Cfg) {s : State} (hi : I3 s) (h : Nat) (k : String) (href : (s.obj h).ref = none) :
    I3 (hgetdel cfg s h k).1 ∧ EvsI3 (hgetdel cfg s h k).2.2 := by
  have hd : (s.obj h).data ≠ none := (hi.heap h).2 href
  have hS := i3_saveObj cfg (hi.setObj_plain h { s.obj h with data := (s.obj h).data.map (erase k) } href (by
    cases hdd : (s.obj h).data with
    | none => exact absurd hdd hd
    | some d => simp)) h
  unfold hgetdel
  split
  · exact ⟨hi, EvsI3.nil⟩
  · simp only []
    generalize saveObj cfg (s.setObj h { s.obj h with data := (s.obj h).data.map (erase k) }) h = g at hS
    obtain ⟨s2, ok, e⟩ := g
    exact hS

/-- `s.LogOut()` (any object: only the user changes). -/
theorem i3_hlogout (cfg : Cfg) {s : State} (hi : I3 s) (h : Nat) : I3 (hlogout cfg s h).1 ∧ EvsI3 (hlogout cfg s h).2.2 := by
  cases hu : (s.obj h).user with
  | none => rw [Loc.hlogout_none hu]; exact ⟨hi, EvsI3.nil⟩
  | some u =>
    rw [Loc.hlogout_some hu]
    exact i3_saveObj cfg (hi.setObj_same h { s.obj h with user := none } rfl rfl rfl) h

/-! ### `LogOut(userID)`, `RefreshUser` (every oracle) -/

theorem i3_cacheGet_valid {cfg : Cfg} {s s1 : State} {id : ID} {h : Nat} {e1 : List Ev} (hi : I3 s)
    (hg : cacheGet cfg s id = (s1, .some h, e1)) : h < s1.heap.length := by
  have sp := Loc.cacheGet_spec cfg s id
  rw [hg] at sp
  rcases sp.some_valid h rfl with ⟨h1, h2, _⟩ | ⟨h1, _, h3, _⟩
  · have h2' : s1 = s := h2
    rw [h2']; exact hi.valid id h (Sx.lookup_some_mem h1)
  · have h3' : s1.heap.length = s.heap.length + 1 := h3
    omega

/-- the user loop sets `user` on every listed id that exists — *including reference records*
(see `i3_no_user_fails`): id, reference and data of every object are left alone, so I3 is kept. -/
theorem i3_setUserAll (cfg : Cfg) (u : Option (String × Nat)) (ids : List ID) (s : State) (hi : I3 s) :
    I3 (setUserAll cfg u ids s).1 ∧ EvsI3 (setUserAll cfg u ids s).2.2 := by
  induction ids generalizing s with
  | nil => exact ⟨hi, EvsI3.nil⟩
  | cons id rest ih =>
    have hG := i3_cacheGet cfg hi id
    generalize hg : cacheGet cfg s id = g at hG
    obtain ⟨s1, res, e1⟩ := g
    cases res with
    | err => rw [Loc.setUserAll_cons_err hg]; exact hG
    | nil =>
      rw [Loc.setUserAll_cons_nil hg]
      obtain ⟨i1, i2⟩ := ih s1 hG.1
      exact ⟨i1, hG.2.append i2⟩
    | some h =>
      rw [Loc.setUserAll_cons_some hg]
      have hv := i3_cacheGet_valid hi hg
      have hS : I3 (Loc.userSet cfg u s1 h).1 ∧ EvsI3 (Loc.userSet cfg u s1 h).2.2 :=
        i3_cacheSet cfg (hG.1.setObj_same h { s1.obj h with user := u } rfl rfl rfl) h (by rw [Loc.setObj_heap_length]; exact hv)
      split
      · exact ⟨hS.1, hG.2.append hS.2⟩
      · obtain ⟨i1, i2⟩ := ih _ hS.1
        exact ⟨i1, (hG.2.append hS.2).append i2⟩

theorem i3_forUser (cfg : Cfg) (le : ID → ID → Bool) {s : State} (hi : I3 s) (uid : String) (u : Option (String × Nat)) :
    I3 (forUser cfg le s uid u).1 ∧ EvsI3 (forUser cfg le s uid u).2.2 := by
  rw [Loc.forUser_eq]
  have hp : I3 s.pop := hi.congr rfl rfl rfl
  split
  · exact ⟨hp, EvsI3.single_other (by intro _ _ h; cases h)⟩
  · obtain ⟨i1, i2⟩ := i3_setUserAll cfg u (userSessions le s.pop uid) s.pop hp
    exact ⟨i1, (EvsI3.single_other (e := .users uid) (by intro _ _ h; cases h)).append i2⟩

theorem i3_logoutUser (cfg : Cfg) (le : ID → ID → Bool) {s : State} (hi : I3 s) (uid : String) :
    I3 (logoutUser cfg le s uid).1 ∧ EvsI3 (logoutUser cfg le s uid).2.2 := i3_forUser cfg le hi uid none

theorem i3_refreshUser (cfg : Cfg) (le : ID → ID → Bool) {s : State} (hi : I3 s) (uid : String) :
    I3 (refreshUser cfg le s uid).1 ∧ EvsI3 (refreshUser cfg le s uid).2.2 := by
  unfold refreshUser
  exact i3_forUser cfg le (hi.congr (s' := { s with vers := insert uid (s.ver uid + 1) s.vers }) rfl rfl rfl) uid _

/-! ### `s.LogIn` (fault-free, under `Inv`) -/

theorem i3_loginFirst (cfg : Cfg) (le : ID → ID → Bool) {s : State} (hi : I3 s) (h : Nat) (uid : String) (excl : Bool) :
    I3 (loginFirst cfg le s h uid excl).1 ∧ EvsI3 (loginFirst cfg le s h uid excl).2.2 := by
  unfold loginFirst
  cases excl with
  | true => exact i3_logoutUser cfg le hi uid
  | false =>
    have hL := i3_hlogout cfg hi h
    simp only [Bool.false_eq_true, if_false]
    generalize hlogout cfg s h = g at hL
    obtain ⟨s1, r1, e1⟩ := g
    exact hL

/-- **`s.LogIn` keeps I3** when called on a session proper: the `RegenerateID` at its end leaves a forward
reference under the old id; the handle stays a session proper. -/
theorem i3_hlogin (cfg : Cfg) (le : ID → ID → Bool) (s : State) (h : Nat) (uid : String) (excl : Bool) (hnf : NoFail s)
    (hinv : Inv cfg.codec s) (hk : HOK s h) (hi : I3 s) (href : (s.obj h).ref = none) :
    I3 (hlogin cfg le s h uid excl).1 ∧ EvsI3 (hlogin cfg le s h uid excl).2.2 ∧
    ((hlogin cfg le s h uid excl).1.obj h).ref = none := by
  rw [Sx.hlogin_eq]
  obtain ⟨h1, h2, h3⟩ := loginFirst_spec cfg le s h uid excl hnf hinv hk
  have hF := i3_loginFirst cfg le hi h uid excl
  generalize loginFirst cfg le s h uid excl = g at h1 h2 h3 hF
  obtain ⟨s1, ok1, e1⟩ := g
  simp only at h1 h2 h3 hF
  subst h1
  have hl1 : HL s1 h := hk.toHL.step h3
  have href1 : (s1.obj h).ref = none := by rw [(h3.ids h hk.valid).2]; exact href
  unfold loginTail
  simp only [Bool.not_true, Bool.false_eq_true, if_false]
  have hS := setObj_cacheSet_spec cfg s1 h { s1.obj h with user := some (uid, s1.ver uid) } h3.nofail h2 hl1 rfl rfl
  have hS3 := i3_cacheSet cfg (hF.1.setObj_same h { s1.obj h with user := some (uid, s1.ver uid) } rfl rfl rfl) h
    (by rw [Loc.setObj_heap_length]; exact hl1.valid)
  generalize cacheSet cfg (s1.setObj h { s1.obj h with user := some (uid, s1.ver uid) }) h = g3 at hS hS3
  obtain ⟨s3, ok3, e3⟩ := g3
  obtain ⟨hok3, _, hst3, hhok3, _, _⟩ := hS
  simp only at hok3 hst3 hhok3 hS3
  subst hok3
  simp only [Bool.not_true, Bool.false_eq_true, if_false]
  have href3 : (s3.obj h).ref = none := by rw [(hst3.ids h hl1.valid).2]; exact href1
  obtain ⟨r1, r2, r3⟩ := i3_regenerate cfg hS3.1 h hhok3.valid href3 hhok3.minted
  generalize regenerate cfg s3 h = g4 at r1 r2 r3
  obtain ⟨s4, ok4, e4⟩ := g4
  exact ⟨r1, (hF.2.append hS3.2).append r2, r3⟩

/-! ### time, restart, crash points -/

theorem i3_advance {s : State} (hi : I3 s) (d : Int) : I3 (advance s d).1 := by
  apply advance_ind I3
  · intro tm _; exact hi.congr rfl rfl rfl
  · intro s' id h; exact i3_bgDelete h id
  · intro s' t h; exact h.congr rfl rfl rfl

theorem i3_advance_heap (s : State) (d : Int) : (advance s d).1.heap = s.heap := by
  apply advance_ind (fun s' => s'.heap = s.heap)
  · intro tm _; rfl
  · intro s' id h; exact h
  · intro s' t h; exact h

/-- what holds of a state at every instant, even between a crash inside an operation and the restart. -/
structure Base3 (s : State) : Prop where
  heap : ∀ h, ObjShape (s.obj h)
  store : StoreI3 s.store

theorem I3.base {s : State} (hi : I3 s) : Base3 s := ⟨hi.heap, hi.store⟩

theorem base3_advance {s : State} (hb : Base3 s) (d : Int) : Base3 (advance s d).1 := by
  refine ⟨fun h => by rw [obj_of_heap_eq (i3_advance_heap s d)]; exact hb.heap h, ?_⟩
  apply advance_ind (fun s' => StoreI3 s'.store)
  · intro tm _; exact hb.store
  · intro s' id h; exact h.erase id
  · intro s' t h; exact h

/-- the restart: with the cache gone, `Base3` is all of I3. -/
theorem i3_crashState {s : State} (hb : Base3 s) : I3 (crashState s) :=
  ⟨hb.heap, by intro _ _ h; simp [crashState] at h, by intro _ _ h; simp [crashState] at h, hb.store⟩

/-- a crash between two persistence calls: any prefix of well-shaped writes and deletes keeps the store part. -/
theorem i3_applyMut (l : List Ev) (st : List (ID × Rec)) (hs : StoreI3 st) (hl : EvsI3 l) : StoreI3 (l.foldl applyMut st) := by
  induction l generalizing st with
  | nil => exact hs
  | cons e r ih =>
    apply ih _ _ (fun id rc hm => hl id rc (List.mem_cons_of_mem _ hm))
    cases e <;> simp only [applyMut] <;> try exact hs
    · exact hs.insert (hl _ _ List.mem_cons_self)
    · exact hs.erase _

/-! ### the world invariant -/

/-- the I3 part of the world invariant: `Base3` always; I3 and "the request's session object is a session
proper, not a reference record" whenever the process is alive. -/
structure W3 (w : World) : Prop where
  base : Base3 w.st
  good : w.skip = false → I3 w.st ∧ ∀ h, w.cur = some h → (w.st.obj h).ref = none

/-- the same before `finish` has performed a pending restart. -/
structure W3Pre (w : World) : Prop where
  base : Base3 w.st
  good : w.skip = false →
    (w.crashed = true ∧ w.inReq = false) ∨ (I3 w.st ∧ ∀ h, w.cur = some h → (w.st.obj h).ref = none)

theorem W3.toPre {w : World} (hw : W3 w) : W3Pre w := ⟨hw.base, fun hsk => Or.inr (hw.good hsk)⟩

theorem W3Pre.toW3 {w : World} (hw : W3Pre w) (hr : w.inReq = true) : W3 w := by
  refine ⟨hw.base, fun hsk => ?_⟩
  rcases hw.good hsk with ⟨_, h⟩ | h
  · rw [hr] at h; simp at h
  · exact h

theorem finW_w3 {w : World} (hw : W3Pre w) (hcr : ∀ h, w.cur = some h → w.inReq = true) : W3 (finW w) := by
  unfold finW
  split
  · rename_i hc
    simp only [Bool.and_eq_true, Bool.not_eq_true'] at hc
    refine ⟨⟨hw.base.heap, hw.base.store⟩, fun _ => ⟨i3_crashState hw.base, ?_⟩⟩
    intro h hcur
    have := hcr h hcur
    rw [hc.2] at this; simp at this
  · rename_i hc
    simp only [Bool.and_eq_true, Bool.not_eq_true', not_and, Bool.not_eq_false] at hc
    refine ⟨hw.base, fun hsk => ?_⟩
    rcases hw.good hsk with ⟨h1, h2⟩ | h
    · have := hc h1; rw [h2] at this; simp at this
    · exact h

/-- what the function run by an API call must guarantee. -/
structure Run3 (w : World) (r : State × RetV × Option String × List Ev) : Prop where
  i3 : I3 r.1
  evs : EvsI3 r.2.2.2
  cur : ∀ h, w.cur = some h → (r.1.obj h).ref = none

theorem run3_mk {w : World} (s' : State) (ret : RetV) (msg : Option String) (evs : List Ev) (h1 : I3 s')
    (h2 : EvsI3 evs) (h3 : ∀ h, w.cur = some h → (s'.obj h).ref = none) : Run3 w (s', ret, msg, evs) := ⟨h1, h2, h3⟩

theorem apiCall_w3pre (w : World) (orc : Orc) (run : State → State × RetV × Option String × List Ev) (b : Bool)
    (hstore : StoreI3 w.st.store) (hsk : w.skip = false) (hrun : Run3 w (run (orcSt w orc))) :
    W3Pre (apiCall w orc run b).1 := by
  rw [apiCall_fst]
  generalize run { w.st with fails := orc.fails, picks := orc.picks } = r at hrun ⊢
  obtain ⟨s1, ret, msg, evs⟩ := r
  obtain ⟨hi, hevs, hcur⟩ := hrun
  simp only at hi hevs hcur ⊢
  cases hf : apiFrz w evs with
  | none =>
    have hmid : apiMid w s1 evs = { s1 with fails := [], picks := [] } := by unfold apiMid; rw [hf]
    rw [hmid]
    have hi' : I3 ({ s1 with fails := [], picks := [] } : State) := hi.congr rfl rfl rfl
    have hA := i3_advance hi' 1
    refine ⟨hA.base, fun _ => Or.inr ⟨hA, ?_⟩⟩
    intro h hc
    show ((advance ({ s1 with fails := [], picks := [] } : State) 1).1.obj h).ref = none
    rw [obj_of_heap_eq (i3_advance_heap _ 1)]
    exact hcur h hc
  | some k =>
    have hmid : apiMid w s1 evs =
        { s1 with fails := [], picks := [], store := ((apiMuts evs).take k).foldl applyMut w.st.store, timers := [] } := by
      unfold apiMid; rw [hf]
    rw [hmid]
    have hb : Base3 ({ s1 with fails := [], picks := [], store := ((apiMuts evs).take k).foldl applyMut w.st.store, timers := [] } : State) :=
      ⟨hi.heap, i3_applyMut _ _ hstore (fun id r hm => hevs id r (apiMuts_sub hm))⟩
    refine ⟨base3_advance hb 1, ?_⟩
    intro h
    left
    simp only [hsk, Option.isSome_some, Bool.true_and, Bool.false_or] at h
    exact ⟨by simp, h⟩

theorem fin_api3 {c : Codec} (w : World) (orc : Orc) (run : State → State × RetV × Option String × List Ev) (b : Bool)
    (hw : WInv c w) (h3 : W3 w) (hsk : w.skip = false) (hrun : Run3 w (run (orcSt w orc))) :
    W3 (finish (apiCall w orc run b).1 (apiCall w orc run b).2).1 := by
  rw [finish_fst]
  apply finW_w3 (apiCall_w3pre w orc run b h3.base.store hsk hrun)
  intro h hh
  rw [apiCall_cur] at hh
  rw [apiCall_inReq]
  exact hw.cur_req h hh

/-- **Every operation of a fault-free history keeps the I3 part of the world invariant** (given the
structural/coherence invariant `WInv` before the step; `WInv` after the step is `Sx.step_inv`). -/
theorem step_w3 {c : Codec} (le : ID → ID → Bool) (w : World) (orc : Orc) (op : Op) (hw : WInv c w) (h3 : W3 w)
    (ho : OrcOK orc) (hopk : OpOK le w op) : W3 (w.step le orc op).1 := by
  by_cases hsk : w.skip = true
  · by_cases he : op = .endReq
    · subst he
      unfold World.step
      simp only [Bool.not_true, Bool.and_false, Bool.false_eq_true, if_false, finish_fst]
      apply finW_w3
      · exact ⟨h3.base, fun _ => Or.inl ⟨hw.skip_crashed hsk, rfl⟩⟩
      · intro h hh; simp at hh
    · rw [step_skip le w orc op hsk he]; exact h3
  · have hsk' : w.skip = false := by simpa using hsk
    obtain ⟨hinv, hcur⟩ := hw.good hsk'
    obtain ⟨hi, hcref⟩ := h3.good hsk'
    have hcd := hw.codec
    subst hcd
    have hnf0 : NoFail (orcSt w orc) := ho
    have hinv0 : Inv w.cfg.codec (orcSt w orc) := hinv.congr rfl rfl rfl rfl rfl
    have hcur0 : ∀ h, w.cur = some h → HOK (orcSt w orc) h := fun h hh => (hcur h hh).congr rfl rfl rfl
    have hi0 : I3 (orcSt w orc) := hi.congr rfl rfl rfl
    have hcref0 : ∀ h, w.cur = some h → ((orcSt w orc).obj h).ref = none := hcref
    -- a step (in the sense of the frame `Step`) keeps the request's object a session proper
    have hkeep : ∀ {s' : State} {evs : List Ev}, Step w.cfg.codec (orcSt w orc) s' evs →
        ∀ h, w.cur = some h → (s'.obj h).ref = none := by
      intro s' evs st h hh
      rw [(st.ids h (hcur0 h hh).valid).2]; exact hcref0 h hh
    unfold World.step
    cases op with
    | codec c' => exact absurd hopk (by simp [OpOK])
    | cfg n v =>
      simp only [hsk', Bool.false_and, Bool.false_eq_true, if_false, finish_fst]
      exact finW_w3 ⟨h3.base, fun _ => Or.inr ⟨hi, hcref⟩⟩ hw.cur_req
    | cookiecfg ck =>
      simp only [hsk', Bool.false_and, Bool.false_eq_true, if_false, finish_fst]
      exact finW_w3 ⟨h3.base, fun _ => Or.inr ⟨hi, hcref⟩⟩ hw.cur_req
    | fault =>
      simp only [hsk', Bool.false_and, Bool.false_eq_true, if_false, finish_fst]
      exact finW_w3 h3.toPre hw.cur_req
    | stale uid id =>
      simp only [hsk', Bool.false_and, Bool.false_eq_true, if_false, finish_fst]
      exact finW_w3 ⟨⟨h3.base.heap, h3.base.store⟩, fun _ => Or.inr ⟨hi.congr rfl rfl rfl, hcref⟩⟩ hw.cur_req
    | crashinside k =>
      simp only [hsk', Bool.false_and, Bool.false_eq_true, if_false, finish_fst]
      exact finW_w3 ⟨h3.base, fun _ => Or.inr ⟨hi, hcref⟩⟩ hw.cur_req
    | wait d =>
      simp only [hsk', Bool.false_and, Bool.false_eq_true, if_false, finish_fst]
      have hA := i3_advance hi d
      refine finW_w3 ⟨hA.base, fun _ => Or.inr ⟨hA, ?_⟩⟩ hw.cur_req
      intro h hh
      show ((advance w.st d).1.obj h).ref = none
      rw [obj_of_heap_eq (i3_advance_heap w.st d)]; exact hcref h hh
    | dropcache =>
      simp only [hsk', Bool.false_and, Bool.false_eq_true, if_false, finish_fst]
      refine finW_w3 ⟨⟨h3.base.heap, h3.base.store⟩, fun _ => Or.inr ⟨?_, hcref⟩⟩ hw.cur_req
      exact ⟨hi.heap, by intro _ _ h; simp at h, by intro _ _ h; simp at h, hi.store⟩
    | crash =>
      simp only [hsk', Bool.false_and, Bool.false_eq_true, if_false, finish_fst]
      exact finW_w3 ⟨h3.base, fun _ => Or.inr ⟨hi, hcref⟩⟩ hw.cur_req
    | expiredRec id =>
      simp only [hsk', Bool.false_and, Bool.false_eq_true, if_false, finish_fst]
      exact finW_w3 h3.toPre hw.cur_req
    | purge =>
      simp only [hsk', Bool.false_and, Bool.false_eq_true, if_false]
      apply fin_api3 w orc _ false hw h3 hsk'
      obtain ⟨hf, _⟩ := purge_spec w.cfg (orcSt w orc) hnf0 hinv0
      have hP := i3_purge w.cfg hi0
      exact run3_mk (purge w.cfg (orcSt w orc)).1 _ _ (purge w.cfg (orcSt w orc)).2 hP.1 hP.2 (hkeep hf.step)
    | logoutUser uid =>
      simp only [hsk', Bool.false_and, Bool.false_eq_true, if_false]
      apply fin_api3 w orc _ false hw h3 hsk'
      have hS := logoutUser_spec w.cfg le (orcSt w orc) uid hnf0 hinv0
      have hP := i3_logoutUser w.cfg le hi0 uid
      exact run3_mk (logoutUser w.cfg le (orcSt w orc) uid).1 _ _ (logoutUser w.cfg le (orcSt w orc) uid).2.2 hP.1 hP.2
        (hkeep hS.step)
    | refresh uid =>
      simp only [hsk', Bool.false_and, Bool.false_eq_true, if_false]
      apply fin_api3 w orc _ false hw h3 hsk'
      have hS := refreshUser_spec w.cfg le (orcSt w orc) uid hnf0 hinv0
      have hP := i3_refreshUser w.cfg le hi0 uid
      exact run3_mk (refreshUser w.cfg le (orcSt w orc) uid).1 _ _ (refreshUser w.cfg le (orcSt w orc) uid).2.2 hP.1 hP.2
        (hkeep hS.step)
    | endReq =>
      simp only [hsk', Bool.false_and, Bool.false_eq_true, if_false, finish_fst]
      apply finW_w3
      · exact ⟨h3.base, fun _ => Or.inr ⟨hi, by intro h hh; simp at hh⟩⟩
      · intro h hh; simp at hh
    | req client spec ip ua create =>
      simp only [hsk', Bool.false_and, Bool.false_eq_true, if_false]
      generalize ({ cookie := _, cookieLen := _, ip := ip, ua := ua, create := create } : Req) = r
      have hS := i3_start w.cfg (orcSt w orc) r hnf0 hinv0 hi0
      apply W3Pre.toW3 _ (by rw [apiCall_inReq])
      refine apiCall_w3pre _ orc _ true ?_ ?_ ?_
      · exact h3.base.store
      · rfl
      refine run3_mk (start w.cfg (orcSt w orc) r).1 _ _ (start w.cfg (orcSt w orc) r).2.2 hS.i3 hS.evs ?_
      intro h hh
      apply hS.cur h
      simp only at hh
      split at hh
      · rename_i h' hres
        simp only [Option.some.injEq] at hh
        rw [← hh]; exact hres
      · simp at hh
    | h hop =>
      simp only [hsk', Bool.false_and, Bool.false_eq_true, if_false]
      cases hc : w.cur with
      | none => exact h3
      | some h =>
        simp only []
        have hk0 := hcur0 h hc
        have hr0 := hcref0 h hc
        have hr := hw.cur_req h hc
        apply W3Pre.toW3 _ (by rw [apiCall_inReq]; exact hr)
        apply apiCall_w3pre w orc _ true h3.base.store hsk'
        have hsame : ∀ h', w.cur = some h' → h' = h := by intro h' hh'; rw [hc] at hh'; simp at hh'; exact hh'.symm
        have hkeep' : ∀ {s' : State} {evs : List Ev}, Step w.cfg.codec (orcSt w orc) s' evs →
            ∀ h', w.cur = some h' → (s'.obj h').ref = none := fun st h' hh' => hkeep st h' hh'
        cases hop with
        | set k v =>
          have hS := hset_spec w.cfg (orcSt w orc) h k v hnf0 hinv0 hk0
          have hP := i3_hset w.cfg hi0 h k v hr0
          exact run3_mk (hset w.cfg (orcSt w orc) h k v).1 _ _ (hset w.cfg (orcSt w orc) h k v).2.2 hP.1 hP.2 (hkeep' hS.step)
        | del k =>
          have hS := hdel_spec w.cfg (orcSt w orc) h k hnf0 hinv0 hk0
          have hP := i3_hdel w.cfg hi0 h k hr0
          exact run3_mk (hdel w.cfg (orcSt w orc) h k).1 _ _ (hdel w.cfg (orcSt w orc) h k).2.2 hP.1 hP.2 (hkeep' hS.step)
        | get k => exact run3_mk (orcSt w orc) _ _ [] hi0 EvsI3.nil hcref0
        | getdel k =>
          have hS := hgetdel_spec w.cfg (orcSt w orc) h k hnf0 hinv0 hk0
          have hP := i3_hgetdel w.cfg hi0 h k hr0
          exact run3_mk (hgetdel w.cfg (orcSt w orc) h k).1 _ _ (hgetdel w.cfg (orcSt w orc) h k).2.2 hP.1 hP.2 (hkeep' hS.step)
        | login uid excl =>
          have hP := i3_hlogin w.cfg le (orcSt w orc) h uid excl hnf0 hinv0 hk0 hi0 hr0
          exact run3_mk (hlogin w.cfg le (orcSt w orc) h uid excl).1 _ _ (hlogin w.cfg le (orcSt w orc) h uid excl).2.2
            hP.1 hP.2.1 (fun h' hh' => by rw [hsame h' hh']; exact hP.2.2)
        | logout =>
          have hS := hlogout_spec w.cfg (orcSt w orc) h hnf0 hinv0 hk0
          have hP := i3_hlogout w.cfg hi0 h
          exact run3_mk (hlogout w.cfg (orcSt w orc) h).1 _ _ (hlogout w.cfg (orcSt w orc) h).2.2 hP.1 hP.2 (hkeep' hS.step)
        | regen =>
          have hP := i3_regenerate w.cfg hi0 h hk0.valid hr0 hk0.minted
          exact run3_mk (regenerate w.cfg (orcSt w orc) h).1 _ _ (regenerate w.cfg (orcSt w orc) h).2.2
            hP.1 hP.2.1 (fun h' hh' => by rw [hsame h' hh']; exact hP.2.2)
        | destroy =>
          have hS := hdestroy_spec w.cfg (orcSt w orc) h w.hasCookie hnf0 hinv0 hk0
          have hP := i3_destroy hi0 h w.hasCookie
          exact run3_mk (destroy (orcSt w orc) h w.hasCookie).1 _ _ (destroy (orcSt w orc) h w.hasCookie).2.2 hP.1 hP.2
            (hkeep' hS.step)
        | expired => exact run3_mk (orcSt w orc) _ _ [] hi0 EvsI3.nil hcref0
        | lastaccess => exact run3_mk (orcSt w orc) _ _ [] hi0 EvsI3.nil hcref0
        | user => exact run3_mk (orcSt w orc) _ _ [] hi0 EvsI3.nil hcref0

/-! ### all histories -/

/-- the world invariant with the reference structure: I0 + I1 (`WInv`) and I3 (`W3`). -/
structure WInv3 (c : Codec) (w : World) : Prop where
  inv : WInv c w
  w3 : W3 w

/-- **every operation of a fault-free history keeps `WInv3`** (same side conditions as `Sx.step_inv`). -/
theorem step_inv3 {c : Codec} (le : ID → ID → Bool) (w : World) (orc : Orc) (op : Op) (hw : WInv3 c w) (ho : OrcOK orc)
    (hopk : OpOK le w op) : WInv3 c (w.step le orc op).1 :=
  ⟨step_inv le w orc op hw.inv ho hopk, step_w3 le w orc op hw.inv hw.w3 ho hopk⟩

theorem hist_inv3 {c : Codec} (le : ID → ID → Bool) (hist : List (Orc × Op)) (w : World) (hw : WInv3 c w)
    (hok : HistOK le w hist) : WInv3 c (runHist le w hist) := by
  induction hist generalizing w with
  | nil => exact hw
  | cons p r ih =>
    obtain ⟨o, op⟩ := p
    obtain ⟨h1, h2, h3⟩ := hok
    exact ih _ (step_inv3 le w o op hw h1 h2) h3

theorem init_winv3 (cfg : Cfg) (ck : CookieCfg) : WInv3 cfg.codec { cfg := cfg, ck := ck } :=
  ⟨init_winv cfg ck, ⟨i3_init.base, fun _ => ⟨i3_init, by intro h hh; simp at hh⟩⟩⟩

/-- **I3 at every operation boundary of every fault-free history** (the histories of
`Sx.coherence_all_histories`: arbitrary configuration changes except the codec, time, crashes — also inside
operations —, cache drops, purges, stale user-index entries, arbitrary presented ids): the heap and the store
always have the reference structure, and unless the process died inside the current request, I3 holds and the
session object the request's handlers work on is a session proper (never a reference record). -/
theorem i3_all_histories (le : ID → ID → Bool) (cfg : Cfg) (ck : CookieCfg) (hist : List (Orc × Op))
    (hok : HistOK le { cfg := cfg, ck := ck } hist) : WInv3 cfg.codec (runHist le { cfg := cfg, ck := ck } hist) :=
  hist_inv3 le hist _ (init_winv3 cfg ck) hok

/-- `Inv ∧ I3` spelled out for cache entries and store entries. -/
theorem I3.spelled_out {c : Codec} {s : State} (hinv : Inv c s) (hi : I3 s) :
    (∀ id h t, (id, h) ∈ s.cache → (s.obj h).ref = some t →
      (∃ a b, id = .gen a ∧ t = .gen b ∧ a < b) ∧ ((s.obj h).data = none ∨ (s.obj h).data = some [])) ∧
    (∀ id h, (id, h) ∈ s.cache → (s.obj h).ref = none → (s.obj h).data ≠ none) ∧
    (∀ id r t, (id, r) ∈ s.store → r.ref = some t →
      (∃ a b, id = .gen a ∧ t = .gen b ∧ a < b) ∧ (r.data = none ∨ r.data = some [])) ∧
    (∀ id r, (id, r) ∈ s.store → r.ref = none → r.data ≠ none) := by
  refine ⟨?_, ?_, ?_, ?_⟩
  · intro id h t hm hr
    have := (hi.heap h).1 t hr
    rw [hi.key id h hm (by rw [hr]; simp)] at this
    exact this
  · intro id h _ hr; exact (hi.heap h).2 hr
  · intro id r t hm hr
    exact (hi.store id r (lookup_of_mem_nodup hinv.sok.nodup hm)).1 t hr
  · intro id r hm hr
    exact (hi.store id r (lookup_of_mem_nodup hinv.sok.nodup hm)).2 hr

/-! ### consequences: references go forward, chains are acyclic -/

/-- "the record that `cache.Get k` would find has the reference field `t`": the cached object if there is one
(the cache shadows the store), else the stored record. -/
def RefAt (s : State) (k : ID) (t : Option ID) : Prop :=
  (∃ h, lookup k s.cache = some h ∧ (s.obj h).ref = t) ∨
  (lookup k s.cache = none ∧ ∃ r, lookup k s.store = some r ∧ r.ref = t)

/-- one link of a reference chain. -/
def RefStep (s : State) (k t : ID) : Prop := RefAt s k (some t)

/-- **references point to later-minted ids.** -/
theorem i3_refStep_lt {s : State} (hi : I3 s) {k t : ID} (h : RefStep s k t) : ∃ a b, k = .gen a ∧ t = .gen b ∧ a < b := by
  rcases h with ⟨x, hl, hr⟩ | ⟨_, r, hl, hr⟩
  · have := ((hi.heap x).1 t hr).1
    rw [hi.key k x (Sx.lookup_some_mem hl) (by rw [hr]; simp)] at this
    exact this
  · exact ((hi.store k r hl).1 t hr).1

theorem i3_chain_lt {s : State} (hi : I3 s) {k t : ID} (h : Relation.TransGen (RefStep s) k t) :
    ∃ a b, k = .gen a ∧ t = .gen b ∧ a < b := by
  induction h with
  | single h => exact i3_refStep_lt hi h
  | tail _ h2 ih =>
    obtain ⟨a, b, e1, e2, hlt⟩ := ih
    obtain ⟨b', c, e3, e4, hlt'⟩ := i3_refStep_lt hi h2
    rw [e2] at e3
    injection e3 with e3
    exact ⟨a, c, e1, e4, by omega⟩

/-- **reference chains are acyclic**: no id reaches itself through one or more references. -/
theorem i3_acyclic {s : State} (hi : I3 s) (k : ID) : ¬ Relation.TransGen (RefStep s) k k := by
  intro h
  obtain ⟨a, b, e1, e2, hlt⟩ := i3_chain_lt hi h
  rw [e1] at e2
  injection e2 with e2
  omega

/-! ### non-vacuity of I3, and why it says nothing about `user` -/

theorem i3_exS1 : I3 exS1 := (i3_start exCfg {} exReq (noFail_of_nil rfl) (inv_init _) i3_init).i3
theorem i3_exS2 : I3 exS2 :=
  (i3_regenerate exCfg i3_exS1 0 exS1_ok.2.2.valid (by decide) exS1_ok.2.2.minted).1

/-- `exS2` holds a cached reference object and a stored reference record, both `gen 0 ↦ gen 1`. -/
example : RefStep exS2 (.gen 0) (.gen 1) ∧ lookup (.gen 0) exS2.cache = some 1 ∧
    (lookup (.gen 0) exS2.store).map (·.ref) = some (some (.gen 1)) := by
  refine ⟨Or.inl ⟨1, by decide, by decide⟩, by decide, by decide⟩

example : ¬ Relation.TransGen (RefStep exS2) (.gen 0) (.gen 0) := i3_acyclic i3_exS2 _

/-- **`href` in `i3_regenerate` cannot be dropped.** `RegenerateID` on a *reference* object (handle 1 of `exS2`,
the record `gen 0 ↦ gen 1`) gives it the new id `gen 2` while it keeps pointing to `gen 1`: a BACKWARD reference.
This is why the world invariant `W3` carries "the request's session object is not a reference record". -/
example : I3 exS2 ∧ (exS2.obj 1).ref = some (.gen 1) ∧ ¬ I3 (regenerate exCfg exS2 1).1 := by
  refine ⟨i3_exS2, by decide, fun hi => ?_⟩
  have h1 : ((regenerate exCfg exS2 1).1.obj 1).ref = some (.gen 1) := by decide
  have h2 : ((regenerate exCfg exS2 1).1.obj 1).id = .gen 2 := by decide
  obtain ⟨⟨a, b, e1, e2, hlt⟩, _⟩ := (hi.heap 1).1 _ h1
  rw [h2] at e1
  injection e1 with e1
  injection e2 with e2
  omega

/-- **`hmint` in `i3_regenerate` cannot be dropped**: the old id must have been minted (before the new one), else
the reference record left behind sits under an id that is not `gen a`, `a < b`. -/
example :
    let s : State := { heap := [{ id := .lit "x", created := 0, lastAccess := 0 }] }
    I3 s ∧ (s.obj 0).ref = none ∧ ¬ I3 (regenerate exCfg s 0).1 := by
  intro s
  refine ⟨⟨?_, by intro _ _ h; simp [s] at h, by intro _ _ h; simp [s] at h, by intro _ _ h; simp [s, lookup] at h⟩,
    by decide, fun hi => ?_⟩
  · intro h
    have hs : ∀ h, (s.obj h).ref = none ∧ (s.obj h).data = some [] := by
      intro h
      match h with
      | 0 => exact ⟨rfl, rfl⟩
      | n + 1 => exact ⟨rfl, rfl⟩
    exact ⟨fun t ht => by rw [(hs h).1] at ht; simp at ht, fun _ => by rw [(hs h).2]; simp⟩
  · have h1 : ((regenerate exCfg s 0).1.obj 1).ref = some (.gen 0) := by decide
    have h2 : ((regenerate exCfg s 0).1.obj 1).id = .lit "x" := by decide
    obtain ⟨⟨a, b, e1, _⟩, _⟩ := (hi.heap 1).1 _ h1
    rw [h2] at e1
    cases e1

/-- `i3_all_histories` applies to the long script of `Inv/Examples.lean` (rotation, log-in, crash inside
`RegenerateID`, cache sizes 1, 0, unlimited, purge, cache drop, crash). -/
example : WInv3 Codec.gob (runHist idLe {} okScript) := i3_all_histories idLe {} {} okScript (okScript_ok _)
-- reference records do exist along that run (after the `regen` of step 3 and the log-in of step 7)
#guard ((runHist idLe {} (okScript.take 3)).st.store.filter (fun e => e.2.ref.isSome)).length == 1
#guard ((runHist idLe {} (okScript.take 7)).st.store.filter (fun e => e.2.ref.isSome)).length == 2

/-- **Why I3 has no "a reference record carries no user" conjunct.** It is not an invariant: `stale uid id`
makes `UserSessions(uid)` list an arbitrary id, and `RefreshUser` (like `LogOut(uid)`) then loads *every* listed
id and sets its user — including a reference record. The history is fault-free and satisfies every side
condition (`histOKb`); afterwards the reference record under `gen 0` carries user `"u"`. (Harmless for C05:
`Start` never returns a reference object, `i3_start`.) -/
def i3_userScript : List (Orc × Op) :=
  [({}, .req "a" .none "" "" true), ({}, .h .regen), ({}, .endReq), ({}, .stale "u" (.gen 0)), ({}, .refresh "u")]

#guard histOKb idLe {} i3_userScript
#guard (lookup (ID.gen 0) (runHist idLe {} i3_userScript).st.store).map (fun r => (r.ref, r.user)) ==
  some (some (ID.gen 1), some "u")
#guard (lookup (ID.gen 0) (runHist idLe {} (i3_userScript.take 4)).st.store).map (fun r => (r.ref, r.user)) ==
  some (some (ID.gen 1), none)

end Sx.More
