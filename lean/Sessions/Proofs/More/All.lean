import Sessions.Proofs.More.Cache12
import Sessions.Proofs.More.Cache12World
import Sessions.Proofs.More.Crash10
import Sessions.Proofs.More.Chain05Inv
import Sessions.Proofs.More.Chain05
import Sessions.Proofs.More.Chain05Hist
/-!
# Further T-local and history-level theorems (namespace `Sx.More`)

* `Cache12`      — C12: the cache keeps to its size, evicts least recently used, flushes before dropping (T-local)
* `Cache12World` — C12 lifted: the size bound is kept by every model function, every `World.step`, every history
* `Crash10`      — C10: an ID change (RegenerateID, LogIn, automatic rotation) is crash-safe at every crash point
* `Chain05Inv`   — C05: the reference-structure invariant I3 (references point to later-minted ids), T-local
                   preservation, `step_inv3`, `i3_all_histories`, acyclicity
* `Chain05`      — C05: the back-stop, the clean-up goroutines, chains of any length resolve (`follow_fuel_enough`,
                   `c05_chain_resolves`)
* `Chain05Hist`  — C05: in a running process no reference record outlives its grace period (history level)
-/
