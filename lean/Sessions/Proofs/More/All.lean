import Sessions.Proofs.More.Cache12
import Sessions.Proofs.More.Cache12World
/-!
# Further T-local and history-level theorems (namespace `Sx.More`)

* `Cache12`      — C12: the cache keeps to its size, evicts least recently used, flushes before dropping (T-local)
* `Cache12World` — C12 lifted: the size bound is kept by every model function, every `World.step`, every history
-/
