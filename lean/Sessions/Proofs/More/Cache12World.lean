import Sessions.Proofs.More.Cache12
/-!
# C12 lifted to operations and histories: the size bound is an invariant

`LB c0 N s` (failure-free oracle, unique cache keys, at most `N` cached sessions) is kept by every model
function when `N = cfg.maxCache > 0`; `CB N s` (the part that survives an operation boundary) is kept by
every `World.step`, for the `maxCache` in force during that step; hence in every fault-free history that
does not change `maxCache` the cache never holds more than `N` sessions at an operation boundary
(`c12_bounded_all_histories`) — crashes, restarts, `crashinside`, waits, purges included. A fresh insert
(`Set` of an uncached session, `Get` that loads) establishes the bound from ANY size (`c12_size_set`,
`c12_size_get_load`), and so do `RegenerateID` and session creation (`regenerate_establishes`,
`createNew_establishes`).
-/
namespace Sx.More

/-- failure-free oracle and unique cache keys -/
structure LN (s : State) : Prop where
  nofail : NoFail s
  nodup : (keys s.cache).Nodup

/-- … and at most `N` cached sessions, or else no cache key that is not a key of `c0` (the cache at the
beginning of the operation: "no fresh insert happened yet"). With `c0 = []` this is the plain bound. -/
structure LB (c0 : List (ID × Nat)) (N : Int) (s : State) : Prop extends LN s where
  len : (s.cache.length : Int) ≤ N ∨ ∀ p ∈ s.cache, p.1 ∈ keys c0

theorem LN.congr {s s' : State} (h : LN s) (hc : s'.cache = s.cache) (hf : s'.fails = s.fails) : LN s' :=
  ⟨by intro b hb; rw [hf] at hb; exact h.nofail b hb, by rw [hc]; exact h.nodup⟩

theorem LB.congr {c0 : List (ID × Nat)} {N : Int} {s s' : State} (h : LB c0 N s) (hc : s'.cache = s.cache) (hf : s'.fails = s.fails) : LB c0 N s' :=
  ⟨h.toLN.congr hc hf, by rw [hc]; exact h.len⟩

/-- a state with the same cache and a tail of the oracle -/
theorem LN.tail {s s' : State} (h : LN s) (hc : s'.cache = s.cache) (hf : ∃ n, s'.fails = s.fails.drop n) : LN s' :=
  ⟨noFail_of_drop h.nofail hf, by rw [hc]; exact h.nodup⟩

theorem LB.tail {c0 : List (ID × Nat)} {N : Int} {s s' : State} (h : LB c0 N s) (hc : s'.cache = s.cache)
    (hf : ∃ n, s'.fails = s.fails.drop n) : LB c0 N s' :=
  ⟨h.toLN.tail hc hf, by rw [hc]; exact h.len⟩

/-- a state whose cache is a sub-list -/
theorem LB.shrink {c0 : List (ID × Nat)} {N : Int} {s s' : State} (h : LB c0 N s) (hc : s'.cache.Sublist s.cache)
    (hf : ∃ n, s'.fails = s.fails.drop n) : LB c0 N s' := by
  refine ⟨⟨noFail_of_drop h.nofail hf, nodup_of_sublist hc h.nodup⟩, ?_⟩
  rcases h.len with hl | hk
  · left; have := hc.length_le; omega
  · right; exact fun p hp => hk p (hc.subset hp)

theorem drop_one (l : List Bool) : ∃ n, l.tail = l.drop n := ⟨1, by simp⟩
theorem drop_zero (l : List Bool) : ∃ n, l = l.drop n := ⟨0, rfl⟩

/-! ### the cache primitives -/

theorem cacheSet_LN (cfg : Cfg) (s : State) (h : Nat) (hb : LN s) : LN (cacheSet cfg s h).1 := by
  have hd := compact_drops cfg (Loc.setReq s h) (Loc.setObjNow s h) hb.nodup
  have hC : Loc.setC cfg s h = compact cfg (Loc.setReq s h) (Loc.setObjNow s h) := rfl
  constructor
  · show ∀ b ∈ (cacheSet cfg s h).1.fails, b = false
    rw [Loc.cacheSet_fails cfg s h, hC]
    intro b hb'
    exact hd.nofail hb.nofail b (List.mem_of_mem_tail hb')
  · rw [Loc.cacheSet_cache, hC]
    have hn1 := nodup_of_sublist hd.sublist hb.nodup
    split
    · exact nodup_insert hn1
    · exact hn1

theorem cacheSet_LB {c0 : List (ID × Nat)} (cfg : Cfg) (s : State) (h : Nat) (hN : 0 < cfg.maxCache) (hb : LB c0 cfg.maxCache s) :
    LB c0 cfg.maxCache (cacheSet cfg s h).1 := by
  refine ⟨cacheSet_LN cfg s h hb.toLN, ?_⟩
  rcases hb.len with hl | hk
  · exact Or.inl (c12_size_set cfg s h hb.nofail hb.nodup hN (Or.inr (Or.inl hl)))
  · cases hmiss : lookup (s.obj h).id s.cache with
    | none => exact Or.inl (c12_size_set cfg s h hb.nofail hb.nodup hN (Or.inl hmiss))
    | some h' =>
      right
      have hid : (s.obj h).id ∈ keys c0 := hk _ (lookup_some_mem hmiss)
      intro p hp
      rw [Loc.cacheSet_cache, if_pos (by omega)] at hp
      rcases mem_insert hp with e | ⟨hp', _⟩
      · rw [e]; exact hid
      · exact hk p ((Loc.setC_flushed cfg s h).cache_sub p hp')

theorem getOf_found_LN (cfg : Cfg) (id : ID) (s0 : State) (o : Sess) (e0 : List Ev) (hb : LN s0) :
    LN (Loc.getOf cfg id (s0, .found o, e0)).1 := by
  rw [Loc.getOf_found]
  split
  · have hd := compact_drops cfg 1 (s0.alloc o).2 hb.nodup
    exact ⟨hd.nofail hb.nofail, nodup_insert (nodup_of_sublist hd.sublist hb.nodup)⟩
  · exact hb.congr rfl rfl

theorem cacheGet_LN (cfg : Cfg) (s : State) (id : ID) (hb : LN s) : LN (cacheGet cfg s id).1 := by
  cases hc : lookup id s.cache with
  | some h0 => rw [Loc.cacheGet_hit hc]; exact hb
  | none =>
    rw [Loc.cacheGet_miss hc]
    have hcase := Loc.loadRec_cases s id
    generalize loadRec s id = x at hcase
    have hp : LN s.pop := hb.tail rfl (drop_one _)
    have hpp : LN s.pop.pop := hp.tail rfl (drop_one _)
    cases hcase with
    | fail hf => exact hp
    | nil hf hl => exact hp
    | plain r hf hl hu => exact getOf_found_LN cfg id _ _ _ hp
    | userFail r uid hf hl hu hf2 => exact hpp
    | user r uid hf hl hu hf2 => exact getOf_found_LN cfg id _ _ _ hpp

theorem cacheGet_LB {c0 : List (ID × Nat)} (cfg : Cfg) (s : State) (id : ID) (hN : 0 < cfg.maxCache) (hb : LB c0 cfg.maxCache s) :
    LB c0 cfg.maxCache (cacheGet cfg s id).1 := by
  refine ⟨cacheGet_LN cfg s id hb.toLN, ?_⟩
  rcases c12_size_get cfg s id hb.nofail hb.nodup hN with ⟨h1, _⟩ | h1
  · rw [h1]; exact hb.len
  · exact Or.inl h1

theorem cacheDelete_LB {c0 : List (ID × Nat)} {N : Int} (s : State) (id : ID) (hb : LB c0 N s) : LB c0 N (cacheDelete s id).1 := by
  rw [Loc.cacheDelete_eq]
  split <;> exact hb.shrink (erase_sublist _ _) (drop_one _)

theorem destroy_LB {c0 : List (ID × Nat)} {N : Int} (s : State) (h : Nat) (b : Bool) (hb : LB c0 N s) : LB c0 N (destroy s h b).1 := by
  rw [Loc.destroy_eq]
  split
  · exact cacheDelete_LB s _ hb
  · split <;> exact cacheDelete_LB s _ hb

theorem saveRec_LB {c0 : List (ID × Nat)} {N : Int} (cfg : Cfg) (s : State) (id : ID) (o : Sess) (hb : LB c0 N s) : LB c0 N (saveRec cfg s id o).1 :=
  hb.tail (Loc.saveRec_cache cfg s id o) ⟨1, by rw [Loc.saveRec_fails]; simp⟩

theorem saveObj_LB {c0 : List (ID × Nat)} {N : Int} (cfg : Cfg) (s : State) (h : Nat) (hb : LB c0 N s) : LB c0 N (saveObj cfg s h).1 :=
  saveRec_LB cfg s _ _ hb

theorem setObj_LB {c0 : List (ID × Nat)} {N : Int} (s : State) (h : Nat) (o : Sess) (hb : LB c0 N s) : LB c0 N (s.setObj h o) := hb.congr rfl rfl

/-! ### RegenerateID, creation -/

theorem regenerate_LB {c0 : List (ID × Nat)} (cfg : Cfg) (s : State) (h : Nat) (hN : 0 < cfg.maxCache) (hb : LB c0 cfg.maxCache s) :
    LB c0 cfg.maxCache (regenerate cfg s h).1 := by
  have h0 : LB c0 cfg.maxCache (Loc.regenS0 s h) := hb.congr rfl rfl
  have hA : LB c0 cfg.maxCache (Loc.regenA cfg s h).1 := cacheSet_LB cfg _ h hN h0
  have h2 : LB c0 cfg.maxCache (Loc.regenS2 cfg s h) := hA.congr rfl rfl
  have hB : LB c0 cfg.maxCache (Loc.regenB cfg s h).1 := cacheSet_LB cfg _ _ hN h2
  rw [Loc.regenerate_eq]
  split
  · exact hA
  · split
    · exact hB
    · exact hB.congr rfl rfl

/-- **`RegenerateID` establishes the bound from any cache size** (its first `Set` is a fresh insert: the id
about to be minted is not cached — `hfresh` follows from `Inv.ckeys`). -/
theorem regenerate_establishes {c0 : List (ID × Nat)} (cfg : Cfg) (s : State) (h : Nat) (hN : 0 < cfg.maxCache) (hb : LN s)
    (hv : h < s.heap.length) (hfresh : ∀ x, (ID.gen s.nextId, x) ∉ s.cache) :
    LB c0 cfg.maxCache (regenerate cfg s h).1 := by
  have h0 : LN (Loc.regenS0 s h) := hb.congr rfl rfl
  have hid : ((Loc.regenS0 s h).obj h).id = ID.gen s.nextId := Loc.regenS0_id s h hv
  have hmiss : lookup ((Loc.regenS0 s h).obj h).id (Loc.regenS0 s h).cache = none := by
    rw [hid]
    cases hl : lookup (ID.gen s.nextId) (Loc.regenS0 s h).cache with
    | none => rfl
    | some x => exact absurd (lookup_some_mem hl) (hfresh x)
  have hA : LB c0 cfg.maxCache (Loc.regenA cfg s h).1 :=
    ⟨cacheSet_LN cfg _ h h0, Or.inl (c12_size_set cfg _ h h0.nofail h0.nodup hN (Or.inl hmiss))⟩
  have h2 : LB c0 cfg.maxCache (Loc.regenS2 cfg s h) := hA.congr rfl rfl
  have hB : LB c0 cfg.maxCache (Loc.regenB cfg s h).1 := cacheSet_LB cfg _ _ hN h2
  rw [Loc.regenerate_eq]
  split
  · exact hA
  · split
    · exact hB
    · exact hB.congr rfl rfl

theorem createNew_LB {c0 : List (ID × Nat)} (cfg : Cfg) (s : State) (r : Req) (pre : List Ev) (hN : 0 < cfg.maxCache) (hb : LB c0 cfg.maxCache s) :
    LB c0 cfg.maxCache (createNew cfg s r pre).1 := by
  cases hc : r.create with
  | false => rw [Loc.createNew_no pre hc]; exact hb
  | true =>
    rw [Loc.createNew_yes pre hc]
    have h1 : LB c0 cfg.maxCache (Loc.newS1 s r) := hb.congr rfl rfl
    split <;> exact cacheSet_LB cfg _ _ hN h1

/-- **creating a session establishes the bound from any cache size** (`hfresh` as above). -/
theorem createNew_establishes {c0 : List (ID × Nat)} (cfg : Cfg) (s : State) (r : Req) (pre : List Ev) (hN : 0 < cfg.maxCache) (hb : LN s)
    (hc : r.create = true) (hfresh : ∀ x, (ID.gen s.nextId, x) ∉ s.cache) :
    LB c0 cfg.maxCache (createNew cfg s r pre).1 := by
  rw [Loc.createNew_yes pre hc]
  have h1 : LN (Loc.newS1 s r) := hb.congr rfl rfl
  have hobj : (Loc.newS1 s r).obj s.heap.length =
      { id := ID.gen s.nextId, created := s.now, lastAccess := s.now, ip := r.ip, ua := agentHash r.ua } :=
    Loc.obj_alloc_new _ _
  have hmiss : lookup ((Loc.newS1 s r).obj s.heap.length).id (Loc.newS1 s r).cache = none := by
    rw [hobj]
    cases hl : lookup (ID.gen s.nextId) (Loc.newS1 s r).cache with
    | none => rfl
    | some x => exact absurd (lookup_some_mem hl) (hfresh x)
  have hS : LB c0 cfg.maxCache (cacheSet cfg (Loc.newS1 s r) s.heap.length).1 :=
    ⟨cacheSet_LN cfg _ _ h1, Or.inl (c12_size_set cfg _ _ h1.nofail h1.nodup hN (Or.inl hmiss))⟩
  split <;> exact hS

/-! ### Start -/

theorem touch_LB {c0 : List (ID × Nat)} {N : Int} (s : State) (h : Nat) (r : Req) (hb : LB c0 N s) : LB c0 N (touch s h r) := hb.congr rfl rfl

theorem follow_LB {c0 : List (ID × Nat)} (cfg : Cfg) (hN : 0 < cfg.maxCache) (n : Nat) (s : State) (h : Nat) (hb : LB c0 cfg.maxCache s) :
    LB c0 cfg.maxCache (follow cfg n s h).1 := by
  induction n generalizing s h with
  | zero => exact hb
  | succ n ih =>
    cases href : (s.obj h).ref with
    | none => rw [Loc.follow_succ_none n href]; exact hb
    | some tgt =>
      rw [Loc.follow_succ_some n href]
      have hG := cacheGet_LB cfg s tgt hN hb
      generalize cacheGet cfg s tgt = g at hG
      obtain ⟨s1, res, e1⟩ := g
      cases res with
      | err => exact hG
      | nil => exact hG
      | some h2 => exact ih s1 h2 hG

theorem startValid_LB {c0 : List (ID × Nat)} (cfg : Cfg) (s1 : State) (id : ID) (h : Nat) (r : Req) (e1 : List Ev) (hN : 0 < cfg.maxCache)
    (hb : LB c0 cfg.maxCache s1) : LB c0 cfg.maxCache (startValid cfg s1 id h r e1).1 := by
  cases href : (s1.obj h).ref with
  | none =>
    by_cases hage : since s1.now (s1.obj h).created ≥ cfg.idExpiry
    · rw [Loc.startValid_rotate id r e1 href hage]
      have hR := regenerate_LB cfg s1 h hN hb
      split
      · exact hR
      · exact touch_LB _ h r hR
    · rw [Loc.startValid_young id r e1 href (by omega)]
      exact touch_LB _ h r hb
  | some t =>
    by_cases hexp : since s1.now (s1.obj h).created ≥ cfg.idExpiry ∧ since s1.now (s1.obj h).created - cfg.idExpiry ≥ cfg.grace
    · rw [Loc.startValid_ref_expired id r e1 href hexp]
      split <;> exact cacheDelete_LB s1 id hb
    · rw [Loc.startValid_ref id r e1 href hexp]
      have hF := follow_LB cfg hN (s1.store.length + s1.cache.length + 1) s1 h hb
      generalize follow cfg (s1.store.length + s1.cache.length + 1) s1 h = g at hF
      obtain ⟨s2, res, e2⟩ := g
      cases res with
      | err => exact hF
      | nil => exact hF
      | some h2 => exact touch_LB _ h2 r hF

theorem start_LB {c0 : List (ID × Nat)} (cfg : Cfg) (s : State) (r : Req) (hN : 0 < cfg.maxCache) (hb : LB c0 cfg.maxCache s) :
    LB c0 cfg.maxCache (start cfg s r).1 := by
  cases hck : r.cookie with
  | none => rw [Loc.start_none hck]; exact createNew_LB cfg s r [] hN hb
  | some id =>
    by_cases hl : r.cookieLen = 24
    · rw [Loc.start_some hck hl]
      have hG := cacheGet_LB cfg s id hN hb
      generalize cacheGet cfg s id = g at hG
      obtain ⟨s1, res, e1⟩ := g
      cases res with
      | err => exact hG
      | nil => exact createNew_LB cfg s1 r _ hN hG
      | some h =>
        simp only [Loc.startGot]
        split
        · unfold Loc.startInvalid
          have hD := destroy_LB s1 h true hG
          split
          · exact hD
          · exact createNew_LB cfg _ r _ hN hD
        · exact startValid_LB cfg s1 id h r e1 hN hG
    · rw [Loc.start_len hl]; exact createNew_LB cfg s r [] hN hb

/-! ### handlers -/

theorem hset_LB {c0 : List (ID × Nat)} {N : Int} (cfg : Cfg) (s : State) (h : Nat) (k : String) (v : Val) (hb : LB c0 N s) : LB c0 N (hset cfg s h k v).1 := by
  cases hd : (s.obj h).data with
  | none => rw [Loc.hset_none k v hd]; exact hb
  | some d => rw [Loc.hset_some k v hd]; exact saveObj_LB cfg _ h (setObj_LB s h _ hb)

theorem hdel_LB {c0 : List (ID × Nat)} {N : Int} (cfg : Cfg) (s : State) (h : Nat) (k : String) (hb : LB c0 N s) : LB c0 N (hdel cfg s h k).1 := by
  rw [Loc.hdel_eq]; exact saveObj_LB cfg _ h (setObj_LB s h _ hb)

theorem hgetdel_LB {c0 : List (ID × Nat)} {N : Int} (cfg : Cfg) (s : State) (h : Nat) (k : String) (hb : LB c0 N s) : LB c0 N (hgetdel cfg s h k).1 := by
  unfold hgetdel
  split
  · exact hb
  · exact saveObj_LB cfg _ h (setObj_LB s h _ hb)

theorem hlogout_LB {c0 : List (ID × Nat)} {N : Int} (cfg : Cfg) (s : State) (h : Nat) (hb : LB c0 N s) : LB c0 N (hlogout cfg s h).1 := by
  cases hu : (s.obj h).user with
  | none => rw [Loc.hlogout_none hu]; exact hb
  | some u => rw [Loc.hlogout_some hu]; exact saveObj_LB cfg _ h (setObj_LB s h _ hb)

/-! ### users -/

theorem setUserAll_LB {c0 : List (ID × Nat)} (cfg : Cfg) (u : Option (String × Nat)) (hN : 0 < cfg.maxCache) (ids : List ID) (s : State)
    (hb : LB c0 cfg.maxCache s) : LB c0 cfg.maxCache (setUserAll cfg u ids s).1 := by
  induction ids generalizing s with
  | nil => exact hb
  | cons id rest ih =>
    have hG := cacheGet_LB cfg s id hN hb
    rcases hg : cacheGet cfg s id with ⟨s1, res, e1⟩
    rw [hg] at hG
    cases res with
    | err => rw [Loc.setUserAll_cons_err hg]; exact hG
    | nil => rw [Loc.setUserAll_cons_nil hg]; exact ih s1 hG
    | some h =>
      rw [Loc.setUserAll_cons_some hg]
      have hS : LB c0 cfg.maxCache (Loc.userSet cfg u s1 h).1 := cacheSet_LB cfg _ h hN (setObj_LB s1 h _ hG)
      split
      · exact hS
      · exact ih _ hS

theorem forUser_LB {c0 : List (ID × Nat)} (cfg : Cfg) (le : ID → ID → Bool) (s : State) (uid : String) (u : Option (String × Nat))
    (hN : 0 < cfg.maxCache) (hb : LB c0 cfg.maxCache s) : LB c0 cfg.maxCache (forUser cfg le s uid u).1 := by
  rw [Loc.forUser_eq]
  have hp : LB c0 cfg.maxCache s.pop := hb.tail rfl (drop_one _)
  split
  · exact hp
  · exact setUserAll_LB cfg u hN _ _ hp

theorem logoutUser_LB {c0 : List (ID × Nat)} (cfg : Cfg) (le : ID → ID → Bool) (s : State) (uid : String) (hN : 0 < cfg.maxCache)
    (hb : LB c0 cfg.maxCache s) : LB c0 cfg.maxCache (logoutUser cfg le s uid).1 := forUser_LB cfg le s uid none hN hb

theorem refreshUser_LB {c0 : List (ID × Nat)} (cfg : Cfg) (le : ID → ID → Bool) (s : State) (uid : String) (hN : 0 < cfg.maxCache)
    (hb : LB c0 cfg.maxCache s) : LB c0 cfg.maxCache (refreshUser cfg le s uid).1 :=
  forUser_LB cfg le _ uid _ hN (hb.congr rfl rfl)

theorem hlogin_LB {c0 : List (ID × Nat)} (cfg : Cfg) (le : ID → ID → Bool) (s : State) (h : Nat) (uid : String) (excl : Bool)
    (hN : 0 < cfg.maxCache) (hb : LB c0 cfg.maxCache s) : LB c0 cfg.maxCache (hlogin cfg le s h uid excl).1 := by
  have hP : LB c0 cfg.maxCache (Loc.loginPre cfg le s h uid excl).1 := by
    unfold Loc.loginPre
    split
    · exact logoutUser_LB cfg le s uid hN hb
    · exact hlogout_LB cfg s h hb
  have hS : LB c0 cfg.maxCache (Loc.loginSet cfg le s h uid excl).1 := cacheSet_LB cfg _ h hN (setObj_LB _ h _ hP)
  rw [Loc.hlogin_eq]
  split
  · exact hP
  · split
    · exact hS
    · exact regenerate_LB cfg _ h hN hS

/-! ### operation boundaries -/

/-- what survives an operation boundary: unique cache keys, and at most `N` cached sessions unless every
cache key is a key of `c0` -/
def CB (c0 : List (ID × Nat)) (N : Int) (s : State) : Prop :=
  (keys s.cache).Nodup ∧ ((s.cache.length : Int) ≤ N ∨ ∀ p ∈ s.cache, p.1 ∈ keys c0)

theorem LB.cb {c0 : List (ID × Nat)} {N : Int} {s : State} (h : LB c0 N s) : CB c0 N s := ⟨h.nodup, h.len⟩

theorem CB.congr {c0 : List (ID × Nat)} {N : Int} {s s' : State} (h : CB c0 N s) (hc : s'.cache = s.cache) : CB c0 N s' := by
  unfold CB; rw [hc]; exact h

theorem CB.lb {c0 : List (ID × Nat)} {N : Int} {s : State} (h : CB c0 N s) (hnf : NoFail s) : LB c0 N s := ⟨⟨hnf, h.1⟩, h.2⟩

theorem CB.nil (c0 : List (ID × Nat)) (N : Int) {s : State} (h : s.cache = []) : CB c0 N s := by
  unfold CB; rw [h]; exact ⟨List.nodup_nil, Or.inr (by intro p hp; simp at hp)⟩

/-- with `c0 = []` the plain bound -/
theorem CB.bound {N : Int} {s : State} (h : CB [] N s) (hN : 0 ≤ N) : (s.cache.length : Int) ≤ N := by
  rcases h.2 with h | h
  · exact h
  · cases hc : s.cache with
    | nil => simpa using hN
    | cons p r => have := h p (by rw [hc]; exact List.mem_cons_self); simp at this

theorem cb_advance {c0 : List (ID × Nat)} {N : Int} (s : State) (d : Int) (h : CB c0 N s) : CB c0 N (advance s d).1 := by
  apply advance_ind (CB c0 N)
  · intro tm _; exact h.congr rfl
  · intro s' id h'
    refine ⟨nodup_erase h'.1, ?_⟩
    rcases h'.2 with hl | hk
    · left
      have := length_erase_le id s'.cache
      show ((erase id s'.cache).length : Int) ≤ N
      omega
    · right; exact fun p hp => hk p (mem_erase hp).1
  · intro s' t h'; exact h'.congr rfl

theorem cb_finW {c0 : List (ID × Nat)} {N : Int} (w : World) (h : CB c0 N w.st) : CB c0 N (finW w).st := by
  unfold finW
  split
  · exact CB.nil c0 N rfl
  · exact h

theorem cb_apiCall {c0 : List (ID × Nat)} {N : Int} (w : World) (orc : Orc) (run : State → State × RetV × Option String × List Ev)
    (b : Bool) (h : CB c0 N (run { w.st with fails := orc.fails, picks := orc.picks }).1) : CB c0 N (apiCall w orc run b).1.st := by
  rw [apiCall_fst]
  apply cb_advance
  unfold apiMid
  split <;> exact h.congr rfl

theorem cb_fin_api {c0 : List (ID × Nat)} {N : Int} (w : World) (orc : Orc) (run : State → State × RetV × Option String × List Ev)
    (b : Bool) (h : CB c0 N (run { w.st with fails := orc.fails, picks := orc.picks }).1) :
    CB c0 N (finish (apiCall w orc run b).1 (apiCall w orc run b).2).1.st := by
  rw [finish_fst]; exact cb_finW _ (cb_apiCall w orc run b h)

/-- every operation of a fault-free history keeps `CB c0 N` for the `MaxSessionCacheSize = N > 0` in force
during that operation -/
theorem step_cb (c0 : List (ID × Nat)) (le : ID → ID → Bool) (w : World) (orc : Orc) (op : Op) (ho : OrcOK orc)
    (hN : 0 < w.cfg.maxCache) (hb : CB c0 w.cfg.maxCache w.st) : CB c0 w.cfg.maxCache (w.step le orc op).1.st := by
  have hl0 : LB c0 w.cfg.maxCache (orcSt w orc) := (hb.congr (s' := orcSt w orc) rfl).lb ho
  by_cases hsk : w.skip = true
  · by_cases he : op = .endReq
    · subst he
      unfold World.step
      simp only [Bool.not_true, Bool.and_false, Bool.false_eq_true, if_false, finish_fst]
      exact cb_finW _ hb
    · rw [step_skip le w orc op hsk he]; exact hb
  · have hsk' : w.skip = false := by simpa using hsk
    unfold World.step
    cases op with
    | codec c' =>
      simp only [hsk', Bool.false_and, Bool.false_eq_true, if_false, finish_fst]; exact cb_finW _ hb
    | cfg n v =>
      simp only [hsk', Bool.false_and, Bool.false_eq_true, if_false, finish_fst]; exact cb_finW _ hb
    | cookiecfg ck =>
      simp only [hsk', Bool.false_and, Bool.false_eq_true, if_false, finish_fst]; exact cb_finW _ hb
    | fault =>
      simp only [hsk', Bool.false_and, Bool.false_eq_true, if_false, finish_fst]; exact cb_finW _ hb
    | stale uid id =>
      simp only [hsk', Bool.false_and, Bool.false_eq_true, if_false, finish_fst]
      exact cb_finW _ (hb.congr rfl)
    | crashinside k =>
      simp only [hsk', Bool.false_and, Bool.false_eq_true, if_false, finish_fst]; exact cb_finW _ hb
    | wait d =>
      simp only [hsk', Bool.false_and, Bool.false_eq_true, if_false, finish_fst]
      apply cb_finW _
      exact cb_advance w.st d hb
    | dropcache =>
      simp only [hsk', Bool.false_and, Bool.false_eq_true, if_false, finish_fst]
      apply cb_finW _
      exact CB.nil c0 _ rfl
    | crash =>
      simp only [hsk', Bool.false_and, Bool.false_eq_true, if_false, finish_fst]; exact cb_finW _ hb
    | expiredRec id =>
      simp only [hsk', Bool.false_and, Bool.false_eq_true, if_false, finish_fst]; exact cb_finW _ hb
    | purge =>
      simp only [hsk', Bool.false_and, Bool.false_eq_true, if_false]
      apply cb_fin_api w orc _ false
      simp only [purge_eq]
      exact CB.nil c0 _ rfl
    | logoutUser uid =>
      simp only [hsk', Bool.false_and, Bool.false_eq_true, if_false]
      apply cb_fin_api w orc _ false
      exact (logoutUser_LB w.cfg le (orcSt w orc) uid hN hl0).cb
    | refresh uid =>
      simp only [hsk', Bool.false_and, Bool.false_eq_true, if_false]
      apply cb_fin_api w orc _ false
      exact (refreshUser_LB w.cfg le (orcSt w orc) uid hN hl0).cb
    | endReq =>
      simp only [hsk', Bool.false_and, Bool.false_eq_true, if_false, finish_fst]; exact cb_finW _ hb
    | req client spec ip ua create =>
      simp only [hsk', Bool.false_and, Bool.false_eq_true, if_false]
      generalize ({ cookie := _, cookieLen := _, ip := ip, ua := ua, create := create } : Req) = r
      apply cb_apiCall _ orc _ true
      exact (start_LB w.cfg (orcSt w orc) r hN hl0).cb
    | h hop =>
      simp only [hsk', Bool.false_and, Bool.false_eq_true, if_false]
      cases hc : w.cur with
      | none => exact hb
      | some h =>
        simp only []
        apply cb_apiCall w orc _ true
        cases hop with
        | set k v => exact (hset_LB w.cfg (orcSt w orc) h k v hl0).cb
        | del k => exact (hdel_LB w.cfg (orcSt w orc) h k hl0).cb
        | get k => exact hl0.cb
        | getdel k => exact (hgetdel_LB w.cfg (orcSt w orc) h k hl0).cb
        | login uid excl => exact (hlogin_LB w.cfg le (orcSt w orc) h uid excl hN hl0).cb
        | logout => exact (hlogout_LB w.cfg (orcSt w orc) h hl0).cb
        | regen => exact (regenerate_LB w.cfg (orcSt w orc) h hN hl0).cb
        | destroy => exact (destroy_LB (orcSt w orc) h w.hasCookie hl0).cb
        | expired => exact hl0.cb
        | lastaccess => exact hl0.cb
        | user => exact hl0.cb

/-- **C12 at `World.step` level, preservation**: a cache within the bound (and with unique keys) stays so,
for the `MaxSessionCacheSize = N > 0` in force during the operation. -/
theorem step_bounded (le : ID → ID → Bool) (w : World) (orc : Orc) (op : Op) (ho : OrcOK orc)
    (hN : 0 < w.cfg.maxCache) (hn : (keys w.st.cache).Nodup) (hb : (w.st.cache.length : Int) ≤ w.cfg.maxCache) :
    (keys (w.step le orc op).1.st.cache).Nodup ∧ ((w.step le orc op).1.st.cache.length : Int) ≤ w.cfg.maxCache := by
  have h := step_cb [] le w orc op ho hN ⟨hn, Or.inl hb⟩
  exact ⟨h.1, h.bound (by omega)⟩

/-- **C12 at `World.step` level, establishment**: whatever the size of the cache before (`N` may just have been
lowered), after a step that left a key in the cache which was not cached before — i.e. whose operation
performed a cache insert — the cache holds at most `N` sessions, `N > 0` being the `MaxSessionCacheSize` in
force during that step. (Unique cache keys hold in every reachable world: `WInv`, `Inv.cnodup`.) -/
theorem step_insert_bounded (le : ID → ID → Bool) (w : World) (orc : Orc) (op : Op) (ho : OrcOK orc)
    (hN : 0 < w.cfg.maxCache) (hn : (keys w.st.cache).Nodup)
    (hins : ∃ p ∈ (w.step le orc op).1.st.cache, p.1 ∉ keys w.st.cache) :
    ((w.step le orc op).1.st.cache.length : Int) ≤ w.cfg.maxCache := by
  have h := step_cb w.st.cache le w orc op ho hN ⟨hn, Or.inr (fun p hp => mem_keys_of_mem hp)⟩
  rcases h.2 with h | h
  · exact h
  · obtain ⟨p, hp, hnp⟩ := hins
    exact absurd (h p hp) hnp

/-- the same from the world invariant of `coherence_all_histories` -/
theorem step_insert_bounded_winv {c : Codec} (le : ID → ID → Bool) (w : World) (orc : Orc) (op : Op) (hw : WInv c w)
    (hsk : w.skip = false) (ho : OrcOK orc) (hN : 0 < w.cfg.maxCache)
    (hins : ∃ p ∈ (w.step le orc op).1.st.cache, p.1 ∉ keys w.st.cache) :
    ((w.step le orc op).1.st.cache.length : Int) ≤ w.cfg.maxCache :=
  step_insert_bounded le w orc op ho hN (hw.good hsk).1.cnodup hins

/-! ### histories -/

/-- the operation does not change `MaxSessionCacheSize` -/
def KeepsMax (w : World) : Op → Prop
  | .cfg n v => (setCfg w.cfg n v).maxCache = w.cfg.maxCache
  | _ => True

theorem finW_cfg (w : World) : (finW w).cfg = w.cfg := by unfold finW; split <;> rfl

theorem apiCall_cfg (w : World) (orc : Orc) (run : State → State × RetV × Option String × List Ev) (b : Bool) :
    (apiCall w orc run b).1.cfg = w.cfg := by rw [apiCall_fst]

theorem step_maxCache (le : ID → ID → Bool) (w : World) (orc : Orc) (op : Op) (hk : KeepsMax w op) :
    (w.step le orc op).1.cfg.maxCache = w.cfg.maxCache := by
  by_cases hsk : w.skip = true
  · by_cases he : op = .endReq
    · subst he
      unfold World.step
      simp only [Bool.not_true, Bool.and_false, Bool.false_eq_true, if_false, finish_fst, finW_cfg]
    · rw [step_skip le w orc op hsk he]
  · have hsk' : w.skip = false := by simpa using hsk
    unfold World.step
    cases op with
    | cfg n v => simp only [hsk', Bool.false_and, Bool.false_eq_true, if_false, finish_fst, finW_cfg]; exact hk
    | h hop =>
      simp only [hsk', Bool.false_and, Bool.false_eq_true, if_false]
      cases hc : w.cur with
      | none => rfl
      | some h => simp only [apiCall_cfg]
    | _ => simp only [hsk', Bool.false_and, Bool.false_eq_true, if_false, finish_fst, finW_cfg, apiCall_cfg]

/-- a fault-free history that never changes `MaxSessionCacheSize` -/
def HistKeepsMax (le : ID → ID → Bool) (w : World) : List (Orc × Op) → Prop
  | [] => True
  | (o, op) :: r => OrcOK o ∧ KeepsMax w op ∧ HistKeepsMax le (w.step le o op).1 r

theorem hist_bounded (le : ID → ID → Bool) (hist : List (Orc × Op)) (w : World) (N : Int) (hN : 0 < N)
    (hw : w.cfg.maxCache = N) (hb : CB [] N w.st) (hok : HistKeepsMax le w hist) :
    CB [] N (runHist le w hist).st ∧ (runHist le w hist).cfg.maxCache = N := by
  induction hist generalizing w with
  | nil => exact ⟨hb, hw⟩
  | cons p r ih =>
    obtain ⟨o, op⟩ := p
    obtain ⟨h1, h2, h3⟩ := hok
    subst hw
    exact ih _ (step_maxCache le w o op h2) (step_cb [] le w o op h1 hN hb) h3

/-- **C12.6 — the size bound at every operation boundary of every fault-free history** with
`MaxSessionCacheSize = N > 0` throughout: from the empty world, whatever the clients, requests, handler
calls, log-ins, rotations, waits, crashes (also inside an operation), cache drops and purges, the process
never holds more than `N` sessions in its cache. -/
theorem c12_bounded_all_histories (le : ID → ID → Bool) (cfg : Cfg) (ck : CookieCfg) (hist : List (Orc × Op))
    (hN : 0 < cfg.maxCache) (hok : HistKeepsMax le { cfg := cfg, ck := ck } hist) :
    ((runHist le { cfg := cfg, ck := ck } hist).st.cache.length : Int) ≤ cfg.maxCache :=
  (hist_bounded le hist { cfg := cfg, ck := ck } cfg.maxCache hN rfl (CB.nil [] _ rfl) hok).1.bound (Int.le_of_lt hN)

theorem HistKeepsMax.take {le : ID → ID → Bool} {w : World} {hist : List (Orc × Op)} (h : HistKeepsMax le w hist) (n : Nat) :
    HistKeepsMax le w (hist.take n) := by
  induction hist generalizing w n with
  | nil => simp [HistKeepsMax]
  | cons p r ih =>
    obtain ⟨o, op⟩ := p
    cases n with
    | zero => trivial
    | succ n => exact ⟨h.1, h.2.1, ih h.2.2 n⟩

/-! ### non-vacuity -/

/-- three clients create sessions with `MaxSessionCacheSize = 2`; a rotation; time passes -/
def boundScript : List (Orc × Op) :=
  [({}, .req "a" .none "" "" true), ({}, .endReq),
   ({}, .req "b" .none "" "" true), ({}, .h .regen), ({}, .endReq),
   ({}, .req "c" .none "" "" true), ({}, .h (.login "u" false)), ({}, .endReq),
   ({}, .req "a" .jar "" "" false), ({}, .endReq), ({}, .wait 5)]

def keepsMaxB (w : World) : Op → Bool
  | .cfg n v => (setCfg w.cfg n v).maxCache == w.cfg.maxCache
  | _ => true

def histKeepsMaxB (le : ID → ID → Bool) (w : World) : List (Orc × Op) → Bool
  | [] => true
  | (o, op) :: r => orcOKb o && keepsMaxB w op && histKeepsMaxB le (w.step le o op).1 r

theorem histKeepsMax_of_b (le : ID → ID → Bool) (hist : List (Orc × Op)) (w : World) (h : histKeepsMaxB le w hist = true) :
    HistKeepsMax le w hist := by
  induction hist generalizing w with
  | nil => trivial
  | cons p r ih =>
    obtain ⟨o, op⟩ := p
    simp only [histKeepsMaxB, Bool.and_eq_true] at h
    refine ⟨orcOK_of_b h.1.1, ?_, ih _ h.2⟩
    cases op <;> first | trivial | (simpa [keepsMaxB, KeepsMax] using h.1.2)

#guard histKeepsMaxB idLe { cfg := { maxCache := 2 } } boundScript
#guard (List.range 12).map (fun n => (runHist idLe { cfg := { maxCache := 2 } } (boundScript.take n)).st.cache.length)
        == [0, 1, 1, 2, 2, 2, 2, 2, 2, 2, 2, 2]
-- all five sessions/reference records are in the store, only two are cached
#guard (runHist idLe { cfg := { maxCache := 2 } } boundScript).st.store.length == 5

/-- the limit is lowered from 3 to 1 while three sessions are cached; the next insert re-establishes the bound -/
def lowerScript : List (Orc × Op) :=
  [({}, .req "a" .none "" "" true), ({}, .endReq),
   ({}, .req "b" .none "" "" true), ({}, .endReq),
   ({}, .req "c" .none "" "" true), ({}, .endReq),
   ({}, .cfg "maxCache" 1),
   ({}, .req "d" .none "" "" true), ({}, .endReq)]

#guard (List.range 10).map (fun n => (runHist idLe { cfg := { maxCache := 3 } } (lowerScript.take n)).st.cache.length)
        == [0, 1, 1, 2, 2, 3, 3, 3, 1, 1]
#guard (runHist idLe { cfg := { maxCache := 3 } } (lowerScript.take 8)).st.cache == [(.gen 3, 3)]

end Sx.More
