import Sessions.FactsCondsBase
/-! Conditions of `cache.go` (see `Sessions/FactsCondsBase.lean`; regenerated table `Facts.conds`). -/
namespace FactsConds
open Ce

variable (cfg : Sx.Cfg) (now : Int) (o : Sx.Sess) (r : Sx.Req) (valid : Bool) (i : Int)

/-! ### `cache.go` -/

/-- the environment of the cache functions: `n` entries in `c.sessions`, an entry `o` under inspection, the running victim -/
def cacheEnv (cfg : Sx.Cfg) (now : Int) (o : Sx.Sess) (n : Nat) (req : Int) (oldestID : String) (oldestT : Int) : Env where
  var x :=
    if x = "MaxSessionCacheSize" then some (.int cfg.maxCache)
    else if x = "SessionCacheExpiry" then some (.int cfg.cacheExpiry)
    else if x = "requiredSpace" then some (.int req)
    else if x = "oldestSessionID" then some (.str oldestID)
    else if x = "oldestAccessTime" then some (.time oldestT)
    else none
  sel x f :=
    if x = "session" ∧ f = "lastAccess" then some (.time o.lastAccess)
    else if x = "c" ∧ f = "sessions" then some (.count n)
    else none
  now := now

variable (n : Nat) (req : Int) (oldestID : String) (oldestT : Int)

/-- the idle sweep of `compact` drops an entry iff it has been in the cache for MORE than `SessionCacheExpiry`
(`Sx.sweep`), measured from `lastAccess` -/
theorem compact_idle :
    (pick Facts.conds "cache.compact" "if" "SessionCacheExpiry").map (eval (cacheEnv cfg now o n req oldestID oldestT)) =
      [some (.bool (decide (Sx.since now o.lastAccess > cfg.cacheExpiry)))] := by
  conds_tac [cacheEnv]

/-- "the cache may still grow" and the clamp of the request, as in `Sx.compact`; the eviction loop runs while
`len + req > MaxSessionCacheSize`, as in `Sx.evictLoop` -/
theorem compact_size_tests :
    (pick Facts.conds "cache.compact" "if" "MaxSessionCacheSize").map (eval (cacheEnv cfg now o n req oldestID oldestT)) =
      [some (.bool (decide (cfg.maxCache < 0) || decide ((n : Int) + req ≤ cfg.maxCache))),
       some (.bool (decide (req > cfg.maxCache)))] ∧
    (pick Facts.conds "cache.compact" "for" "MaxSessionCacheSize").map (eval (cacheEnv cfg now o n req oldestID oldestT)) =
      [some (.bool (decide ((n : Int) + req > cfg.maxCache)))] := by
  constructor <;> conds_tac [cacheEnv]

/-- the victim scan keeps the entry with the strictly smallest access time (`Sx.victim`: minimal `lastAccess`) -/
theorem compact_victim :
    (pick Facts.conds "cache.compact" "if" "oldestAccessTime").map (eval (cacheEnv cfg now o n req oldestID oldestT)) =
      [some (.bool (oldestID == "" || decide (o.lastAccess < oldestT)))] := by
  conds_tac [cacheEnv]

/-- `Get` and `Set` insert into the map iff `MaxSessionCacheSize != 0` (`Sx.cacheGet`, `Sx.cacheSet`) -/
theorem get_set_cache_switch :
    (pick Facts.conds "cache.Get" "if" "MaxSessionCacheSize").map (eval (cacheEnv cfg now o n req oldestID oldestT)) =
      [some (.bool (cfg.maxCache != 0))] ∧
    (pick Facts.conds "cache.Set" "if" "MaxSessionCacheSize").map (eval (cacheEnv cfg now o n req oldestID oldestT)) =
      [some (.bool (cfg.maxCache != 0))] := by
  constructor <;> conds_tac [cacheEnv]

end FactsConds
