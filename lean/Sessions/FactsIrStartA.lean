import Sessions.FactsIrStartUnfold
/-! # `Start`, stage (a): no session cookie -/
namespace FactsIr
open Sx Sx.Loc Ir

set_option linter.unusedSimpArgs false
set_option maxRecDepth 100000

/-- **(a) no session cookie**: the whole of `Start` = `Sx.start` (which is `createNew cfg s r []`) -/
theorem start_nocookie_eq (cfg : Cfg) (s : State) (r : Req) (lenOf : ID → Nat) (hc : r.cookie = none) :
    Ir.execP (startPar cfg lenOf) Facts.ir_Start s (startArgs r) = Ir.ofStart (Sx.start cfg s r) := by
  rw [start_none hc, startArgs, execP_start]
  cases hcr : r.create with
  | false =>
    rw [createNew_no _ hcr]
    start_eval [hc, hcr]
  | true =>
    rw [createNew_yes _ hcr]
    start_eval [hc, hcr, newS1, agentHash]

end FactsIr
