import Sessions.FactsPinsBase
/-! Source pin: see FactsPinsBase.lean. -/
namespace FactsPins

/-- `Sessions/Ids` was transcribed from exactly this text -/
theorem ids_source_matches_model : pinned ["generateSessionID", "RandomID", "CUID"] = true := by decide

end FactsPins
