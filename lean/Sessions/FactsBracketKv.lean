import Sessions.Generated.Facts
/-! Critical-section bracket read from the source by /verif/extract (brackets.go); see DESIGN.md §5.2. -/
namespace FactsBrackets

/-- `Set`, `Get`, `Delete`, `GetAndDelete` each take the session lock exactly once -/
theorem kv_single_section : Facts.kvSingleSection = true := rfl

end FactsBrackets
