/-!
# The JSON codec of `session.go` as key-table programs

`MarshalJSON` is a list of entries (key, source field, condition); `UnmarshalJSON` is a list of
entries (key, required?, conversion, target field), processed in order against the decoded object.
The extractor (/verif/extract/codec.go) regenerates both tables from the Go source on every run
(`Facts.jsonMarshalProg`, `Facts.jsonUnmarshalProg`); the round-trip theorem in
`Sessions/FactsCodec.lean` is proved about the regenerated tables.

`encoding/json`, RFC 3339 formatting and base-36 formatting are external: their round-trip laws are
the fields of `Laws` (assumptions recorded in the trusted base).
-/
namespace Cj

/-- JSON values as `json.Unmarshal` into `map[string]interface{}` produces them (abstracted: the
data map is opaque, a user id is whatever JSON value `GetID()` became). -/
inductive JV where
  | num (n : Int) | str (s : String) | null | map (m : List (Nat × Nat)) | uid (u : Nat)
deriving DecidableEq, Repr

structure S where
  created : Int := 0          -- ns
  lastAccess : Int := 0
  lastIP : String := ""
  ua : Nat := 0
  ref : String := ""
  user : Option Nat := none
  data : Option (List (Nat × Nat)) := none
deriving DecidableEq, Repr

inductive Src where
  | version | created | lastAccess | lastIP | ua | data | ref | userID
deriving DecidableEq, Repr

inductive Cond where
  | always | refNonEmpty | userNonNil
deriving DecidableEq, Repr

structure MEntry where
  key : String
  src : Src
  cond : Cond
deriving DecidableEq, Repr

/-- conversions of `UnmarshalJSON` -/
inductive Conv where
  | versionIs1            -- float64, must equal 1; no target
  | timeRFC3339           -- string, time.Parse(time.RFC3339, ·)
  | string                -- string
  | base36                -- string, strconv.ParseUint(·, 36, 64)
  | loadUser              -- Persistence.LoadUser(·)
  | mapStrict             -- map[string]interface{} (anything else, including null, is an error)
  | mapOrNull             -- null leaves the data map nil; otherwise map[string]interface{}
deriving DecidableEq, Repr

structure UEntry where
  key : String
  required : Bool
  conv : Conv
  target : Src
deriving DecidableEq, Repr

structure Laws where
  fmtTime : Int → String
  parseTime : String → Option Int
  trunc : Int → Int
  fmt36 : Nat → String
  parse36 : String → Option Nat
  parse_fmt_time : ∀ t, parseTime (fmtTime t) = some (trunc t)
  parse_fmt_36 : ∀ n, parse36 (fmt36 n) = some n

def lookup (k : String) : List (String × JV) → Option JV
  | [] => none
  | (k', v) :: r => if k' = k then some v else lookup k r

def condHolds (s : S) : Cond → Bool
  | .always => true
  | .refNonEmpty => s.ref != ""
  | .userNonNil => s.user.isSome

def srcVal (L : Laws) (s : S) : Src → JV
  | .version => .num 1
  | .created => .str (L.fmtTime s.created)
  | .lastAccess => .str (L.fmtTime s.lastAccess)
  | .lastIP => .str s.lastIP
  | .ua => .str (L.fmt36 s.ua)
  | .data => match s.data with | none => .null | some m => .map m
  | .ref => .str s.ref
  | .userID => match s.user with | none => .null | some u => .uid u

/-- `MarshalJSON` followed by `json.Unmarshal` into a generic object. -/
def marshal (L : Laws) (s : S) : List MEntry → List (String × JV)
  | [] => []
  | e :: r => if condHolds s e.cond then (e.key, srcVal L s e.src) :: marshal L s r else marshal L s r

def applyConv (L : Laws) (c : Conv) (t : Src) (v : JV) (s : S) : Option S :=
  match c, v with
  | .versionIs1, .num n => if n = 1 then some s else none
  | .timeRFC3339, .str x =>
    (L.parseTime x).bind (fun tm => match t with
      | .created => some { s with created := tm }
      | .lastAccess => some { s with lastAccess := tm }
      | _ => none)
  | .string, .str x =>
    (match t with
      | .lastIP => some { s with lastIP := x }
      | .ref => some { s with ref := x }
      | _ => none)
  | .base36, .str x => (L.parse36 x).bind (fun n => match t with | .ua => some { s with ua := n } | _ => none)
  | .loadUser, .uid u => (match t with | .userID => some { s with user := some u } | _ => none)
  | .mapStrict, .map m => (match t with | .data => some { s with data := some m } | _ => none)
  | .mapOrNull, .map m => (match t with | .data => some { s with data := some m } | _ => none)
  | .mapOrNull, .null => (match t with | .data => some s | _ => none)
  | _, _ => none

def unmarshal (L : Laws) : List UEntry → List (String × JV) → S → Option S
  | [], _, s => some s
  | e :: r, o, s =>
    match lookup e.key o with
    | none => if e.required then none else unmarshal L r o s
    | some v => (applyConv L e.conv e.target v s).bind (unmarshal L r o)

/-- what survives: instants to the granularity of the time format -/
def norm (L : Laws) (s : S) : S := { s with created := L.trunc s.created, lastAccess := L.trunc s.lastAccess }

end Cj
