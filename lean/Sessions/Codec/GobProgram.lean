/-! Spike: gob codec as field-sequence programs (to be regenerated from GobEncode/GobDecode by the extractor)
    and the round-trip theorem proved by symbolic evaluation of the interpreter on the concrete programs. -/
namespace Cd

inductive Val where
  | u8 (n : Nat) | time (t : Int) | str (s : String) | u64 (n : Nat) | bool (b : Bool) | uid (u : Nat)
  | map (m : List (Nat × Nat))
deriving DecidableEq, Repr

structure S where
  created : Int := 0
  lastAccess : Int := 0
  lastIP : String := ""
  ua : Nat := 0
  ref : String := ""
  user : Option Nat := none
  data : Option (List (Nat × Nat)) := none
deriving DecidableEq, Repr

inductive Fld where | created | lastAccess | lastIP | ua | ref | data
deriving DecidableEq, Repr

def getF (s : S) : Fld → Val
  | .created => .time s.created | .lastAccess => .time s.lastAccess | .lastIP => .str s.lastIP
  | .ua => .u64 s.ua | .ref => .str s.ref | .data => .map (s.data.getD [])   -- gob: nil map encodes as empty

/-- gob refuses a value of the wrong wire type. -/
def setF (s : S) : Fld → Val → Option S
  | .created, .time t => some { s with created := t }
  | .lastAccess, .time t => some { s with lastAccess := t }
  | .lastIP, .str x => some { s with lastIP := x }
  | .ua, .u64 n => some { s with ua := n }
  | .ref, .str x => some { s with ref := x }
  | .data, .map m => some { s with data := some m }
  | _, _ => none

inductive EncOp where | version | fld (f : Fld) | userFlag | userIdIfAny
deriving DecidableEq, Repr
inductive DecOp where | version | fld (f : Fld) | userFlag | userIfFlag
deriving DecidableEq, Repr

def enc (s : S) : List EncOp → List Val
  | [] => []
  | .version :: r => .u8 1 :: enc s r
  | .fld f :: r => getF s f :: enc s r
  | .userFlag :: r => .bool s.user.isSome :: enc s r
  | .userIdIfAny :: r => (match s.user with | some u => [.uid u] | none => []) ++ enc s r

/-- decoder state: the session being filled and the local `loggedIn`. -/
def dec : List DecOp → List Val → Bool → S → Option S
  | [], [], _, s => some s
  | [], _ :: _, _, _ => none
  | .version :: r, .u8 _ :: vs, lg, s => dec r vs lg s
  | .fld f :: r, v :: vs, lg, s => (setF s f v).bind (dec r vs lg)
  | .userFlag :: r, .bool b :: vs, _, s => dec r vs b s
  | .userIfFlag :: r, vs, true, s => match vs with
      | .uid u :: vs' => dec r vs' true { s with user := some u }     -- LoadUser(u) returns the user with that id
      | _ => none
  | .userIfFlag :: r, vs, false, s => dec r vs false s
  | _, _, _, _ => none

/-! what the extractor will emit for the pinned source -/
def gobEncodeProg : List EncOp :=
  [.version, .fld .created, .fld .lastAccess, .fld .lastIP, .fld .ua, .fld .ref, .userFlag, .userIdIfAny, .fld .data]
def gobDecodeProg : List DecOp :=
  [.version, .fld .created, .fld .lastAccess, .fld .lastIP, .fld .ua, .fld .ref, .userFlag, .userIfFlag, .fld .data]

/-- the documented normalisation: a nil data map comes back empty. -/
def norm (s : S) : S := { s with data := some (s.data.getD []) }

/-- C16 at model level, for the programs read from the source: decoding the encoding of any session into a fresh
    session restores every field. -/
theorem gob_roundtrip (s : S) : dec gobDecodeProg (enc s gobEncodeProg) false {} = some (norm s) := by
  obtain ⟨c, la, ip, ua, rf, user, data⟩ := s
  cases user <;> simp [gobEncodeProg, gobDecodeProg, enc, dec, getF, setF, norm, Option.bind]

/-- a mutant: the encoder swaps lastIP and referenceID (same wire type, so decoding "succeeds"). -/
def gobEncodeMutant : List EncOp :=
  [.version, .fld .created, .fld .lastAccess, .fld .ref, .fld .ua, .fld .lastIP, .userFlag, .userIdIfAny, .fld .data]
/-- …and the theorem is then false, with a concrete witness the harness can replay on the real codec. -/
theorem mutant_breaks :
    dec gobDecodeProg (enc { lastIP := "1.2.3.4:5", ref := "R" } gobEncodeMutant) false {} ≠ some (norm { lastIP := "1.2.3.4:5", ref := "R" }) := by
  decide

end Cd
