import Sessions.FactsPinsBase
/-! Source pin: see FactsPinsBase.lean. -/
namespace FactsPins

/-- the transition system of `Sessions/Mutex/Basic.lean` was transcribed from exactly this text -/
theorem mutex_source_matches_model : pinned ["newMutexes", "mutexes.getItem", "mutexes.Lock", "mutexes.Unlock"] = true := by decide

end FactsPins
