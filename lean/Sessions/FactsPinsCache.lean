import Sessions.FactsPinsBase
/-! Source pin: see FactsPinsBase.lean. -/
namespace FactsPins

/-- `Sessions/Model/Cache.lean` was transcribed from exactly this text -/
theorem cache_source_matches_model : pinned ["cache.compact", "cache.Get", "cache.Set", "cache.Delete", "PurgeSessions"] = true := by decide

end FactsPins
