import Sessions.FactsPinsBase
/-! Source pin: see FactsPinsBase.lean. -/
namespace FactsPins

/-- the two cache functions with loops over the map (`Sx.compact`, `Sx.purge`) were transcribed from exactly this text.
`cache.Get`, `cache.Set` and `cache.Delete` are no longer pinned: they are translated on every run and proved equal to
`Sx.cacheGet/cacheSet/cacheDelete` (`FactsIrCache`), and their locking is the subject of `FactsCacheAtomic`. -/
theorem cache_source_matches_model : pinned ["cache.compact", "PurgeSessions"] = true := by decide

end FactsPins
