/-! Executable conformance checker for logged traces of `mutexes.go` (core Lean only, everything computable).

Two independent monitors:

* `checkTrace : List Ev → Option Nat` replays the *manager's* log against an abstract copy of the manager loop
  (`mgrEvent`) and returns the index of the first event the Go loop could not have produced from the state reached so
  far (`none` = the whole trace conforms).
    - `acq k locksBefore granted` : the `acquire` case for key `k`; `locksBefore` is `item.locks` right after
      `getItem`, `granted` says whether the token was sent.  Conforms iff `locksBefore` is the table's value
      (0 for an unknown key: `getItem` creates a fresh item) and `granted ↔ locksBefore = 0`.  Afterwards `locks+1`.
    - `rel k locksBefore woke` : the `release` case; conforms iff `locksBefore` is the table's value and, when it is
      positive, `woke ↔ locksBefore - 1 > 0`, when it is zero, `woke = false` (an Unlock on a free key does nothing).
      Afterwards `locks-1` (or `0`); the entry exists afterwards in either case (`getItem`).
    - `purgeDel k locks` : the purge case deleted the entry of `k`, whose `locks` field was `locks`.  Conforms iff the
      entry exists with that value.  The Go loop may delete an entry with `locks > 0` (stale rule); that is a
      *conforming* event which violates the proviso of C13, reported separately by `checkProviso`.
* `checkExclusion : List CallEv → Option Nat` watches the *callers'* log (`lockRet g k` = `Lock(k)` returned in
  goroutine `g`, `unlockCall g k` = `g` calls `Unlock(k)`) and returns the first index at which a `Lock` on a key returns
  while another `Lock`-return on the same key has not been followed by its holder's `Unlock` call (C13 violated).
  An `Unlock` by a goroutine that is not the recorded holder does not end the hold.  `checkDiscipline` reports the first `Unlock` by a goroutine that does not hold the key (client misuse, which voids C13).

Keys and goroutine ids are natural numbers (intern them when logging). -/
namespace Mx.Exec

/-- association list `key ↦ value`; the first binding of a key counts. -/
def lookup (t : List (Nat × Nat)) (k : Nat) : Option Nat :=
  match t with
  | [] => none
  | (k', v) :: r => if k' = k then some v else lookup r k

def erase (t : List (Nat × Nat)) (k : Nat) : List (Nat × Nat) :=
  match t with
  | [] => []
  | (k', v) :: r => if k' = k then erase r k else (k', v) :: erase r k

def put (t : List (Nat × Nat)) (k v : Nat) : List (Nat × Nat) := (k, v) :: erase t k

/-- abstract manager state: the lock table, key ↦ `locks`. -/
structure MState where
  table : List (Nat × Nat)
deriving Repr, DecidableEq

def MState.empty : MState := ⟨[]⟩

/-- `locks` of the item for `k`; an unknown key behaves like a fresh item (`getItem` creates it with `locks = 0`). -/
def MState.locksOf (m : MState) (k : Nat) : Nat := (lookup m.table k).getD 0

def MState.setLocks (m : MState) (k v : Nat) : MState := ⟨put m.table k v⟩

inductive Ev where
  | acq (k locksBefore : Nat) (granted : Bool)
  | rel (k locksBefore : Nat) (woke : Bool)
  | purgeDel (k locks : Nat)
deriving Repr, DecidableEq

/-- what the `acquire` case does. -/
def acqEvent (m : MState) (k lb : Nat) (granted : Bool) : Option MState :=
  if lb = m.locksOf k ∧ granted = (lb == 0) then some (m.setLocks k (lb + 1)) else none

/-- what the `release` case does. -/
def relEvent (m : MState) (k lb : Nat) (woke : Bool) : Option MState :=
  if lb = m.locksOf k ∧ woke = (decide (1 < lb)) then some (m.setLocks k (lb - 1)) else none

/-- what one deletion of the purge case does. -/
def purgeEvent (m : MState) (k l : Nat) : Option MState :=
  if lookup m.table k = some l then some ⟨erase m.table k⟩ else none

/-- `mgrEvent m e = some m'` iff the Go manager loop, in abstract state `m`, can log `e`, and then is in state `m'`. -/
def mgrEvent (m : MState) : Ev → Option MState
  | .acq k lb granted => acqEvent m k lb granted
  | .rel k lb woke => relEvent m k lb woke
  | .purgeDel k l => purgeEvent m k l

/-- replay; `none` as soon as an event does not conform. -/
def runTrace (m : MState) : List Ev → Option MState
  | [] => some m
  | e :: es => match mgrEvent m e with
    | none => none
    | some m' => runTrace m' es

def checkTraceFrom (m : MState) (idx : Nat) : List Ev → Option Nat
  | [] => none
  | e :: es => match mgrEvent m e with
    | none => some idx
    | some m' => checkTraceFrom m' (idx + 1) es

/-- index of the first non-conforming event of a manager log that starts with an empty table. -/
def checkTrace (es : List Ev) : Option Nat := checkTraceFrom MState.empty 0 es

def checkProvisoFrom (idx : Nat) : List Ev → Option Nat
  | [] => none
  | .purgeDel _ l :: es => if l = 0 then checkProvisoFrom (idx + 1) es else some idx
  | _ :: es => checkProvisoFrom (idx + 1) es

/-- index of the first purge deletion of an entry with `locks > 0`: a hold (or wait) outlasted the staleness timeout,
the proviso of C13 is violated from there on. -/
def checkProviso (es : List Ev) : Option Nat := checkProvisoFrom 0 es

inductive CallEv where
  | lockRet (g k : Nat)
  | unlockCall (g k : Nat)
deriving Repr, DecidableEq

/-- `Lock(k)` returned in `g`: a violation if the key has a recorded holder. -/
def lockRetEvent (h : List (Nat × Nat)) (g k : Nat) : Option (List (Nat × Nat)) :=
  match lookup h k with
  | some _ => none
  | none => some (put h k g)

/-- `g` calls `Unlock(k)`: ends the hold if `g` is the recorded holder, otherwise changes nothing. -/
def unlockEvent (h : List (Nat × Nat)) (g k : Nat) : List (Nat × Nat) :=
  if lookup h k = some g then erase h k else h

/-- holder map `key ↦ goroutine`; `none` = exclusion violated by this event. -/
def exclEvent (h : List (Nat × Nat)) : CallEv → Option (List (Nat × Nat))
  | .lockRet g k => lockRetEvent h g k
  | .unlockCall g k => some (unlockEvent h g k)

def checkExclusionFrom (h : List (Nat × Nat)) (idx : Nat) : List CallEv → Option Nat
  | [] => none
  | e :: es => match exclEvent h e with
    | none => some idx
    | some h' => checkExclusionFrom h' (idx + 1) es

/-- first index at which two `Lock`s on the same key have returned without the first holder's `Unlock` in between. -/
def checkExclusion (es : List CallEv) : Option Nat := checkExclusionFrom [] 0 es

/-- replay of a call log on the holder map; `none` as soon as exclusion is violated. -/
def runExcl (h : List (Nat × Nat)) : List CallEv → Option (List (Nat × Nat))
  | [] => some h
  | e :: es => match exclEvent h e with
    | none => none
    | some h' => runExcl h' es

def checkDisciplineFrom (h : List (Nat × Nat)) (idx : Nat) : List CallEv → Option Nat
  | [] => none
  | .unlockCall g k :: es =>
    if lookup h k = some g then checkDisciplineFrom (erase h k) (idx + 1) es else some idx
  | .lockRet g k :: es => checkDisciplineFrom (put h k g) (idx + 1) es

/-- first `Unlock` by a goroutine that is not the current holder of the key. -/
def checkDiscipline (es : List CallEv) : Option Nat := checkDisciplineFrom [] 0 es

/-! ### Log-line parsers (one event per line, fields separated by single spaces)

`acq <key> <locksBefore> <0|1>` · `rel <key> <locksBefore> <0|1>` · `purge <key> <locks>` ·
`lockret <goroutine> <key>` · `unlock <goroutine> <key>` -/

def parseBool (s : String) : Option Bool :=
  if s = "1" then some true else if s = "0" then some false else none

def parseEv (line : String) : Option Ev :=
  match line.splitOn " " with
  | ["acq", k, l, b] => do pure (.acq (← k.toNat?) (← l.toNat?) (← parseBool b))
  | ["rel", k, l, b] => do pure (.rel (← k.toNat?) (← l.toNat?) (← parseBool b))
  | ["purge", k, l] => do pure (.purgeDel (← k.toNat?) (← l.toNat?))
  | _ => none

def parseCallEv (line : String) : Option CallEv :=
  match line.splitOn " " with
  | ["lockret", g, k] => do pure (.lockRet (← g.toNat?) (← k.toNat?))
  | ["unlock", g, k] => do pure (.unlockCall (← g.toNat?) (← k.toNat?))
  | _ => none

/-! ### Sanity examples -/

/-- two lockers on key 5, hand-over, last release, purge; a spurious release of an unknown key 9. -/
example : checkTrace [.acq 5 0 true, .acq 5 1 false, .rel 9 0 false, .rel 5 2 true, .rel 5 1 false,
                      .purgeDel 5 0, .purgeDel 9 0, .acq 5 0 true] = none := by decide
/-- granting while locked is caught at index 1. -/
example : checkTrace [.acq 5 0 true, .acq 5 1 true] = some 1 := by decide
/-- a lost wake-up (release with a waiter that does not wake it) is caught. -/
example : checkTrace [.acq 5 0 true, .acq 5 1 false, .rel 5 2 false] = some 2 := by decide
/-- a stale `locksBefore` (entry was silently lost) is caught. -/
example : checkTrace [.acq 5 0 true, .acq 5 0 true] = some 1 := by decide
example : checkTrace [.purgeDel 5 0] = some 0 := by decide
/-- deleting a held entry conforms to the code but violates the proviso. -/
example : checkTrace [.acq 5 0 true, .purgeDel 5 1, .acq 5 0 true] = none := by decide
example : checkProviso [.acq 5 0 true, .purgeDel 5 1, .acq 5 0 true] = some 1 := by decide

example : checkExclusion [.lockRet 1 5, .lockRet 2 6, .unlockCall 1 5, .lockRet 2 5, .unlockCall 2 5] = none := by decide
example : checkExclusion [.lockRet 1 5, .lockRet 2 5] = some 1 := by decide
/-- an Unlock by a non-holder does not end the hold, so the next return is a violation. -/
example : checkExclusion [.lockRet 1 5, .unlockCall 2 5, .lockRet 2 5] = some 2 := by decide
example : checkDiscipline [.lockRet 1 5, .unlockCall 2 5, .lockRet 2 5] = some 1 := by decide

/-! ### Basic facts about the table operations and the checkers -/

theorem lookup_erase (t : List (Nat × Nat)) (k k' : Nat) :
    lookup (erase t k) k' = if k' = k then none else lookup t k' := by
  induction t with
  | nil => simp [erase, lookup]
  | cons p r ih =>
    obtain ⟨a, v⟩ := p
    by_cases hak : a = k
    · subst hak
      simp only [erase, if_true, lookup, ih]
      by_cases hk : k' = a
      · simp [hk]
      · have : ¬ a = k' := fun h => hk h.symm
        simp [hk, this]
    · simp only [erase, hak, if_false, lookup, ih]
      by_cases hk : k' = k
      · subst hk; simp [hak]
      · simp [hk]

theorem lookup_put (t : List (Nat × Nat)) (k v k' : Nat) :
    lookup (put t k v) k' = if k' = k then some v else lookup t k' := by
  unfold put
  simp only [lookup, lookup_erase]
  by_cases hk : k' = k
  · subst hk; simp
  · have : ¬ k = k' := fun h => hk h.symm
    simp [hk, this]

theorem locksOf_setLocks (m : MState) (k v k' : Nat) :
    (m.setLocks k v).locksOf k' = if k' = k then v else m.locksOf k' := by
  unfold MState.locksOf MState.setLocks
  simp only [lookup_put]
  by_cases hk : k' = k <;> simp [hk]

/-- the `acquire` case: grants iff the key is free, then counts the new locker. -/
theorem acqEvent_spec (m m' : MState) (k lb : Nat) (granted : Bool) (h : acqEvent m k lb granted = some m') :
    lb = m.locksOf k ∧ (granted = true ↔ m.locksOf k = 0) ∧
    ∀ k', m'.locksOf k' = if k' = k then m.locksOf k + 1 else m.locksOf k' := by
  unfold acqEvent at h
  split at h
  · rename_i hc
    obtain ⟨h1, h2⟩ := hc
    simp only [Option.some.injEq] at h
    subst h
    refine ⟨h1, ?_, fun k' => ?_⟩
    · rw [h2, ← h1]; simp
    · rw [locksOf_setLocks, h1]
  · cases h

/-- the `release` case: a release of a free key changes no `locks` value and wakes nobody; otherwise `locks-1` and
the next waiter is woken iff one is left. -/
theorem relEvent_spec (m m' : MState) (k lb : Nat) (woke : Bool) (h : relEvent m k lb woke = some m') :
    lb = m.locksOf k ∧ (woke = true ↔ 1 < m.locksOf k) ∧
    ∀ k', m'.locksOf k' = if k' = k then m.locksOf k - 1 else m.locksOf k' := by
  unfold relEvent at h
  split at h
  · rename_i hc
    obtain ⟨h1, h2⟩ := hc
    simp only [Option.some.injEq] at h
    subst h
    refine ⟨h1, ?_, fun k' => ?_⟩
    · rw [h2, ← h1]; simp
    · rw [locksOf_setLocks, h1]
  · cases h

theorem relEvent_free_noop (m m' : MState) (k : Nat) (woke : Bool) (h0 : m.locksOf k = 0)
    (h : relEvent m k 0 woke = some m') : woke = false ∧ ∀ k', m'.locksOf k' = m.locksOf k' := by
  obtain ⟨_, h2, h3⟩ := relEvent_spec m m' k 0 woke h
  refine ⟨?_, fun k' => ?_⟩
  · cases woke
    · rfl
    · have := h2.1 rfl; omega
  · rw [h3]; by_cases hk : k' = k
    · subst hk; simp [h0]
    · simp [hk]

theorem purgeEvent_spec (m m' : MState) (k l : Nat) (h : purgeEvent m k l = some m') :
    lookup m.table k = some l ∧ ∀ k', lookup m'.table k' = if k' = k then none else lookup m.table k' := by
  unfold purgeEvent at h
  split at h
  · rename_i hc
    simp only [Option.some.injEq] at h
    subst h
    exact ⟨hc, fun k' => lookup_erase _ _ _⟩
  · cases h

theorem checkTraceFrom_none_iff (m : MState) (idx : Nat) (es : List Ev) :
    checkTraceFrom m idx es = none ↔ ∃ m', runTrace m es = some m' := by
  induction es generalizing m idx with
  | nil => simp [checkTraceFrom, runTrace]
  | cons e es ih =>
    unfold checkTraceFrom runTrace
    cases he : mgrEvent m e with
    | none => simp
    | some m1 => simp only []; exact ih m1 (idx + 1)

/-- `checkTrace` accepts exactly the traces the abstract manager can replay from the empty table. -/
theorem checkTrace_none_iff (es : List Ev) : checkTrace es = none ↔ ∃ m', runTrace MState.empty es = some m' :=
  checkTraceFrom_none_iff _ _ _

/-- a reported index points into the trace, and the prefix before it conforms while the prefix including it does not. -/
theorem checkTraceFrom_some (m : MState) (idx n : Nat) (es : List Ev) (h : checkTraceFrom m idx es = some n) :
    idx ≤ n ∧ n - idx < es.length ∧ (∃ m', runTrace m (es.take (n - idx)) = some m') ∧
    runTrace m (es.take (n - idx + 1)) = none := by
  induction es generalizing m idx with
  | nil => simp [checkTraceFrom] at h
  | cons e es ih =>
    unfold checkTraceFrom at h
    cases he : mgrEvent m e with
    | none =>
      rw [he] at h
      simp only [Option.some.injEq] at h
      subst h
      refine ⟨Nat.le_refl _, by simp, ⟨m, by simp [runTrace]⟩, ?_⟩
      simp [runTrace, he]
    | some m1 =>
      rw [he] at h
      simp only [] at h
      obtain ⟨h1, h2, ⟨m', h3⟩, h4⟩ := ih m1 (idx + 1) h
      have e1 : n - idx = (n - (idx + 1)) + 1 := by omega
      refine ⟨by omega, by simp only [List.length_cons]; omega, ⟨m', ?_⟩, ?_⟩
      · rw [e1, List.take_succ_cons]; simp only [runTrace, he]; exact h3
      · rw [e1, List.take_succ_cons]; simp only [runTrace, he]; exact h4

theorem checkTrace_some (n : Nat) (es : List Ev) (h : checkTrace es = some n) :
    n < es.length ∧ (∃ m', runTrace MState.empty (es.take n) = some m') ∧
    runTrace MState.empty (es.take (n + 1)) = none := by
  have := checkTraceFrom_some MState.empty 0 n es h
  simpa using this.2

theorem checkExclusionFrom_none_iff (h : List (Nat × Nat)) (idx : Nat) (es : List CallEv) :
    checkExclusionFrom h idx es = none ↔ ∃ h', runExcl h es = some h' := by
  induction es generalizing h idx with
  | nil => simp [checkExclusionFrom, runExcl]
  | cons e es ih =>
    unfold checkExclusionFrom runExcl
    cases he : exclEvent h e with
    | none => simp
    | some h1 => simp only []; exact ih h1 (idx + 1)

/-- `checkExclusion` accepts exactly the call logs that can be replayed without two holders of one key. -/
theorem checkExclusion_none_iff (es : List CallEv) : checkExclusion es = none ↔ ∃ h', runExcl [] es = some h' :=
  checkExclusionFrom_none_iff _ _ _

/-- what the monitor checks at a `Lock` return: the key has no recorded holder; the caller becomes the holder. -/
theorem exclEvent_lockRet (h h' : List (Nat × Nat)) (g k : Nat) (he : exclEvent h (.lockRet g k) = some h') :
    lookup h k = none ∧ ∀ k', lookup h' k' = if k' = k then some g else lookup h k' := by
  simp only [exclEvent, lockRetEvent] at he
  cases hl : lookup h k with
  | some g' => rw [hl] at he; cases he
  | none =>
    rw [hl] at he
    simp only [Option.some.injEq] at he
    subst he
    exact ⟨rfl, fun k' => lookup_put _ _ _ _⟩

end Mx.Exec
