import Sessions.Mutex.Lemmas
namespace Mx

theorem cnt_upd (s : St) (g : Nat) (old new : GPc) (hold' : s.pcs[g]? = some old) (k : Key) :
    (s.pcs.set g new).countP (isReg k) + (if isReg k old then 1 else 0) = s.pcs.countP (isReg k) + (if isReg k new then 1 else 0) ∧
    (s.pcs.set g new).countP (isHold k) + (if isHold k old then 1 else 0) = s.pcs.countP (isHold k) + (if isHold k new then 1 else 0) := by
  obtain ⟨hg, rfl⟩ := List.getElem?_eq_some_iff.1 hold'
  exact ⟨countP_set' hg, countP_set' hg⟩

theorem ptr_upd (s : St) (g : Nat) (new : GPc)
    (hnew : ∀ i k, new = .recvTok i k → s.table k = some i) (hp : InvPtr s) :
    InvPtr { s with pcs := s.pcs.set g new } := by
  obtain ⟨h1, h2, h3⟩ := hp
  refine ⟨?_, h2, h3⟩
  intro g' i k hpc
  simp only [List.getElem?_set] at hpc
  split at hpc
  · split at hpc
    · simp only [Option.some.injEq] at hpc; exact hnew i k hpc
    · cases hpc
  · exact h1 g' i k hpc

theorem InvKF_congr (k : Key) (m : MPc) (t t' : Option Iid) (l r h : Nat)
    (ht : ∀ i, t = some i → t' = some i) : InvKF k m t l r h → InvKF k m t' l r h := by
  unfold InvKF
  cases m <;> grind

theorem hold_le_reg (l : List GPc) (k : Key) : l.countP (isHold k) ≤ l.countP (isReg k) := by
  apply List.countP_mono_left
  intro x _ hx
  cases x <;> simp_all [isHold, isReg]

theorem InvPtr_mgr_locks (s : St) (m' : MPc) (i : Iid) (v : Nat) (hp : InvPtr s) :
    InvPtr { setLocks s i v with mgr := m' } := hp
theorem InvPtr_mgr (s : St) (m' : MPc) (hp : InvPtr s) : InvPtr { s with mgr := m' } := hp

theorem L_of_table {s : St} {k : Key} {i : Iid} (ht : s.table k = some i) : L s k = s.locks i := by
  unfold L; rw [ht]

/-- finishing tactic: per-key arithmetic after unfolding the value-level invariant. -/
macro "inv_arith" k0:ident k:ident : tactic => `(tactic|
  (unfold InvKF at *
   by_cases hkk : $k0 = $k
   · subst hkk; simp_all <;> omega
   · have hkk' : ¬ $k = $k0 := fun h => hkk h.symm
     simp_all <;> omega))

/-- getItem keeps the invariant (same manager state; the table only gains an entry with locks 0). -/
theorem inv_getItem (s : St) (k : Key) (hi : Inv s) : Inv (getItem s k).2 := by
  refine ⟨fun k0 => ?_, getItem_invPtr s k hi.2⟩
  have hk := hi.1 k0
  unfold InvK at *
  have hL : L (getItem s k).2 k0 = L s k0 := by
    by_cases hkk : k0 = k
    · subst hkk; exact getItem_L_self s _
    · exact getItem_L_other s k k0 hkk hi.2
  have hr : reg (getItem s k).2 k0 = reg s k0 := by unfold reg; simp
  have hh : hold (getItem s k).2 k0 = hold s k0 := by unfold hold; simp
  rw [hL, hr, hh, getItem_mgr]
  apply InvKF_congr k0 s.mgr (s.table k0) _ _ _ _ _ hk
  intro i hti
  by_cases hkk : k0 = k
  · subst hkk; rw [getItem_some hti]; exact hti
  · rw [getItem_table_other s k k0 hkk]; exact hti

/-- table lookup of the item is exactly the key (injectivity). -/
theorem table_eq_iff (s : St) (hp : InvPtr s) (k k0 : Key) (i : Iid) (ht : s.table k = some i) :
    s.table k0 = some i ↔ k0 = k := by
  constructor
  · intro h; exact hp.2.1 k0 k i h ht
  · intro h; subst h; exact ht

/-- manager-only step on a state whose item for `k` is known: new manager state and new locks value for that item. -/
theorem InvK_mgr_step (s : St) (k k0 : Key) (i : Iid) (v : Nat) (m' : MPc) (hp : InvPtr s) (ht : s.table k = some i)
    (hgoal : InvKF k0 m' (s.table k0) (if k0 = k then v else L s k0) (reg s k0) (hold s k0)) :
    InvK { setLocks s i v with mgr := m' } k0 := by
  unfold InvK
  have hL : L { setLocks s i v with mgr := m' } k0 = if k0 = k then v else L s k0 := by
    have h1 : L { setLocks s i v with mgr := m' } k0 = L (setLocks s i v) k0 := rfl
    rw [h1, L_setLocks]
    have hiff := table_eq_iff s hp k k0 i ht
    by_cases hkk : k0 = k
    · subst hkk; simp [ht]
    · have h2 : ¬ s.table k0 = some i := fun h => hkk (hiff.1 h)
      simp [hkk, h2]
  have hr : reg { setLocks s i v with mgr := m' } k0 = reg s k0 := rfl
  have hh : hold { setLocks s i v with mgr := m' } k0 = hold s k0 := rfl
  have ht' : ({ setLocks s i v with mgr := m' } : St).table k0 = s.table k0 := rfl
  have hm' : ({ setLocks s i v with mgr := m' } : St).mgr = m' := rfl
  rw [hr, hh, ht', hm']
  rw [hL]
  exact hgoal



theorem step_mgrAcqGrant (s : St) (k : Key) (hm : s.mgr = .acq k) (h0 : (getItem s k).2.locks (getItem s k).1 = 0)
    (hi : Inv s) : Inv { (getItem s k).2 with mgr := .sendTok (getItem s k).1 k true } := by
  have hi1 := inv_getItem s k hi
  have ht1 := getItem_table_self s k
  have hm1 : (getItem s k).2.mgr = .acq k := by simp [hm]
  generalize (getItem s k).2 = s1 at *
  generalize (getItem s k).1 = i at *
  refine ⟨fun k0 => ?_, InvPtr_mgr s1 _ hi1.2⟩
  have hk := hi1.1 k0
  have hle := hold_le_reg s1.pcs k0
  have hLk := L_of_table ht1
  show InvKF k0 (.sendTok i k true) (s1.table k0) (L s1 k0) (reg s1 k0) (hold s1 k0)
  unfold InvK at hk
  rw [hm1] at hk
  unfold reg hold at *
  generalize List.countP (isReg k0) s1.pcs = r at *
  generalize List.countP (isHold k0) s1.pcs = h at *
  inv_arith k0 k



theorem step_mgrAcqQueue (s : St) (k : Key) (hm : s.mgr = .acq k) (h0 : (getItem s k).2.locks (getItem s k).1 ≠ 0)
    (hi : Inv s) :
    Inv { setLocks (getItem s k).2 (getItem s k).1 ((getItem s k).2.locks (getItem s k).1 + 1) with mgr := .idle } := by
  have hi1 := inv_getItem s k hi
  have ht1 := getItem_table_self s k
  have hm1 : (getItem s k).2.mgr = .acq k := by simp [hm]
  generalize (getItem s k).2 = s1 at *
  generalize (getItem s k).1 = i at *
  refine ⟨fun k0 => ?_, InvPtr_mgr_locks s1 _ _ _ hi1.2⟩
  apply InvK_mgr_step s1 k k0 i _ _ hi1.2 ht1
  have hk := hi1.1 k0
  have hle := hold_le_reg s1.pcs k0
  have hLk := L_of_table ht1
  unfold InvK at hk
  rw [hm1] at hk
  unfold reg hold at *
  generalize List.countP (isReg k0) s1.pcs = r at *
  generalize List.countP (isHold k0) s1.pcs = h at *
  inv_arith k0 k

theorem step_mgrRelNone (s : St) (k : Key) (hm : s.mgr = .rel k) (h0 : (getItem s k).2.locks (getItem s k).1 = 0)
    (hi : Inv s) : Inv { (getItem s k).2 with mgr := .idle } := by
  have hi1 := inv_getItem s k hi
  have ht1 := getItem_table_self s k
  have hm1 : (getItem s k).2.mgr = .rel k := by simp [hm]
  generalize (getItem s k).2 = s1 at *
  generalize (getItem s k).1 = i at *
  refine ⟨fun k0 => ?_, InvPtr_mgr s1 _ hi1.2⟩
  have hk := hi1.1 k0
  have hle := hold_le_reg s1.pcs k0
  have hLk := L_of_table ht1
  show InvKF k0 .idle (s1.table k0) (L s1 k0) (reg s1 k0) (hold s1 k0)
  unfold InvK at hk
  rw [hm1] at hk
  unfold reg hold at *
  generalize List.countP (isReg k0) s1.pcs = r at *
  generalize List.countP (isHold k0) s1.pcs = h at *
  inv_arith k0 k

theorem step_mgrRelLast (s : St) (k : Key) (hm : s.mgr = .rel k) (h0 : (getItem s k).2.locks (getItem s k).1 = 1)
    (hi : Inv s) : Inv { setLocks (getItem s k).2 (getItem s k).1 0 with mgr := .idle } := by
  have hi1 := inv_getItem s k hi
  have ht1 := getItem_table_self s k
  have hm1 : (getItem s k).2.mgr = .rel k := by simp [hm]
  generalize (getItem s k).2 = s1 at *
  generalize (getItem s k).1 = i at *
  refine ⟨fun k0 => ?_, InvPtr_mgr_locks s1 _ _ _ hi1.2⟩
  apply InvK_mgr_step s1 k k0 i _ _ hi1.2 ht1
  have hk := hi1.1 k0
  have hle := hold_le_reg s1.pcs k0
  have hLk := L_of_table ht1
  unfold InvK at hk
  rw [hm1] at hk
  unfold reg hold at *
  generalize List.countP (isReg k0) s1.pcs = r at *
  generalize List.countP (isHold k0) s1.pcs = h at *
  inv_arith k0 k

theorem step_mgrRelHand (s : St) (k : Key) (hm : s.mgr = .rel k) (h0 : 1 < (getItem s k).2.locks (getItem s k).1)
    (hi : Inv s) :
    Inv { setLocks (getItem s k).2 (getItem s k).1 ((getItem s k).2.locks (getItem s k).1 - 1) with
          mgr := .sendTok (getItem s k).1 k false } := by
  have hi1 := inv_getItem s k hi
  have ht1 := getItem_table_self s k
  have hm1 : (getItem s k).2.mgr = .rel k := by simp [hm]
  generalize (getItem s k).2 = s1 at *
  generalize (getItem s k).1 = i at *
  refine ⟨fun k0 => ?_, InvPtr_mgr_locks s1 _ _ _ hi1.2⟩
  apply InvK_mgr_step s1 k k0 i _ _ hi1.2 ht1
  have hk := hi1.1 k0
  have hle := hold_le_reg s1.pcs k0
  have hLk := L_of_table ht1
  unfold InvK at hk
  rw [hm1] at hk
  unfold reg hold at *
  generalize List.countP (isReg k0) s1.pcs = r at *
  generalize List.countP (isHold k0) s1.pcs = h at *
  inv_arith k0 k




/-- goroutine `g` moves from `old` to `new`, manager becomes `m'`: reduce to a value-level goal. -/
theorem InvK_pcs_step (s : St) (g : Nat) (old new : GPc) (hold' : s.pcs[g]? = some old)
    (m' : MPc) (k0 : Key)
    (hgoal : ∀ r' h' : Nat,
      r' + (if isReg k0 old then 1 else 0) = reg s k0 + (if isReg k0 new then 1 else 0) →
      h' + (if isHold k0 old then 1 else 0) = hold s k0 + (if isHold k0 new then 1 else 0) →
      h' ≤ r' → InvKF k0 m' (s.table k0) (L s k0) r' h') :
    InvK { s with pcs := s.pcs.set g new, mgr := m' } k0 := by
  have ⟨e1, e2⟩ := cnt_upd s g old new hold' k0
  exact hgoal _ _ e1 e2 (hold_le_reg _ k0)

/-- a move between two pcs with the same registration/holding status keeps every per-key invariant. -/
theorem InvK_pcs_same (s : St) (g : Nat) (old new : GPc) (hold' : s.pcs[g]? = some old) (k0 : Key)
    (hr : isReg k0 old = isReg k0 new) (hh : isHold k0 old = isHold k0 new) (hk : InvK s k0) :
    InvK { s with pcs := s.pcs.set g new } k0 := by
  apply InvK_pcs_step s g old new hold' s.mgr k0
  intro r' h' e1 e2 _
  rw [hr] at e1; rw [hh] at e2
  have hr' : r' = reg s k0 := by omega
  have hh' : h' = hold s k0 := by omega
  rw [hr', hh']; exact hk

theorem step_callLock (s : St) (g : Nat) (k : Key) (h : s.pcs[g]? = some .idle) (hi : Inv s) :
    Inv { s with pcs := s.pcs.set g (.sendAcq k) } :=
  ⟨fun k0 => InvK_pcs_same s g _ _ h k0 rfl rfl (hi.1 k0), ptr_upd s g _ (by intro i k h; cases h) hi.2⟩

theorem step_callUnlock (s : St) (g : Nat) (k : Key) (h : s.pcs[g]? = some (.holding k)) (hi : Inv s) :
    Inv { s with pcs := s.pcs.set g (.sendRel k) } :=
  ⟨fun k0 => InvK_pcs_same s g _ _ h k0 rfl rfl (hi.1 k0), ptr_upd s g _ (by intro i k h; cases h) hi.2⟩

theorem step_callUnlockSpur (s : St) (g : Nat) (k : Key) (h : s.pcs[g]? = some .idle) (hi : Inv s) :
    Inv { s with pcs := s.pcs.set g (.sendRelSpur k) } :=
  ⟨fun k0 => InvK_pcs_same s g _ _ h k0 rfl rfl (hi.1 k0), ptr_upd s g _ (by intro i k h; cases h) hi.2⟩

theorem step_gGetItem (s : St) (g : Nat) (k : Key) (h : s.pcs[g]? = some (.needItem k)) (hi : Inv s) :
    Inv { (getItem s k).2 with pcs := s.pcs.set g (.recvTok (getItem s k).1 k) } := by
  have hi1 := inv_getItem s k hi
  have ht1 := getItem_table_self s k
  have hp1 : (getItem s k).2.pcs = s.pcs := getItem_pcs s k
  rw [← hp1] at h ⊢
  generalize (getItem s k).2 = s1 at *
  generalize (getItem s k).1 = i at *
  exact ⟨fun k0 => InvK_pcs_same s1 g _ _ h k0 rfl rfl (hi1.1 k0),
         ptr_upd s1 g _ (by intro i' k' h'; cases h'; exact ht1) hi1.2⟩

theorem step_rdvAcq (s : St) (g : Nat) (k : Key) (h : s.pcs[g]? = some (.sendAcq k)) (hm : s.mgr = .idle)
    (hi : Inv s) : Inv { s with pcs := s.pcs.set g (.needItem k), mgr := .acq k } := by
  refine ⟨fun k0 => ?_, ptr_upd { s with mgr := .acq k } g _ (by intro i k h; cases h) hi.2⟩
  apply InvK_pcs_step s g _ _ h _ k0
  intro r' h' e1 e2 hle'
  have hk := hi.1 k0
  have hle := hold_le_reg s.pcs k0
  unfold InvK at hk
  rw [hm] at hk
  simp only [isReg, isHold] at e1 e2
  unfold reg hold at *
  generalize List.countP (isReg k0) s.pcs = r at *
  generalize List.countP (isHold k0) s.pcs = h0 at *
  generalize L s k0 = l at *
  inv_arith k0 k

theorem step_rdvRel (s : St) (g : Nat) (k : Key) (h : s.pcs[g]? = some (.sendRel k)) (hm : s.mgr = .idle)
    (hi : Inv s) : Inv { s with pcs := s.pcs.set g .idle, mgr := .rel k } := by
  refine ⟨fun k0 => ?_, ptr_upd { s with mgr := .rel k } g _ (by intro i k h; cases h) hi.2⟩
  apply InvK_pcs_step s g _ _ h _ k0
  intro r' h' e1 e2 hle'
  have hk := hi.1 k0
  have hle := hold_le_reg s.pcs k0
  unfold InvK at hk
  rw [hm] at hk
  simp only [isReg, isHold] at e1 e2
  unfold reg hold at *
  generalize List.countP (isReg k0) s.pcs = r at *
  generalize List.countP (isHold k0) s.pcs = h0 at *
  generalize L s k0 = l at *
  inv_arith k0 k

theorem step_rdvRelSpur (s : St) (g : Nat) (k : Key) (h : s.pcs[g]? = some (.sendRelSpur k)) (hm : s.mgr = .idle)
    (hfree : reg s k = 0) (hi : Inv s) : Inv { s with pcs := s.pcs.set g .idle, mgr := .rel k } := by
  refine ⟨fun k0 => ?_, ptr_upd { s with mgr := .rel k } g _ (by intro i k h; cases h) hi.2⟩
  apply InvK_pcs_step s g _ _ h _ k0
  intro r' h' e1 e2 hle'
  have hk := hi.1 k0
  have hle := hold_le_reg s.pcs k0
  unfold InvK at hk
  rw [hm] at hk
  simp only [isReg, isHold] at e1 e2
  have hfree' : k0 = k → reg s k0 = 0 := fun hh => by rw [hh]; exact hfree
  clear hfree
  unfold reg hold at *
  generalize List.countP (isReg k0) s.pcs = r at *
  generalize List.countP (isHold k0) s.pcs = h0 at *
  generalize L s k0 = l at *
  inv_arith k0 k

end Mx
