import Sessions.Mutex.Demo
/-! C14, last clause: "an Unlock on a key that is not held has no effect".

A spurious Unlock is the step sequence `callUnlockSpur g k ; rdvRelSpur g k ; <manager processes rel k>`; other
goroutines may take steps in between.  `SpurPending s k` characterises the states between the delivery and the
manager's processing.  The theorems show

* `rdvRelSpur_pending`   – delivery leads to a pending state and touches only the caller's pc and the manager's pc;
* `spur_pending_forced`  – in a pending state the Go code `if item.locks > 0 {…}` takes the "do nothing" branch
                           (`mgrRelNone` is the only enabled manager step);
* `spur_pending_step`    – while pending, *every* step of *anybody* leaves every `locks` value unchanged, and the step
                           that ends the pending phase returns the manager to `idle` without touching any goroutine;
* `purge_only_free`, `purge_forgets_no_waiter`, `held_entry_not_stale` – the purge step and the staleness proviso;
* `spurious_unlock_noop` – the uninterrupted sequence exists and its end state has the same pcs, the same manager
                           state, the same `locks` for every key and every existing item, and satisfies the invariant.

`Inv` is preserved by all the steps (`Mx.inv_step`), so `mutex_exclusion`, `deadlock_free`, `waiter_has_holder` hold
with spurious Unlocks present. -/
namespace Mx

/-- the manager has received a release for `k` while the item of `k` has `locks = 0` (or does not exist). -/
def SpurPending (s : St) (k : Key) : Prop := s.mgr = .rel k ∧ L s k = 0

theorem set_self_of_getElem? {l : List GPc} {g : Nat} {x : GPc} (h : l[g]? = some x) : l.set g x = l := by
  apply List.ext_getElem?
  intro j
  rw [List.getElem?_set]
  by_cases hj : g = j
  · subst hj
    obtain ⟨hg, hx⟩ := List.getElem?_eq_some_iff.1 h
    simp [hg, hx]
  · simp [hj]

/-- `getItem` changes no `locks` value of an existing item. -/
theorem getItem_locks_old (s : St) (k : Key) (i : Iid) (hi : i < s.nextI) : (getItem s k).2.locks i = s.locks i := by
  cases h : s.table k with
  | some j => rw [getItem_some h]
  | none =>
    rw [getItem_none h]
    have : i ≠ s.nextI := by omega
    simp [newItem, this]

theorem getItem_nextI_le (s : St) (k : Key) : s.nextI ≤ (getItem s k).2.nextI := by
  cases h : s.table k with
  | some j => rw [getItem_some h]; exact Nat.le_refl _
  | none => rw [getItem_none h]; simp [newItem]

theorem getItem_L (s : St) (k k' : Key) (hp : InvPtr s) : L (getItem s k).2 k' = L s k' := by
  by_cases hkk : k' = k
  · subst hkk; exact getItem_L_self s _
  · exact getItem_L_other s k k' hkk hp

/-- the locks field the manager reads in `acq k` / `rel k` is `L s k`. -/
theorem getItem_locks_eq_L (s : St) (k : Key) : (getItem s k).2.locks (getItem s k).1 = L s k := by
  rw [← getItem_L_self s k]
  exact (L_of_table (getItem_table_self s k)).symm

/-- delivery of a spurious release: only the caller's pc and the manager's pc change; the state is then pending. -/
theorem rdvRelSpur_pending (s : St) (g : Nat) (k : Key) (hm : s.mgr = .idle)
    (hfree : reg s k = 0) (hi : Inv s) :
    SpurPending { s with pcs := s.pcs.set g .idle, mgr := .rel k } k := by
  refine ⟨rfl, ?_⟩
  have hk := hi.1 k
  unfold InvK at hk; rw [hm] at hk; unfold InvKF at hk
  show L s k = 0
  omega

example : Inv demoBusy ∧ demoBusy.mgr = .idle ∧ reg demoBusy 7 = 0 ∧ demoBusy.pcs[1]? = some .idle :=
  ⟨demoBusy_inv, rfl, by decide, rfl⟩

/-- in a pending state the manager's `if item.locks > 0` test fails: only `mgrRelNone` is enabled for the manager. -/
theorem spur_pending_forced (s : St) (k : Key) (hp : SpurPending s k) :
    (getItem s k).2.locks (getItem s k).1 = 0 := by
  rw [getItem_locks_eq_L]; exact hp.2

/-- While a spurious release is pending, **every** step (of any goroutine or the manager) leaves the `locks` of every
key and of every existing item unchanged, no goroutine becomes a holder or stops being one, and either the release is
still pending or the manager has returned to `idle` without touching any goroutine. -/
theorem spur_pending_step {b : Bool} (s s' : St) (k : Key) (hi : Inv s) (hp : SpurPending s k) (hs : Step b s s') :
    (∀ k', L s' k' = L s k') ∧ (∀ i, i < s.nextI → s'.locks i = s.locks i) ∧
    (SpurPending s' k ∨ (s'.mgr = .idle ∧ s'.pcs = s.pcs)) := by
  obtain ⟨hm, hL⟩ := hp
  cases hs
  case callLock g k1 h => exact ⟨fun _ => rfl, fun _ _ => rfl, Or.inl ⟨hm, hL⟩⟩
  case callUnlock g k1 h => exact ⟨fun _ => rfl, fun _ _ => rfl, Or.inl ⟨hm, hL⟩⟩
  case callUnlockSpur g k1 h => exact ⟨fun _ => rfl, fun _ _ => rfl, Or.inl ⟨hm, hL⟩⟩
  case rdvAcq g k1 h hm' => rw [hm] at hm'; cases hm'
  case rdvRel g k1 h hm' => rw [hm] at hm'; cases hm'
  case rdvRelSpur g k1 h hm' hfree => rw [hm] at hm'; cases hm'
  case purge k1 i hm' ht h0 => rw [hm] at hm'; cases hm'
  case mgrAcqGrant k1 hm' h0 => rw [hm] at hm'; cases hm'
  case mgrAcqQueue k1 hm' h0 => rw [hm] at hm'; cases hm'
  case rdvTok g i k1 k2 b' h hm' => rw [hm] at hm'; cases hm'
  case gGetItem g k1 h =>
    refine ⟨fun k' => getItem_L s k1 k' hi.2, fun i hlt => getItem_locks_old s k1 i hlt, Or.inl ⟨?_, ?_⟩⟩
    · show (getItem s k1).2.mgr = _
      rw [getItem_mgr]; exact hm
    · show L (getItem s k1).2 k = 0
      rw [getItem_L s k1 k hi.2]; exact hL
  case mgrRelNone k1 hm' h0 =>
    exact ⟨fun k' => getItem_L s k1 k' hi.2, fun i hlt => getItem_locks_old s k1 i hlt,
           Or.inr ⟨rfl, getItem_pcs s k1⟩⟩
  case mgrRelLast k1 hm' h0 =>
    rw [hm] at hm'; cases hm'
    rw [getItem_locks_eq_L] at h0; omega
  case mgrRelHand k1 hm' h0 =>
    rw [hm] at hm'; cases hm'
    rw [getItem_locks_eq_L] at h0; omega

/-- C14 "an Unlock on a key that is not held has no effect".  From any invariant state with the manager idle, an idle
goroutine `g` and a key `k` nobody is registered on, the spurious-Unlock sequence (call, delivery, manager's `rel`
case) is enabled, and its end state `s3` differs from `s` in nothing observable: same pcs (the caller is back to
`idle`, nobody else moved), manager idle, same `locks` for every key and every existing item, same registered/holder
counts; the invariant holds again.  The intermediate states change only `g`'s pc and the manager's pc. -/
theorem spurious_unlock_noop (s : St) (g : Nat) (k : Key) (hi : Inv s) (hg : s.pcs[g]? = some .idle)
    (hm : s.mgr = .idle) (hfree : reg s k = 0) :
    ∃ s1 s2 s3, Step false s s1 ∧ Step true s1 s2 ∧ Step true s2 s3 ∧
      s1.pcs = s.pcs.set g (.sendRelSpur k) ∧ s1.mgr = .idle ∧ s1.locks = s.locks ∧ s1.table = s.table ∧
      s2.pcs = s.pcs ∧ s2.mgr = .rel k ∧ s2.locks = s.locks ∧ s2.table = s.table ∧
      s3.pcs = s.pcs ∧ s3.mgr = .idle ∧ (∀ k', L s3 k' = L s k') ∧ (∀ i, i < s.nextI → s3.locks i = s.locks i) ∧
      (∀ k', reg s3 k' = reg s k' ∧ hold s3 k' = hold s k') ∧ Inv s3 := by
  obtain ⟨hgl, _⟩ := List.getElem?_eq_some_iff.1 hg
  have hg1 : (s.pcs.set g (.sendRelSpur k))[g]? = some (.sendRelSpur k) := by
    rw [List.getElem?_set]; simp [hgl]
  have st1 := Step.callUnlockSpur s g k hg
  have hi1 := inv_step _ _ hi st1
  generalize hs1 : ({ s with pcs := s.pcs.set g (.sendRelSpur k) } : St) = s1 at st1 hi1
  have e1p : s1.pcs = s.pcs.set g (.sendRelSpur k) := by rw [← hs1]
  have e1m : s1.mgr = .idle := by rw [← hs1]; exact hm
  have e1l : s1.locks = s.locks := by rw [← hs1]
  have e1t : s1.table = s.table := by rw [← hs1]
  have e1n : s1.nextI = s.nextI := by rw [← hs1]
  have hfree1 : reg s1 k = 0 := by
    have ⟨c1, _⟩ := cnt_upd s g _ (.sendRelSpur k) hg k
    unfold reg at hfree ⊢; rw [e1p]
    simp [isReg] at c1
    omega
  have hg1' : s1.pcs[g]? = some (.sendRelSpur k) := by rw [e1p]; exact hg1
  have st2 := Step.rdvRelSpur s1 g k hg1' e1m hfree1
  have hi2 := inv_step _ _ hi1 st2
  have hp2 := rdvRelSpur_pending s1 g k e1m hfree1 hi1
  have e2p' : (s1.pcs.set g .idle) = s.pcs := by
    rw [e1p, List.set_set]; exact set_self_of_getElem? hg
  generalize hs2 : ({ s1 with pcs := s1.pcs.set g .idle, mgr := .rel k } : St) = s2 at st2 hi2 hp2
  have e2p : s2.pcs = s.pcs := by rw [← hs2]; exact e2p'
  have e2m : s2.mgr = .rel k := by rw [← hs2]
  have e2l : s2.locks = s.locks := by rw [← hs2]; exact e1l
  have e2t : s2.table = s.table := by rw [← hs2]; exact e1t
  have e2n : s2.nextI = s.nextI := by rw [← hs2]; exact e1n
  have st3 := Step.mgrRelNone s2 k e2m (spur_pending_forced s2 k hp2)
  have hi3 := inv_step _ _ hi2 st3
  have hL2 : ∀ k', L s2 k' = L s k' := by intro k'; unfold L; rw [e2l, e2t]
  have e3p : ({ (getItem s2 k).2 with mgr := .idle } : St).pcs = s.pcs := by
    show (getItem s2 k).2.pcs = _
    rw [getItem_pcs, e2p]
  refine ⟨s1, s2, _, st1, st2, st3, e1p, e1m, e1l, e1t, e2p, e2m, e2l, e2t, e3p, rfl, ?_, ?_, ?_, hi3⟩
  · intro k'
    show L (getItem s2 k).2 k' = _
    rw [getItem_L s2 k k' hi2.2, hL2]
  · intro i hlt
    show (getItem s2 k).2.locks i = _
    rw [getItem_locks_old s2 k i (by omega), e2l]
  · intro k'
    unfold reg hold
    rw [e3p]
    exact ⟨rfl, rfl⟩

/-- non-vacuity: the sequence exists from `demoBusy` (goroutine 1, key 7), and its middle state is a pending state in
which another goroutine (the holder of key 3) can take a step, so `spur_pending_step` has instances. -/
example : ∃ s2 s', Inv s2 ∧ SpurPending s2 7 ∧ Step true s2 s' ∧ s2.pcs[0]? = some (.holding 3) := by
  obtain ⟨s1, s2, s3, st1, st2, st3, _, _, _, _, e2p, e2m, e2l, e2t, _⟩ :=
    spurious_unlock_noop demoBusy 1 7 demoBusy_inv rfl rfl (by decide)
  have hi2 := inv_step _ _ (inv_step _ _ demoBusy_inv st1) st2
  refine ⟨s2, _, hi2, ⟨e2m, ?_⟩, Step.callUnlock s2 0 3 (by rw [e2p]; rfl), by rw [e2p]; rfl⟩
  unfold L; rw [e2t, e2l]; decide

/-- the modelled purge deletes only entries of keys nobody is registered on (no holder, no waiter, no acquirer past
the rendezvous), and it changes no `locks` value of any other key. -/
theorem purge_only_free (s : St) (k : Key) (i : Iid) (hi : Inv s) (hm : s.mgr = .idle) (ht : s.table k = some i)
    (h0 : s.locks i = 0) :
    reg s k = 0 ∧ hold s k = 0 ∧
    ∀ k', L { s with table := fun k' => if k' = k then none else s.table k' } k' = L s k' := by
  have hk := hi.1 k
  have hLk := L_of_table ht
  have hle := hold_le_reg s.pcs k
  unfold InvK at hk; rw [hm] at hk; unfold InvKF at hk
  refine ⟨by omega, by unfold reg hold at *; omega, fun k' => ?_⟩
  by_cases hk' : k' = k
  · subst hk'; simp [L, ht, h0]
  · simp [L, hk']

example : demoBusy.mgr = .idle ∧ demoBusy.table 9 = some 1 ∧ demoBusy.locks 1 = 0 := ⟨rfl, rfl, rfl⟩

/-- C14 "no waiter is forgotten … when the lock table is cleaned": a purge moves no goroutine, changes no `locks`
field, and every goroutine inside `Lock` past the rendezvous still finds the item the manager counts it on: a parked
goroutine's item is still the table's item for its key, and the key of a goroutine about to call `getItem` still has
its entry.  (With the invariant preserved, `waiter_has_holder` and `deadlock_free` keep applying after the purge.) -/
theorem purge_forgets_no_waiter (s : St) (k : Key) (i : Iid) (hi : Inv s) (hm : s.mgr = .idle) (ht : s.table k = some i)
    (h0 : s.locks i = 0) (s' : St) (hs' : s' = { s with table := fun k' => if k' = k then none else s.table k' }) :
    s'.pcs = s.pcs ∧ s'.locks = s.locks ∧ s'.mgr = .idle ∧
    (∀ (g : Nat) (i' : Iid) (k' : Key), s.pcs[g]? = some (.recvTok i' k') → s'.table k' = some i') ∧
    (∀ (g : Nat) (k' : Key), s.pcs[g]? = some (.needItem k') → s'.table k' = s.table k' ∧ s.table k' ≠ none) ∧
    Inv s' := by
  have hi' : Inv s' := by rw [hs']; exact inv_step _ _ hi (Step.purge s k i hm ht h0)
  obtain ⟨hreg, _, _⟩ := purge_only_free s k i hi hm ht h0
  subst hs'
  refine ⟨rfl, rfl, hm, fun g i' k' hg => hi'.2.1 g i' k' hg, fun g k' hg => ?_, hi'⟩
  obtain ⟨hgl, hget⟩ := List.getElem?_eq_some_iff.1 hg
  have hpos : 0 < reg s k' := countP_pos_of_getElem hgl (by rw [hget]; simp [isReg])
  have hne : k' ≠ k := fun e => by rw [e] at hpos; omega
  have hk := hi.1 k'
  unfold InvK at hk; rw [hm] at hk; unfold InvKF at hk
  refine ⟨by simp [hne], fun hnone => ?_⟩
  have : L s k' = 0 := by unfold L; rw [hnone]
  omega

/-- Arithmetic of the staleness proviso (see the header of `Basic.lean`): `lastAccess` is the last refresh of the
entry, the current holder was granted at `grant`, at most `delay` after that refresh (or before a later refresh), and
has held for at most `holdMax` at time `now`.  If `delay + holdMax ≤ stale` the entry is not stale
(`time.Since(lastAccess) > stale` is false), so the Go purge can delete it only under the size rule, which requires
`locks == 0`. -/
theorem held_entry_not_stale (lastAccess grant now delay holdMax stale : Nat)
    (hgrant : grant ≤ lastAccess + delay) (hheld : now ≤ grant + holdMax) (hbound : delay + holdMax ≤ stale) :
    ¬ (now - lastAccess > stale) := by omega

example : ¬ (3500 - 10 > 3600) := held_entry_not_stale 10 11 3500 1 3599 3600 (by omega) (by omega) (by omega)

end Mx
