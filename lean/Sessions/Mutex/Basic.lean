/-! Spike: keyed-mutex protocol of mutexes.go as a transition system; mutual exclusion for any number of goroutines/keys. -/
namespace Mx

notation "Key" => Nat
notation "Iid" => Nat

inductive GPc where
  | idle
  | sendAcq (k : Key)
  | needItem (k : Key)
  | recvTok (i : Iid) (k : Key)
  | holding (k : Key)
  | sendRel (k : Key)
deriving DecidableEq, Repr

inductive MPc where
  | idle
  | acq (k : Key)
  | sendTok (i : Iid) (k : Key) (incr : Bool)
  | rel (k : Key)
deriving DecidableEq, Repr

structure St where
  pcs   : List GPc
  mgr   : MPc
  table : Key → Option Iid
  locks : Iid → Nat
  nextI : Iid

def St.init (n : Nat) : St :=
  { pcs := List.replicate n .idle, mgr := .idle, table := fun _ => none, locks := fun _ => 0, nextI := 0 }

/-- `getItem` under itemsMutex: atomic lookup-or-create. -/
def getItem (s : St) (k : Key) : Iid × St :=
  match s.table k with
  | some i => (i, s)
  | none => (s.nextI, { s with table := fun k' => if k' = k then some s.nextI else s.table k',
                               locks := fun i => if i = s.nextI then 0 else s.locks i,
                               nextI := s.nextI + 1 })

def setLocks (s : St) (i : Iid) (v : Nat) : St := { s with locks := fun j => if j = i then v else s.locks j }

/-- the Boolean index says whether the step is a *progress* step (everything except a new `Lock` call and purge). -/
inductive Step : Bool → St → St → Prop where
  | callLock (s : St) (g : Nat) (k : Key) (h : s.pcs[g]? = some (.idle)) :
      Step false s { s with pcs := s.pcs.set g (.sendAcq k) }
  | rdvAcq (s : St) (g : Nat) (k : Key) (h : s.pcs[g]? = some (.sendAcq k)) (hm : s.mgr = .idle) :
      Step true s { s with pcs := s.pcs.set g (.needItem k), mgr := .acq k }
  | mgrAcqGrant (s : St) (k : Key) (hm : s.mgr = .acq k) (h0 : (getItem s k).2.locks (getItem s k).1 = 0) :
      Step true s { (getItem s k).2 with mgr := .sendTok (getItem s k).1 k true }
  | mgrAcqQueue (s : St) (k : Key) (hm : s.mgr = .acq k) (h0 : (getItem s k).2.locks (getItem s k).1 ≠ 0) :
      Step true s { setLocks (getItem s k).2 (getItem s k).1 ((getItem s k).2.locks (getItem s k).1 + 1) with mgr := .idle }
  | gGetItem (s : St) (g : Nat) (k : Key) (h : s.pcs[g]? = some (.needItem k)) :
      Step true s { (getItem s k).2 with pcs := s.pcs.set g (.recvTok (getItem s k).1 k) }
  | rdvTok (s : St) (g : Nat) (i : Iid) (k k' : Key) (b : Bool)
      (h : s.pcs[g]? = some (.recvTok i k)) (hm : s.mgr = .sendTok i k' b) :
      Step true s { (if b then setLocks s i (s.locks i + 1) else s) with pcs := s.pcs.set g (.holding k), mgr := .idle }
  | callUnlock (s : St) (g : Nat) (k : Key) (h : s.pcs[g]? = some (.holding k)) :
      Step true s { s with pcs := s.pcs.set g (.sendRel k) }
  | rdvRel (s : St) (g : Nat) (k : Key) (h : s.pcs[g]? = some (.sendRel k)) (hm : s.mgr = .idle) :
      Step true s { s with pcs := s.pcs.set g .idle, mgr := .rel k }
  | mgrRelNone (s : St) (k : Key) (hm : s.mgr = .rel k) (h0 : (getItem s k).2.locks (getItem s k).1 = 0) :
      Step true s { (getItem s k).2 with mgr := .idle }
  | mgrRelLast (s : St) (k : Key) (hm : s.mgr = .rel k) (h0 : (getItem s k).2.locks (getItem s k).1 = 1) :
      Step true s { setLocks (getItem s k).2 (getItem s k).1 0 with mgr := .idle }
  | mgrRelHand (s : St) (k : Key) (hm : s.mgr = .rel k) (h0 : 1 < (getItem s k).2.locks (getItem s k).1) :
      Step true s { setLocks (getItem s k).2 (getItem s k).1 ((getItem s k).2.locks (getItem s k).1 - 1) with
               mgr := .sendTok (getItem s k).1 k false }
  | purge (s : St) (k : Key) (i : Iid) (hm : s.mgr = .idle) (ht : s.table k = some i) (h0 : s.locks i = 0) :
      Step false s { s with table := fun k' => if k' = k then none else s.table k' }

/-- goroutine is registered on key `k` (in flight, waiting, holding or releasing). -/
def isReg (k : Key) : GPc → Bool
  | .needItem k' => k' == k
  | .recvTok _ k' => k' == k
  | .holding k' => k' == k
  | .sendRel k' => k' == k
  | _ => false

def isHold (k : Key) : GPc → Bool
  | .holding k' => k' == k
  | .sendRel k' => k' == k
  | _ => false

def reg (s : St) (k : Key) : Nat := s.pcs.countP (isReg k)
def hold (s : St) (k : Key) : Nat := s.pcs.countP (isHold k)

/-- locks of the table's item for `k` (0 if none). -/
def L (s : St) (k : Key) : Nat := match s.table k with | some i => s.locks i | none => 0

/-- per-key invariant on plain values, by manager state. -/
def InvKF (k : Key) (m : MPc) (t : Option Iid) (l r h : Nat) : Prop :=
  h ≤ 1 ∧
  match m with
  | .acq k' => if k' = k then l + 1 = r ∧ (l = 0 → h = 0) ∧ (0 < l → h = 1)
               else l = r ∧ (0 < r → h = 1)
  | .sendTok i k' b =>
      if k' = k then t = some i ∧ h = 0 ∧ (if b then l = 0 ∧ r = 1 else l = r ∧ 0 < r)
      else l = r ∧ (0 < r → h = 1)
  | .rel k' => if k' = k then h = 0 ∧ l = r + 1 else l = r ∧ (0 < r → h = 1)
  | .idle => l = r ∧ (0 < r → h = 1)

def InvK (s : St) (k : Key) : Prop := InvKF k s.mgr (s.table k) (L s k) (reg s k) (hold s k)

/-- pointers held by waiters are the table's items; items are distinct per key; ids below nextI. -/
def InvPtr (s : St) : Prop :=
  (∀ (g : Nat) (i k : Nat), s.pcs[g]? = some (GPc.recvTok i k) → s.table k = some i) ∧
  (∀ k k' i, s.table k = some i → s.table k' = some i → k = k') ∧
  (∀ k i, s.table k = some i → i < s.nextI)

def Inv (s : St) : Prop := (∀ k, InvK s k) ∧ InvPtr s

theorem mutual_exclusion_of_inv (s : St) (h : Inv s) (k : Key) : hold s k ≤ 1 := (h.1 k).1

end Mx
