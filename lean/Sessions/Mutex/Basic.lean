/-! Keyed-mutex protocol of mutexes.go as a labelled transition system; mutual exclusion (C13) and the safety half
of C14 for any number of goroutines and keys.

## What is modelled

* One manager (`MPc`) with the three `select` cases of the Go loop: `acq k` / `rel k` are the bodies of the
  `acquire` / `release` cases after the key has been received, `sendTok` is the manager blocked in
  `item.release <- struct{}{}`.  The purge case is the `purge` step (one deleted entry per step).
* Any number of goroutines (`GPc`), each either outside the package (`idle`), inside `Lock` (`sendAcq`, `needItem`,
  `recvTok`), between `Lock`-return and `Unlock`-call (`holding`), or blocked in the channel send of `Unlock`
  (`sendRel` for the matching Unlock, `sendRelSpur` for an Unlock by a goroutine that holds nothing).
* `getItem` is atomic (it runs under `itemsMutex`), for the manager and for goroutines alike.

## Spurious Unlock (environment step)

A goroutine that holds nothing may call `Unlock k` on any key (`callUnlockSpur`, unconditional).  The Go protocol
cannot tell *who* sends on `release`, so an Unlock by a non-holder on a key that **is** held releases the holder's lock:
that is client misuse excluded by the doc comment of `mutexes` ("every call to Lock() must be followed by exactly one
eventual call to Unlock()").  The model therefore lets the spurious message be *delivered* (`rdvRelSpur`) only while the
key is free: no goroutine registered on it (`reg s k = 0`, which under the invariant is `locks = 0`).  The manager then
processes `rel k` with exactly the code of the Go loop (`mgrRelNone`/`mgrRelLast`/`mgrRelHand`); the invariant shows only
`mgrRelNone` can fire, i.e. "an Unlock on a key that is not held has no effect" (`Mx.spurious_unlock_noop`).

## Purge and the staleness proviso

The Go purge case deletes an entry when it is stale (`time.Since(item.lastAccess) > mutexStaleMutexes`, **regardless
of `locks`**) or when the table is over `mutexMaxCacheSize` and `locks == 0`.  Time and table size are not modelled.
The `purge` step may delete *any* entry with `locks = 0` at *any* moment the manager is idle; this over-approximates the
size rule (whatever the size) and the stale rule for unlocked entries (whatever the age).  Deleting an entry with
`locks > 0` is possible in the Go code only through the stale rule, and that is exactly what the proviso of C13
("holds shorter than the staleness timeout") excludes:

  every manager event on key `k` (`acq k`, `rel k`) starts with `getItem(k)`, which sets `lastAccess = now`; a goroutine
  is granted `k` only inside such an event (token send of the acq case, or of the rel case that hands over), and the
  goroutine's own `getItem` inside `Lock` refreshes once more.  So while `locks > 0` the current holder was granted at
  or after the last refresh (up to the scheduling delay between `getItem` and the adjacent channel operation), and
  `now - lastAccess ≤ delay + (time the current holder has held)`.  If every hold (plus that delay) is shorter than
  `mutexStaleMutexes`, an entry with `locks > 0` is never stale (`Mx.held_entry_not_stale` is the arithmetic;
  `Mx.purge_only_free` shows the modelled purge never touches a key somebody is registered on).

The proviso is thus *stated* as the restriction `h0 : s.locks i = 0` of the `purge` step.  Without it (a hold longer than
one hour) the Go code does lose the item and mutual exclusion fails; `Exec.checkProviso` flags such a deletion in a
logged trace.
-/
namespace Mx

notation "Key" => Nat
notation "Iid" => Nat

inductive GPc where
  | idle
  | sendAcq (k : Key)
  | needItem (k : Key)
  | recvTok (i : Iid) (k : Key)
  | holding (k : Key)
  | sendRel (k : Key)
  | sendRelSpur (k : Key)
deriving DecidableEq, Repr

inductive MPc where
  | idle
  | acq (k : Key)
  | sendTok (i : Iid) (k : Key) (incr : Bool)
  | rel (k : Key)
deriving DecidableEq, Repr

structure St where
  pcs   : List GPc
  mgr   : MPc
  table : Key → Option Iid
  locks : Iid → Nat
  nextI : Iid

def St.init (n : Nat) : St :=
  { pcs := List.replicate n .idle, mgr := .idle, table := fun _ => none, locks := fun _ => 0, nextI := 0 }

/-- `getItem` under itemsMutex: atomic lookup-or-create. -/
def getItem (s : St) (k : Key) : Iid × St :=
  match s.table k with
  | some i => (i, s)
  | none => (s.nextI, { s with table := fun k' => if k' = k then some s.nextI else s.table k',
                               locks := fun i => if i = s.nextI then 0 else s.locks i,
                               nextI := s.nextI + 1 })

def setLocks (s : St) (i : Iid) (v : Nat) : St := { s with locks := fun j => if j = i then v else s.locks j }

/-- goroutine is registered on key `k` (in flight, waiting, holding or releasing). -/
def isReg (k : Key) : GPc → Bool
  | .needItem k' => k' == k
  | .recvTok _ k' => k' == k
  | .holding k' => k' == k
  | .sendRel k' => k' == k
  | _ => false

def isHold (k : Key) : GPc → Bool
  | .holding k' => k' == k
  | .sendRel k' => k' == k
  | _ => false

def reg (s : St) (k : Key) : Nat := s.pcs.countP (isReg k)
def hold (s : St) (k : Key) : Nat := s.pcs.countP (isHold k)

/-- the Boolean index says whether the step is a *progress* step (everything except the environment steps: a new
`Lock` call, a spurious `Unlock` call, and purge). -/
inductive Step : Bool → St → St → Prop where
  | callLock (s : St) (g : Nat) (k : Key) (h : s.pcs[g]? = some (.idle)) :
      Step false s { s with pcs := s.pcs.set g (.sendAcq k) }
  | rdvAcq (s : St) (g : Nat) (k : Key) (h : s.pcs[g]? = some (.sendAcq k)) (hm : s.mgr = .idle) :
      Step true s { s with pcs := s.pcs.set g (.needItem k), mgr := .acq k }
  | mgrAcqGrant (s : St) (k : Key) (hm : s.mgr = .acq k) (h0 : (getItem s k).2.locks (getItem s k).1 = 0) :
      Step true s { (getItem s k).2 with mgr := .sendTok (getItem s k).1 k true }
  | mgrAcqQueue (s : St) (k : Key) (hm : s.mgr = .acq k) (h0 : (getItem s k).2.locks (getItem s k).1 ≠ 0) :
      Step true s { setLocks (getItem s k).2 (getItem s k).1 ((getItem s k).2.locks (getItem s k).1 + 1) with mgr := .idle }
  | gGetItem (s : St) (g : Nat) (k : Key) (h : s.pcs[g]? = some (.needItem k)) :
      Step true s { (getItem s k).2 with pcs := s.pcs.set g (.recvTok (getItem s k).1 k) }
  | rdvTok (s : St) (g : Nat) (i : Iid) (k k' : Key) (b : Bool)
      (h : s.pcs[g]? = some (.recvTok i k)) (hm : s.mgr = .sendTok i k' b) :
      Step true s { (if b then setLocks s i (s.locks i + 1) else s) with pcs := s.pcs.set g (.holding k), mgr := .idle }
  | callUnlock (s : St) (g : Nat) (k : Key) (h : s.pcs[g]? = some (.holding k)) :
      Step true s { s with pcs := s.pcs.set g (.sendRel k) }
  | rdvRel (s : St) (g : Nat) (k : Key) (h : s.pcs[g]? = some (.sendRel k)) (hm : s.mgr = .idle) :
      Step true s { s with pcs := s.pcs.set g .idle, mgr := .rel k }
  | mgrRelNone (s : St) (k : Key) (hm : s.mgr = .rel k) (h0 : (getItem s k).2.locks (getItem s k).1 = 0) :
      Step true s { (getItem s k).2 with mgr := .idle }
  | mgrRelLast (s : St) (k : Key) (hm : s.mgr = .rel k) (h0 : (getItem s k).2.locks (getItem s k).1 = 1) :
      Step true s { setLocks (getItem s k).2 (getItem s k).1 0 with mgr := .idle }
  | mgrRelHand (s : St) (k : Key) (hm : s.mgr = .rel k) (h0 : 1 < (getItem s k).2.locks (getItem s k).1) :
      Step true s { setLocks (getItem s k).2 (getItem s k).1 ((getItem s k).2.locks (getItem s k).1 - 1) with
               mgr := .sendTok (getItem s k).1 k false }
  /-- environment: a goroutine that holds nothing calls `Unlock k` (blocks in `m.release <- key`). -/
  | callUnlockSpur (s : St) (g : Nat) (k : Key) (h : s.pcs[g]? = some (.idle)) :
      Step false s { s with pcs := s.pcs.set g (.sendRelSpur k) }
  /-- the spurious release message is delivered; only while nobody is registered on `k` (see header). -/
  | rdvRelSpur (s : St) (g : Nat) (k : Key) (h : s.pcs[g]? = some (.sendRelSpur k)) (hm : s.mgr = .idle)
      (hfree : reg s k = 0) :
      Step true s { s with pcs := s.pcs.set g .idle, mgr := .rel k }
  | purge (s : St) (k : Key) (i : Iid) (hm : s.mgr = .idle) (ht : s.table k = some i) (h0 : s.locks i = 0) :
      Step false s { s with table := fun k' => if k' = k then none else s.table k' }

/-- locks of the table's item for `k` (0 if none). -/
def L (s : St) (k : Key) : Nat := match s.table k with | some i => s.locks i | none => 0

/-- per-key invariant on plain values, by manager state. -/
def InvKF (k : Key) (m : MPc) (t : Option Iid) (l r h : Nat) : Prop :=
  h ≤ 1 ∧
  match m with
  | .acq k' => if k' = k then l + 1 = r ∧ (l = 0 → h = 0) ∧ (0 < l → h = 1)
               else l = r ∧ (0 < r → h = 1)
  | .sendTok i k' b =>
      if k' = k then t = some i ∧ h = 0 ∧ (if b then l = 0 ∧ r = 1 else l = r ∧ 0 < r)
      else l = r ∧ (0 < r → h = 1)
  | .rel k' => if k' = k then h = 0 ∧ (l = r + 1 ∨ (l = 0 ∧ r = 0)) else l = r ∧ (0 < r → h = 1)
  | .idle => l = r ∧ (0 < r → h = 1)

def InvK (s : St) (k : Key) : Prop := InvKF k s.mgr (s.table k) (L s k) (reg s k) (hold s k)

/-- pointers held by waiters are the table's items; items are distinct per key; ids below nextI. -/
def InvPtr (s : St) : Prop :=
  (∀ (g : Nat) (i k : Nat), s.pcs[g]? = some (GPc.recvTok i k) → s.table k = some i) ∧
  (∀ k k' i, s.table k = some i → s.table k' = some i → k = k') ∧
  (∀ k i, s.table k = some i → i < s.nextI)

def Inv (s : St) : Prop := (∀ k, InvK s k) ∧ InvPtr s

theorem mutual_exclusion_of_inv (s : St) (h : Inv s) (k : Key) : hold s k ≤ 1 := (h.1 k).1

end Mx
