import Sessions.Mutex.Pres
namespace Mx

/-- general step: goroutine `g` moves `old → new`, manager becomes `m'`, table unchanged, new `L` known. -/
theorem InvK_full_step (s s' : St) (g : Nat) (old new : GPc) (hold' : s.pcs[g]? = some old) (m' : MPc) (k0 : Key) (l' : Nat)
    (hm' : s'.mgr = m') (ht' : s'.table = s.table) (hpcs : s'.pcs = s.pcs.set g new) (hL' : L s' k0 = l')
    (hgoal : ∀ r' h' : Nat,
      r' + (if isReg k0 old then 1 else 0) = reg s k0 + (if isReg k0 new then 1 else 0) →
      h' + (if isHold k0 old then 1 else 0) = hold s k0 + (if isHold k0 new then 1 else 0) →
      h' ≤ r' → InvKF k0 m' (s.table k0) l' r' h') :
    InvK s' k0 := by
  have ⟨e1, e2⟩ := cnt_upd s g old new hold' k0
  unfold InvK reg hold
  rw [hm', ht', hpcs, hL']
  exact hgoal _ _ e1 e2 (hold_le_reg _ k0)

theorem sendTok_table (s : St) (i : Iid) (k' : Key) (b : Bool) (hm : s.mgr = .sendTok i k' b) (hi : Inv s) :
    s.table k' = some i := by
  have hk := hi.1 k'
  unfold InvK at hk; rw [hm] at hk; unfold InvKF at hk
  simp at hk
  exact hk.2.1

theorem step_rdvTok (s : St) (g : Nat) (i : Iid) (k k' : Key) (b : Bool)
    (h : s.pcs[g]? = some (.recvTok i k)) (hm : s.mgr = .sendTok i k' b) (hi : Inv s) :
    Inv { (if b then setLocks s i (s.locks i + 1) else s) with pcs := s.pcs.set g (.holding k), mgr := .idle } := by
  have ht : s.table k = some i := hi.2.1 g i k h
  have ht' : s.table k' = some i := sendTok_table s i k' b hm hi
  have hkk : k' = k := hi.2.2.1 k' k i ht' ht
  subst hkk
  have hptr : InvPtr { (if b then setLocks s i (s.locks i + 1) else s) with pcs := s.pcs.set g (.holding k'), mgr := .idle } := by
    cases b
    · exact ptr_upd { s with mgr := .idle } g _ (by intro i k h; cases h) hi.2
    · exact ptr_upd { setLocks s i (s.locks i + 1) with mgr := .idle } g _ (by intro i k h; cases h) hi.2
  refine ⟨fun k0 => ?_, hptr⟩
  have hLk := L_of_table ht
  have hiff := table_eq_iff s hi.2 k' k0 i ht
  apply InvK_full_step s _ g _ _ h .idle k0 (if k0 = k' then (if b then s.locks i + 1 else s.locks i) else L s k0)
  · rfl
  · cases b <;> rfl
  · cases b <;> rfl
  · cases b
    · by_cases hk0 : k0 = k'
      · subst hk0; simp; exact hLk
      · simp [hk0]; rfl
    · have h1 : L { setLocks s i (s.locks i + 1) with pcs := s.pcs.set g (.holding k'), mgr := .idle } k0
          = L (setLocks s i (s.locks i + 1)) k0 := rfl
      simp only [if_true]
      show L { setLocks s i (s.locks i + 1) with pcs := s.pcs.set g (.holding k'), mgr := .idle } k0 = _
      rw [h1, L_setLocks]
      by_cases hk0 : k0 = k'
      · simp [hk0, ht]
      · have : ¬ s.table k0 = some i := fun hh => hk0 (hiff.1 hh)
        simp [hk0, this]
  · intro r' h' e1 e2 hle'
    have hk := hi.1 k0
    have hle := hold_le_reg s.pcs k0
    unfold InvK at hk
    rw [hm] at hk
    simp only [isReg, isHold] at e1 e2
    have hl : k0 = k' → L s k0 = s.locks i := fun hh => by rw [hh]; exact hLk
    clear hLk
    unfold reg hold at *
    generalize List.countP (isReg k0) s.pcs = r at *
    generalize List.countP (isHold k0) s.pcs = h0 at *
    generalize L s k0 = l at *
    generalize s.locks i = li at *
    cases b <;> inv_arith k0 k'

theorem step_purge (s : St) (k : Key) (i : Iid) (hm : s.mgr = .idle) (ht : s.table k = some i) (h0 : s.locks i = 0)
    (hi : Inv s) : Inv { s with table := fun k' => if k' = k then none else s.table k' } := by
  have hk := hi.1 k
  have hLk := L_of_table ht
  unfold InvK at hk; rw [hm] at hk; unfold InvKF at hk
  have hreg0 : reg s k = 0 := by omega
  refine ⟨fun k0 => ?_, ?_, ?_, ?_⟩
  · by_cases hk0 : k0 = k
    · subst hk0
      have hL' : L { s with table := fun k' => if k' = k0 then none else s.table k' } k0 = 0 := by simp [L]
      unfold InvK
      rw [hL']
      show InvKF k0 s.mgr _ 0 (reg s k0) (hold s k0)
      rw [hm]; unfold InvKF
      have hle := hold_le_reg s.pcs k0
      unfold reg hold at *
      omega
    · have hk0' := hi.1 k0
      unfold InvK at hk0' ⊢
      have hL' : L { s with table := fun k' => if k' = k then none else s.table k' } k0 = L s k0 := by simp [L, hk0]
      rw [hL']
      show InvKF k0 s.mgr (if k0 = k then none else s.table k0) (L s k0) (reg s k0) (hold s k0)
      simp only [hk0, if_false]
      exact hk0'
  · intro g i' k1 hpc
    have := hi.2.1 g i' k1 hpc
    by_cases hk1 : k1 = k
    · subst hk1
      -- a waiter on k would be registered, but reg s k = 0
      exfalso
      obtain ⟨hg, hget⟩ := List.getElem?_eq_some_iff.1 hpc
      have : 0 < s.pcs.countP (isReg k1) := countP_pos_of_getElem hg (by rw [hget]; simp [isReg])
      unfold reg at hreg0; omega
    · simp [hk1, this]
  · intro k1 k2 i'
    simp only
    by_cases h1 : k1 = k <;> by_cases h2 : k2 = k <;> simp [h1, h2]
    exact hi.2.2.1 k1 k2 i'
  · intro k1 i'
    simp only
    by_cases h1 : k1 = k <;> simp [h1]
    exact hi.2.2.2 k1 i'

theorem inv_step {b : Bool} (s s' : St) (hi : Inv s) (hs : Step b s s') : Inv s' := by
  cases hs
  case callLock g k h => exact step_callLock s g k h hi
  case rdvAcq g k h hm => exact step_rdvAcq s g k h hm hi
  case mgrAcqGrant k hm h0 => exact step_mgrAcqGrant s k hm h0 hi
  case mgrAcqQueue k hm h0 => exact step_mgrAcqQueue s k hm h0 hi
  case gGetItem g k h => exact step_gGetItem s g k h hi
  case rdvTok g i k k' b h hm => exact step_rdvTok s g i k k' b h hm hi
  case callUnlock g k h => exact step_callUnlock s g k h hi
  case rdvRel g k h hm => exact step_rdvRel s g k h hm hi
  case mgrRelNone k hm h0 => exact step_mgrRelNone s k hm h0 hi
  case mgrRelLast k hm h0 => exact step_mgrRelLast s k hm h0 hi
  case mgrRelHand k hm h0 => exact step_mgrRelHand s k hm h0 hi
  case purge k i hm ht h0 => exact step_purge s k i hm ht h0 hi
  case callUnlockSpur g k h => exact step_callUnlockSpur s g k h hi
  case rdvRelSpur g k h hm hfree => exact step_rdvRelSpur s g k h hm hfree hi

theorem inv_init (n : Nat) : Inv (St.init n) := by
  refine ⟨fun k => ?_, ?_, ?_, ?_⟩
  · unfold InvK InvKF St.init reg hold L
    have h1 : List.countP (isReg k) (List.replicate n GPc.idle) = 0 := by
      rw [List.countP_eq_zero]; intro a ha; rw [List.eq_of_mem_replicate ha]; simp [isReg]
    have h2 : List.countP (isHold k) (List.replicate n GPc.idle) = 0 := by
      rw [List.countP_eq_zero]; intro a ha; rw [List.eq_of_mem_replicate ha]; simp [isHold]
    simp [h1, h2]
  · intro g i k h
    simp only [St.init] at h
    obtain ⟨hg, hget⟩ := List.getElem?_eq_some_iff.1 h
    simp at hget
  · intro k k' i h; simp [St.init] at h
  · intro k i h; simp [St.init] at h

inductive Reach (n : Nat) : St → Prop where
  | init : Reach n (St.init n)
  | step (b : Bool) (s s' : St) : Reach n s → Step b s s' → Reach n s'

/-- C13 at model level: in every reachable state of every schedule, for any number of goroutines and keys,
at most one goroutine is between Lock-return and Unlock-delivery on a key. -/
theorem mutex_exclusion (n : Nat) (s : St) (hr : Reach n s) (k : Key) : hold s k ≤ 1 := by
  have : Inv s := by
    induction hr with
    | init => exact inv_init n
    | step b s s' _ hs ih => exact inv_step s s' ih hs
  exact mutual_exclusion_of_inv s this k

end Mx
