import Sessions.Mutex.Spurious
/-! C14, liveness half: "if every holder eventually unlocks, every Lock call eventually returns".

`PSt` adds to the protocol state a *program* per goroutine: the list of keys it still has to `Lock`/`Unlock`, in order
("every holder eventually unlocks" = programs are finite and every `Lock` is followed by its `Unlock`).  `PStep` is the
protocol step relation with `callLock` driven by the program (a progress step now) and everything else lifted from
`Step`; the environment steps (`PStep false`) are purge and the *call* of a spurious Unlock.  Every `PStep` is a `Step`
(`PStep.toStep`), so the invariant and all safety theorems apply to program states (`PReach.inv`).

* `progress_measure`  – the measure `μ` (weights below) strictly decreases on every progress step;
* `env_measure`       – purge leaves it unchanged, a spurious-Unlock call raises it by 3;
* `stuck_done`        – a reachable state without an enabled progress step is `Done`: manager idle, every goroutine
                        idle with an empty program (uses `progress_enabled`, i.e. deadlock freedom);
* `all_locks_return`  – any execution from a reachable state with `n` progress and `e` environment steps has
                        `n ≤ μ p + 3 * e`; and if it cannot be extended by a progress step its end state is `Done`;
* `all_locks_return_env_free`, `exists_done_run`, `no_infinite_progress`, `no_infinite_run_finite_env` – corollaries:
  without environment steps at most `μ p` steps; a finishing run exists; there is no infinite run whose environment
  steps are finite.  Hence in every maximal (fairly scheduled) execution with finitely many environment steps every
  goroutine finishes its program: no Lock call is left blocked. -/
namespace Mx

structure PSt where
  st   : St
  todo : List (List Key)

def PSt.init (progs : List (List Key)) : PSt := { st := St.init progs.length, todo := progs }

/-- `s → s'` is a `callLock` step of the unconstrained model. -/
def IsCallLock (s s' : St) : Prop :=
  ∃ (g : Nat) (k : Key), s.pcs[g]? = some .idle ∧ s' = { s with pcs := s.pcs.set g (.sendAcq k) }

inductive PStep : Bool → PSt → PSt → Prop where
  /-- goroutine `g` starts the next `Lock` of its program. -/
  | callLock (p : PSt) (g : Nat) (k : Key) (rest : List Key) (h : p.st.pcs[g]? = some .idle)
      (hp : p.todo[g]? = some (k :: rest)) :
      PStep true p { st := { p.st with pcs := p.st.pcs.set g (.sendAcq k) }, todo := p.todo.set g rest }
  /-- any progress step of the protocol. -/
  | prog (p : PSt) (s' : St) (hs : Step true p.st s') : PStep true p { p with st := s' }
  /-- environment: purge, or the call of a spurious Unlock (not a `Lock` call: those come from the program). -/
  | env (p : PSt) (s' : St) (hs : Step false p.st s') (hnc : ¬ IsCallLock p.st s') : PStep false p { p with st := s' }

theorem PStep.toStep {b : Bool} {p p' : PSt} (h : PStep b p p') : ∃ b', Step b' p.st p'.st := by
  cases h
  case callLock g k rest h hp => exact ⟨false, Step.callLock p.st g k h⟩
  case prog s' hs => exact ⟨true, hs⟩
  case env s' hs _ => exact ⟨false, hs⟩

inductive PReach (progs : List (List Key)) : PSt → Prop where
  | init : PReach progs (PSt.init progs)
  | step (b : Bool) (p p' : PSt) : PReach progs p → PStep b p p' → PReach progs p'

theorem PReach.reach {progs : List (List Key)} {p : PSt} (h : PReach progs p) : Reach progs.length p.st := by
  induction h with
  | init => exact Reach.init
  | step b p p' _ hs ih =>
    obtain ⟨b', hs'⟩ := hs.toStep
    exact Reach.step b' _ _ ih hs'

theorem PReach.inv {progs : List (List Key)} {p : PSt} (h : PReach progs p) : Inv p.st :=
  reach_inv _ _ h.reach

/-- C13 for program states. -/
theorem PReach.exclusion {progs : List (List Key)} {p : PSt} (h : PReach progs p) (k : Key) : hold p.st k ≤ 1 :=
  mutex_exclusion _ _ h.reach k

theorem step_pcs_length {b : Bool} {s s' : St} (h : Step b s s') : s'.pcs.length = s.pcs.length := by
  cases h <;> simp [setLocks]

theorem PReach.length {progs : List (List Key)} {p : PSt} (h : PReach progs p) : p.todo.length = p.st.pcs.length := by
  induction h with
  | init => simp [PSt.init, St.init]
  | step b p p' _ hs ih =>
    cases hs
    case callLock g k rest h hp => simp [ih]
    case prog s' hs => rw [step_pcs_length hs]; exact ih
    case env s' hs _ => rw [step_pcs_length hs]; exact ih

/-! ### The measure -/

def wG : GPc → Nat
  | .idle => 0
  | .sendRel _ => 3
  | .sendRelSpur _ => 3
  | .holding _ => 4
  | .recvTok _ _ => 5
  | .needItem _ => 6
  | .sendAcq _ => 9

def wM : MPc → Nat
  | .idle => 0
  | .acq _ => 2
  | .rel _ => 2
  | .sendTok _ _ _ => 1

def sumG : List GPc → Nat
  | [] => 0
  | x :: r => wG x + sumG r

def sumT : List (List Key) → Nat
  | [] => 0
  | x :: r => 10 * x.length + sumT r

/-- protocol part of the measure. -/
def μS (s : St) : Nat := sumG s.pcs + wM s.mgr

/-- 10 per remaining `Lock`/`Unlock` pair, plus the weight of every goroutine's pc, plus the manager's pc. -/
def μ (p : PSt) : Nat := sumT p.todo + μS p.st

theorem sumG_set (l : List GPc) (g : Nat) (old new : GPc) (h : l[g]? = some old) :
    sumG (l.set g new) + wG old = sumG l + wG new := by
  induction l generalizing g with
  | nil => simp at h
  | cons x r ih =>
    cases g with
    | zero =>
      simp only [List.getElem?_cons_zero, Option.some.injEq] at h
      subst h
      simp only [List.set_cons_zero, sumG]; omega
    | succ g =>
      simp only [List.getElem?_cons_succ] at h
      have := ih g h
      simp only [List.set_cons_succ, sumG]; omega

theorem sumT_set (l : List (List Key)) (g : Nat) (old new : List Key) (h : l[g]? = some old) :
    sumT (l.set g new) + 10 * old.length = sumT l + 10 * new.length := by
  induction l generalizing g with
  | nil => simp at h
  | cons x r ih =>
    cases g with
    | zero =>
      simp only [List.getElem?_cons_zero, Option.some.injEq] at h
      subst h
      simp only [List.set_cons_zero, sumT]; omega
    | succ g =>
      simp only [List.getElem?_cons_succ] at h
      have := ih g h
      simp only [List.set_cons_succ, sumT]; omega

/-- every progress step of the protocol strictly decreases the protocol measure. -/
theorem step_measure {s s' : St} (h : Step true s s') : μS s' < μS s := by
  unfold μS
  cases h
  case rdvAcq g k h hm =>
    have := sumG_set s.pcs g _ (.needItem k) h
    simp only [wG, wM, hm] at *; omega
  case mgrAcqGrant k hm h0 =>
    show sumG (getItem s k).2.pcs + _ < _
    rw [getItem_pcs, hm]; simp only [wM]; omega
  case mgrAcqQueue k hm h0 =>
    show sumG (getItem s k).2.pcs + _ < _
    rw [getItem_pcs, hm]; simp only [wM]; omega
  case gGetItem g k h =>
    have := sumG_set s.pcs g _ (.recvTok (getItem s k).1 k) h
    show sumG (s.pcs.set g _) + wM (getItem s k).2.mgr < _
    rw [getItem_mgr]
    simp only [wG] at *; omega
  case rdvTok g i k k' b h hm =>
    have := sumG_set s.pcs g _ (.holding k) h
    show sumG (s.pcs.set g _) + wM .idle < _
    simp only [wG, wM, hm] at *; omega
  case callUnlock g k h =>
    have := sumG_set s.pcs g _ (.sendRel k) h
    simp only [wG] at *; omega
  case rdvRel g k h hm =>
    have := sumG_set s.pcs g _ .idle h
    simp only [wG, wM, hm] at *; omega
  case mgrRelNone k hm h0 =>
    show sumG (getItem s k).2.pcs + _ < _
    rw [getItem_pcs, hm]; simp only [wM]; omega
  case mgrRelLast k hm h0 =>
    show sumG (getItem s k).2.pcs + _ < _
    rw [getItem_pcs, hm]; simp only [wM]; omega
  case mgrRelHand k hm h0 =>
    show sumG (getItem s k).2.pcs + _ < _
    rw [getItem_pcs, hm]; simp only [wM]; omega
  case rdvRelSpur g k h hm hfree =>
    have := sumG_set s.pcs g _ .idle h
    simp only [wG, wM, hm] at *; omega

/-- environment steps of the protocol other than `callLock`: purge keeps the measure, a spurious call adds 3. -/
theorem env_step_measure {s s' : St} (h : Step false s s') (hnc : ¬ IsCallLock s s') : μS s' ≤ μS s + 3 := by
  unfold μS
  cases h
  case callLock g k h => exact absurd ⟨g, k, h, rfl⟩ hnc
  case callUnlockSpur g k h =>
    have := sumG_set s.pcs g _ (.sendRelSpur k) h
    simp only [wG] at *; omega
  case purge k i hm ht h0 => exact Nat.le_add_right _ _

/-- **progress_measure**: every progress step (everything except purge and the call of a spurious Unlock) strictly
decreases `μ`. -/
theorem progress_measure {p p' : PSt} (h : PStep true p p') : μ p' < μ p := by
  unfold μ
  cases h
  case callLock g k rest h hp =>
    have h1 := sumG_set p.st.pcs g _ (.sendAcq k) h
    have h2 := sumT_set p.todo g _ rest hp
    simp only [μS, wG, List.length_cons] at *; omega
  case prog s' hs => have := step_measure hs; simp only; omega

theorem env_measure {p p' : PSt} (h : PStep false p p') : μ p' ≤ μ p + 3 := by
  unfold μ
  cases h
  case env s' hs hnc => have := env_step_measure hs hnc; simp only; omega

/-! ### Terminal states -/

/-- every goroutine has finished its program and is outside the package; the manager waits in its `select`. -/
def Done (p : PSt) : Prop :=
  p.st.mgr = .idle ∧ (∀ (g : Nat) (pc : GPc), p.st.pcs[g]? = some pc → pc = .idle) ∧
  (∀ (g : Nat) (t : List Key), p.todo[g]? = some t → t = [])

/-- deadlock freedom for programs: a state satisfying the invariant in which no progress step is enabled is `Done`. -/
theorem stuck_done_of_inv (p : PSt) (hi : Inv p.st) (hlen : p.todo.length = p.st.pcs.length)
    (hstuck : ¬ ∃ p', PStep true p p') : Done p := by
  have hnostep : ¬ ∃ s', Step true p.st s' := fun ⟨s', hs⟩ => hstuck ⟨_, PStep.prog p s' hs⟩
  have hidle : ¬ (p.st.mgr ≠ .idle ∨ ∃ (g : Nat) (pc : GPc), p.st.pcs[g]? = some pc ∧ pc ≠ .idle) :=
    fun hb => hnostep (progress_enabled p.st hi hb)
  have hm : p.st.mgr = .idle := Classical.byContradiction fun h => hidle (Or.inl h)
  have hpcs : ∀ (g : Nat) (pc : GPc), p.st.pcs[g]? = some pc → pc = .idle :=
    fun g pc hg => Classical.byContradiction fun h => hidle (Or.inr ⟨g, pc, hg, h⟩)
  refine ⟨hm, hpcs, fun g t ht => ?_⟩
  cases t with
  | nil => rfl
  | cons k rest =>
    exfalso
    obtain ⟨hgl, _⟩ := List.getElem?_eq_some_iff.1 ht
    have hgl' : g < p.st.pcs.length := by omega
    have hg : p.st.pcs[g]? = some p.st.pcs[g] := List.getElem?_eq_getElem hgl'
    have := hpcs g _ hg
    rw [this] at hg
    exact hstuck ⟨_, PStep.callLock p g k rest hg ht⟩

theorem stuck_done {progs : List (List Key)} {p : PSt} (hr : PReach progs p) (hstuck : ¬ ∃ p', PStep true p p') :
    Done p := stuck_done_of_inv p hr.inv hr.length hstuck

theorem done_measure (p : PSt) (hd : Done p) : μS p.st = 0 := by
  obtain ⟨hm, hpcs, _⟩ := hd
  unfold μS
  rw [hm]
  have : ∀ l : List GPc, (∀ (g : Nat) (pc : GPc), l[g]? = some pc → pc = .idle) → sumG l = 0 := by
    intro l
    induction l with
    | nil => intro _; rfl
    | cons x r ih =>
      intro h
      have hx := h 0 x (by simp)
      have hr := ih (fun g pc hg => h (g + 1) pc (by simpa using hg))
      subst hx
      simp [sumG, wG, hr]
  simp [this _ hpcs, wM]

/-! ### Executions -/

/-- `Exec p n e p'`: a finite execution from `p` to `p'` with `n` progress steps and `e` environment steps. -/
inductive Exec : PSt → Nat → Nat → PSt → Prop where
  | refl (p : PSt) : Exec p 0 0 p
  | prog (p p1 p2 : PSt) (n e : Nat) : PStep true p p1 → Exec p1 n e p2 → Exec p (n + 1) e p2
  | env (p p1 p2 : PSt) (n e : Nat) : PStep false p p1 → Exec p1 n e p2 → Exec p n (e + 1) p2

theorem Exec.preach {progs : List (List Key)} {p p' : PSt} {n e : Nat} (h : Exec p n e p') (hr : PReach progs p) :
    PReach progs p' := by
  induction h with
  | refl p => exact hr
  | prog p p1 p2 n e hs _ ih => exact ih (PReach.step true p p1 hr hs)
  | env p p1 p2 n e hs _ ih => exact ih (PReach.step false p p1 hr hs)

/-- the number of progress steps of any execution is bounded by the measure drop plus 3 per environment step. -/
theorem exec_bound {p p' : PSt} {n e : Nat} (h : Exec p n e p') : n + μ p' ≤ μ p + 3 * e := by
  induction h with
  | refl p => omega
  | prog p p1 p2 n e hs _ ih => have := progress_measure hs; omega
  | env p p1 p2 n e hs _ ih => have := env_measure hs; omega

/-- **all_locks_return** (C14, liveness).  From any reachable state `p`, every execution with `n` progress steps and
`e` environment steps (purge deletions, spurious-Unlock calls) satisfies `n ≤ μ p + 3 * e`; and when its end state
admits no further progress step (the execution is maximal), every goroutine has finished its program: every `Lock`
call has returned and every lock has been released.  So with finitely many environment steps no goroutine can stay
blocked in `Lock`: within `μ p + 3 * e` progress steps the system is `Done`. -/
theorem all_locks_return {progs : List (List Key)} {p p' : PSt} {n e : Nat} (hr : PReach progs p)
    (hx : Exec p n e p') :
    n ≤ μ p + 3 * e ∧ ((¬ ∃ p'', PStep true p' p'') → Done p') := by
  refine ⟨?_, fun hstuck => stuck_done (hx.preach hr) hstuck⟩
  have := exec_bound hx; omega

/-- environment-free executions: at most `μ p` steps. -/
theorem all_locks_return_env_free {progs : List (List Key)} {p p' : PSt} {n : Nat} (hr : PReach progs p)
    (hx : Exec p n 0 p') :
    n ≤ μ p ∧ ((¬ ∃ p'', PStep true p' p'') → Done p') := by
  have := all_locks_return hr hx
  simpa using this

theorem Exec.snoc {p p1 p2 : PSt} {n e : Nat} (h : Exec p n e p1) (hs : PStep true p1 p2) : Exec p (n + 1) e p2 := by
  induction h with
  | refl p => exact Exec.prog _ _ _ 0 0 hs (Exec.refl _)
  | prog p pa pb n e hs' _ ih => exact Exec.prog _ _ _ _ _ hs' (ih hs)
  | env p pa pb n e hs' _ ih => exact Exec.env _ _ _ _ _ hs' (ih hs)

/-- a finishing run exists (and by `all_locks_return_env_free` *every* environment-free run that is continued as long
as possible is one). -/
theorem exists_done_run {progs : List (List Key)} (p : PSt) (hr : PReach progs p) :
    ∃ (n : Nat) (p' : PSt), n ≤ μ p ∧ Exec p n 0 p' ∧ Done p' := by
  generalize hm : μ p = m
  induction m using Nat.strongRecOn generalizing p with
  | _ m ih =>
    by_cases hstuck : ∃ p', PStep true p p'
    · obtain ⟨p1, hs⟩ := hstuck
      have hlt := progress_measure hs
      obtain ⟨n, p', hn, hx, hd⟩ := ih (μ p1) (by omega) p1 (PReach.step true p p1 hr hs) rfl
      exact ⟨n + 1, p', by omega, Exec.prog _ _ _ _ _ hs hx, hd⟩
    · exact ⟨0, p, Nat.zero_le _, Exec.refl p, stuck_done hr hstuck⟩

/-- there is no infinite sequence of progress steps. -/
theorem no_infinite_progress (f : Nat → PSt) (hf : ∀ i, PStep true (f i) (f (i + 1))) : False := by
  have h : ∀ i, μ (f i) + i ≤ μ (f 0) := by
    intro i
    induction i with
    | zero => omega
    | succ i ih => have := progress_measure (hf i); omega
  have := h (μ (f 0) + 1)
  omega

/-- there is no infinite execution in which the environment steps are finite (all steps from index `N` on are
progress steps): a goroutine can be kept from finishing only by an unfair scheduler or by infinitely many spurious
Unlock calls / purges. -/
theorem no_infinite_run_finite_env (f : Nat → PSt) (b : Nat → Bool) (hf : ∀ i, PStep (b i) (f i) (f (i + 1)))
    (N : Nat) (hfin : ∀ i, N ≤ i → b i = true) : False := by
  apply no_infinite_progress (fun i => f (N + i))
  intro i
  have := hf (N + i)
  rw [hfin (N + i) (Nat.le_add_right _ _)] at this
  exact this

/-! ### Every individual `Lock` call returns -/

/-- goroutine is inside `Lock(k)`: blocked in the send on `acquire`, about to call `getItem`, or parked in the receive. -/
def inLock (k : Key) : GPc → Prop
  | .sendAcq k' => k' = k
  | .needItem k' => k' = k
  | .recvTok _ k' => k' = k
  | _ => False

theorem pc_after_set (l : List GPc) (g g' : Nat) (old new pc : GPc) (hg' : l[g']? = some old)
    (hg : l[g]? = some pc) :
    (g' = g ∧ old = pc ∧ (l.set g' new)[g]? = some new) ∨ (g' ≠ g ∧ (l.set g' new)[g]? = some pc) := by
  by_cases h : g' = g
  · subst h
    obtain ⟨hgl, _⟩ := List.getElem?_eq_some_iff.1 hg
    rw [hg'] at hg
    exact Or.inl ⟨rfl, by simpa using hg, by rw [List.getElem?_set]; simp [hgl]⟩
  · exact Or.inr ⟨h, by rw [List.getElem?_set]; simp [h, hg]⟩

/-- a goroutine inside `Lock(k)` stays inside `Lock(k)` or has just returned from it (`holding k`): the only way out
of `Lock` is its return. -/
theorem step_inLock {b : Bool} {s s' : St} (hs : Step b s s') (g : Nat) (pc : GPc) (k : Key)
    (hg : s.pcs[g]? = some pc) (hin : inLock k pc) :
    ∃ pc', s'.pcs[g]? = some pc' ∧ (inLock k pc' ∨ pc' = .holding k) := by
  cases hs
  case callLock g' k1 h =>
    rcases pc_after_set s.pcs g g' _ (.sendAcq k1) pc h hg with ⟨_, rfl, _⟩ | ⟨_, h2⟩
    · exact absurd hin (by simp [inLock])
    · exact ⟨pc, h2, Or.inl hin⟩
  case callUnlockSpur g' k1 h =>
    rcases pc_after_set s.pcs g g' _ (.sendRelSpur k1) pc h hg with ⟨_, rfl, _⟩ | ⟨_, h2⟩
    · exact absurd hin (by simp [inLock])
    · exact ⟨pc, h2, Or.inl hin⟩
  case callUnlock g' k1 h =>
    rcases pc_after_set s.pcs g g' _ (.sendRel k1) pc h hg with ⟨_, rfl, _⟩ | ⟨_, h2⟩
    · exact absurd hin (by simp [inLock])
    · exact ⟨pc, h2, Or.inl hin⟩
  case rdvRel g' k1 h hm =>
    rcases pc_after_set s.pcs g g' _ .idle pc h hg with ⟨_, rfl, _⟩ | ⟨_, h2⟩
    · exact absurd hin (by simp [inLock])
    · exact ⟨pc, h2, Or.inl hin⟩
  case rdvRelSpur g' k1 h hm hfree =>
    rcases pc_after_set s.pcs g g' _ .idle pc h hg with ⟨_, rfl, _⟩ | ⟨_, h2⟩
    · exact absurd hin (by simp [inLock])
    · exact ⟨pc, h2, Or.inl hin⟩
  case rdvAcq g' k1 h hm =>
    rcases pc_after_set s.pcs g g' _ (.needItem k1) pc h hg with ⟨_, rfl, h2⟩ | ⟨_, h2⟩
    · exact ⟨_, h2, Or.inl hin⟩
    · exact ⟨pc, h2, Or.inl hin⟩
  case gGetItem g' k1 h =>
    rcases pc_after_set s.pcs g g' _ (.recvTok (getItem s k1).1 k1) pc h hg with ⟨_, rfl, h2⟩ | ⟨_, h2⟩
    · exact ⟨_, h2, Or.inl hin⟩
    · exact ⟨pc, h2, Or.inl hin⟩
  case rdvTok g' i k1 k2 b' h hm =>
    rcases pc_after_set s.pcs g g' _ (.holding k1) pc h hg with ⟨_, rfl, h2⟩ | ⟨_, h2⟩
    · have : k1 = k := hin
      subst this
      exact ⟨_, h2, Or.inr rfl⟩
    · exact ⟨pc, h2, Or.inl hin⟩
  case mgrAcqGrant k1 hm h0 => exact ⟨pc, by show (getItem s k1).2.pcs[g]? = _; rw [getItem_pcs]; exact hg, Or.inl hin⟩
  case mgrAcqQueue k1 hm h0 => exact ⟨pc, by show (getItem s k1).2.pcs[g]? = _; rw [getItem_pcs]; exact hg, Or.inl hin⟩
  case mgrRelNone k1 hm h0 => exact ⟨pc, by show (getItem s k1).2.pcs[g]? = _; rw [getItem_pcs]; exact hg, Or.inl hin⟩
  case mgrRelLast k1 hm h0 => exact ⟨pc, by show (getItem s k1).2.pcs[g]? = _; rw [getItem_pcs]; exact hg, Or.inl hin⟩
  case mgrRelHand k1 hm h0 => exact ⟨pc, by show (getItem s k1).2.pcs[g]? = _; rw [getItem_pcs]; exact hg, Or.inl hin⟩
  case purge k1 i hm ht h0 => exact ⟨pc, hg, Or.inl hin⟩

/-- **Every `Lock` call returns.**  If goroutine `g` is inside `Lock(k)` in `p` and the execution ends in a `Done`
state, then the execution passes through a state in which `g` has returned from that `Lock` and holds `k`. -/
theorem lock_returns {p p' : PSt} {n e : Nat} (hx : Exec p n e p') (g : Nat) (pc : GPc) (k : Key)
    (hg : p.st.pcs[g]? = some pc) (hin : inLock k pc) (hd : Done p') :
    ∃ (n1 e1 n2 e2 : Nat) (pm : PSt), Exec p n1 e1 pm ∧ Exec pm n2 e2 p' ∧ n1 + n2 = n ∧ e1 + e2 = e ∧
      pm.st.pcs[g]? = some (.holding k) := by
  induction hx generalizing pc with
  | refl p =>
    have := hd.2.1 g pc hg
    subst this
    exact absurd hin (by simp [inLock])
  | prog p p1 p2 n e hs hx ih =>
    obtain ⟨b', hs'⟩ := hs.toStep
    obtain ⟨pc', hg', hin' | hh⟩ := step_inLock hs' g pc k hg hin
    · obtain ⟨n1, e1, n2, e2, pm, h1, h2, h3, h4, h5⟩ := ih pc' hg' hin' hd
      exact ⟨n1 + 1, e1, n2, e2, pm, Exec.prog _ _ _ _ _ hs h1, h2, by omega, h4, h5⟩
    · subst hh
      exact ⟨1, 0, n, e, p1, Exec.prog _ _ _ _ _ hs (Exec.refl _), hx, by omega, by omega, hg'⟩
  | env p p1 p2 n e hs hx ih =>
    obtain ⟨b', hs'⟩ := hs.toStep
    obtain ⟨pc', hg', hin' | hh⟩ := step_inLock hs' g pc k hg hin
    · obtain ⟨n1, e1, n2, e2, pm, h1, h2, h3, h4, h5⟩ := ih pc' hg' hin' hd
      exact ⟨n1, e1 + 1, n2, e2, pm, Exec.env _ _ _ _ _ hs h1, h2, h3, by omega, h5⟩
    · subst hh
      exact ⟨0, 1, n, e, p1, Exec.env _ _ _ _ _ hs (Exec.refl _), hx, by omega, by omega, hg'⟩

/-- C14 in one statement: from a reachable state in which `g` is blocked inside `Lock(k)`, every execution that is
continued until no progress step is enabled (a maximal execution; it has at most `μ p + 3 * e` progress steps if the
environment takes `e` steps) contains a state in which that `Lock` has returned. -/
theorem every_lock_returns {progs : List (List Key)} {p p' : PSt} {n e : Nat} (hr : PReach progs p)
    (hx : Exec p n e p') (hmax : ¬ ∃ p'', PStep true p' p'') (g : Nat) (pc : GPc) (k : Key)
    (hg : p.st.pcs[g]? = some pc) (hin : inLock k pc) :
    n ≤ μ p + 3 * e ∧
    ∃ (n1 e1 n2 e2 : Nat) (pm : PSt), Exec p n1 e1 pm ∧ Exec pm n2 e2 p' ∧ n1 + n2 = n ∧ e1 + e2 = e ∧
      pm.st.pcs[g]? = some (.holding k) := by
  obtain ⟨hb, hdone⟩ := all_locks_return hr hx
  exact ⟨hb, lock_returns hx g pc k hg hin (hdone hmax)⟩

/-! ### Non-vacuity -/

/-- two goroutines contending for key 1, the second also using key 2. -/
def demoProgs : List (List Key) := [[1], [1, 2]]

example : PReach demoProgs (PSt.init demoProgs) := PReach.init
example : μ (PSt.init demoProgs) = 30 := by decide
example : ∃ p', PStep true (PSt.init demoProgs) p' :=
  ⟨_, PStep.callLock (PSt.init demoProgs) 1 1 [2] (by decide) (by decide)⟩
example : ∃ (n : Nat) (p' : PSt), n ≤ 30 ∧ Exec (PSt.init demoProgs) n 0 p' ∧ Done p' :=
  exists_done_run (progs := demoProgs) _ PReach.init
/-- a reachable state without an enabled progress step (hypotheses of `stuck_done`): all programs empty. -/
example : PReach [[], []] (PSt.init [[], []]) ∧ ¬ ∃ p', PStep true (PSt.init [[], []]) p' :=
  ⟨PReach.init, fun ⟨p', h⟩ => by
    have := progress_measure h
    have h0 : μ (PSt.init [[], []]) = 0 := by decide
    omega⟩
/-- a goroutine inside `Lock` in a reachable state (hypotheses of `every_lock_returns`). -/
example : ∃ p, PReach demoProgs p ∧ p.st.pcs[1]? = some (.sendAcq 1) ∧ inLock 1 (.sendAcq 1) :=
  ⟨_, PReach.step true _ _ PReach.init (PStep.callLock (PSt.init demoProgs) 1 1 [2] (by decide) (by decide)),
   by decide, rfl⟩
/-- a spurious Unlock call is an environment step of the program model. -/
example : ∃ p', PStep false (PSt.init demoProgs) p' := by
  refine ⟨_, PStep.env (PSt.init demoProgs) _ (Step.callUnlockSpur _ 0 5 (by decide)) ?_⟩
  rintro ⟨g, k, _, h⟩
  have := congrArg (fun s => s.pcs[0]?) h
  simp only [PSt.init, St.init, demoProgs, List.getElem?_set] at this
  by_cases hg : g = 0 <;> simp [hg] at this

end Mx
