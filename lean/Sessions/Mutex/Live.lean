import Sessions.Mutex.Final
namespace Mx

theorem exists_of_countP_pos {p : GPc → Bool} {l : List GPc} (h : 0 < l.countP p) :
    ∃ (g : Nat) (pc : GPc), l[g]? = some pc ∧ p pc = true := by
  rw [List.countP_pos_iff] at h
  obtain ⟨a, ha, hp⟩ := h
  obtain ⟨g, hg⟩ := List.mem_iff_getElem?.1 ha
  exact ⟨g, a, hg, hp⟩

theorem all_of_countP_zero {p : GPc → Bool} {l : List GPc} (h : l.countP p = 0) {g : Nat} {pc : GPc}
    (hg : l[g]? = some pc) : p pc = false := by
  rw [List.countP_eq_zero] at h
  have hm : pc ∈ l := List.mem_iff_getElem?.2 ⟨g, hg⟩
  have := h pc hm
  simpa using this

/-- a holder always has a progress step when the manager is idle. -/
theorem holder_step (s : St) (hm : s.mgr = .idle) (k : Key) (hh : 0 < hold s k) :
    ∃ s', Step true s s' := by
  obtain ⟨g, pc, hg, hp⟩ := exists_of_countP_pos hh
  cases pc <;> simp [isHold] at hp
  · subst hp; exact ⟨_, Step.callUnlock s g _ hg⟩
  · subst hp; exact ⟨_, Step.rdvRel s g _ hg hm⟩

/-- C14 (deadlock freedom / no lost wake-up) at model level: in every state satisfying the invariant, if the
manager is busy or some goroutine is inside Lock/Unlock or holds a lock, a progress step is enabled. -/
theorem progress_enabled (s : St) (hi : Inv s)
    (hbusy : s.mgr ≠ .idle ∨ ∃ (g : Nat) (pc : GPc), s.pcs[g]? = some pc ∧ pc ≠ .idle) :
    ∃ s', Step true s s' := by
  cases hm : s.mgr with
  | acq k =>
    by_cases h0 : (getItem s k).2.locks (getItem s k).1 = 0
    · exact ⟨_, Step.mgrAcqGrant s k hm h0⟩
    · exact ⟨_, Step.mgrAcqQueue s k hm h0⟩
  | rel k =>
    by_cases h0 : (getItem s k).2.locks (getItem s k).1 = 0
    · exact ⟨_, Step.mgrRelNone s k hm h0⟩
    · by_cases h1 : (getItem s k).2.locks (getItem s k).1 = 1
      · exact ⟨_, Step.mgrRelLast s k hm h1⟩
      · exact ⟨_, Step.mgrRelHand s k hm (by omega)⟩
  | sendTok i k b =>
    -- the invariant guarantees a partner: registered on k, not holding
    have hk := hi.1 k
    unfold InvK at hk; rw [hm] at hk; unfold InvKF at hk
    simp only [if_true] at hk
    obtain ⟨_, ht, hh0, hb⟩ := hk
    have hreg : 0 < reg s k := by cases b <;> simp at hb <;> omega
    obtain ⟨g, pc, hg, hp⟩ := exists_of_countP_pos hreg
    have hnh : isHold k pc = false := all_of_countP_zero hh0 hg
    cases pc with
    | idle => simp [isReg] at hp
    | sendAcq k' => simp [isReg] at hp
    | needItem k' => exact ⟨_, Step.gGetItem s g k' hg⟩
    | recvTok i' k' =>
      have hk' : k' = k := by simpa [isReg] using hp
      have h1 : s.table k' = some i' := hi.2.1 g i' k' hg
      rw [hk', ht] at h1
      have hii : i = i' := by simpa using h1
      subst hii
      exact ⟨_, Step.rdvTok s g i k' k b hg hm⟩
    | holding k' => simp [isReg, isHold] at hp hnh; exact absurd hp hnh
    | sendRel k' => simp [isReg, isHold] at hp hnh; exact absurd hp hnh
    | sendRelSpur k' => simp [isReg] at hp
  | idle =>
    rcases hbusy with hb | ⟨g, pc, hg, hne⟩
    · exact absurd hm hb
    · cases pc with
      | idle => exact absurd rfl hne
      | sendAcq k => exact ⟨_, Step.rdvAcq s g k hg hm⟩
      | needItem k => exact ⟨_, Step.gGetItem s g k hg⟩
      | holding k => exact ⟨_, Step.callUnlock s g k hg⟩
      | sendRel k => exact ⟨_, Step.rdvRel s g k hg hm⟩
      | sendRelSpur k =>
        -- a spurious Unlock is delivered if the key is free; otherwise the key has a holder, and the holder can move
        by_cases hfree : reg s k = 0
        · exact ⟨_, Step.rdvRelSpur s g k hg hm hfree⟩
        · have hk := hi.1 k
          unfold InvK at hk; rw [hm] at hk; unfold InvKF at hk
          have hh : hold s k = 1 := hk.2.2 (by omega)
          exact holder_step s hm k (by omega)
      | recvTok i k =>
        -- a waiter with the manager idle: the key has a holder (no lost wake-up), and the holder can move
        have hk := hi.1 k
        unfold InvK at hk; rw [hm] at hk; unfold InvKF at hk
        have hreg : 0 < reg s k := by
          obtain ⟨hgl, hget⟩ := List.getElem?_eq_some_iff.1 hg
          exact countP_pos_of_getElem hgl (by rw [hget]; simp [isReg])
        have hh : hold s k = 1 := hk.2.2 hreg
        exact holder_step s hm k (by omega)

theorem reach_inv (n : Nat) (s : St) (hr : Reach n s) : Inv s := by
  induction hr with
  | init => exact inv_init n
  | step b s s' _ hs ih => exact inv_step s s' ih hs

/-- the same for every reachable state. -/
theorem deadlock_free (n : Nat) (s : St) (hr : Reach n s)
    (hbusy : s.mgr ≠ .idle ∨ ∃ (g : Nat) (pc : GPc), s.pcs[g]? = some pc ∧ pc ≠ .idle) :
    ∃ s', Step true s s' := by
  exact progress_enabled s (reach_inv n s hr) hbusy

/-- no lost wake-up, stated directly: with the manager idle, a goroutine parked on a key implies the key is held. -/
theorem waiter_has_holder (n : Nat) (s : St) (hr : Reach n s) (hm : s.mgr = .idle) (g : Nat) (i : Iid) (k : Key)
    (hg : s.pcs[g]? = some (.recvTok i k)) : hold s k = 1 := by
  have hi : Inv s := reach_inv n s hr
  have hk := hi.1 k
  unfold InvK at hk; rw [hm] at hk; unfold InvKF at hk
  obtain ⟨hgl, hget⟩ := List.getElem?_eq_some_iff.1 hg
  exact hk.2.2 (countP_pos_of_getElem hgl (by rw [hget]; simp [isReg]))

end Mx
