import Sessions.Mutex.Live
/-! Concrete states satisfying the invariant, used for the non-vacuity `example`s next to the theorems. -/
namespace Mx

/-- manager idle; goroutine 0 holds key 3, goroutine 1 is idle, goroutine 2 is parked on key 3; the table also has an
unused entry for key 9 (candidate for purge). -/
def demoBusy : St :=
  { pcs := [.holding 3, .idle, .recvTok 0 3], mgr := .idle,
    table := fun k => if k = 3 then some 0 else if k = 9 then some 1 else none,
    locks := fun i => if i = 0 then 2 else 0, nextI := 2 }

theorem demoBusy_inv : Inv demoBusy := by
  refine ⟨fun k => ?_, ?_, ?_, ?_⟩
  · unfold InvK InvKF reg hold L demoBusy
    by_cases hk : k = 3
    · subst hk; simp [isReg, isHold]
    · have h3 : ¬ 3 = k := fun h => hk h.symm
      by_cases hk9 : k = 9
      · subst hk9; simp [isReg, isHold]
      · simp [isReg, isHold, hk, h3, hk9]
  · intro g i k h
    match g, h with
    | 0, h => simp [demoBusy] at h
    | 1, h => simp [demoBusy] at h
    | 2, h => simp [demoBusy] at h; obtain ⟨rfl, rfl⟩ := h; simp [demoBusy]
    | g+3, h => simp [demoBusy] at h
  · intro k k' i h1 h2
    by_cases hk : k = 3 <;> by_cases hk' : k' = 3 <;> by_cases hk9 : k = 9 <;> by_cases hk9' : k' = 9 <;>
      simp_all [demoBusy] <;> omega
  · intro k i h
    by_cases hk : k = 3 <;> by_cases hk9 : k = 9 <;> simp_all [demoBusy] <;> omega

/-- goroutine 0 has just delivered its Unlock of key 3 (manager in the `release` case), goroutines 1 and 2 wait on it. -/
def demoRel : St :=
  { pcs := [.idle, .recvTok 0 3, .needItem 3], mgr := .rel 3, table := fun k => if k = 3 then some 0 else none,
    locks := fun i => if i = 0 then 3 else 0, nextI := 1 }

theorem demoRel_inv : Inv demoRel := by
  refine ⟨fun k => ?_, ?_, ?_, ?_⟩
  · unfold InvK InvKF reg hold L demoRel
    by_cases hk : k = 3
    · subst hk; simp [isReg, isHold]
    · have : ¬ 3 = k := fun h => hk h.symm
      simp [isReg, isHold, hk, this]
  · intro g i k h
    match g, h with
    | 0, h => simp [demoRel] at h
    | 1, h => simp [demoRel] at h; obtain ⟨rfl, rfl⟩ := h; simp [demoRel]
    | 2, h => simp [demoRel] at h
    | g+3, h => simp [demoRel] at h
  · intro k k' i h1 h2
    by_cases hk : k = 3 <;> by_cases hk' : k' = 3 <;> simp_all [demoRel]
  · intro k i h
    by_cases hk : k = 3 <;> simp_all [demoRel]

/-- the manager is blocked in the token send of the hand-over that follows `demoRel`. -/
theorem demoSendTok : ∃ (s : St) (i : Iid), Inv s ∧ s.mgr = .sendTok i 3 false :=
  ⟨_, _, inv_step _ _ demoRel_inv (Step.mgrRelHand demoRel 3 rfl (by decide)), rfl⟩

end Mx
