import Sessions.Mutex.Indep
/-! C14: "no waiter is forgotten when the holder releases … and exactly one waiter is admitted per release".

`BusyRun s0 s` is any execution fragment all of whose steps start in a state with a busy manager: it follows the
manager from the moment it has received a message until (at the latest) the moment it is back in its `select`, with
arbitrary steps of arbitrary goroutines interleaved.

* `release_admits_exactly_one` – the manager has received a release for `k` and at least one goroutine is waiting
  (`1 < L s0 k`, i.e. `locks ≥ 2` before the decrement).  In *every* such run that ends with the manager idle there is
  exactly one goroutine `g` that went from "waiting on `k`" (at the time of the release) to `holding k`; the holding
  status of every other goroutine is what it was; `k` had no holder at the release and has exactly one at the end; the
  number of registered goroutines is unchanged, so the number of waiters dropped by exactly one.
* `release_without_waiters_admits_none` – `L s0 k ≤ 1` (last holder leaves, or spurious Unlock): nobody's holding or
  waiting status changes.
* `busyRun_to_idle` – such runs exist from every invariant state (non-vacuity of the hypotheses, and "the waiter is not
  forgotten": the hand-over is always enabled). -/
namespace Mx

/-- goroutine is between Lock-return and the delivery of its Unlock, on whatever key. -/
def isHoldAny : Option GPc → Bool
  | some (.holding _) => true
  | some (.sendRel _) => true
  | _ => false

/-- goroutine is registered on `k` and waiting for the token. -/
def isWait (k : Key) : Option GPc → Bool
  | some (.needItem k') => k' == k
  | some (.recvTok _ k') => k' == k
  | _ => false

inductive BusyRun (s : St) : St → Prop where
  | refl : BusyRun s s
  | step (b : Bool) (s1 s2 : St) : BusyRun s s1 → s1.mgr ≠ .idle → Step b s1 s2 → BusyRun s s2

theorem BusyRun.inv {s s' : St} (h : BusyRun s s') (hi : Inv s) : Inv s' := by
  induction h with
  | refl => exact hi
  | step b s1 s2 _ _ hs ih => exact inv_step _ _ ih hs

theorem BusyRun.head {b : Bool} {s s1 s2 : St} (hm : s.mgr ≠ .idle) (hs : Step b s s1) (h : BusyRun s1 s2) :
    BusyRun s s2 := by
  induction h with
  | refl => exact BusyRun.step b s s1 BusyRun.refl hm hs
  | step b' sa sb _ hma hsa ih => exact BusyRun.step b' sa sb ih hma hsa

/-- every goroutine has the same holding status and the same waiting-on-`k` status in `s` as in `s0`. -/
def Same (k : Key) (s0 s : St) : Prop :=
  ∀ j : Nat, isHoldAny s.pcs[j]? = isHoldAny s0.pcs[j]? ∧ isWait k s.pcs[j]? = isWait k s0.pcs[j]?

/-- a step that moves one goroutine between two pcs of equal status and leaves manager and `locks` alone. -/
def Quiet (s s' : St) : Prop :=
  s'.mgr = s.mgr ∧ (∀ k, L s' k = L s k) ∧
  ∃ (g : Nat) (old new : GPc), s.pcs[g]? = some old ∧ s'.pcs = s.pcs.set g new ∧
    isHoldAny (some old) = isHoldAny (some new) ∧ ∀ k, isWait k (some old) = isWait k (some new)

theorem same_quiet (k : Key) (s0 s s' : St) (hq : Quiet s s') (hs : Same k s0 s) : Same k s0 s' := by
  obtain ⟨_, _, g, old, new, hg, hp, h1, h2⟩ := hq
  obtain ⟨hgl, _⟩ := List.getElem?_eq_some_iff.1 hg
  intro j
  by_cases hj : g = j
  · subst hj
    have e : s'.pcs[g]? = some new := by rw [hp]; exact getElem?_set_self' hgl
    have := hs g
    rw [hg] at this
    rw [e, ← h1, ← h2 k]; exact this
  · have e : s'.pcs[j]? = s.pcs[j]? := by rw [hp, List.getElem?_set]; simp [hj]
    rw [e]; exact hs j

theorem same_pcs (k : Key) (s0 s s' : St) (hp : s'.pcs = s.pcs) (hs : Same k s0 s) : Same k s0 s' := by
  intro j; rw [hp]; exact hs j

theorem quiet_callLock (s : St) (g : Nat) (k : Key) (h : s.pcs[g]? = some .idle) :
    Quiet s { s with pcs := s.pcs.set g (.sendAcq k) } :=
  ⟨rfl, fun _ => rfl, g, _, _, h, rfl, rfl, fun _ => rfl⟩

theorem quiet_callUnlock (s : St) (g : Nat) (k : Key) (h : s.pcs[g]? = some (.holding k)) :
    Quiet s { s with pcs := s.pcs.set g (.sendRel k) } :=
  ⟨rfl, fun _ => rfl, g, _, _, h, rfl, rfl, fun _ => rfl⟩

theorem quiet_callUnlockSpur (s : St) (g : Nat) (k : Key) (h : s.pcs[g]? = some .idle) :
    Quiet s { s with pcs := s.pcs.set g (.sendRelSpur k) } :=
  ⟨rfl, fun _ => rfl, g, _, _, h, rfl, rfl, fun _ => rfl⟩

theorem quiet_gGetItem (s : St) (g : Nat) (k : Key) (hi : Inv s) (h : s.pcs[g]? = some (.needItem k)) :
    Quiet s { (getItem s k).2 with pcs := s.pcs.set g (.recvTok (getItem s k).1 k) } :=
  ⟨getItem_mgr s k, fun k' => getItem_L s k k' hi.2, g, _, _, h, rfl, rfl, fun _ => rfl⟩

/-- the manager's view of `L` after `setLocks` on the item of `k`. -/
theorem L_setLocks_getItem (s : St) (k : Key) (v : Nat) (m : MPc) :
    L { setLocks (getItem s k).2 (getItem s k).1 v with mgr := m } k = v := by
  show L (setLocks (getItem s k).2 (getItem s k).1 v) k = v
  rw [L_setLocks]; simp [getItem_table_self]

/-! ### Release with waiters -/

/-- where the manager is within the processing of a release of `k` that started in `s0`. -/
def HandPhase (k : Key) (s0 s : St) : Prop :=
  (s.mgr = .rel k ∧ L s k = L s0 k ∧ Same k s0 s) ∨
  (∃ i, s.mgr = .sendTok i k false ∧ L s k + 1 = L s0 k ∧ Same k s0 s) ∨
  (s.mgr = .idle ∧ L s k + 1 = L s0 k ∧
    ∃ g : Nat, isWait k s0.pcs[g]? = true ∧ s.pcs[g]? = some (GPc.holding k) ∧
      ∀ j : Nat, j ≠ g → isHoldAny s.pcs[j]? = isHoldAny s0.pcs[j]?)

theorem handPhase_quiet (k : Key) (s0 s s' : St) (hq : Quiet s s') (hph : HandPhase k s0 s) (hm : s.mgr ≠ .idle) :
    HandPhase k s0 s' := by
  rcases hph with ⟨h1, h2, h3⟩ | ⟨i, h1, h2, h3⟩ | ⟨h1, _⟩
  · exact Or.inl ⟨by rw [hq.1]; exact h1, by rw [hq.2.1]; exact h2, same_quiet k s0 s s' hq h3⟩
  · exact Or.inr (Or.inl ⟨i, by rw [hq.1]; exact h1, by rw [hq.2.1]; exact h2, same_quiet k s0 s s' hq h3⟩)
  · exact absurd h1 hm

theorem handPhase_step {b : Bool} (k : Key) (s0 s s' : St) (hi : Inv s) (hw : 1 < L s0 k) (hph : HandPhase k s0 s)
    (hm : s.mgr ≠ .idle) (hs : Step b s s') : HandPhase k s0 s' := by
  cases hs
  case callLock g k1 h => exact handPhase_quiet k s0 s _ (quiet_callLock s g k1 h) hph hm
  case callUnlock g k1 h => exact handPhase_quiet k s0 s _ (quiet_callUnlock s g k1 h) hph hm
  case callUnlockSpur g k1 h => exact handPhase_quiet k s0 s _ (quiet_callUnlockSpur s g k1 h) hph hm
  case gGetItem g k1 h => exact handPhase_quiet k s0 s _ (quiet_gGetItem s g k1 hi h) hph hm
  case rdvAcq g k1 h hm' => exact absurd hm' hm
  case rdvRel g k1 h hm' => exact absurd hm' hm
  case rdvRelSpur g k1 h hm' hfree => exact absurd hm' hm
  case purge k1 i hm' ht h0 => exact absurd hm' hm
  case mgrAcqGrant k1 hm' h0 =>
    rcases hph with ⟨h1, _⟩ | ⟨i, h1, _⟩ | ⟨h1, _⟩ <;> rw [h1] at hm' <;> cases hm'
  case mgrAcqQueue k1 hm' h0 =>
    rcases hph with ⟨h1, _⟩ | ⟨i, h1, _⟩ | ⟨h1, _⟩ <;> rw [h1] at hm' <;> cases hm'
  case mgrRelNone k1 hm' h0 =>
    rcases hph with ⟨h1, h2, _⟩ | ⟨i, h1, _⟩ | ⟨h1, _⟩ <;> rw [h1] at hm' <;> cases hm'
    rw [getItem_locks_eq_L] at h0; omega
  case mgrRelLast k1 hm' h0 =>
    rcases hph with ⟨h1, h2, _⟩ | ⟨i, h1, _⟩ | ⟨h1, _⟩ <;> rw [h1] at hm' <;> cases hm'
    rw [getItem_locks_eq_L] at h0; omega
  case mgrRelHand k1 hm' h0 =>
    rcases hph with ⟨h1, h2, h3⟩ | ⟨i, h1, _⟩ | ⟨h1, _⟩ <;> rw [h1] at hm' <;> cases hm'
    refine Or.inr (Or.inl ⟨(getItem s k).1, rfl, ?_, same_pcs k s0 _ _ (getItem_pcs s k) h3⟩)
    rw [L_setLocks_getItem]
    rw [getItem_locks_eq_L] at h0 ⊢
    omega
  case rdvTok g i k1 k2 b' h hm' =>
    rcases hph with ⟨h1, _⟩ | ⟨i0, h1, h2, h3⟩ | ⟨h1, _⟩ <;> rw [h1] at hm' <;> cases hm'
    -- the receiver is parked on the item of `k`, hence on `k`
    have ht : s.table k1 = some i := hi.2.1 g i k1 h
    have ht' : s.table k = some i := sendTok_table s i k false h1 hi
    have hkk : k1 = k := hi.2.2.1 k1 k i ht ht'
    subst hkk
    obtain ⟨hgl, _⟩ := List.getElem?_eq_some_iff.1 h
    refine Or.inr (Or.inr ⟨rfl, h2, g, ?_, getElem?_set_self' hgl, fun j hj => ?_⟩)
    · have := (h3 g).2
      rw [h] at this
      rw [← this]; simp [isWait]
    · have e : (s.pcs.set g (GPc.holding k1))[j]? = s.pcs[j]? := by
        rw [List.getElem?_set]
        have : ¬ g = j := fun e => hj e.symm
        simp [this]
      show isHoldAny (s.pcs.set g (GPc.holding k1))[j]? = _
      rw [e]; exact (h3 j).1

theorem handPhase_run (k : Key) (s0 s : St) (hi : Inv s0) (hw : 1 < L s0 k) (hm : s0.mgr = .rel k)
    (hrun : BusyRun s0 s) : HandPhase k s0 s := by
  induction hrun with
  | refl => exact Or.inl ⟨hm, rfl, fun _ => ⟨rfl, rfl⟩⟩
  | step b s1 s2 hr hm1 hs ih => exact handPhase_step k _ s1 s2 (hr.inv hi) hw ih hm1 hs

/-- **Exactly one waiter is admitted per release.**  `s0`: the manager has just received a release for `k` and at least
one goroutine is waiting on `k`.  For every run of the system up to the manager's return to its `select`:
one goroutine `g` that was waiting on `k` in `s0` holds `k` at the end; nobody else's holding status changed (nobody
else was admitted, on any key, and no holder was dropped); `k` went from 0 holders to exactly 1; `locks` was decremented
once and the number of registered goroutines did not change (the waiters lost exactly `g`). -/
theorem release_admits_exactly_one (s0 s : St) (k : Key) (hi : Inv s0) (hm : s0.mgr = .rel k) (hw : 1 < L s0 k)
    (hrun : BusyRun s0 s) (hend : s.mgr = .idle) :
    ∃ g : Nat, isWait k s0.pcs[g]? = true ∧ s.pcs[g]? = some (GPc.holding k) ∧
      (∀ j : Nat, j ≠ g → isHoldAny s.pcs[j]? = isHoldAny s0.pcs[j]?) ∧
      hold s0 k = 0 ∧ hold s k = 1 ∧ L s k + 1 = L s0 k ∧ reg s k = reg s0 k := by
  have hph := handPhase_run k s0 s hi hw hm hrun
  rcases hph with ⟨h1, _⟩ | ⟨i, h1, _⟩ | ⟨_, hL, g, hg1, hg2, hg3⟩
  · rw [h1] at hend; cases hend
  · rw [h1] at hend; cases hend
  · have hk0 := hi.1 k
    unfold InvK at hk0; rw [hm] at hk0; unfold InvKF at hk0
    simp only [if_true] at hk0
    have hk1 := (hrun.inv hi).1 k
    unfold InvK at hk1; rw [hend] at hk1; unfold InvKF at hk1
    refine ⟨g, hg1, hg2, hg3, hk0.2.1, ?_, hL, ?_⟩
    · apply hk1.2.2; omega
    · omega

/-! ### Release without waiters (last holder leaves, or spurious Unlock) -/

def LastPhase (k : Key) (s0 s : St) : Prop :=
  (s.mgr = .rel k ∧ L s k = L s0 k ∧ Same k s0 s) ∨ (s.mgr = .idle ∧ L s k = 0 ∧ Same k s0 s)

theorem lastPhase_step {b : Bool} (k : Key) (s0 s s' : St) (hi : Inv s) (hw : L s0 k ≤ 1) (hph : LastPhase k s0 s)
    (hm : s.mgr ≠ .idle) (hs : Step b s s') : LastPhase k s0 s' := by
  have hquiet : ∀ s', Quiet s s' → LastPhase k s0 s' := by
    intro s' hq
    rcases hph with ⟨h1, h2, h3⟩ | ⟨h1, _⟩
    · exact Or.inl ⟨by rw [hq.1]; exact h1, by rw [hq.2.1]; exact h2, same_quiet k s0 s s' hq h3⟩
    · exact absurd h1 hm
  cases hs
  case callLock g k1 h => exact hquiet _ (quiet_callLock s g k1 h)
  case callUnlock g k1 h => exact hquiet _ (quiet_callUnlock s g k1 h)
  case callUnlockSpur g k1 h => exact hquiet _ (quiet_callUnlockSpur s g k1 h)
  case gGetItem g k1 h => exact hquiet _ (quiet_gGetItem s g k1 hi h)
  case rdvAcq g k1 h hm' => exact absurd hm' hm
  case rdvRel g k1 h hm' => exact absurd hm' hm
  case rdvRelSpur g k1 h hm' hfree => exact absurd hm' hm
  case purge k1 i hm' ht h0 => exact absurd hm' hm
  case mgrAcqGrant k1 hm' h0 => rcases hph with ⟨h1, _⟩ | ⟨h1, _⟩ <;> rw [h1] at hm' <;> cases hm'
  case mgrAcqQueue k1 hm' h0 => rcases hph with ⟨h1, _⟩ | ⟨h1, _⟩ <;> rw [h1] at hm' <;> cases hm'
  case rdvTok g i k1 k2 b' h hm' => rcases hph with ⟨h1, _⟩ | ⟨h1, _⟩ <;> rw [h1] at hm' <;> cases hm'
  case mgrRelNone k1 hm' h0 =>
    rcases hph with ⟨h1, h2, h3⟩ | ⟨h1, _⟩ <;> rw [h1] at hm' <;> cases hm'
    refine Or.inr ⟨rfl, ?_, same_pcs k s0 _ _ (getItem_pcs s k) h3⟩
    show L (getItem s k).2 k = 0
    rw [getItem_L s k k hi.2, ← getItem_locks_eq_L]; exact h0
  case mgrRelLast k1 hm' h0 =>
    rcases hph with ⟨h1, h2, h3⟩ | ⟨h1, _⟩ <;> rw [h1] at hm' <;> cases hm'
    exact Or.inr ⟨rfl, L_setLocks_getItem s k 0 .idle, same_pcs k s0 _ _ (getItem_pcs s k) h3⟩
  case mgrRelHand k1 hm' h0 =>
    rcases hph with ⟨h1, h2, h3⟩ | ⟨h1, _⟩ <;> rw [h1] at hm' <;> cases hm'
    rw [getItem_locks_eq_L] at h0; omega

theorem lastPhase_run (k : Key) (s0 s : St) (hi : Inv s0) (hw : L s0 k ≤ 1) (hm : s0.mgr = .rel k)
    (hrun : BusyRun s0 s) : LastPhase k s0 s := by
  induction hrun with
  | refl => exact Or.inl ⟨hm, rfl, fun _ => ⟨rfl, rfl⟩⟩
  | step b s1 s2 hr hm1 hs ih => exact lastPhase_step k _ s1 s2 (hr.inv hi) hw ih hm1 hs

/-- a release that finds `locks ≤ 1` (the last holder leaves, or nobody held the key) admits nobody: at the manager's
return to its `select` every goroutine has the holding status and waiting status it had, and `locks` of `k` is 0. -/
theorem release_without_waiters_admits_none (s0 s : St) (k : Key) (hi : Inv s0) (hm : s0.mgr = .rel k)
    (hw : L s0 k ≤ 1) (hrun : BusyRun s0 s) (hend : s.mgr = .idle) :
    Same k s0 s ∧ L s k = 0 := by
  have hph := lastPhase_run k s0 s hi hw hm hrun
  rcases hph with ⟨h1, _⟩ | ⟨_, h2, h3⟩
  · rw [h1] at hend; cases hend
  · exact ⟨h3, h2⟩

/-! ### Such runs exist -/

/-- from every invariant state with a busy manager there is a run to a state with an idle manager (the waiter that
is to be admitted is never "forgotten": the token send always finds its receiver). -/
theorem busyRun_to_idle (s : St) (hi : Inv s) : ∃ s', BusyRun s s' ∧ s'.mgr = .idle := by
  have hfin : ∀ (s : St) (i : Iid) (k : Key) (b : Bool), Inv s → s.mgr = .sendTok i k b →
      ∃ s', BusyRun s s' ∧ s'.mgr = .idle := by
    intro s i k b hi hm
    have hne : s.mgr ≠ .idle := by rw [hm]; intro h; cases h
    obtain ⟨_, ht, g, hg | hg⟩ := sendTok_partner s i k b hi hm
    · obtain ⟨hgl, _⟩ := List.getElem?_eq_some_iff.1 hg
      have st1 := Step.gGetItem s g k hg
      rw [getItem_some ht] at st1
      generalize hs1 : ({ s with pcs := s.pcs.set g (.recvTok i k) } : St) = s1 at st1
      have e1p : s1.pcs = s.pcs.set g (.recvTok i k) := by rw [← hs1]
      have e1m : s1.mgr = .sendTok i k b := by rw [← hs1]; exact hm
      have hne1 : s1.mgr ≠ .idle := by rw [e1m]; intro h; cases h
      have hg1 : s1.pcs[g]? = some (.recvTok i k) := by rw [e1p]; exact getElem?_set_self' hgl
      have st2 := Step.rdvTok s1 g i k k b hg1 e1m
      exact ⟨_, BusyRun.head hne st1 (BusyRun.head hne1 st2 (BusyRun.refl)), rfl⟩
    · have st2 := Step.rdvTok s g i k k b hg hm
      exact ⟨_, BusyRun.head hne st2 (BusyRun.refl), rfl⟩
  cases hm : s.mgr with
  | idle => exact ⟨s, BusyRun.refl, hm⟩
  | sendTok i k b => exact hfin s i k b hi hm
  | acq k =>
    have hne : s.mgr ≠ .idle := by rw [hm]; intro h; cases h
    by_cases h0 : (getItem s k).2.locks (getItem s k).1 = 0
    · have st := Step.mgrAcqGrant s k hm h0
      obtain ⟨s', hx, hm'⟩ := hfin _ _ k true (inv_step _ _ hi st) rfl
      exact ⟨s', BusyRun.head hne st hx, hm'⟩
    · exact ⟨_, BusyRun.head hne (Step.mgrAcqQueue s k hm h0) (BusyRun.refl), rfl⟩
  | rel k =>
    have hne : s.mgr ≠ .idle := by rw [hm]; intro h; cases h
    by_cases h0 : (getItem s k).2.locks (getItem s k).1 = 0
    · exact ⟨_, BusyRun.head hne (Step.mgrRelNone s k hm h0) (BusyRun.refl), rfl⟩
    · by_cases h1 : (getItem s k).2.locks (getItem s k).1 = 1
      · exact ⟨_, BusyRun.head hne (Step.mgrRelLast s k hm h1) (BusyRun.refl), rfl⟩
      · have st := Step.mgrRelHand s k hm (by omega)
        obtain ⟨s', hx, hm'⟩ := hfin _ _ k false (inv_step _ _ hi st) rfl
        exact ⟨s', BusyRun.head hne st hx, hm'⟩

/-- non-vacuity: from `demoRel` (two waiters on key 3) a run exists, and it admits exactly one of them. -/
example : ∃ s, BusyRun demoRel s ∧ s.mgr = .idle ∧ hold s 3 = 1 ∧ L s 3 = 2 := by
  obtain ⟨s, hrun, hend⟩ := busyRun_to_idle demoRel demoRel_inv
  have hL : L demoRel 3 = 3 := by decide
  obtain ⟨g, _, _, _, _, h1, h2, _⟩ :=
    release_admits_exactly_one demoRel s 3 demoRel_inv rfl (by rw [hL]; omega) hrun hend
  exact ⟨s, hrun, hend, h1, by omega⟩

/-- non-vacuity for the no-waiter case: the pending spurious Unlock of key 7 in `demoBusy`. -/
example : ∃ s0 s, Inv s0 ∧ s0.mgr = .rel 7 ∧ L s0 7 ≤ 1 ∧ BusyRun s0 s ∧ s.mgr = .idle := by
  obtain ⟨s1, s2, s3, st1, st2, st3, _, _, _, _, e2p, e2m, e2l, e2t, _⟩ :=
    spurious_unlock_noop demoBusy 1 7 demoBusy_inv rfl rfl (by decide)
  have hi2 := inv_step _ _ (inv_step _ _ demoBusy_inv st1) st2
  obtain ⟨s, hrun, hend⟩ := busyRun_to_idle s2 hi2
  refine ⟨s2, s, hi2, e2m, ?_, hrun, hend⟩
  unfold L; rw [e2t, e2l]; decide

end Mx
