import Sessions.Mutex.Indep
import Sessions.Mutex.Exec
/-! The executable checker `Mx.Exec.mgrEvent` agrees with the manager of the transition system.

`Abs m s` relates an abstract checker state `m` to a protocol state `s`: for every key the checker's `locks` equals
the protocol's `locks`, counting the increment the Go `acquire` case performs *after* its (blocking) token send as
already done (the checker logs one `acq` event for the whole case).

* `sim_mgrAcqGrant` … `sim_mgrRelHand` – each decision step of the LTS manager is a conforming event of the checker, with
  exactly the `locksBefore`/`granted`/`woke` fields the Go loop would log;
* `sim_purge` – a modelled purge is a conforming `purgeDel k 0` (if the checker knows the entry) and in any case
  leaves the relation intact;
* `sim_step` – every step of the LTS is matched by at most one conforming event;
* `reach_conforms` – every reachable protocol state is the image of a log accepted by `checkTrace`: the checker raises
  no false alarm on any behaviour of the model;
* `excl_sim_step`, `reach_exclusion_log` – the same for the call-log monitor `checkExclusion` (`rdvTok` = `lockRet`,
  `callUnlock` = `unlockCall`): the call log of every behaviour of the model is accepted. -/
namespace Mx
open Exec

/-- increment still owed by the manager: it is blocked in the token send of the `acquire` case. -/
def pend (m : MPc) (k : Key) : Nat :=
  match m with
  | .sendTok _ k' true => if k' = k then 1 else 0
  | _ => 0

def absL (s : St) (k : Key) : Nat := L s k + pend s.mgr k

def Abs (m : MState) (s : St) : Prop := ∀ k, m.locksOf k = absL s k

theorem L_mgr_set (s : St) (k : Key) (v : Nat) (m' : MPc) (k0 : Key) (hp : InvPtr s) :
    L { setLocks (getItem s k).2 (getItem s k).1 v with mgr := m' } k0 = if k0 = k then v else L s k0 := by
  show L (setLocks (getItem s k).2 (getItem s k).1 v) k0 = _
  rw [L_setLocks]
  by_cases hk : k0 = k
  · subst hk; simp [getItem_table_self]
  · have hp1 := getItem_invPtr s k hp
    have hiff := table_eq_iff _ hp1 k k0 _ (getItem_table_self s k)
    have : ¬ (getItem s k).2.table k0 = some (getItem s k).1 := fun h => hk (hiff.1 h)
    simp [hk, this, getItem_L s k k0 hp]

theorem abs_of_shape (m : MState) (s s' : St) (k v : Nat) (ha : Abs m s)
    (hs' : ∀ k0, absL s' k0 = if k0 = k then v else absL s k0) : Abs (m.setLocks k v) s' := by
  intro k0
  rw [locksOf_setLocks, hs']
  by_cases hk : k0 = k <;> simp [hk, ha k0]

theorem sim_mgrAcqGrant (s : St) (k : Key) (m : MState) (hi : Inv s) (ha : Abs m s) (hm : s.mgr = .acq k)
    (h0 : (getItem s k).2.locks (getItem s k).1 = 0) :
    ∃ m', mgrEvent m (.acq k 0 true) = some m' ∧
      Abs m' { (getItem s k).2 with mgr := .sendTok (getItem s k).1 k true } := by
  rw [getItem_locks_eq_L] at h0
  have hmk : m.locksOf k = 0 := by rw [ha k]; simp [absL, pend, hm, h0]
  refine ⟨m.setLocks k (0 + 1), by simp [mgrEvent, acqEvent, hmk], abs_of_shape m s _ k _ ha fun k0 => ?_⟩
  show L (getItem s k).2 k0 + pend (.sendTok (getItem s k).1 k true) k0 = _
  rw [getItem_L s k k0 hi.2]
  by_cases hk : k0 = k
  · subst hk; simp [pend, h0]
  · have : ¬ k = k0 := fun e => hk e.symm
    simp [pend, hk, this, absL, hm]

theorem sim_mgrAcqQueue (s : St) (k : Key) (m : MState) (hi : Inv s) (ha : Abs m s) (hm : s.mgr = .acq k)
    (h0 : (getItem s k).2.locks (getItem s k).1 ≠ 0) :
    ∃ m', mgrEvent m (.acq k (L s k) false) = some m' ∧
      Abs m' { setLocks (getItem s k).2 (getItem s k).1 ((getItem s k).2.locks (getItem s k).1 + 1) with mgr := .idle } := by
  rw [getItem_locks_eq_L] at h0 ⊢
  have hmk : m.locksOf k = L s k := by rw [ha k]; simp [absL, pend, hm]
  refine ⟨m.setLocks k (L s k + 1), by simp [mgrEvent, acqEvent, hmk, h0], abs_of_shape m s _ k _ ha fun k0 => ?_⟩
  show L _ k0 + pend .idle k0 = _
  rw [L_mgr_set s k _ _ k0 hi.2]
  by_cases hk : k0 = k
  · subst hk; simp [pend]
  · simp [pend, hk, absL, hm]

theorem sim_mgrRelNone (s : St) (k : Key) (m : MState) (hi : Inv s) (ha : Abs m s) (hm : s.mgr = .rel k)
    (h0 : (getItem s k).2.locks (getItem s k).1 = 0) :
    ∃ m', mgrEvent m (.rel k 0 false) = some m' ∧ Abs m' { (getItem s k).2 with mgr := .idle } := by
  rw [getItem_locks_eq_L] at h0
  have hmk : m.locksOf k = 0 := by rw [ha k]; simp [absL, pend, hm, h0]
  refine ⟨m.setLocks k (0 - 1), by simp [mgrEvent, relEvent, hmk], abs_of_shape m s _ k _ ha fun k0 => ?_⟩
  show L (getItem s k).2 k0 + pend .idle k0 = _
  rw [getItem_L s k k0 hi.2]
  by_cases hk : k0 = k
  · subst hk; simp [pend, h0]
  · simp [pend, hk, absL, hm]

theorem sim_mgrRelLast (s : St) (k : Key) (m : MState) (hi : Inv s) (ha : Abs m s) (hm : s.mgr = .rel k)
    (h0 : (getItem s k).2.locks (getItem s k).1 = 1) :
    ∃ m', mgrEvent m (.rel k 1 false) = some m' ∧
      Abs m' { setLocks (getItem s k).2 (getItem s k).1 0 with mgr := .idle } := by
  rw [getItem_locks_eq_L] at h0
  have hmk : m.locksOf k = 1 := by rw [ha k]; simp [absL, pend, hm, h0]
  refine ⟨m.setLocks k (1 - 1), by simp [mgrEvent, relEvent, hmk], abs_of_shape m s _ k _ ha fun k0 => ?_⟩
  show L _ k0 + pend .idle k0 = _
  rw [L_mgr_set s k _ _ k0 hi.2]
  by_cases hk : k0 = k
  · subst hk; simp [pend]
  · simp [pend, hk, absL, hm]

theorem sim_mgrRelHand (s : St) (k : Key) (m : MState) (hi : Inv s) (ha : Abs m s) (hm : s.mgr = .rel k)
    (h0 : 1 < (getItem s k).2.locks (getItem s k).1) :
    ∃ m', mgrEvent m (.rel k (L s k) true) = some m' ∧
      Abs m' { setLocks (getItem s k).2 (getItem s k).1 ((getItem s k).2.locks (getItem s k).1 - 1) with
               mgr := .sendTok (getItem s k).1 k false } := by
  rw [getItem_locks_eq_L] at h0 ⊢
  have hmk : m.locksOf k = L s k := by rw [ha k]; simp [absL, pend, hm]
  refine ⟨m.setLocks k (L s k - 1), by simp [mgrEvent, relEvent, hmk, h0], abs_of_shape m s _ k _ ha fun k0 => ?_⟩
  show L _ k0 + pend (.sendTok (getItem s k).1 k false) k0 = _
  rw [L_mgr_set s k _ _ k0 hi.2]
  by_cases hk : k0 = k
  · subst hk; simp [pend]
  · simp [pend, hk, absL, hm]

/-- a modelled purge changes no `locks` value, so the relation survives with the checker state unchanged; if the
checker knows the entry, `purgeDel k 0` conforms and the relation holds for the checker's new state as well. -/
theorem sim_purge (s : St) (k : Key) (i : Iid) (m : MState) (hi : Inv s) (ha : Abs m s) (hm : s.mgr = .idle)
    (ht : s.table k = some i) (h0 : s.locks i = 0) :
    Abs m { s with table := fun k' => if k' = k then none else s.table k' } ∧
    ∀ l, lookup m.table k = some l →
      l = 0 ∧ ∃ m', mgrEvent m (.purgeDel k 0) = some m' ∧
        Abs m' { s with table := fun k' => if k' = k then none else s.table k' } := by
  obtain ⟨_, _, hL⟩ := purge_only_free s k i hi hm ht h0
  have hLk : L s k = 0 := by rw [L_of_table ht]; exact h0
  have ha' : Abs m { s with table := fun k' => if k' = k then none else s.table k' } := by
    intro k0; rw [ha k0]; unfold absL; rw [hL k0]
  refine ⟨ha', fun l hl => ?_⟩
  have hl0 : l = 0 := by
    have := ha k
    unfold MState.locksOf at this
    rw [hl] at this
    simp [absL, pend, hm, hLk] at this
    exact this
  subst hl0
  refine ⟨rfl, ⟨erase m.table k⟩, by simp [mgrEvent, purgeEvent, hl], fun k0 => ?_⟩
  rw [← ha' k0]
  unfold MState.locksOf
  rw [lookup_erase]
  by_cases hk : k0 = k
  · subst hk; simp [hl]
  · simp [hk]

theorem runTrace_snoc (m0 m m' : MState) (es : List Ev) (e : Ev) (h : runTrace m0 es = some m)
    (he : mgrEvent m e = some m') : runTrace m0 (es ++ [e]) = some m' := by
  induction es generalizing m0 with
  | nil =>
    simp only [runTrace, Option.some.injEq] at h
    subst h
    simp [runTrace, he]
  | cons x r ih =>
    simp only [List.cons_append, runTrace] at h ⊢
    cases hx : mgrEvent m0 x with
    | none => rw [hx] at h; cases h
    | some m1 => rw [hx] at h; exact ih m1 h

/-- every step of the protocol is matched by at most one conforming checker event. -/
theorem sim_step {b : Bool} (s s' : St) (m : MState) (hi : Inv s) (ha : Abs m s) (hs : Step b s s') :
    Abs m s' ∨ ∃ e m', mgrEvent m e = some m' ∧ Abs m' s' := by
  cases hs
  case callLock g k h => exact Or.inl ha
  case callUnlock g k h => exact Or.inl ha
  case callUnlockSpur g k h => exact Or.inl ha
  case rdvAcq g k h hm =>
    refine Or.inl fun k0 => ?_
    rw [ha k0]; show L s k0 + pend s.mgr k0 = L s k0 + pend (.acq k) k0
    rw [hm]; rfl
  case rdvRel g k h hm =>
    refine Or.inl fun k0 => ?_
    rw [ha k0]; show L s k0 + pend s.mgr k0 = L s k0 + pend (.rel k) k0
    rw [hm]; rfl
  case rdvRelSpur g k h hm hfree =>
    refine Or.inl fun k0 => ?_
    rw [ha k0]; show L s k0 + pend s.mgr k0 = L s k0 + pend (.rel k) k0
    rw [hm]; rfl
  case gGetItem g k h =>
    refine Or.inl fun k0 => ?_
    rw [ha k0]; show L s k0 + pend s.mgr k0 = L (getItem s k).2 k0 + pend (getItem s k).2.mgr k0
    rw [getItem_L s k k0 hi.2, getItem_mgr]
  case rdvTok g i k k' b' h hm =>
    refine Or.inl fun k0 => ?_
    rw [ha k0]
    have ht' : s.table k' = some i := sendTok_table s i k' b' hm hi
    have hiff := table_eq_iff s hi.2 k' k0 i ht'
    cases b'
    · show L s k0 + pend s.mgr k0 = L s k0 + pend .idle k0
      rw [hm]; rfl
    · show L s k0 + pend s.mgr k0 = L (setLocks s i (s.locks i + 1)) k0 + pend .idle k0
      rw [hm, L_setLocks]
      by_cases hk : k0 = k'
      · subst hk; simp [pend, ht', L_of_table ht']
      · have h1 : ¬ s.table k0 = some i := fun hh => hk (hiff.1 hh)
        have h2 : ¬ k' = k0 := fun e => hk e.symm
        simp [pend, h1, h2]
  case mgrAcqGrant k hm h0 =>
    obtain ⟨m', h1, h2⟩ := sim_mgrAcqGrant s k m hi ha hm h0
    exact Or.inr ⟨_, m', h1, h2⟩
  case mgrAcqQueue k hm h0 =>
    obtain ⟨m', h1, h2⟩ := sim_mgrAcqQueue s k m hi ha hm h0
    exact Or.inr ⟨_, m', h1, h2⟩
  case mgrRelNone k hm h0 =>
    obtain ⟨m', h1, h2⟩ := sim_mgrRelNone s k m hi ha hm h0
    exact Or.inr ⟨_, m', h1, h2⟩
  case mgrRelLast k hm h0 =>
    obtain ⟨m', h1, h2⟩ := sim_mgrRelLast s k m hi ha hm h0
    exact Or.inr ⟨_, m', h1, h2⟩
  case mgrRelHand k hm h0 =>
    obtain ⟨m', h1, h2⟩ := sim_mgrRelHand s k m hi ha hm h0
    exact Or.inr ⟨_, m', h1, h2⟩
  case purge k i hm ht h0 => exact Or.inl (sim_purge s k i m hi ha hm ht h0).1

theorem abs_init (n : Nat) : Abs MState.empty (St.init n) := by
  intro k; simp [MState.locksOf, MState.empty, lookup, absL, L, St.init, pend]

/-- the checker accepts a manager log of every behaviour of the model: each reachable state is related to the
checker state reached by some trace on which `checkTrace` reports nothing. -/
theorem reach_conforms (n : Nat) (s : St) (hr : Reach n s) :
    ∃ (es : List Ev) (m : MState), checkTrace es = none ∧ runTrace MState.empty es = some m ∧ Abs m s := by
  have : ∃ (es : List Ev) (m : MState), runTrace MState.empty es = some m ∧ Abs m s := by
    induction hr with
    | init => exact ⟨[], MState.empty, rfl, abs_init n⟩
    | step b s s' hr hs ih =>
      obtain ⟨es, m, h1, h2⟩ := ih
      rcases sim_step s s' m (reach_inv n s hr) h2 hs with h | ⟨e, m', he, h⟩
      · exact ⟨es, m, h1, h⟩
      · exact ⟨es ++ [e], m', runTrace_snoc _ _ _ _ _ h1 he, h⟩
  obtain ⟨es, m, h1, h2⟩ := this
  exact ⟨es, m, (checkTrace_none_iff es).2 ⟨m, h1⟩, h1, h2⟩

example : ∃ (s : St) (m : MState), Inv s ∧ Abs m s ∧ s.mgr = .rel 3 ∧ 1 < (getItem s 3).2.locks (getItem s 3).1 :=
  ⟨demoRel, ⟨[(3, 3)]⟩, demoRel_inv, by
    intro k
    by_cases hk : k = 3
    · subst hk; decide
    · have : ¬ 3 = k := fun e => hk e.symm
      simp [MState.locksOf, lookup, this, absL, L, demoRel, hk, pend], rfl, by decide⟩

/-! ### The call-log monitor `checkExclusion` on behaviours of the model

`rdvTok` is the return of `Lock` (`lockRet g k`), `callUnlock` is the call of the matching `Unlock` (`unlockCall g k`). -/

/-- every holder the monitor has recorded is a goroutine between `Lock`-return and `Unlock`-call on that key. -/
def HAbs (h : List (Nat × Nat)) (s : St) : Prop :=
  ∀ (k g : Nat), lookup h k = some g → s.pcs[g]? = some (GPc.holding k)

theorem habs_pcs (h : List (Nat × Nat)) (s s' : St) (hp : s'.pcs = s.pcs) (ha : HAbs h s) : HAbs h s' := by
  intro k g hl; rw [hp]; exact ha k g hl

theorem habs_set_other (h : List (Nat × Nat)) (s s' : St) (g : Nat) (old new : GPc) (hg : s.pcs[g]? = some old)
    (hne : ∀ k, old ≠ .holding k) (hp : s'.pcs = s.pcs.set g new) (ha : HAbs h s) : HAbs h s' := by
  intro k g0 hl
  have h0 := ha k g0 hl
  have hgg : ¬ g = g0 := fun e => by
    subst e; rw [hg] at h0; exact hne k (by simpa using h0)
  rw [hp, List.getElem?_set]; simp [hgg, h0]

/-- every step of the protocol is matched by at most one call event, and the monitor accepts it. -/
theorem excl_sim_step {b : Bool} (s s' : St) (h : List (Nat × Nat)) (hi : Inv s) (ha : HAbs h s)
    (hs : Step b s s') : HAbs h s' ∨ ∃ e h', exclEvent h e = some h' ∧ HAbs h' s' := by
  cases hs
  case callLock g k hg => exact Or.inl (habs_set_other h s _ g _ _ hg (by intro k e; cases e) rfl ha)
  case callUnlockSpur g k hg => exact Or.inl (habs_set_other h s _ g _ _ hg (by intro k e; cases e) rfl ha)
  case rdvAcq g k hg hm => exact Or.inl (habs_set_other h s _ g _ _ hg (by intro k e; cases e) rfl ha)
  case rdvRel g k hg hm => exact Or.inl (habs_set_other h s _ g _ _ hg (by intro k e; cases e) rfl ha)
  case rdvRelSpur g k hg hm hfree => exact Or.inl (habs_set_other h s _ g _ _ hg (by intro k e; cases e) rfl ha)
  case gGetItem g k hg => exact Or.inl (habs_set_other h s _ g _ _ hg (by intro k e; cases e) rfl ha)
  case mgrAcqGrant k hm h0 => exact Or.inl (habs_pcs h s _ (getItem_pcs s k) ha)
  case mgrAcqQueue k hm h0 => exact Or.inl (habs_pcs h s _ (getItem_pcs s k) ha)
  case mgrRelNone k hm h0 => exact Or.inl (habs_pcs h s _ (getItem_pcs s k) ha)
  case mgrRelLast k hm h0 => exact Or.inl (habs_pcs h s _ (getItem_pcs s k) ha)
  case mgrRelHand k hm h0 => exact Or.inl (habs_pcs h s _ (getItem_pcs s k) ha)
  case purge k i hm ht h0 => exact Or.inl (habs_pcs h s _ rfl ha)
  case rdvTok g i k k' b' hg hm =>
    -- `Lock(k)` returns in `g`: the key has no holder in the model, hence none recorded by the monitor
    have ht : s.table k = some i := hi.2.1 g i k hg
    obtain ⟨hh0, ht', _⟩ := sendTok_partner s i k' b' hi hm
    have hkk : k' = k := hi.2.2.1 k' k i ht' ht
    subst hkk
    obtain ⟨hgl, _⟩ := List.getElem?_eq_some_iff.1 hg
    have hnone : lookup h k' = none := by
      cases hl : lookup h k' with
      | none => rfl
      | some g' =>
        exfalso
        have h1 := ha k' g' hl
        obtain ⟨hgl', hget'⟩ := List.getElem?_eq_some_iff.1 h1
        have : 0 < s.pcs.countP (isHold k') := countP_pos_of_getElem hgl' (by rw [hget']; simp [isHold])
        unfold hold at hh0; omega
    refine Or.inr ⟨.lockRet g k', put h k' g, by simp [exclEvent, lockRetEvent, hnone], fun k0 g0 hl => ?_⟩
    rw [lookup_put] at hl
    show (s.pcs.set g (GPc.holding k'))[g0]? = _
    by_cases hk : k0 = k'
    · subst hk
      simp only [if_true, Option.some.injEq] at hl
      subst hl
      rw [List.getElem?_set]; simp [hgl]
    · simp only [hk, if_false] at hl
      have h0 := ha k0 g0 hl
      have hgg : ¬ g = g0 := fun e => by subst e; rw [hg] at h0; cases h0
      rw [List.getElem?_set]; simp [hgg, h0]
  case callUnlock g k hg =>
    -- `g` calls `Unlock(k)`: whatever branch the monitor takes, nobody it still records is `g`
    have hother : ∀ (h' : List (Nat × Nat)),
        (∀ k0 g0, lookup h' k0 = some g0 → lookup h k0 = some g0 ∧ ¬ (k0 = k ∧ g0 = g)) →
        HAbs h' { s with pcs := s.pcs.set g (.sendRel k) } := by
      intro h' hsub k0 g0 hl
      obtain ⟨hl0, hnot⟩ := hsub k0 g0 hl
      have h0 := ha k0 g0 hl0
      have hgg : ¬ g = g0 := fun e => by
        subst e; rw [hg] at h0
        have : k = k0 := by simpa using h0
        exact hnot ⟨this.symm, rfl⟩
      show (s.pcs.set g (GPc.sendRel k))[g0]? = _
      rw [List.getElem?_set]; simp [hgg, h0]
    refine Or.inr ⟨.unlockCall g k, unlockEvent h g k, rfl, hother _ fun k0 g0 hl0 => ?_⟩
    unfold unlockEvent at hl0
    by_cases hl : lookup h k = some g
    · rw [if_pos hl, lookup_erase] at hl0
      by_cases hk : k0 = k
      · simp [hk] at hl0
      · simp only [hk, if_false] at hl0
        exact ⟨hl0, fun e => hk e.1⟩
    · rw [if_neg hl] at hl0
      refine ⟨hl0, ?_⟩
      rintro ⟨rfl, rfl⟩
      exact hl hl0

theorem runExcl_snoc (h0 h h' : List (Nat × Nat)) (es : List CallEv) (e : CallEv) (hr : runExcl h0 es = some h)
    (he : exclEvent h e = some h') : runExcl h0 (es ++ [e]) = some h' := by
  induction es generalizing h0 with
  | nil =>
    simp only [runExcl, Option.some.injEq] at hr
    subst hr
    simp [runExcl, he]
  | cons x r ih =>
    simp only [List.cons_append, runExcl] at hr ⊢
    cases hx : exclEvent h0 x with
    | none => rw [hx] at hr; cases hr
    | some h1 => rw [hx] at hr; exact ih h1 hr

/-- C13 through the monitor's eyes: the call log (`Lock` returns and `Unlock` calls) of every behaviour of the model is
accepted by `checkExclusion`. -/
theorem reach_exclusion_log (n : Nat) (s : St) (hr : Reach n s) :
    ∃ (es : List CallEv) (h : List (Nat × Nat)), checkExclusion es = none ∧ runExcl [] es = some h ∧ HAbs h s := by
  have : ∃ (es : List CallEv) (h : List (Nat × Nat)), runExcl [] es = some h ∧ HAbs h s := by
    induction hr with
    | init => exact ⟨[], [], rfl, fun k g hl => by simp [lookup] at hl⟩
    | step b s s' hr hs ih =>
      obtain ⟨es, h, h1, h2⟩ := ih
      rcases excl_sim_step s s' h (reach_inv n s hr) h2 hs with h3 | ⟨e, h', he, h3⟩
      · exact ⟨es, h, h1, h3⟩
      · exact ⟨es ++ [e], h', runExcl_snoc _ _ _ _ _ h1 he, h3⟩
  obtain ⟨es, h, h1, h2⟩ := this
  exact ⟨es, h, (checkExclusion_none_iff es).2 ⟨h, h1⟩, h1, h2⟩

example : HAbs [(3, 0)] demoBusy := by
  intro k g hl
  by_cases hk : k = 3
  · subst hk; simp [lookup] at hl; subst hl; rfl
  · have : ¬ 3 = k := fun e => hk e.symm
    simp [lookup, this] at hl

end Mx
