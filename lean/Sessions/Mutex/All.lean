import Sessions.Mutex.Basic
import Sessions.Mutex.Lemmas
import Sessions.Mutex.Pres
import Sessions.Mutex.Final
import Sessions.Mutex.Live
import Sessions.Mutex.Demo
import Sessions.Mutex.Spurious
import Sessions.Mutex.Progress
import Sessions.Mutex.Indep
import Sessions.Mutex.Handoff
import Sessions.Mutex.Exec
import Sessions.Mutex.ExecSim
/-! Keyed mutex (`mutexes.go`): model, safety (C13), liveness (C14), executable trace checker.  Imports every module
of `Sessions/Mutex`. -/
