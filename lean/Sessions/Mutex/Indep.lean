import Sessions.Mutex.Spurious
/-! C14: "A Lock on one key is never delayed by holders or waiters of other keys."

`StepsG g n s s'` is a sequence of `n` steps in which no goroutine other than `g` changes its pc (the steps are taken
by `g`, by the manager, or by both in a rendezvous).

* `lock_free_key`     – manager idle, `g` idle, nobody registered on `k`: the five steps `callLock, rdvAcq, mgrAcqGrant,
                        gGetItem, rdvTok` are enabled one after the other and end with `g` holding `k`.  The hypotheses
                        say nothing about the pcs of other goroutines or about other keys: holders and waiters of other
                        keys cannot delay the `Lock`.
* `sendTok_partner`   – a manager blocked in `item.release <- struct{}{}` always has a partner goroutine that is not
                        blocked on anything: it is either about to call `getItem` (unconditional) or already parked in
                        the receive on that very item.
* `mgr_returns_idle`  – from *every* invariant state the manager is back in its `select` after at most 3 steps that
                        involve only the manager and that partner: the hypothesis "manager idle" of `lock_free_key` is
                        re-established without the help of any holder or waiter of any key. -/
namespace Mx

/-- no goroutine other than `g` has changed its pc. -/
def OnlyG (g : Nat) (s s' : St) : Prop := ∀ j, j ≠ g → s'.pcs[j]? = s.pcs[j]?

inductive StepsG (g : Nat) : Nat → St → St → Prop where
  | refl (s : St) : StepsG g 0 s s
  | step (b : Bool) (n : Nat) (s s1 s2 : St) : Step b s s1 → OnlyG g s s1 → StepsG g n s1 s2 → StepsG g (n + 1) s s2

theorem onlyG_set (g : Nat) (s s' : St) (x : GPc) (h : s'.pcs = s.pcs.set g x) : OnlyG g s s' := by
  intro j hj
  rw [h, List.getElem?_set]
  have : ¬ g = j := fun e => hj e.symm
  simp [this]

theorem onlyG_same (g : Nat) (s s' : St) (h : s'.pcs = s.pcs) : OnlyG g s s' := by
  intro j _; rw [h]

theorem StepsG.inv {g n : Nat} {s s' : St} (h : StepsG g n s s') (hi : Inv s) : Inv s' := by
  induction h with
  | refl s => exact hi
  | step b n s s1 s2 hs _ _ ih => exact ih (inv_step _ _ hi hs)

theorem StepsG.onlyG {g n : Nat} {s s' : St} (h : StepsG g n s s') : OnlyG g s s' := by
  induction h with
  | refl s => intro j _; rfl
  | step b n s s1 s2 _ ho _ ih => intro j hj; rw [ih j hj, ho j hj]

theorem getElem?_set_self' {l : List GPc} {g : Nat} {x : GPc} (hg : g < l.length) : (l.set g x)[g]? = some x := by
  rw [List.getElem?_set]; simp [hg]

/-- registered counts after goroutine `g` went from `idle` to `holding k`. -/
theorem reg_after_lock (s s' : St) (g : Nat) (k : Key) (hg : s.pcs[g]? = some .idle)
    (hp : s'.pcs = s.pcs.set g (.holding k)) (k' : Key) :
    reg s' k' = reg s k' + (if k' = k then 1 else 0) := by
  have ⟨c1, _⟩ := cnt_upd s g _ (.holding k) hg k'
  unfold reg; rw [hp]
  by_cases hk : k' = k
  · subst hk; simp [isReg] at c1 ⊢; omega
  · have : ¬ k = k' := fun e => hk e.symm
    simp [isReg, hk, this] at c1 ⊢; omega

/-- **Key independence.**  If the manager is idle, goroutine `g` is idle and no goroutine is registered on `k`, then
`Lock(k)` by `g` completes in five steps that involve only `g` and the manager, whatever the other goroutines are
doing on other keys (or, blocked in `sendAcq`, on `k` itself).  Afterwards `g` is the unique holder of `k`, the manager
is idle again, and the `locks` value of every other key is unchanged. -/
theorem lock_free_key (s : St) (g : Nat) (k : Key) (hi : Inv s) (hg : s.pcs[g]? = some .idle)
    (hm : s.mgr = .idle) (hfree : reg s k = 0) :
    ∃ s5, StepsG g 5 s s5 ∧ s5.pcs = s.pcs.set g (.holding k) ∧ s5.mgr = .idle ∧ hold s5 k = 1 ∧ L s5 k = 1 ∧
      (∀ k', k' ≠ k → L s5 k' = L s k') ∧ Inv s5 := by
  obtain ⟨hgl, _⟩ := List.getElem?_eq_some_iff.1 hg
  have hLk0 : L s k = 0 := by
    have hk := hi.1 k
    unfold InvK at hk; rw [hm] at hk; unfold InvKF at hk; omega
  -- 1: callLock
  have st1 := Step.callLock s g k hg
  have hi1 := inv_step _ _ hi st1
  generalize hs1 : ({ s with pcs := s.pcs.set g (.sendAcq k) } : St) = s1 at st1 hi1
  have e1p : s1.pcs = s.pcs.set g (.sendAcq k) := by rw [← hs1]
  have e1m : s1.mgr = .idle := by rw [← hs1]; exact hm
  have e1L : L s1 k = 0 := by rw [← hs1]; exact hLk0
  have hg1 : s1.pcs[g]? = some (.sendAcq k) := by rw [e1p]; exact getElem?_set_self' hgl
  have hl1 : g < s1.pcs.length := by rw [e1p]; simpa using hgl
  -- 2: rdvAcq
  have st2 := Step.rdvAcq s1 g k hg1 e1m
  have hi2 := inv_step _ _ hi1 st2
  generalize hs2 : ({ s1 with pcs := s1.pcs.set g (.needItem k), mgr := .acq k } : St) = s2 at st2 hi2
  have e2p : s2.pcs = s1.pcs.set g (.needItem k) := by rw [← hs2]
  have e2m : s2.mgr = .acq k := by rw [← hs2]
  have e2L : L s2 k = 0 := by rw [← hs2]; exact e1L
  have hl2 : g < s2.pcs.length := by rw [e2p]; simpa using hl1
  have hg2 : s2.pcs[g]? = some (.needItem k) := by rw [e2p]; exact getElem?_set_self' hl1
  -- 3: mgrAcqGrant
  have h0 : (getItem s2 k).2.locks (getItem s2 k).1 = 0 := by rw [getItem_locks_eq_L]; exact e2L
  have st3 := Step.mgrAcqGrant s2 k e2m h0
  have hi3 := inv_step _ _ hi2 st3
  have ht3' := getItem_table_self s2 k
  have hp3' := getItem_pcs s2 k
  generalize (getItem s2 k).1 = i at st3 hi3 ht3'
  generalize hs3 : ({ (getItem s2 k).2 with mgr := .sendTok i k true } : St) = s3 at st3 hi3
  have e3p : s3.pcs = s2.pcs := by rw [← hs3]; exact hp3'
  have e3m : s3.mgr = .sendTok i k true := by rw [← hs3]
  have e3t : s3.table k = some i := by rw [← hs3]; exact ht3'
  have hl3 : g < s3.pcs.length := by rw [e3p]; exact hl2
  have hg3 : s3.pcs[g]? = some (.needItem k) := by rw [e3p]; exact hg2
  -- 4: gGetItem (finds the item the manager is offering)
  have st4 := Step.gGetItem s3 g k hg3
  rw [getItem_some e3t] at st4
  have hi4 := inv_step _ _ hi3 st4
  generalize hs4 : ({ s3 with pcs := s3.pcs.set g (.recvTok i k) } : St) = s4 at st4 hi4
  have e4p : s4.pcs = s3.pcs.set g (.recvTok i k) := by rw [← hs4]
  have e4m : s4.mgr = .sendTok i k true := by rw [← hs4]; exact e3m
  have hg4 : s4.pcs[g]? = some (.recvTok i k) := by rw [e4p]; exact getElem?_set_self' hl3
  -- 5: rdvTok
  have st5 := Step.rdvTok s4 g i k k true hg4 e4m
  have hi5 := inv_step _ _ hi4 st5
  generalize hs5 : ({ (if true = true then setLocks s4 i (s4.locks i + 1) else s4) with
                       pcs := s4.pcs.set g (.holding k), mgr := .idle } : St) = s5 at st5 hi5
  have e5p : s5.pcs = s4.pcs.set g (.holding k) := by rw [← hs5]
  have e5m : s5.mgr = .idle := by rw [← hs5]
  have e5p' : s5.pcs = s.pcs.set g (.holding k) := by
    rw [e5p, e4p, e3p, e2p, e1p]; simp only [List.set_set]
  have hreg := reg_after_lock s s5 g k hg e5p'
  have hinv5 : ∀ k', L s5 k' = reg s5 k' ∧ (0 < reg s5 k' → hold s5 k' = 1) := by
    intro k'
    have hk := hi5.1 k'
    unfold InvK at hk; rw [e5m] at hk; unfold InvKF at hk; exact hk.2
  have hinv0 : ∀ k', L s k' = reg s k' := by
    intro k'
    have hk := hi.1 k'
    unfold InvK at hk; rw [hm] at hk; unfold InvKF at hk; exact hk.2.1
  refine ⟨s5, ?_, e5p', e5m, ?_, ?_, ?_, hi5⟩
  · exact StepsG.step _ _ _ _ _ st1 (onlyG_set g _ _ _ e1p)
      (StepsG.step _ _ _ _ _ st2 (onlyG_set g _ _ _ e2p)
        (StepsG.step _ _ _ _ _ st3 (onlyG_same g _ _ e3p)
          (StepsG.step _ _ _ _ _ st4 (onlyG_set g _ _ _ e4p)
            (StepsG.step _ _ _ _ _ st5 (onlyG_set g _ _ _ e5p) (StepsG.refl _)))))
  · have := hreg k; simp at this
    exact (hinv5 k).2 (by omega)
  · have := hreg k; simp at this
    rw [(hinv5 k).1]; omega
  · intro k' hk'
    have := hreg k'; simp [hk'] at this
    rw [(hinv5 k').1, hinv0 k', this]

/-- non-vacuity: goroutine 1 can lock the free key 7 while goroutine 0 holds key 3 and goroutine 2 is parked on it. -/
example : ∃ s5, StepsG 1 5 demoBusy s5 ∧ s5.pcs = [.holding 3, .holding 7, .recvTok 0 3] ∧ hold s5 7 = 1 := by
  obtain ⟨s5, h1, h2, _, h4, _⟩ := lock_free_key demoBusy 1 7 demoBusy_inv rfl rfl (by decide)
  exact ⟨s5, h1, h2, h4⟩

/-- A manager blocked in the token send has a partner: a goroutine registered on that key which is about to call
`getItem` (its next step has no precondition) or is already parked in the receive on the *same* item.  Nobody holds
the key at that moment. -/
theorem sendTok_partner (s : St) (i : Iid) (k : Key) (b : Bool) (hi : Inv s) (hm : s.mgr = .sendTok i k b) :
    hold s k = 0 ∧ s.table k = some i ∧
    ∃ g : Nat, s.pcs[g]? = some (GPc.needItem k) ∨ s.pcs[g]? = some (GPc.recvTok i k) := by
  have hk := hi.1 k
  unfold InvK at hk; rw [hm] at hk; unfold InvKF at hk
  simp only [if_true] at hk
  obtain ⟨_, ht, hh0, hb⟩ := hk
  refine ⟨hh0, ht, ?_⟩
  have hreg : 0 < reg s k := by cases b <;> simp at hb <;> omega
  obtain ⟨g, pc, hg, hp⟩ := exists_of_countP_pos hreg
  have hnh : isHold k pc = false := all_of_countP_zero hh0 hg
  cases pc with
  | idle => simp [isReg] at hp
  | sendAcq k' => simp [isReg] at hp
  | sendRelSpur k' => simp [isReg] at hp
  | needItem k' =>
    have hk' : k' = k := by simpa [isReg] using hp
    subst hk'; exact ⟨g, Or.inl hg⟩
  | recvTok i' k' =>
    have hk' : k' = k := by simpa [isReg] using hp
    subst hk'
    have h1 : s.table k' = some i' := hi.2.1 g i' k' hg
    rw [ht] at h1
    have hii : i = i' := by simpa using h1
    subst hii
    exact ⟨g, Or.inr hg⟩
  | holding k' => simp [isReg, isHold] at hp hnh; exact absurd hp hnh
  | sendRel k' => simp [isReg, isHold] at hp hnh; exact absurd hp hnh

example : ∃ (s : St) (i : Iid), Inv s ∧ s.mgr = .sendTok i 3 false := demoSendTok

/-- the token is delivered within two steps of the partner alone. -/
theorem sendTok_finish (s : St) (i : Iid) (k : Key) (b : Bool) (hi : Inv s) (hm : s.mgr = .sendTok i k b) :
    ∃ (g n : Nat) (s' : St), n ≤ 2 ∧ StepsG g n s s' ∧ s'.mgr = .idle ∧ s'.pcs = s.pcs.set g (.holding k) := by
  obtain ⟨_, ht, g, hg | hg⟩ := sendTok_partner s i k b hi hm
  · obtain ⟨hgl, _⟩ := List.getElem?_eq_some_iff.1 hg
    have st1 := Step.gGetItem s g k hg
    rw [getItem_some ht] at st1
    generalize hs1 : ({ s with pcs := s.pcs.set g (.recvTok i k) } : St) = s1 at st1
    have e1p : s1.pcs = s.pcs.set g (.recvTok i k) := by rw [← hs1]
    have e1m : s1.mgr = .sendTok i k b := by rw [← hs1]; exact hm
    have hg1 : s1.pcs[g]? = some (.recvTok i k) := by rw [e1p]; exact getElem?_set_self' hgl
    have st2 := Step.rdvTok s1 g i k k b hg1 e1m
    refine ⟨g, 2, _, Nat.le_refl _, StepsG.step _ _ _ _ _ st1 (onlyG_set g _ _ _ e1p)
      (StepsG.step _ _ _ _ _ st2 (onlyG_set g _ _ _ rfl) (StepsG.refl _)), rfl, ?_⟩
    show s1.pcs.set g (.holding k) = _
    rw [e1p, List.set_set]
  · have st2 := Step.rdvTok s g i k k b hg hm
    exact ⟨g, 1, _, by omega, StepsG.step _ _ _ _ _ st2 (onlyG_set g _ _ _ rfl) (StepsG.refl _), rfl, rfl⟩

theorem StepsG.cons_mgr {g n : Nat} {b : Bool} {s s1 s2 : St} (hs : Step b s s1) (hp : s1.pcs = s.pcs)
    (h : StepsG g n s1 s2) : StepsG g (n + 1) s s2 :=
  StepsG.step b n s s1 s2 hs (onlyG_same g _ _ hp) h

/-- From every invariant state the manager is back in its `select` after at most three steps taken by the manager and
(if a token has to be delivered) its partner goroutine; no other goroutine has to move.  In particular the manager is
never blocked by holders or waiters of any key. -/
theorem mgr_returns_idle (s : St) (hi : Inv s) :
    ∃ (g n : Nat) (s' : St), n ≤ 3 ∧ StepsG g n s s' ∧ s'.mgr = .idle := by
  cases hm : s.mgr with
  | idle => exact ⟨0, 0, s, by omega, StepsG.refl s, hm⟩
  | sendTok i k b =>
    obtain ⟨g, n, s', hn, hx, hm', _⟩ := sendTok_finish s i k b hi hm
    exact ⟨g, n, s', by omega, hx, hm'⟩
  | acq k =>
    by_cases h0 : (getItem s k).2.locks (getItem s k).1 = 0
    · have st := Step.mgrAcqGrant s k hm h0
      have hi1 := inv_step _ _ hi st
      obtain ⟨g, n, s', hn, hx, hm', _⟩ := sendTok_finish _ _ k true hi1 rfl
      exact ⟨g, n + 1, s', by omega, StepsG.cons_mgr st (getItem_pcs s k) hx, hm'⟩
    · have st := Step.mgrAcqQueue s k hm h0
      exact ⟨0, 1, _, by omega, StepsG.cons_mgr st (getItem_pcs s k) (StepsG.refl _), rfl⟩
  | rel k =>
    by_cases h0 : (getItem s k).2.locks (getItem s k).1 = 0
    · have st := Step.mgrRelNone s k hm h0
      exact ⟨0, 1, _, by omega, StepsG.cons_mgr st (getItem_pcs s k) (StepsG.refl _), rfl⟩
    · by_cases h1 : (getItem s k).2.locks (getItem s k).1 = 1
      · have st := Step.mgrRelLast s k hm h1
        exact ⟨0, 1, _, by omega, StepsG.cons_mgr st (getItem_pcs s k) (StepsG.refl _), rfl⟩
      · have st := Step.mgrRelHand s k hm (by omega)
        have hi1 := inv_step _ _ hi st
        obtain ⟨g, n, s', hn, hx, hm', _⟩ := sendTok_finish _ _ k false hi1 rfl
        exact ⟨g, n + 1, s', by omega, StepsG.cons_mgr st (getItem_pcs s k) hx, hm'⟩

example : Inv demoRel ∧ demoRel.mgr ≠ .idle := ⟨demoRel_inv, by decide⟩

end Mx
