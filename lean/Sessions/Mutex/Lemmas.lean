import Sessions.Mutex.Basic
namespace Mx

theorem countP_pos_of_getElem {p : GPc → Bool} {l : List GPc} {g : Nat} (hg : g < l.length) (h : p l[g] = true) :
    0 < l.countP p := by
  rw [List.countP_pos_iff]
  exact ⟨l[g], List.getElem_mem hg, h⟩

theorem countP_set' {p : GPc → Bool} {l : List GPc} {g : Nat} {x : GPc} (hg : g < l.length) :
    (l.set g x).countP p + (if p l[g] then 1 else 0) = l.countP p + (if p x then 1 else 0) := by
  rw [List.countP_set hg]
  by_cases h : p l[g] = true
  · have := countP_pos_of_getElem hg h
    simp only [h, if_true]; omega
  · have h' : p l[g] = false := by simpa using h
    simp [h']

def newItem (s : St) (k : Key) : St :=
  { s with table := fun k' => if k' = k then some s.nextI else s.table k',
           locks := fun i => if i = s.nextI then 0 else s.locks i,
           nextI := s.nextI + 1 }

theorem getItem_some {s : St} {k : Key} {i : Iid} (h : s.table k = some i) : getItem s k = (i, s) := by
  unfold getItem; rw [h]
theorem getItem_none {s : St} {k : Key} (h : s.table k = none) : getItem s k = (s.nextI, newItem s k) := by
  unfold getItem; rw [h]; rfl

@[simp] theorem getItem_pcs (s : St) (k : Key) : (getItem s k).2.pcs = s.pcs := by
  cases h : s.table k with
  | none => rw [getItem_none h]; rfl
  | some i => rw [getItem_some h]
@[simp] theorem getItem_mgr (s : St) (k : Key) : (getItem s k).2.mgr = s.mgr := by
  cases h : s.table k with
  | none => rw [getItem_none h]; rfl
  | some i => rw [getItem_some h]

theorem getItem_table_self (s : St) (k : Key) : (getItem s k).2.table k = some (getItem s k).1 := by
  cases h : s.table k with
  | none => rw [getItem_none h]; simp [newItem]
  | some i => rw [getItem_some h]; exact h

theorem getItem_table_other (s : St) (k k' : Key) (hne : k' ≠ k) : (getItem s k).2.table k' = s.table k' := by
  cases h : s.table k with
  | none => rw [getItem_none h]; simp [newItem, hne]
  | some i => rw [getItem_some h]

theorem getItem_L_self (s : St) (k : Key) : L (getItem s k).2 k = L s k := by
  cases h : s.table k with
  | none => rw [getItem_none h]; simp [L, newItem, h]
  | some i => rw [getItem_some h]

theorem getItem_L_other (s : St) (k k' : Key) (hne : k' ≠ k) (hp : InvPtr s) : L (getItem s k).2 k' = L s k' := by
  cases h : s.table k with
  | some i => rw [getItem_some h]
  | none =>
    rw [getItem_none h]
    cases ht : s.table k' with
    | none => simp [L, newItem, hne, ht]
    | some j =>
      have hlt := hp.2.2 k' j ht
      have : j ≠ s.nextI := by omega
      simp [L, newItem, hne, ht, this]

theorem getItem_invPtr (s : St) (k : Key) (hp : InvPtr s) : InvPtr (getItem s k).2 := by
  cases h : s.table k with
  | some i => rw [getItem_some h]; exact hp
  | none =>
    rw [getItem_none h]
    obtain ⟨h1, h2, h3⟩ := hp
    refine ⟨?_, ?_, ?_⟩
    · intro g i k' hpc
      have := h1 g i k' hpc
      simp only [newItem]
      by_cases hk : k' = k
      · subst hk; rw [h] at this; cases this
      · simp [hk, this]
    · intro k1 k2 i
      simp only [newItem]
      by_cases hk1 : k1 = k <;> by_cases hk2 : k2 = k <;> simp only [hk1, hk2, if_true, if_false]
      · intros; trivial
      · intro ha hb; cases ha; have := h3 k2 _ hb; omega
      · intro ha hb; cases hb; have := h3 k1 _ ha; omega
      · exact h2 k1 k2 i
    · intro k1 i
      simp only [newItem]
      by_cases hk1 : k1 = k <;> simp only [hk1, if_true, if_false]
      · intro ha; cases ha; omega
      · intro ha; have := h3 k1 i ha; omega

theorem L_setLocks (s : St) (i : Iid) (v : Nat) (k : Key) :
    L (setLocks s i v) k = if s.table k = some i then v else L s k := by
  unfold L setLocks
  cases ht : s.table k with
  | none => simp
  | some j =>
    by_cases hj : j = i <;> simp [hj]

end Mx
