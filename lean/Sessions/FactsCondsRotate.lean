import Sessions.FactsCondsBase
/-! ID rotation: rotation guard, back-stop, reference tests of `Start`; durations of `RegenerateID` (see `Sessions/FactsCondsBase.lean`; regenerated table `Facts.conds`). -/
namespace FactsConds
open Ce

variable (cfg : Sx.Cfg) (now : Int) (o : Sx.Sess) (r : Sx.Req) (valid : Bool) (i : Int)

/-! ### `Start`: rotation guard, back-stop -/

/-- exactly two conditions of `Start` mention `SessionIDExpiry`: first the rotation guard, then the back-stop, both as in
`Sx.startValid` (age measured from `created`; the back-stop subtracts instead of adding, so nothing can overflow). -/
theorem start_rotate_backstop :
    (pick Facts.conds "Start" "if" "SessionIDExpiry").map (eval (startEnv cfg now o r valid i)) =
      [some (.bool (o.ref.isNone && decide (Sx.since now o.created ≥ cfg.idExpiry))),
       some (.bool (decide (Sx.since now o.created ≥ cfg.idExpiry) && decide (Sx.since now o.created - cfg.idExpiry ≥ cfg.grace)))] := by
  conds_tac [startEnv, refStr_eq]

/-- the grace period appears in `Start` only in the back-stop -/
theorem start_grace_only_backstop : (pick Facts.conds "Start" "if" "SessionIDGracePeriod").length = 1 := by
  conds_tac []

/-- no condition anywhere adds `SessionIDExpiry` and `SessionIDGracePeriod` (the int64 overflow of finding F1) -/
theorem no_sum_of_durations :
    (Facts.conds.filter (fun e => hasSum "SessionIDExpiry" "SessionIDGracePeriod" e.2.2.2)) = [] := by
  simp [Facts.conds, hasSum]

/-- the reference branch and the chain-following loop test `referenceID != ""`; the only other condition of `Start` on
`referenceID` is the rotation guard above -/
theorem start_reference_tests :
    (pick Facts.conds "Start" "if" "referenceID").map (eval (startEnv cfg now o r valid i)) =
      [some (.bool (o.ref.isNone && decide (Sx.since now o.created ≥ cfg.idExpiry))), some (.bool o.ref.isSome)] ∧
    (pick Facts.conds "Start" "for" "referenceID").map (eval (startEnv cfg now o r valid i)) = [some (.bool o.ref.isSome)] := by
  constructor <;> conds_tac [startEnv, refStr_eq, refStr_ne]

/-! ### `RegenerateID` -/

/-- the clean-up goroutine sleeps for the grace period (the model's timer deadline `now + grace`), and the only instant
arithmetic is the back-dated access time `now - SessionIDExpiry` of the reference record (overwritten by `cache.Set`) -/
theorem regenerate_durations :
    (pickKind Facts.conds "Session.RegenerateID" "sleep").map (fun e => eval (startEnv cfg now o r valid i) e.2) = [some (.int cfg.grace)] ∧
    (pickKind Facts.conds "Session.RegenerateID" "add").map (fun e => eval (startEnv cfg now o r valid i) e.2) = [some (.time (now - cfg.idExpiry))] := by
  constructor <;> conds_tac [startEnv] <;> omega

end FactsConds
