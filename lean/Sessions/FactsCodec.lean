import Sessions.Generated.Facts
/-!
# Theorems about the codec programs regenerated from the Go source (C16, C17)

`Facts.gobEncodeProg`, `Facts.gobDecodeProg`, `Facts.jsonMarshalProg`, `Facts.jsonUnmarshalProg` are
re-read from `GobEncode`/`GobDecode`/`MarshalJSON`/`UnmarshalJSON` on every run by /verif/extract.
A field that is dropped, reordered on one side only, guarded differently, or converted differently
makes these proofs fail on the next run.
-/
namespace FactsCodec

/-- the extractor recognised every statement of the four functions -/
theorem nothing_unrecognised : Facts.unrecognised = [] := rfl

/-- C16 at model level: decoding the gob encoding of ANY session into a fresh session restores every field
(a nil data map comes back empty). -/
theorem gob_roundtrip (s : Cd.S) :
    Cd.dec Facts.gobDecodeProg (Cd.enc s Facts.gobEncodeProg) false {} = some (Cd.norm s) := by
  obtain ⟨c, la, ip, ua, rf, user, data⟩ := s
  cases user <;> simp [Facts.gobEncodeProg, Facts.gobDecodeProg, Cd.enc, Cd.dec, Cd.getF, Cd.setF, Cd.norm, Option.bind]

/-- C17 at model level: `UnmarshalJSON (MarshalJSON s)` succeeds for EVERY session — with or without user,
with or without reference, with a nil or non-nil data map — and restores every field, instants up to the
granularity of the time format. -/
theorem json_roundtrip (L : Cj.Laws) (s : Cj.S) :
    Cj.unmarshal L Facts.jsonUnmarshalProg (Cj.marshal L s Facts.jsonMarshalProg) {} = some (Cj.norm L s) := by
  obtain ⟨c, la, ip, ua, rf, user, data⟩ := s
  by_cases hr : rf = "" <;> cases user <;> cases data <;>
    simp [Facts.jsonMarshalProg, Facts.jsonUnmarshalProg, Cj.marshal, Cj.unmarshal, Cj.condHolds, Cj.srcVal, Cj.lookup,
      Cj.applyConv, Cj.norm, L.parse_fmt_time, L.parse_fmt_36, Option.bind, hr]

/-- the shapes the package itself writes are covered: a replaced-ID record (reference, no data, no user) -/
example (L : Cj.Laws) (t : Int) :
    Cj.unmarshal L Facts.jsonUnmarshalProg (Cj.marshal L { created := t, lastAccess := t, ref := "X" } Facts.jsonMarshalProg) {}
      = some { created := L.trunc t, lastAccess := L.trunc t, ref := "X" } := by
  simpa [Cj.norm] using json_roundtrip L { created := t, lastAccess := t, ref := "X" }

/-- `UnmarshalJSON` is total on decoded objects by construction of `Cj.unmarshal` (it returns `none` = error or a
session); a session it returns re-encodes because `Cj.marshal` is total. -/
theorem json_total (L : Cj.Laws) (o : List (String × Cj.JV)) :
    (∃ s, Cj.unmarshal L Facts.jsonUnmarshalProg o {} = some s ∧ ∃ o', Cj.marshal L s Facts.jsonMarshalProg = o') ∨
    Cj.unmarshal L Facts.jsonUnmarshalProg o {} = none := by
  cases h : Cj.unmarshal L Facts.jsonUnmarshalProg o {} with
  | none => exact Or.inr rfl
  | some s => exact Or.inl ⟨s, rfl, _, rfl⟩

end FactsCodec
