import Sessions.FactsIrStartUnfold
import Sessions.Proofs.Local.Rotation
/-! # `Start`, stage (f): a valid session whose id is due for rotation (no reference record), address test off -/
namespace FactsIr
open Sx Sx.Loc Ir

set_option linter.unusedSimpArgs false
set_option maxRecDepth 100000

set_option maxHeartbeats 1600000 in
/-- **(f) rotation due**: `session.RegenerateID(response)` (the model's `regenerate`); on failure its error, otherwise the session is
touched and returned. -/
theorem start_rotate_eq (cfg : Cfg) (s s1 : State) (r : Req) (lenOf : ID → Nat) (id : ID) (h : Nat) (e1 : List Ev)
    (hc : r.cookie = some id) (hlen : lenOf id = r.cookieLen) (hl : r.cookieLen = 24)
    (hg : cacheGet cfg s id = (s1, .some h, e1)) (hh : h < s1.heap.length) (hip : cfg.acceptIP ≤ 1)
    (hv : validFor cfg s1.now (s1.obj h) r = true) (href : (s1.obj h).ref = none)
    (hage : since s1.now (s1.obj h).created ≥ cfg.idExpiry) :
    Ir.execP (startPar cfg lenOf) Facts.ir_Start s (startArgs r) = Ir.ofStart (Sx.start cfg s r) := by
  have h24 : ((lenOf id : Nat) : Int) = 24 := by omega
  have hip' : ¬ 1 < cfg.acceptIP := by omega
  have hro := regenerate_obj cfg s1 h hh
  have hh2 : h < (regenerate cfg s1 h).1.heap.length := by
    have := regenerate_heap_length_ge cfg s1 h; omega
  rw [start_valid hc hl hg hv, startValid_rotate id r e1 href hage, startArgs, execP_start]
  simp [validFor, ipOK, uaOK, since, hip', agentHash, State.obj, hh] at hv
  simp [State.obj, hh2, rotObj, hh] at hro
  simp [State.obj, hh] at href
  simp [since, State.obj, hh] at hage
  start_eval [hc, h24, hg, hip', since, touch, agentHash, href, hage, hh, hh2, hro]
  obtain ⟨h1, h2⟩ := hv
  by_cases hU : cfg.acceptUA = true
  · have h3 : ¬ cfg.sessionExpiry ≤ s1.now - s1.heap[h].lastAccess := by omega
    simp only [if_pos h1, if_pos hU, if_neg h3]
    split <;> simp_all
  · rcases h2 with (h2 | h2) | h2
    · exact absurd h2 hU
    · simp only [if_pos h1, if_neg hU, h2, not_true_eq_false, false_and, if_false]
      split <;> simp_all
    · have h4 : ¬ (¬ s1.heap[h].ua = 0 ∧ ¬ s1.heap[h].ua = if r.ua = "" then 0 else fnv1a r.ua.toByteArray.toList) :=
        fun hc => hc.2 h2
      simp only [if_pos h1, if_neg hU, if_neg h4]
      split <;> simp_all

end FactsIr
