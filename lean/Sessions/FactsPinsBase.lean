import Sessions.Generated.Facts
/-!
# Source pins (C12, C13, C14, C19, C20)

The keyed-mutex transition system (`Sessions/Mutex`), the cache model (`Sessions/Model/Cache.lean`), the identifier
functions (`Sessions/Ids`) and the password cascade (`Sessions/Password`) were transcribed by hand from these
functions. `Facts.sourcePins` carries the SHA-256 of their normalised source (comments and the add-only trace hooks
removed) as regenerated on every run; the theorems below pin them to the text the models were transcribed from.
When a pinned function changes in any way the corresponding theorem stops checking and the check searches for a
failing input (a harmless rewrite is then reported as `no-failing-input-found`, see DESIGN.md §3).
Re-pin with /verif/bin/dev_pins.sh after re-transcribing a model.
-/
namespace FactsPins

def pinOf (name : String) : Option String := (Facts.sourcePins.find? (fun p => p.1 == name)).map (·.2)

def expected : List (String × String) := [
  ("newMutexes", "e66b818042f29435890295468a6a8bcede96238890543699a959e110857735ac"),
  ("mutexes.getItem", "3ce3568ab369c8b50381f8f825ec930ae4f2449269fe836bfd6fea9e835b146e"),
  ("mutexes.Lock", "e2def767f24291bea6da43e15949e7d85292b14380fd3e47008a4498b00f4a34"),
  ("mutexes.Unlock", "a37f4026254198d9a951ab5116220b8da4b3e57375e576e96d70c340f38e8d8a"),
  ("cache.compact", "1652e92e6b81b202ab96c63c940ca3209e7a2770b7169a35a8951b473a28b087"),
  ("cache.Get", "c04a9fc9c3b23a85d0c1937b82afa45a3ed4098d649c0171dbb567e41ba0c023"),
  ("cache.Set", "c23012afdcf4e110b6a21ef2fc7a67aa658bc4cf3be8296ba6959d551b00ba67"),
  ("cache.Delete", "023df58436d7336f7b020b24deac08067d3b6d2c3b24d6f609d22dd7efa1fe47"),
  ("PurgeSessions", "81aa0d1242d3c399b6793a4799b2b6fec97e9756c9a35899a776bcd1342882c6"),
  ("generateSessionID", "0cd96b27c3ed9db1fb6afb8dd63c07ee27e4fa8501b1977fdd701abb00edc9cf"),
  ("RandomID", "b64a9a799a759823a6649dc3c4a1bb4dfed820960d62be38128e4ed7446baa8b"),
  ("CUID", "cb518acbc6b019c67b88f596a8db0acc020863a8ff778e84fa59b5fffefd43c4"),
  ("ReasonablePassword", "7034004d28855b8bc86a49fc5c71978dca459cc633551eaaf51ef266c084d425"),
  ("initPasswords", "017c7adea67b2e1a407aef41eaf7e1182a2470b65c14a6bc688ec140b22f2027")]

def pinned (names : List String) : Bool := names.all (fun n => pinOf n == (expected.find? (fun p => p.1 == n)).map (·.2) && (pinOf n).isSome)

end FactsPins
