import Sessions.Generated.Facts
import Sessions.Ir.Compact
/-!
# `cache.Set`, `cache.Delete`, `cache.Get` as the repository has them now = the model's `cacheSet` / `cacheDelete` / `cacheGet`
-/
namespace FactsIr
open Sx Sx.Loc Ir

set_option linter.unusedSimpArgs false
set_option maxRecDepth 100000

/-- **`sessions.Set(session)`** on a valid handle. -/
theorem cacheSet_eq_model (cfg : Cfg) (s : State) (h : Nat) (hv : h < s.heap.length) :
    Ir.exec cfg Facts.ir_cacheSet s [.cache, .ptr (some h)] = Ir.ofErr (Sx.cacheSet cfg s h) := by
  rw [cacheSet_eq]
  ir_tac [Facts.ir_cacheSet, setSave, setK, setC, setReq, setObjNow, hv]

/-- **`sessions.Delete(id)`**. -/
theorem cacheDelete_eq_model (cfg : Cfg) (s : State) (id : ID) :
    Ir.exec cfg Facts.ir_cacheDelete s [.cache, .id id] = Ir.ofErr (Sx.cacheDelete s id) := by
  ir_tac [Facts.ir_cacheDelete, cacheDelete]

/-- **`sessions.Get(id)`**: cache hit, or `LoadSession` (failure / nothing / a record, which is allocated, cached unless the cache
is disabled, and only then given its id). `hc`: the handles in the cache are valid. -/
theorem cacheGet_eq_model (cfg : Cfg) (s : State) (id : ID) (hc : ∀ e ∈ s.cache, e.2 < s.heap.length) :
    Ir.exec cfg Facts.ir_cacheGet s [.cache, .id id] = Ir.ofGet (Sx.cacheGet cfg s id) := by
  cases hl : lookup id s.cache with
  | some h => rw [cacheGet_hit hl]; ir_tac [Facts.ir_cacheGet, hl]
  | none =>
    rw [cacheGet_miss hl]
    have hfr := loadRec_heap_cache s id
    rcases hr : loadRec s id with ⟨s0, r, e0⟩
    rw [hr] at hfr
    cases r with
    | fail => ir_tac [Facts.ir_cacheGet, hl, hr, getOf]
    | nil => ir_tac [Facts.ir_cacheGet, hl, hr, getOf]
    | found o =>
      have ho := loadRec_found_id hr
      have hc0 : ∀ e ∈ s0.cache, e.2 < s0.heap.length := by rw [hfr.1, hfr.2]; exact hc
      have key := compact_withHeap cfg 1 (s0.alloc o).2 (s0.heap ++ [{ o with id := .lit "" }]) (agreeOn_alloc s0 o _ hc0)
      cases o
      simp only at ho
      subst ho
      simp only [State.alloc, withHeap] at key
      ir_tac [Facts.ir_cacheGet, hl, hr, getOf, compact_heap, key]

end FactsIr
