import Sessions.Generated.Facts
/-! Critical-section bracket read from the source by /verif/extract (brackets.go); see DESIGN.md §5.2. -/
namespace FactsBrackets

/-- the whole body of `CUID` runs under `lastMutex` -/
theorem cuid_is_critical_section : Facts.cuidLockBracket = true := rfl

end FactsBrackets
