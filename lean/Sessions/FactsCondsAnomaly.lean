import Sessions.FactsCondsBase
/-! Address and user-agent tests of `Start` (see `Sessions/FactsCondsBase.lean`; regenerated table `Facts.conds`). -/
namespace FactsConds
open Ce

variable (cfg : Sx.Cfg) (now : Int) (o : Sx.Sess) (r : Sx.Req) (valid : Bool) (i : Int)

/-! ### `Start`: the user-agent test -/

/-- the fingerprint test: guarded by `valid && !AcceptChangingUserAgent`, and `valid` becomes
`recorded == 0 || recorded == agentHash` — together `Sx.uaOK`. -/
theorem start_ua :
    (pick Facts.conds "Start" "if" "AcceptChangingUserAgent").map (eval (startEnv cfg now o r valid i)) =
      [some (.bool (valid && !cfg.acceptUA))] ∧
    (pick Facts.conds "Start" "set" "agentHash").map (eval (startEnv cfg now o r valid i)) =
      [some (.bool (o.ua == 0 || o.ua == Sx.agentHash r.ua))] := by
  constructor <;> conds_tac [startEnv, cast_beq, cast_beq0]

/-- the value of `valid` after the user-agent block when it was `true` before: the model's `uaOK` -/
theorem ua_block_eq_uaOK :
    (if (true && !cfg.acceptUA) then (o.ua == 0 || o.ua == Sx.agentHash r.ua) else true) = Sx.uaOK cfg o.ua (Sx.agentHash r.ua) := by
  unfold Sx.uaOK; cases cfg.acceptUA <;> simp

/-- every other assignment to `valid` in `Start` is the constant `false` -/
theorem start_valid_only_cleared :
    ((pickKind Facts.conds "Start" "set").filter (fun e => !mentions "agentHash" e.2)).map (fun e => (e.1, eval (startEnv cfg now o r valid i) e.2)) =
      [("valid", some (.bool false)), ("valid", some (.bool false))] := by
  conds_tac []

/-! ### `Start`: the address test -/

/-- the two guards of the address block and the loop header: `valid && n > 1`; both addresses matched (5 = whole match + 4
groups) and `n <= 4`; `for i := 1; i < n; i++` -/
theorem start_ip_guards :
    (pick Facts.conds "Start" "if" "AcceptRemoteIP").map (eval (startEnv cfg now o r valid i)) =
      [some (.bool (valid && decide (cfg.acceptIP > 1))),
       some (.bool (((groups o.ip).length == 5 && (groups r.ip).length == 5) && decide (cfg.acceptIP ≤ 4)))] ∧
    ((pickKind Facts.conds "Start" "for").filter (fun e => mentions "AcceptRemoteIP" e.2)).map (fun e => (e.1, eval (startEnv cfg now o r valid i) e.2)) =
      [("i := 1 ; i++", some (.bool (decide (i < cfg.acceptIP))))] := by
  constructor <;> simp [pick, pickKind, Facts.conds, mentions, eval, startEnv, binV, cmpInt, ipPat, cast_beq5]

/-- the loop body compares group `i` of the recorded address with group `i` of the request's -/
theorem start_ip_body (hi : 0 ≤ i) (h1 : i.toNat < (groups o.ip).length) (h2 : i.toNat < (groups r.ip).length) :
    (pick Facts.conds "Start" "if" "i").map (eval (startEnv cfg now o r valid i)) =
      [some (.bool ((groups o.ip).getD i.toNat "" != (groups r.ip).getD i.toNat ""))] := by
  conds_tac [startEnv, ipPat, hi, h1, h2]

/-- the Go loop `for i := 1; i < n; i++ { if p[i] != c[i] { valid = false; break } }` -/
def goLoop (p c : List String) (n : Int) : Nat → Int → Bool
  | 0, _ => true
  | fuel + 1, i => if i < n then (if p.getD i.toNat "" != c.getD i.toNat "" then false else goLoop p c n fuel (i + 1)) else true

/-- the value of `valid` after the address block when it was `true` before, assembled from the canonical forms above -/
def goIP (prev cur : String) : Bool :=
  if (true && decide (cfg.acceptIP > 1)) then
    if (((groups prev).length == 5 && (groups cur).length == 5) && decide (cfg.acceptIP ≤ 4)) then
      goLoop (groups prev) (groups cur) cfg.acceptIP 4 1
    else true
  else true

def nDigits : List Sx.Pat → Nat
  | [] => 0
  | .digits :: ps => nDigits ps + 1
  | _ :: ps => nDigits ps

theorem matchPat_length : ∀ (ps : List Sx.Pat) (cs : List Char) (g : List (List Char)),
    Sx.matchPat ps cs = some g → g.length = nDigits ps := by
  intro ps
  induction ps with
  | nil => intro cs g h; simp [Sx.matchPat] at h; simp [h.2.symm, nDigits]
  | cons p ps ih =>
    intro cs g h
    cases p with
    | any =>
      cases cs with
      | nil => simp [Sx.matchPat] at h
      | cons c cs' =>
        simp only [Sx.matchPat] at h
        split at h
        · cases h
        · simpa [nDigits] using ih cs' g h
    | colon =>
      cases cs with
      | nil => simp [Sx.matchPat] at h
      | cons c cs' =>
        simp only [Sx.matchPat] at h
        split at h
        · simpa [nDigits] using ih cs' g h
        · cases h
    | digits =>
      simp only [Sx.matchPat] at h
      obtain ⟨n, _, hn⟩ := List.exists_of_findSome?_eq_some h
      cases hm : Sx.matchPat ps (cs.drop n) with
      | none => simp [hm] at hn
      | some caps =>
        simp [hm] at hn
        subst hn
        simp [nDigits, ih _ _ hm]

theorem matchIP_length {a : String} {g : List (List Char)} (h : Sx.matchIP a = some g) : g.length = 4 := by
  unfold Sx.matchIP at h
  cases hm : Sx.matchPat Sx.ipPattern a.toList with
  | none => simp [hm] at h
  | some caps =>
    simp [hm] at h
    have := matchPat_length _ _ _ hm
    simp [Sx.ipPattern, nDigits] at this
    subst h
    simp [this]

theorem groups_length (a : String) : (groups a).length = if (Sx.matchIP a).isSome then 5 else 0 := by
  unfold groups
  cases h : Sx.matchIP a with
  | none => simp
  | some g => simp [matchIP_length h]

/-- the Go address block, read off the regenerated conditions, computes the model's `ipOK` -/
theorem goIP_eq_ipOK (prev cur : String) : goIP cfg prev cur = Sx.ipOK cfg prev cur := by
  unfold goIP Sx.ipOK
  by_cases hn : cfg.acceptIP > 1
  · simp only [hn, decide_true, Bool.and_self, if_true]
    cases hp : Sx.matchIP prev with
    | none => simp [groups, hp]
    | some p =>
      cases hc : Sx.matchIP cur with
      | none => simp [groups, hc]
      | some c =>
        have lp := matchIP_length hp
        have lc := matchIP_length hc
        by_cases h4 : cfg.acceptIP ≤ 4
        · simp only [groups_length, hp, hc, Option.isSome_some, if_true, h4, decide_true, Bool.and_self, beq_self_eq_true]
          match p, lp with
          | [p1, p2, p3, p4], _ =>
            match c, lc with
            | [c1, c2, c3, c4], _ =>
              have : cfg.acceptIP = 2 ∨ cfg.acceptIP = 3 ∨ cfg.acceptIP = 4 := by omega
              rcases this with h | h | h <;>
                simp [groups, hp, hc, h, goLoop, String.ofList_inj] <;> grind
        · simp [groups_length, hp, hc, h4]
  · simp [hn]

end FactsConds
