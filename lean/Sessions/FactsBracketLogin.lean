import Sessions.Generated.Facts
/-! Critical-section bracket read from the source by /verif/extract (brackets.go); see DESIGN.md §5.2. -/
namespace FactsBrackets

/-- `LogIn` rotates the id only between `sessionIDMutexes.Lock` and the deferred `Unlock` -/
theorem login_is_critical_section : Facts.loginLockBracket = true := rfl

end FactsBrackets
