import Sessions.FactsIrStartUnfold
/-! # `Start`, stage (d): a session that fails the validity test (stale, or another user agent), address test off -/
namespace FactsIr
open Sx Sx.Loc Ir

set_option linter.unusedSimpArgs false
set_option maxRecDepth 100000

set_option maxHeartbeats 1600000 in
/-- **(d) invalid session** (with `AcceptRemoteIP ≤ 1`): destroyed, then the creation branch. -/
theorem start_invalid_eq (cfg : Cfg) (s s1 : State) (r : Req) (lenOf : ID → Nat) (id : ID) (h : Nat) (e1 : List Ev)
    (hc : r.cookie = some id) (hlen : lenOf id = r.cookieLen) (hl : r.cookieLen = 24)
    (hg : cacheGet cfg s id = (s1, .some h, e1)) (hh : h < s1.heap.length) (hip : cfg.acceptIP ≤ 1)
    (hv : validFor cfg s1.now (s1.obj h) r = false) :
    Ir.execP (startPar cfg lenOf) Facts.ir_Start s (startArgs r) = Ir.ofStart (Sx.start cfg s r) := by
  have h24 : ((lenOf id : Nat) : Int) = 24 := by omega
  have hip' : ¬ 1 < cfg.acceptIP := by omega
  rw [start_invalid hc hl hg hv, startArgs, execP_start, startInvalid]
  simp [validFor, ipOK, uaOK, since, hip', agentHash, State.obj, hh] at hv
  cases hcr : r.create with
  | false =>
    simp only [createNew_no _ hcr]
    start_eval [hc, hcr, h24, hg, hip', since, agentHash, hh]
    intro hgood
    exfalso
    apply hgood
    by_cases hA : s1.now - s1.heap[h].lastAccess < cfg.sessionExpiry
    · rw [if_pos hA]
      obtain ⟨⟨hU, h0⟩, hX⟩ := hv hA
      rw [if_neg (by simp [hU])]
      exact ⟨h0, hX⟩
    · rw [if_neg hA]; omega
  | true =>
    simp only [createNew_yes _ hcr]
    start_eval [hc, hcr, h24, hg, hip', since, agentHash, hh, newS1]
    intro hgood
    exfalso
    apply hgood
    by_cases hA : s1.now - s1.heap[h].lastAccess < cfg.sessionExpiry
    · rw [if_pos hA]
      obtain ⟨⟨hU, h0⟩, hX⟩ := hv hA
      rw [if_neg (by simp [hU])]
      exact ⟨h0, hX⟩
    · rw [if_neg hA]; omega

end FactsIr
