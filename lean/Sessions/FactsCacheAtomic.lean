import Sessions.Generated.Facts
/-!
Every persistence call the cache's own functions make happens while the cache lock is held (read from the source by
/verif/extract, locks.go): `cache.Get`, `cache.Set`, `cache.Delete` and `PurgeSessions` are ONE critical section each, map
update and store call together, and `compact` runs under its caller's lock. This is what makes the model's `cacheGet`,
`cacheSet`, `cacheDelete`, `purge` atomic steps: no other request can see the cache between a map update and the store
call that belongs to it (a session deleted from the map but still in the store, a record loaded but not yet cached, a
purge whose flushes arrive after later deletes).
-/
namespace FactsCacheAtomic

/-- no persistence call of the cache's functions is made outside the cache lock -/
theorem cache_store_calls_locked :
    Facts.cachePersistenceCalls.all (fun e => e.2.2.2 == "W" || e.2.2.2 == "caller") = true := by decide

/-- the table covers the five functions the model treats as atomic, and no others -/
theorem cache_store_calls_cover :
    (["PurgeSessions", "cache.Delete", "cache.Get", "cache.Set", "cache.compact"].all
      (fun f => Facts.cachePersistenceCalls.any (fun e => e.1 == f))) = true ∧
    (Facts.cachePersistenceCalls.all
      (fun e => ["PurgeSessions", "cache.Delete", "cache.Get", "cache.Set", "cache.compact"].contains e.1)) = true := by decide

/-- `compact` relies on its callers, and every call of it is made with the cache lock held -/
theorem compact_callers_locked : Facts.compactCallSites.all (fun e => e.2.2) = true := by decide

end FactsCacheAtomic
